// C17: threaded domain assembly - synthetic instrumented job (exactly-once, overlap, structure, checksum oracles)
#include "common/c17_sched_core.hpp"
void c17_register_sched(std::vector<vf::Target>& tg, const std::string& prefix) { c17::add_sched_targets(tg, prefix); }
namespace c17 { std::atomic<int>& tsan_reports() { static std::atomic<int> n{0}; return n; } std::string& tsan_first() { static std::string s; return s; } int& verdict_fd() { static int fd = -1; return fd; } }
