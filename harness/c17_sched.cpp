// C17: threaded domain assembly - synthetic instrumented job (exactly-once, overlap, structure, checksum oracles)
#include "common/c17_sched_core.hpp"
int main(int argc, char** argv)
{
  FEAT::Runtime::ScopeGuard guard(argc, argv);
  std::vector<vf::Target> tg;
  c17::add_sched_targets(tg, "");
  return vf::main_impl(argc, argv, tg);
}
