// C07, class "exact (lucky) breakdown": the initial residual spans an invariant subspace of dimension 1 and every quantity of the
// first Arnoldi step is exact in floating point (diagonal matrix or a single free unknown behind a unit filter, dyadic data, the
// right-hand side a multiple of a unit vector), so the pseudo-residual is exactly 0 after one step.  GMRES(k), FGMRES(k) and
// IDR(s) terminate such a solve with 'success' and the exact solution on the pinned tree for every restart length; this is the
// textbook behaviour ("lucky breakdown" = exact solution found) and part of "converges on nonsingular systems within scope".
// (BiCGStab(l >= 2) divides 0/0 here - a breakdown inherent to the method, see findings/C07.md scope fact ii - and is not claimed.)
#pragma once
#include "common/vf.hpp"
#include <kernel/lafem/sparse_matrix_csr.hpp>
#include <kernel/lafem/dense_vector.hpp>
#include <kernel/lafem/none_filter.hpp>
#include <kernel/lafem/unit_filter.hpp>
#include <kernel/solver/fgmres.hpp>
#include <kernel/solver/gmres.hpp>
#include <kernel/solver/idrs.hpp>

namespace c07
{
  inline void lucky_case(vf::Tape& t, vf::Ctx& c)
  {
    using namespace FEAT; using namespace FEAT::LAFEM; using vf::J;
    typedef SparseMatrixCSR<double, Index> M; typedef DenseVector<double, Index> V;
    const int n = t.sized(1, 9, 1), k = t.range(0, n - 1), kind = t.range(0, 2), dim = t.range(1, 5);
    const int sys = (n >= 2) ? t.range(0, 1) : 0;      // 0 diagonal matrix + NoneFilter, 1 tridiagonal matrix, every unknown but k fixed by a UnitFilter
    const bool correct = t.flag(1, 3);
    auto dy = [&](int lo) { int q = t.range(lo, 24); return double(q) / 4.0; };
    std::vector<double> dg((size_t)n); for(auto& x : dg) { x = dy(1); if(t.flag(1, 4)) x = -x; }
    // the initial defect rho * e_k is +-2^j: its norm and the reciprocal of the norm are exact, so the first Krylov vector is +-e_k
    // exactly, A v = a_kk v exactly, and the pseudo-residual after one step is exactly 0 (with another rho, e.g. 6.4375, v has a
    // rounding error, the pseudo-residual is 1e-15 instead of 0 and (F)GMRES(k >= 2) runs into the 0/0 of scope fact ii)
    const double x0k = correct ? dy(0) : 0.0; double rho = std::ldexp(t.flag(1, 2) ? 1.0 : -1.0, t.range(0, 5) - 2);
    // variant "near breakdown" (known finding c07-gmres-near-breakdown on the pinned tree): the defect is an odd multiple of 1/16,
    // so the first basis vector may carry one rounding error and the pseudo-residual is ~1e-16 d0 instead of 0.  The solution
    // still lies in the first Krylov space and the estimate is far below every tolerance - the solve must succeed all the same.
    const bool near_bd = (kind <= 1) && t.flag(1, 4) && !c.excl("c07-gmres-near-breakdown");
    if(near_bd) { rho = double(2 * t.range(1, 60) + 1) / 16.0 * (rho < 0 ? -1.0 : 1.0); c.label("breakdown:near"); } else c.label("breakdown:exact");
    const double rk = rho + dg[(size_t)k] * x0k;   // exact: dyadic operands of small magnitude
    static const char* kn[] = {"fgmres", "gmres", "idrs"}; static const char* sn[] = {"diagonal", "single-free-dof"};
    c.desc.set("solver", std::string(kn[kind]) + "(" + std::to_string(dim) + ")"); c.desc.set("system", sn[sys]); c.desc.set("n", n); c.desc.set("k", k); c.desc.set("diag", J(dg)); c.desc.set("rhs_k", rk); c.desc.set("initial_defect", rho); c.desc.set("breakdown", near_bd ? "near" : "exact");
    c.desc.set("mode", correct ? "correct" : "apply"); c.desc.set("x0_k", x0k);
    c.label(std::string("solver:") + kn[kind]); c.label(std::string("system:") + sn[sys]); c.label("dim:" + std::to_string(dim)); c.label(correct ? "mode:correct" : "mode:apply");
    c.op = std::string(near_bd ? "near-breakdown:" : "lucky:") + kn[kind]; c.nontrivial = dim >= 2; c.announce();
    // matrix
    std::vector<Index> rp((size_t)n + 1, 0), ci; std::vector<double> va;
    for(int i = 0; i < n; ++i) { if(sys == 1 && i > 0) { ci.push_back(Index(i - 1)); va.push_back(-1.0); } ci.push_back(Index(i)); va.push_back(dg[(size_t)i]); if(sys == 1 && i + 1 < n) { ci.push_back(Index(i + 1)); va.push_back(-1.0); } rp[(size_t)i + 1] = Index(ci.size()); }
    const Index n1 = Index(n + 1), nz = Index(ci.size()); DenseVector<Index, Index> vrp(n1, Index(0)), vci(nz, Index(0)); V vva(nz, 0.0);
    for(size_t i = 0; i < rp.size(); ++i) vrp(Index(i), rp[i]); for(size_t i = 0; i < ci.size(); ++i) { vci(Index(i), ci[i]); vva(Index(i), va[i]); }
    const Index nr = Index(n); M A(nr, nr, vci, vva, vrp);
    V b(nr, 0.0), x(nr, 0.0); b(Index(k), rk); x(Index(k), x0k);
    const double want = rk / dg[(size_t)k];
    auto run = [&](auto solver)
    {
      solver->set_tol_rel(1e-8); solver->set_max_iter(50); solver->init();
      Solver::Status st = correct ? solver->correct(x, b) : solver->apply(x, b);
      const Index it = solver->get_num_iter(); solver->done();
      bool fin = true; for(Index i = 0; i < Index(n); ++i) fin = fin && std::isfinite(x(i));
      VF_CHECK(st == Solver::Status::success, "exact breakdown after the first Krylov step (the solution lies in the first Krylov space): " << kn[kind] << "(" << dim << ") returned " << st << " after " << it << " iterations, iterate " << (fin ? "finite" : "NOT finite"));
      VF_CHECK(fin, "success with a non-finite iterate");
      VF_CHECK(std::fabs(x(Index(k)) - want) <= 2e-14 * std::fabs(want) + 1e-300, "x_" << k << " = " << x(Index(k)) << ", the solution is " << want);
      for(Index i = 0; i < Index(n); ++i) if(int(i) != k) VF_CHECK(x(i) == 0.0, "x_" << i << " = " << x(i) << " although the equation is decoupled and its right-hand side is 0");
    };
    auto with_filter = [&](auto& f)
    {
      if(kind == 0) run(Solver::new_fgmres(A, f, Index(dim))); else if(kind == 1) run(Solver::new_gmres(A, f, Index(dim))); else run(Solver::new_idrs(A, f, Index(dim)));
    };
    if(sys == 0) { NoneFilter<double, Index> f; with_filter(f); }
    else { const Index nn = Index(n); UnitFilter<double, Index> f(nn); for(int i = 0; i < n; ++i) if(i != k) f.add(Index(i), 0.0); with_filter(f); }
  }
}
