// C16: trace assembler on 2D meshes (see c16_trace.hpp)
#include "c16_trace.hpp"
namespace c16 { template void trace_spaces<Shape::Hypercube<2>>(vf::Tape&, vf::Ctx&, const RawMesh&, int); template void trace_spaces<Shape::Simplex<2>>(vf::Tape&, vf::Ctx&, const RawMesh&, int); }
