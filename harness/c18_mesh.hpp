// C18 - own small mesh construction (no dependency on other workers' headers).
//
// A mesh is generated *by construction* from the tape as a structured grid of unit hypercubes
// (optionally with removed cells), optionally split into simplices, then re-numbered (vertex and
// cell permutation), re-oriented (per cell an orientation-preserving symmetry of the reference cell
// applied to the local vertex list) and geometrically distorted (bounded per-vertex jitter on the unit
// grid followed by an affine map with positive determinant).  The result is handed to feat3 through the
// public ConformalMesh(num_entities) constructor + deduct_topology_from_top(), the way feat3's own
// tools build meshes from vertex-at-cell lists.
#pragma once
#include "common/vf.hpp"
#include <array>
#include <numeric>

#include <kernel/runtime.hpp>
#include <kernel/geometry/conformal_mesh.hpp>
#include <kernel/geometry/index_calculator.hpp>

namespace c18
{
  using namespace FEAT;
  typedef vf::Tape Tape;
  typedef vf::Ctx Ctx;
  typedef vf::J J;

  struct MeshDesc
  {
    int dim = 2;
    bool simplex = false;
    std::vector<std::array<double, 3>> vtx;
    std::vector<std::vector<int>> cells;   // local vertex lists, feat3 reference numbering
    bool affine = true;                    // every cell transformation is affine
    bool shared_facet = false;             // at least two cells share a facet
    int components = 1;                    // connected components of the cell graph (cells adjacent via a common vertex)
    J js = J::obj();
    std::vector<std::string> labels;
  };

  /// Fisher-Yates from the tape; 0 on the tape -> identity
  inline std::vector<int> gen_perm(Tape& t, int n, int cls)
  {
    std::vector<int> p((size_t)n); std::iota(p.begin(), p.end(), 0);
    if(cls == 1) std::reverse(p.begin(), p.end());
    if(cls == 2) for(int i = n - 1; i > 0; --i) { int j = i - t.range(0, i); std::swap(p[(size_t)i], p[(size_t)j]); }
    return p;
  }

  inline long double det_ld(int d, const long double a[3][3])
  {
    if(d == 2) return a[0][0] * a[1][1] - a[0][1] * a[1][0];
    return a[0][0] * (a[1][1] * a[2][2] - a[1][2] * a[2][1]) - a[0][1] * (a[1][0] * a[2][2] - a[1][2] * a[2][0]) + a[0][2] * (a[1][0] * a[2][1] - a[1][1] * a[2][0]);
  }

  /// smallest vertex Jacobian determinant over all cells (columns = edge vectors along the reference axes)
  inline long double min_vertex_jacobian(const MeshDesc& m)
  {
    long double mn = 1e300L;
    const int d = m.dim;
    for(const auto& c : m.cells)
    {
      if(m.simplex)
      {
        long double a[3][3];
        for(int k = 0; k < d; ++k) for(int r = 0; r < d; ++r) a[r][k] = (long double)m.vtx[(size_t)c[(size_t)k + 1]][(size_t)r] - (long double)m.vtx[(size_t)c[0]][(size_t)r];
        mn = std::min(mn, det_ld(d, a) * (d == 2 ? 1.0L : 1.0L));
      }
      else
      {
        for(int b = 0; b < (1 << d); ++b)
        {
          long double a[3][3];
          for(int k = 0; k < d; ++k)
          {
            int lo = b & ~(1 << k), hi = b | (1 << k);
            for(int r = 0; r < d; ++r) a[r][k] = (long double)m.vtx[(size_t)c[(size_t)hi]][(size_t)r] - (long double)m.vtx[(size_t)c[(size_t)lo]][(size_t)r];
          }
          mn = std::min(mn, det_ld(d, a));
        }
      }
    }
    return mn;
  }

  /// the 24 rotations of the cube as (axis permutation, signs) with determinant +1
  inline const std::vector<std::array<int, 6>>& cube_rotations()
  {
    static std::vector<std::array<int, 6>> r;
    if(r.empty())
    {
      int pm[6][3] = {{0, 1, 2}, {1, 2, 0}, {2, 0, 1}, {0, 2, 1}, {2, 1, 0}, {1, 0, 2}};
      int ps[6] = {1, 1, 1, -1, -1, -1};
      for(int p = 0; p < 6; ++p) for(int s = 0; s < 8; ++s)
      {
        int sg[3] = {(s & 1) ? -1 : 1, (s & 2) ? -1 : 1, (s & 4) ? -1 : 1};
        if(ps[p] * sg[0] * sg[1] * sg[2] == 1) r.push_back({pm[p][0], pm[p][1], pm[p][2], sg[0], sg[1], sg[2]});
      }
      // identity first (0 on the tape -> simplest)
      for(size_t k = 0; k < r.size(); ++k) if(r[k] == std::array<int, 6>{0, 1, 2, 1, 1, 1}) { std::swap(r[0], r[k]); break; }
    }
    return r;
  }

  /// apply orientation preserving symmetry number s to a local vertex list
  inline std::vector<int> reorient(const std::vector<int>& c, int dim, bool simplex, int s)
  {
    std::vector<int> n(c.size());
    if(simplex && dim == 2) { for(int j = 0; j < 3; ++j) n[(size_t)j] = c[(size_t)((j + s) % 3)]; return n; }
    if(simplex && dim == 3)
    {
      static const int ev[12][4] = {{0, 1, 2, 3}, {0, 2, 3, 1}, {0, 3, 1, 2}, {1, 0, 3, 2}, {1, 2, 0, 3}, {1, 3, 2, 0}, {2, 0, 1, 3}, {2, 1, 3, 0}, {2, 3, 0, 1}, {3, 0, 2, 1}, {3, 1, 0, 2}, {3, 2, 1, 0}};
      for(int j = 0; j < 4; ++j) n[(size_t)j] = c[(size_t)ev[s % 12][j]]; return n;
    }
    if(dim == 2)
    {
      static const int cyc[4] = {0, 1, 3, 2};
      for(int i = 0; i < 4; ++i) n[(size_t)cyc[i]] = c[(size_t)cyc[(i + s) % 4]]; return n;
    }
    const auto& R = cube_rotations()[(size_t)s % 24];
    for(int j = 0; j < 8; ++j)
    {
      int x[3] = {(j & 1) ? 1 : -1, (j & 2) ? 1 : -1, (j & 4) ? 1 : -1}, y[3];
      for(int a = 0; a < 3; ++a) y[a] = R[(size_t)a + 3] * x[R[(size_t)a]];
      int idx = (y[0] > 0 ? 1 : 0) | (y[1] > 0 ? 2 : 0) | (y[2] > 0 ? 4 : 0);
      n[(size_t)j] = c[(size_t)idx];
    }
    return n;
  }
  inline int num_symmetries(int dim, bool simplex) { return simplex ? (dim == 2 ? 3 : 12) : (dim == 2 ? 4 : 24); }

  /// generate a mesh from the tape; \p big allows the larger grids of the thorough tier
  inline MeshDesc gen_mesh(Tape& t, int dim, bool simplex, bool big)
  {
    MeshDesc m; m.dim = dim; m.simplex = simplex;
    int n[3] = {1, 1, 1};
    if(dim == 2) { int hi = big ? 5 : 3; n[0] = 1 + t.sized(0, hi); n[1] = 1 + t.sized(0, hi); }
    else { int hi = big ? 2 : 1; n[0] = 1 + t.sized(0, hi, 1); n[1] = 1 + t.sized(0, hi, 1); n[2] = 1 + t.sized(0, big ? 2 : 1, 1); }
    const int ncg = n[0] * n[1] * n[2];
    // removed cells (holes / L-shapes); at least one cell is kept
    std::vector<int> keep((size_t)ncg, 1);
    const bool holes = (ncg > 1) && t.flag(1, 4);
    if(holes) { int left = ncg; for(int i = 0; i < ncg; ++i) if(left > 1 && t.flag(1, 4)) { keep[(size_t)i] = 0; --left; } }
    std::string mask; for(int i = 0; i < ncg; ++i) mask += keep[(size_t)i] ? '1' : '0';
    auto vid = [&](int i, int j, int k) { return (k * (n[1] + 1) + j) * (n[0] + 1) + i; };
    // simplex split
    int split = 0; std::string diag;
    if(simplex && dim == 3) split = t.range(0, 1); // 0: Kuhn (6 tetrahedra), 1: alternating 5-tetrahedra split
    std::vector<std::vector<int>> cells;
    for(int k = 0; k < n[2]; ++k) for(int j = 0; j < n[1]; ++j) for(int i = 0; i < n[0]; ++i)
    {
      const int ci = (k * n[1] + j) * n[0] + i;
      int dg = 0; if(simplex && dim == 2) { dg = t.range(0, 1); }
      if(!keep[(size_t)ci]) continue;
      int hv[8]; for(int b = 0; b < (1 << dim); ++b) hv[b] = vid(i + (b & 1), j + ((b >> 1) & 1), dim == 3 ? k + ((b >> 2) & 1) : 0);
      if(!simplex) { cells.emplace_back(hv, hv + (1 << dim)); continue; }
      if(dim == 2)
      {
        diag += char('0' + dg);
        if(dg == 0) { cells.push_back({hv[0], hv[1], hv[3]}); cells.push_back({hv[0], hv[3], hv[2]}); }
        else { cells.push_back({hv[0], hv[1], hv[2]}); cells.push_back({hv[1], hv[3], hv[2]}); }
        continue;
      }
      if(split == 0)
      {
        static const int pm[6][3] = {{0, 1, 2}, {1, 2, 0}, {2, 0, 1}, {0, 2, 1}, {2, 1, 0}, {1, 0, 2}};
        for(int p = 0; p < 6; ++p) { int a = 0, b1 = a | (1 << pm[p][0]), b2 = b1 | (1 << pm[p][1]); cells.push_back({hv[a], hv[b1], hv[b2], hv[7]}); }
      }
      else
      {
        const bool odd = ((i + j + k) & 1) != 0;
        static const int ev[5][4] = {{1, 2, 4, 7}, {0, 1, 2, 4}, {3, 1, 2, 7}, {5, 1, 4, 7}, {6, 2, 4, 7}};
        for(int q = 0; q < 5; ++q) { std::vector<int> c; for(int r = 0; r < 4; ++r) c.push_back(hv[odd ? (ev[q][r] ^ 1) : ev[q][r]]); cells.push_back(c); }
      }
    }
    // simplex meshes of a single grid cell: optionally keep only the first few simplices (single triangle/tetrahedron,
    // pairs, ...): the kept ones share the cell diagonal, so the mesh stays connected
    int kept = 0;
    if(simplex && ncg == 1 && t.flag(1, 2)) { kept = 1 + t.range(0, (int)cells.size() - 2); cells.resize((size_t)kept); }
    // compact the vertices
    std::vector<int> used((size_t)((n[0] + 1) * (n[1] + 1) * (n[2] + 1)), -1); int nv = 0;
    std::vector<std::array<double, 3>> vtx;
    for(auto& c : cells) for(auto& v : c)
    {
      if(used[(size_t)v] < 0)
      {
        used[(size_t)v] = nv++;
        int i = v % (n[0] + 1), j = (v / (n[0] + 1)) % (n[1] + 1), k = v / ((n[0] + 1) * (n[1] + 1));
        vtx.push_back({double(i), double(j), double(k)});
      }
      v = used[(size_t)v];
    }
    m.vtx = vtx; m.cells = cells;
    // positive orientation of every simplex (unit geometry): swap the last two vertices where needed
    if(simplex) for(auto& c : m.cells)
    {
      long double a[3][3];
      for(int q = 0; q < dim; ++q) for(int r = 0; r < dim; ++r) a[r][q] = (long double)m.vtx[(size_t)c[(size_t)q + 1]][(size_t)r] - (long double)m.vtx[(size_t)c[0]][(size_t)r];
      if(det_ld(dim, a) < 0) std::swap(c[(size_t)dim], c[(size_t)dim - 1]);
    }
    // geometry: jitter on the unit grid (radius halved until every vertex Jacobian stays >= 0.3 of the
    // unit value: validity by construction), then an affine map with positive determinant
    const int geo = t.pick({3, 2, 3, 2}); // 0 unit, 1 affine, 2 jitter, 3 affine+jitter
    double jr = 0.0;
    if(geo >= 2)
    {
      static const double rs[3] = {0.05, 0.1, 0.2};
      jr = rs[t.range(0, 2)];
      // 24 tape values tiled over the vertices (short tapes shrink faster)
      double jt[24]; for(int q = 0; q < 24; ++q) jt[q] = t.real(1) / 8.0; // dyadic in [-1,1]
      std::vector<std::array<double, 3>> dlt(m.vtx.size());
      for(size_t v = 0; v < dlt.size(); ++v) for(int r = 0; r < dim; ++r) dlt[v][(size_t)r] = jt[(v * 3 + (size_t)r) % 24];
      auto base = m.vtx;
      const long double nominal = 1.0L;
      for(int tries = 0; tries < 8; ++tries)
      {
        for(size_t v = 0; v < base.size(); ++v) for(int r = 0; r < dim; ++r) m.vtx[v][(size_t)r] = base[v][(size_t)r] + jr * dlt[v][(size_t)r];
        if(min_vertex_jacobian(m) >= 0.3L * nominal) break;
        jr *= 0.5; if(tries == 7) { jr = 0.0; m.vtx = base; }
      }
      bool any = false; for(auto& dd : dlt) for(int r = 0; r < dim; ++r) if(dd[(size_t)r] != 0.0) any = true;
      if(!any) jr = 0.0;
    }
    double A[3][3] = {{1, 0, 0}, {0, 1, 0}, {0, 0, 1}}, off[3] = {0, 0, 0};
    if(geo == 1 || geo == 3)
    {
      static const double sc[5] = {1.0, 0.5, 2.0, 0.25, 3.0}, sh[5] = {0.0, 0.25, -0.25, 0.5, -0.5};
      double D[3], U[3][3] = {{1, 0, 0}, {0, 1, 0}, {0, 0, 1}}, L[3][3] = {{1, 0, 0}, {0, 1, 0}, {0, 0, 1}};
      for(int r = 0; r < 3; ++r) D[r] = sc[t.range(0, 4)];
      for(int r = 0; r < dim; ++r) for(int q = r + 1; q < dim; ++q) { U[r][q] = sh[t.range(0, 4)]; L[q][r] = sh[t.range(0, 4)]; }
      for(int r = 0; r < 3; ++r) for(int q = 0; q < 3; ++q) { double s = 0; for(int p = 0; p < 3; ++p) s += U[r][p] * L[p][q] * D[q]; A[r][q] = s; }
      for(int r = 0; r < dim; ++r) off[r] = t.real(1);
      for(auto& v : m.vtx) { double x[3] = {v[0], v[1], v[2]}; for(int r = 0; r < dim; ++r) { double s = off[r]; for(int q = 0; q < dim; ++q) s += A[r][q] * x[q]; v[(size_t)r] = s; } }
    }
    m.affine = simplex || (jr == 0.0);
    // re-numbering and re-orientation
    const int vcls = t.pick({2, 1, 3}), ccls = t.pick({2, 1, 3}), ocls = t.pick({1, 2});
    std::vector<int> vp = gen_perm(t, (int)m.vtx.size(), vcls), cp = gen_perm(t, (int)m.cells.size(), ccls);
    {
      std::vector<std::array<double, 3>> nvx(m.vtx.size());
      for(size_t v = 0; v < m.vtx.size(); ++v) nvx[(size_t)vp[v]] = m.vtx[v];
      m.vtx = nvx;
      std::vector<std::vector<int>> nc(m.cells.size());
      for(size_t c = 0; c < m.cells.size(); ++c) { nc[(size_t)cp[c]] = m.cells[c]; for(auto& v : nc[(size_t)cp[c]]) v = vp[(size_t)v]; }
      m.cells = nc;
    }
    std::vector<int> orient;
    if(ocls == 1) for(auto& c : m.cells) { int s = t.range(0, num_symmetries(dim, simplex) - 1); orient.push_back(s); c = reorient(c, dim, simplex, s); }
    bool any_or = false; for(int s : orient) if(s) any_or = true;
    // shared facet?
    {
      std::map<std::vector<int>, int> fc;
      for(auto& c : m.cells)
      {
        const int nl = (int)c.size();
        if(simplex) { for(int o = 0; o < nl; ++o) { std::vector<int> f; for(int q = 0; q < nl; ++q) if(q != o) f.push_back(c[(size_t)q]); std::sort(f.begin(), f.end()); fc[f]++; } }
        else { for(int a = 0; a < dim; ++a) for(int s = 0; s < 2; ++s) { std::vector<int> f; for(int b = 0; b < nl; ++b) if(((b >> a) & 1) == s) f.push_back(c[(size_t)b]); std::sort(f.begin(), f.end()); fc[f]++; } }
      }
      for(auto& kv : fc) if(kv.second >= 2) m.shared_facet = true;
    }
    // connected components (union-find over cells sharing a vertex)
    {
      std::vector<int> par(m.cells.size()); std::iota(par.begin(), par.end(), 0);
      std::function<int(int)> find = [&](int x) { while(par[(size_t)x] != x) { par[(size_t)x] = par[(size_t)par[(size_t)x]]; x = par[(size_t)x]; } return x; };
      std::vector<int> first(m.vtx.size(), -1);
      for(size_t cc = 0; cc < m.cells.size(); ++cc) for(int v : m.cells[cc]) { if(first[(size_t)v] < 0) first[(size_t)v] = (int)cc; else par[(size_t)find((int)cc)] = find(first[(size_t)v]); }
      std::set<int> roots; for(size_t cc = 0; cc < m.cells.size(); ++cc) roots.insert(find((int)cc));
      m.components = (int)roots.size();
    }
    // description
    m.js.set("shape", simplex ? (dim == 2 ? "tria" : "tetra") : (dim == 2 ? "quad" : "hexa"));
    { J g = J::arr(); for(int r = 0; r < dim; ++r) g.add(n[r]); m.js.set("grid", g); }
    if(holes) m.js.set("mask", mask);
    if(simplex && dim == 2) m.js.set("diag", diag);
    if(simplex && dim == 3) m.js.set("split", split == 0 ? "kuhn6" : "alt5");
    if(kept) m.js.set("kept", kept);
    m.js.set("cells", (long long)m.cells.size());
    m.js.set("geo", geo == 0 ? "unit" : geo == 1 ? "affine" : geo == 2 ? "jitter" : "affine+jitter");
    if(geo == 1 || geo == 3) { J a = J::arr(); for(int r = 0; r < dim; ++r) for(int q = 0; q < dim; ++q) a.add(A[r][q]); m.js.set("A", a); }
    if(jr > 0) m.js.set("jitter", jr);
    { std::string raw((const char*)m.vtx.data(), m.vtx.size() * sizeof(m.vtx[0])); char b[20]; snprintf(b, sizeof b, "%016llx", (unsigned long long)vf::fnv64(raw)); m.js.set("xhash", std::string(b)); }
    if(vcls) m.js.set("vperm", vcls == 1 ? J("reversed") : J(vp));
    if(ccls) m.js.set("cperm", ccls == 1 ? J("reversed") : J(cp));
    if(any_or) m.js.set("orient", J(orient));
    m.labels.push_back(std::string("cells:") + (m.cells.size() == 1 ? "1" : m.cells.size() <= 4 ? "2-4" : m.cells.size() <= 16 ? "5-16" : ">16"));
    m.labels.push_back(std::string("geo:") + (jr > 0 ? ((geo == 3) ? "affine+jitter" : "jitter") : ((geo == 1 || geo == 3) ? "affine" : "unit")));
    if(holes && mask.find('0') != std::string::npos) m.labels.push_back("mesh:holes");
    if(m.components > 1) { m.labels.push_back("mesh:disconnected"); m.js.set("components", m.components); }
    if(any_or) m.labels.push_back("mesh:reoriented");
    if(vcls || ccls) m.labels.push_back("mesh:renumbered");
    if(simplex && dim == 3) m.labels.push_back(split == 0 ? "split:kuhn6" : "split:alt5");
    return m;
  }

  template<typename Shape_> using MeshT = Geometry::ConformalMesh<Shape_, Shape_::dimension, double>;

  /// Factory filling the vertex set and the vertices-at-cell index set; the redundant index sets are computed by
  /// RedundantIndexSetBuilder (the protocol of Geometry::ShapeConvertFactory)
  template<typename Shape_>
  class GenFactory : public Geometry::Factory<MeshT<Shape_>>
  {
  public:
    typedef MeshT<Shape_> MeshType;
    typedef typename MeshType::VertexSetType VertexSetType;
    typedef typename MeshType::IndexSetHolderType IndexSetHolderType;
    static constexpr int dim = Shape_::dimension;
    const MeshDesc& d; Index ne[4]; bool filled = false;
    explicit GenFactory(const MeshDesc& d_, const Index* ne_) : d(d_) { for(int i = 0; i < 4; ++i) ne[i] = ne_[i]; }
    // before fill_index_sets the sub-dimensional counts are reported as zero so that RedundantIndexSetBuilder computes the
    // vertex-at-subshape sets (it does so only for empty sets); the mesh constructor asks again afterwards
    virtual Index get_num_entities(int dm) override { return (filled || dm == 0 || dm == dim) ? ne[dm] : Index(0); }
    virtual void fill_vertex_set(VertexSetType& vs) override { for(size_t i = 0; i < d.vtx.size(); ++i) for(int k = 0; k < dim; ++k) vs[Index(i)][k] = d.vtx[i][(size_t)k]; }
    virtual void fill_index_sets(IndexSetHolderType& ish) override
    {
      auto& ic = ish.template get_index_set<dim, 0>();
      for(size_t c = 0; c < d.cells.size(); ++c) for(size_t j = 0; j < d.cells[c].size(); ++j) ic(Index(c), int(j)) = Index(d.cells[c][j]);
      Geometry::RedundantIndexSetBuilder<Shape_>::compute(ish);
      filled = true;
    }
  };

  /// hand the generated mesh to feat3.
  /// via_deduct = true: ConformalMesh(num_entities) + deduct_topology_from_top() (protocol of tools/mesh_tools/mesh_indexer),
  /// which additionally re-orients the boundary facets; false: through a Factory (protocol of ShapeConvertFactory).
  /// Domain note: for Simplex<3> only the Factory route is used.  deduct_topology_from_top() -> FacetFlipper ->
  /// CongruencyMapping<Simplex<2>,1>::flip (kernel/geometry/intern/congruency_mapping.hpp:170) swaps triangle edges 0/2 where
  /// the edge numbering {1,2},{2,0},{0,1} requires 1/2, leaving edges-at-face inconsistent on every flipped boundary triangle;
  /// the refinement of such a mesh is garbage.  That is a defect of the mesh construction (property C10's area, reported
  /// there), not of the transfer operators, and is kept out of this check.
  template<typename Shape_>
  std::unique_ptr<MeshT<Shape_>> build_mesh(const MeshDesc& d, bool via_deduct)
  {
    constexpr int dim = Shape_::dimension;
    std::set<std::vector<int>> edges, faces;
    for(const auto& c : d.cells)
    {
      const int nl = (int)c.size();
      if(d.simplex)
      {
        for(int a = 0; a < nl; ++a) for(int b = a + 1; b < nl; ++b) { std::vector<int> e{c[(size_t)a], c[(size_t)b]}; std::sort(e.begin(), e.end()); edges.insert(e); }
        if(dim == 3) for(int o = 0; o < nl; ++o) { std::vector<int> f; for(int q = 0; q < nl; ++q) if(q != o) f.push_back(c[(size_t)q]); std::sort(f.begin(), f.end()); faces.insert(f); }
      }
      else
      {
        for(int a = 0; a < nl; ++a) for(int k = 0; k < dim; ++k) if(!((a >> k) & 1)) { std::vector<int> e{c[(size_t)a], c[(size_t)(a | (1 << k))]}; std::sort(e.begin(), e.end()); edges.insert(e); }
        if(dim == 3) for(int k = 0; k < 3; ++k) for(int s = 0; s < 2; ++s) { std::vector<int> f; for(int b = 0; b < nl; ++b) if(((b >> k) & 1) == s) f.push_back(c[(size_t)b]); std::sort(f.begin(), f.end()); faces.insert(f); }
      }
    }
    if(via_deduct && !(d.simplex && dim == 3))
    {
      // sub-dimensional entity counts are left at zero: RedundantIndexSetBuilder computes vertex-at-subshape sets only
      // when they are empty
      Index ne[4] = {Index(d.vtx.size()), 0, 0, 0};
      ne[dim] = Index(d.cells.size());
      auto m = std::make_unique<MeshT<Shape_>>(ne);
      auto& vs = m->get_vertex_set();
      for(size_t i = 0; i < d.vtx.size(); ++i) for(int k = 0; k < dim; ++k) vs[Index(i)][k] = d.vtx[i][(size_t)k];
      auto& ic = m->template get_index_set<dim, 0>();
      for(size_t c = 0; c < d.cells.size(); ++c) for(size_t j = 0; j < d.cells[c].size(); ++j) ic(Index(c), int(j)) = Index(d.cells[c][j]);
      m->deduct_topology_from_top();
      return m;
    }
    Index ne[4] = {Index(d.vtx.size()), Index(edges.size()), Index(dim == 3 ? faces.size() : d.cells.size()), Index(d.cells.size())};
    GenFactory<Shape_> fac(d, ne);
    auto m = std::make_unique<MeshT<Shape_>>(fac);
    for(int k = 0; k <= dim; ++k) if(m->get_num_entities(k) != ne[k]) throw vf::Fail{"harness: entity count mismatch in generated mesh"};
    return m;
  }

  // ------------------------------------------------------------------------------------------------
  // geometric coarse/fine relation, derived from the vertex coordinates only (independent of
  // CoarseFineCellMapping, the refinement cubature tables and all mesh permutations)
  // ------------------------------------------------------------------------------------------------
  struct Rel
  {
    std::vector<int> parent;                                          // fine cell -> coarse cell
    std::vector<std::vector<std::array<long double, 3>>> vref;        // fine cell, local vertex -> coarse reference coordinates
    std::string error;
  };

  template<typename Mesh_>
  Rel relate(const Mesh_& fine, const Mesh_& coarse)
  {
    constexpr int dim = Mesh_::shape_dim;
    constexpr bool simplex = std::is_same<typename Mesh_::ShapeType, Shape::Simplex<dim>>::value;
    constexpr int nl = simplex ? dim + 1 : (1 << dim);
    const auto& fv = fine.get_vertex_set(); const auto& cv = coarse.get_vertex_set();
    const auto& fi = fine.template get_index_set<dim, 0>(); const auto& ci = coarse.template get_index_set<dim, 0>();
    const Index nf = fine.get_num_elements(), nc = coarse.get_num_elements();
    Rel r; r.parent.assign(nf, -1); r.vref.resize(nf);
    // coarse data
    std::vector<std::vector<std::array<long double, 3>>> lat; // hypercube: images of the 3^d lattice points
    std::vector<long double> diam(nc, 0.0L);
    for(Index c = 0; c < nc; ++c) for(int a = 0; a < nl; ++a) for(int b = 0; b < nl; ++b)
    { long double s = 0; for(int k = 0; k < dim; ++k) { long double dd = (long double)cv[ci(c, a)][k] - (long double)cv[ci(c, b)][k]; s += dd * dd; } diam[c] = std::max(diam[c], std::sqrt(s)); }
    int n3 = 1; for(int k = 0; k < dim; ++k) n3 *= 3;
    if(!simplex)
    {
      lat.resize(nc);
      for(Index c = 0; c < nc; ++c)
      {
        lat[c].resize((size_t)n3);
        for(int l = 0; l < n3; ++l)
        {
          int ll[3] = {l % 3 - 1, (l / 3) % 3 - 1, (l / 9) % 3 - 1};
          std::array<long double, 3> x{0, 0, 0};
          for(int b = 0; b < nl; ++b)
          {
            long double w = 1; for(int k = 0; k < dim; ++k) w *= (1.0L + (((b >> k) & 1) ? 1.0L : -1.0L) * ll[k]) / 2.0L;
            for(int k = 0; k < dim; ++k) x[(size_t)k] += w * (long double)cv[ci(c, b)][k];
          }
          lat[c][(size_t)l] = x;
        }
      }
    }
    for(Index f = 0; f < nf; ++f)
    {
      r.vref[f].resize(nl);
      for(Index c = 0; c < nc && r.parent[f] < 0; ++c)
      {
        bool ok = true; std::vector<std::array<long double, 3>> ref(nl);
        const long double tol = 1e-9L * diam[c];
        for(int j = 0; j < nl && ok; ++j)
        {
          long double x[3]; for(int k = 0; k < dim; ++k) x[k] = (long double)fv[fi(f, j)][k];
          if(!simplex)
          {
            int hit = -1;
            for(int l = 0; l < n3 && hit < 0; ++l) { long double s = 0; for(int k = 0; k < dim; ++k) { long double dd = x[k] - lat[c][(size_t)l][(size_t)k]; s += dd * dd; } if(std::sqrt(s) <= tol) hit = l; }
            if(hit < 0) { ok = false; break; }
            ref[(size_t)j] = {(long double)(hit % 3 - 1), (long double)((hit / 3) % 3 - 1), (long double)((hit / 9) % 3 - 1)};
          }
          else
          {
            // solve sum_k lambda_k (v_k - v_0) = x - v_0
            long double a[3][4];
            for(int rr = 0; rr < dim; ++rr) { for(int k = 0; k < dim; ++k) a[rr][k] = (long double)cv[ci(c, k + 1)][rr] - (long double)cv[ci(c, 0)][rr]; a[rr][dim] = x[rr] - (long double)cv[ci(c, 0)][rr]; }
            for(int p = 0; p < dim; ++p)
            {
              int piv = p; for(int q = p + 1; q < dim; ++q) if(std::fabs(a[q][p]) > std::fabs(a[piv][p])) piv = q;
              for(int q = 0; q <= dim; ++q) std::swap(a[p][q], a[piv][q]);
              for(int q = 0; q < dim; ++q) if(q != p) { long double ff = a[q][p] / a[p][p]; for(int s2 = p; s2 <= dim; ++s2) a[q][s2] -= ff * a[p][s2]; }
            }
            long double sum = 0; std::array<long double, 3> lam{0, 0, 0};
            for(int k = 0; k < dim; ++k) { lam[(size_t)k] = a[k][dim] / a[k][k]; sum += lam[(size_t)k]; if(lam[(size_t)k] < -1e-9L) ok = false; }
            if(sum > 1.0L + 1e-9L) ok = false;
            ref[(size_t)j] = lam;
          }
        }
        if(ok) { r.parent[f] = int(c); r.vref[f] = ref; }
      }
      if(r.parent[f] < 0) { r.error = "fine cell " + std::to_string(f) + " has no geometric parent"; return r; }
    }
    return r;
  }

  /// map a fine reference point to the reference coordinates of the parent cell (the child map is affine)
  template<int dim, bool simplex>
  inline void to_parent_ref(const std::vector<std::array<long double, 3>>& vref, const long double* xf, long double* xc)
  {
    constexpr int nl = simplex ? dim + 1 : (1 << dim);
    for(int k = 0; k < dim; ++k) xc[k] = 0;
    for(int j = 0; j < nl; ++j)
    {
      long double w = 1;
      if(simplex) { if(j == 0) { w = 1; for(int k = 0; k < dim; ++k) w -= xf[k]; } else w = xf[j - 1]; }
      else for(int k = 0; k < dim; ++k) w *= (1.0L + (((j >> k) & 1) ? 1.0L : -1.0L) * xf[k]) / 2.0L;
      for(int k = 0; k < dim; ++k) xc[k] += w * vref[(size_t)j][(size_t)k];
    }
  }
} // namespace c18
