// C20: container lifetimes - histories of construct / clone / convert / move / layout-share / range / clear / destroy
// against a reference-count model of the abstract arrays; after every command the contents of EVERY slot equal the
// model, the sharing structure (pointer identity) equals the model and MemoryPool::allocated_memory() equals the
// model's sum over live arrays; at the end all slots are destroyed in a generated order and the pool must be empty.
// Built with ASan+UBSan (flavour "asan") so heap errors are visible; the same decoder drives the libFuzzer target.
#include "common/lafem_gen.hpp"
#include "common/c01_core.hpp"
#include <kernel/util/memory_pool.hpp>
#include <kernel/lafem/sparse_vector_blocked.hpp>
#include <kernel/lafem/sparse_vector.hpp>
#include <memory>
using namespace vf;

typedef DenseVector<double, std::uint64_t> DV64;
typedef DenseVector<float, std::uint32_t> DV32;
typedef DenseVectorBlocked<double, std::uint64_t, 2> DVB2; typedef SparseVectorBlocked<double, std::uint64_t, 2> SVB2; typedef SparseVector<double, std::uint64_t> SV64;
typedef SparseMatrixCSR<double, std::uint64_t> CSR64;
typedef SparseMatrixCSR<float, std::uint32_t> CSR32;
typedef SparseMatrixBCSR<double, std::uint64_t, 2, 2> BCSR22;
typedef SparseMatrixCSCR<double, std::uint64_t> CSCR;
typedef SparseMatrixBanded<double, std::uint64_t> BAND;
enum Kind { K_DV64, K_DV32, K_DVB2, K_CSR64, K_CSR32, K_BCSR22, K_CSCR, K_BAND, K_SVB2, K_COUNT, K_SV64 = K_COUNT };   // K_SV64 is decoded as a variant of K_SVB2 (keeps the kind draw of stored tapes)
static const char* kname[] = {"dv<double,u64>", "dv<float,u32>", "dvb<2>", "csr<double,u64>", "csr<float,u32>", "bcsr<2,2>", "cscr", "banded", "svb<2>", "sv<double,u64>"};

// ---------------------------------------------------------------- model
struct Arr { bool is_index = false; size_t count = 0, esz = 0; std::vector<double> dv; std::vector<std::uint64_t> iv; bool defined = true; };
struct MSlot { int kind = -1; std::vector<int> e, i; bool view = false; size_t off = 0, len = 0; };
struct Model
{
  std::map<int, Arr> arr; int next = 1; MSlot s[8]; std::vector<int> lay[4]; int laykind[4] = {-1, -1, -1, -1};   // lay: index arrays referenced by held SparseLayout objects
  int add_e(size_t n, size_t esz, const std::vector<double>& v, bool def = true) { Arr a; a.count = n; a.esz = esz; a.dv = v; a.dv.resize(n, 0.0); a.defined = def; arr[next] = a; return next++; }
  int add_i(size_t n, size_t esz, const std::vector<std::uint64_t>& v, bool def = true) { Arr a; a.is_index = true; a.count = n; a.esz = esz; a.iv = v; a.iv.resize(n, 0); a.defined = def; arr[next] = a; return next++; }
  void gc() { std::set<int> live; for(auto& x : s) if(x.kind >= 0 && !x.view) { for(int k : x.e) live.insert(k); for(int k : x.i) live.insert(k); } for(int q = 0; q < 4; ++q) if(laykind[q] >= 0) for(int k : lay[q]) live.insert(k); for(auto it = arr.begin(); it != arr.end();) { if(!live.count(it->first)) it = arr.erase(it); else ++it; } }
  size_t bytes() const { size_t b = 0; for(auto& kv : arr) { size_t c = kv.second.count; if(c == 0) continue; if(c % 4) c += 4 - c % 4; b += c * kv.second.esz; } return b; }
  bool borrowed(int id, int except) const { for(int k = 0; k < 8; ++k) if(k != except && s[k].kind >= 0 && s[k].view) for(int q : s[k].e) if(q == id) return true; return false; }
  int owners(int id) const { int n = 0; for(auto& x : s) if(x.kind >= 0 && !x.view) { for(int q : x.e) if(q == id) ++n; for(int q : x.i) if(q == id) ++n; } return n; }
};

// ---------------------------------------------------------------- type-erased containers
struct Obj;
/// a SparseLayout object kept alive on its own (a sharing relative without value arrays)
struct LHold
{
  virtual ~LHold() {}
  virtual int kind() const = 0;
  virtual std::unique_ptr<Obj> build() const = 0;                 // matrix constructed from the held layout
  virtual std::unique_ptr<LHold> empty_same() const = 0;          // default constructed layout of the same type
  virtual std::unique_ptr<LHold> move_construct() = 0;            // new layout object from std::move(held)
  virtual void move_assign(LHold& other) = 0;                     // held = std::move(other.held)
};
struct Obj
{
  virtual ~Obj() {}
  virtual int kind() const = 0;
  virtual size_t ne() const = 0; virtual size_t ni() const = 0;
  virtual const void* eptr(size_t k) const = 0; virtual const void* iptr(size_t k) const = 0;
  virtual size_t ecount(size_t k) const = 0; virtual size_t icount(size_t k) const = 0;
  virtual double eget(size_t k, size_t q) const = 0; virtual std::uint64_t iget(size_t k, size_t q) const = 0;
  virtual void eset(size_t k, size_t q, double v) = 0;
  virtual std::unique_ptr<Obj> clone(CloneMode m) const = 0;
  virtual std::unique_ptr<Obj> share_convert() const = 0;       // same-type convert: shares all arrays
  virtual void clone_into(const Obj& other, CloneMode m) = 0;    // this->clone(other, m): an EXISTING object (possibly a range view) is the target
  virtual void share_into(const Obj& other) = 0;                // this->convert(other) on an existing object
  virtual std::unique_ptr<Obj> move_construct() = 0;            // new object from std::move(*this)
  virtual void move_assign(Obj& other) = 0;                     // this = std::move(other)   (same kind)
  virtual void clear() = 0;
  virtual void format(double v) = 0;
  virtual void copy_from(const Obj& other) = 0;                 // same kind, same layout sizes
  virtual std::unique_ptr<Obj> reserialize() const = 0;
  virtual std::unique_ptr<Obj> from_layout() const { return nullptr; }
  virtual std::unique_ptr<Obj> from_layout_assign(bool prefilled) const { (void)prefilled; return nullptr; }   // target = src.layout() (operator=)
  virtual std::unique_ptr<LHold> hold_layout() const { return nullptr; }
};
template<typename C, int K> struct LHoldT;
template<typename C, int K> struct ObjT : Obj
{
  C c; typedef typename C::DataType DT;
  ObjT() {} explicit ObjT(C&& x) : c(std::move(x)) {}
  int kind() const override { return K; }
  size_t ne() const override { return c.get_elements().size(); } size_t ni() const override { return c.get_indices().size(); }
  const void* eptr(size_t k) const override { return c.get_elements()[k]; } const void* iptr(size_t k) const override { return c.get_indices()[k]; }
  size_t ecount(size_t k) const override { return c.get_elements_size()[k]; } size_t icount(size_t k) const override { return c.get_indices_size()[k]; }
  double eget(size_t k, size_t q) const override { return (double)c.get_elements()[k][q]; } std::uint64_t iget(size_t k, size_t q) const override { return (std::uint64_t)c.get_indices()[k][q]; }
  void eset(size_t k, size_t q, double v) override { c.get_elements()[k][q] = DT(v); }
  std::unique_ptr<Obj> clone(CloneMode m) const override { return std::unique_ptr<Obj>(new ObjT(c.clone(m))); }
  std::unique_ptr<Obj> share_convert() const override { auto* o = new ObjT(); o->c.convert(c); return std::unique_ptr<Obj>(o); }
  void clone_into(const Obj& other, CloneMode m) override { c.clone(static_cast<const ObjT&>(other).c, m); }
  void share_into(const Obj& other) override { c.convert(static_cast<const ObjT&>(other).c); }
  std::unique_ptr<Obj> move_construct() override { return std::unique_ptr<Obj>(new ObjT(std::move(c))); }
  void move_assign(Obj& other) override { c = std::move(static_cast<ObjT&>(other).c); }
  void clear() override { c.clear(); }
  void format(double v) override { c.format(DT(v)); }
  void copy_from(const Obj& other) override { if constexpr(K != K_SVB2 && K != K_SV64) c.copy(static_cast<const ObjT&>(other).c); else (void)other; }
  std::unique_ptr<Obj> reserialize() const override { auto buf = c.serialize(); auto* o = new ObjT(); o->c.deserialize(buf); return std::unique_ptr<Obj>(o); }
  std::unique_ptr<Obj> from_layout() const override
  {
    if constexpr(K == K_CSR64 || K == K_CSR32 || K == K_BCSR22 || K == K_CSCR || K == K_BAND) { return std::unique_ptr<Obj>(new ObjT(C(c.layout()))); } else return nullptr;
  }
  std::unique_ptr<LHold> hold_layout() const override
  {
    if constexpr(K == K_CSR64 || K == K_CSR32 || K == K_BCSR22 || K == K_CSCR || K == K_BAND) { return std::unique_ptr<LHold>(new LHoldT<C, K>(c.layout())); } else return nullptr;
  }
  std::unique_ptr<Obj> from_layout_assign(bool prefilled) const override
  {
    // layout ASSIGNMENT to an existing object: empty (default constructed) or already holding its own arrays (a deep clone,
    // whose arrays the assignment has to release)
    if constexpr(K == K_CSR64 || K == K_CSR32 || K == K_BCSR22 || K == K_CSCR || K == K_BAND) { auto* o = new ObjT(); if(prefilled) o->c = c.clone(CloneMode::Deep); o->c = c.layout(); return std::unique_ptr<Obj>(o); } else return nullptr;
  }
};
template<typename C, int K> struct LHoldT : LHold
{
  typedef decltype(std::declval<const C&>().layout()) LT; LT lay;
  LHoldT() {} explicit LHoldT(LT&& l) : lay(std::move(l)) {}
  int kind() const override { return K; }
  std::unique_ptr<Obj> build() const override { return std::unique_ptr<Obj>(new ObjT<C, K>(C(lay))); }
  std::unique_ptr<LHold> empty_same() const override { return std::unique_ptr<LHold>(new LHoldT()); }
  std::unique_ptr<LHold> move_construct() override { return std::unique_ptr<LHold>(new LHoldT(std::move(lay))); }
  void move_assign(LHold& other) override { lay = std::move(static_cast<LHoldT&>(other).lay); }
};
typedef ObjT<DV64, K_DV64> ODV64; typedef ObjT<DV32, K_DV32> ODV32; typedef ObjT<DVB2, K_DVB2> ODVB2; typedef ObjT<CSR64, K_CSR64> OCSR64;
typedef ObjT<CSR32, K_CSR32> OCSR32; typedef ObjT<BCSR22, K_BCSR22> OBCSR; typedef ObjT<CSCR, K_CSCR> OCSCR; typedef ObjT<BAND, K_BAND> OBAND; typedef ObjT<SVB2, K_SVB2> OSVB2; typedef ObjT<SV64, K_SV64> OSV64;

static bool is_matrix(int k) { return k >= K_CSR64 && k != K_SVB2 && k != K_SV64; }
static size_t esz_of(int k) { return (k == K_DV32 || k == K_CSR32) ? 4 : 8; }
static size_t isz_of(int k) { return (k == K_DV32 || k == K_CSR32) ? 4 : 8; }

struct World
{
  std::unique_ptr<Obj> o[8]; std::unique_ptr<LHold> L[4]; Model m; J hist = J::arr(); Ctx* ctx = nullptr; long step = 0;
  void drop_layout(int a) { L[a].reset(); m.lay[a].clear(); m.laykind[a] = -1; m.gc(); }

  /// register the arrays of a freshly built (unshared) object in the model, reading their content from the object
  void adopt(int si, bool defined = true)
  {
    Obj& x = *o[si]; MSlot ms; ms.kind = x.kind();
    for(size_t k = 0; k < x.ne(); ++k) { std::vector<double> v; for(size_t q = 0; q < x.ecount(k); ++q) v.push_back(defined ? x.eget(k, q) : 0.0); ms.e.push_back(m.add_e(x.ecount(k), esz_of(ms.kind), v, defined)); }
    for(size_t k = 0; k < x.ni(); ++k) { std::vector<std::uint64_t> v; for(size_t q = 0; q < x.icount(k); ++q) v.push_back(defined ? x.iget(k, q) : 0); ms.i.push_back(m.add_i(x.icount(k), isz_of(ms.kind), v, defined)); }
    m.s[si] = ms;
  }
  void drop(int si) { // destroys slot si; views into arrays that would lose their last owner go first
    if(m.s[si].kind < 0) { o[si].reset(); return; }
    if(!m.s[si].view) for(int id : m.s[si].e) if(m.owners(id) == 1) for(int k = 0; k < 8; ++k) if(k != si && m.s[k].kind >= 0 && m.s[k].view && m.s[k].e[0] == id) { o[k].reset(); m.s[k] = MSlot(); }
    o[si].reset(); m.s[si] = MSlot(); m.gc();
  }
  void check(const std::string& after)
  {
    // contents and sharing structure of every slot
    std::map<int, const void*> seen;
    for(int si = 0; si < 8; ++si)
    {
      const MSlot& ms = m.s[si]; if(ms.kind < 0) continue; Obj& x = *o[si];
      if(ms.view)
      {
        const Arr& a = m.arr.at(ms.e[0]);
        VF_CHECK(x.ne() == 1 && x.ecount(0) == ms.len, "after " << after << ": view in slot " << si << " has size " << (x.ne() ? x.ecount(0) : 0) << " expected " << ms.len);
        if(a.defined) for(size_t q = 0; q < ms.len; ++q) VF_CHECK(x.eget(0, q) == a.dv[ms.off + q], "after " << after << ": view in slot " << si << " entry " << q << " = " << x.eget(0, q) << " expected " << a.dv[ms.off + q]);
        continue;
      }
      VF_CHECK(x.ne() == ms.e.size() && x.ni() == ms.i.size(), "after " << after << ": slot " << si << " (" << kname[ms.kind] << ") has " << x.ne() << "+" << x.ni() << " arrays, model " << ms.e.size() << "+" << ms.i.size());
      for(size_t k = 0; k < ms.e.size(); ++k)
      {
        const Arr& a = m.arr.at(ms.e[k]); VF_CHECK(x.ecount(k) == a.count, "after " << after << ": slot " << si << " value array " << k << " has " << x.ecount(k) << " entries, model " << a.count);
        if(a.count == 0) continue;
        auto it = seen.find(ms.e[k]); if(it == seen.end()) seen[ms.e[k]] = x.eptr(k); else VF_CHECK(it->second == x.eptr(k), "after " << after << ": slot " << si << " value array " << k << " should be shared but is a different allocation");
        if(a.defined) for(size_t q = 0; q < a.count; ++q) { double got = x.eget(k, q); VF_CHECK(got == a.dv[q] || (got != got && a.dv[q] != a.dv[q]), "after " << after << ": slot " << si << " (" << kname[ms.kind] << ") value array " << k << " entry " << q << " = " << got << " expected " << a.dv[q]); }
      }
      for(size_t k = 0; k < ms.i.size(); ++k)
      {
        const Arr& a = m.arr.at(ms.i[k]); VF_CHECK(x.icount(k) == a.count, "after " << after << ": slot " << si << " index array " << k << " has " << x.icount(k) << " entries, model " << a.count);
        if(a.count == 0) continue;
        auto it = seen.find(ms.i[k]); if(it == seen.end()) seen[ms.i[k]] = x.iptr(k); else VF_CHECK(it->second == x.iptr(k), "after " << after << ": slot " << si << " index array " << k << " should be shared but is a different allocation");
        if(a.defined) for(size_t q = 0; q < a.count; ++q) VF_CHECK(x.iget(k, q) == a.iv[q], "after " << after << ": slot " << si << " (" << kname[ms.kind] << ") index array " << k << " entry " << q << " = " << x.iget(k, q) << " expected " << a.iv[q]);
      }
    }
    // distinct model arrays are distinct allocations
    { std::map<const void*, int> back; for(auto& kv : seen) { auto r = back.insert({kv.second, kv.first}); VF_CHECK(r.second, "after " << after << ": two independent arrays share one allocation"); } }
    size_t got = (size_t)MemoryPool::allocated_memory(), want = m.bytes();
    VF_CHECK(got == want, "after " << after << ": MemoryPool holds " << got << " bytes, the model " << want);
  }
  void note(const J& h, const std::string& op) { hist.add(h); ctx->desc.set("history", hist); ctx->op = op; ctx->announce(); ++step; }
};

static std::unique_ptr<Obj> build(Tape& t, int kind, J& h)
{
  int vcls = t.pick({3, 1});
  switch(kind)
  {
  case K_DV64: { long n = t.sized(0, 12); std::vector<double> v = gen_values(t, (size_t)n, vcls); h.set("n", n); DV64 a((Index)n); vfill_all(a, v); return std::unique_ptr<Obj>(new ODV64(std::move(a))); }
  case K_DV32: { long n = t.sized(0, 12); std::vector<double> v = gen_values(t, (size_t)n, vcls); h.set("n", n); DV32 a((Index)n); vfill_all(a, v); return std::unique_ptr<Obj>(new ODV32(std::move(a))); }
  case K_DVB2: { long n = t.sized(0, 6); std::vector<double> v = gen_values(t, (size_t)(2 * n), vcls); h.set("n", n); DVB2 a((Index)n); vfill_all(a, v); return std::unique_ptr<Obj>(new ODVB2(std::move(a))); }
  case K_SVB2: { // sparse blocked vector filled entry by entry (duplicates allowed): more insertions than one allocation chunk (min(size,1000) blocks) make it grow
    long n = t.sized(1, 6); long m = t.sized(0, (int)(3 * n + 2)); std::vector<double> v = gen_values(t, (size_t)(2 * m), vcls); std::vector<long> ix; for(long k = 0; k < m; ++k) ix.push_back(t.range(0, (int)n - 1));
    h.set("n", n); h.set("inserted", J(ix)); SVB2 a((Index)n); for(long k = 0; k < m; ++k) { Tiny::Vector<double, 2> q; q[0] = v[(size_t)(2 * k)]; q[1] = v[(size_t)(2 * k + 1)]; a((Index)ix[(size_t)k], q); }
    a.sort();   // the lazy sort/merge happens here, not inside a later const operation
    // scalar sparse vector from the same insertion list (drawn last: tapes without this kind decode as before). 0..3n+2
    // back-to-back insertions into a vector of size n: the arrays are exactly full after n of them, the (n+1)st must
    // re-allocate (seeded C20k wrote it one past the end); checked after the build like every other command:
    // recorded counts <= pool block sizes, pool total == model, ASan on the fuzz flavour
    if(t.flag(1, 3)) { h.set("kind", kname[K_SV64]); SV64 b((Index)n); for(long k = 0; k < m; ++k) b((Index)ix[(size_t)k], v[(size_t)(2 * k)]);
      VF_CHECK(b.get_scalar_index().at(1) <= b.allocated_elements(), "SparseVector holds " << b.get_scalar_index().at(1) << " unsorted entries in arrays of capacity " << b.allocated_elements());
      if(m > 0) VF_CHECK(MemoryPool::allocated_size(b.get_elements().at(0)) >= b.allocated_elements() * sizeof(double) && MemoryPool::allocated_size(b.get_indices().at(0)) >= b.allocated_elements() * sizeof(std::uint64_t), "SparseVector: allocated_elements() = " << b.allocated_elements() << " exceeds the pool blocks");
      b.sort(); return std::unique_ptr<Obj>(new OSV64(std::move(b))); }
    return std::unique_ptr<Obj>(new OSVB2(std::move(a))); }
  case K_BAND: { Band b = gen_band(t, 6, vcls); h.set("A", b.json()); return std::unique_ptr<Obj>(new OBAND(make_banded<double, std::uint64_t>(b))); }
  default: { Pat p = gen_pattern(t, 6, vcls); h.set("A", p.json());
    if(kind == K_CSR64) return std::unique_ptr<Obj>(new OCSR64(make_csr<double, std::uint64_t>(p)));
    if(kind == K_CSR32) return std::unique_ptr<Obj>(new OCSR32(make_csr<float, std::uint32_t>(p)));
    if(kind == K_BCSR22) return std::unique_ptr<Obj>(new OBCSR(make_bcsr<double, std::uint64_t, 2, 2>(p)));
    return std::unique_ptr<Obj>(new OCSCR(make_cscr<double, std::uint64_t>(p))); }
  }
}

static void history_case(Tape& t, Ctx& c)
{
  World w; w.ctx = &c;
  VF_CHECK(MemoryPool::allocated_memory() == 0, "MemoryPool not empty at the start of the history");
  int nops = t.sized(2, 24, 2);
  std::set<std::string> ops_seen;
  enum { O_BUILD, O_CLONE, O_SHARE, O_XCONV, O_MOVEC, O_MOVEA, O_LAYOUT, O_VIEW, O_CLEAR, O_DESTROY, O_WRITE, O_FORMAT, O_SERIAL, O_COPY, O_LAYOBJ, O_N };
  static const char* on[] = {"construct", "clone", "convert:same-type", "convert:cross-type", "move-construct", "move-assign", "layout-share", "range-view", "clear", "destroy", "write", "format", "serialize-deserialize", "copy", "layout-object"};
  for(int st = 0; st < nops; ++st)
  {
    std::vector<int> live; for(int i = 0; i < 8; ++i) if(w.m.s[i].kind >= 0) live.push_back(i);
    int op = live.empty() ? O_BUILD : t.pick({5, 5, 3, 2, 2, 3, 2, 2, 2, 3, 3, 2, 1, 2, 4});
    int si = live.empty() ? 0 : live[(size_t)t.range(0, (int)live.size() - 1)]; int di = t.range(0, 7);
    J h = J::obj(); std::string opn = on[op];
    MSlot src = w.m.s[si];
    if(!live.empty() && (src.kind == K_SVB2 || src.kind == K_SV64) && (op == O_SERIAL || op == O_COPY || op == O_SHARE)) op = O_CLONE, opn = on[op];   // (serialisation of sparse vectors: C05; no copy(); same-type convert is a documented deep copy)
    // views (foreign memory) only support: deep clone, write, destroy, (being read)
    if(!live.empty() && src.view && op != O_LAYOBJ && !(op == O_CLONE || op == O_WRITE || op == O_DESTROY || op == O_BUILD || op == O_MOVEC || op == O_MOVEA)) op = O_DESTROY, opn = on[op];
    switch(op)
    {
    case O_BUILD: { int kind = t.range(0, K_COUNT - 1); h.set("op", opn); h.set("dst", di); h.set("kind", kname[kind]); auto nb = build(t, kind, h); c.label(std::string("built:") + kname[nb->kind()]); w.note(h, opn); w.drop(di); w.o[di] = std::move(nb); w.adopt(di); break; }
    case O_CLONE: { int mode = src.view ? 3 : t.range(0, 4); if(di == si) di = (si + 1) % 8; static const char* mn[] = {"shallow", "layout", "weak", "deep", "allocate"};
      opn = std::string("clone:") + mn[mode]; h.set("op", opn); h.set("src", si); h.set("dst", di); w.note(h, opn);
      // an existing object of the same kind in the target slot (a range view included) is RE-USED as the target of clone(other, mode), unless the
      // source is a view into an array only the target owns (clone() clears the target first: documented misuse)
      bool into = w.m.s[di].kind == src.kind && w.o[di]; if(into && src.view && !w.m.s[di].view) for(int id : w.m.s[di].e) if(id == src.e[0] && w.m.owners(id) == 1) into = false;
      if(into) c.label(w.m.s[di].view ? "clone-into:view-target" : "clone-into:existing-target");
      std::unique_ptr<Obj> nb; if(!into) nb = w.o[si]->clone((CloneMode)mode);
      // snapshot what the model needs from the source first: dropping dst may take a source *view* with it
      std::vector<double> viewvals; bool viewdef = true; if(src.view) { const Arr& a = w.m.arr.at(src.e[0]); viewdef = a.defined; viewvals.assign(a.dv.begin() + (long)src.off, a.dv.begin() + (long)(src.off + src.len)); }
      if(into) { std::unique_ptr<Obj> keep = std::move(w.o[di]); w.drop(di); if(w.m.s[si].kind < 0 || !w.o[si]) { keep.reset(); --st; continue; } keep->clone_into(*w.o[si], (CloneMode)mode); nb = std::move(keep); }
      else w.drop(di);
      w.o[di] = std::move(nb);
      MSlot ms; ms.kind = src.kind;
      if(src.view) ms.e.push_back(w.m.add_e(src.len, 8, viewvals, viewdef));
      else
      {
        for(int id : src.e) { const Arr a = w.m.arr.at(id); ms.e.push_back(mode == 0 ? id : w.m.add_e(a.count, a.esz, a.dv, (mode == 2 || mode == 3) && a.defined)); }
        for(int id : src.i) { const Arr a = w.m.arr.at(id); ms.i.push_back(mode <= 2 ? id : w.m.add_i(a.count, a.esz, a.iv, mode == 3 && a.defined)); }
      }
      w.m.s[di] = ms;
      if(mode == 4) { w.check(opn); w.drop(di); }   // Allocate: arrays uninitialised by definition; only lifetime/accounting is checked
      break; }
    case O_SHARE: { if(di == si) di = (si + 1) % 8; h.set("op", opn); h.set("src", si); h.set("dst", di); w.note(h, opn);
      const bool into = w.m.s[di].kind == src.kind && w.o[di]; if(into) c.label(w.m.s[di].view ? "convert-into:view-target" : "convert-into:existing-target");
      if(into) { std::unique_ptr<Obj> keep = std::move(w.o[di]); w.drop(di); if(w.m.s[si].kind < 0 || !w.o[si]) { keep.reset(); --st; continue; } keep->share_into(*w.o[si]); w.o[di] = std::move(keep); }
      else { auto nb = w.o[si]->share_convert(); w.drop(di); w.o[di] = std::move(nb); }
      w.m.s[di] = src; break; }
    case O_XCONV: { // DV64<->DV32, CSR64<->CSR32: copies into new arrays of the other types
      int tk = -1; switch(src.kind) { case K_DV64: tk = K_DV32; break; case K_DV32: tk = K_DV64; break; case K_CSR64: tk = K_CSR32; break; case K_CSR32: tk = K_CSR64; break; default: break; }
      if(tk < 0 && src.kind == K_DVB2 && !src.view && !src.e.empty() && w.m.arr.at(src.e[0]).count > 0)
      {
        // scalar view of a blocked vector: DenseVector::convert(DenseVectorBlocked) SHARES the value array (one more reference) and must
        // record its full length (blocks x block size): every later clone / convert / format of the view relies on that number
        if(di == si) di = (si + 1) % 8; opn = "convert:blocked-to-scalar"; h.set("op", opn); h.set("src", si); h.set("dst", di); w.note(h, opn);
        auto* q = new ODV64(); q->c.convert(static_cast<ODVB2&>(*w.o[si]).c);
        w.drop(di); if(w.m.s[si].kind < 0) { delete q; --st; continue; } w.o[di].reset(q); MSlot ms; ms.kind = K_DV64; ms.e = src.e; w.m.s[di] = ms; break;
      }
      if(tk < 0 && (src.kind == K_BCSR22 || src.kind == K_CSCR || src.kind == K_BAND))
      {
        // format-changing conversion into CSR<double,u64>: all arrays of the result are new; their recorded sizes must be the
        // sizes of their allocations (the pool accounting below compares them), their contents are taken from the object
        // (what the converted matrix holds is C02's subject)
        if(di == si) di = (si + 1) % 8; opn = "convert:to-csr"; h.set("op", opn); h.set("src", si); h.set("dst", di); h.set("from", kname[src.kind]); w.note(h, opn);
        auto* q = new OCSR64();
        if(src.kind == K_BCSR22) q->c.convert(static_cast<OBCSR&>(*w.o[si]).c); else if(src.kind == K_CSCR) q->c.convert(static_cast<OCSCR&>(*w.o[si]).c); else q->c.convert(static_cast<OBAND&>(*w.o[si]).c);
        w.drop(di); w.o[di].reset(q); w.adopt(di); break;
      }
      if(tk < 0) { --st; continue; }
      if(di == si) di = (si + 1) % 8; h.set("op", opn); h.set("src", si); h.set("dst", di); h.set("to", kname[tk]); w.note(h, opn);
      std::unique_ptr<Obj> nb;
      switch(src.kind) { case K_DV64: { auto* q = new ODV32(); q->c.convert(static_cast<ODV64&>(*w.o[si]).c); nb.reset(q); break; } case K_DV32: { auto* q = new ODV64(); q->c.convert(static_cast<ODV32&>(*w.o[si]).c); nb.reset(q); break; }
        case K_CSR64: { auto* q = new OCSR32(); q->c.convert(static_cast<OCSR64&>(*w.o[si]).c); nb.reset(q); break; } default: { auto* q = new OCSR64(); q->c.convert(static_cast<OCSR32&>(*w.o[si]).c); nb.reset(q); break; } }
      w.drop(di); w.o[di] = std::move(nb);
      MSlot ms; ms.kind = tk; bool narrow = (tk == K_DV32 || tk == K_CSR32);
      for(int id : src.e) { const Arr& a = w.m.arr.at(id); std::vector<double> v = a.dv; if(narrow) for(auto& x : v) x = (double)(float)x; ms.e.push_back(w.m.add_e(a.count, esz_of(tk), v, a.defined)); }
      for(int id : src.i) { const Arr& a = w.m.arr.at(id); ms.i.push_back(w.m.add_i(a.count, isz_of(tk), a.iv, a.defined)); }
      w.m.s[di] = ms; break; }
    case O_MOVEC: { if(di == si) di = (si + 1) % 8;
      if(src.view) { bool bad = false; if(w.m.s[di].kind >= 0 && !w.m.s[di].view) for(int id : w.m.s[di].e) if(id == src.e[0] && w.m.owners(id) == 1) bad = true; if(bad) { --st; continue; } }
      h.set("op", opn); h.set("src", si); h.set("dst", di); w.note(h, opn);
      w.drop(di); if(w.m.s[si].kind < 0) break;
      { auto nb = w.o[si]->move_construct(); w.o[si].reset();   // the moved-from object is destroyed right away
        w.o[di] = std::move(nb); w.m.s[di] = w.m.s[si]; w.m.s[si] = MSlot(); w.m.gc(); } break; }
    case O_MOVEA: { // move-assign onto an existing object of the same kind
      int dj = -1; for(int k : live) if(k != si && w.m.s[k].kind == src.kind && !w.m.s[k].view) {
        if(src.view) { bool owns = false; for(int id : w.m.s[k].e) if(id == src.e[0] && w.m.owners(id) == 1) owns = true; if(owns) continue; }   // never move a view onto the last owner of the viewed array
        dj = k; if(t.flag()) break; }
      if(dj < 0) { op = O_FORMAT; --st; continue; }
      h.set("op", opn); h.set("src", si); h.set("dst", dj); w.note(h, opn);
      // views into arrays only the target owns would dangle: drop them first (documented misuse otherwise)
      for(int id : w.m.s[dj].e) if(w.m.owners(id) == 1) for(int k = 0; k < 8; ++k) if(w.m.s[k].kind >= 0 && w.m.s[k].view && w.m.s[k].e[0] == id) { w.o[k].reset(); w.m.s[k] = MSlot(); }
      w.o[dj]->move_assign(*w.o[si]); w.m.s[dj] = src; w.m.s[si] = MSlot(); w.o[si].reset(); w.m.gc(); break; }
    case O_LAYOUT: { if(!is_matrix(src.kind)) { --st; continue; } if(di == si) di = (si + 1) % 8;
      const int lvar = t.range(0, 2); static const char* lvn[] = {"construct", "assign-to-empty", "assign-over-filled"}; c.label(std::string("layout:") + lvn[lvar]);
      h.set("op", opn); h.set("variant", lvn[lvar]); h.set("src", si); h.set("dst", di); w.note(h, opn);
      auto nb = (lvar == 0) ? w.o[si]->from_layout() : w.o[si]->from_layout_assign(lvar == 2); w.drop(di); w.o[di] = std::move(nb);
      MSlot ms; ms.kind = src.kind; ms.i = src.i; for(size_t k = 0; k < w.o[di]->ne(); ++k) ms.e.push_back(w.m.add_e(w.o[di]->ecount(k), esz_of(src.kind), {}, false));
      w.m.s[di] = ms; break; }
    case O_VIEW: { if(src.kind != K_DV64 || src.e.empty() || w.m.arr.at(src.e[0]).count == 0) { --st; continue; }
      if(di == si) di = (si + 1) % 8; const Arr& a = w.m.arr.at(src.e[0]); size_t len = (size_t)t.range(1, (int)a.count), off = (size_t)t.range(0, (int)(a.count - len));
      h.set("op", opn); h.set("src", si); h.set("dst", di); h.set("len", (long)len); h.set("off", (long)off); w.note(h, opn);
      w.drop(di); if(w.m.s[si].kind < 0) { --st; continue; }   // (dropping di may have removed views only, never si)
      w.o[di].reset(new ODV64(DV64(static_cast<ODV64&>(*w.o[si]).c, (Index)len, (Index)off)));
      MSlot ms; ms.kind = K_DV64; ms.view = true; ms.e.push_back(src.e[0]); ms.off = off; ms.len = len; w.m.s[di] = ms; break; }
    case O_CLEAR: { h.set("op", opn); h.set("slot", si); w.note(h, opn);
      for(int id : src.e) if(w.m.owners(id) == 1) for(int k = 0; k < 8; ++k) if(w.m.s[k].kind >= 0 && w.m.s[k].view && w.m.s[k].e[0] == id) { w.o[k].reset(); w.m.s[k] = MSlot(); }
      w.o[si]->clear(); w.m.s[si] = MSlot(); w.o[si].reset(); w.m.gc(); break; }
    case O_DESTROY: { h.set("op", opn); h.set("slot", si); w.note(h, opn); w.drop(si); break; }
    case O_WRITE: { size_t k = 0; size_t cnt = src.view ? src.len : (src.e.empty() ? 0 : w.m.arr.at(src.e[0]).count); if(cnt == 0) { --st; continue; }
      size_t q = (size_t)t.range(0, (int)cnt - 1); double v = t.real(1) + 50.0; h.set("op", opn); h.set("slot", si); h.set("entry", (long)q); h.set("value", v); w.note(h, opn);
      w.o[si]->eset(k, q, v); Arr& a = w.m.arr.at(src.e[0]); double stored = (esz_of(src.kind) == 4) ? (double)(float)v : v; a.dv[(src.view ? src.off : 0) + q] = stored; break; }
    case O_FORMAT: { double v = t.real(1); h.set("op", opn); h.set("slot", si); h.set("value", v); w.note(h, opn);
      w.o[si]->format(v); for(int id : src.e) { Arr& a = w.m.arr.at(id); double stored = (esz_of(src.kind) == 4) ? (double)(float)v : v; for(auto& x : a.dv) x = stored; a.defined = true; } break; }
    case O_SERIAL: { bool alldef = true; for(int id : src.e) alldef = alldef && w.m.arr.at(id).defined; for(int id : src.i) alldef = alldef && w.m.arr.at(id).defined; if(!alldef) { --st; continue; }
      if(di == si) di = (si + 1) % 8; h.set("op", opn); h.set("src", si); h.set("dst", di); w.note(h, opn);
      auto nb = w.o[si]->reserialize(); w.drop(di); w.o[di] = std::move(nb);
      MSlot ms; ms.kind = src.kind; for(int id : src.e) { const Arr& a = w.m.arr.at(id); ms.e.push_back(w.m.add_e(a.count, a.esz, a.dv)); } for(int id : src.i) { const Arr& a = w.m.arr.at(id); ms.i.push_back(w.m.add_i(a.count, a.esz, a.iv)); }
      // an object deserialised from a container without arrays may legitimately carry zero-length arrays: follow the object
      if(w.o[di]->ne() != ms.e.size() || w.o[di]->ni() != ms.i.size()) { bool empty = true; for(int id : ms.e) empty = empty && w.m.arr.at(id).count == 0; for(size_t k = 0; k < w.o[di]->ne(); ++k) empty = empty && w.o[di]->ecount(k) == 0; for(size_t k = 0; k < w.o[di]->ni(); ++k) empty = empty && w.o[di]->icount(k) == 0; if(empty) { w.m.s[di] = MSlot(); w.adopt(di); break; } }
      w.m.s[di] = ms; break; }
    case O_LAYOBJ: {
      // SparseLayout objects living on their own: hold the layout of a matrix, move-construct / move-assign it (also over a
      // layout that still references arrays), build a matrix from it, destroy it - in any order relative to the matrices
      int a = t.range(0, 3), b = (a + 1 + t.range(0, 2)) % 4; std::vector<int> held; for(int q = 0; q < 4; ++q) if(w.m.laykind[q] >= 0) held.push_back(q);
      int sub = t.pick({4, 3, 2, 3, 2}); static const char* sn[] = {"hold", "move-assign", "move-construct", "build-matrix", "destroy"};
      if(sub == 0 && (src.view || !is_matrix(src.kind))) { --st; if(t.flag()) ++st; continue; }
      if(sub != 0 && held.empty()) { --st; if(t.flag()) ++st; continue; }
      if(sub != 0) { b = held[(size_t)t.range(0, (int)held.size() - 1)]; if(a == b) a = (b + 1) % 4; }
      opn = std::string("layout-object:") + sn[sub]; h.set("op", opn);
      switch(sub)
      {
      case 0: { h.set("src", si); h.set("layout", a); w.note(h, opn); w.drop_layout(a); w.L[a] = w.o[si]->hold_layout(); w.m.lay[a] = src.i; w.m.laykind[a] = src.kind; break; }
      case 1: { const bool over = w.m.laykind[a] == w.m.laykind[b]; h.set("from", b); h.set("to", a); h.set("target", over ? "holds-arrays" : "empty"); c.label(over ? "layout-move-assign:over-filled" : "layout-move-assign:to-empty"); w.note(h, opn);
        if(!over) { w.drop_layout(a); w.L[a] = w.L[b]->empty_same(); }
        w.L[a]->move_assign(*w.L[b]); w.m.lay[a] = w.m.lay[b]; w.m.laykind[a] = w.m.laykind[b]; w.drop_layout(b); break; }
      case 2: { h.set("from", b); h.set("to", a); w.note(h, opn); w.drop_layout(a); auto nl = w.L[b]->move_construct();
        w.L[a] = std::move(nl); w.m.lay[a] = w.m.lay[b]; w.m.laykind[a] = w.m.laykind[b]; w.drop_layout(b); break; }
      case 3: { h.set("layout", b); h.set("dst", di); w.note(h, opn); auto nb = w.L[b]->build(); w.drop(di); w.o[di] = std::move(nb);
        MSlot ms; ms.kind = w.m.laykind[b]; ms.i = w.m.lay[b]; for(size_t k = 0; k < w.o[di]->ne(); ++k) ms.e.push_back(w.m.add_e(w.o[di]->ecount(k), esz_of(ms.kind), {}, false)); w.m.s[di] = ms; break; }
      default: { h.set("layout", b); w.note(h, opn); w.drop_layout(b); break; }
      }
      break; }
    default: { // copy: needs a second object of the same kind with identical array sizes
      int dj = -1; for(int k : live) if(k != si && w.m.s[k].kind == src.kind && !w.m.s[k].view && w.m.s[k].e.size() == src.e.size() && w.m.s[k].i.size() == src.i.size()) { bool same = true; for(size_t q = 0; q < src.e.size(); ++q) same = same && w.m.arr.at(w.m.s[k].e[q]).count == w.m.arr.at(src.e[q]).count; for(size_t q = 0; q < src.i.size(); ++q) same = same && w.m.arr.at(w.m.s[k].i[q]).count == w.m.arr.at(src.i[q]).count; if(same) { dj = k; break; } }
      bool alldef = true; for(int id : src.e) alldef = alldef && w.m.arr.at(id).defined;
      if(dj < 0 || !alldef) { --st; if(t.flag()) ++st; continue; }
      h.set("op", opn); h.set("src", si); h.set("dst", dj); w.note(h, opn);
      w.o[dj]->copy_from(*w.o[si]); for(size_t q = 0; q < src.e.size(); ++q) { Arr& a = w.m.arr.at(w.m.s[dj].e[q]); a.dv = w.m.arr.at(src.e[q]).dv; a.defined = true; } break; }
    }
    ops_seen.insert(opn.substr(0, opn.find(':')));
    w.check(opn + " (step " + std::to_string(st) + ")");
  }
  for(auto& s : ops_seen) c.label("op:" + s);
  c.nontrivial = ops_seen.size() >= 2;
  // destroy everything in a generated order; the pool must be empty afterwards
  std::vector<int> order = {0, 1, 2, 3, 4, 5, 6, 7}; for(int i = 8; i > 1; --i) std::swap(order[(size_t)i - 1], order[(size_t)t.range(0, i - 1)]);
  { J h = J::obj(); h.set("op", "destroy-all"); h.set("order", J(order)); w.note(h, "destroy-all"); }
  const int lpos = t.range(0, 8);   // the held layout objects die somewhere in between
  for(int q = 0; q < 8; ++q) { if(q == lpos) for(int a = 0; a < 4; ++a) w.drop_layout(a); w.drop(order[(size_t)q]); w.check("destroy-all"); }
  for(int a = 0; a < 4; ++a) w.drop_layout(a);
  VF_CHECK(MemoryPool::allocated_memory() == 0, "MemoryPool still holds " << MemoryPool::allocated_memory() << " bytes after all containers are gone");
}

#ifdef C20_LIBFUZZER
// libFuzzer entry: the same decoder on coverage-guided bytes; failures trap after dumping the case description
extern "C" int LLVMFuzzerTestOneInput(const uint8_t* data, size_t size)
{
  static bool init = false; if(!init) { int argc = 1; char arg0[] = "c20_fuzz"; char* argv[] = {arg0, nullptr}; char** av = argv; FEAT::Runtime::initialize(argc, av); init = true; }
  std::vector<uint32_t> tape; for(size_t i = 0; i + 4 <= size; i += 4) { uint32_t v; memcpy(&v, data + i, 4); tape.push_back(v); }
  Tape t(tape, 60); Ctx c;
  try { history_case(t, c); }
  catch(Fail& f) { fprintf(stderr, "C20-FAIL %s\nCASE %s\n", f.sym.c_str(), c.desc.str().c_str()); __builtin_trap(); }
  catch(Discard&) {}
  if(getenv("C20_STATS")) { static long n = 0, nt = 0; ++n; if(c.nontrivial) ++nt; if(n % 1000 == 0) { FILE* fs = fopen(getenv("C20_STATS"), "w"); if(fs) { fprintf(fs, "%ld %ld\n", n, nt); fclose(fs); } } }
  return 0;
}
#else
int main(int argc, char** argv)
{
  FEAT::Runtime::ScopeGuard guard(argc, argv);
  std::vector<Target> tg;
  tg.push_back({"history", history_case, 128, 24, 30000});
  return main_impl(argc, argv, tg);
}
#endif
