// C03: matrix algebra operations equal their dense definitions (restricted to the output pattern where the API
// says missing entries are dropped); required-pattern violations abort and never give silently wrong values.
#include "common/lafem_gen.hpp"
#include "common/c01_core.hpp"
using namespace vf;

template<typename DT> static long double K_u() { return unit_roundoff<DT>(); }
#define NEAR(got, ref, sumabs, n, what) do { long double vf_t_ = 8.0L * (long double)((n) + 3) * K_u<DT>() * (sumabs) + 16.0L * (long double)std::numeric_limits<DT>::min(); \
  VF_CHECK(std::isfinite((double)(got)) && fabsl((long double)(got) - (ref)) <= vf_t_, what << ": got " << (double)(got) << " expected " << (double)(ref) << " tol " << (double)vf_t_); } while(0)

/// ensure at least one entry (C03 does not quantify over entry-free operands: several kernels carry the explicit
/// precondition used_elements > 0 resp. read x[0])
static void ensure_entry(Tape& t, Pat& p, int valcls)
{
  if(p.nnz() > 0 || p.rows == 0 || p.cols == 0) return;
  int i = t.range(0, p.rows - 1), j = t.range(0, p.cols - 1); p.col[i].push_back(j); p.val[i].push_back(t.real_nz(valcls)); p.cls += "+1";
}

// ---------------------------------------------------------------- element-wise / reduction ops on CSR
template<typename DT, typename IT> static void csr_elem_case(Tape& t, Ctx& c)
{
  typedef SparseMatrixCSR<DT, IT> M; typedef DenseVector<DT, IT> V;
  enum { AXPY, SCALE, SCALE_ROWS, SCALE_COLS, LUMP, DIAG, FROB, ROWN2, ROWN2SQR, ROWN2SQR_SCALED, MAXABS, MINABS, MAX, MIN, SHRINK, NOPS };
  static const char* opn[] = {"axpy", "scale", "scale_rows", "scale_cols", "lump_rows", "extract_diag", "norm_frobenius", "row_norm2", "row_norm2sqr", "row_norm2sqr_scaled", "max_abs_element", "min_abs_element", "max_element", "min_element", "shrink"};
  int op = t.range(0, NOPS - 1);
  if(op == ROWN2SQR_SCALED && c.excl("c03-csr-scaled-rownorm")) op = ROWN2SQR;
  int vcls = t.pick({3, 1, 3});
  Pat p = gen_pattern(t, 16, vcls, op == DIAG, -1, 1); ensure_entry(t, p, vcls);
  std::vector<double> xval; for(auto& r : p.val) for(size_t k = 0; k < r.size(); ++k) xval.push_back(t.real(vcls));
  std::string acls; DT alpha = gen_alpha<DT>(t, acls);
  std::vector<double> sr = gen_values(t, (size_t)p.rows, vcls), sc = gen_values(t, (size_t)p.cols, vcls);
  DT eps = DT(std::fabs(t.real(vcls)));
  bool inplace = t.flag(1, 3);
  c.desc.set("kind", "csr"); c.desc.set("dt", TypeName<DT>::n()); c.desc.set("op", opn[op]); c.desc.set("A", p.json()); c.desc.set("xval", J(xval)); c.desc.set("alpha", (double)alpha);
  c.desc.set("s_rows", J(sr)); c.desc.set("s_cols", J(sc)); c.desc.set("eps", (double)eps); c.desc.set("inplace", inplace);
  c.op = opn[op]; c.label(std::string("op:") + opn[op]); c.label("pat:" + p.cls); if(p.has_empty_row()) c.label("has-empty-row"); if(op <= SCALE) c.label(acls);
  c.nontrivial = p.nnz() >= 2;
  M A = make_csr<DT, IT>(p); Dense D = dense_of(A);
  Pat px = p; { size_t q = 0; for(auto& r : px.val) for(auto& v : r) v = xval[q++]; } M X = make_csr<DT, IT>(px); Dense DX = dense_of(X);
  V vsr((Index)p.rows), vsc((Index)p.cols); vfill_all(vsr, sr); vfill_all(vsc, sc);
  std::vector<long double> SR, SC; vflat(vsr, SR); vflat(vsc, SC);
  std::string x0 = snapshot(X);
  c.announce();
  long double al = (long double)alpha;
  auto same_pattern = [&](const Dense& R) { VF_CHECK(R.stored == D.stored, opn[op] << " changed the sparsity pattern"); };
  switch(op)
  {
  case AXPY: { A.axpy(X, alpha); Dense R = dense_of(A); same_pattern(R);
    for(long i = 0; i < D.r; ++i) for(long j = 0; j < D.c; ++j) if(D.st(i, j)) NEAR(R(i, j), D(i, j) + al * DX(i, j), fabsl(D(i, j)) + fabsl(al * DX(i, j)), 2, "axpy (" << i << "," << j << ")"); break; }
  case SCALE: { if(inplace) A.scale(A, alpha); else A.scale(X, alpha); const Dense& S = inplace ? D : DX; Dense R = dense_of(A); same_pattern(R);
    for(long i = 0; i < D.r; ++i) for(long j = 0; j < D.c; ++j) if(D.st(i, j)) NEAR(R(i, j), al * S(i, j), fabsl(al * S(i, j)), 1, "scale (" << i << "," << j << ")"); break; }
  case SCALE_ROWS: case SCALE_COLS: { bool rows = (op == SCALE_ROWS);
    if(rows) { if(inplace) A.scale_rows(A, vsr); else A.scale_rows(X, vsr); } else { if(inplace) A.scale_cols(A, vsc); else A.scale_cols(X, vsc); }
    const Dense& S = inplace ? D : DX; Dense R = dense_of(A); same_pattern(R);
    for(long i = 0; i < D.r; ++i) for(long j = 0; j < D.c; ++j) if(D.st(i, j)) { long double f = rows ? SR[(size_t)i] : SC[(size_t)j]; NEAR(R(i, j), S(i, j) * f, fabsl(S(i, j) * f), 1, opn[op] << " (" << i << "," << j << ")"); }
    break; }
  case LUMP: { V l = A.lump_rows(); VF_CHECK((long)l.size() == D.r, "lump vector size"); for(long i = 0; i < D.r; ++i) { long double s = 0, sa = 0; long n = 0; for(long j = 0; j < D.c; ++j) if(D.st(i, j)) { s += D(i, j); sa += fabsl(D(i, j)); ++n; } NEAR(l.elements()[i], s, sa, n, "lump_rows row " << i); } break; }
  case DIAG: { V d = A.extract_diag(); DenseVector<IT, IT> di = A.extract_diag_indices();
    for(long i = 0; i < D.r; ++i) { VF_CHECK((long double)d.elements()[i] == D(i, i), "extract_diag row " << i << ": got " << d.elements()[i] << " expected " << (double)D(i, i));
      Index k = (Index)di.elements()[i]; if(D.st(i, i)) { VF_CHECK(k < A.used_elements() && (Index)A.col_ind()[k] == (Index)i && k >= (Index)A.row_ptr()[i] && k < (Index)A.row_ptr()[i + 1], "diag index of row " << i << " does not address the diagonal entry"); } else VF_CHECK(k == A.used_elements(), "diag index of row " << i << " without stored diagonal is " << k << " (expected used_elements)"); }
    break; }
  case FROB: { long double s = 0; long n = 0; for(long i = 0; i < D.r; ++i) for(long j = 0; j < D.c; ++j) if(D.st(i, j)) { s += D(i, j) * D(i, j); ++n; } NEAR(A.norm_frobenius(), sqrtl(s), sqrtl(s), n / 2 + 1, "norm_frobenius"); break; }
  case ROWN2: case ROWN2SQR: case ROWN2SQR_SCALED: { V rn((Index)p.rows, DT(-7));
    // the scaled variant takes a vector of the column space: row_norms_i = sum_j scal_j a_ij^2 (documented formula)
    if(op == ROWN2) A.row_norm2(rn); else if(op == ROWN2SQR) A.row_norm2sqr(rn); else A.row_norm2sqr(rn, vsc);
    for(long i = 0; i < D.r; ++i) { long double s = 0, sa = 0; long n = 0; for(long j = 0; j < D.c; ++j) if(D.st(i, j)) { long double w = (op == ROWN2SQR_SCALED) ? SC[(size_t)j] : 1.0L; s += w * D(i, j) * D(i, j); sa += fabsl(w) * D(i, j) * D(i, j); ++n; }
      if(op == ROWN2) NEAR(rn.elements()[i], sqrtl(s), sqrtl(s), n / 2 + 1, "row_norm2 row " << i); else NEAR(rn.elements()[i], s, sa, n + 1, opn[op] << " row " << i); }
    break; }
  case MAXABS: case MINABS: case MAX: case MIN: { long double ref = 0; bool first = true;
    for(long i = 0; i < D.r; ++i) for(long j = 0; j < D.c; ++j) if(D.st(i, j)) { long double v = D(i, j), a = fabsl(v); long double q = (op == MAXABS || op == MINABS) ? a : v; if(first) { ref = q; first = false; } else ref = (op == MAXABS || op == MAX) ? std::max(ref, q) : std::min(ref, q); }
    long double got = (op == MAXABS) ? A.max_abs_element() : (op == MINABS) ? A.min_abs_element() : (op == MAX) ? A.max_element() : A.min_element();
    VF_CHECK(got == ref, opn[op] << " returned " << (double)got << " expected " << (double)ref); break; }
  default: { A.shrink(eps); Dense R = dense_of(A); VF_CHECK(R.r == D.r && R.c == D.c, "shrink changed the dimensions to " << R.r << "x" << R.c);
    long kept = 0; for(long i = 0; i < D.r; ++i) for(long j = 0; j < D.c; ++j) { bool keep = D.st(i, j) && fabsl(D(i, j)) >= (long double)eps; kept += keep;
      VF_CHECK((bool)R.st(i, j) == keep, "shrink(" << (double)eps << "): entry (" << i << "," << j << ") = " << (double)D(i, j) << (keep ? " was dropped" : " was kept")); if(keep) VF_CHECK(R(i, j) == D(i, j), "shrink changed a value"); }
    VF_CHECK((long)A.used_elements() == kept, "used_elements after shrink"); if(kept == 0) c.label("shrink:all-dropped");
    break; }
  }
  if(!(inplace && (op == SCALE || op == SCALE_ROWS || op == SCALE_COLS))) VF_CHECK(snapshot(X) == x0, "operand x modified by " << opn[op]);
  if(op >= LUMP && op <= MIN) VF_CHECK(dense_of(A).a == D.a, opn[op] << " modified the matrix");
}

// ---------------------------------------------------------------- sparse matrix products onto a prescribed pattern
template<typename DT, typename IT> static void matmat_case(Tape& t, Ctx& c)
{
  typedef SparseMatrixCSR<DT, IT> M; typedef DenseVector<DT, IT> V;
  int kind = t.pick({2, 2, 1}); // X += a D B ; X += a D A B ; X += a D diag(a) B
  static const char* kn[] = {"add_mat_mat_product", "add_double_mat_product", "add_double_mat_product(diag)"};
  int m = t.sized(1, 7, 2), k = t.sized(1, 7, 2), l = (kind == 1) ? t.sized(1, 7, 2) : k, n = t.sized(1, 7, 2);
  int vcls = t.pick({3, 1, 1});
  Pat pd = gen_pattern(t, 0, vcls, false, -1, 0, m, k); ensure_entry(t, pd, vcls);
  Pat pa = gen_pattern(t, 0, vcls, false, -1, 0, k, l); ensure_entry(t, pa, vcls);
  Pat pb = gen_pattern(t, 0, vcls, false, -1, 0, l, n); ensure_entry(t, pb, vcls);
  std::vector<double> av = gen_values(t, (size_t)k, vcls);
  Dense dd = dense_of_pat<DT>(pd), da = dense_of_pat<DT>(pa), db = dense_of_pat<DT>(pb);
  // structural product pattern (stored entries, zero values included)
  std::vector<std::vector<char>> need((size_t)m, std::vector<char>((size_t)n, 0));
  for(int i = 0; i < m; ++i) for(int q = 0; q < k; ++q) if(dd.st(i, q))
  {
    if(kind == 1) { for(int r = 0; r < l; ++r) if(da.st(q, r)) for(int j = 0; j < n; ++j) if(db.st(r, j)) need[(size_t)i][(size_t)j] = 1; }
    else for(int j = 0; j < n; ++j) if(db.st(q, j)) need[(size_t)i][(size_t)j] = 1;
  }
  // output pattern relative to the product pattern: complete / richer / poorer by some entries
  int xcls = t.pick({3, 3, 3}); static const char* xn[] = {"X:complete", "X:richer", "X:poorer"};
  Pat px; px.rows = m; px.cols = n; px.col.assign((size_t)m, {}); px.val.assign((size_t)m, {}); px.cls = xn[xcls];
  long missing = 0;
  for(int i = 0; i < m; ++i) for(int j = 0; j < n; ++j)
  {
    bool on = need[(size_t)i][(size_t)j];
    if(xcls == 1 && !on) on = t.flag(1, 3);
    if(xcls == 2 && on && t.flag(1, 3)) { on = false; ++missing; }
    if(on) { px.col[(size_t)i].push_back(j); px.val[(size_t)i].push_back(t.real(vcls)); }
  }
  ensure_entry(t, px, vcls);
  // recount missing (ensure_entry may have added one)
  Dense dx = dense_of_pat<DT>(px); missing = 0; for(int i = 0; i < m; ++i) for(int j = 0; j < n; ++j) if(need[(size_t)i][(size_t)j] && !dx.st(i, j)) ++missing;
  bool allow = t.flag(); std::string acls; DT alpha = gen_alpha<DT>(t, acls);
  c.desc.set("op", kn[kind]); c.desc.set("dt", TypeName<DT>::n()); c.desc.set("D", pd.json()); if(kind == 1) c.desc.set("A", pa.json()); if(kind == 2) c.desc.set("a", J(av)); c.desc.set("B", pb.json()); c.desc.set("X", px.json());
  c.desc.set("alpha", (double)alpha); c.desc.set("allow_incomplete", allow); c.desc.set("missing_entries", missing);
  c.op = kn[kind]; c.label(std::string("op:") + kn[kind]); c.label(xn[xcls]); c.label(acls); c.label(allow ? "allow_incomplete" : "strict");
  bool expect_abort = (missing > 0) && !allow;
  c.label(expect_abort ? "expect:abort" : (missing > 0 ? "expect:dropped" : "expect:complete"));
  long nneed = 0; for(auto& r : need) for(char x : r) nneed += x;
  c.nontrivial = nneed >= 1;
  c.announce();
  auto run = [&](M& X) { M Dm = make_csr<DT, IT>(pd), Bm = make_csr<DT, IT>(pb);
    if(kind == 0) X.add_mat_mat_product(Dm, Bm, alpha, allow);
    else if(kind == 1) { M Am = make_csr<DT, IT>(pa); X.add_double_mat_product(Dm, Am, Bm, alpha, allow); }
    else { V a((Index)k); vfill_all(a, av); X.add_double_mat_product(Dm, a, Bm, alpha, allow); } };
  if(expect_abort)
  {
    std::string err; std::string r = run_isolated([&] { M X = make_csr<DT, IT>(px); run(X); }, &err);
    VF_CHECK(r == "abort" || r == "exception", "incomplete output pattern (" << missing << " missing entries, allow_incomplete=false) was not reported: child ended with '" << (r.empty() ? "normal return" : r) << "'");
    return;
  }
  M X = make_csr<DT, IT>(px); run(X); Dense R = dense_of(X);
  VF_CHECK(R.stored == dx.stored, "product changed the pattern of X");
  std::vector<long double> A1; { V a((Index)k); vfill_all(a, av); vflat(a, A1); }
  long double al = (long double)alpha;
  for(int i = 0; i < m; ++i) for(int j = 0; j < n; ++j) if(dx.st(i, j))
  {
    long double s = 0, sa = 0; long nt = 0;
    for(int q = 0; q < k; ++q) if(dd.st(i, q))
    {
      if(kind == 1) { for(int r = 0; r < l; ++r) if(da.st(q, r) && db.st(r, j)) { long double p = dd(i, q) * da(q, r) * db(r, j); s += p; sa += fabsl(p); ++nt; } }
      else if(db.st(q, j)) { long double p = dd(i, q) * (kind == 2 ? A1[(size_t)q] : 1.0L) * db(q, j); s += p; sa += fabsl(p); ++nt; }
    }
    NEAR(R(i, j), dx(i, j) + al * s, fabsl(dx(i, j)) + std::max(fabsl(al), 1.0L) * sa, 2 * nt + 2, kn[kind] << " entry (" << i << "," << j << ")");
  }
}

// ---------------------------------------------------------------- blocked double matrix products onto a prescribed block pattern
// X += alpha D A B with all four matrices BCSR<2,2> (general, non-commuting blocks) resp. D, B scalar CSR and A, X BCSR<2,2>
template<typename DT, typename IT> static void matmat_bcsr_case(Tape& t, Ctx& c)
{
  typedef SparseMatrixBCSR<DT, IT, 2, 2> MB; typedef SparseMatrixCSR<DT, IT> MS;
  const int kind = t.pick({2, 1}); static const char* kn[] = {"add_double_mat_product(bcsr,bcsr,bcsr)", "add_double_mat_product(csr,bcsr,csr)"};
  const int m = t.sized(1, 5, 2), k = t.sized(1, 5, 2), l = t.sized(1, 5, 2), n = t.sized(1, 5, 2); const int vcls = t.pick({3, 1, 1});
  Pat pd = gen_pattern(t, 0, vcls, false, -1, 0, m, k); ensure_entry(t, pd, vcls);
  Pat pa = gen_pattern(t, 0, vcls, false, -1, 0, k, l); ensure_entry(t, pa, vcls);
  Pat pb = gen_pattern(t, 0, vcls, false, -1, 0, l, n); ensure_entry(t, pb, vcls);
  // block-level structural product pattern and the output pattern relative to it
  std::vector<std::vector<char>> need((size_t)m, std::vector<char>((size_t)n, 0));
  { Dense sd = dense_of_pat<DT>(pd), sa = dense_of_pat<DT>(pa), sb = dense_of_pat<DT>(pb);
    for(int i = 0; i < m; ++i) for(int q = 0; q < k; ++q) if(sd.st(i, q)) for(int r = 0; r < l; ++r) if(sa.st(q, r)) for(int j = 0; j < n; ++j) if(sb.st(r, j)) need[(size_t)i][(size_t)j] = 1; }
  const int xcls = t.pick({3, 3, 3}); static const char* xn[] = {"X:complete", "X:richer", "X:poorer"};
  Pat px; px.rows = m; px.cols = n; px.col.assign((size_t)m, {}); px.val.assign((size_t)m, {}); px.cls = xn[xcls];
  for(int i = 0; i < m; ++i) for(int j = 0; j < n; ++j) { bool on = need[(size_t)i][(size_t)j]; if(xcls == 1 && !on) on = t.flag(1, 3); if(xcls == 2 && on && t.flag(1, 3)) on = false; if(on) { px.col[(size_t)i].push_back(j); px.val[(size_t)i].push_back(t.real(vcls)); } }
  ensure_entry(t, px, vcls);
  long missing = 0; { Dense sx = dense_of_pat<DT>(px); for(int i = 0; i < m; ++i) for(int j = 0; j < n; ++j) if(need[(size_t)i][(size_t)j] && !sx.st(i, j)) ++missing; }
  const bool allow = t.flag(); std::string acls; const DT alpha = gen_alpha<DT>(t, acls);
  c.desc.set("op", kn[kind]); c.desc.set("dt", TypeName<DT>::n()); c.desc.set("D", pd.json()); c.desc.set("A", pa.json()); c.desc.set("B", pb.json()); c.desc.set("X", px.json()); c.desc.set("alpha", (double)alpha); c.desc.set("allow_incomplete", allow); c.desc.set("missing_blocks", missing);
  c.op = kn[kind]; c.label(std::string("op:") + kn[kind]); c.label(xn[xcls]); c.label(acls); c.label(allow ? "allow_incomplete" : "strict");
  const bool expect_abort = (missing > 0) && !allow; c.label(expect_abort ? "expect:abort" : (missing > 0 ? "expect:dropped" : "expect:complete"));
  long nneed = 0; for(auto& r : need) for(char x : r) nneed += x; c.nontrivial = nneed >= 1; c.announce();
  auto run = [&](MB& X) { MB Am = make_bcsr<DT, IT, 2, 2>(pa);
    if(kind == 0) { MB Dm = make_bcsr<DT, IT, 2, 2>(pd), Bm = make_bcsr<DT, IT, 2, 2>(pb); X.add_double_mat_product(Dm, Am, Bm, alpha, allow); }
    else { MS Dm = make_csr<DT, IT>(pd), Bm = make_csr<DT, IT>(pb); X.add_double_mat_product(Dm, Am, Bm, alpha, allow); } };
  if(expect_abort)
  {
    std::string err; std::string r = run_isolated([&] { MB X = make_bcsr<DT, IT, 2, 2>(px); run(X); }, &err);
    VF_CHECK(r == "abort" || r == "exception", "incomplete output block pattern (" << missing << " missing blocks, allow_incomplete=false) was not reported: child ended with '" << (r.empty() ? "normal return" : r) << "'");
    return;
  }
  MB X = make_bcsr<DT, IT, 2, 2>(px); const Dense x0 = dense_of(X); run(X); const Dense R = dense_of(X);
  VF_CHECK(R.stored == x0.stored, "product changed the pattern of X");
  // scalar operands: D (x) I_2 and B (x) I_2 for the csr,bcsr,csr overload
  const Dense da = dense_of_pat<DT>(pa, 2, 2);
  auto expand = [&](const Pat& pp, bool blocked) { if(blocked) return dense_of_pat<DT>(pp, 2, 2); Dense sc = dense_of_pat<DT>(pp); Dense e(sc.r * 2, sc.c * 2); for(long i = 0; i < sc.r; ++i) for(long j = 0; j < sc.c; ++j) if(sc.st(i, j)) for(int a = 0; a < 2; ++a) { e(2 * i + a, 2 * j + a) = sc(i, j); e.st(2 * i + a, 2 * j + a) = 1; e.st(2 * i + a, 2 * j + 1 - a) = 1; } return e; };
  const Dense dd = expand(pd, kind == 0), db = expand(pb, kind == 0); const long double al = (long double)alpha;
  for(long i = 0; i < 2 * m; ++i) for(long j = 0; j < 2 * n; ++j) if(x0.st(i, j))
  {
    long double sum = 0, sabs = 0; long nt = 0;
    for(long q = 0; q < 2 * k; ++q) if(dd.st(i, q) && dd(i, q) != 0) for(long r = 0; r < 2 * l; ++r) if(da.st(q, r) && db.st(r, j)) { long double pr = dd(i, q) * da(q, r) * db(r, j); sum += pr; sabs += fabsl(pr); ++nt; }
    NEAR(R(i, j), x0(i, j) + al * sum, fabsl(x0(i, j)) + std::max(fabsl(al), 1.0L) * sabs, 2 * nt + 2, kn[kind] << " entry (" << i << "," << j << ")");
  }
}

// ---------------------------------------------------------------- BCSR element-wise / reduction ops
template<typename DT, typename IT, int H, int W> static void bcsr_elem_case(Tape& t, Ctx& c)
{
  typedef SparseMatrixBCSR<DT, IT, H, W> M;
  enum { AXPY, SCALE, SCALE_ROWS, SCALE_COLS, LUMP, FROB, ROWN2, ROWN2SQR, ROWN2SQR_SCALED, MAXABS, MINABS, MAX, MIN, NOPS };
  static const char* opn[] = {"axpy", "scale", "scale_rows", "scale_cols", "lump_rows", "norm_frobenius", "row_norm2", "row_norm2sqr", "row_norm2sqr_scaled", "max_abs_element", "min_abs_element", "max_element", "min_element"};
  int op = t.range(0, NOPS - 1);
  if(op == ROWN2 && c.excl("c03-bcsr-rownorm2")) op = ROWN2SQR;
  int vcls = t.pick({3, 1, 3});
  Pat p = gen_pattern(t, 9, vcls, false, -1, 1); ensure_entry(t, p, vcls);
  Pat px = p; for(auto& r : px.val) for(auto& v : r) v = t.real_nz(vcls);
  std::string acls; DT alpha = gen_alpha<DT>(t, acls);
  std::vector<double> sr = gen_values(t, (size_t)(p.rows * H), vcls), sc = gen_values(t, (size_t)(p.cols * W), vcls);
  c.desc.set("kind", "bcsr"); c.desc.set("bh", H); c.desc.set("bw", W); c.desc.set("op", opn[op]); c.desc.set("A", p.json()); c.desc.set("X", px.json()); c.desc.set("alpha", (double)alpha); c.desc.set("s_rows", J(sr)); c.desc.set("s_cols", J(sc));
  c.op = std::string(opn[op]) + "@bcsr"; c.label(std::string("op:") + opn[op]); c.label("block:" + std::to_string(H) + "x" + std::to_string(W)); c.label("pat:" + p.cls);
  { bool multi = false; for(auto& r : p.col) if(r.size() >= 2) multi = true; if(multi) c.label("row-with>=2-blocks"); }
  c.nontrivial = p.nnz() >= 2;
  M A = make_bcsr<DT, IT, H, W>(p), X = make_bcsr<DT, IT, H, W>(px); Dense D = dense_of(A), DX = dense_of(X);
  DenseVectorBlocked<DT, IT, H> vsr((Index)p.rows); DenseVectorBlocked<DT, IT, W> vsc((Index)p.cols); vfill_all(vsr, sr); vfill_all(vsc, sc);
  std::vector<long double> SR, SC; vflat(vsr, SR); vflat(vsc, SC);
  c.announce();
  long double al = (long double)alpha;
  switch(op)
  {
  case AXPY: { A.axpy(X, alpha); Dense R = dense_of(A); for(long i = 0; i < D.r; ++i) for(long j = 0; j < D.c; ++j) if(D.st(i, j)) NEAR(R(i, j), D(i, j) + al * DX(i, j), fabsl(D(i, j)) + fabsl(al * DX(i, j)), 2, "axpy (" << i << "," << j << ")"); break; }
  case SCALE: { A.scale(X, alpha); Dense R = dense_of(A); for(long i = 0; i < D.r; ++i) for(long j = 0; j < D.c; ++j) if(D.st(i, j)) NEAR(R(i, j), al * DX(i, j), fabsl(al * DX(i, j)), 1, "scale (" << i << "," << j << ")"); break; }
  case SCALE_ROWS: case SCALE_COLS: { bool rows = (op == SCALE_ROWS); if(rows) A.scale_rows(X, vsr); else A.scale_cols(X, vsc); Dense R = dense_of(A);
    for(long i = 0; i < D.r; ++i) for(long j = 0; j < D.c; ++j) if(D.st(i, j)) { long double f = rows ? SR[(size_t)i] : SC[(size_t)j]; NEAR(R(i, j), DX(i, j) * f, fabsl(DX(i, j) * f), 1, opn[op] << " (" << i << "," << j << ")"); } break; }
  case LUMP: { auto l = A.lump_rows(); std::vector<long double> L; vflat(l, L); VF_CHECK((long)L.size() == D.r, "lump vector size");
    for(long i = 0; i < D.r; ++i) { long double s = 0, sa = 0; long n = 0; for(long j = 0; j < D.c; ++j) if(D.st(i, j)) { s += D(i, j); sa += fabsl(D(i, j)); ++n; } NEAR(L[(size_t)i], s, sa, n, "lump_rows row " << i); } break; }
  case FROB: { long double s = 0; long n = 0; for(long i = 0; i < D.r; ++i) for(long j = 0; j < D.c; ++j) if(D.st(i, j)) { s += D(i, j) * D(i, j); ++n; } NEAR(A.norm_frobenius(), sqrtl(s), sqrtl(s), n / 2 + 1, "norm_frobenius"); break; }
  case ROWN2: case ROWN2SQR: case ROWN2SQR_SCALED: { DenseVectorBlocked<DT, IT, H> rn((Index)p.rows, DT(-7));
    if(op == ROWN2) A.row_norm2(rn); else if(op == ROWN2SQR) A.row_norm2sqr(rn); else A.row_norm2sqr(rn, vsc);
    std::vector<long double> RN; vflat(rn, RN);
    for(long i = 0; i < D.r; ++i) { long double s = 0, sa = 0; long n = 0; for(long j = 0; j < D.c; ++j) if(D.st(i, j)) { long double w = (op == ROWN2SQR_SCALED) ? SC[(size_t)j] : 1.0L; s += w * D(i, j) * D(i, j); sa += fabsl(w) * D(i, j) * D(i, j); ++n; }
      if(op == ROWN2) NEAR(RN[(size_t)i], sqrtl(s), sqrtl(s), n / 2 + 1, "row_norm2 row " << i); else NEAR(RN[(size_t)i], s, sa, n + 1, opn[op] << " row " << i); }
    break; }
  default: { long double ref = 0; bool first = true;
    for(long i = 0; i < D.r; ++i) for(long j = 0; j < D.c; ++j) if(D.st(i, j)) { long double v = D(i, j), a = fabsl(v); long double q = (op == MAXABS || op == MINABS) ? a : v; if(first) { ref = q; first = false; } else ref = (op == MAXABS || op == MAX) ? std::max(ref, q) : std::min(ref, q); }
    long double got = (op == MAXABS) ? A.max_abs_element() : (op == MINABS) ? A.min_abs_element() : (op == MAX) ? A.max_element() : A.min_element();
    VF_CHECK(got == ref, opn[op] << " returned " << (double)got << " expected " << (double)ref); break; }
  }
}

// ---------------------------------------------------------------- DenseMatrix multiply / invert / transpose
static void densem_case(Tape& t, Ctx& c)
{
  typedef double DT; typedef Index IT; typedef DenseMatrix<DT, IT> M;
  int op = t.range(0, 3); static const char* opn[] = {"multiply", "multiply_axpby", "invert", "multiply_csr"};
  int m = t.sized(1, 8, 2), k = t.sized(1, 8, 2), n = t.sized(1, 8, 2); int vcls = t.pick({3, 1, 2});
  if(op == 2) { k = m; n = m; }
  auto genm = [&](int r, int cc) { std::vector<double> v = gen_values(t, (size_t)(r * cc), vcls); return v; };
  std::vector<double> xv = genm(m, k), yv = genm(k, n), zv = genm(m, n); std::string ac, bc; DT alpha = gen_alpha<DT>(t, ac), beta = gen_alpha<DT>(t, bc);
  if(op == 2) { for(int i = 0; i < m; ++i) { double s = 1.0; for(int j = 0; j < m; ++j) if(j != i) s += std::fabs(xv[(size_t)(i * m + j)]); xv[(size_t)(i * m + i)] = (t.flag() ? s : -s); } } // strictly diagonally dominant: invertible, bounded condition
  c.desc.set("kind", "dense"); c.desc.set("op", opn[op]); c.desc.set("m", m); c.desc.set("k", k); c.desc.set("n", n); c.desc.set("x", J(xv)); c.desc.set("y", J(yv)); c.desc.set("z", J(zv)); c.desc.set("alpha", (double)alpha); c.desc.set("beta", (double)beta);
  c.op = std::string(opn[op]) + "@dense"; c.label(std::string("op:") + opn[op]); c.nontrivial = m * n > 1;
  auto mk = [&](int r, int cc, const std::vector<double>& v) { M a((Index)r, (Index)cc); for(int i = 0; i < r; ++i) for(int j = 0; j < cc; ++j) a((Index)i, (Index)j, v[(size_t)(i * cc + j)]); return a; };
  M X = mk(m, k, xv), Y = mk(k, n, yv), Z = mk(m, n, zv);
  typedef double DTT; (void)sizeof(DTT);
  c.announce();
  auto at = [](const std::vector<double>& v, int cc, int i, int j) { return (long double)v[(size_t)(i * cc + j)]; };
  if(op == 0 || op == 1 || op == 3)
  {
    M R((Index)m, (Index)n, DT(-3));
    if(op == 0) R.multiply(X, Y);
    else if(op == 1) R.multiply(X, Y, Z, alpha, beta);
    else { Pat p; p.rows = m; p.cols = k; p.col.assign((size_t)m, {}); p.val.assign((size_t)m, {}); for(int i = 0; i < m; ++i) for(int j = 0; j < k; ++j) if(xv[(size_t)(i * k + j)] != 0.0) { p.col[(size_t)i].push_back(j); p.val[(size_t)i].push_back(xv[(size_t)(i * k + j)]); }
      if(p.nnz() == 0) { p.col[0].push_back(0); p.val[0].push_back(0.0); } auto S = make_csr<DT, IT>(p); R.multiply(S, Y); }
    Dense r = dense_of(R);
    for(int i = 0; i < m; ++i) for(int j = 0; j < n; ++j)
    {
      long double s = 0, sa = 0; for(int q = 0; q < k; ++q) { long double pr = at(xv, k, i, q) * at(yv, n, q, j); s += pr; sa += fabsl(pr); }
      long double ref = (op == 1) ? (long double)alpha * s + (long double)beta * at(zv, n, i, j) : s;
      long double sab = (op == 1) ? std::max(fabsl((long double)alpha), 1.0L) * sa + fabsl((long double)beta * at(zv, n, i, j)) : sa;
      NEAR(r(i, j), ref, sab, k + 2, opn[op] << " entry (" << i << "," << j << ")");
    }
  }
  else
  {
    M I = X.clone(CloneMode::Deep); I.invert(); Dense inv = dense_of(I);
    // A * inv(A) = Id within a condition-scaled tolerance (diagonally dominant: cond <= O(m * max|a|))
    long double amax = 0; for(double v : xv) amax = std::max(amax, (long double)std::fabs(v)); long double imax = 0; for(auto v : inv.a) imax = std::max(imax, fabsl(v));
    for(int i = 0; i < m; ++i) for(int j = 0; j < m; ++j) { long double s = 0; for(int q = 0; q < m; ++q) s += at(xv, m, i, q) * inv(q, j);
      long double tol = 64.0L * m * m * K_u<DT>() * (amax * imax + 1.0L) * (amax * imax + 1.0L);
      VF_CHECK(fabsl(s - (i == j ? 1.0L : 0.0L)) <= tol, "invert: (A*inv(A))(" << i << "," << j << ") = " << (double)s << " tol " << (double)tol); }
  }
}

int main(int argc, char** argv)
{
  FEAT::Runtime::ScopeGuard guard(argc, argv);
  std::vector<Target> tg;
  tg.push_back({"csr_elem", [](Tape& t, Ctx& c) { if(t.flag(1, 3)) csr_elem_case<float, std::uint32_t>(t, c); else csr_elem_case<double, std::uint64_t>(t, c); }, 96, 12});
  tg.push_back({"matmat_bcsr", [](Tape& t, Ctx& c) { if(t.flag(1, 4)) matmat_bcsr_case<float, std::uint32_t>(t, c); else matmat_bcsr_case<double, std::uint64_t>(t, c); }, 96, 12});
  tg.push_back({"matmat", [](Tape& t, Ctx& c) { if(t.flag(1, 4)) matmat_case<float, std::uint32_t>(t, c); else matmat_case<double, std::uint64_t>(t, c); }, 96, 12});
  tg.push_back({"bcsr_elem", [](Tape& t, Ctx& c) { switch(t.pick({2, 2, 1})) { case 0: bcsr_elem_case<double, std::uint64_t, 2, 2>(t, c); break; case 1: bcsr_elem_case<double, std::uint64_t, 2, 3>(t, c); break; default: bcsr_elem_case<double, std::uint64_t, 3, 2>(t, c); } }, 96, 12});
  tg.push_back({"densem", densem_case, 96, 12});
  return main_impl(argc, argv, tg);
}
