// C18 - declarations of the per-translation-unit entry points (split only to parallelise compilation)
#pragma once
#include "common/vf.hpp"
namespace c18
{
  // idx selects the element inside the part, flt selects float instead of double where the part offers it
  void quad_a(vf::Tape&, vf::Ctx&, int idx, bool flt, bool big);
  void quad_b(vf::Tape&, vf::Ctx&, int idx, bool flt, bool big);
  void tria_a(vf::Tape&, vf::Ctx&, int idx, bool flt, bool big);
  void tria_b(vf::Tape&, vf::Ctx&, int idx, bool flt, bool big);
  void hexa_a(vf::Tape&, vf::Ctx&, int idx, bool flt, bool big);
  void hexa_b(vf::Tape&, vf::Ctx&, int idx, bool flt, bool big);
  void tetra_a(vf::Tape&, vf::Ctx&, int idx, bool flt, bool big);
  void tetra_b(vf::Tape&, vf::Ctx&, int idx, bool flt, bool big);
  void global_case(vf::Tape&, vf::Ctx&, bool big);
  void cfmap_case(vf::Tape&, vf::Ctx&);
  // extension round (binary c18_ext): index type std::uint32_t, blocked (BWrappedCSR) global transfers
  void idx32_quad(vf::Tape&, vf::Ctx&, int idx, bool flt, bool big);
  void idx32_tria(vf::Tape&, vf::Ctx&, int idx, bool flt, bool big);
  void idx32_hexa(vf::Tape&, vf::Ctx&, int idx, bool flt, bool big);
  void idx32_tetra(vf::Tape&, vf::Ctx&, int idx, bool flt, bool big);
  void blocked_case(vf::Tape&, vf::Ctx&, bool big);
}
