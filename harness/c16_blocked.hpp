// c16_blocked.hpp - blocked (vector-valued) bilinear operators: Identity/Laplace/DuDv blocked, gradient/divergence
// pairings (GradientTrial/TestOperatorBlocked, GradOperatorAssembler, GradPresDivVeloAssembler), stress-divergence and
// strain-rate-tensor operators; BCSR matrices, all assembly routes, exact integrals of polynomial vector fields.
#pragma once
#include "c16_core.hpp"
#include <kernel/assembly/bilinear_operator_assembler.hpp>
#include <kernel/assembly/common_operators.hpp>
#include <kernel/assembly/domain_assembler.hpp>
#include <kernel/assembly/domain_assembler_helpers.hpp>
#include <kernel/assembly/grad_operator_assembler.hpp>
#include <kernel/assembly/gpdv_assembler.hpp>

namespace c16
{
  enum BOpKind { BIdentity = 0, BLaplace, BDuDv, BGradTrial, BGradTest, BStressDiv, BStrainRate, BOpCount };
  static const char* bop_names[] = {"identity_blocked", "laplace_blocked", "dudv_blocked", "gradient_trial_blocked", "gradient_test_blocked", "stress_divergence", "strain_rate_tensor"};

  inline std::uint32_t bhash32(std::uint32_t a, std::uint32_t b) { std::uint64_t x = (std::uint64_t(a) << 32 | b) * 0x9e3779b97f4a7c15ull; x ^= x >> 29; x *= 0xbf58476d1ce4e5b9ull; x ^= x >> 32; return (std::uint32_t)x; }

  /// stress component -> (i,j) of the tensor as documented in common_operators.hpp
  inline void stress_ij(int dim, int nsc, int k, int& i, int& j)
  {
    if(nsc == dim * dim) { i = k / dim; j = k % dim; return; }
    if(dim == 2) { static const int ii[] = {0, 1, 0}, jj[] = {0, 1, 1}; i = ii[k]; j = jj[k]; return; }          // (11, 22, 12)
    static const int ii[] = {0, 1, 2, 0, 1, 0}, jj[] = {0, 1, 2, 1, 2, 2}; i = ii[k]; j = jj[k];                 // (11, 22, 33, 12, 23, 13)
  }

  /// scalar interpolation of every component, interleaved like a blocked vector
  template<typename DT, typename IT, int dim, typename Space_> std::vector<LD> blocked_coeffs(const Space_& sp, const std::vector<Poly>& ps)
  {
    const size_t B = ps.size(); std::vector<LD> r((size_t)sp.get_num_dofs() * B, 0.0L);
    for(size_t c = 0; c < B; ++c) { PolyFunction<dim> f(ps[c]); LAFEM::DenseVector<DT, IT> v; Assembly::Interpolator::project(v, f, sp); for(Index i = 0; i < v.size(); ++i) r[(size_t)i * B + c] = (LD)v.elements()[i]; }
    return r;
  }

  template<typename Shape_, typename VTag, typename PTag, typename DT, typename IT>
  struct BlockedCase
  {
    static constexpr int dim = Shape_::dimension;
    typedef Geometry::ConformalMesh<Shape_, dim, double> MeshType;
    typedef Trafo::Standard::Mapping<MeshType> TrafoType;
    typedef typename VTag::template S<TrafoType> VSpace;
    typedef typename PTag::template S<TrafoType> PSpace;

    Tape& t; Ctx& c; const RawMesh& rm;
    std::unique_ptr<MeshType> mesh; std::unique_ptr<TrafoType> trafo; std::unique_ptr<VSpace> vs; std::unique_ptr<PSpace> ps;
    int kind = 0; bool sym_stress = false; DT alpha = DT(1); int cubdeg = 0, need = 0; std::string cubname; std::uint32_t xseed = 0;
    std::vector<Poly> U, V; bool variant = false;
    BlockedCase(Tape& t_, Ctx& c_, const RawMesh& m) : t(t_), c(c_), rm(m) {}

    struct Props { bool kills_trial_const, kills_test_const, symmetric, mass_type; };

    /// integrand of the documented form for trial field U (BW components) and test field V (BH components)
    LD integrand(const std::vector<Poly>& U, const std::vector<Poly>& V, const LD* x) const
    {
      LD s = 0;
      switch(kind)
      {
      case BIdentity: for(int a = 0; a < dim; ++a) s += U[(size_t)a].val<LD>(x) * V[(size_t)a].val<LD>(x); return s;
      case BLaplace: for(int a = 0; a < dim; ++a) for(int b = 0; b < dim; ++b) s += U[(size_t)a].der<LD>(x, b) * V[(size_t)a].der<LD>(x, b); return s;
      case BDuDv: for(int a = 0; a < dim; ++a) for(int b = 0; b < dim; ++b) s += U[(size_t)a].der<LD>(x, b) * V[(size_t)a].der<LD>(x, b) + U[(size_t)b].der<LD>(x, a) * V[(size_t)a].der<LD>(x, b); return s;
      case BGradTrial: for(int a = 0; a < dim; ++a) s += U[0].der<LD>(x, a) * V[(size_t)a].val<LD>(x); return s;   // (grad p, v)
      case BGradTest: for(int a = 0; a < dim; ++a) s += U[0].val<LD>(x) * V[(size_t)a].der<LD>(x, a); return s;    // (p, div v)
      case BStressDiv:   // (div sigma, v), sigma trial with nsc components
        for(int k = 0; k < (int)U.size(); ++k) { int i, j; stress_ij(dim, (int)U.size(), k, i, j); s += U[(size_t)k].der<LD>(x, j) * V[(size_t)i].val<LD>(x); if(i != j && (int)U.size() != dim * dim) s += U[(size_t)k].der<LD>(x, i) * V[(size_t)j].val<LD>(x); }
        return s;
      default:           // (D(u), tau) component-wise: tau_k * 1/2 (d_j u_i + d_i u_j)
        for(int k = 0; k < (int)V.size(); ++k) { int i, j; stress_ij(dim, (int)V.size(), k, i, j); s += V[(size_t)k].val<LD>(x) * 0.5L * (U[(size_t)i].der<LD>(x, j) + U[(size_t)j].der<LD>(x, i)); }
        return s;
      }
    }

    template<int BH, int BW, typename TeTag, typename TrTag, typename Op, typename TeSp, typename TrSp>
    void routes(Op& oper, const TeSp& tes, const TrSp& trs, const Props& pr)
    {
      typedef LAFEM::SparseMatrixBCSR<DT, IT, BH, BW> MatrixType;
      constexpr bool same = std::is_same<TeSp, TrSp>::value && (BH == BW);
      const long nbr = (long)tes.get_num_dofs(), nbc = (long)trs.get_num_dofs(); const long nr = nbr * BH, nc = nbc * BW;
      Cubature::DynamicFactory cub(cubname); const double kap = rm.kappa;
      MatrixType A; Assembly::SymbolicAssembler::assemble_matrix_std2(A, tes, trs);
      VF_CHECK((long)A.rows() == nbr && (long)A.columns() == nbc, "symbolic BCSR matrix has block dimensions " << A.rows() << "x" << A.columns() << " expected " << nbr << "x" << nbc);
      std::vector<char> cpl = couplings(cell_dofs(tes), cell_dofs(trs), nbr, nbc);
      check_pattern(A.row_ptr(), A.col_ind(), nbr, nbc, (long)A.used_elements(), cpl, "symbolic pattern (BCSR)");
      A.format();
      Assembly::BilinearOperatorAssembler::assemble_matrix2(A, oper, tes, trs, cub, alpha);
      const Dn dA = dense_of(A);
      VF_CHECK(dA.finite(), "assemble_matrix2 (blocked) produced non-finite entries");
      Assembly::DomainAssembler<TrafoType> da(*trafo); da.compile_all_elements();
      {
        MatrixType B = A.clone(LAFEM::CloneMode::Layout); B.format();
        Assembly::assemble_bilinear_operator_matrix_2(da, B, oper, tes, trs, cubname, alpha);
        check_same<DT>(dA, dense_of(B), kap, "blocked assemble_bilinear_operator_matrix_2 vs assemble_matrix2");
      }
      if constexpr(same)
      {
        MatrixType B = A.clone(LAFEM::CloneMode::Layout); B.format();
        Assembly::BilinearOperatorAssembler::assemble_matrix1(B, oper, tes, cub, alpha);
        check_same<DT>(dA, dense_of(B), kap, "blocked assemble_matrix1 vs assemble_matrix2");
        MatrixType C = A.clone(LAFEM::CloneMode::Layout); C.format();
        Assembly::assemble_bilinear_operator_matrix_1(da, C, oper, tes, cubname, alpha);
        check_same<DT>(dA, dense_of(C), kap, "blocked assemble_bilinear_operator_matrix_1 vs assemble_matrix2");
        // matrix-free application with blocked vectors
        typedef LAFEM::DenseVectorBlocked<DT, IT, BH> BV;
        BV x(trs.get_num_dofs()), y(tes.get_num_dofs()), z(tes.get_num_dofs());
        { DT* e = x.template elements<LAFEM::Perspective::pod>(); for(long i = 0; i < nc; ++i) e[i] = (xseed == 0) ? DT(1 + i % BW) : DT(double(int(bhash32(xseed, (std::uint32_t)i) % 33u) - 16) / 8.0); }
        y.format(DT(5)); z.format(DT(-2));
        std::vector<LD> xs = flat_of(x), ref((size_t)nr, 0.0L); LD sc = dA.maxabs() * maxabs(xs);
        for(long i = 0; i < nr; ++i) { LD sa = 0; for(long j = 0; j < nc; ++j) { ref[(size_t)i] += dA(i, j) * xs[(size_t)j]; sa += fabsl(dA(i, j) * xs[(size_t)j]); } sc = std::max(sc, sa); }
        Assembly::BilinearOperatorAssembler::apply2(y, x, oper, tes, trs, cub, alpha);
        Assembly::BilinearOperatorAssembler::apply1(z, x, oper, tes, cub, alpha);
        std::vector<LD> ys = flat_of(y), zs = flat_of(z);
        for(long i = 0; i < nr; ++i)
        {
          VF_CHECK(std::isfinite((double)ys[(size_t)i]) && fabsl(ys[(size_t)i] - ref[(size_t)i]) <= tol_of<DT>(kap, sc), "blocked apply2 entry " << i << ": " << (double)ys[(size_t)i] << " vs matrix*x " << (double)ref[(size_t)i]);
          VF_CHECK(std::isfinite((double)zs[(size_t)i]) && fabsl(zs[(size_t)i] - ref[(size_t)i]) <= tol_of<DT>(kap, sc), "blocked apply1 entry " << i << ": " << (double)zs[(size_t)i] << " vs matrix*x " << (double)ref[(size_t)i]);
        }
      }
      // ---------------------------------------------------------------- dedicated assemblers
      if constexpr(BW == 1 && BH == dim)
      {
        if(kind == BGradTrial)
        {
          // GradOperatorAssembler: G[i][j][k] = scale * int d_k trial_j * test_i  (creates the layout itself when the matrix is empty)
          MatrixType G; if(variant) { G = A.clone(LAFEM::CloneMode::Layout); G.format(DT(3)); }
          Assembly::GradOperatorAssembler::assemble(G, tes, trs, cub, alpha);
          check_same<DT>(dA, dense_of(G), kap, "GradOperatorAssembler::assemble(matrix) vs GradientTrialOperatorBlocked");
          LAFEM::DenseVector<DT, IT> pin(trs.get_num_dofs()); for(Index i = 0; i < pin.size(); ++i) pin.elements()[i] = (xseed == 0) ? DT(1 + i % 3) : DT(double(int(bhash32(xseed, (std::uint32_t)i) % 33u) - 16) / 8.0);
          LAFEM::DenseVectorBlocked<DT, IT, dim> vout(tes.get_num_dofs()); vout.format(DT(0.25));
          Assembly::GradOperatorAssembler::assemble(vout, pin, tes, trs, cub, alpha);
          std::vector<LD> xs = flat_of(pin), got = flat_of(vout), ref((size_t)nr, 0.25L); LD sc = std::max(dA.maxabs() * maxabs(xs), 0.25L);
          for(long i = 0; i < nr; ++i) { LD sa = 0; for(long j = 0; j < nc; ++j) { ref[(size_t)i] += dA(i, j) * xs[(size_t)j]; sa += fabsl(dA(i, j) * xs[(size_t)j]); } sc = std::max(sc, sa); }
          for(long i = 0; i < nr; ++i) VF_CHECK(std::isfinite((double)got[(size_t)i]) && fabsl(got[(size_t)i] - ref[(size_t)i]) <= tol_of<DT>(kap, sc), "GradOperatorAssembler::assemble(vector) entry " << i << ": " << (double)got[(size_t)i] << " vs y + G*p " << (double)ref[(size_t)i]);
        }
        if(kind == BGradTest)
        {
          // GradPresDivVeloAssembler: B = scale_b * int div(velo_i) pres_j,  D = scale_d * (same integrals, transposed block layout)
          LAFEM::SparseMatrixBCSR<DT, IT, dim, 1> Bm; LAFEM::SparseMatrixBCSR<DT, IT, 1, dim> Dm;
          const DT sd = DT(-2) * alpha;
          if(variant) Assembly::GradPresDivVeloAssembler::assemble(Bm, Dm, tes, trs, cub, alpha, sd);
          else Assembly::GradPresDivVeloAssembler::assemble(Bm, Dm, tes, trs, String(cubname), alpha, sd);
          check_same<DT>(dA, dense_of(Bm), kap, "GradPresDivVeloAssembler B vs GradientTestOperatorBlocked");
          const Dn dD = dense_of(Dm); VF_CHECK(dD.r == nc && dD.c == nr, "GradPresDivVeloAssembler D has dimensions " << dD.r << "x" << dD.c);
          Dn dDt(nr, nc); for(long i = 0; i < nr; ++i) for(long j = 0; j < nc; ++j) dDt(i, j) = dD(j, i) / -2.0L;
          check_same<DT>(dA, dDt, kap, "GradPresDivVeloAssembler D^T/scale vs B/scale");
          std::vector<char> cplD = couplings(cell_dofs(trs), cell_dofs(tes), nbc, nbr);
          check_pattern(Dm.row_ptr(), Dm.col_ind(), nbc, nbr, (long)Dm.used_elements(), cplD, "GradPresDivVeloAssembler D pattern");
        }
      }
      // ---------------------------------------------------------------- oracles
      const LD al = (LD)alpha; const LD SA = dA.sumabs(); const LD amax = dA.maxabs();
      Poly pone; pone.dim = dim; pone.t.push_back({1.0, {0, 0, 0}});
      std::vector<LD> o_te = blocked_coeffs<DT, IT, dim>(tes, std::vector<Poly>(1, pone)), o_tr = blocked_coeffs<DT, IT, dim>(trs, std::vector<Poly>(1, pone));
      if(pr.kills_trial_const)
        for(int cc = 0; cc < BW; ++cc) for(long i = 0; i < nr; ++i) { LD s = 0, sa = 0; for(long j = 0; j < nbc; ++j) { s += dA(i, j * BW + cc) * o_tr[(size_t)j]; sa += fabsl(dA(i, j * BW + cc) * o_tr[(size_t)j]); }
          VF_CHECK(fabsl(s) <= tol_of<DT>(kap, std::max(sa, amax)), bop_names[kind] << ": (A * const e_" << cc << ")_" << i << " = " << (double)s << " but constant fields are in the kernel"); }
      if(pr.kills_test_const)
        for(int cc = 0; cc < BH; ++cc) for(long j = 0; j < nc; ++j) { LD s = 0, sa = 0; for(long i = 0; i < nbr; ++i) { s += dA(i * BH + cc, j) * o_te[(size_t)i]; sa += fabsl(dA(i * BH + cc, j) * o_te[(size_t)i]); }
          VF_CHECK(fabsl(s) <= tol_of<DT>(kap, std::max(sa, amax)), bop_names[kind] << ": ((const e_" << cc << ")^T A)_" << j << " = " << (double)s << " but constant test fields are annihilated"); }
      if constexpr(same)
        if(pr.symmetric) for(long i = 0; i < nr; ++i) for(long j = i + 1; j < nc; ++j)
          VF_CHECK(fabsl(dA(i, j) - dA(j, i)) <= tol_of<DT>(kap, amax), bop_names[kind] << ": symmetric form but A(" << i << "," << j << ")=" << (double)dA(i, j) << " A(" << j << "," << i << ")=" << (double)dA(j, i));
      if(kind == BIdentity)
      {
        // mass of every component equals the volume, different components do not couple
        const LD vol = mesh_volume(rm);
        for(int a = 0; a < BH; ++a) for(int b = 0; b < BW; ++b)
        {
          LD s = 0; for(long i = 0; i < nbr; ++i) for(long j = 0; j < nbc; ++j) s += o_te[(size_t)i] * dA(i * BH + a, j * BW + b) * o_tr[(size_t)j];
          VF_CHECK(fabsl(s - (a == b ? al * vol : 0.0L)) <= tol_of<DT>(kap, SA), "blocked mass: e_" << a << "^T M e_" << b << " = " << (double)s << " expected " << (double)(a == b ? al * vol : 0.0L));
        }
      }
      const bool exact_ok = (cubdeg >= need) && (rm.cells_affine || (pr.mass_type && TeTag::nonaffine_ok && TrTag::nonaffine_ok));
      c.label(exact_ok ? "oracle:exact" : "oracle:identities-only");
      if(exact_ok)
      {
        VF_CHECK((int)U.size() == BW && (int)V.size() == BH, "harness: polynomial fields have the wrong number of components");
        const std::vector<LD> us = blocked_coeffs<DT, IT, dim>(trs, U), vs2 = blocked_coeffs<DT, IT, dim>(tes, V);
        const std::vector<QP> q = mesh_qps(rm, polys_degree(U) + polys_degree(V));
        const LD ex = al * integrate(q, [&](const LD* x) { return integrand(U, V, x); });
        const LD got = bil(vs2, dA, us); const LD tol = tol_of<DT>(kap, maxabs(us) * maxabs(vs2) * SA);
        VF_CHECK(std::isfinite((double)got) && fabsl(got - ex) <= tol, bop_names[kind] << ": v^T A u = " << (double)got << " but the exact form is " << (double)ex << " (tol " << (double)tol << ") for u = " << polys_json(U).str() << ", v = " << polys_json(V).str());
      }
    }

    void run()
    {
      const bool simplex = rm.simplex;
      {
        static const int w[BOpCount] = {2, 2, 3, 3, 3, 2, 2};
        std::vector<int> kinds, ws;
        for(int k = 0; k < BOpCount; ++k)
        {
          const bool g_v = (k == BLaplace || k == BDuDv || k == BGradTest || k == BStrainRate), g_p = (k == BGradTrial || k == BStressDiv);
          if((g_v && !VTag::has_grad) || (g_p && !PTag::has_grad)) continue;
          kinds.push_back(k); ws.push_back(w[k]);
        }
        int tot = 0; for(int x : ws) tot += x; int r = int(t.raw() % std::uint32_t(tot)); size_t sel = 0; while(r >= ws[sel]) { r -= ws[sel]; ++sel; }
        kind = kinds[sel];
        sym_stress = t.flag(1, 2);
        if(kind == BStrainRate && dim == 3 && !sym_stress && c.excl("c16-strainrate-3x9")) sym_stress = true;
      }
      { static const double as[] = {1.0, -1.0, 2.0, 0.5}; int ak = t.pick({4, 1, 1, 1, 2}); alpha = ak < 4 ? DT(as[ak]) : DT(t.real_nz(2)); c.label(ak < 4 ? "alpha:simple" : "alpha:generated"); }
      const bool vv = kind <= BDuDv;
      need = (vv ? 2 * VTag::bdeg(simplex) : VTag::bdeg(simplex) + PTag::bdeg(simplex)) + (rm.cells_affine ? 0 : dim - 1);
      cubdeg = std::min(cub_cap(rm), need + t.range(0, dim == 2 ? 2 : 1)); cubname = "auto-degree:" + std::to_string(cubdeg); xseed = t.raw();
      {
        // polynomial fields of the exact oracle: trial field U (BW components), test field V (BH components)
        constexpr int nsy = dim * (dim + 1) / 2, nun = dim * dim;
        const int nst = sym_stress ? nsy : nun;
        int bh = dim, bw = dim, pte = VTag::p, ptr = VTag::p; bool tte = VTag::tensor, ttr = VTag::tensor;
        if(kind == BGradTrial || kind == BGradTest) { bw = 1; ptr = PTag::p; ttr = PTag::tensor; }
        if(kind == BStressDiv) { bw = nst; ptr = PTag::p; ttr = PTag::tensor; }
        if(kind == BStrainRate) { bh = nst; pte = PTag::p; tte = PTag::tensor; }
        const bool tens = !rm.simplex && rm.axis_aligned && tte && ttr && t.flag(1, 4);
        U = gen_polys(t, bw, dim, ptr, tens); V = gen_polys(t, bh, dim, pte, tens); variant = t.flag(1, 2);
        if(tens) c.label("poly:tensor");
      }
      mesh = make_feat_mesh<MeshType>(rm); trafo.reset(new TrafoType(*mesh)); vs.reset(new VSpace(*trafo)); ps.reset(new PSpace(*trafo));
      c.desc.set("u", polys_json(U)); c.desc.set("v", polys_json(V)); c.desc.set("variant", variant);
      c.desc.set("mesh", rm.json()); c.desc.set("velo", VTag::name()); c.desc.set("pres", PTag::name()); c.desc.set("dt", TN<DT>::n()); c.desc.set("it", IN<IT>::n());
      c.desc.set("op", bop_names[kind]); c.desc.set("sym_stress", sym_stress); c.desc.set("alpha", (double)alpha); c.desc.set("cubature", cubname); c.desc.set("xseed", (long long)xseed);
      label_mesh(c, rm); c.label(std::string("op:") + bop_names[kind]); c.label(std::string("pair:") + VTag::name() + "/" + PTag::name()); c.label(std::string("dt:") + TN<DT>::n());
      if(kind >= BStressDiv) c.label(sym_stress ? "stress:symmetric" : "stress:unsymmetric");
      c.op = std::string("blocked:") + bop_names[kind];
      c.nontrivial = true;
      c.announce();
      constexpr int nsym = dim * (dim + 1) / 2, nuns = dim * dim;
      switch(kind)
      {
      case BIdentity: { Assembly::Common::IdentityOperatorBlocked<dim> o; routes<dim, dim, VTag, VTag>(o, *vs, *vs, Props{false, false, true, true}); break; }
      case BLaplace: if constexpr(VTag::has_grad) { Assembly::Common::LaplaceOperatorBlocked<dim> o; routes<dim, dim, VTag, VTag>(o, *vs, *vs, Props{true, true, true, false}); } break;
      case BDuDv: if constexpr(VTag::has_grad) { Assembly::Common::DuDvOperatorBlocked<dim> o; routes<dim, dim, VTag, VTag>(o, *vs, *vs, Props{true, true, true, false}); } break;
      case BGradTrial: if constexpr(PTag::has_grad) { Assembly::Common::GradientTrialOperatorBlocked<dim> o; routes<dim, 1, VTag, PTag>(o, *vs, *ps, Props{true, false, false, false}); } break;
      case BGradTest: if constexpr(VTag::has_grad) { Assembly::Common::GradientTestOperatorBlocked<dim> o; routes<dim, 1, VTag, PTag>(o, *vs, *ps, Props{false, true, false, false}); } break;
      case BStressDiv:
        if constexpr(PTag::has_grad)
        {
          if(sym_stress) { Assembly::Common::StressDivergenceOperator<dim, nsym> o; routes<dim, nsym, VTag, PTag>(o, *vs, *ps, Props{true, false, false, false}); }
          else { Assembly::Common::StressDivergenceOperator<dim, nuns> o; routes<dim, nuns, VTag, PTag>(o, *vs, *ps, Props{true, false, false, false}); }
        }
        break;
      default:
        if constexpr(VTag::has_grad)
        {
          if(sym_stress) { Assembly::Common::StrainRateTensorOperator<dim, nsym> o; routes<nsym, dim, PTag, VTag>(o, *ps, *vs, Props{true, false, false, false}); }
          else { Assembly::Common::StrainRateTensorOperator<dim, nuns> o; routes<nuns, dim, PTag, VTag>(o, *ps, *vs, Props{true, false, false, false}); }
        }
      }
    }
  };

  template<typename Shape_> void blocked_pairs(Tape& t, Ctx& c, const RawMesh& rm, int which)
  {
    typedef std::uint64_t I64;
    switch(which)
    {
    case 0: { BlockedCase<Shape_, SL2, SL1, double, I64> k(t, c, rm); k.run(); break; }
    case 1: { BlockedCase<Shape_, SL2, SD1, double, I64> k(t, c, rm); k.run(); break; }
    case 2: { BlockedCase<Shape_, SCR, SD0, double, I64> k(t, c, rm); k.run(); break; }
    case 3: { BlockedCase<Shape_, SL1, SL1, double, I64> k(t, c, rm); k.run(); break; }
    default: { BlockedCase<Shape_, SL2, SL1, float, std::uint32_t> k(t, c, rm); k.run(); break; }
    }
  }
  extern template void blocked_pairs<Shape::Hypercube<2>>(Tape&, Ctx&, const RawMesh&, int); extern template void blocked_pairs<Shape::Simplex<2>>(Tape&, Ctx&, const RawMesh&, int);
  extern template void blocked_pairs<Shape::Hypercube<3>>(Tape&, Ctx&, const RawMesh&, int); extern template void blocked_pairs<Shape::Simplex<3>>(Tape&, Ctx&, const RawMesh&, int);

  template<typename Shape_, bool simplex_> void blocked_target(Tape& t, Ctx& c)
  {
    MeshOpts o; o.dim = Shape_::dimension; o.simplex = simplex_; o.max_n = (o.dim == 2 ? 3 : 2);
    const int which = t.pick({3, 2, 2, 2, 1});
    if(o.dim == 3) o.max_cells = (which == 2 || which == 3) ? 4 : 2;
    RawMesh rm = gen_mesh(t, o);
    blocked_pairs<Shape_>(t, c, rm, which);
  }
} // namespace c16
