// C16: registration of the functional / function-integral targets (templates instantiated in c16_func_2d.cpp / c16_func_3d.cpp)
#include "c16_func.hpp"
namespace c16
{
  void reg_func(std::vector<vf::Target>& tg)
  {
    tg.push_back({"func_quad", [](vf::Tape& t, vf::Ctx& c) { func_target<Shape::Hypercube<2>, false>(t, c); }, 200, 2, 60000});
    tg.push_back({"func_tria", [](vf::Tape& t, vf::Ctx& c) { func_target<Shape::Simplex<2>, true>(t, c); }, 200, 2, 60000});
    tg.push_back({"func_hexa", [](vf::Tape& t, vf::Ctx& c) { func_target<Shape::Hypercube<3>, false>(t, c); }, 200, 2, 60000});
    tg.push_back({"func_tetra", [](vf::Tape& t, vf::Ctx& c) { func_target<Shape::Simplex<3>, true>(t, c); }, 200, 2, 60000});
  }
}
