// C10 targets for shape Tetra (own translation unit: mesh TUs compile slowly, the shapes build in parallel;
// the mesh generator mg::gen_node<Tetra> is instantiated in c10_gen_tetra.cpp)
#include "common/c10_core.hpp"
extern template mg::Loaded<mg::Tetra> mg::gen_node<mg::Tetra>(vf::Tape&, vf::Ctx&, const mg::GenOpts&, mg::GenInfo&);
void c10_register_tetra(std::vector<vf::Target>& tg) { c10::register_shape<mg::Tetra>(tg); }
