// C08 (thorough tier): composed preconditioners - Schwarz (single rank), Uzawa (4 types), AmaVanka (CSR + explicit
// macros), Vanka (8 types on SaddlePointMatrix<CSR,CSR,CSR>) - against dense block-triangular / local-solve definitions.
#define C08_WITH_SCHWARZ 1
#include "common/c08_core.hpp"
#include <kernel/lafem/saddle_point_matrix.hpp>
#include <kernel/lafem/tuple_vector.hpp>
#include <kernel/lafem/tuple_filter.hpp>
#include <kernel/solver/uzawa_precond.hpp>
#include <kernel/solver/amavanka.hpp>
#include <kernel/solver/vanka.hpp>
using namespace vf;
using namespace vf::c08;

// ------------------------------------------------------------------------------------------------------------------
// small helpers
// ------------------------------------------------------------------------------------------------------------------
namespace
{
  /// rectangular sparse matrix description with value versions (storage order = row-major over the pattern)
  struct SM
  {
    int r = 0, c = 0; std::vector<std::vector<int>> col; std::vector<int> rowptr; std::vector<std::vector<double>> ver;
    long nnz() const { return rowptr.back(); }
    int find(int i, int j) const { for(size_t k = 0; k < col[i].size(); ++k) if(col[i][k] == j) return rowptr[i] + (int)k; return -1; }
    void finish() { rowptr.assign(r + 1, 0); for(int i = 0; i < r; ++i) rowptr[i + 1] = rowptr[i] + (int)col[i].size(); }
    J json(int v = 0) const { J e = J::arr(); for(int i = 0; i < r; ++i) for(size_t k = 0; k < col[i].size(); ++k) { J q = J::arr(); q.add(i); q.add(col[i][k]); q.add(ver[(size_t)v][(size_t)rowptr[i] + k]); e.add(q); } J o = J::obj(); o.set("rows", r); o.set("cols", c); o.set("entries", e); return o; }
    Dense dense(int v) const { Dense d(r, c); for(int i = 0; i < r; ++i) for(size_t k = 0; k < col[i].size(); ++k) { d(i, col[i][k]) = (LD)ver[(size_t)v][(size_t)rowptr[i] + k]; d.st(i, col[i][k]) = 1; } return d; }
  };
  /// pattern from a 0/1 mask (rows never entry-free as a whole: an entry-free CSR has no arrays - C01..C05 territory)
  SM sm_from_mask(int r, int c, const std::vector<std::vector<char>>& on)
  {
    SM m; m.r = r; m.c = c; m.col.assign(r, {}); long n = 0;
    for(int i = 0; i < r; ++i) for(int j = 0; j < c; ++j) if(on[i][j]) { m.col[i].push_back(j); ++n; }
    if(n == 0) m.col[0].push_back(0);
    m.finish(); return m;
  }
  template<typename DT> std::vector<double> sm_values(Tape& t, const SM& m, int valcls, bool nz) { std::vector<double> v((size_t)m.nnz()); for(auto& x : v) { x = narrow<DT>(nz ? t.real_nz(valcls) : t.real(valcls)); } return v; }
  template<typename DT, typename IT> SparseMatrixCSR<DT, IT> sm_build(const SM& m)
  {
    Pat p; p.rows = m.r; p.cols = m.c; p.col = m.col; p.val.assign(m.r, {});
    for(int i = 0; i < m.r; ++i) for(size_t k = 0; k < m.col[i].size(); ++k) p.val[i].push_back(m.ver[0][(size_t)m.rowptr[i] + k]);
    return make_csr<DT, IT>(p);
  }
  template<typename DT, typename IT> void sm_write(SparseMatrixCSR<DT, IT>& A, const SM& m, int v) { DT* p = A.val(); for(size_t q = 0; q < m.ver[(size_t)v].size(); ++q) p[q] = DT(m.ver[(size_t)v][q]); }

  EV ev_of(const std::vector<double>& d) { EV e(d.size()); for(size_t i = 0; i < d.size(); ++i) e[i] = EB((LD)d[i]); return e; }
  EV mv(const Dense& D, const EV& x) { EV y((size_t)D.r); for(long i = 0; i < D.r; ++i) { EB s(0); for(long j = 0; j < D.c; ++j) if(D.st(i, j)) s = s + EB(D(i, j)) * x[(size_t)j]; y[(size_t)i] = s; } return y; }

  /// in-place Gauss-Jordan inverse with diagonal ("symmetric") pivoting on EB: the local solver of the Vanka family
  /// (Math::invert_matrix picks the largest remaining diagonal entry); values = exact inverse, bounds = this formulation
  bool gj_diag_inverse(int n, std::vector<EB>& a)
  {
    std::vector<int> p((size_t)n); for(int i = 0; i < n; ++i) p[(size_t)i] = i;
    if(n == 1) { a[0] = EB(1) / a[0]; return a[0].ok(); }
    for(int k = 0; k < n; ++k)
    {
      int best = k; LD pv = fabsl(a[(size_t)(p[k] * n + p[k])].v);
      for(int j = k + 1; j < n; ++j) { LD x = fabsl(a[(size_t)(p[j] * n + p[j])].v); if(x > pv) { pv = x; best = j; } }
      std::swap(p[(size_t)k], p[(size_t)best]);
      const int pk = p[(size_t)k];
      EB piv = EB(1) / a[(size_t)(pk * n + pk)];
      a[(size_t)(pk * n + pk)] = EB(1);
      for(int j = 0; j < n; ++j) a[(size_t)(pk * n + j)] = a[(size_t)(pk * n + j)] * piv;
      for(int i = 0; i < n; ++i)
      {
        if(i == pk) continue;
        EB f = a[(size_t)(i * n + pk)]; a[(size_t)(i * n + pk)] = EB(0);
        for(int j = 0; j < n; ++j) a[(size_t)(i * n + j)] = a[(size_t)(i * n + j)] - a[(size_t)(pk * n + j)] * f;
      }
    }
    for(auto& x : a) if(!x.ok()) return false;
    return true;
  }

  // ---------------------------------------------------------------------------------------------------------------
  // generic history (same life-cycle grammar as the csr/bcsr targets)
  // ---------------------------------------------------------------------------------------------------------------
  struct Hist { std::vector<Step> steps; std::vector<std::vector<double>> vecs; int versions = 1; };

  template<typename DT, typename NewVersion, typename FixVec>
  Hist gen_history(Tape& t, int N, NewVersion new_version, FixVec fix_vec, int maxsteps = 10)
  {
    Hist h; int nsteps = t.sized(0, maxsteps, 3); int state = 0; bool stale = false; int applies = 0; int version = 0;
    auto new_vec = [&](int vcls) { std::vector<double> v((size_t)N); for(auto& x : v) x = narrow<DT>(t.real(vcls)); fix_vec(v); h.vecs.push_back(v); return (int)h.vecs.size() - 1; };
    auto push = [&](int op) { Step s; s.op = op; h.steps.push_back(s); return h.steps.size() - 1; };
    auto do_apply = [&]() { size_t s = push(O_APPLY); int v = new_vec(t.pick({3, 2, 3})); h.steps[s].vec = v; h.steps[s].version = version; ++applies; };
    auto do_lincomb = [&]()
    {
      size_t s = push(O_LINCOMB); int a = new_vec(1); new_vec(1);
      int ka = t.range(0, 32); double alpha = double(ka - 16) / 4.0; if(alpha == 0.0) alpha = 2.0;
      std::vector<double> v((size_t)N); for(int i = 0; i < N; ++i) v[(size_t)i] = alpha * h.vecs[(size_t)a][(size_t)i] + h.vecs[(size_t)a + 1][(size_t)i];
      h.vecs.push_back(v); h.steps[s].vec = a; h.steps[s].alpha = alpha; h.steps[s].version = version; applies += 3;
    };
    auto do_update = [&]() { size_t s = push(O_UPDATE); new_version(); ++version; h.steps[s].version = version; stale = true; };
    for(int k = 0; k < nsteps; ++k)
    {
      if(state == 0) { if(t.pick({2, 1}) == 0) { push(O_INIT); state = 2; } else { push(O_INIT_SYM); state = 1; } stale = false; }
      else if(state == 1) { if(t.pick({5, 1}) == 0) { push(O_INIT_NUM); state = 2; stale = false; } else { push(O_DONE_SYM); state = 0; } }
      else if(!stale)
      {
        switch(t.pick({5, 3, 2, 1, 1})) {
        case 0: do_apply(); break; case 1: do_update(); break; case 2: do_lincomb(); break;
        case 3: push(O_DONE_NUM); state = 1; break; default: push(O_DONE); state = 0; break; }
      }
      else
      {
        switch(t.pick({6, 2, 1})) {
        case 0: push(O_INIT_NUM); stale = false; break;
        case 1: push(O_DONE_NUM); state = 1; break;
        default: push(O_DONE); state = 0; break; }
      }
    }
    if(applies == 0)
    {
      if(state == 0) { push(O_INIT); state = 2; stale = false; }
      if(state == 1) { push(O_INIT_NUM); state = 2; stale = false; }
      if(stale) { push(O_INIT_NUM); stale = false; }
      do_apply();
    }
    if(state == 2) { if(t.flag()) { push(O_DONE_NUM); push(O_DONE_SYM); } else push(O_DONE); }
    else if(state == 1) push(O_DONE_SYM);
    h.versions = version + 1;
    return h;
  }

  J hist_json(const Hist& h) { J s = J::arr(); for(const Step& st : h.steps) { J q = J::obj(); q.set("op", op_name[st.op]); if(st.vec >= 0) q.set("d", J(h.vecs[(size_t)st.vec])); if(st.op == O_LINCOMB) { q.set("alpha", st.alpha); q.set("d2", J(h.vecs[(size_t)st.vec + 1])); } if(st.op == O_UPDATE) q.set("version", st.version); s.add(q); } return s; }

  template<typename DT> struct Checker
  {
    static constexpr LD K = 8.0L;
    static LD tiny() { return 16.0L * (LD)std::numeric_limits<DT>::min(); }
    static bool informative(const EV& x) { LD mx = 0, me = 0; for(auto& e : x) { if(!e.ok()) return false; mx = std::max(mx, fabsl(e.v)); me = std::max(me, e.e); } return mx > 0 && K * me <= 1e-3L * mx; }
    static void compare(const char* what, int step, const std::vector<LD>& got, const EV& ref, const std::vector<char>& masked)
    {
      for(size_t i = 0; i < ref.size(); ++i)
      {
        if(masked[i]) { VF_CHECK(got[i] == 0, what << " step " << step << ": filtered entry " << i << " is " << (double)got[i]); continue; }
        if(!ref[i].ok()) continue;
        const LD tol = K * ref[i].e + tiny();
        VF_CHECK(std::isfinite((double)got[i]) && fabsl(got[i] - ref[i].v) <= tol, what << " step " << step << ": entry " << i << " got " << (double)got[i] << " expected " << (double)ref[i].v << " tol " << (double)tol);
      }
    }
  };

  /// precompute informativeness / labels, then run the steps.  Sv: object with init_symbolic.. ; apply_fn(d) -> result
  template<typename DT, typename Ref>
  void plan(Ctx& c, const Hist& h, Ref ref, int N, bool extra_nontrivial)
  {
    int n_inf = 0, n_chk = 0; bool upd = false, cyc = false, lin = false; int ninit = 0; bool bd = false;
    for(const Step& s : h.steps)
    {
      if(s.op == O_INIT || s.op == O_INIT_SYM) { if(++ninit > 1) cyc = true; }
      if(s.op == O_APPLY || s.op == O_LINCOMB)
      {
        const int cnt = s.op == O_LINCOMB ? 3 : 1; if(s.op == O_LINCOMB) lin = true;
        for(int q = 0; q < cnt; ++q) { EV r = ref(h.vecs[(size_t)(s.vec + q)], s.version); ++n_chk; bool nz = false; for(double x : h.vecs[(size_t)(s.vec + q)]) nz = nz || x != 0.0; if(Checker<DT>::informative(r) && nz) ++n_inf; for(auto& e : r) if(!e.ok()) bd = true; }
        if(s.version > 0) upd = true;
      }
    }
    c.nontrivial = n_inf > 0 && N >= 2 && extra_nontrivial;
    if(upd) c.label("hist:update-reinit-apply"); if(cyc) c.label("hist:done-init-cycle"); if(lin) c.label("hist:lincomb");
    if(bd) c.label("oracle:breakdown-no-claim"); c.label(n_inf == n_chk ? "oracle:all-informative" : n_inf ? "oracle:some-informative" : "oracle:uninformative");
  }

  template<typename DT, typename Solver, typename SetVersion, typename Apply, typename Ref>
  void run_steps(const char* what, const Hist& h, Solver& solver, SetVersion set_version, Apply apply_fn, Ref ref, const std::vector<char>& masked)
  {
    int step = 0;
    for(const Step& s : h.steps)
    {
      switch(s.op)
      {
      case O_INIT_SYM: solver.init_symbolic(); break;
      case O_INIT_NUM: solver.init_numeric(); break;
      case O_DONE_NUM: solver.done_numeric(); break;
      case O_DONE_SYM: solver.done_symbolic(); break;
      case O_INIT: solver.init(); break;
      case O_DONE: solver.done(); break;
      case O_UPDATE: set_version(s.version); break;
      case O_APPLY: { std::vector<LD> r = apply_fn(h.vecs[(size_t)s.vec], step); Checker<DT>::compare(what, step, r, ref(h.vecs[(size_t)s.vec], s.version), masked); break; }
      case O_LINCOMB:
      {
        std::vector<LD> r[3]; EV e[3];
        for(int q = 0; q < 3; ++q) { r[q] = apply_fn(h.vecs[(size_t)(s.vec + q)], step); e[q] = ref(h.vecs[(size_t)(s.vec + q)], s.version); Checker<DT>::compare(what, step, r[q], e[q], masked); }
        for(size_t i = 0; i < e[0].size(); ++i)
        {
          if(!e[0][i].ok() || !e[1][i].ok() || !e[2][i].ok()) continue;
          const LD lin = (LD)s.alpha * r[0][i] + r[1][i];
          const LD tol = Checker<DT>::K * (fabsl((LD)s.alpha) * e[0][i].e + e[1][i].e + e[2][i].e) + 4 * Checker<DT>::tiny();
          VF_CHECK(fabsl(r[2][i] - lin) <= tol, what << " step " << step << ": not linear in the input at entry " << i << ": " << (double)r[2][i] << " vs " << (double)lin << " tol " << (double)tol);
        }
        break;
      }
      default: break;
      }
      ++step;
    }
  }

  template<typename DT, typename IT> std::string vb(const DenseVector<DT, IT>& v) { return std::string((const char*)v.elements(), v.size() * sizeof(DT)); }
} // namespace

// ------------------------------------------------------------------------------------------------------------------
// Schwarz (single rank): local Jacobi / SOR / SSOR / ILU wrapped in Global::Vector, Global::Filter, SchwarzPrecond
// ------------------------------------------------------------------------------------------------------------------
static void schwarz_case(Tape& t, Ctx& c)
{
  static const int kinds[] = { K_JACOBI, K_SOR, K_SSOR, K_ILU };
  int kind = kinds[t.pick({1, 1, 1, 1})];
  bool ign = t.flag(1, 4);
  if(t.pick({3, 1}) == 0) { Runner<double, std::uint64_t, 1> r(t, c); r.schwarz = true; r.schwarz_ignore = ign; r.run(14, kind); }
  else { Runner<float, std::uint32_t, 1> r(t, c); r.schwarz = true; r.schwarz_ignore = ign; r.run(14, kind); }
}

// ------------------------------------------------------------------------------------------------------------------
// Uzawa
// ------------------------------------------------------------------------------------------------------------------
template<typename DT, typename IT> struct UzF_NN { typedef NoneFilter<DT, IT> FV; typedef NoneFilter<DT, IT> FP; static const bool uv = false, up = false; };
template<typename DT, typename IT> struct UzF_UN { typedef UnitFilter<DT, IT> FV; typedef NoneFilter<DT, IT> FP; static const bool uv = true, up = false; };
template<typename DT, typename IT> struct UzF_UU { typedef UnitFilter<DT, IT> FV; typedef UnitFilter<DT, IT> FP; static const bool uv = true, up = true; };

template<typename DT, typename FT> static void uzawa_run(Tape& t, Ctx& c)
{
  typedef std::uint64_t IT; typedef SparseMatrixCSR<DT, IT> M; typedef DenseVector<DT, IT> V; typedef TupleVector<V, V> TV;
  typedef typename FT::FV FV; typedef typename FT::FP FP;
  set_env<DT>();
  const int nv = t.sized(1, 8), np = t.sized(1, 6), N = nv + np;
  const int type = t.pick({1, 1, 1, 2});   // diagonal, lower, upper, full
  static const char* tn[] = { "diagonal", "lower", "upper", "full" };
  const int sub = t.pick({1, 1});          // sub-solvers: 0 Jacobi (caches -> init_numeric must be forwarded), 1 MatrixPrecond (explicit approximate inverse)
  const bool auto_s = !t.flag(1, 4);
  const int valcls = t.pick({3, 2, 3});
  const double omega_a = double(t.range(0, 95) + 32) / 64.0, omega_s = double(t.range(0, 95) + 32) / 64.0;
  auto mask = [&](int r, int cc, bool diag) { std::vector<std::vector<char>> on(r, std::vector<char>(cc, 0)); unsigned num = (unsigned)t.range(2, 9); for(int i = 0; i < r; ++i) for(int j = 0; j < cc; ++j) on[i][j] = t.flag(num, 10) || (diag && i == j); return on; };
  SM A = sm_from_mask(nv, nv, mask(nv, nv, true)), S = sm_from_mask(np, np, mask(np, np, true)), Bm = sm_from_mask(nv, np, mask(nv, np, false)), Dm = sm_from_mask(np, nv, mask(np, nv, false));
  auto fix_diag = [&](SM& m, std::vector<double>& v) { for(int i = 0; i < m.r; ++i) { int k = m.find(i, i); if(v[(size_t)k] == 0.0) v[(size_t)k] = double(1 + i % 3); } };
  auto gen_all = [&]() { A.ver.push_back(sm_values<DT>(t, A, valcls, false)); fix_diag(A, A.ver.back()); S.ver.push_back(sm_values<DT>(t, S, valcls, false)); fix_diag(S, S.ver.back()); Bm.ver.push_back(sm_values<DT>(t, Bm, valcls, false)); Dm.ver.push_back(sm_values<DT>(t, Dm, valcls, false)); };
  gen_all();
  std::vector<int> fv, fp;
  if(FT::uv) { for(int i = 0; i < nv; ++i) if(t.flag(1, 4)) fv.push_back(i); if(fv.empty()) fv.push_back(t.range(0, nv - 1)); }
  if(FT::up) { for(int i = 0; i < np; ++i) if(t.flag(1, 4)) fp.push_back(i); if(fp.empty()) fp.push_back(t.range(0, np - 1)); }
  Hist h = gen_history<DT>(t, N, gen_all, [](std::vector<double>&) {});

  // oracle: block-triangular definitions with the two sub-solvers as linear operators
  auto ref = [&](const std::vector<double>& d, int v) -> EV
  {
    Dense DA = A.dense(v), DS = S.dense(v), DB = Bm.dense(v), DD = Dm.dense(v);
    auto filt = [&](EV x, const std::vector<int>& idx) { for(int i : idx) x[(size_t)i] = EB(0); return x; };
    auto SA = [&](const EV& x) { EV y; if(sub == 0) { y.resize((size_t)nv); for(int i = 0; i < nv; ++i) y[(size_t)i] = (EB((LD)DT(omega_a)) / EB(DA(i, i))) * x[(size_t)i]; } else y = mv(DA, x); return filt(y, fv); };
    auto SS = [&](const EV& x) { EV y; if(sub == 0) { y.resize((size_t)np); for(int i = 0; i < np; ++i) y[(size_t)i] = (EB((LD)DT(omega_s)) / EB(DS(i, i))) * x[(size_t)i]; } else y = mv(DS, x); return filt(y, fp); };
    EV f_v(d.size() ? (size_t)nv : 0), f_p((size_t)np); for(int i = 0; i < nv; ++i) f_v[(size_t)i] = EB((LD)d[(size_t)i]); for(int i = 0; i < np; ++i) f_p[(size_t)i] = EB((LD)d[(size_t)(nv + i)]);
    EV u, p;
    auto sub_vec = [&](const EV& a, const EV& b) { EV r(a.size()); for(size_t i = 0; i < a.size(); ++i) r[i] = a[i] - b[i]; return r; };
    switch(type)
    {
    case 0: u = SA(f_v); p = SS(f_p); break;
    case 1: u = SA(f_v); p = SS(filt(sub_vec(f_p, mv(DD, u)), fp)); break;
    case 2: p = SS(f_p); u = SA(filt(sub_vec(f_v, mv(DB, p)), fv)); break;
    default: { EV u1 = SA(f_v); p = SS(filt(sub_vec(f_p, mv(DD, u1)), fp)); u = SA(filt(sub_vec(f_v, mv(DB, p)), fv)); break; }
    }
    EV x((size_t)N); for(int i = 0; i < nv; ++i) x[(size_t)i] = u[(size_t)i]; for(int i = 0; i < np; ++i) x[(size_t)(nv + i)] = p[(size_t)i];
    return x;
  };
  std::vector<char> masked((size_t)N, 0); for(int i : fv) masked[(size_t)i] = 1; for(int i : fp) masked[(size_t)(nv + i)] = 1;

  c.op = std::string("uzawa-") + tn[type];
  c.desc.set("kind", "uzawa"); c.desc.set("type", tn[type]); c.desc.set("dt", TypeName<DT>::n()); c.desc.set("sub", sub == 0 ? "jacobi" : "matrix"); c.desc.set("auto_init_s", auto_s);
  c.desc.set("omega_a", omega_a); c.desc.set("omega_s", omega_s); c.desc.set("A", A.json()); c.desc.set("S", S.json()); c.desc.set("B", Bm.json()); c.desc.set("D", Dm.json());
  c.desc.set("filter_v", FT::uv ? J(fv) : J("none")); c.desc.set("filter_p", FT::up ? J(fp) : J("none")); c.desc.set("steps", hist_json(h));
  c.label(std::string("uzawa:") + tn[type]); c.label(sub == 0 ? "uzawa:sub-jacobi" : "uzawa:sub-matrix"); c.label(auto_s ? "uzawa:auto-init-s" : "uzawa:manual-init-s");
  c.label(std::string("dt:") + TypeName<DT>::n()); c.label(FT::uv ? (FT::up ? "filter:unit-unit" : "filter:unit-none") : "filter:none");
  plan<DT>(c, h, ref, N, true);

  M mA = sm_build<DT, IT>(A), mS = sm_build<DT, IT>(S), mB = sm_build<DT, IT>(Bm), mD = sm_build<DT, IT>(Dm);
  FV filt_v = [&]() { if constexpr(FT::uv) { UnitFilter<DT, IT> f((Index)nv); for(int i : fv) f.add(IT(i), DT(0)); return f; } else return NoneFilter<DT, IT>(); }();
  FP filt_p = [&]() { if constexpr(FT::up) { UnitFilter<DT, IT> f((Index)np); for(int i : fp) f.add(IT(i), DT(0)); return f; } else return NoneFilter<DT, IT>(); }();
  c.announce();
  std::shared_ptr<Solver::SolverBase<V>> sa, ss;
  if(sub == 0) { sa = Solver::new_jacobi_precond(mA, filt_v, DT(omega_a)); ss = Solver::new_jacobi_precond(mS, filt_p, DT(omega_s)); }
  else { sa = Solver::new_matrix_precond(mA, filt_v); ss = Solver::new_matrix_precond(mS, filt_p); }
  static const Solver::UzawaType ut[] = { Solver::UzawaType::diagonal, Solver::UzawaType::lower, Solver::UzawaType::upper, Solver::UzawaType::full };
  Solver::UzawaPrecond<M, M, M, FV, FP> uz(mA, mB, mD, filt_v, filt_p, sa, ss, ut[type], auto_s);
  // manual S-solver life cycle when auto_init_s is off (the documented contract of that flag)
  struct Life { Solver::UzawaPrecond<M, M, M, FV, FP>& u; std::shared_ptr<Solver::SolverBase<V>> s; bool manual;
    void init_symbolic() { if(manual) s->init_symbolic(); u.init_symbolic(); } void init_numeric() { if(manual) s->init_numeric(); u.init_numeric(); }
    void done_numeric() { u.done_numeric(); if(manual) s->done_numeric(); } void done_symbolic() { u.done_symbolic(); if(manual) s->done_symbolic(); }
    void init() { init_symbolic(); init_numeric(); } void done() { done_numeric(); done_symbolic(); } } life{uz, ss, !auto_s};
  TV vin{V((Index)nv), V((Index)np)}, vout{V((Index)nv), V((Index)np)};
  auto set_version = [&](int v) { sm_write(mA, A, v); sm_write(mS, S, v); sm_write(mB, Bm, v); sm_write(mD, Dm, v); };
  auto apply_fn = [&](const std::vector<double>& d, int step) -> std::vector<LD>
  {
    for(int i = 0; i < nv; ++i) { vin.template at<0>().elements()[i] = DT(d[(size_t)i]); vout.template at<0>().elements()[i] = std::numeric_limits<DT>::quiet_NaN(); }
    for(int i = 0; i < np; ++i) { vin.template at<1>().elements()[i] = DT(d[(size_t)(nv + i)]); vout.template at<1>().elements()[i] = std::numeric_limits<DT>::quiet_NaN(); }
    std::string m0 = snapshot(mA) + snapshot(mS) + snapshot(mB) + snapshot(mD), x0 = vb(vin.template at<0>()) + vb(vin.template at<1>());
    Solver::Status st = uz.apply(vout, vin);
    VF_CHECK(st == Solver::Status::success, "uzawa step " << step << ": status " << int(st));
    VF_CHECK(m0 == snapshot(mA) + snapshot(mS) + snapshot(mB) + snapshot(mD), "uzawa step " << step << ": apply modified a matrix");
    VF_CHECK(x0 == vb(vin.template at<0>()) + vb(vin.template at<1>()), "uzawa step " << step << ": apply modified its input");
    std::vector<LD> r((size_t)N); for(int i = 0; i < nv; ++i) r[(size_t)i] = (LD)vout.template at<0>().elements()[i]; for(int i = 0; i < np; ++i) r[(size_t)(nv + i)] = (LD)vout.template at<1>().elements()[i];
    return r;
  };
  run_steps<DT>("uzawa", h, life, set_version, apply_fn, ref, masked);
}
static void uzawa_case(Tape& t, Ctx& c)
{
  switch(t.pick({3, 2, 2, 1}))
  {
  case 0: uzawa_run<double, UzF_NN<double, std::uint64_t>>(t, c); break;
  case 1: uzawa_run<double, UzF_UN<double, std::uint64_t>>(t, c); break;
  case 2: uzawa_run<double, UzF_UU<double, std::uint64_t>>(t, c); break;
  default: uzawa_run<float, UzF_UN<float, std::uint64_t>>(t, c); break;
  }
}

// ------------------------------------------------------------------------------------------------------------------
// AmaVanka on a scalar CSR matrix with explicit macros:  M^-1 = diag(omega / #macros(i)) * sum_k P_k^T (P_k A P_k^T)^-1 P_k
// steps > 1: Richardson iteration x <- x + F M^-1 F (b - A x)
// ------------------------------------------------------------------------------------------------------------------
template<typename DT, bool unit> static void amavanka_run(Tape& t, Ctx& c)
{
  typedef std::uint64_t IT; typedef SparseMatrixCSR<DT, IT> M; typedef DenseVector<DT, IT> V;
  typedef typename std::conditional<unit, UnitFilter<DT, IT>, NoneFilter<DT, IT>>::type F;
  set_env<DT>();
  const int n = t.sized(1, 12); const int valcls = t.pick({3, 2, 3}); const bool dd = t.pick({2, 1}) == 0;
  const double omega = double(t.range(0, 95) + 32) / 64.0; const int nsteps = 1 + t.pick({3, 1, 1}); const bool skip_sing = t.flag(1, 4) && dd && std::is_same<DT, double>::value;   // regularity test ||I - A A^-1||_F^2 < eps is only safely passed in double
  std::vector<std::vector<char>> on(n, std::vector<char>(n, 0)); { unsigned num = (unsigned)t.range(2, 9); for(int i = 0; i < n; ++i) for(int j = 0; j < n; ++j) on[i][j] = (i == j) || t.flag(num, 10); }
  SM A = sm_from_mask(n, n, on);
  auto legal = [&](std::vector<double>& v)
  {
    for(int i = 0; i < n; ++i)
    {
      int k = A.find(i, i);
      if(dd) { LD s = 0; for(size_t q = 0; q < A.col[i].size(); ++q) if(A.col[i][q] != i) s += fabsl((LD)v[(size_t)A.rowptr[i] + q]); double need = (double)(s * 1.125L + 0.25L); if(std::fabs(v[(size_t)k]) < need) v[(size_t)k] = narrow<DT>((v[(size_t)k] < 0 ? -1.0 : 1.0) * need); }
      else if(v[(size_t)k] == 0.0) v[(size_t)k] = double(1 + i % 3);
    }
  };
  auto gen_ver = [&]() { A.ver.push_back(sm_values<DT>(t, A, valcls, false)); legal(A.ver.back()); };
  gen_ver();
  // macros: every dof in at least one macro (XASSERT in scale_rows; true for every finite element dof mapping)
  const int nm = t.sized(1, 8); std::vector<std::vector<int>> macros((size_t)nm);
  { std::vector<char> cov((size_t)n, 0);
    for(int k = 0; k < nm; ++k) { unsigned num = (unsigned)t.range(1, 5); for(int i = 0; i < n; ++i) if(t.flag(num, 10) && macros[(size_t)k].size() < 6) { macros[(size_t)k].push_back(i); cov[(size_t)i] = 1; } }
    for(int i = 0; i < n; ++i) if(!cov[(size_t)i]) { int k = t.range(0, nm - 1); macros[(size_t)k].push_back(i); std::sort(macros[(size_t)k].begin(), macros[(size_t)k].end()); }
    for(auto& m : macros) if(m.empty()) m.push_back(0); }
  std::vector<int> fidx; if(unit) { for(int i = 0; i < n; ++i) if(t.flag(1, 4)) fidx.push_back(i); if(fidx.empty()) fidx.push_back(t.range(0, n - 1)); }
  Hist h = gen_history<DT>(t, n, gen_ver, [](std::vector<double>&) {}, 8);

  auto vanka_op = [&](const Dense& D) -> std::vector<EB>   // dense M^-1 (row scaled)
  {
    std::vector<EB> Vm((size_t)(n * n), EB(0)); std::vector<int> cnt((size_t)n, 0);
    for(auto& m : macros)
    {
      const int q = (int)m.size(); std::vector<EB> loc((size_t)(q * q));
      for(int a = 0; a < q; ++a) for(int b = 0; b < q; ++b) loc[(size_t)(a * q + b)] = EB(D(m[(size_t)a], m[(size_t)b]));
      gj_diag_inverse(q, loc);
      for(int a = 0; a < q; ++a) { for(int b = 0; b < q; ++b) Vm[(size_t)(m[(size_t)a] * n + m[(size_t)b])] = Vm[(size_t)(m[(size_t)a] * n + m[(size_t)b])] + loc[(size_t)(a * q + b)]; }
      for(int a = 0; a < q; ++a) cnt[(size_t)m[(size_t)a]]++;
    }
    for(int i = 0; i < n; ++i) { EB sc = EB((LD)DT(omega)) / EB((LD)cnt[(size_t)i]); for(int j = 0; j < n; ++j) Vm[(size_t)(i * n + j)] = Vm[(size_t)(i * n + j)] * sc; }
    return Vm;
  };
  std::vector<std::vector<EB>> Vops; std::vector<Dense> Ds;
  auto ref = [&](const std::vector<double>& d, int v) -> EV
  {
    while((int)Vops.size() <= v) { Ds.push_back(A.dense((int)Vops.size())); Vops.push_back(vanka_op(Ds.back())); }
    const std::vector<EB>& Vm = Vops[(size_t)v]; const Dense& D = Ds[(size_t)v];
    auto vm = [&](const EV& x) { EV y((size_t)n); for(int i = 0; i < n; ++i) { EB s(0); for(int j = 0; j < n; ++j) s = s + Vm[(size_t)(i * n + j)] * x[(size_t)j]; y[(size_t)i] = s; } for(int i : fidx) y[(size_t)i] = EB(0); return y; };
    EV b = ev_of(d), x = vm(b);
    for(int s = 1; s < nsteps; ++s) { EV ax = mv(D, x), df((size_t)n); for(int i = 0; i < n; ++i) df[(size_t)i] = b[(size_t)i] - ax[(size_t)i]; for(int i : fidx) df[(size_t)i] = EB(0); EV cc = vm(df); for(int i = 0; i < n; ++i) x[(size_t)i] = x[(size_t)i] + cc[(size_t)i]; }
    return x;
  };
  std::vector<char> masked((size_t)n, 0);
  // with several steps the filtered entries are x_i + 0: still exactly the first-step zero
  for(int i : fidx) masked[(size_t)i] = 1;

  c.op = "amavanka";
  c.desc.set("kind", "amavanka"); c.desc.set("dt", TypeName<DT>::n()); c.desc.set("omega", omega); c.desc.set("num_steps", nsteps); c.desc.set("skip_singular", skip_sing); c.desc.set("dd", dd);
  c.desc.set("A", A.json()); { J m = J::arr(); for(auto& q : macros) m.add(J(q)); c.desc.set("macros", m); } c.desc.set("filter", unit ? J(fidx) : J("none")); c.desc.set("steps", hist_json(h));
  c.label("kind:amavanka"); c.label(std::string("dt:") + TypeName<DT>::n()); c.label("amavanka:steps=" + std::to_string(nsteps)); c.label(unit ? "filter:unit" : "filter:none"); c.label(dd ? "matrix:diag-dominant" : "matrix:general");
  if(skip_sing) c.label("amavanka:skip-singular(all regular)");
  { bool overlap = false; std::vector<int> cnt((size_t)n, 0); for(auto& m : macros) for(int i : m) if(++cnt[(size_t)i] > 1) overlap = true; c.label(overlap ? "amavanka:overlapping-macros" : "amavanka:disjoint-macros"); }
  bool multi = false; for(auto& m : macros) if(m.size() > 1) multi = true;
  plan<DT>(c, h, ref, n, multi);

  M mA = sm_build<DT, IT>(A);
  F filt = [&]() { if constexpr(unit) { UnitFilter<DT, IT> f((Index)n); for(int i : fidx) f.add(IT(i), DT(0)); return f; } else return NoneFilter<DT, IT>(); }();
  Adjacency::Graph g(Index(nm), Index(n), [&]() { Index s = 0; for(auto& m : macros) s += Index(m.size()); return s; }());
  { Index* dp = g.get_domain_ptr(); Index* ii = g.get_image_idx(); Index k = 0; dp[0] = 0; for(int q = 0; q < nm; ++q) { for(int i : macros[(size_t)q]) ii[k++] = Index(i); dp[q + 1] = k; } }
  c.announce();
  auto solver = Solver::new_amavanka(mA, filt, DT(omega), Index(nsteps));
  solver->push_macro_dofs(std::move(g));
  if(skip_sing) solver->set_skip_singular(true);
  V vin((Index)n), vout((Index)n);
  auto set_version = [&](int v) { sm_write(mA, A, v); };
  auto apply_fn = [&](const std::vector<double>& d, int step) -> std::vector<LD>
  {
    for(int i = 0; i < n; ++i) { vin.elements()[i] = DT(d[(size_t)i]); vout.elements()[i] = std::numeric_limits<DT>::quiet_NaN(); }
    std::string m0 = snapshot(mA), x0 = vb(vin);
    Solver::Status st = solver->apply(vout, vin);
    VF_CHECK(st == Solver::Status::success, "amavanka step " << step << ": status " << int(st));
    VF_CHECK(m0 == snapshot(mA), "amavanka step " << step << ": apply modified the matrix"); VF_CHECK(x0 == vb(vin), "amavanka step " << step << ": apply modified its input");
    std::vector<LD> r((size_t)n); for(int i = 0; i < n; ++i) r[(size_t)i] = (LD)vout.elements()[i]; return r;
  };
  run_steps<DT>("amavanka", h, *solver, set_version, apply_fn, ref, masked);
}
static void amavanka_case(Tape& t, Ctx& c)
{
  switch(t.pick({3, 2, 1})) { case 0: amavanka_run<double, false>(t, c); break; case 1: amavanka_run<double, true>(t, c); break; default: amavanka_run<float, false>(t, c); break; }
}

// ------------------------------------------------------------------------------------------------------------------
// Vanka on SaddlePointMatrix<CSR,CSR,CSR> (velocity dimension 1): nodal / block x diag / full x mult / add
// ------------------------------------------------------------------------------------------------------------------
template<typename DT, bool unit_v> static void vanka_run(Tape& t, Ctx& c)
{
  typedef std::uint64_t IT; typedef SparseMatrixCSR<DT, IT> M; typedef DenseVector<DT, IT> V; typedef TupleVector<V, V> TV;
  typedef SaddlePointMatrix<M, M, M> SPM;
  typedef typename std::conditional<unit_v, UnitFilter<DT, IT>, NoneFilter<DT, IT>>::type FV; typedef NoneFilter<DT, IT> FP; typedef TupleFilter<FV, FP> TF;
  set_env<DT>();
  const bool block = t.flag(), full = t.flag(), add = t.flag();
  const double omega = double(t.range(0, 63) + 32) / 64.0; const int niter = 1 + t.pick({3, 1}); const int valcls = t.pick({3, 2, 3});
  const bool symBD = !t.flag(1, 4);   // B = D^T values (as in every Stokes discretisation) or independent values
  int nv, np; std::vector<std::vector<int>> Vk, Pk;
  std::vector<std::vector<char>> onD, onB;
  if(block)
  {
    // element structure: disjoint pressure dofs per element (discontinuous pressure), velocity dofs shared between neighbours,
    // every element owns one private velocity dof => the D*B connectivity of maximal degree is exactly the element
    const int ne = t.sized(1, 4); np = 0; nv = 0; int shared_prev = -1;
    for(int e = 0; e < ne; ++e)
    {
      std::vector<int> P, Vv; int npe = 1 + t.range(0, 1); for(int q = 0; q < npe; ++q) P.push_back(np++);
      if(shared_prev >= 0) Vv.push_back(shared_prev);
      int nown = 1 + t.range(0, 2); for(int q = 0; q < nown; ++q) Vv.push_back(nv++);
      shared_prev = (e + 1 < ne && t.flag(2, 3)) ? nv++ : -1; if(shared_prev >= 0) Vv.push_back(shared_prev);
      std::sort(Vv.begin(), Vv.end()); Vk.push_back(Vv); Pk.push_back(P);
    }
    onD.assign(np, std::vector<char>(nv, 0)); onB.assign(nv, std::vector<char>(np, 0));
    for(size_t e = 0; e < Vk.size(); ++e) for(int p : Pk[e]) for(int v : Vk[e]) { onD[p][v] = 1; onB[v][p] = 1; }
  }
  else
  {
    nv = t.sized(1, 8); np = t.sized(1, 5);
    onD.assign(np, std::vector<char>(nv, 0)); onB.assign(nv, std::vector<char>(np, 0));
    unsigned num = (unsigned)t.range(2, 8);
    for(int p = 0; p < np; ++p) { for(int v = 0; v < nv; ++v) onD[p][v] = t.flag(num, 10); bool any = false; for(int v = 0; v < nv; ++v) any = any || onD[p][v]; if(!any) onD[p][t.range(0, nv - 1)] = 1; }
    // every velocity dof is coupled to some pressure dof (true for every discretisation; the additive scaling vector divides by the count)
    for(int v = 0; v < nv; ++v) { bool any = false; for(int p = 0; p < np; ++p) any = any || onD[p][v]; if(!any) onD[t.range(0, np - 1)][v] = 1; }
    for(int p = 0; p < np; ++p) for(int v = 0; v < nv; ++v) onB[v][p] = onD[p][v] || t.flag(1, 8);
    for(int p = 0; p < np; ++p) { std::vector<int> Vv; for(int v = 0; v < nv; ++v) if(onD[p][v]) Vv.push_back(v); Vk.push_back(Vv); Pk.push_back({p}); }
  }
  const int N = nv + np;
  std::vector<std::vector<char>> onA(nv, std::vector<char>(nv, 0)); { unsigned num = (unsigned)t.range(2, 9); for(int i = 0; i < nv; ++i) for(int j = 0; j < nv; ++j) onA[i][j] = (i == j) || t.flag(num, 10); }
  SM A = sm_from_mask(nv, nv, onA), Bm = sm_from_mask(nv, np, onB), Dm = sm_from_mask(np, nv, onD);
  auto gen_ver = [&]()
  {
    std::vector<double> va = sm_values<DT>(t, A, valcls, false);
    // strictly diagonally dominant A with positive diagonal: local Schur complements -D diag(A)^-1 D^T are definite for B = D^T
    for(int i = 0; i < nv; ++i) { LD s = 0; for(size_t q = 0; q < A.col[i].size(); ++q) if(A.col[i][q] != i) s += fabsl((LD)va[(size_t)A.rowptr[i] + q]); int k = A.find(i, i); double need = (double)(s * 1.125L + 0.25L); if(!(va[(size_t)k] >= need)) va[(size_t)k] = narrow<DT>(std::max(need, std::fabs(va[(size_t)k]))); }
    A.ver.push_back(va);
    std::vector<double> vd = sm_values<DT>(t, Dm, valcls, true); Dm.ver.push_back(vd);
    std::vector<double> vbv = sm_values<DT>(t, Bm, valcls, false);
    if(symBD) for(int v = 0; v < nv; ++v) for(size_t q = 0; q < Bm.col[v].size(); ++q) { int p = Bm.col[v][q]; int k = Dm.find(p, v); vbv[(size_t)Bm.rowptr[v] + q] = k >= 0 ? vd[(size_t)k] : 0.0; }
    Bm.ver.push_back(vbv);
  };
  gen_ver();
  std::vector<int> fidx; if(unit_v) { for(int i = 0; i < nv; ++i) if(t.flag(1, 5)) fidx.push_back(i); if(fidx.empty()) fidx.push_back(t.range(0, nv - 1)); }
  Hist h = gen_history<DT>(t, N, gen_ver, [](std::vector<double>&) {}, 8);

  struct Local { std::vector<EB> inv; std::vector<EB> a, s; };   // full: inverse of the local saddle matrix; diag: 1/a_ii and S^-1
  struct VerData { Dense DA, DB, DD; std::vector<Local> loc; bool breakdown = false; };
  std::vector<VerData> vd;
  auto prepare = [&](int v)
  {
    while((int)vd.size() <= v)
    {
      VerData w; const int vv = (int)vd.size(); w.DA = A.dense(vv); w.DB = Bm.dense(vv); w.DD = Dm.dense(vv);
      for(size_t k = 0; k < Vk.size(); ++k)
      {
        const int lv = (int)Vk[k].size(), lp = (int)Pk[k].size(), n = lv + lp; Local L;
        if(full)
        {
          L.inv.assign((size_t)(n * n), EB(0));
          for(int a = 0; a < lv; ++a) { for(int b = 0; b < lv; ++b) L.inv[(size_t)(a * n + b)] = EB(w.DA(Vk[k][(size_t)a], Vk[k][(size_t)b])); for(int b = 0; b < lp; ++b) L.inv[(size_t)(a * n + lv + b)] = EB(w.DB(Vk[k][(size_t)a], Pk[k][(size_t)b])); }
          for(int a = 0; a < lp; ++a) for(int b = 0; b < lv; ++b) L.inv[(size_t)((lv + a) * n + b)] = EB(w.DD(Pk[k][(size_t)a], Vk[k][(size_t)b]));
          if(!gj_diag_inverse(n, L.inv)) w.breakdown = true;
        }
        else
        {
          L.a.resize((size_t)lv); for(int a = 0; a < lv; ++a) L.a[(size_t)a] = EB(1) / EB(w.DA(Vk[k][(size_t)a], Vk[k][(size_t)a]));
          L.s.assign((size_t)(lp * lp), EB(0));
          for(int i = 0; i < lp; ++i) for(int j = 0; j < lp; ++j) { EB s(0); for(int q = 0; q < lv; ++q) s = s + (EB(w.DD(Pk[k][(size_t)i], Vk[k][(size_t)q])) * L.a[(size_t)q]) * EB(w.DB(Vk[k][(size_t)q], Pk[k][(size_t)j])); L.s[(size_t)(i * lp + j)] = -s; }
          if(!gj_diag_inverse(lp, L.s)) w.breakdown = true;
        }
        w.loc.push_back(L);
      }
      vd.push_back(w);
    }
  };
  auto ref = [&](const std::vector<double>& d, int v) -> EV
  {
    prepare(v); const VerData& w = vd[(size_t)v];
    EV f = ev_of(d), x((size_t)N, EB(0));
    std::vector<int> cnt((size_t)N, 0); for(size_t k = 0; k < Vk.size(); ++k) { for(int i : Vk[k]) cnt[(size_t)i]++; for(int i : Pk[k]) cnt[(size_t)(nv + i)]++; }
    auto sys_defect = [&](const EV& xx) { EV r = f; for(int i = 0; i < nv; ++i) { EB s(0); for(int j = 0; j < nv; ++j) if(w.DA.st(i, j)) s = s + EB(w.DA(i, j)) * xx[(size_t)j]; for(int j = 0; j < np; ++j) if(w.DB.st(i, j)) s = s + EB(w.DB(i, j)) * xx[(size_t)(nv + j)]; r[(size_t)i] = r[(size_t)i] - s; } for(int i = 0; i < np; ++i) { EB s(0); for(int j = 0; j < nv; ++j) if(w.DD.st(i, j)) s = s + EB(w.DD(i, j)) * xx[(size_t)j]; r[(size_t)(nv + i)] = r[(size_t)(nv + i)] - s; } return r; };
    for(int it = 0; it < niter; ++it)
    {
      EV dglob = add ? (it == 0 ? f : sys_defect(x)) : f; EV tmp((size_t)N, EB(0));
      for(size_t k = 0; k < Vk.size(); ++k)
      {
        const int lv = (int)Vk[k].size(), lp = (int)Pk[k].size(), n = lv + lp; const Local& L = w.loc[k];
        EV ld((size_t)n), lc((size_t)n);
        if(add) { for(int a = 0; a < lv; ++a) ld[(size_t)a] = dglob[(size_t)Vk[k][(size_t)a]]; for(int a = 0; a < lp; ++a) ld[(size_t)(lv + a)] = dglob[(size_t)(nv + Pk[k][(size_t)a])]; }
        else
        {
          // local defect with the current iterate (Gauss-Seidel style)
          for(int a = 0; a < lv; ++a) { const int i = Vk[k][(size_t)a]; EB s(0); for(int j = 0; j < nv; ++j) if(w.DA.st(i, j)) s = s + EB(w.DA(i, j)) * x[(size_t)j]; EB s2(0); for(int j = 0; j < np; ++j) if(w.DB.st(i, j)) s2 = s2 + EB(w.DB(i, j)) * x[(size_t)(nv + j)]; ld[(size_t)a] = (f[(size_t)i] - s) - s2; }
          for(int a = 0; a < lp; ++a) { const int i = Pk[k][(size_t)a]; EB s(0); for(int j = 0; j < nv; ++j) if(w.DD.st(i, j)) s = s + EB(w.DD(i, j)) * x[(size_t)j]; ld[(size_t)(lv + a)] = f[(size_t)(nv + i)] - s; }
        }
        if(full) { for(int a = 0; a < n; ++a) { EB s(0); for(int b = 0; b < n; ++b) s = s + L.inv[(size_t)(a * n + b)] * ld[(size_t)b]; lc[(size_t)a] = s; } }
        else
        {
          // Schur complement with diag(A): p = S^-1 (g - D a^-1 f_u), u = a^-1 (f_u - B p)
          EV g((size_t)lp);
          for(int i = 0; i < lp; ++i) { EB r(0); for(int q = 0; q < lv; ++q) r = r + (EB(w.DD(Pk[k][(size_t)i], Vk[k][(size_t)q])) * L.a[(size_t)q]) * ld[(size_t)q]; g[(size_t)i] = ld[(size_t)(lv + i)] - r; }
          for(int i = 0; i < lp; ++i) { EB r(0); for(int j = 0; j < lp; ++j) r = r + L.s[(size_t)(i * lp + j)] * g[(size_t)j]; lc[(size_t)(lv + i)] = r; }
          for(int q = 0; q < lv; ++q) { EB xb(0); for(int j = 0; j < lp; ++j) xb = xb + EB(w.DB(Vk[k][(size_t)q], Pk[k][(size_t)j])) * lc[(size_t)(lv + j)]; lc[(size_t)q] = L.a[(size_t)q] * (ld[(size_t)q] - xb); }
        }
        EV& tgt = add ? tmp : x;
        for(int a = 0; a < lv; ++a) tgt[(size_t)Vk[k][(size_t)a]] = tgt[(size_t)Vk[k][(size_t)a]] + EB((LD)DT(omega)) * lc[(size_t)a];
        for(int a = 0; a < lp; ++a) tgt[(size_t)(nv + Pk[k][(size_t)a])] = tgt[(size_t)(nv + Pk[k][(size_t)a])] + EB((LD)DT(omega)) * lc[(size_t)(lv + a)];
      }
      if(add) for(int i = 0; i < N; ++i) x[(size_t)i] = x[(size_t)i] + tmp[(size_t)i] * (EB(1) / EB((LD)cnt[(size_t)i]));
      for(int i : fidx) x[(size_t)i] = EB(0);
    }
    return x;
  };
  std::vector<char> masked((size_t)N, 0); for(int i : fidx) masked[(size_t)i] = 1;

  const std::string tname = std::string(block ? "block" : "nodal") + "_" + (full ? "full" : "diag") + "_" + (add ? "add" : "mult");
  c.op = "vanka-" + tname;
  c.desc.set("kind", "vanka"); c.desc.set("type", tname); c.desc.set("dt", TypeName<DT>::n()); c.desc.set("omega", omega); c.desc.set("num_iter", niter); c.desc.set("B=D^T", symBD);
  c.desc.set("A", A.json()); c.desc.set("B", Bm.json()); c.desc.set("D", Dm.json()); c.desc.set("filter_v", unit_v ? J(fidx) : J("none")); c.desc.set("steps", hist_json(h));
  c.label("vanka:" + tname); c.label(std::string("dt:") + TypeName<DT>::n()); c.label(unit_v ? "filter:unit-none" : "filter:none"); c.label("vanka:iter=" + std::to_string(niter)); c.label(symBD ? "vanka:B=D^T" : "vanka:B-independent");
  plan<DT>(c, h, ref, N, np >= 1 && nv >= 1);
  bool any_breakdown = false; for(int v = 0; v < h.versions; ++v) { prepare(v); any_breakdown = any_breakdown || vd[(size_t)v].breakdown; }
  if(any_breakdown) c.label("vanka:singular-local-system(no claim)");

  SPM mat(sm_build<DT, IT>(A), sm_build<DT, IT>(Bm), sm_build<DT, IT>(Dm));
  FV fv = [&]() { if constexpr(unit_v) { UnitFilter<DT, IT> f((Index)nv); for(int i : fidx) f.add(IT(i), DT(0)); return f; } else return NoneFilter<DT, IT>(); }();
  TF filt(std::move(fv), FP());
  static const Solver::VankaType vt[] = { Solver::VankaType::nodal_diag_mult, Solver::VankaType::nodal_full_mult, Solver::VankaType::block_diag_mult, Solver::VankaType::block_full_mult,
                                          Solver::VankaType::nodal_diag_add, Solver::VankaType::nodal_full_add, Solver::VankaType::block_diag_add, Solver::VankaType::block_full_add };
  c.announce();
  auto solver = Solver::new_vanka(mat, filt, vt[(add ? 4 : 0) + (block ? 2 : 0) + (full ? 1 : 0)], DT(omega), Index(niter));
  // a singular local system makes the diagonal variants throw VankaFactorError by design: no claim for such a case
  struct Life { decltype(*solver)& s; bool tolerate; bool dead = false;
    void init_symbolic() { s.init_symbolic(); } void init_numeric() { try { s.init_numeric(); } catch(Solver::VankaFactorError&) { if(!tolerate) throw; dead = true; } }
    void done_numeric() { s.done_numeric(); } void done_symbolic() { s.done_symbolic(); } void init() { init_symbolic(); init_numeric(); } void done() { done_numeric(); done_symbolic(); } } life{*solver, any_breakdown};
  TV vin{V((Index)nv), V((Index)np)}, vout{V((Index)nv), V((Index)np)};
  auto set_version = [&](int v) { sm_write(mat.block_a(), A, v); sm_write(mat.block_b(), Bm, v); sm_write(mat.block_d(), Dm, v); };
  auto apply_fn = [&](const std::vector<double>& d, int step) -> std::vector<LD>
  {
    for(int i = 0; i < nv; ++i) { vin.template at<0>().elements()[i] = DT(d[(size_t)i]); vout.template at<0>().elements()[i] = std::numeric_limits<DT>::quiet_NaN(); }
    for(int i = 0; i < np; ++i) { vin.template at<1>().elements()[i] = DT(d[(size_t)(nv + i)]); vout.template at<1>().elements()[i] = std::numeric_limits<DT>::quiet_NaN(); }
    std::string m0 = snapshot(mat.block_a()) + snapshot(mat.block_b()) + snapshot(mat.block_d()), x0 = vb(vin.template at<0>()) + vb(vin.template at<1>());
    Solver::Status st = solver->apply(vout, vin);
    VF_CHECK(st == Solver::Status::success, "vanka step " << step << ": status " << int(st));
    VF_CHECK(m0 == snapshot(mat.block_a()) + snapshot(mat.block_b()) + snapshot(mat.block_d()), "vanka step " << step << ": apply modified a matrix");
    VF_CHECK(x0 == vb(vin.template at<0>()) + vb(vin.template at<1>()), "vanka step " << step << ": apply modified its input");
    std::vector<LD> r((size_t)N); for(int i = 0; i < nv; ++i) r[(size_t)i] = (LD)vout.template at<0>().elements()[i]; for(int i = 0; i < np; ++i) r[(size_t)(nv + i)] = (LD)vout.template at<1>().elements()[i];
    return r;
  };
  auto ref_live = [&](const std::vector<double>& d, int v) -> EV { EV r = ref(d, v); if(life.dead) for(auto& e : r) e.e = INF; return r; };
  run_steps<DT>(c.op.c_str(), h, life, set_version, apply_fn, ref_live, masked);
}
static void vanka_case(Tape& t, Ctx& c)
{
  switch(t.pick({3, 2, 1})) { case 0: vanka_run<double, false>(t, c); break; case 1: vanka_run<double, true>(t, c); break; default: vanka_run<float, false>(t, c); break; }
}

// ------------------------------------------------------------------------------------------------------------------
// AmaVanka on SaddlePointMatrix<BCSR<2,2>, BCSR<2,1>, BCSR<1,2>> with automatically deduced macros (element structure,
// discontinuous pressure):  M^-1 = diag(omega/#macros(dof)) * sum_e P_e^T ([A B; D 0]_ee)^-1 P_e
// ------------------------------------------------------------------------------------------------------------------
namespace
{
  template<typename DT, typename IT, int H, int W> SparseMatrixBCSR<DT, IT, H, W> bm_build(const SM& m)
  {
    Adjacency::Graph g(Index(m.r), Index(m.c), Index(m.nnz()));
    Index* dp = g.get_domain_ptr(); Index* ii = g.get_image_idx(); Index k = 0; dp[0] = 0;
    for(int i = 0; i < m.r; ++i) { for(int c2 : m.col[i]) ii[k++] = Index(c2); dp[i + 1] = k; }
    SparseMatrixBCSR<DT, IT, H, W> A(g); DT* v = A.template val<Perspective::pod>();
    for(size_t q = 0; q < m.ver[0].size(); ++q) v[q] = DT(m.ver[0][q]);
    return A;
  }
  template<typename DT, typename IT, int H, int W> void bm_write(SparseMatrixBCSR<DT, IT, H, W>& A, const SM& m, int ver) { DT* v = A.template val<Perspective::pod>(); for(size_t q = 0; q < m.ver[(size_t)ver].size(); ++q) v[q] = DT(m.ver[(size_t)ver][q]); }
  /// scalar-expanded dense view of a blocked description (H x W blocks, row-major inside a block)
  Dense bm_dense(const SM& m, int ver, int H, int W)
  {
    Dense d(m.r * H, m.c * W);
    for(int i = 0; i < m.r; ++i) for(size_t k = 0; k < m.col[i].size(); ++k) for(int a = 0; a < H; ++a) for(int b = 0; b < W; ++b)
    { d(i * H + a, m.col[i][k] * W + b) = (LD)m.ver[(size_t)ver][((size_t)m.rowptr[i] + k) * (size_t)(H * W) + (size_t)(a * W + b)]; d.st(i * H + a, m.col[i][k] * W + b) = 1; }
    return d;
  }
}
template<typename DT, bool unit_v> static void amavanka_saddle_run(Tape& t, Ctx& c)
{
  typedef std::uint64_t IT; const int dim = 2;
  typedef SparseMatrixBCSR<DT, IT, 2, 2> MA; typedef SparseMatrixBCSR<DT, IT, 2, 1> MB; typedef SparseMatrixBCSR<DT, IT, 1, 2> MD;
  typedef SaddlePointMatrix<MA, MB, MD> SPM; typedef typename SPM::VectorTypeL TV;
  typedef typename std::conditional<unit_v, UnitFilterBlocked<DT, IT, 2>, NoneFilterBlocked<DT, IT, 2>>::type FV; typedef NoneFilter<DT, IT> FP; typedef TupleFilter<FV, FP> TF;
  set_env<DT>();
  const double omega = double(t.range(0, 95) + 32) / 64.0; const int nsteps = 1 + t.pick({3, 1, 1}); const int valcls = t.pick({3, 2, 3}); const bool symBD = !t.flag(1, 4);
  // element structure as for the block Vanka: private + shared velocity dofs, disjoint pressure dofs
  int nv = 0, np = 0; std::vector<std::vector<int>> Vk, Pk; int shared_prev = -1; const int ne = t.sized(1, 4);
  for(int e = 0; e < ne; ++e)
  {
    std::vector<int> P, Vv; int npe = 1 + t.range(0, 1); for(int q = 0; q < npe; ++q) P.push_back(np++);
    if(shared_prev >= 0) Vv.push_back(shared_prev);
    int nown = 1 + t.range(0, 1); for(int q = 0; q < nown; ++q) Vv.push_back(nv++);
    shared_prev = (e + 1 < ne && t.flag(2, 3)) ? nv++ : -1; if(shared_prev >= 0) Vv.push_back(shared_prev);
    std::sort(Vv.begin(), Vv.end()); Vk.push_back(Vv); Pk.push_back(P);
  }
  std::vector<std::vector<char>> onD(np, std::vector<char>(nv, 0)), onB(nv, std::vector<char>(np, 0)), onA(nv, std::vector<char>(nv, 0));
  for(size_t e = 0; e < Vk.size(); ++e) { for(int p : Pk[e]) for(int v : Vk[e]) { onD[p][v] = 1; onB[v][p] = 1; } for(int v : Vk[e]) for(int w : Vk[e]) onA[v][w] = (v == w) || t.flag(3, 4); }
  SM A = sm_from_mask(nv, nv, onA), Bm = sm_from_mask(nv, np, onB), Dm = sm_from_mask(np, nv, onD);
  const int NS = nv * dim + np;
  auto gen_ver = [&]()
  {
    std::vector<double> va((size_t)A.nnz() * 4), vbv((size_t)Bm.nnz() * 2), vdv((size_t)Dm.nnz() * 2);
    for(auto& x : va) x = narrow<DT>(t.real(valcls)); for(auto& x : vdv) x = narrow<DT>(t.real_nz(valcls)); for(auto& x : vbv) x = narrow<DT>(t.real(valcls));
    // scalar-wise strictly dominant A with positive diagonal
    for(int i = 0; i < nv; ++i) for(int a = 0; a < 2; ++a)
    {
      LD s = 0; for(size_t q = 0; q < A.col[i].size(); ++q) for(int b = 0; b < 2; ++b) if(!(A.col[i][q] == i && b == a)) s += fabsl((LD)va[((size_t)A.rowptr[i] + q) * 4 + (size_t)(a * 2 + b)]);
      size_t k = (size_t)A.find(i, i) * 4 + (size_t)(a * 2 + a); double need = (double)(s * 1.125L + 0.25L); if(!(va[k] >= need)) va[k] = narrow<DT>(std::max(need, std::fabs(va[k])));
    }
    if(symBD) for(int v = 0; v < nv; ++v) for(size_t q = 0; q < Bm.col[v].size(); ++q) { int p = Bm.col[v][q]; int k = Dm.find(p, v); for(int a = 0; a < 2; ++a) vbv[((size_t)Bm.rowptr[v] + q) * 2 + (size_t)a] = vdv[(size_t)k * 2 + (size_t)a]; }
    A.ver.push_back(va); Bm.ver.push_back(vbv); Dm.ver.push_back(vdv);
  };
  gen_ver();
  std::vector<int> fidx; if(unit_v) { for(int i = 0; i < nv; ++i) if(t.flag(1, 5)) fidx.push_back(i); if(fidx.empty()) fidx.push_back(t.range(0, nv - 1)); }
  Hist h = gen_history<DT>(t, NS, gen_ver, [](std::vector<double>&) {}, 8);
  std::vector<char> masked((size_t)NS, 0); for(int i : fidx) { masked[(size_t)(2 * i)] = 1; masked[(size_t)(2 * i + 1)] = 1; }

  struct VD { std::vector<EB> Mfull, Vm; bool breakdown = false; };
  std::vector<VD> vdat;
  auto prepare = [&](int v)
  {
    while((int)vdat.size() <= v)
    {
      const int vv = (int)vdat.size(); VD w; Dense DA = bm_dense(A, vv, 2, 2), DB = bm_dense(Bm, vv, 2, 1), DD = bm_dense(Dm, vv, 1, 2);
      w.Mfull.assign((size_t)(NS * NS), EB(0)); w.Vm.assign((size_t)(NS * NS), EB(0));
      for(int i = 0; i < nv * 2; ++i) { for(int j = 0; j < nv * 2; ++j) w.Mfull[(size_t)(i * NS + j)] = EB(DA(i, j)); for(int j = 0; j < np; ++j) w.Mfull[(size_t)(i * NS + nv * 2 + j)] = EB(DB(i, j)); }
      for(int i = 0; i < np; ++i) for(int j = 0; j < nv * 2; ++j) w.Mfull[(size_t)((nv * 2 + i) * NS + j)] = EB(DD(i, j));
      std::vector<int> cnt((size_t)NS, 0);
      for(size_t e = 0; e < Vk.size(); ++e)
      {
        std::vector<int> I; for(int x : Vk[e]) { I.push_back(2 * x); I.push_back(2 * x + 1); } for(int x : Pk[e]) I.push_back(2 * nv + x);
        const int q = (int)I.size(); std::vector<EB> loc((size_t)(q * q)); for(int a = 0; a < q; ++a) for(int b = 0; b < q; ++b) loc[(size_t)(a * q + b)] = w.Mfull[(size_t)(I[(size_t)a] * NS + I[(size_t)b])];
        if(!gj_diag_inverse(q, loc)) w.breakdown = true;
        for(int a = 0; a < q; ++a) { for(int b = 0; b < q; ++b) w.Vm[(size_t)(I[(size_t)a] * NS + I[(size_t)b])] = w.Vm[(size_t)(I[(size_t)a] * NS + I[(size_t)b])] + loc[(size_t)(a * q + b)]; cnt[(size_t)I[(size_t)a]]++; }
      }
      for(int i = 0; i < NS; ++i) { EB sc = EB((LD)DT(omega)) / EB((LD)std::max(cnt[(size_t)i], 1)); for(int j = 0; j < NS; ++j) w.Vm[(size_t)(i * NS + j)] = w.Vm[(size_t)(i * NS + j)] * sc; }
      vdat.push_back(w);
    }
  };
  auto ref = [&](const std::vector<double>& d, int v) -> EV
  {
    prepare(v); const VD& w = vdat[(size_t)v];
    auto mul = [&](const std::vector<EB>& Mx, const EV& x) { EV y((size_t)NS); for(int i = 0; i < NS; ++i) { EB s(0); for(int j = 0; j < NS; ++j) s = s + Mx[(size_t)(i * NS + j)] * x[(size_t)j]; y[(size_t)i] = s; } return y; };
    auto filt = [&](EV x) { for(int i = 0; i < NS; ++i) if(masked[(size_t)i]) x[(size_t)i] = EB(0); return x; };
    EV b = ev_of(d), x = filt(mul(w.Vm, b));
    for(int s2 = 1; s2 < nsteps; ++s2) { EV ax = mul(w.Mfull, x), df((size_t)NS); for(int i = 0; i < NS; ++i) df[(size_t)i] = b[(size_t)i] - ax[(size_t)i]; EV cc = filt(mul(w.Vm, filt(df))); for(int i = 0; i < NS; ++i) x[(size_t)i] = x[(size_t)i] + cc[(size_t)i]; }
    return x;
  };
  c.op = "amavanka-saddle";
  c.desc.set("kind", "amavanka-saddle"); c.desc.set("dt", TypeName<DT>::n()); c.desc.set("omega", omega); c.desc.set("num_steps", nsteps); c.desc.set("B=D^T", symBD);
  { J e = J::arr(); for(size_t k = 0; k < Vk.size(); ++k) { J o = J::obj(); o.set("v", J(Vk[k])); o.set("p", J(Pk[k])); e.add(o); } c.desc.set("elements", e); }
  c.desc.set("A_pod", J(A.ver[0])); c.desc.set("B_pod", J(Bm.ver[0])); c.desc.set("D_pod", J(Dm.ver[0])); c.desc.set("A_pattern", A.json()); c.desc.set("filter_v", unit_v ? J(fidx) : J("none")); c.desc.set("steps", hist_json(h));
  c.label("kind:amavanka-saddle"); c.label(std::string("dt:") + TypeName<DT>::n()); c.label("amavanka:steps=" + std::to_string(nsteps)); c.label(unit_v ? "filter:unit-none" : "filter:none"); c.label(symBD ? "saddle:B=D^T" : "saddle:B-independent");
  c.label(ne == 1 ? "saddle:one-element" : "saddle:several-elements");
  plan<DT>(c, h, ref, NS, true);
  bool bd = false; for(int v = 0; v < h.versions; ++v) { prepare(v); bd = bd || vdat[(size_t)v].breakdown; } if(bd) c.label("saddle:singular-local-system(no claim)");

  SPM mat(bm_build<DT, IT, 2, 2>(A), bm_build<DT, IT, 2, 1>(Bm), bm_build<DT, IT, 1, 2>(Dm));
  { Dense chk = dense_of(mat.block_a()); VF_CHECK(chk.a == bm_dense(A, 0, 2, 2).a, "harness: block A differs from its description"); }
  FV fv = [&]() { if constexpr(unit_v) { UnitFilterBlocked<DT, IT, 2> f((Index)nv); for(int i : fidx) f.add(IT(i), Tiny::Vector<DT, 2>(DT(0))); return f; } else return NoneFilterBlocked<DT, IT, 2>(); }();
  TF filt(std::move(fv), FP());
  c.announce();
  auto solver = Solver::new_amavanka(mat, filt, DT(omega), Index(nsteps));
  TV vin = mat.create_vector_l(), vout = mat.create_vector_l();
  auto set_version = [&](int v) { bm_write(mat.block_a(), A, v); bm_write(mat.block_b(), Bm, v); bm_write(mat.block_d(), Dm, v); };
  auto apply_fn = [&](const std::vector<double>& d, int step) -> std::vector<LD>
  {
    DT* iv = vin.template at<0>().template elements<Perspective::pod>(); DT* ov = vout.template at<0>().template elements<Perspective::pod>();
    for(int i = 0; i < nv * 2; ++i) { iv[i] = DT(d[(size_t)i]); ov[i] = std::numeric_limits<DT>::quiet_NaN(); }
    for(int i = 0; i < np; ++i) { vin.template at<1>().elements()[i] = DT(d[(size_t)(nv * 2 + i)]); vout.template at<1>().elements()[i] = std::numeric_limits<DT>::quiet_NaN(); }
    std::string m0 = snapshot(mat.block_a()) + snapshot(mat.block_b()) + snapshot(mat.block_d()), x0 = std::string((const char*)iv, (size_t)(nv * 2) * sizeof(DT)) + vb(vin.template at<1>());
    Solver::Status st = solver->apply(vout, vin);
    VF_CHECK(st == Solver::Status::success, "amavanka-saddle step " << step << ": status " << int(st));
    VF_CHECK(m0 == snapshot(mat.block_a()) + snapshot(mat.block_b()) + snapshot(mat.block_d()), "amavanka-saddle step " << step << ": apply modified a matrix");
    VF_CHECK(x0 == std::string((const char*)iv, (size_t)(nv * 2) * sizeof(DT)) + vb(vin.template at<1>()), "amavanka-saddle step " << step << ": apply modified its input");
    std::vector<LD> r((size_t)NS); for(int i = 0; i < nv * 2; ++i) r[(size_t)i] = (LD)ov[i]; for(int i = 0; i < np; ++i) r[(size_t)(nv * 2 + i)] = (LD)vout.template at<1>().elements()[i];
    return r;
  };
  run_steps<DT>("amavanka-saddle", h, *solver, set_version, apply_fn, ref, masked);
}
static void amavanka_saddle_case(Tape& t, Ctx& c)
{
  switch(t.pick({3, 2, 1})) { case 0: amavanka_saddle_run<double, false>(t, c); break; case 1: amavanka_saddle_run<double, true>(t, c); break; default: amavanka_saddle_run<float, false>(t, c); break; }
}

int main(int argc, char** argv)
{
  FEAT::Runtime::ScopeGuard guard(argc, argv);
  std::vector<Target> tg;
  tg.push_back({"schwarz", schwarz_case, 192, 16});
  tg.push_back({"uzawa", uzawa_case, 192, 12});
  tg.push_back({"amavanka", amavanka_case, 192, 12});
  tg.push_back({"vanka", vanka_case, 192, 12});
  tg.push_back({"amavanka_saddle", amavanka_saddle_case, 192, 12});
  return main_impl(argc, argv, tg);
}
