// C12 multi-layered halo splitting targets for shape Quad
#include "common/c12_split.hpp"
extern template mg::Loaded<mg::Quad> mg::gen_node<mg::Quad>(vf::Tape&, vf::Ctx&, const mg::GenOpts&, mg::GenInfo&);
void c12_register_split_quad(std::vector<vf::Target>& tg) { c12::register_split<mg::Quad>(tg); }
