// C11 structured round trip + fault injection, shape s2 (one TU per shape so that the four reader/writer
// instantiations compile in parallel)
#include "common/c11_gen.hpp"
namespace c11
{
  void rt_s2(Tape& t, Ctx& c) { rt_case<MeshS2>(t, c); }
  void fault_s2(Tape& t, Ctx& c) { fault_case<MeshS2>(t, c); }
}
