// C11 structured round trip + fault injection, shape s2 (one TU per shape so that the four reader/writer
// instantiations compile in parallel)
#include "common/c11_gen.hpp"
namespace c11
{
  void rt_s2(Tape& t, Ctx& c) { rt_case<MeshS2>(t, c); }
  void fault_s2(Tape& t, Ctx& c) { fault_case<MeshS2>(t, c); }

  // surface meshes: shape dimension 2 embedded in 3 world coordinates (UnitSphereFactory, mesh_indexer output). Own small generator: one or two
  // cells of the shape, every vertex with three generated coordinates, optionally the boundary mesh part; round trip as in rt_case, plus the
  // declared mesh type of the file (reader's get_meshtype_string) against the C++ type
  template<typename M, typename Flat> static void surf_case(Tape& t, Ctx& c, const char* type)
  {
    const int ncells = 1 + (int)t.flag(1, 2); const int vcls = t.pick({2, 1, 1}); const bool with_part = t.flag(1, 2);
    std::vector<std::array<double, 3>> vtx; std::vector<std::vector<Index>> cells; tiny_complex<Flat>(ncells, vtx, cells);
    for(auto& v : vtx) { v[0] += 0.125 * t.real(1); v[1] += 0.125 * t.real(1); v[2] = t.real(vcls); }
    J d = J::obj(); d.set("mesh_type", type); d.set("cells", ncells); { J a = J::arr(); for(auto& v : vtx) { J q = J::arr(); q.add(v[0]); q.add(v[1]); q.add(v[2]); a.add(q); } d.set("vertices", a); } d.set("boundary_part", with_part);
    c.desc = d; c.op = "roundtrip-surface"; c.label(std::string("surface:") + type); c.nontrivial = true; c.announce();
    Bundle<M> x; x.node.reset(new RootMeshNode<M>(mesh_from_top<M>(vtx, cells), x.atlas.get()));
    if(with_part) { BoundaryFactory<M> bf(*x.node->get_mesh()); x.node->add_mesh_part("bnd", std::unique_ptr<MeshPart<M>>(new MeshPart<M>(bf))); }
    const std::string w1 = write_bundle<M>(x, true, true);
    { std::istringstream iss(w1); MeshFileReader rd(iss); rd.read_root_markup(); VF_CHECK(rd.get_meshtype_string() == type, "written file declares mesh type '" << rd.get_meshtype_string() << "', the mesh is '" << type << "'"); }
    Bundle<M> y; try { parse_text<M>(w1, y); } catch(const std::exception& e) { VF_FAIL("reject-own-output:" << typeid(e).name() << ":" << e.what()); }
    J mx = mesh_to_J<M>(*x.node->get_mesh()), my = mesh_to_J<M>(*y.node->get_mesh()); std::string why;
    VF_CHECK(jcmp(mx, my, "", why), "surface mesh differs after write->parse at " << why);
    if(with_part) { const MeshPart<M>* p = y.node->find_mesh_part("bnd"); VF_CHECK(p != nullptr, "boundary part lost"); J px = part_to_J<M>(*x.node->find_mesh_part("bnd"), ""), py = part_to_J<M>(*p, ""); VF_CHECK(jcmp(px, py, "", why), "boundary part differs after write->parse at " << why); }
    const std::string w2 = write_bundle<M>(y, true, true); VF_CHECK(w1 == w2, "second write of the surface mesh differs from the first");
  }
  void rt_surf(Tape& t, Ctx& c)
  {
    typedef ConformalMesh<Shape::Simplex<2>, 3, Real> S23; typedef ConformalMesh<Shape::Hypercube<2>, 3, Real> Q23;
    if(t.flag(1, 2)) surf_case<S23, MeshS2>(t, c, "conformal:simplex:2:3"); else surf_case<Q23, MeshQ2>(t, c, "conformal:hypercube:2:3");
  }
}
