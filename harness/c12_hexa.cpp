// C12 targets for shape Hexa (the mesh generator mg::gen_node<Hexa> is instantiated in c10_gen_hexa.cpp)
#include "common/c12_core.hpp"
extern template mg::Loaded<mg::Hexa> mg::gen_node<mg::Hexa>(vf::Tape&, vf::Ctx&, const mg::GenOpts&, mg::GenInfo&);
void c12_register_hexa(std::vector<vf::Target>& tg) { c12::register_shape<mg::Hexa>(tg); }
