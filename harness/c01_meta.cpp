// C01: matrix-vector products of the meta (tuple / power / saddle-point) compositions and of CSR with blocked
// vectors (csrsb path, SparseMatrixBWrappedCSR), against the dense oracle assembled block-wise from raw arrays.
#include "common/lafem_gen.hpp"
#include "common/c01_core.hpp"
#include <kernel/lafem/saddle_point_matrix.hpp>
#include <kernel/lafem/tuple_matrix.hpp>
#include <kernel/lafem/tuple_diag_matrix.hpp>
#include <kernel/lafem/power_diag_matrix.hpp>
#include <kernel/lafem/power_full_matrix.hpp>
#include <kernel/lafem/power_row_matrix.hpp>
#include <kernel/lafem/power_col_matrix.hpp>
#include <kernel/lafem/sparse_matrix_bwrappedcsr.hpp>
using namespace vf;

typedef double DT; typedef Index IT;
typedef SparseMatrixCSR<DT, IT> CSR;
typedef DenseVector<DT, IT> DV;

static void place(Dense& big, const Dense& b, long r0, long c0)
{
  for(long i = 0; i < b.r; ++i) for(long j = 0; j < b.c; ++j) { big(r0 + i, c0 + j) = b(i, j); big.st(r0 + i, c0 + j) = b.st(i, j); }
}
/// assemble a grid of dense blocks (nullptr = structural zero block); row heights / col widths given
static Dense grid(const std::vector<std::vector<Dense>>& blk, const std::vector<long>& rh, const std::vector<long>& cw)
{
  long R = 0, C = 0; for(long x : rh) R += x; for(long x : cw) C += x; Dense d(R, C); long r0 = 0;
  for(size_t i = 0; i < rh.size(); ++i) { long c0 = 0; for(size_t j = 0; j < cw.size(); ++j) { if(blk[i][j].r == rh[i] && blk[i][j].c == cw[j]) place(d, blk[i][j], r0, c0); c0 += cw[j]; } r0 += rh[i]; }
  return d;
}
static Dense zero_block() { Dense d; d.r = -1; return d; }

struct BlockSpec { std::vector<long> rh, cw; };
static BlockSpec gen_spec(Tape& t, int nr, int nc, int maxdim) { BlockSpec s; for(int i = 0; i < nr; ++i) s.rh.push_back(t.sized(0, maxdim)); for(int j = 0; j < nc; ++j) s.cw.push_back(t.sized(0, maxdim)); return s; }


namespace vf {
  template<typename Sub, int n> Dense dense_of(const PowerDiagMatrix<Sub, n>& m)
  {
    std::vector<std::vector<Dense>> b(n, std::vector<Dense>(n, zero_block())); std::vector<long> rh, cw;
    for(int i = 0; i < n; ++i) { b[i][i] = dense_of(m.get(i, i)); rh.push_back(b[i][i].r); cw.push_back(b[i][i].c); }
    return grid(b, rh, cw);
  }
  template<typename Sub, int h, int w> Dense dense_of(const PowerFullMatrix<Sub, h, w>& m)
  {
    std::vector<std::vector<Dense>> b(h, std::vector<Dense>(w)); std::vector<long> rh(h), cw(w);
    for(int i = 0; i < h; ++i) for(int j = 0; j < w; ++j) { b[i][j] = dense_of(m.get(i, j)); rh[i] = b[i][j].r; cw[j] = b[i][j].c; }
    return grid(b, rh, cw);
  }
  template<typename Sub, int n> Dense dense_of(const PowerRowMatrix<Sub, n>& m)
  {
    std::vector<std::vector<Dense>> b(1, std::vector<Dense>(n)); std::vector<long> rh(1), cw(n);
    for(int j = 0; j < n; ++j) { b[0][j] = dense_of(m.get(0, j)); rh[0] = b[0][j].r; cw[j] = b[0][j].c; }
    return grid(b, rh, cw);
  }
  template<typename Sub, int n> Dense dense_of(const PowerColMatrix<Sub, n>& m)
  {
    std::vector<std::vector<Dense>> b(n, std::vector<Dense>(1)); std::vector<long> rh(n), cw(1);
    for(int i = 0; i < n; ++i) { b[i][0] = dense_of(m.get(i, 0)); rh[i] = b[i][0].r; cw[0] = b[i][0].c; }
    return grid(b, rh, cw);
  }
  template<typename MA, typename MB, typename MD> Dense dense_of(const SaddlePointMatrix<MA, MB, MD>& m)
  {
    Dense a = dense_of(m.block_a()), bb = dense_of(m.block_b()), d = dense_of(m.block_d());
    std::vector<std::vector<Dense>> b(2, std::vector<Dense>(2, zero_block())); b[0][0] = a; b[0][1] = bb; b[1][0] = d;
    return grid(b, {a.r, d.r}, {a.c, bb.c});
  }
  template<typename A, typename B> Dense dense_of(const TupleDiagMatrix<A, B>& m)
  {
    Dense a = dense_of(m.template at<0, 0>()), bb = dense_of(m.template at<1, 1>());
    std::vector<std::vector<Dense>> b(2, std::vector<Dense>(2, zero_block())); b[0][0] = a; b[1][1] = bb;
    return grid(b, {a.r, bb.r}, {a.c, bb.c});
  }
  template<typename A00, typename A01, typename A10, typename A11> Dense dense_of(const TupleMatrix<TupleMatrixRow<A00, A01>, TupleMatrixRow<A10, A11>>& m)
  {
    std::vector<std::vector<Dense>> b(2, std::vector<Dense>(2));
    b[0][0] = dense_of(m.template at<0, 0>()); b[0][1] = dense_of(m.template at<0, 1>()); b[1][0] = dense_of(m.template at<1, 0>()); b[1][1] = dense_of(m.template at<1, 1>());
    return grid(b, {b[0][0].r, b[1][0].r}, {b[0][0].c, b[0][1].c});
  }
}

template<typename M, typename Snap>
static void run_meta(Tape& t, Ctx& c, const M& A, const Dense& Dexp, Snap snap, bool allow_flat, bool flat_has_t = true)
{
  // native (composed) vectors or the flat DenseVector overloads
  // the flat overloads slice the operands with the DenseVector range constructor, which asserts size > 0:
  // compositions with a zero-sized sub-block are outside the domain of the flat overloads
  bool flat = t.flag(1, 3) && allow_flat;
  c.label(flat ? "vec:flat-dense" : "vec:native"); c.desc.set("flat_vectors", flat);
  if(!flat) apply_case_d<DT>(t, c, A, vf::dense_of(A), Dexp, true, [&] { return A.create_vector_l(); }, [&] { return A.create_vector_r(); }, snap);
  else if(flat_has_t) apply_case_d<DT>(t, c, A, vf::dense_of(A), Dexp, true, [&] { return DV(Index(Dexp.r)); }, [&] { return DV(Index(Dexp.c)); }, snap);
  else apply_case_d<DT, false>(t, c, A, vf::dense_of(A), Dexp, false, [&] { return DV(Index(Dexp.r)); }, [&] { return DV(Index(Dexp.c)); }, snap);
}

static CSR gen_block(Tape& t, Ctx& c, J& blocks, long rows, long cols, Dense& dexp, const char* nm)
{
  Pat p = gen_pattern(t, 0, 0, false, -1, 0, (int)rows, (int)cols);
  blocks.set(nm, p.json()); dexp = dense_of_pat<DT>(p); c.label(std::string("pat:") + p.cls);
  return make_csr<DT, IT>(p);
}

// ---------------------------------------------------------------- targets
static void saddle_case(Tape& t, Ctx& c)
{
  typedef SaddlePointMatrix<CSR, CSR, CSR> M; c.desc.set("kind", "saddle<csr,csr,csr>");
  BlockSpec s = gen_spec(t, 2, 2, 8); s.cw[0] = s.rh[0]; // A is square by construction of the class' use (velocity block)
  if(t.flag(1, 4)) s.cw[0] = t.sized(0, 8);               // ...but the class itself does not require it
  J bl = J::obj(); Dense da, db, dd; M A;
  A.block_a() = gen_block(t, c, bl, s.rh[0], s.cw[0], da, "A"); A.block_b() = gen_block(t, c, bl, s.rh[0], s.cw[1], db, "B"); A.block_d() = gen_block(t, c, bl, s.rh[1], s.cw[0], dd, "D");
  c.desc.set("blocks", bl);
  std::vector<std::vector<Dense>> b(2, std::vector<Dense>(2, zero_block())); b[0][0] = da; b[0][1] = db; b[1][0] = dd;
  auto snap = [](const M& m) { return snapshot(m.block_a()) + snapshot(m.block_b()) + snapshot(m.block_d()); };
  run_meta(t, c, A, grid(b, s.rh, s.cw), snap, s.rh[0] > 0 && s.rh[1] > 0 && s.cw[0] > 0 && s.cw[1] > 0);
}
static void saddle_power_case(Tape& t, Ctx& c)
{
  typedef SaddlePointMatrix<PowerDiagMatrix<CSR, 2>, PowerColMatrix<CSR, 2>, PowerRowMatrix<CSR, 2>> M; c.desc.set("kind", "saddle<powerdiag2,powercol2,powerrow2>");
  long nv = t.sized(0, 7), np = t.sized(0, 7); J bl = J::obj(); M A; Dense d[6];
  A.block_a().get(0, 0) = gen_block(t, c, bl, nv, nv, d[0], "A00"); A.block_a().get(1, 1) = gen_block(t, c, bl, nv, nv, d[1], "A11");
  A.block_b().get(0, 0) = gen_block(t, c, bl, nv, np, d[2], "B0"); A.block_b().get(1, 0) = gen_block(t, c, bl, nv, np, d[3], "B1");
  A.block_d().get(0, 0) = gen_block(t, c, bl, np, nv, d[4], "D0"); A.block_d().get(0, 1) = gen_block(t, c, bl, np, nv, d[5], "D1");
  c.desc.set("blocks", bl);
  std::vector<std::vector<Dense>> b(3, std::vector<Dense>(3, zero_block())); b[0][0] = d[0]; b[1][1] = d[1]; b[0][2] = d[2]; b[1][2] = d[3]; b[2][0] = d[4]; b[2][1] = d[5];
  auto snap = [](const M& m) { return snapshot(m.block_a().get(0, 0)) + snapshot(m.block_a().get(1, 1)) + snapshot(m.block_b().get(0, 0)) + snapshot(m.block_b().get(1, 0)) + snapshot(m.block_d().get(0, 0)) + snapshot(m.block_d().get(0, 1)); };
  run_meta(t, c, A, grid(b, {nv, nv, np}, {nv, nv, np}), snap, nv > 0 && np > 0);
}
template<int h, int w> static void power_full_case(Tape& t, Ctx& c)
{
  typedef PowerFullMatrix<CSR, h, w> M; c.desc.set("kind", "powerfull<csr," + std::to_string(h) + "," + std::to_string(w) + ">");
  long nr = t.sized(0, 8), nc = t.sized(0, 8); J bl = J::obj(); M A; std::vector<std::vector<Dense>> b(h, std::vector<Dense>(w));
  for(int i = 0; i < h; ++i) for(int j = 0; j < w; ++j) A.get(i, j) = gen_block(t, c, bl, nr, nc, b[i][j], ("b" + std::to_string(i) + std::to_string(j)).c_str());
  c.desc.set("blocks", bl);
  auto snap = [](const M& m) { std::string s; for(int i = 0; i < h; ++i) for(int j = 0; j < w; ++j) s += snapshot(m.get(i, j)); return s; };
  run_meta(t, c, A, grid(b, std::vector<long>(h, nr), std::vector<long>(w, nc)), snap, nr > 0 && nc > 0);
}
template<int n> static void power_diag_case(Tape& t, Ctx& c)
{
  typedef PowerDiagMatrix<CSR, n> M; c.desc.set("kind", "powerdiag<csr," + std::to_string(n) + ">");
  long nr = t.sized(0, 8), nc = t.flag(1, 3) ? t.sized(0, 8) : nr; J bl = J::obj(); M A; std::vector<std::vector<Dense>> b(n, std::vector<Dense>(n, zero_block()));
  for(int i = 0; i < n; ++i) A.get(i, i) = gen_block(t, c, bl, nr, nc, b[i][i], ("d" + std::to_string(i)).c_str());
  c.desc.set("blocks", bl);
  auto snap = [](const M& m) { std::string s; for(int i = 0; i < n; ++i) s += snapshot(m.get(i, i)); return s; };
  run_meta(t, c, A, grid(b, std::vector<long>(n, nr), std::vector<long>(n, nc)), snap, nr > 0 && nc > 0);
}
template<int n> static void power_row_case(Tape& t, Ctx& c)
{
  typedef PowerRowMatrix<CSR, n> M; c.desc.set("kind", "powerrow<csr," + std::to_string(n) + ">");
  long nr = t.sized(0, 8), nc = t.sized(0, 8); J bl = J::obj(); M A; std::vector<std::vector<Dense>> b(1, std::vector<Dense>(n));
  for(int j = 0; j < n; ++j) A.get(0, j) = gen_block(t, c, bl, nr, nc, b[0][j], ("r" + std::to_string(j)).c_str());
  c.desc.set("blocks", bl);
  auto snap = [](const M& m) { std::string s; for(int j = 0; j < n; ++j) s += snapshot(m.get(0, j)); return s; };
  run_meta(t, c, A, grid(b, {nr}, std::vector<long>(n, nc)), snap, nr > 0 && nc > 0);
}
template<int n> static void power_col_case(Tape& t, Ctx& c)
{
  typedef PowerColMatrix<CSR, n> M; c.desc.set("kind", "powercol<csr," + std::to_string(n) + ">");
  long nr = t.sized(0, 8), nc = t.sized(0, 8); J bl = J::obj(); M A; std::vector<std::vector<Dense>> b(n, std::vector<Dense>(1));
  for(int i = 0; i < n; ++i) A.get(i, 0) = gen_block(t, c, bl, nr, nc, b[i][0], ("c" + std::to_string(i)).c_str());
  c.desc.set("blocks", bl);
  auto snap = [](const M& m) { std::string s; for(int i = 0; i < n; ++i) s += snapshot(m.get(i, 0)); return s; };
  run_meta(t, c, A, grid(b, std::vector<long>(n, nr), {nc}), snap, nr > 0 && nc > 0);
}
static void tuple_diag_case(Tape& t, Ctx& c)
{
  typedef SparseMatrixBCSR<DT, IT, 2, 2> B22; typedef TupleDiagMatrix<CSR, B22> M; c.desc.set("kind", "tuplediag<csr,bcsr22>");
  BlockSpec s = gen_spec(t, 2, 2, 7); J bl = J::obj(); M A; Dense d0;
  A.template at<0, 0>() = gen_block(t, c, bl, s.rh[0], s.cw[0], d0, "a0");
  Pat p = gen_pattern(t, 0, 0, false, -1, 0, (int)s.rh[1], (int)s.cw[1]); bl.set("a1", p.json()); A.template at<1, 1>() = make_bcsr<DT, IT, 2, 2>(p);
  c.desc.set("blocks", bl);
  std::vector<std::vector<Dense>> b(2, std::vector<Dense>(2, zero_block())); b[0][0] = d0; b[1][1] = dense_of_pat<DT>(p, 2, 2);
  auto snap = [](const M& m) { return snapshot(m.template at<0, 0>()) + snapshot(m.template at<1, 1>()); };
  // the flat DenseVector overloads of TupleDiagMatrix cannot be instantiated (the one-element specialisation has none): not offered
  apply_case_d<DT>(t, c, A, vf::dense_of(A), grid(b, {s.rh[0], 2 * s.rh[1]}, {s.cw[0], 2 * s.cw[1]}), true, [&] { return A.create_vector_l(); }, [&] { return A.create_vector_r(); }, snap);
}
static void tuple_matrix_case(Tape& t, Ctx& c)
{
  // 2x2 tuple matrix mixing scalar and blocked blocks: row/column 0 scalar, row/column 1 with block size 2
  typedef SparseMatrixBCSR<DT, IT, 1, 2> B12; typedef SparseMatrixBCSR<DT, IT, 2, 1> B21; typedef SparseMatrixBCSR<DT, IT, 2, 2> B22;
  typedef TupleMatrix<TupleMatrixRow<CSR, B12>, TupleMatrixRow<B21, B22>> M; c.desc.set("kind", "tuplematrix<<csr,bcsr12>,<bcsr21,bcsr22>>");
  BlockSpec s = gen_spec(t, 2, 2, 6); J bl = J::obj(); M A; Dense d00;
  A.template at<0, 0>() = gen_block(t, c, bl, s.rh[0], s.cw[0], d00, "a00");
  Pat p01 = gen_pattern(t, 0, 0, false, -1, 0, (int)s.rh[0], (int)s.cw[1]), p10 = gen_pattern(t, 0, 0, false, -1, 0, (int)s.rh[1], (int)s.cw[0]), p11 = gen_pattern(t, 0, 0, false, -1, 0, (int)s.rh[1], (int)s.cw[1]);
  bl.set("a01", p01.json()); bl.set("a10", p10.json()); bl.set("a11", p11.json()); c.desc.set("blocks", bl);
  A.template at<0, 1>() = make_bcsr<DT, IT, 1, 2>(p01); A.template at<1, 0>() = make_bcsr<DT, IT, 2, 1>(p10); A.template at<1, 1>() = make_bcsr<DT, IT, 2, 2>(p11);
  std::vector<std::vector<Dense>> b(2, std::vector<Dense>(2)); b[0][0] = d00; b[0][1] = dense_of_pat<DT>(p01, 1, 2); b[1][0] = dense_of_pat<DT>(p10, 2, 1); b[1][1] = dense_of_pat<DT>(p11, 2, 2);
  auto snap = [](const M& m) { return snapshot(m.template at<0, 0>()) + snapshot(m.template at<0, 1>()) + snapshot(m.template at<1, 0>()) + snapshot(m.template at<1, 1>()); };
  // TupleMatrix offers no flat DenseVector overloads
  apply_case_d<DT>(t, c, A, vf::dense_of(A), grid(b, {s.rh[0], 2 * s.rh[1]}, {s.cw[0], 2 * s.cw[1]}), true, [&] { return A.create_vector_l(); }, [&] { return A.create_vector_r(); }, snap);
}
static void tuple_matrix_csr_case(Tape& t, Ctx& c)
{
  typedef TupleMatrix<TupleMatrixRow<CSR, CSR>, TupleMatrixRow<CSR, CSR>> M; c.desc.set("kind", "tuplematrix<<csr,csr>,<csr,csr>>");
  BlockSpec s = gen_spec(t, 2, 2, 6); J bl = J::obj(); M A; std::vector<std::vector<Dense>> b(2, std::vector<Dense>(2));
  A.template at<0, 0>() = gen_block(t, c, bl, s.rh[0], s.cw[0], b[0][0], "a00"); A.template at<0, 1>() = gen_block(t, c, bl, s.rh[0], s.cw[1], b[0][1], "a01");
  A.template at<1, 0>() = gen_block(t, c, bl, s.rh[1], s.cw[0], b[1][0], "a10"); A.template at<1, 1>() = gen_block(t, c, bl, s.rh[1], s.cw[1], b[1][1], "a11");
  c.desc.set("blocks", bl);
  auto snap = [](const M& m) { return snapshot(m.template at<0, 0>()) + snapshot(m.template at<0, 1>()) + snapshot(m.template at<1, 0>()) + snapshot(m.template at<1, 1>()); };
  apply_case_d<DT>(t, c, A, vf::dense_of(A), grid(b, s.rh, s.cw), true, [&] { return A.create_vector_l(); }, [&] { return A.create_vector_r(); }, snap);
}
/// CSR applied to blocked vectors (csrsb kernel; also the SparseMatrixBWrappedCSR type): A (x) I_bs
template<int BS> static void csrsb_case(Tape& t, Ctx& c)
{
  bool wrapped = t.flag(); c.desc.set("kind", std::string(wrapped ? "bwrappedcsr<" : "csr-with-blocked-vectors<") + std::to_string(BS) + ">");
  Pat p = gen_pattern(t, 14, t.pick({3, 1, 2})); c.desc.set("A", p.json()); c.label(std::string("pat:") + p.cls);
  Dense d1 = dense_of_pat<DT>(p); Dense dk(d1.r * BS, d1.c * BS);
  for(long i = 0; i < d1.r; ++i) for(long j = 0; j < d1.c; ++j) for(int k = 0; k < BS; ++k) { dk(i * BS + k, j * BS + k) = d1(i, j); dk.st(i * BS + k, j * BS + k) = d1.st(i, j); }
  typedef DenseVectorBlocked<DT, IT, BS> BV;
  auto kron = [&](const Dense& a) { Dense k(a.r * BS, a.c * BS); for(long i = 0; i < a.r; ++i) for(long j = 0; j < a.c; ++j) for(int q = 0; q < BS; ++q) { k(i * BS + q, j * BS + q) = a(i, j); k.st(i * BS + q, j * BS + q) = a.st(i, j); } return k; };
  // CSR offers no transposed product with blocked vectors
  if(wrapped)
  {
    SparseMatrixBWrappedCSR<DT, IT, BS> A(make_csr<DT, IT>(p));
    apply_case_d<DT, false>(t, c, A, kron(dense_of(static_cast<const CSR&>(A))), dk, false, [&] { return A.create_vector_l(); }, [&] { return A.create_vector_r(); }, [](const CSR& m) { return snapshot(m); });
  }
  else
  {
    CSR A = make_csr<DT, IT>(p);
    apply_case_d<DT, false>(t, c, A, kron(dense_of(A)), dk, false, [&] { return BV(A.rows()); }, [&] { return BV(A.columns()); }, [](const CSR& m) { return snapshot(m); });
  }
}

int main(int argc, char** argv)
{
  FEAT::Runtime::ScopeGuard guard(argc, argv);
  std::vector<Target> tg;
  tg.push_back({"saddle", [](Tape& t, Ctx& c) { if(t.flag(1, 3)) saddle_power_case(t, c); else saddle_case(t, c); }, 64, 16});
  tg.push_back({"power", [](Tape& t, Ctx& c) { switch(t.pick({2, 2, 2, 2, 1, 1, 1, 1})) {
    case 0: power_full_case<2, 2>(t, c); break; case 1: power_diag_case<2>(t, c); break; case 2: power_row_case<2>(t, c); break; case 3: power_col_case<2>(t, c); break;
    case 4: power_diag_case<3>(t, c); break; case 5: power_row_case<3>(t, c); break; case 6: power_col_case<3>(t, c); break; default: power_diag_case<1>(t, c); } }, 64, 16});
  tg.push_back({"tuple", [](Tape& t, Ctx& c) { switch(t.pick({2, 2, 2})) { case 0: tuple_diag_case(t, c); break; case 1: tuple_matrix_csr_case(t, c); break;
#ifndef VF_NO_MIXED_TUPLE
    default: tuple_matrix_case(t, c);
#else
    default: tuple_matrix_csr_case(t, c);
#endif
  } }, 64, 16});
  tg.push_back({"csrsb", [](Tape& t, Ctx& c) { switch(t.pick({2, 2, 1})) { case 0: csrsb_case<2>(t, c); break; case 1: csrsb_case<3>(t, c); break; default: csrsb_case<1>(t, c); } }, 64, 16});
  return main_impl(argc, argv, tg);
}
