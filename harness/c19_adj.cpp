// C19: graph rendering, permutations, colouring, Cuthill-McKee ordering against a set-based reference model
#include "common/c19_model.hpp"
using namespace c19;

// =============================================================================================
// target "graph": render types (single / composite / CompositeAdjactor / DynamicGraph), sort_indices, serialize
// =============================================================================================
static void label_adj(Ctx& c, const Adj& A, const char* pfx)
{
  c.label(std::string(pfx) + ":" + A.cls);
  if(A.nd == 0) c.label("feature:nd=0"); if(A.ni == 0) c.label("feature:ni=0");
  if(A.nidx() == 0) c.label("feature:no-indices"); else { if(A.has_dups()) c.label("feature:duplicates"); if(A.has_empty()) c.label("feature:empty-lists"); }
}

static DynamicGraph make_dyn(const Adj& A) { DynamicGraph d(Index(A.nd), Index(A.ni)); for(int i = 0; i < A.nd; ++i) for(Index v : A.a[(size_t)i]) d.insert(Index(i), v); return d; }
template<typename Adjactor_> static Lists read_adjactor(const Adjactor_& d)
{
  Lists a((size_t)d.get_num_nodes_domain());
  for(Index i = 0; i < d.get_num_nodes_domain(); ++i) for(auto q = d.image_begin(i); q != d.image_end(i); ++q) a[(size_t)i].push_back(*q);
  return a;
}

static void graph_target(Tape& t, Ctx& c)
{
  static const char* opn[] = { "render1", "render2", "composite_adjactor", "sort_indices", "dynamic_graph", "serialize", "dim_mismatch" };
  int op = t.pick({30, 26, 8, 10, 12, 8, 3});
  int rt = t.range(0, 7);
  c.desc.set("op", opn[op]);
  c.label(std::string("op:") + opn[op]);

  // exclusion c19-sorted-no-indices: as_is_sorted / injectify_sorted renders and sort_indices() of a relation without
  // any index abort in Graph::sort_indices (known finding); steer to the unsorted sibling render type.
  auto steer_sorted = [&](long n_indices) { if((rt == 1 || rt == 3) && n_indices == 0 && c.excl("c19-sorted-no-indices")) rt -= 1; };

  if(op == 0)
  {
    int src = t.pick({7, 3, 1}); // 0 Graph, 1 DynamicGraph, 2 default-constructed Graph()
    int how = t.range(0, 2);
    Adj A = src == 2 ? Adj() : gen_adj(t, 40);
    if(src == 2) A.cls = "default-empty";
    Lists rel = src == 1 ? m_injectify(A.a) : A.a;
    steer_sorted(total(rel));
    c.op = std::string("render1:") + rt_names[rt];
    c.desc.set("rt", rt_names[rt]); c.desc.set("src", src == 0 ? "graph" : src == 1 ? "dynamic" : "default"); c.desc.set("ctor", how); c.desc.set("A", A.json());
    c.label(std::string("rt:") + rt_names[rt]); c.label(src == 0 ? "src:graph" : src == 1 ? "src:dynamic" : "src:default"); label_adj(c, A, "adj");
    c.nontrivial = total(rel) >= 2;
    c.announce();
    if(src == 1)
    {
      DynamicGraph d = make_dyn(A);
      Graph r(RenderType(rt), d);
      check_render(rt, rel, A.nd, A.ni, read_graph(r, "render(dynamic)"), r.get_num_nodes_domain(), r.get_num_nodes_image(), "render(dynamic)");
    }
    else
    {
      Graph g = src == 2 ? Graph() : make_graph(A, how);
      Graph r(RenderType(rt), g);
      check_render(rt, rel, A.nd, A.ni, read_graph(r, "render"), r.get_num_nodes_domain(), r.get_num_nodes_image(), "render");
      VF_CHECK(read_graph(g, "source") == A.a && g.get_num_nodes_image() == Index(A.ni), "render modified its source");
    }
    return;
  }

  if(op == 1 || op == 6)
  {
    Adj A = gen_adj(t, 30);
    int nm2 = A.ni;
    if(op == 6) { bool smaller = t.flag() && A.ni > 0; nm2 = smaller ? t.range(0, A.ni - 1) : A.ni + 1 + t.range(0, 2); }
    Adj B = gen_adj(t, 30, nm2);
    int how = t.range(0, 2);
    if(op == 6)
    {
      // invalid input: inner dimensions differ -> the render constructor must refuse (XASSERTM "Adjactor dimension mismatch!")
      c.op = "dim_mismatch"; c.desc.set("rt", rt_names[rt]); c.desc.set("A", A.json()); c.desc.set("B", B.json());
      c.label(std::string("rt:") + rt_names[rt]);
      c.nontrivial = true;
      c.announce();
      Graph ga = make_graph(A, how), gb = make_graph(B, how);
      std::string err; std::string r = run_isolated([&] { Graph x(RenderType(rt), ga, gb); (void)x; }, &err);
      VF_CHECK(r == "abort" && err.find("Adjactor dimension mismatch") != std::string::npos, "composite render with inner dimensions " << A.ni << " vs " << B.nd << " ended with '" << r << "' instead of the dimension-mismatch abort");
      return;
    }
    Lists rel = m_compose(A.a, B.a);
    steer_sorted(total(rel));
    bool dyn1 = t.flag(1, 5);
    if(dyn1) rel = m_compose(m_injectify(A.a), B.a);
    c.op = std::string("render2:") + rt_names[rt];
    c.desc.set("rt", rt_names[rt]); c.desc.set("ctor", how); c.desc.set("first_is_dynamic", dyn1); c.desc.set("A", A.json()); c.desc.set("B", B.json());
    c.label(std::string("rt:") + rt_names[rt]); c.label(dyn1 ? "src:dynamic,graph" : "src:graph,graph"); label_adj(c, A, "adjA"); label_adj(c, B, "adjB");
    if(total(rel) == 0) c.label("feature:empty-composition");
    c.nontrivial = total(rel) >= 2;
    c.announce();
    Graph gb = make_graph(B, how);
    if(dyn1)
    {
      DynamicGraph d = make_dyn(A);
      Graph r(RenderType(rt), d, gb);
      check_render(rt, rel, A.nd, B.ni, read_graph(r, "render2(dynamic)"), r.get_num_nodes_domain(), r.get_num_nodes_image(), "render2(dynamic)");
    }
    else
    {
      Graph ga = make_graph(A, how);
      Graph r(RenderType(rt), ga, gb);
      check_render(rt, rel, A.nd, B.ni, read_graph(r, "render2"), r.get_num_nodes_domain(), r.get_num_nodes_image(), "render2");
    }
    return;
  }

  if(op == 2)
  {
    // CompositeAdjactor<Graph,Graph> (adjactor.hpp) rendered as a single adjactor = relational composition.
    // Its constructor only demands image(A) <= domain(B).
    Adj A = gen_adj(t, 24);
    Adj B = gen_adj(t, 24, A.ni + t.pick({3, 1, 1}));
    // exclusion c19-composite-adjactor-first-empty: CompositeAdjactor::ImageIterator's begin constructor does not skip an
    // empty *first* inner list (known finding): steer by moving an inner node with a non-empty list to the front
    // (or dropping the outer list when no such inner node exists).
    bool in_class = false;
    for(auto& r : A.a) if(!r.empty() && B.a[(size_t)r[0]].empty()) in_class = true;
    if(in_class && c.excl("c19-composite-adjactor-first-empty"))
      for(auto& r : A.a) { if(r.empty() || !B.a[(size_t)r[0]].empty()) continue; size_t k = 0; while(k < r.size() && B.a[(size_t)r[k]].empty()) ++k; if(k < r.size()) std::swap(r[0], r[k]); else r.clear(); }
    Lists rel = m_compose(A.a, B.a);
    steer_sorted(total(rel));
    c.op = std::string("composite_adjactor:") + rt_names[rt];
    c.desc.set("rt", rt_names[rt]); c.desc.set("A", A.json()); c.desc.set("B", B.json());
    c.label(std::string("rt:") + rt_names[rt]); label_adj(c, A, "adjA"); label_adj(c, B, "adjB");
    bool inner_empty = false; for(auto& r : A.a) for(Index j : r) if(B.a[(size_t)j].empty()) inner_empty = true;
    if(inner_empty) c.label("feature:empty-inner-list");
    c.nontrivial = total(rel) >= 2;
    c.announce();
    Graph ga = make_graph(A, 0), gb = make_graph(B, 0);
    CompositeAdjactor<Graph, Graph> ca(ga, gb);
    VF_CHECK(ca.get_num_nodes_domain() == Index(A.nd) && ca.get_num_nodes_image() == Index(B.ni), "CompositeAdjactor dims");
    // walk the composite iterators with a step bound first: a runaway iterator must fail quickly instead of hanging the render
    for(int i = 0; i < A.nd; ++i)
    {
      std::vector<Index> got; size_t lim = rel[(size_t)i].size();
      for(auto it = ca.image_begin(Index(i)); it != ca.image_end(Index(i)); ++it) { VF_CHECK(got.size() < lim, "CompositeAdjactor iterator of node " << i << " yields more than the " << lim << " composed indices"); got.push_back(*it); }
      VF_CHECK(got == rel[(size_t)i], "CompositeAdjactor iteration of node " << i << " got " << show(got) << " expected " << show(rel[(size_t)i]));
    }
    Graph r(RenderType(rt), ca);
    check_render(rt, rel, A.nd, B.ni, read_graph(r, "render(composite adjactor)"), r.get_num_nodes_domain(), r.get_num_nodes_image(), "render(composite adjactor)");
    return;
  }

  if(op == 3)
  {
    bool dflt = t.flag(1, 12); int how = t.range(0, 2);
    Adj A = dflt ? Adj() : gen_adj(t, 40); if(dflt) A.cls = "default-empty";
    if(A.nidx() == 0 && c.excl("c19-sorted-no-indices")) { dflt = false; A.nd = std::max(A.nd, 1); A.ni = std::max(A.ni, 1); A.a.resize((size_t)A.nd); A.a[0].push_back(0); c.label("steered:one-index-added"); }
    c.op = "sort_indices"; c.desc.set("ctor", how); c.desc.set("A", A.json()); label_adj(c, A, "adj");
    bool already = is_sorted_lists(A.a); c.label(already ? "feature:already-sorted" : "feature:unsorted");
    c.nontrivial = !already;
    c.announce();
    Graph g = dflt ? Graph() : make_graph(A, how);
    g.sort_indices();
    Lists got = read_graph(g, "sort_indices");
    VF_CHECK(g.get_num_nodes_domain() == Index(A.nd) && g.get_num_nodes_image() == Index(A.ni), "sort_indices changed the dimensions");
    Lists e = m_sorted(A.a);
    for(size_t i = 0; i < e.size(); ++i) VF_CHECK(got[i] == e[i], "sort_indices: node " << i << " got " << show(got[i]) << " expected " << show(e[i]));
    return;
  }

  if(op == 4)
  {
    // DynamicGraph: set semantics for every render type; compose; insert/erase/exists
    bool two = t.flag();
    Adj A = gen_adj(t, 24); Adj B = gen_adj(t, 24, A.ni);
    c.op = std::string(two ? "dynamic2:" : "dynamic1:") + rt_names[rt];
    c.desc.set("rt", rt_names[rt]); c.desc.set("two", two); c.desc.set("A", A.json()); c.desc.set("B", B.json());
    c.label(std::string("rt:") + rt_names[rt]); c.label(two ? "dyn:composite" : "dyn:single+compose"); label_adj(c, A, "adjA"); label_adj(c, B, "adjB");
    Lists rel = two ? m_compose(A.a, B.a) : A.a; int ni = two ? B.ni : A.ni;
    c.nontrivial = total(rel) >= 2;
    int ei = A.nd ? t.range(0, A.nd - 1) : 0, ej = ni ? t.range(0, ni - 1) : 0;
    c.desc.set("edit", J(std::vector<int>{ei, ej}));
    c.announce();
    Graph ga = make_graph(A, 0), gb = make_graph(B, 0);
    // a DynamicGraph is injective and sorted whatever the type says: compare against the *_sorted injectified model
    int mrt = rt >= 4 ? 7 : 3;
    if(two)
    {
      DynamicGraph d(RenderType(rt), ga, gb);
      check_render(mrt, rel, A.nd, ni, read_adjactor(d), d.get_num_nodes_domain(), d.get_num_nodes_image(), "DynamicGraph(A,B)");
    }
    else
    {
      DynamicGraph d(RenderType(rt), ga);
      Lists got = read_adjactor(d);
      check_render(mrt, rel, A.nd, ni, got, d.get_num_nodes_domain(), d.get_num_nodes_image(), "DynamicGraph(A)");
      VF_CHECK(d.get_num_indices() == Index(total(got)), "DynamicGraph::get_num_indices");
      Graph back(RenderType::as_is, d);
      VF_CHECK(read_graph(back, "Graph(as_is, dynamic)") == got, "Graph(as_is, DynamicGraph) differs from the dynamic graph");
      if(rt < 4)
      {
        DynamicGraph e = d.clone();
        e.compose(gb);
        check_render(3, m_compose(A.a, B.a), A.nd, B.ni, read_adjactor(e), e.get_num_nodes_domain(), e.get_num_nodes_image(), "DynamicGraph::compose");
        if(A.nd > 0 && A.ni > 0)
        {
          std::set<Index> s(A.a[(size_t)ei].begin(), A.a[(size_t)ei].end()); bool had = s.count(Index(ej)) != 0;
          VF_CHECK(d.exists(Index(ei), Index(ej)) == had, "DynamicGraph::exists");
          VF_CHECK(d.insert(Index(ei), Index(ej)) == !had, "DynamicGraph::insert return value");
          VF_CHECK(d.exists(Index(ei), Index(ej)), "DynamicGraph::exists after insert");
          VF_CHECK(d.erase(Index(ei), Index(ej)), "DynamicGraph::erase return value");
          VF_CHECK(!d.exists(Index(ei), Index(ej)) && !d.erase(Index(ei), Index(ej)), "DynamicGraph::erase did not remove");
          s.erase(Index(ej)); std::vector<Index> now; for(auto q = d.image_begin(Index(ei)); q != d.image_end(Index(ei)); ++q) now.push_back(*q);
          VF_CHECK(now == std::vector<Index>(s.begin(), s.end()), "DynamicGraph list after insert+erase");
        }
      }
    }
    return;
  }

  // op == 5: serialize -> deserialize gives the same relation
  {
    bool dflt = t.flag(1, 8); int how = t.range(0, 2);
    Adj A = dflt ? Adj() : gen_adj(t, 40);
    // exclusion c19-serialize-default-graph: serialize() of a default-constructed Graph writes _domain_ptr.size()-1 = 2^64-1
    // into the header (known finding); steer to the array-constructed empty graph.
    if(dflt && c.excl("c19-serialize-default-graph")) { dflt = false; A.cls = "empty-by-array-ctor"; c.label("steered:array-ctor-empty"); }
    if(dflt) A.cls = "default-empty";
    c.op = "serialize"; c.desc.set("ctor", how); c.desc.set("default", dflt); c.desc.set("A", A.json()); label_adj(c, A, "adj"); if(dflt) c.label("src:default");
    c.nontrivial = A.nidx() >= 2;
    c.announce();
    Graph g = dflt ? Graph() : make_graph(A, how);
    std::vector<char> buf = g.serialize();
    VF_CHECK(buf.size() >= 40 && buf.size() % 8 == 0, "serialize: buffer size " << buf.size());
    Graph h(buf);
    VF_CHECK(h.get_num_nodes_domain() == Index(A.nd) && h.get_num_nodes_image() == Index(A.ni), "deserialised dims " << h.get_num_nodes_domain() << "x" << h.get_num_nodes_image() << " expected " << A.nd << "x" << A.ni);
    VF_CHECK(read_graph(h, "deserialised") == A.a, "deserialised graph differs");
    VF_CHECK(read_graph(g, "serialize source") == A.a, "serialize modified the graph");
    // clone keeps the relation as well
    Graph k = g.clone();
    VF_CHECK(read_graph(k, "clone") == A.a && k.get_num_nodes_image() == g.get_num_nodes_image(), "clone differs");
  }
}

// =============================================================================================
// target "perm"
// =============================================================================================
static const char* pk_names[] = { "perm", "swap", "inv_perm", "inv_swap", "identity", "random", "none+calc_swap", "none+calc_perm", "default-empty" };

struct PermCase { int kind; std::vector<Index> v; std::vector<Index> E; unsigned long long seed = 0; };

/// generate the input array and the expected position array E (y[i] = x[E[i]])
static PermCase gen_perm_case(Tape& t, int n, int kind)
{
  PermCase p; p.kind = kind;
  std::vector<Index> s = gen_swap(t, n), q = perm_of_swap(s);
  switch(kind)
  {
  case 0: case 6: p.v = q; p.E = q; break;
  case 1: case 7: p.v = s; p.E = q; break;
  case 2: p.v = q; p.E = inv_of(q); break;
  case 3: p.v = s; p.E = inv_of(q); break;
  case 4: p.E.resize((size_t)n); for(int i = 0; i < n; ++i) p.E[(size_t)i] = Index(i); break;
  case 5: p.seed = 1ull + t.raw(); break;
  }
  return p;
}
static Permutation build_perm(PermCase& p, int n)
{
  typedef Permutation::ConstrType CT;
  switch(p.kind)
  {
  case 0: return Permutation(Index(n), CT::perm, p.v.data());
  case 1: return Permutation(Index(n), CT::swap, p.v.data());
  case 2: return Permutation(Index(n), CT::inv_perm, p.v.data());
  case 3: return Permutation(Index(n), CT::inv_swap, p.v.data());
  case 4: return Permutation(Index(n), CT::identity);
  case 5: { Random rng(p.seed); Permutation r(Index(n), rng); VF_CHECK(r.size() == Index(n), "random permutation size"); VF_CHECK(is_bijection(r.get_perm_pos(), Index(n)), "random permutation is not a bijection");
            p.E.assign(r.get_perm_pos(), r.get_perm_pos() + n); return r; }
  case 6: { Permutation r(Index(n), CT::none); for(int i = 0; i < n; ++i) r.get_perm_pos()[i] = p.v[(size_t)i]; r.calc_swap_from_perm(); return r; }
  case 7: { Permutation r(Index(n), CT::none); for(int i = 0; i < n; ++i) r.get_swap_pos()[i] = p.v[(size_t)i]; r.calc_perm_from_swap(); return r; }
  }
  return Permutation();
}

/// the object must act as the bijection E in all four apply variants, and its two arrays must be valid
template<typename T> static void check_acts_as(const Permutation& p, const std::vector<Index>& E, const char* what, bool skip_insitu_inverse = false)
{
  size_t n = E.size();
  VF_CHECK(p.size() == Index(n), what << ": size " << p.size() << " expected " << n);
  VF_CHECK(p.empty() == (n == 0), what << ": empty()");
  for(size_t i = 0; i < n; ++i) VF_CHECK(p.get_perm_pos()[i] == E[i], what << ": perm_pos[" << i << "]=" << p.get_perm_pos()[i] << " expected " << E[i]);
  for(size_t i = 0; i < n; ++i) VF_CHECK(p.get_swap_pos()[i] >= i && p.get_swap_pos()[i] < n, what << ": swap_pos[" << i << "]=" << p.get_swap_pos()[i] << " outside [i,n)");
  for(size_t i = 0; i < n; ++i) VF_CHECK(p.map(Index(i)) == E[i], what << ": map(" << i << ")");
  // distinct tokens; one spare slot so that the arrays are never null (apply asserts x != nullptr) and overruns are visible
  std::vector<T> x(n + 1), y(n + 1, T(7)), z(n + 1);
  for(size_t i = 0; i <= n; ++i) x[i] = T(1000 + 3 * i);
  const T guard = x[n];
  p.apply(y.data(), x.data());
  for(size_t i = 0; i < n; ++i) VF_CHECK(y[i] == x[(size_t)E[i]], what << ": apply(y,x) y[" << i << "]");
  VF_CHECK(y[n] == T(7), what << ": apply(y,x) wrote past the end");
  std::fill(y.begin(), y.end(), T(7));
  p.apply(y.data(), x.data(), true);
  for(size_t i = 0; i < n; ++i) VF_CHECK(y[(size_t)E[i]] == x[i], what << ": apply(y,x,invert) at " << i);
  VF_CHECK(y[n] == T(7), what << ": apply(y,x,invert) wrote past the end");
  z = x; p.apply(z.data());
  for(size_t i = 0; i < n; ++i) VF_CHECK(z[i] == x[(size_t)E[i]], what << ": in-situ apply z[" << i << "] (swap array inconsistent with position array)");
  VF_CHECK(z[n] == guard, what << ": in-situ apply touched the element past the end");
  if(!skip_insitu_inverse)
  {
    z = x; p.apply(z.data(), true);
    for(size_t i = 0; i < n; ++i) VF_CHECK(z[(size_t)E[i]] == x[i], what << ": in-situ inverse apply at " << i);
    VF_CHECK(z[n] == guard, what << ": in-situ inverse apply touched the element past the end");
    // inverse undoes forward
    z = x; p.apply(z.data()); p.apply(z.data(), true);
    VF_CHECK(z == x, what << ": in-situ forward then inverse is not the identity");
  }
}

static void perm_target(Tape& t, Ctx& c)
{
  int kind = t.pick({5, 5, 4, 4, 2, 3, 2, 2, 2});
  int n = kind == 8 ? 0 : t.sized(1, 50);
  bool dbl = t.flag(1, 3);
  PermCase pc = gen_perm_case(t, n, kind);
  int kind2 = kind == 8 ? 8 : t.pick({3, 3, 2, 2, 1, 2});
  PermCase pc2 = gen_perm_case(t, n, kind2);
  // exclusion c19-perm-empty-inverse-apply: in-situ apply(x, invert=true) of the empty permutation underflows size()-1 (known finding)
  bool skip_inv = (kind == 8) && c.excl("c19-perm-empty-inverse-apply");
  c.op = std::string("perm:") + pk_names[kind];
  c.desc.set("kind", pk_names[kind]); c.desc.set("n", n); c.desc.set("v", J(pc.v)); if(kind == 5) c.desc.set("seed", pc.seed);
  c.desc.set("kind2", pk_names[kind2]); c.desc.set("v2", J(pc2.v)); if(kind2 == 5) c.desc.set("seed2", pc2.seed); c.desc.set("tokens", dbl ? "double" : "index");
  c.label(std::string("kind:") + pk_names[kind]); c.label(std::string("second:") + pk_names[kind2]);
  c.label(n == 0 ? "n:0" : n == 1 ? "n:1" : n == 2 ? "n:2" : n <= 10 ? "n:3-10" : "n:11-50");
  c.nontrivial = n >= 2 && (kind == 5 || !is_identity(pc.E));
  if(kind != 5 && kind != 8 && is_identity(pc.E)) c.label("feature:identity");
  c.announce();

  Permutation p = build_perm(pc, n);
  const std::vector<Index>& E = pc.E;
  if(dbl) check_acts_as<double>(p, E, pk_names[kind], skip_inv); else check_acts_as<Index>(p, E, pk_names[kind], skip_inv);

  // all representations of the same bijection give the same object (perm <-> swap arrays describe one bijection)
  if(n > 0)
  {
    std::vector<Index> sw(p.get_swap_pos(), p.get_swap_pos() + n);
    VF_CHECK(perm_of_swap(sw) == E, "swap array of the object does not describe its position array");
    Permutation a(Index(n), Permutation::ConstrType::swap, sw.data()); check_acts_as<Index>(a, E, "rebuilt from swap array");
    std::vector<Index> Ei = inv_of(E);
    Permutation b(Index(n), Permutation::ConstrType::inv_perm, Ei.data()); check_acts_as<Index>(b, E, "rebuilt from inverse position array");
    Permutation d(Index(n), Permutation::ConstrType::inv_swap, sw.data()); check_acts_as<Index>(d, Ei, "inverse built from swap array");
  }

  // clone, move
  { Permutation q = p.clone(); check_acts_as<Index>(q, E, "clone", skip_inv); Permutation r(std::move(q)); check_acts_as<Index>(r, E, "move-constructed", skip_inv); }

  // inverse undoes
  {
    Permutation q = p.inverse(); std::vector<Index> Ei = inv_of(E);
    check_acts_as<Index>(q, Ei, "inverse()", skip_inv);
    std::vector<Index> x((size_t)n + 1), y((size_t)n + 1), z((size_t)n + 1); for(size_t i = 0; i <= (size_t)n; ++i) x[i] = Index(500 + 7 * i);
    p.apply(y.data(), x.data()); q.apply(z.data(), y.data());
    for(int i = 0; i < n; ++i) VF_CHECK(z[(size_t)i] == x[(size_t)i], "inverse().apply(p.apply(x)) != x at " << i);
    z = x; p.apply(z.data()); q.apply(z.data()); z[(size_t)n] = x[(size_t)n];
    VF_CHECK(z == x, "in-situ: inverse() after p is not the identity");
    Permutation qq = q.inverse(); check_acts_as<Index>(qq, E, "inverse().inverse()", skip_inv);
  }

  // concat composes: P3 := P1 * P2 with P3(x) = P1(P2(x))
  {
    Permutation p2 = build_perm(pc2, n); const std::vector<Index>& E2 = pc2.E;
    check_acts_as<Index>(p2, E2, "second permutation", skip_inv);
    std::vector<Index> x((size_t)n + 1), y((size_t)n + 1), z((size_t)n + 1), w((size_t)n + 1); for(size_t i = 0; i <= (size_t)n; ++i) x[i] = Index(200 + 11 * i);
    p2.apply(y.data(), x.data()); p.apply(z.data(), y.data());   // z = P1(P2(x))
    Permutation p3 = p.clone(); p3.concat(p2);
    std::vector<Index> E3((size_t)n); for(int i = 0; i < n; ++i) E3[(size_t)i] = E2[(size_t)E[(size_t)i]];
    check_acts_as<Index>(p3, E3, "concat", skip_inv);
    p3.apply(w.data(), x.data());
    for(int i = 0; i < n; ++i) VF_CHECK(w[(size_t)i] == z[(size_t)i], "concat: P3(x) != P1(P2(x)) at " << i);
    check_acts_as<Index>(p2, E2, "concat argument afterwards", skip_inv);
    // p * p^-1 = id
    Permutation pi = p.clone(); Permutation inv = p.inverse(); pi.concat(inv);
    std::vector<Index> id((size_t)n); for(int i = 0; i < n; ++i) id[(size_t)i] = Index(i);
    check_acts_as<Index>(pi, id, "p.concat(p.inverse())", skip_inv);
  }
}

// =============================================================================================
// target "coloring"
// =============================================================================================
static void check_partition_graph(const Coloring& col, const std::vector<Index>& colour, Index ncol)
{
  Graph pg = col.create_partition_graph();
  Lists pl = read_graph(pg, "partition graph");
  size_t n = colour.size();
  VF_CHECK(pg.get_num_nodes_domain() == ncol, "partition graph has " << pg.get_num_nodes_domain() << " colours, colouring has " << ncol);
  VF_CHECK(pg.get_num_nodes_image() == Index(n), "partition graph image size " << pg.get_num_nodes_image() << " expected " << n);
  std::vector<int> seen(n, 0);
  for(size_t k = 0; k < pl.size(); ++k) for(Index v : pl[k]) { VF_CHECK(colour[(size_t)v] == k, "partition graph lists node " << v << " under colour " << k << " but its colour is " << colour[(size_t)v]); seen[(size_t)v]++; }
  for(size_t i = 0; i < n; ++i) VF_CHECK(seen[i] == 1, "partition graph lists node " << i << " " << seen[i] << " times");
}

static void coloring_target(Tape& t, Ctx& c)
{
  int op = t.pick({6, 5, 2, 2}); // 0 Coloring(graph), 1 Coloring(graph, order), 2 array ctor, 3 vector ctor
  static const char* opn[] = { "coloring(graph)", "coloring(graph,order)", "coloring(array)", "coloring(vector)" };
  c.op = opn[op]; c.desc.set("op", opn[op]); c.label(std::string("op:") + opn[op]);
  if(op >= 2)
  {
    // a prescribed colouring: every colour 0..k-1 is used (array ctor counts the distinct values; a gap would not be a colouring 0..k-1)
    int n = t.sized(0, 40); int k = n == 0 ? 0 : t.range(1, std::min(n, 8)); int extra = op == 3 ? t.pick({3, 1, 1}) : 0;
    std::vector<Index> col((size_t)n); for(int i = 0; i < n; ++i) col[(size_t)i] = Index(i < k ? i : t.range(0, k - 1));
    std::vector<Index> lab = perm_of_swap(gen_swap(t, n)); std::vector<Index> cc((size_t)n); for(int i = 0; i < n; ++i) cc[(size_t)lab[(size_t)i]] = col[(size_t)i];
    c.desc.set("n", n); c.desc.set("colours", J(cc)); c.desc.set("unused_extra_colours", extra);
    c.label(n == 0 ? "n:0" : "n:>0"); if(extra) c.label("feature:unused-colours");
    c.nontrivial = n >= 2 && k >= 2;
    c.announce();
    std::vector<Index> tmp = cc; Index dummy = 0;
    Coloring co = op == 2 ? Coloring(Index(n), n ? tmp.data() : &dummy) : Coloring(Index(k + extra), cc);
    VF_CHECK(co.get_num_nodes() == Index(n) && co.get_num_colors() == Index(k + extra), "colouring object: nodes " << co.get_num_nodes() << " colours " << co.get_num_colors());
    for(int i = 0; i < n; ++i) VF_CHECK(co.get_coloring()[i] == cc[(size_t)i] && co[Index(i)] == cc[(size_t)i], "colouring array entry " << i);
    check_partition_graph(co, cc, Index(k + extra));
    Coloring cl = co.clone(); check_partition_graph(cl, cc, Index(n ? k + extra : 0));
    return;
  }
  // Coloring(graph): documented "adjacent nodes do not have the same color"; the algorithm reads each edge from one side
  // only, i.e. the relation must be symmetric (all callers pass element-neighbour graphs) - symmetric graphs only.
  Adj A = gen_square(t, 40, 0, false);
  int how = t.range(0, 2);
  std::vector<Index> order = perm_of_swap(gen_swap(t, A.nd));
  c.desc.set("ctor", how); c.desc.set("A", A.json()); if(op == 1) c.desc.set("order", J(order));
  c.label("sq:" + A.cls); int nc = components(A.a);
  c.label(A.nd == 0 ? "n:0" : A.nd == 1 ? "n:1" : "n:>1"); if(A.nd > 0) c.label(nc > 1 ? "components:>1" : "components:1");
  bool loops = false, iso = false; for(int i = 0; i < A.nd; ++i) { if(A.a[(size_t)i].empty()) iso = true; for(Index v : A.a[(size_t)i]) if(v == Index(i)) loops = true; }
  if(loops) c.label("feature:self-loops"); if(iso) c.label("feature:isolated-nodes"); if(A.has_dups()) c.label("feature:duplicates");
  long ne = distinct_edges(A.a);
  c.nontrivial = ne >= 1;
  c.announce();
  Graph g = make_graph(A, how);
  Coloring co = op == 0 ? Coloring(g) : Coloring(g, order.data());
  Index n = Index(A.nd), k = co.get_num_colors();
  VF_CHECK(co.get_num_nodes() == n, "colouring has " << co.get_num_nodes() << " nodes, graph " << n);
  std::vector<Index> col(co.get_coloring(), co.get_coloring() + n);
  if(n == 0) VF_CHECK(k == 0 && co.empty(), "colouring of the empty graph has " << k << " colours");
  if(n > 0) VF_CHECK(k >= 1, "colouring of " << n << " nodes has no colours");
  std::vector<int> used((size_t)k, 0);
  for(Index i = 0; i < n; ++i) { VF_CHECK(col[(size_t)i] < k, "node " << i << " has colour " << col[(size_t)i] << " >= num_colors " << k); used[(size_t)col[(size_t)i]]++; }
  for(Index q = 0; q < k; ++q) VF_CHECK(used[(size_t)q] > 0, "colour " << q << " of " << k << " is not used (colours not contiguous)");
  for(Index i = 0; i < n; ++i) for(Index v : A.a[(size_t)i]) if(v != i) VF_CHECK(col[(size_t)i] != col[(size_t)v], "adjacent nodes " << i << " and " << v << " share colour " << col[(size_t)i]);
  VF_CHECK(read_graph(g, "coloured graph") == A.a, "Coloring modified the graph");
  check_partition_graph(co, col, k);
}

// =============================================================================================
// target "cmk"
// =============================================================================================
struct CmkSim { bool maxdeg_stuck = false; bool mindeg_stuck = false; bool wide_then_more = false; int ncomp = 0; };
/// reference run of the level structure (independent of the sort type): which known-finding classes does the input hit?
static CmkSim cmk_sim(const Lists& a, int rtype)
{
  CmkSim s; size_t n = a.size(); std::vector<char> vis(n, 0); size_t done = 0;
  while(done < n)
  {
    size_t root = n;
    if(rtype == 0) { for(size_t j = 0; j < n; ++j) if(!vis[j]) { root = j; break; } }
    else if(rtype == 1) { size_t best = 0; bool any = false; for(size_t j = 0; j < n; ++j) if(!vis[j] && (!any || a[j].size() < best)) { best = a[j].size(); root = j; any = true; } if(best >= n + 1) s.mindeg_stuck = true; }
    else { size_t best = 0; bool any = false; for(size_t j = 0; j < n; ++j) if(!vis[j] && (!any || a[j].size() > best)) { best = a[j].size(); root = j; any = true; } if(best == 0) s.maxdeg_stuck = true; }
    ++s.ncomp; std::vector<size_t> lvl(1, root); vis[root] = 1; ++done; size_t last = 1;
    while(!lvl.empty()) { std::vector<size_t> nx; for(size_t u : lvl) for(Index v : a[u]) if(!vis[(size_t)v]) { vis[(size_t)v] = 1; nx.push_back((size_t)v); ++done; } if(!nx.empty()) last = nx.size(); lvl.swap(nx); }
    if(last >= 2 && done < n) s.wide_then_more = true;
  }
  return s;
}

static void cmk_target(Tape& t, Ctx& c)
{
  static const char* rn[] = { "standard", "minimum_degree", "maximum_degree" }; static const char* sn[] = { "standard", "asc", "desc" };
  int rtype = t.range(0, 2), stype = t.range(0, 2); bool reverse = t.flag();
  // CuthillMcKee::compute creates Permutation(num_nodes), which asserts num_nodes > 0 (domain fact: the empty permutation only
  // exists through the default constructor) - graphs start at one node.
  Adj A = gen_square(t, 40, 1, true);
  int how = t.range(0, 2);
  size_t n = (size_t)A.nd;
  CmkSim sim = cmk_sim(A.a, rtype);
  // exclusion c19-cmk-maxdeg-isolated: RootType::maximum_degree finds no root when every remaining node has degree 0
  // (known finding): give the degree-0 nodes a self-loop (they stay isolated, degree becomes 1).
  if(sim.maxdeg_stuck && c.excl("c19-cmk-maxdeg-isolated")) { for(size_t i = 0; i < n; ++i) if(A.a[i].empty()) A.a[i].push_back(Index(i)); c.label("steered:selfloops"); sim = cmk_sim(A.a, rtype); }
  // exclusion c19-cmk-mindeg-multigraph: RootType::minimum_degree finds no root when every remaining node has degree >= n+1
  // (only possible with repeated adjacencies; known finding): remove the repetitions.
  if(sim.mindeg_stuck && c.excl("c19-cmk-mindeg-multigraph")) { A.a = m_injectify(A.a); c.label("steered:injective"); sim = cmk_sim(A.a, rtype); }
  // exclusion c19-cmk-wide-last-level: a component whose last BFS level has >= 2 nodes followed by another component
  // derails the position counter (known finding): chain all nodes so that one root reaches everything.
  if(sim.wide_then_more && c.excl("c19-cmk-wide-last-level")) { for(size_t i = 0; i + 1 < n; ++i) { if(std::find(A.a[i].begin(), A.a[i].end(), Index(i + 1)) == A.a[i].end()) A.a[i].push_back(Index(i + 1)); if(std::find(A.a[i + 1].begin(), A.a[i + 1].end(), Index(i)) == A.a[i + 1].end()) A.a[i + 1].push_back(Index(i)); } c.label("steered:chained"); sim = cmk_sim(A.a, rtype); }
  c.op = std::string("cmk:") + rn[rtype];
  c.desc.set("root", rn[rtype]); c.desc.set("sort", sn[stype]); c.desc.set("reverse", reverse); c.desc.set("ctor", how); c.desc.set("A", A.json());
  c.label(std::string("root:") + rn[rtype]); c.label(std::string("sort:") + sn[stype]); c.label(reverse ? "reverse:yes" : "reverse:no");
  c.label(std::string("opt:") + rn[rtype] + "/" + sn[stype] + "/" + (reverse ? "rev" : "fwd"));
  c.label("sq:" + A.cls); c.label(n == 1 ? "n:1" : n == 2 ? "n:2" : "n:>2");
  c.label(sim.ncomp > 1 ? "cmk-components:>1" : "cmk-components:1");
  bool sym = is_symmetric(A.a); c.label(sym ? "symmetric" : "asymmetric");
  bool iso = false; for(auto& r : A.a) if(r.empty()) iso = true; if(iso) c.label("feature:isolated-nodes"); if(A.has_dups()) c.label("feature:duplicates");
  if(sim.maxdeg_stuck) c.label("class:maxdeg-root-among-degree-0"); if(sim.mindeg_stuck) c.label("class:mindeg-root-among-degree>n"); if(sim.wide_then_more) c.label("class:wide-last-level-then-more");
  c.nontrivial = n >= 2 && A.nidx() >= 1;
  c.announce();

  Graph g = make_graph(A, how);
  std::vector<Index> deg(n); for(size_t i = 0; i < n; ++i) deg[i] = Index(A.a[i].size());
  auto RT = CuthillMcKee::RootType(rtype); auto ST = CuthillMcKee::SortType(stype);

  // forward run: bijection + level structure
  std::vector<Index> L;
  Permutation pf = CuthillMcKee::compute(L, g, false, RT, ST);
  VF_CHECK(pf.size() == Index(n), "permutation size " << pf.size() << " for " << n << " nodes");
  std::vector<Index> P(pf.get_perm_pos(), pf.get_perm_pos() + n);
  VF_CHECK(is_bijection(P.data(), Index(n)), "ordering is not a bijection: " << show(P));
  check_acts_as<Index>(pf, P, "cmk permutation object");
  VF_CHECK(L.size() >= 2 && L.front() == 0 && L.back() == Index(n), "layers do not span [0,n]: " << show(L));
  for(size_t k = 0; k + 1 < L.size(); ++k) VF_CHECK(L[k] <= L[k + 1], "layers not monotone: " << show(L));
  std::vector<char> vis(n, 0); std::vector<Index> prev; std::vector<size_t> comp_start; // positions where a component starts
  std::vector<std::pair<size_t, size_t>> lay; for(size_t k = 0; k + 1 < L.size(); ++k) if(L[k] < L[k + 1]) lay.push_back({(size_t)L[k], (size_t)L[k + 1]});
  for(auto& ab : lay)
  {
    std::vector<Index> S(P.begin() + (long)ab.first, P.begin() + (long)ab.second);
    std::set<Index> N; for(Index u : prev) for(Index v : A.a[(size_t)u]) if(!vis[(size_t)v]) N.insert(v);
    if(!N.empty())
    {
      VF_CHECK(std::set<Index>(S.begin(), S.end()) == N && S.size() == N.size(), "layer [" << ab.first << "," << ab.second << ") = " << show(S) << " is not the set of unvisited neighbours of the previous layer " << show(std::vector<Index>(N.begin(), N.end())));
      for(size_t k = 0; k + 1 < S.size(); ++k)
      {
        if(stype == 1) VF_CHECK(deg[(size_t)S[k]] <= deg[(size_t)S[k + 1]], "SortType::asc: degrees not ascending inside layer " << show(S));
        if(stype == 2) VF_CHECK(deg[(size_t)S[k]] >= deg[(size_t)S[k + 1]], "SortType::desc: degrees not descending inside layer " << show(S));
      }
    }
    else
    {
      VF_CHECK(S.size() == 1, "a new component must start with a single root, got layer " << show(S));
      Index r = S[0]; comp_start.push_back(ab.first);
      Index first_free = Index(n), dmin = Index(-1), dmax = 0; for(size_t j = 0; j < n; ++j) if(!vis[j]) { if(first_free == Index(n)) first_free = Index(j); dmin = std::min(dmin, deg[j]); dmax = std::max(dmax, deg[j]); }
      if(rtype == 0) VF_CHECK(r == first_free, "RootType::standard: root " << r << " is not the first unprocessed node " << first_free);
      if(rtype == 1) VF_CHECK(deg[(size_t)r] == dmin, "RootType::minimum_degree: root " << r << " has degree " << deg[(size_t)r] << ", minimum is " << dmin);
      if(rtype == 2) VF_CHECK(deg[(size_t)r] == dmax, "RootType::maximum_degree: root " << r << " has degree " << deg[(size_t)r] << ", maximum is " << dmax);
    }
    for(Index v : S) vis[(size_t)v] = 1;
    prev = S;
  }
  // both overloads agree
  { Permutation p2 = CuthillMcKee::compute(g, false, RT, ST); VF_CHECK(p2.size() == Index(n) && std::vector<Index>(p2.get_perm_pos(), p2.get_perm_pos() + n) == P, "compute() without layers differs"); }

  if(reverse)
  {
    std::vector<Index> LR;
    Permutation pr = CuthillMcKee::compute(LR, g, true, RT, ST);
    VF_CHECK(pr.size() == Index(n), "reverse: permutation size");
    std::vector<Index> R(pr.get_perm_pos(), pr.get_perm_pos() + n);
    VF_CHECK(is_bijection(R.data(), Index(n)), "reverse ordering is not a bijection: " << show(R));
    check_acts_as<Index>(pr, R, "reverse cmk permutation object");
    // reverse = every component's segment reversed, layer sizes reversed with it
    comp_start.push_back(n);
    std::vector<Index> ER = P; std::vector<Index> EL(1, 0);
    for(size_t q = 0; q + 1 < comp_start.size(); ++q)
    {
      size_t a = comp_start[q], b = comp_start[q + 1];
      std::reverse(ER.begin() + (long)a, ER.begin() + (long)b);
      std::vector<size_t> sizes; for(auto& ab : lay) if(ab.first >= a && ab.second <= b) sizes.push_back(ab.second - ab.first);
      std::reverse(sizes.begin(), sizes.end()); for(size_t sz : sizes) EL.push_back(EL.back() + Index(sz));
    }
    VF_CHECK(R == ER, "reverse ordering " << show(R) << " is not the component-wise reversal " << show(ER) << " of the forward ordering");
    std::vector<Index> LRn; for(size_t k = 0; k < LR.size(); ++k) if(k == 0 || LR[k] != LR[k - 1]) LRn.push_back(LR[k]);
    VF_CHECK(LRn == EL, "reverse layers " << show(LR) << " expected offsets " << show(EL));
  }
  VF_CHECK(read_graph(g, "cmk graph") == A.a, "CuthillMcKee modified the graph");
}

int main(int argc, char** argv)
{
  FEAT::Runtime::ScopeGuard guard(argc, argv);
  std::vector<Target> tg;
  tg.push_back({"graph", graph_target, 160, 8, 4000});
  tg.push_back({"perm", perm_target, 64, 3, 4000});
  tg.push_back({"coloring", coloring_target, 128, 6, 4000});
  tg.push_back({"cmk", cmk_target, 128, 6, 4000});
  return main_impl(argc, argv, tg);
}
