// C01: matrix-vector products of the scalar formats (CSR, CSCR, banded, dense) against a dense long-double oracle
#include "common/lafem_gen.hpp"
#include "common/c01_core.hpp"
using namespace vf;
#define APPLY(Dexp, has_t) apply_case<DT, has_t>(t, c, A, Dexp, has_t, [&] { return DenseVector<DT, IT>(A.rows()); }, [&] { return DenseVector<DT, IT>(A.columns()); }, [](const decltype(A)& m) { return snapshot(m); })

template<typename DT, typename IT> void csr_case(Tape& t, Ctx& c)
{
  Pat p = gen_pattern(t, 24, t.pick({3, 1, 2}));
  c.desc.set("kind", "csr"); c.desc.set("dt", TypeName<DT>::n()); c.desc.set("it", TypeName<IT>::n()); c.desc.set("A", p.json());
  c.label(std::string("pat:") + p.cls);
  auto A = make_csr<DT, IT>(p);
  APPLY(dense_of_pat<DT>(p), true);
}
template<typename DT, typename IT> void cscr_case(Tape& t, Ctx& c)
{
  Pat p = gen_pattern(t, 24, t.pick({3, 1, 2}));
  c.desc.set("kind", "cscr"); c.desc.set("dt", TypeName<DT>::n()); c.desc.set("it", TypeName<IT>::n()); c.desc.set("A", p.json());
  c.label(std::string("pat:") + p.cls);
  auto A = make_cscr<DT, IT>(p);
  APPLY(dense_of_pat<DT>(p), true);
}
template<typename DT, typename IT> void banded_case(Tape& t, Ctx& c)
{
  Band b = gen_band(t, 20, t.pick({3, 1, 2}));
  c.desc.set("kind", "banded"); c.desc.set("dt", TypeName<DT>::n()); c.desc.set("it", TypeName<IT>::n()); c.desc.set("A", b.json());
  auto A = make_banded<DT, IT>(b);
  // apply_transposed of the banded format ends in XABORTM("not implemented"): not offered
  APPLY(dense_of_band<DT>(b), false);
}
template<typename DT, typename IT> void dense_case(Tape& t, Ctx& c)
{
  // DenseMatrix(rows, cols) asserts rows != 0 && cols != 0: dimensions start at 1 (domain fact)
  Pat p = gen_pattern(t, 16, t.pick({3, 1, 2}), false, -1, 1);
  c.desc.set("kind", "dense"); c.desc.set("dt", TypeName<DT>::n()); c.desc.set("it", TypeName<IT>::n()); c.desc.set("A", p.json());
  c.label(std::string("pat:") + p.cls);
  auto A = make_densem<DT, IT>(p);
  Dense d = dense_of_pat<DT>(p); for(auto& s : d.stored) s = 1;
  APPLY(d, true);
}

#define DISPATCH(fn) [](Tape& t, Ctx& c) { switch(t.pick({5, 2, 1, 1})) { \
  case 0: fn<double, std::uint64_t>(t, c); break; case 1: fn<float, std::uint32_t>(t, c); break; \
  case 2: fn<double, std::uint32_t>(t, c); break; default: fn<float, std::uint64_t>(t, c); } }

int main(int argc, char** argv)
{
  FEAT::Runtime::ScopeGuard guard(argc, argv);
  std::vector<Target> tg;
  tg.push_back({"csr", DISPATCH(csr_case), 64, 16});
  tg.push_back({"cscr", DISPATCH(cscr_case), 64, 16});
  tg.push_back({"banded", DISPATCH(banded_case), 64, 16});
  tg.push_back({"dense", DISPATCH(dense_case), 64, 16});
  return main_impl(argc, argv, tg);
}
