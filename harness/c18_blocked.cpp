// C18 (extension round) - target "blocked": the blocked transfer of the control layer.
// Control::Asm::asm_transfer_blocked assembles a LAFEM::Transfer<SparseMatrixBWrappedCSR<DT, IT, BS>> (a scalar CSR
// matrix that pretends to be a BCSR matrix with BSxBS identity blocks) inside a Global::Transfer, with blocked gates and
// an optional child+parent muxer on one process (protocol of control/blocked_basic.hpp, stokes_blocked.hpp, ...).
// Oracles (one group per case, the matrix checks always):
//   matrices : P, T equal the scalar operators assembled by the protocol of c18_core.hpp (identical arithmetic on one
//              process: bitwise), with the documented shrink rule applied by the harness; R == P^T by an explicit transpose
//   comp     : prol/rest/trunc of DenseVectorBlocked vectors == long double product of the scalar matrix with every
//              component and == LAFEM::Transfer<SparseMatrixCSR> applied to every component
//   exact    : every component of P*c is the same finite element function as that component of c; T*P*c == c
//   clone    : Global::Transfer::clone (shallow/weak/deep), move construction/assignment: same results, deep and weak
//              clones survive formatting the original
//   convert  : Global::Transfer::convert to the other data/index type (with converted gates and muxer)
//   api      : transfer without muxer (nullptr), must-not-call members abort, Global::Splitter on one process
#include "c18_elems.hpp"
#include "c18_parts.hpp"
#include <kernel/lafem/sparse_matrix_bwrappedcsr.hpp>
#include <kernel/lafem/vector_mirror.hpp>
#include <kernel/global/gate.hpp>
#include <kernel/global/muxer.hpp>
#include <kernel/global/splitter.hpp>
#include <kernel/global/vector.hpp>
#include <kernel/global/transfer.hpp>
#include <control/asm/transfer_asm.hpp>

namespace c18
{
  template<typename Space_>
  struct BLvl
  {
    int index; const Space_* space;
    int get_level_index() const { return index; }
    std::size_t bytes() const { return 0; }
  };

  enum BOp { bop_comp = 0, bop_exact, bop_clone, bop_convert, bop_api };
  inline const char* bop_name(int o) { static const char* n[] = {"comp", "exact", "clone", "convert", "api"}; return n[o]; }

  /// component k of a blocked vector as a scalar vector
  template<typename DT_, typename IT_, int BS_>
  LAFEM::DenseVector<DT_, IT_> comp_of(const LAFEM::DenseVectorBlocked<DT_, IT_, BS_>& b, int k)
  {
    LAFEM::DenseVector<DT_, IT_> v(b.size());
    for(Index i = 0; i < b.size(); ++i) v(i, b(i)[k]);
    return v;
  }

  /// blocked vector from the tape: component 0 has the picked class, the others small integers / dyadic / reals;
  /// at most 8 tape values per component, tiled with alternating sign and a component dependent shift
  template<typename DT_, typename IT_, int BS_>
  LAFEM::DenseVectorBlocked<DT_, IT_, BS_> gen_bvec(Tape& t, Index n, int cls0, J& js, const char* key)
  {
    LAFEM::DenseVectorBlocked<DT_, IT_, BS_> v(n); v.format();
    if(n == 0) return v;
    J all = J::arr();
    for(int k = 0; k < BS_; ++k)
    {
      const int cls = (k == 0) ? cls0 : 2 + (cls0 + k) % 3;
      J a = J::arr();
      if(cls == 1) { Index j = Index(t.range(0, int(n) - 1)); auto x = v(j); x[k] = DT_(1); v(j, x); a.add((long long)j); }
      else if(cls >= 2)
      {
        double base[8]; const Index nb = std::min<Index>(n, 8);
        for(Index i = 0; i < nb; ++i) { base[i] = t.real(cls == 2 ? 0 : cls == 3 ? 1 : 2); a.add(double(DT_(base[i]))); }
        for(Index i = 0; i < n; ++i) { auto x = v(i); const Index q = i + Index(5 * k); x[k] = DT_(((q / 8) & 1) ? -base[q % nb] : base[q % nb]); v(i, x); }
      }
      J e = J::obj(); e.set("cls", vcls_name(cls)); e.set("v", a); all.add(e);
    }
    js.set(key, all);
    return v;
  }

  template<typename Mat_>
  std::map<std::pair<Index, Index>, typename Mat_::DataType> entries_of(const Mat_& A, bool transposed = false)
  {
    std::map<std::pair<Index, Index>, typename Mat_::DataType> m;
    for(Index i = 0; i < A.rows(); ++i) for(auto k = A.row_ptr()[i]; k < A.row_ptr()[i + 1]; ++k)
      m[transposed ? std::make_pair(Index(A.col_ind()[k]), i) : std::make_pair(i, Index(A.col_ind()[k]))] = A.val()[k];
    return m;
  }

  /// A holds exactly the entries of ref (bitwise equal values); what/name only for the message
  template<typename Mat_, typename Map_>
  void check_entries(const Mat_& A, const Map_& ref, const char* what)
  {
    VF_CHECK(A.used_elements() == ref.size(), what << ": " << A.used_elements() << " entries, expected " << ref.size());
    for(Index i = 0; i < A.rows(); ++i) for(auto k = A.row_ptr()[i]; k < A.row_ptr()[i + 1]; ++k)
    {
      auto it = ref.find(std::make_pair(i, Index(A.col_ind()[k])));
      VF_CHECK(it != ref.end(), what << ": entry (" << i << "," << A.col_ind()[k] << ")=" << (double)A.val()[k] << " is not in the reference operator");
      VF_CHECK(it->second == A.val()[k], what << ": entry (" << i << "," << A.col_ind()[k] << ")=" << (double)A.val()[k] << " vs reference " << (double)it->second);
    }
  }

  /// the documented shrink rule (drop |a| < 1e-3 * max|a|) applied by the harness
  template<typename Map_, typename DT_>
  Map_ shrunk(const Map_& m, DT_)
  {
    DT_ mx = DT_(0); for(auto& kv : m) mx = std::max(mx, DT_(std::fabs(kv.second)));
    const DT_ thr = DT_(1E-3) * mx; Map_ r;
    for(auto& kv : m) if(DT_(std::fabs(kv.second)) >= thr) r.insert(kv);
    return r;
  }

  template<typename BVec_>
  bool same_bits(const BVec_& a, const BVec_& b)
  {
    if(a.size() != b.size()) return false;
    return a.size() == 0 || std::memcmp(a.template elements<LAFEM::Perspective::pod>(), b.template elements<LAFEM::Perspective::pod>(), sizeof(typename BVec_::DataType) * a.template size<LAFEM::Perspective::pod>()) == 0;
  }

  template<typename Shape_, template<typename> class ElemT_, typename DT_, typename IT_, int BS_>
  void run_blocked(Tape& t, Ctx& c, const ElemMeta& em, bool big)
  {
    constexpr int dim = Shape_::dimension;
    constexpr bool simplex = std::is_same<Shape_, Shape::Simplex<dim>>::value;
    constexpr bool flt = std::is_same<DT_, float>::value;
    constexpr bool it32 = !std::is_same<IT_, Index>::value;
    typedef MeshT<Shape_> MeshType;
    typedef Trafo::Standard::Mapping<MeshType> TrafoType;
    typedef ElemT_<TrafoType> SpaceType;
    typedef LAFEM::SparseMatrixCSR<DT_, IT_> SMat;
    typedef LAFEM::SparseMatrixBWrappedCSR<DT_, IT_, BS_> BMat;
    typedef LAFEM::DenseVector<DT_, IT_> SVec;
    typedef LAFEM::DenseVectorBlocked<DT_, IT_, BS_> BVec;
    typedef LAFEM::VectorMirror<DT_, IT_> Mirror;
    typedef Global::Gate<BVec, Mirror> GateType;
    typedef Global::Muxer<BVec, Mirror> MuxerType;
    typedef Global::Vector<BVec, Mirror> GVec;
    typedef LAFEM::Transfer<BMat> LTransfer;
    typedef Global::Transfer<LTransfer, Mirror> GTransfer;
    typedef BLvl<SpaceType> LevelType;
    typedef Control::Domain::VirtualLevel<LevelType> VirtLevel;
    typedef Control::Domain::DomainLayer Layer;
    static_assert(std::is_same<typename LTransfer::VectorType, BVec>::value, "the wrapped matrix must accept blocked vectors");
    const long double eps = eps_of<DT_>();
    const std::string etag = std::string(em.name) + "/b" + (flt ? "f" : "d") + (it32 ? "32" : "");

    // ---------------------------------------------------------------- decode
    MeshDesc md = gen_mesh(t, dim, simplex, big);
    const bool via_deduct = t.flag(1, 3) && !(simplex && dim == 3);
    int op = t.pick({5, 4, 2, 2, 2});
    if(op == bop_exact && !em.nested) op = bop_comp; // non-nested spaces: only the component-wise and transpose oracles
    const int mux = t.range(0, 2);                  // 0 plain coarse level, 1 child+parent (muxed), 2 transfer without muxer
    const bool trunc = !t.flag(1, 4);               // control default is trunc = false: then the truncation matrix stays empty
    // shrink (the control default): as in target "global" only where every genuine entry is >= 1/64 (Lagrange-1/2, 2D)
    const bool shrink = t.flag(1, 3) && dim == 2 && em.k <= 2 && em.nested && std::string(em.name).find("lagrange") == 0;
    int pst[2]; for(int l = 0; l < 2; ++l) pst[l] = t.pick({4, 2, 2, 2, 1, 1, 1, 1});
    const int vcls_eff = (t.pick({3, 2, 4, 1, 2}) + 2) % 5;
    int need = 2 * em.kq + ((!simplex && !md.affine) ? dim : 0); if(need < 1) need = 1;
    const std::string cub = "auto-degree:" + std::to_string(need + t.range(0, 2));
    double g[2][3]; for(int q = 0; q < 2; ++q) for(int k = 0; k < 3; ++k) g[q][k] = double(1 + t.range(0, 61)) / 64.0;
    const int clone_mode = t.range(0, 2);           // used by op clone: shallow, weak, deep

    c.desc.set("elem", em.name); c.desc.set("dt", flt ? "float" : "double"); c.desc.set("it", it32 ? "u32" : "u64"); c.desc.set("bs", BS_);
    c.desc.set("mesh", md.js); c.desc.set("op", bop_name(op)); c.desc.set("mux", mux == 0 ? "plain" : mux == 1 ? "child+parent" : "none");
    c.desc.set("trunc", trunc); c.desc.set("shrink", shrink);
    { J p = J::arr(); for(int l = 0; l < 2; ++l) p.add(perm_name(perm_of(pst[l]))); c.desc.set("perm", p); }
    c.desc.set("cub", cub); c.desc.set("vec", vcls_name(vcls_eff)); c.desc.set("build", via_deduct ? "deduct" : "factory");
    if(op == bop_clone) c.desc.set("clone", clone_mode == 0 ? "shallow" : clone_mode == 1 ? "weak" : "deep");
    c.op = std::string("blocked-") + bop_name(op) + ":" + em.name;
    for(auto& l : md.labels) c.label(l);
    c.label(std::string("shape:") + (simplex ? (dim == 2 ? "tria" : "tetra") : (dim == 2 ? "quad" : "hexa")));
    c.label(std::string("elem:") + em.name); c.label(std::string("op:") + bop_name(op)); c.label(flt ? "dt:float" : "dt:double"); c.label(it32 ? "it:u32" : "it:u64");
    c.label("bs:" + std::to_string(BS_)); c.label(mux == 0 ? "mux:plain" : mux == 1 ? "mux:child+parent" : "mux:none");
    c.label(trunc ? "trunc:yes" : "trunc:no"); c.label(shrink ? "shrink:yes" : "shrink:no");
    c.label(pst[0] == 0 && pst[1] == 0 ? "perm:none" : pst[0] == 0 ? "perm:fine-only" : pst[1] == 0 ? "perm:coarse-only" : "perm:both");
    c.label(std::string("vec:") + vcls_name(vcls_eff));

    std::vector<std::unique_ptr<MeshType>> mesh;
    mesh.push_back(build_mesh<Shape_>(md, via_deduct));
    { Geometry::StandardRefinery<MeshType> ref(*mesh.back()); mesh.push_back(std::make_unique<MeshType>(ref)); }
    std::vector<std::unique_ptr<TrafoType>> trafo; std::vector<std::unique_ptr<SpaceType>> space;
    auto make_spaces = [&]() { trafo.clear(); space.clear(); for(auto& m : mesh) { trafo.push_back(std::make_unique<TrafoType>(*m)); space.push_back(std::make_unique<SpaceType>(*trafo.back())); } };
    make_spaces();
    const Index ndc = space[0]->get_num_dofs(), ndf = space[1]->get_num_dofs();
    J vj = J::obj();
    BVec bc = gen_bvec<DT_, IT_, BS_>(t, ndc, vcls_eff, vj, "c");
    BVec bd = gen_bvec<DT_, IT_, BS_>(t, ndf, 2, vj, "f");
    c.desc.set("data", vj); c.desc.set("ndofs", J(std::vector<long long>{(long long)ndc, (long long)ndf}));
    // non-trivial: two coarse cells share a facet and at least two components of the coarse vector are non-zero and
    // different from each other (so that a mix-up of components or a scalar treatment of the blocks is visible)
    bool two_diff = false;
    {
      std::vector<SVec> cc; for(int k = 0; k < BS_; ++k) cc.push_back(comp_of(bc, k));
      for(int a = 0; a < BS_; ++a) for(int b = a + 1; b < BS_; ++b)
      {
        bool nza = false, nzb = false, diff = false;
        for(Index i = 0; i < ndc; ++i) { if(cc[(size_t)a](i) != DT_(0)) nza = true; if(cc[(size_t)b](i) != DT_(0)) nzb = true; if(cc[(size_t)a](i) != cc[(size_t)b](i)) diff = true; }
        if(nza && nzb && diff) two_diff = true;
      }
    }
    c.nontrivial = md.shared_facet && two_diff;
    c.announce();

    for(int l = 0; l < 2; ++l) if(pst[l] != 0) mesh[(size_t)l]->create_permutation(perm_of(pst[l]));
    make_spaces();
    const SpaceType& sc = *space[0]; const SpaceType& sf = *space[1];
    const long double tf = tol_factor(em);

    // ---------------------------------------------------------------- levels, layers, blocked gates, muxer (one process)
    Dist::Comm comm = Dist::Comm::world();
    auto layer = std::make_shared<Layer>(Dist::Comm::world(), 0);
    auto layer_child = std::make_shared<Layer>(Dist::Comm::world(), 0);
    layer_child->set_parent(Dist::Comm::world(), 0);
    auto layer_parent = std::make_shared<Layer>(Dist::Comm::world(), 1);
    auto lvl_f = std::make_shared<LevelType>(LevelType{1, &sf});
    auto lvl_c = std::make_shared<LevelType>(LevelType{0, &sc});
    auto lvl_cp = std::make_shared<LevelType>(LevelType{0, &sc});
    VirtLevel virt_f(lvl_f, layer);
    std::unique_ptr<VirtLevel> virt_c;
    if(mux != 1) virt_c.reset(new VirtLevel(lvl_c, layer));
    else virt_c.reset(new VirtLevel(lvl_c, layer_child, lvl_cp, layer_parent));
    GateType gate_f(comm), gate_c(comm);
    gate_f.compile(BVec(ndf)); gate_c.compile(BVec(ndc));
    MuxerType muxer;
    if(mux == 1)
    {
      muxer.set_parent(layer_child->sibling_comm_ptr(), 0, Mirror::make_identity(ndc));
      muxer.push_child(Mirror::make_identity(ndc));
      muxer.compile(BVec(ndc));
      VF_CHECK(muxer.is_child() && muxer.is_parent() && !muxer.is_ghost(), "harness: muxer roles");
    }
    GTransfer gt_mux(&muxer), gt_nomux;
    GTransfer& gt = (mux == 2) ? gt_nomux : gt_mux;
    Control::Asm::asm_transfer_blocked(virt_f, *virt_c, String(cub), trunc, shrink,
      [](const LevelType& lv) { return lv.space; }, gt.local(), muxer, gate_f, gate_c);
    gt.compile();
    VF_CHECK(!gt.is_ghost() && !gt.local().is_ghost(), "blocked: transfer claims to be a ghost operator on one process");

    // ---------------------------------------------------------------- matrices against the scalar protocol
    const SMat& GP = gt.get_mat_prol().unwrap(); const SMat& GR = gt.get_mat_rest().unwrap(); const SMat& GT = gt.get_mat_trunc().unwrap();
    VF_CHECK(GP.rows() == ndf && GP.columns() == ndc && GR.rows() == ndc && GR.columns() == ndf, "blocked: operator dimensions " << GP.rows() << "x" << GP.columns());
    SMat P, T, R; assemble_transfer(P, T, R, sf, sc, String(cub), 0, trunc);
    auto pref = entries_of(P); if(shrink) pref = shrunk(pref, DT_(0));
    check_entries(GP, pref, "blocked: prolongation");
    // R == P^T by an explicit transpose of the assembled blocked prolongation
    check_entries(GR, entries_of(GP, true), "blocked: restriction vs P^T");
    if(trunc)
    {
      VF_CHECK(GT.rows() == ndc && GT.columns() == ndf, "blocked: truncation dimensions " << GT.rows() << "x" << GT.columns());
      auto tref = entries_of(T); if(shrink) tref = shrunk(tref, DT_(0));
      check_entries(GT, tref, "blocked: truncation");
    }
    else VF_CHECK(GT.used_elements() == 0, "blocked: truncation matrix assembled although trunc = false");
    // scalar transfer for the component-wise oracle: the harness-assembled operators (feat3's shrink for the values, the
    // harness rule above decides whether the patterns agree)
    if(shrink) { P.shrink(DT_(1E-3) * P.max_abs_element()); R = P.transpose(); if(trunc) T.shrink(DT_(1E-3) * T.max_abs_element()); }
    LAFEM::Transfer<SMat> st(P.clone(), R.clone(), T.clone());

    auto bound = [&](const SMat& A) { return 8.0L * (long double)(max_row_len(A) + 3) * (eps / 2); };
    // blocked result y (rows of A) against A * x_k (or A^T x_k) for every component
    auto check_comp = [&](const BVec& y, const SMat& A, const BVec& x, bool transposed, const char* what)
    {
      VF_CHECK(y.size() == (transposed ? A.columns() : A.rows()), what << ": result has " << y.size() << " blocks");
      for(int k = 0; k < BS_; ++k)
      {
        SVec xk = comp_of(x, k), yk = comp_of(y, k);
        std::vector<long double> ref, aref; ref_apply(A, xk, ref, aref, transposed);
        for(Index i = 0; i < yk.size(); ++i) VF_CHECK(std::fabs((long double)yk(i) - ref[i]) <= bound(A) * aref[i] + 1e-300L,
          what << ": component " << k << " of block " << i << " is " << (double)yk(i) << ", scalar operator gives " << (double)ref[i]);
      }
    };
    auto check_scalar = [&](const BVec& y, const SVec& sk, int k, const SMat& A, const BVec& x, bool transposed, const char* what)
    {
      SVec xk = comp_of(x, k), yk = comp_of(y, k);
      std::vector<long double> ref, aref; ref_apply(A, xk, ref, aref, transposed);
      for(Index i = 0; i < yk.size(); ++i) VF_CHECK(std::fabs((long double)yk(i) - (long double)sk(i)) <= 2 * bound(A) * aref[i] + 1e-300L,
        what << ": component " << k << " of block " << i << " is " << (double)yk(i) << ", scalar LAFEM::Transfer gives " << (double)sk(i));
    };

    GVec gc(&gate_c, bc.clone()), gf(&gate_f, ndf), gz(&gate_c, ndc), gfd(&gate_f, bd.clone()), grc(&gate_c, ndc);
    gf.local().format(DT_(7)); gz.local().format(DT_(7)); grc.local().format(DT_(7)); // results must not depend on old contents

    if(op == bop_comp || op == bop_exact)
    {
      gt.prol(gf, gc);
      check_comp(gf.local(), GP, bc, false, "blocked prol");
      gt.rest(gfd, grc);
      check_comp(grc.local(), GP, bd, true, "blocked rest");
      if(trunc) { gt.trunc(gfd, gz); check_comp(gz.local(), GT, bd, false, "blocked trunc"); }
      if(op == bop_comp)
      {
        for(int k = 0; k < BS_; ++k)
        {
          SVec ck = comp_of(bc, k), dk = comp_of(bd, k), yf(ndf, DT_(7)), yc(ndc, DT_(7));
          st.prol(yf, ck); check_scalar(gf.local(), yf, k, GP, bc, false, "blocked prol");
          st.rest(dk, yc); check_scalar(grc.local(), yc, k, GP, bd, true, "blocked rest");
          if(trunc) { st.trunc(dk, yc); check_scalar(gz.local(), yc, k, GT, bd, false, "blocked trunc"); }
        }
        // matrix-free blocked prolongation with this block size / index type == blocked matrix product
        BVec mf(ndf); mf.format();
        Assembly::GridTransfer::prolongate_vector_direct(mf, bc, sf, sc, String(cub));
        if(!shrink) for(int k = 0; k < BS_; ++k)
        {
          SVec ck = comp_of(bc, k), mk = comp_of(mf, k);
          std::vector<long double> ref, aref; ref_apply(GP, ck, ref, aref);
          const long double tolv = 8.0L * 64.0L * (long double)(max_row_len(GP) + 3) * (eps / 2), pm = max_abs(GP), vm = max_abs_v(ck);
          for(Index i = 0; i < ndf; ++i) VF_CHECK(std::fabs((long double)mk(i) - ref[i]) <= tolv * (aref[i] + pm * vm) + 1e-300L,
            "blocked vecprol: component " << k << " of block " << i << " is " << (double)mk(i) << ", matrix gives " << (double)ref[i]);
        }
      }
      else
      {
        for(int k = 0; k < BS_; ++k)
        {
          SVec ck = comp_of(bc, k), yk = comp_of(gf.local(), k);
          compare_fe_functions<dim, simplex>(mesh, space, 0, 1, ck, yk, g, tf, eps, etag, "blocked-exact");
        }
        if(trunc && !shrink)
        {
          gt.trunc(gf, gz);
          for(int k = 0; k < BS_; ++k)
          {
            SVec ck = comp_of(bc, k), zk = comp_of(gz.local(), k);
            const long double scale = max_abs_v(ck) + 1e-300L; long double w = 0;
            for(Index j = 0; j < ndc; ++j) w = std::max(w, std::fabs((long double)zk(j) - (long double)ck(j)));
            calib(etag + " blocked-trunc", w / (eps * scale));
            for(Index j = 0; j < ndc; ++j) VF_CHECK(std::fabs((long double)zk(j) - (long double)ck(j)) <= tf * eps * scale, "blocked: (T P c) component " << k << " of block " << j << " is " << (double)zk(j) << " vs c " << (double)ck(j));
          }
        }
      }
    }
    else if(op == bop_clone)
    {
      // results of the original
      gt.prol(gf, gc); gt.rest(gfd, grc); if(trunc) gt.trunc(gfd, gz);
      const LAFEM::CloneMode cm = clone_mode == 0 ? LAFEM::CloneMode::Shallow : clone_mode == 1 ? LAFEM::CloneMode::Weak : LAFEM::CloneMode::Deep;
      GTransfer g2 = gt.clone(cm);
      VF_CHECK(g2.get_mat_prol().used_elements() == GP.used_elements() && g2.get_mat_rest().used_elements() == GR.used_elements() && g2.get_mat_trunc().used_elements() == GT.used_elements(),
        "clone: pattern sizes " << g2.get_mat_prol().used_elements() << "/" << g2.get_mat_rest().used_elements() << "/" << g2.get_mat_trunc().used_elements());
      // move construction and move assignment keep the operator
      GTransfer g3(std::move(g2)); GTransfer g4; g4 = std::move(g3);
      auto run = [&](const GTransfer& x, const char* what)
      {
        GVec f2(&gate_f, ndf), c2(&gate_c, ndc), z2(&gate_c, ndc);
        f2.local().format(DT_(7)); c2.local().format(DT_(7)); z2.local().format(DT_(7));
        x.prol(f2, gc); x.rest(gfd, c2); if(trunc) x.trunc(gfd, z2);
        // same matrices, same kernels: bit-identical by construction
        VF_CHECK(same_bits(f2.local(), gf.local()), what << ": prolongation differs from the original operator");
        VF_CHECK(same_bits(c2.local(), grc.local()), what << ": restriction differs from the original operator");
        if(trunc) VF_CHECK(same_bits(z2.local(), gz.local()), what << ": truncation differs from the original operator");
      };
      run(g4, "clone+move");
      if(clone_mode >= 1)
      {
        // weak and deep clones own their values
        gt.get_mat_prol().format(); gt.get_mat_rest().format(); if(trunc) gt.get_mat_trunc().format();
        run(g4, "clone after formatting the original");
      }
    }
    else if(op == bop_convert)
    {
      typedef typename std::conditional<flt, double, float>::type DT2;
      typedef typename std::conditional<it32, Index, std::uint32_t>::type IT2;
      typedef typename GTransfer::template TransferTypeByDI<DT2, IT2> GTransfer2;
      typedef LAFEM::DenseVectorBlocked<DT2, IT2, BS_> BVec2;
      typedef LAFEM::VectorMirror<DT2, IT2> Mirror2;
      static_assert(std::is_same<typename GTransfer2::LocalVectorType, BVec2>::value, "converted transfer type");
      Global::Muxer<BVec2, Mirror2> muxer2; muxer2.convert(muxer);
      VF_CHECK(muxer2.is_child() == muxer.is_child() && muxer2.is_parent() == muxer.is_parent(), "convert: muxer roles changed");
      Global::Gate<BVec2, Mirror2> gate2_f, gate2_c; gate2_f.convert(gate_f); gate2_c.convert(gate_c);
      GTransfer2 g2; g2.convert(mux == 2 ? nullptr : &muxer2, gt);
      const auto& P2 = g2.get_mat_prol().unwrap(); const auto& R2 = g2.get_mat_rest().unwrap(); const auto& T2 = g2.get_mat_trunc().unwrap();
      auto same = [&](const auto& A2, const SMat& A, const char* what)
      {
        VF_CHECK(A2.rows() == A.rows() && A2.columns() == A.columns() && A2.used_elements() == A.used_elements(), "convert: " << what << " is " << A2.rows() << "x" << A2.columns() << " nnz " << A2.used_elements());
        for(Index i = 0; i <= A.rows(); ++i) VF_CHECK(Index(A2.row_ptr()[i]) == Index(A.row_ptr()[i]), "convert: " << what << " row pointer " << i);
        // a conversion is a cast of every value
        for(Index k = 0; k < A.used_elements(); ++k) VF_CHECK(Index(A2.col_ind()[k]) == Index(A.col_ind()[k]) && A2.val()[k] == DT2(A.val()[k]), "convert: " << what << " entry " << k << ": " << (double)A2.val()[k] << " vs " << (double)A.val()[k]);
      };
      same(P2, GP, "prolongation"); same(R2, GR, "restriction");
      if(trunc) same(T2, GT, "truncation"); else VF_CHECK(T2.used_elements() == 0, "convert: truncation matrix appeared");
      BVec2 bc2; bc2.convert(bc); BVec2 bd2; bd2.convert(bd);
      Global::Vector<BVec2, Mirror2> hc(&gate2_c, bc2.clone()), hf(&gate2_f, ndf), hd(&gate2_f, bd2.clone()), hr(&gate2_c, ndc), hz(&gate2_c, ndc);
      hf.local().format(DT2(7)); hr.local().format(DT2(7)); hz.local().format(DT2(7));
      g2.prol(hf, hc); g2.rest(hd, hr); if(trunc) g2.trunc(hd, hz);
      const long double eps2 = eps_of<DT2>();
      auto chk = [&](const BVec2& y, const auto& A, const BVec2& x, bool transposed, const char* what)
      {
        for(int k = 0; k < BS_; ++k)
        {
          auto xk = comp_of(x, k), yk = comp_of(y, k);
          std::vector<long double> ref, aref; ref_apply(A, xk, ref, aref, transposed);
          for(Index i = 0; i < yk.size(); ++i) VF_CHECK(std::fabs((long double)yk(i) - ref[i]) <= 8.0L * (long double)(max_row_len(A) + 3) * (eps2 / 2) * aref[i] + 1e-300L,
            "convert: " << what << " component " << k << " of block " << i << " is " << (double)yk(i) << ", converted matrix gives " << (double)ref[i]);
        }
      };
      chk(hf.local(), P2, bc2, false, "prol"); chk(hr.local(), P2, bd2, true, "rest"); if(trunc) chk(hz.local(), T2, bd2, false, "trunc");
    }
    else // bop_api
    {
      gt.prol(gf, gc); gt.rest(gfd, grc); if(trunc) gt.trunc(gfd, gz);
      check_comp(gf.local(), GP, bc, false, "blocked prol");
      // (a) a transfer without muxer built from a deep clone of the local operator gives the same results
      {
        GTransfer g0; g0.local() = gt.local().clone(LAFEM::CloneMode::Deep); g0.compile();
        VF_CHECK(!g0.is_ghost(), "api: transfer without muxer is a ghost");
        GVec f2(&gate_f, ndf), c2(&gate_c, ndc), z2(&gate_c, ndc);
        f2.local().format(DT_(7)); c2.local().format(DT_(7)); z2.local().format(DT_(7));
        g0.prol(f2, gc); g0.rest(gfd, c2); if(trunc) g0.trunc(gfd, z2);
        VF_CHECK(same_bits(f2.local(), gf.local()) && same_bits(c2.local(), grc.local()) && (!trunc || same_bits(z2.local(), gz.local())), "api: transfer without muxer differs from the muxed/plain one on one process");
      }
      // (b) the send/recv members of the local transfer and the ghost members of a non-ghost global transfer must abort
      {
        const LTransfer& lt = gt.local(); std::string s;
        s = vf::run_isolated([&]() { lt.trunc_send(bd); }); VF_CHECK(s == "abort", "api: LAFEM::Transfer::trunc_send returned normally (" << s << ")");
        s = vf::run_isolated([&]() { lt.rest_send(bd); }); VF_CHECK(s == "abort", "api: LAFEM::Transfer::rest_send returned normally (" << s << ")");
        s = vf::run_isolated([&]() { BVec y(ndf); lt.prol_recv(y); }); VF_CHECK(s == "abort", "api: LAFEM::Transfer::prol_recv returned normally (" << s << ")");
        s = vf::run_isolated([&]() { lt.prol_cancel(); }); VF_CHECK(s == "abort", "api: LAFEM::Transfer::prol_cancel returned normally (" << s << ")");
        s = vf::run_isolated([&]() { gt.rest_send(gfd); }); VF_CHECK(s == "abort", "api: Global::Transfer::rest_send of a non-ghost returned normally (" << s << ")");
        s = vf::run_isolated([&]() { GVec y(&gate_f, ndf); gt.prol_recv(y); }); VF_CHECK(s == "abort", "api: Global::Transfer::prol_recv of a non-ghost returned normally (" << s << ")");
      }
      // (c) base splitter on one process: join and split are copies; a scalar splitter converts into a blocked one
      {
        typedef Global::Splitter<BVec, Mirror> SplitterType;
        SplitterType sp; sp.set_root(&comm, 0, Mirror::make_identity(ndf)); sp.push_patch(Mirror::make_identity(ndf));
        sp.set_base_vector_template(BVec(ndf)); sp.compile(BVec(ndf));
        VF_CHECK(sp.is_root() && sp.is_single(), "api: splitter roles on one process");
        VF_CHECK(sp.create_base_vector().size() == ndf, "api: splitter base vector size");
        BVec base = sp.join(gf);
        VF_CHECK(same_bits(base, gf.local()), "api: Splitter::join changed the vector on one process");
        GVec back(&gate_f, ndf); back.local().format(DT_(7)); sp.split(back, base);
        VF_CHECK(same_bits(back.local(), gf.local()), "api: Splitter::split changed the vector on one process");
        Global::Splitter<SVec, Mirror> ssp; ssp.set_root(&comm, 0, Mirror::make_identity(ndf)); ssp.push_patch(Mirror::make_identity(ndf)); ssp.compile(SVec(ndf));
        SplitterType sp2; sp2.convert(ssp, BVec(ndf));
        VF_CHECK(sp2.is_root() && sp2.is_single() && sp2.get_base_vector_template().size() == 0, "api: converted splitter");
        BVec base2(ndf); base2.format(DT_(7)); sp2.join(base2, gf);
        VF_CHECK(same_bits(base2, gf.local()), "api: converted Splitter::join changed the vector");
        // truncating the vector that went through the splitter gives the coarse vector back
        if(trunc && !shrink && em.nested)
        {
          gt.trunc(back, gz);
          for(int k = 0; k < BS_; ++k)
          {
            SVec ck = comp_of(bc, k), zk = comp_of(gz.local(), k); const long double scale = max_abs_v(ck) + 1e-300L;
            for(Index j = 0; j < ndc; ++j) VF_CHECK(std::fabs((long double)zk(j) - (long double)ck(j)) <= tf * eps * scale, "api: (T split(join(P c))) component " << k << " of block " << j << " is " << (double)zk(j) << " vs c " << (double)ck(j));
          }
        }
      }
    }
  }

  void blocked_case(vf::Tape& t, vf::Ctx& c, bool big)
  {
    typedef std::uint32_t I32;
    // 0 on the tape -> quadrilaterals, Lagrange-1, double, Index, 2 blocks
    switch(t.pick({3, 3, 2, 3, 3, 2, 2, 2}))
    {
    case 0: run_blocked<Shape::Hypercube<2>, EL1, double, Index, 2>(t, c, M_L1, big); break;
    case 1: run_blocked<Shape::Hypercube<2>, EL2, double, I32, 2>(t, c, M_L2, big); break;
    case 2: run_blocked<Shape::Hypercube<2>, EL1, float, I32, 3>(t, c, M_L1, big); break;
    case 3: run_blocked<Shape::Simplex<2>, EL1, double, I32, 3>(t, c, M_L1, big); break;
    case 4: run_blocked<Shape::Simplex<2>, EL2, double, Index, 2>(t, c, M_L2, big); break;
    case 5: run_blocked<Shape::Simplex<2>, ED1, float, Index, 2>(t, c, M_D1, big); break;
    case 6: run_blocked<Shape::Hypercube<2>, ECR, double, Index, 2>(t, c, M_CRH, big); break;
    default: run_blocked<Shape::Hypercube<3>, EL1, double, Index, 3>(t, c, M_L1, big); break;
    }
  }
} // namespace c18
