// C17: threaded domain assembly - real matrix/vector/integral jobs wrapped in PJob<> against the serial result
#include "common/c17_real_core.hpp"
void c17_register_real(std::vector<vf::Target>& tg, const std::string& prefix) { c17::add_real_targets(tg, prefix); }
