// C07, class "config": the limits of an iterative solver can be configured through setters or through a PropertyMap section
// (the documented way of the applications).  A solver built from a generated section must hold exactly the configured limits
// (getters), keep the defaults for absent keys, and behave - status, iteration count, defects, iterate, bit for bit - like a
// twin that received the same numbers through the setters.
#pragma once
#include "common/vf.hpp"
#include <kernel/util/property_map.hpp>
#include <kernel/lafem/sparse_matrix_csr.hpp>
#include <kernel/lafem/dense_vector.hpp>
#include <kernel/lafem/none_filter.hpp>
#include <kernel/solver/pcg.hpp>
#include <kernel/solver/pcr.hpp>
#include <kernel/solver/richardson.hpp>
#include <kernel/solver/bicgstab.hpp>
#include <sstream>
#include <cstring>

namespace c07
{
  inline void config_case(vf::Tape& t, vf::Ctx& c)
  {
    using namespace FEAT; using namespace FEAT::LAFEM; using vf::J;
    typedef SparseMatrixCSR<double, Index> M; typedef DenseVector<double, Index> V; typedef NoneFilter<double, Index> F;
    const int kind = t.range(0, 3); static const char* kn[] = {"pcg", "pcr", "richardson", "bicgstab"};
    const int n = t.sized(3, 40, 2);
    // keys: present with probability 1/2 each; values from small menus (printed with full precision, parsed back by the library)
    struct Key { const char* name; bool present; double val; bool integer; };
    static const double tols[] = {1e-3, 1e-6, 1e-10, 1e-1, 0.5, 1e-14}, divs[] = {1e3, 1e10, 1e1}, stag[] = {0.95, 0.5, 0.99};
    Key keys[] = {
      {"tol_rel", t.flag(1, 2), tols[t.range(0, 5)], false}, {"tol_abs", t.flag(1, 2), tols[t.range(0, 5)] * 10.0, false}, {"tol_abs_low", t.flag(1, 3), tols[t.range(0, 5)] * 1e-3, false},
      {"div_rel", t.flag(1, 3), divs[t.range(0, 2)], false}, {"div_abs", t.flag(1, 3), divs[t.range(0, 2)] * 1e3, false}, {"stag_rate", t.flag(1, 3), stag[t.range(0, 2)], false},
      {"max_iter", t.flag(1, 2), double(t.range(0, 60)), true}, {"min_iter", t.flag(1, 3), double(t.range(0, 5)), true}, {"min_stag_iter", t.flag(1, 3), double(t.range(0, 4)), true}};
    std::ostringstream ini; ini << "[solver]\n"; J jk = J::obj(); int npresent = 0;
    for(auto& k : keys) if(k.present) { ++npresent; if(k.integer) ini << k.name << " = " << (long)k.val << "\n"; else { char b[64]; snprintf(b, sizeof b, "%.17g", k.val); ini << k.name << " = " << b << "\n"; } jk.set(k.name, k.val); }
    c.desc.set("solver", kn[kind]); c.desc.set("n", n); c.desc.set("keys", jk);
    c.label(std::string("solver:") + kn[kind]); c.label("keys:" + std::to_string(npresent >= 6 ? 6 : npresent)); c.op = std::string("config:") + kn[kind]; c.nontrivial = npresent >= 1; c.announce();
    // SPD tridiagonal system with a smooth right-hand side
    const Index nn = Index(n); DenseVector<Index, Index> rp(nn + 1, Index(0)); std::vector<Index> ci; std::vector<double> va;
    for(int i = 0; i < n; ++i) { if(i > 0) { ci.push_back(Index(i - 1)); va.push_back(-1.0); } ci.push_back(Index(i)); va.push_back(2.0 + 0.01 * i); if(i + 1 < n) { ci.push_back(Index(i + 1)); va.push_back(-1.0); } rp(Index(i + 1), Index(ci.size())); }
    const Index nz = Index(ci.size()); DenseVector<Index, Index> vci(nz, Index(0)); V vva(nz, 0.0); for(Index i = 0; i < nz; ++i) { vci(i, ci[i]); vva(i, va[i]); }
    M A(nn, nn, vci, vva, rp); F f; V b(nn, 0.0); for(Index i = 0; i < nn; ++i) b(i, 1.0 + 0.25 * double(i % 5));
    PropertyMap pm; { std::istringstream is(ini.str()); pm.read(is); } PropertyMap* sec = pm.query_section("solver"); VF_CHECK(sec != nullptr, "harness: section not found");
    auto run = [&](auto from_map, auto from_args)
    {
      auto s1 = from_map(); auto s2 = from_args();
      for(auto& k : keys) if(k.present)
      {
        const std::string kn2 = k.name;
        if(kn2 == "tol_rel") s2->set_tol_rel(k.val); else if(kn2 == "tol_abs") s2->set_tol_abs(k.val); else if(kn2 == "tol_abs_low") s2->set_tol_abs_low(k.val); else if(kn2 == "div_rel") s2->set_div_rel(k.val);
        else if(kn2 == "div_abs") s2->set_div_abs(k.val); else if(kn2 == "stag_rate") s2->set_stag_rate(k.val); else if(kn2 == "max_iter") s2->set_max_iter(Index(k.val)); else if(kn2 == "min_iter") s2->set_min_iter(Index(k.val)); else s2->set_min_stag_iter(Index(k.val));
      }
      // the configured limits, present or defaulted, are the same in both objects
      VF_CHECK(s1->get_tol_rel() == s2->get_tol_rel(), "tol_rel from the section is " << s1->get_tol_rel() << ", via setter/default " << s2->get_tol_rel());
      VF_CHECK(s1->get_tol_abs() == s2->get_tol_abs(), "tol_abs from the section is " << s1->get_tol_abs() << ", via setter/default " << s2->get_tol_abs());
      VF_CHECK(s1->get_tol_abs_low() == s2->get_tol_abs_low(), "tol_abs_low from the section is " << s1->get_tol_abs_low() << ", via setter/default " << s2->get_tol_abs_low());
      VF_CHECK(s1->get_div_rel() == s2->get_div_rel(), "div_rel from the section is " << s1->get_div_rel() << ", via setter/default " << s2->get_div_rel());
      VF_CHECK(s1->get_div_abs() == s2->get_div_abs(), "div_abs from the section is " << s1->get_div_abs() << ", via setter/default " << s2->get_div_abs());
      VF_CHECK(s1->get_stag_rate() == s2->get_stag_rate(), "stag_rate from the section is " << s1->get_stag_rate() << ", via setter/default " << s2->get_stag_rate());
      VF_CHECK(s1->get_max_iter() == s2->get_max_iter(), "max_iter from the section is " << s1->get_max_iter() << ", via setter/default " << s2->get_max_iter());
      VF_CHECK(s1->get_min_iter() == s2->get_min_iter(), "min_iter from the section is " << s1->get_min_iter() << ", via setter/default " << s2->get_min_iter());
      VF_CHECK(s1->get_min_stag_iter() == s2->get_min_stag_iter(), "min_stag_iter from the section is " << s1->get_min_stag_iter() << ", via setter/default " << s2->get_min_stag_iter());
      V x1(nn, 0.0), x2(nn, 0.0); s1->init(); s2->init(); const Solver::Status st1 = s1->apply(x1, b), st2 = s2->apply(x2, b);
      VF_CHECK(st1 == st2 && s1->get_num_iter() == s2->get_num_iter(), "solver configured through the section ended with " << st1 << " after " << s1->get_num_iter() << " iterations, its setter-configured twin with " << st2 << " after " << s2->get_num_iter());
      VF_CHECK(std::memcmp(x1.elements(), x2.elements(), sizeof(double) * size_t(n)) == 0 || (st1 != Solver::Status::success), "section-configured and setter-configured solves returned different iterates");
      s1->done(); s2->done();
    };
    if(kind == 0) run([&] { return Solver::new_pcg("solver", sec, A, f); }, [&] { return Solver::new_pcg(A, f); });
    else if(kind == 1) run([&] { return Solver::new_pcr("solver", sec, A, f); }, [&] { return Solver::new_pcr(A, f); });
    else if(kind == 2) run([&] { return Solver::new_richardson("solver", sec, A, f); }, [&] { return Solver::new_richardson(A, f); });
    else run([&] { return Solver::new_bicgstab("solver", sec, A, f); }, [&] { return Solver::new_bicgstab(A, f); });
  }
}
