// C06: filters impose their constraints exactly and idempotently on vectors / matrices.
#include "common/lafem_gen.hpp"
#include "common/c01_core.hpp"
#include <kernel/lafem/unit_filter.hpp>
#include <kernel/lafem/unit_filter_blocked.hpp>
#include <kernel/lafem/slip_filter.hpp>
#include <kernel/lafem/mean_filter.hpp>
#include <kernel/lafem/mean_filter_blocked.hpp>
#include <kernel/lafem/none_filter.hpp>
#include <kernel/lafem/filter_chain.hpp>
#include <kernel/lafem/filter_sequence.hpp>
#include <kernel/lafem/tuple_filter.hpp>
#include <kernel/lafem/power_filter.hpp>
#include <kernel/lafem/vector_mirror.hpp>
#include <kernel/global/gate.hpp>
#include <kernel/global/vector.hpp>
#include <kernel/global/filter.hpp>
using namespace vf;
// the index type is a build parameter: binary c06_filter_i32 runs the same targets with 32-bit indices (the arch dispatch
// structs have separate overloads per data/index type pair - C06k sat in the double/uint32 one)
#ifndef C06_IT
#define C06_IT Index
#define C06_SFX ""
#endif
typedef double DT; typedef C06_IT IT;
typedef DenseVector<DT, IT> DV;

static const long double U = unit_roundoff<DT>();
static const char* fop_name[] = {"filter_rhs", "filter_sol", "filter_def", "filter_cor"};
template<typename F, typename V> static void apply_op(const F& f, V& v, int op) { switch(op) { case 0: f.filter_rhs(v); break; case 1: f.filter_sol(v); break; case 2: f.filter_def(v); break; default: f.filter_cor(v); } }

/// distinct constrained indices: classes empty / all / random subset (duplicates excluded by the property), in generated insertion order
static std::vector<long> gen_index_set(Tape& t, long n, std::string& cls)
{
  std::vector<long> idx; int k = (n == 0) ? 0 : t.pick({4, 1, 1});
  if(k == 1 || n == 0) { cls = "idx:empty"; return idx; }
  if(k == 2) { cls = "idx:all"; for(long i = 0; i < n; ++i) idx.push_back(i); }
  else { cls = "idx:random"; for(long i = 0; i < n; ++i) if(t.flag(1, 3)) idx.push_back(i); if(idx.empty()) cls = "idx:empty"; }
  for(size_t i = idx.size(); i > 1; --i) std::swap(idx[i - 1], idx[(size_t)t.range(0, (int)i - 1)]);   // insertion order is arbitrary
  return idx;
}

// ---------------------------------------------------------------- scalar unit filter: vectors and CSR matrices
// Global::Filter is a forwarding wrapper: each of the four operations on a Global::Vector must give exactly what the wrapped local filter gives on the local vector
template<typename F, typename V> static void global_wrap(const F& f, const V& v0, int op, const char* what)
{
  typedef LAFEM::VectorMirror<DT, IT> Mi; Global::Gate<V, Mi> gate; Global::Filter<F, Mi> gf(f.clone()); Global::Vector<V, Mi> gv(&gate, v0.clone());
  V lv = v0.clone(); apply_op(f, lv, op); apply_op(gf, gv, op);
  std::string x, y; vbytes(gv.local(), x); vbytes(lv, y); VF_CHECK(x == y, "Global::Filter<" << what << ">::" << fop_name[op] << " differs from the wrapped local filter's " << fop_name[op]);
}

// a clone of a filter (deep and shallow) filters exactly like its source
template<typename F, typename V> static void clone_twin(const F& f, const V& v0, int op, const char* what)
{
  for(int m = 0; m < 2; ++m)
  {
    F g = f.clone(m ? CloneMode::Shallow : CloneMode::Deep); V a = v0.clone(), b = v0.clone(); apply_op(f, a, op); apply_op(g, b, op);
    std::string x, y; vbytes(a, x); vbytes(b, y); VF_CHECK(x == y, (m ? "shallow" : "deep") << " clone of the " << what << " filter: " << fop_name[op] << " differs from the source filter's");
  }
}

static void unit_case(Tape& t, Ctx& c)
{
  long n = t.sized(0, 40, 3); std::string icls; std::vector<long> idx = gen_index_set(t, n, icls);
  int vcls = t.pick({3, 1, 3}); std::vector<double> vals = gen_values(t, idx.size(), vcls), vv = gen_values(t, (size_t)n, vcls);
  int mode = t.pick({4, 3, 2}); // vector op / filter_mat / end-to-end solve
  int op = t.range(0, 3);
  c.desc.set("filter", "unit"); c.desc.set("n", n); c.desc.set("idx", J(idx)); c.desc.set("vals", J(vals)); c.desc.set("v", J(vv));
  c.label(icls); c.nontrivial = n >= 2 && !idx.empty();
  UnitFilter<DT, IT> f((Index)n); for(size_t k = 0; k < idx.size(); ++k) f.add((Index)idx[k], vals[k]);
  std::vector<char> con((size_t)n, 0); std::vector<double> pres((size_t)n, 0.0); for(size_t k = 0; k < idx.size(); ++k) { con[(size_t)idx[k]] = 1; pres[(size_t)idx[k]] = vals[k]; }
  if(mode == 0)
  {
    c.desc.set("op", fop_name[op]); c.op = std::string(fop_name[op]) + "@unit"; c.label(std::string("op:") + fop_name[op]); c.announce();
    DV v((Index)n); vfill_all(v, vv); std::string b0; vbytes(v, b0);
    clone_twin(f, v, op, "unit"); apply_op(f, v, op);
    for(long i = 0; i < n; ++i)
    {
      DT got = v.elements()[i];
      if(con[(size_t)i]) { DT want = (op <= 1) ? DT(pres[(size_t)i]) : DT(0); VF_CHECK(memcmp(&got, &want, sizeof(DT)) == 0 || (got == want && want == 0), fop_name[op] << ": constrained entry " << i << " = " << got << " expected " << want); }
      else VF_CHECK(got == DT(vv[(size_t)i]), fop_name[op] << ": unconstrained entry " << i << " changed from " << vv[(size_t)i] << " to " << got);
    }
    std::string b1; vbytes(v, b1); apply_op(f, v, op); std::string b2; vbytes(v, b2); VF_CHECK(b1 == b2, fop_name[op] << " is not idempotent");
    return;
  }
  // matrices: square CSR; class A: stored diagonal at every constrained row; class B: some constrained rows without stored diagonal
  bool nodiag = (mode == 1) && t.flag(1, 4);
  Pat p = gen_pattern(t, 0, vcls, true, 9, 0, (int)n, (int)n);
  if(mode == 2) { // strictly diagonally dominant: the filtered system stays uniquely solvable
    for(long i = 0; i < n; ++i) { double s = 1.0; for(size_t k = 0; k < p.col[(size_t)i].size(); ++k) if(p.col[(size_t)i][k] != i) s += std::fabs(p.val[(size_t)i][k]); for(size_t k = 0; k < p.col[(size_t)i].size(); ++k) if(p.col[(size_t)i][k] == i) p.val[(size_t)i][k] = s; } }
  if(nodiag) for(long i : idx) if(t.flag()) for(size_t k = 0; k < p.col[(size_t)i].size(); ++k) if(p.col[(size_t)i][k] == i) { p.col[(size_t)i].erase(p.col[(size_t)i].begin() + (long)k); p.val[(size_t)i].erase(p.val[(size_t)i].begin() + (long)k); break; }
  c.desc.set("A", p.json());
  if(p.nnz() == 0) { c.label("skipped:entry-free-matrix"); c.nontrivial = false; c.announce(); return; }
  auto A = make_csr<DT, IT>(p); Dense D0 = dense_of(A);
  if(mode == 1)
  {
    bool offdiag = t.flag(1, 3); c.desc.set("op", offdiag ? "filter_offdiag_row_mat" : "filter_mat"); c.op = std::string(offdiag ? "filter_offdiag_row_mat" : "filter_mat") + "@unit"; c.label(offdiag ? "op:filter_offdiag_row_mat" : "op:filter_mat"); c.label(nodiag ? "diag:some-missing" : "diag:stored"); c.announce();
    if(offdiag) f.filter_offdiag_row_mat(A); else f.filter_mat(A);
    Dense D1 = dense_of(A); VF_CHECK(D1.stored == D0.stored, "filter_mat changed the sparsity pattern");
    for(long i = 0; i < n; ++i) for(long j = 0; j < n; ++j) if(D0.st(i, j))
    {
      if(!con[(size_t)i]) VF_CHECK(D1(i, j) == D0(i, j), "unconstrained row " << i << " changed at column " << j);
      else { long double want = (!offdiag && i == j) ? 1.0L : 0.0L; VF_CHECK(D1(i, j) == want, (offdiag ? "filter_offdiag_row_mat" : "filter_mat") << ": constrained row " << i << " column " << j << " = " << (double)D1(i, j) << " expected " << (double)want); }
    }
    return;
  }
  // end-to-end: filter matrix, rhs; dense solve (own LU, long double) reproduces the prescribed values
  c.desc.set("op", "solve"); c.op = "solve@unit"; c.label("op:filtered-solve"); c.announce();
  f.filter_mat(A); DV b((Index)n); vfill_all(b, vv); f.filter_rhs(b);
  Dense M = dense_of(A); std::vector<long double> x((size_t)n), rhs((size_t)n); for(long i = 0; i < n; ++i) rhs[(size_t)i] = b.elements()[i];
  std::vector<long double> a = M.a; // gaussian elimination with partial pivoting
  for(long k = 0; k < n; ++k)
  {
    long piv = k; for(long i = k + 1; i < n; ++i) if(fabsl(a[(size_t)(i * n + k)]) > fabsl(a[(size_t)(piv * n + k)])) piv = i;
    VF_CHECK(a[(size_t)(piv * n + k)] != 0.0L, "filtered matrix is singular (harness: diagonally dominant input expected to stay regular)");
    if(piv != k) { for(long j = 0; j < n; ++j) std::swap(a[(size_t)(k * n + j)], a[(size_t)(piv * n + j)]); std::swap(rhs[(size_t)k], rhs[(size_t)piv]); }
    for(long i = k + 1; i < n; ++i) { long double m = a[(size_t)(i * n + k)] / a[(size_t)(k * n + k)]; if(m == 0) continue; for(long j = k; j < n; ++j) a[(size_t)(i * n + j)] -= m * a[(size_t)(k * n + j)]; rhs[(size_t)i] -= m * rhs[(size_t)k]; }
  }
  for(long i = n - 1; i >= 0; --i) { long double s = rhs[(size_t)i]; for(long j = i + 1; j < n; ++j) s -= a[(size_t)(i * n + j)] * x[(size_t)j]; x[(size_t)i] = s / a[(size_t)(i * n + i)]; }
  for(long i = 0; i < n; ++i) if(con[(size_t)i]) VF_CHECK(fabsl(x[(size_t)i] - (long double)pres[(size_t)i]) <= 64.0L * n * U * (fabsl((long double)pres[(size_t)i]) + 1.0L), "solution of the filtered system: entry " << i << " = " << (double)x[(size_t)i] << " prescribed " << pres[(size_t)i]);
}

// ---------------------------------------------------------------- blocked unit filter and slip filter
template<int B> static void blocked_case(Tape& t, Ctx& c)
{
  typedef DenseVectorBlocked<DT, IT, B> V; typedef Tiny::Vector<DT, B> VT;
  long n = t.sized(0, 24, 3); std::string icls; std::vector<long> idx = gen_index_set(t, n, icls);
  int vcls = t.pick({3, 1, 3}); int kind = t.pick({3, 3, 2}); // unit blocked vector / slip / unit blocked matrix
  int op = t.range(0, 3);
  std::vector<double> vals = gen_values(t, idx.size() * B, vcls), vv = gen_values(t, (size_t)(n * B), vcls);
  if(kind == 1) for(size_t k = 0; k < idx.size(); ++k) { bool allz = true; for(int j = 0; j < B; ++j) if(vals[k * B + j] != 0.0) allz = false; if(allz) vals[k * B] = 1.0; }   // slip normals are non-zero
  // slip normals are not unit vectors (the assembler stores area-weighted normals of length ~h^(d-1)): scale classes down to |n| ~ 2^-70
  if(kind == 1) { static const double scl[] = {1.0, 0x1p-20, 0x1p-40, 0x1p-70}; const int sc = t.pick({3, 1, 1, 1}); if(sc) { for(auto& v : vals) v *= scl[sc]; c.label("slip-normal-scale:2^-" + std::to_string(sc == 1 ? 20 : sc == 2 ? 40 : 70)); } }
  // component-wise (partial) constraints: with ignore_nans a NaN filter value leaves that component unconstrained
  bool nans = (kind != 1) && t.flag(1, 3);
  if(nans) for(size_t k = 0; k < idx.size(); ++k) for(int j = 0; j < B; ++j) if(t.flag(1, 3)) vals[k * B + (size_t)j] = std::numeric_limits<double>::quiet_NaN();
  c.desc.set("ignore_nans", nans); c.label(nans ? "nans:partial-constraints" : "nans:none");
  c.desc.set("filter", kind == 1 ? "slip" : "unit_blocked"); c.desc.set("block", B); c.desc.set("n", n); c.desc.set("idx", J(idx)); c.desc.set("vals", J(vals)); c.desc.set("v", J(vv));
  c.label(icls); c.label("block:" + std::to_string(B)); c.nontrivial = n >= 2 && !idx.empty();
  std::vector<char> con((size_t)n, 0); std::vector<size_t> slot((size_t)n, 0); for(size_t k = 0; k < idx.size(); ++k) { con[(size_t)idx[k]] = 1; slot[(size_t)idx[k]] = k; }
  auto blk = [&](size_t k) { VT b; for(int j = 0; j < B; ++j) b[j] = vals[k * B + (size_t)j]; return b; };
  if(kind == 0)
  {
    c.desc.set("op", fop_name[op]); c.op = std::string(fop_name[op]) + "@unit_blocked"; c.label(std::string("op:") + fop_name[op]); c.announce();
    UnitFilterBlocked<DT, IT, B> f((Index)n, nans); for(size_t k = 0; k < idx.size(); ++k) f.add((Index)idx[k], blk(k));
    V v((Index)n); vfill_all(v, vv); clone_twin(f, v, op, "blocked unit / slip"); apply_op(f, v, op); std::vector<long double> r; vflat(v, r);
    for(long i = 0; i < n; ++i) for(int j = 0; j < B; ++j)
    {
      size_t q = (size_t)(i * B + j);
      if(con[(size_t)i] && !(nans && std::isnan(vals[slot[(size_t)i] * B + (size_t)j]))) { long double want = (op <= 1) ? (long double)vals[slot[(size_t)i] * B + (size_t)j] : 0.0L; VF_CHECK(r[q] == want, fop_name[op] << ": constrained entry (" << i << "," << j << ") = " << (double)r[q] << " expected " << (double)want); }
      else VF_CHECK(r[q] == (long double)vv[q], fop_name[op] << ": unconstrained entry (" << i << "," << j << ") changed");
    }
    std::string b1, b2; vbytes(v, b1); apply_op(f, v, op); vbytes(v, b2); VF_CHECK(b1 == b2, fop_name[op] << " is not idempotent");
  }
  else if(kind == 1)
  {
    c.desc.set("op", fop_name[op]); c.op = std::string(fop_name[op]) + "@slip"; c.label(std::string("op:") + fop_name[op]); c.announce();
    SlipFilter<DT, IT, B> f((Index)n, (Index)n); for(size_t k = 0; k < idx.size(); ++k) f.add((Index)idx[k], blk(k));
    V v((Index)n); vfill_all(v, vv); clone_twin(f, v, op, "blocked unit / slip"); apply_op(f, v, op); std::vector<long double> r; vflat(v, r);
    for(long i = 0; i < n; ++i)
    {
      if(!con[(size_t)i]) { for(int j = 0; j < B; ++j) VF_CHECK(r[(size_t)(i * B + j)] == (long double)vv[(size_t)(i * B + j)], fop_name[op] << ": unconstrained block " << i << " changed"); continue; }
      long double nn = 0, nv0 = 0, nv1 = 0, vabs = 0, nabs = 0;
      for(int j = 0; j < B; ++j) { long double nj = vals[slot[(size_t)i] * B + (size_t)j], v0 = vv[(size_t)(i * B + j)], v1 = r[(size_t)(i * B + j)]; nn += nj * nj; nv0 += nj * v0; nv1 += nj * v1; vabs += fabsl(v0); nabs += fabsl(nj); }
      // normal component vanishes (relative to |n||v|), tangential part unchanged
      VF_CHECK(fabsl(nv1) <= 32.0L * B * U * nabs * (vabs + fabsl(nv0) / sqrtl(nn) ) + 1e-300L, fop_name[op] << ": block " << i << " keeps a normal component n.v = " << (double)nv1);
      for(int j = 0; j < B; ++j) { long double nj = vals[slot[(size_t)i] * B + (size_t)j]; long double want = (long double)vv[(size_t)(i * B + j)] - nv0 / nn * nj;
        VF_CHECK(fabsl(r[(size_t)(i * B + j)] - want) <= 32.0L * B * U * (fabsl((long double)vv[(size_t)(i * B + j)]) + fabsl(nv0 / nn * nj) + vabs * nabs * fabsl(nj) / nn), fop_name[op] << ": block " << i << " component " << j << " = " << (double)r[(size_t)(i * B + j)] << " expected " << (double)want); }
    }
    // idempotent up to rounding
    std::vector<long double> r1 = r; apply_op(f, v, op); std::vector<long double> r2; vflat(v, r2);
    for(size_t q = 0; q < r1.size(); ++q) { long double sc = 0; long i = (long)q / B; for(int j = 0; j < B; ++j) sc += fabsl((long double)vv[(size_t)(i * B + j)]); VF_CHECK(fabsl(r1[q] - r2[q]) <= 64.0L * B * U * sc * 4 + 1e-300L, fop_name[op] << " applied twice changes entry " << q << " by " << (double)(r2[q] - r1[q])); }
  }
  else
  {
    Pat p = gen_pattern(t, 0, vcls, true, 9, 0, (int)n, (int)n); c.desc.set("A", p.json()); c.desc.set("op", "filter_mat"); c.op = "filter_mat@unit_blocked"; c.label("op:filter_mat");
    if(p.nnz() == 0) { c.label("skipped:entry-free-matrix"); c.nontrivial = false; c.announce(); return; }
    c.announce();
    UnitFilterBlocked<DT, IT, B> f((Index)n, nans); for(size_t k = 0; k < idx.size(); ++k) f.add((Index)idx[k], blk(k));
    auto A = make_bcsr<DT, IT, B, B>(p); Dense D0 = dense_of(A); f.filter_mat(A); Dense D1 = dense_of(A);
    for(long i = 0; i < D0.r; ++i) for(long j = 0; j < D0.c; ++j) if(D0.st(i, j))
    {
      if(!con[(size_t)(i / B)] || (nans && std::isnan(vals[slot[(size_t)(i / B)] * B + (size_t)(i % B)]))) VF_CHECK(D1(i, j) == D0(i, j), "unconstrained block row " << i / B << " changed");
      else VF_CHECK(D1(i, j) == (i == j ? 1.0L : 0.0L), "filter_mat: constrained row " << i << " column " << j << " = " << (double)D1(i, j));
    }
  }
}

// ---------------------------------------------------------------- mean filters
static void mean_case(Tape& t, Ctx& c)
{
  long n = t.sized(1, 40, 3); int vcls = t.pick({2, 1, 3}); int op = t.range(0, 3);
  std::vector<double> prim = gen_values(t, (size_t)n, vcls), dual = gen_values(t, (size_t)n, vcls), vv = gen_values(t, (size_t)n, vcls); double solmean = t.real(vcls);
  // every caller guarantees a non-vanishing pairing prim.dual (it is the domain volume); establish it by construction
  long double vol = 0, volabs = 0; for(long i = 0; i < n; ++i) { vol += (long double)prim[(size_t)i] * dual[(size_t)i]; volabs += fabsl((long double)prim[(size_t)i] * dual[(size_t)i]); }
  if(vol < 0.25L * volabs || vol <= 0)   /* the pairing is a volume: MeanFilter asserts volume > eps */ { for(long i = 0; i < n; ++i) { prim[(size_t)i] = std::fabs(prim[(size_t)i]) + 0.5; dual[(size_t)i] = std::fabs(dual[(size_t)i]) + 0.25; } vol = 0; volabs = 0; for(long i = 0; i < n; ++i) { vol += (long double)prim[(size_t)i] * dual[(size_t)i]; } volabs = vol; }
  c.desc.set("filter", "mean"); c.desc.set("n", n); c.desc.set("prim", J(prim)); c.desc.set("dual", J(dual)); c.desc.set("v", J(vv)); c.desc.set("sol_mean", solmean); c.desc.set("op", fop_name[op]);
  c.op = std::string(fop_name[op]) + "@mean"; c.label(std::string("op:") + fop_name[op]); c.nontrivial = n >= 2; c.announce();
  DV vp((Index)n), vd((Index)n); vfill_all(vp, prim); vfill_all(vd, dual);
  MeanFilter<DT, IT> f(std::move(vp), std::move(vd), DT(solmean));   // volume := prim.dual, as the assembler sets it
  DV v((Index)n); vfill_all(v, vv); global_wrap(f, v, op, "mean"); clone_twin(f, v, op, "mean"); apply_op(f, v, op); std::vector<long double> r; vflat(v, r);
  long double rp = 0, rd = 0, sp = 0, sd = 0, vmax = 0, pmax = 0, dmax = 0;
  for(long i = 0; i < n; ++i) { rp += r[(size_t)i] * prim[(size_t)i]; rd += r[(size_t)i] * dual[(size_t)i]; vmax = std::max(vmax, fabsl((long double)vv[(size_t)i])); pmax = std::max(pmax, fabsl((long double)prim[(size_t)i])); dmax = std::max(dmax, fabsl((long double)dual[(size_t)i])); }
  (void)sp; (void)sd;
  // scale of the quantities involved: |v|_1-type bound n*vmax*pmax*dmax*(n*pmax*dmax/|vol|)
  long double amp = (long double)n * pmax * dmax / fabsl(vol); long double tol = 64.0L * (n + 4) * U * (long double)n * (vmax + fabsl((long double)solmean) * pmax) * std::max(pmax, dmax) * (1.0L + amp) * (1.0L + amp);
  if(op == 0 || op == 2) VF_CHECK(fabsl(rp) <= tol, fop_name[op] << ": <v,prim> = " << (double)rp << " tol " << (double)tol);
  else if(op == 3) VF_CHECK(fabsl(rd) <= tol, "filter_cor: <v,dual> = " << (double)rd << " tol " << (double)tol);
  else VF_CHECK(fabsl(rd / vol - (long double)solmean) <= tol / fabsl(vol), "filter_sol: mean = " << (double)(rd / vol) << " expected " << solmean);
  // idempotent up to rounding
  apply_op(f, v, op); std::vector<long double> r2; vflat(v, r2); for(long i = 0; i < n; ++i) VF_CHECK(fabsl(r2[(size_t)i] - r[(size_t)i]) <= tol / std::max(std::min(pmax, dmax), 1e-3L) + tol, fop_name[op] << " applied twice changes entry " << i);
}

// ---------------------------------------------------------------- blocked mean filter: every component is an independent mean filter
static void mean_blocked_case(Tape& t, Ctx& c)
{
  constexpr int B = 2; typedef DenseVectorBlocked<DT, IT, B> VB; typedef Tiny::Vector<DT, B> TV;
  long n = t.sized(1, 30, 3); int vcls = t.pick({2, 1, 3}); int op = t.range(0, 3);
  std::vector<double> prim[B], dual[B], vv[B]; double solmean[B]; long double vol[B];
  for(int j = 0; j < B; ++j)
  {
    prim[j] = gen_values(t, (size_t)n, vcls); dual[j] = gen_values(t, (size_t)n, vcls); vv[j] = gen_values(t, (size_t)n, vcls); solmean[j] = t.flag(1, 4) ? 0.0 : t.real(vcls);
    long double va = 0; vol[j] = 0; for(long i = 0; i < n; ++i) { vol[j] += (long double)prim[j][(size_t)i] * dual[j][(size_t)i]; va += fabsl((long double)prim[j][(size_t)i] * dual[j][(size_t)i]); }
    if(vol[j] < 0.25L * va || vol[j] <= 0) { vol[j] = 0; for(long i = 0; i < n; ++i) { prim[j][(size_t)i] = std::fabs(prim[j][(size_t)i]) + 0.5; dual[j][(size_t)i] = std::fabs(dual[j][(size_t)i]) + 0.25; vol[j] += (long double)prim[j][(size_t)i] * dual[j][(size_t)i]; } }
  }
  c.desc.set("filter", "mean_blocked<2>"); c.desc.set("n", n); c.desc.set("op", fop_name[op]);
  for(int j = 0; j < B; ++j) { std::string q = std::to_string(j); c.desc.set("prim" + q, J(prim[j])); c.desc.set("dual" + q, J(dual[j])); c.desc.set("v" + q, J(vv[j])); c.desc.set("sol_mean" + q, solmean[j]); }
  c.op = std::string(fop_name[op]) + "@mean_blocked"; c.label(std::string("op:") + fop_name[op]); c.label(solmean[0] != 0.0 || solmean[1] != 0.0 ? "sol_mean:nonzero" : "sol_mean:zero"); c.nontrivial = n >= 2; c.announce();
  auto fillb = [&](VB& x, const std::vector<double>* src) { DT* e = x.template elements<Perspective::pod>(); for(long i = 0; i < n; ++i) for(int j = 0; j < B; ++j) e[B * i + j] = src[j][(size_t)i]; };
  VB vp((Index)n), vd((Index)n), v((Index)n); fillb(vp, prim); fillb(vd, dual); fillb(v, vv); TV sm; for(int j = 0; j < B; ++j) sm[j] = solmean[j];
  MeanFilterBlocked<DT, IT, B> f(std::move(vp), std::move(vd), sm);
  global_wrap(f, v, op, "mean_blocked"); clone_twin(f, v, op, "blocked mean"); apply_op(f, v, op);
  const DT* r = v.template elements<Perspective::pod>();
  for(int j = 0; j < B; ++j)
  {
    long double rp = 0, rd = 0, vmax = 0, pmax = 0, dmax = 0;
    for(long i = 0; i < n; ++i) { rp += (long double)r[B * i + j] * prim[j][(size_t)i]; rd += (long double)r[B * i + j] * dual[j][(size_t)i]; vmax = std::max(vmax, fabsl((long double)vv[j][(size_t)i])); pmax = std::max(pmax, fabsl((long double)prim[j][(size_t)i])); dmax = std::max(dmax, fabsl((long double)dual[j][(size_t)i])); }
    long double amp = (long double)n * pmax * dmax / fabsl(vol[j]); long double tol = 64.0L * (n + 4) * U * (long double)n * (vmax + fabsl((long double)solmean[j]) * pmax) * std::max(pmax, dmax) * (1.0L + amp) * (1.0L + amp);
    if(op == 0 || op == 2) VF_CHECK(fabsl(rp) <= tol, fop_name[op] << ": component " << j << " <v,prim> = " << (double)rp << " tol " << (double)tol);
    else if(op == 3) VF_CHECK(fabsl(rd) <= tol, "filter_cor: component " << j << " <v,dual> = " << (double)rd << " tol " << (double)tol);
    else VF_CHECK(fabsl(rd / vol[j] - (long double)solmean[j]) <= tol / fabsl(vol[j]), "filter_sol: component " << j << " mean = " << (double)(rd / vol[j]) << " expected " << solmean[j] << " (volume " << (double)vol[j] << ")");
    // the scalar mean filter built from component j gives the same component (both implement the same projection; different rounding only)
    DV sp((Index)n), sd((Index)n), sv((Index)n); vfill_all(sp, prim[j]); vfill_all(sd, dual[j]); vfill_all(sv, vv[j]); MeanFilter<DT, IT> sf(std::move(sp), std::move(sd), DT(solmean[j])); apply_op(sf, sv, op);
    for(long i = 0; i < n; ++i) VF_CHECK(fabsl((long double)r[B * i + j] - (long double)sv.elements()[i]) <= tol / std::max(std::min(pmax, dmax), 1e-3L) + tol, fop_name[op] << ": component " << j << " entry " << i << " = " << r[B * i + j] << ", the scalar mean filter of that component gives " << sv.elements()[i]);
  }
}

// ---------------------------------------------------------------- composed filters: equal to applying the components in order
static void composed_case(Tape& t, Ctx& c)
{
  long n = t.sized(1, 20, 3); int vcls = t.pick({3, 1}); int op = t.range(0, 3); int kind = t.range(0, 9);
  static const char* kn[] = {"chain<unit,mean>", "sequence<unit>", "tuple<unit,unit_blocked2>", "power<unit,2>", "none", "tuple<unit_blocked2,mean>", "tuple<unit,none,mean>", "power<mean,3>", "chain<unit,mean,unit>", "sequence<mean>"};
  std::string ic1, ic2; std::vector<long> i1 = gen_index_set(t, n, ic1), i2 = gen_index_set(t, n, ic2);
  std::vector<double> v1 = gen_values(t, i1.size(), vcls), v2 = gen_values(t, i2.size() * 2, vcls), va = gen_values(t, (size_t)n, vcls), vb = gen_values(t, (size_t)(2 * n), vcls);
  std::vector<double> prim((size_t)n), dual((size_t)n); for(long i = 0; i < n; ++i) { prim[(size_t)i] = 1.0 + std::fabs(t.real(1)); dual[(size_t)i] = 0.5 + std::fabs(t.real(1)); }
  c.desc.set("filter", kn[kind]); c.desc.set("n", n); c.desc.set("op", fop_name[op]); c.desc.set("idx1", J(i1)); c.desc.set("vals1", J(v1)); c.desc.set("idx2", J(i2)); c.desc.set("vals2", J(v2)); c.desc.set("va", J(va)); c.desc.set("vb", J(vb));
  c.op = std::string(fop_name[op]) + "@" + kn[kind]; c.label(std::string("kind:") + kn[kind]); c.label(std::string("op:") + fop_name[op]); c.nontrivial = n >= 2; c.announce();
  auto mk_unit = [&](const std::vector<long>& ix, const std::vector<double>& vs, size_t stride) { UnitFilter<DT, IT> f((Index)n); for(size_t k = 0; k < ix.size(); ++k) f.add((Index)ix[k], vs[k * stride]); return f; };
  auto mk_mean = [&]() { DV p((Index)n), d((Index)n); vfill_all(p, prim); vfill_all(d, dual); return MeanFilter<DT, IT>(std::move(p), std::move(d), DT(0)); };
  switch(kind)
  {
  case 0: { FilterChain<UnitFilter<DT, IT>, MeanFilter<DT, IT>> ch(mk_unit(i1, v1, 1), mk_mean()); DV a((Index)n), b((Index)n); vfill_all(a, va); vfill_all(b, va);
    global_wrap(ch, a, op, kn[kind]); apply_op(ch, a, op); auto u = mk_unit(i1, v1, 1); auto m = mk_mean(); apply_op(u, b, op); apply_op(m, b, op);
    std::string x, y; vbytes(a, x); vbytes(b, y); VF_CHECK(x == y, "FilterChain differs from applying its members in order"); break; }
  case 1: { FilterSequence<UnitFilter<DT, IT>> sq; sq.push_back(std::make_pair(String("first"), mk_unit(i1, v1, 1))); sq.push_back(std::make_pair(String("second"), mk_unit(i2, v2, 2)));
    DV a((Index)n), b((Index)n); vfill_all(a, va); vfill_all(b, va); apply_op(sq, a, op); auto u1 = mk_unit(i1, v1, 1), u2 = mk_unit(i2, v2, 2); apply_op(u1, b, op); apply_op(u2, b, op);
    std::string x, y; vbytes(a, x); vbytes(b, y); VF_CHECK(x == y, "FilterSequence differs from applying its members in order"); break; }
  case 2: { typedef DenseVectorBlocked<DT, IT, 2> VB; UnitFilterBlocked<DT, IT, 2> ub((Index)n); for(size_t k = 0; k < i2.size(); ++k) { Tiny::Vector<DT, 2> q; q[0] = v2[2 * k]; q[1] = v2[2 * k + 1]; ub.add((Index)i2[k], q); }
    TupleFilter<UnitFilter<DT, IT>, UnitFilterBlocked<DT, IT, 2>> tf(mk_unit(i1, v1, 1), ub.clone());
    TupleVector<DV, VB> tv(DV((Index)n), VB((Index)n)); vfill_all(tv.template at<0>(), va); vfill_all(tv.template at<1>(), vb); DV a((Index)n); VB b((Index)n); vfill_all(a, va); vfill_all(b, vb);
    apply_op(tf, tv, op); auto u1 = mk_unit(i1, v1, 1); apply_op(u1, a, op); apply_op(ub, b, op);
    std::string x, y; vbytes(tv, x); vbytes(a, y); vbytes(b, y); VF_CHECK(x == y, "TupleFilter differs from applying its members to the components"); break; }
  case 3: { PowerFilter<UnitFilter<DT, IT>, 2> pf; pf.template at<0>() = mk_unit(i1, v1, 1); pf.template at<1>() = mk_unit(i2, v2, 2);
    PowerVector<DV, 2> pv((Index)n); vfill_all(pv, vb); DV a((Index)n), b((Index)n); { std::vector<double> h1(vb.begin(), vb.begin() + n), h2(vb.begin() + n, vb.end()); vfill_all(a, h1); vfill_all(b, h2); }
    apply_op(pf, pv, op); auto u1 = mk_unit(i1, v1, 1), u2 = mk_unit(i2, v2, 2); apply_op(u1, a, op); apply_op(u2, b, op);
    std::string x, y; vbytes(pv, x); vbytes(a, y); vbytes(b, y); VF_CHECK(x == y, "PowerFilter differs from applying its members to the components"); break; }
  case 5: { // the standard Stokes filter: velocity Dirichlet values, pressure mean (the mean filter is NOT the first member)
    typedef DenseVectorBlocked<DT, IT, 2> VB; UnitFilterBlocked<DT, IT, 2> ub((Index)n); for(size_t k = 0; k < i2.size(); ++k) { Tiny::Vector<DT, 2> q; q[0] = v2[2 * k]; q[1] = v2[2 * k + 1]; ub.add((Index)i2[k], q); }
    TupleFilter<UnitFilterBlocked<DT, IT, 2>, MeanFilter<DT, IT>> tf(ub.clone(), mk_mean());
    TupleVector<VB, DV> tv(VB((Index)n), DV((Index)n)); vfill_all(tv.template at<0>(), vb); vfill_all(tv.template at<1>(), va); VB a((Index)n); DV b((Index)n); vfill_all(a, vb); vfill_all(b, va);
    global_wrap(tf, tv, op, kn[kind]); apply_op(tf, tv, op); auto m = mk_mean(); apply_op(ub, a, op); apply_op(m, b, op);
    std::string x, y; vbytes(tv, x); vbytes(a, y); vbytes(b, y); VF_CHECK(x == y, "TupleFilter<unit_blocked,mean> differs from applying its members to the components"); break; }
  case 6: { TupleFilter<UnitFilter<DT, IT>, NoneFilter<DT, IT>, MeanFilter<DT, IT>> tf(mk_unit(i1, v1, 1), NoneFilter<DT, IT>(), mk_mean());
    std::vector<double> h1(vb.begin(), vb.begin() + n), h2(vb.begin() + n, vb.end());
    TupleVector<DV, DV, DV> tv(DV((Index)n), DV((Index)n), DV((Index)n)); vfill_all(tv.template at<0>(), va); vfill_all(tv.template at<1>(), h1); vfill_all(tv.template at<2>(), h2);
    DV a((Index)n), b((Index)n), d((Index)n); vfill_all(a, va); vfill_all(b, h1); vfill_all(d, h2);
    global_wrap(tf, tv, op, kn[kind]); apply_op(tf, tv, op); auto u1 = mk_unit(i1, v1, 1); auto m = mk_mean(); apply_op(u1, a, op); apply_op(m, d, op);
    std::string x, y; vbytes(tv, x); vbytes(a, y); vbytes(b, y); vbytes(d, y); VF_CHECK(x == y, "TupleFilter<unit,none,mean> differs from applying its members to the components"); break; }
  case 7: { PowerFilter<MeanFilter<DT, IT>, 3> pf; pf.template at<0>() = mk_mean(); pf.template at<1>() = mk_mean(); pf.template at<2>() = mk_mean();
    std::vector<double> h1(vb.begin(), vb.begin() + n), h2(vb.begin() + n, vb.end());
    PowerVector<DV, 3> pv((Index)n); vfill_all(pv.template at<0>(), va); vfill_all(pv.template at<1>(), h1); vfill_all(pv.template at<2>(), h2);
    DV a((Index)n), b((Index)n), d((Index)n); vfill_all(a, va); vfill_all(b, h1); vfill_all(d, h2);
    apply_op(pf, pv, op); auto m = mk_mean(); apply_op(m, a, op); apply_op(m, b, op); apply_op(m, d, op);
    std::string x, y; vbytes(pv, x); vbytes(a, y); vbytes(b, y); vbytes(d, y); VF_CHECK(x == y, "PowerFilter<mean,3> differs from applying its member to the blocks"); break; }
  case 8: { /* the emplacement ctor of FilterChain does not compile for three members (std::move of a pack) */ FilterChain<UnitFilter<DT, IT>, MeanFilter<DT, IT>, UnitFilter<DT, IT>> ch; ch.template at<0>() = mk_unit(i1, v1, 1); ch.template at<1>() = mk_mean(); ch.template at<2>() = mk_unit(i2, v2, 2); DV a((Index)n), b((Index)n); vfill_all(a, va); vfill_all(b, va);
    apply_op(ch, a, op); auto u = mk_unit(i1, v1, 1); auto m = mk_mean(); auto u2 = mk_unit(i2, v2, 2); apply_op(u, b, op); apply_op(m, b, op); apply_op(u2, b, op);
    std::string x, y; vbytes(a, x); vbytes(b, y); VF_CHECK(x == y, "FilterChain<unit,mean,unit> differs from applying its members in order"); break; }
  case 9: { // a sequence of mean filters (e.g. one per disconnected pressure region): weights of the two members differ
    auto mk_mean2 = [&]() { DV p((Index)n), d((Index)n); std::vector<double> p2(prim), d2(dual); for(long i = 0; i < n; ++i) { p2[(size_t)i] = prim[(size_t)(n - 1 - i)] + 0.25; d2[(size_t)i] = dual[(size_t)(n - 1 - i)] * 1.5; } vfill_all(p, p2); vfill_all(d, d2); return MeanFilter<DT, IT>(std::move(p), std::move(d), DT(0)); };
    FilterSequence<MeanFilter<DT, IT>> sq; sq.push_back(std::make_pair(String("first"), mk_mean())); sq.push_back(std::make_pair(String("second"), mk_mean2()));
    DV a((Index)n), b((Index)n); vfill_all(a, va); vfill_all(b, va); apply_op(sq, a, op); auto m1 = mk_mean(); auto m2 = mk_mean2(); apply_op(m1, b, op); apply_op(m2, b, op);
    std::string x, y; vbytes(a, x); vbytes(b, y); VF_CHECK(x == y, "FilterSequence<mean> differs from applying its members in order"); break; }
  default: { NoneFilter<DT, IT> nf; DV a((Index)n); vfill_all(a, va); std::string x, y; vbytes(a, x); apply_op(nf, a, op); vbytes(a, y); VF_CHECK(x == y, "NoneFilter changed the vector"); break; }
  }
}

int main(int argc, char** argv)
{
  FEAT::Runtime::ScopeGuard guard(argc, argv);
  std::vector<Target> tg;
  tg.push_back({"unit" C06_SFX, unit_case, 96, 16});
  tg.push_back({"blocked" C06_SFX, [](Tape& t, Ctx& c) { if(t.flag()) blocked_case<2>(t, c); else blocked_case<3>(t, c); }, 96, 12});
  tg.push_back({"mean" C06_SFX, [](Tape& t, Ctx& c) { if(t.flag(1, 3)) mean_blocked_case(t, c); else mean_case(t, c); }, 96, 12});
  tg.push_back({"composed" C06_SFX, composed_case, 96, 8});
  return main_impl(argc, argv, tg);
}
