// C16: registration of the trace assembler targets (templates instantiated in c16_trace_2d.cpp / c16_trace_3d.cpp)
#include "c16_trace.hpp"
namespace c16
{
  void reg_trace(std::vector<vf::Target>& tg)
  {
    tg.push_back({"trace_quad", [](vf::Tape& t, vf::Ctx& c) { trace_target<Shape::Hypercube<2>, false>(t, c); }, 200, 2, 60000});
    tg.push_back({"trace_tria", [](vf::Tape& t, vf::Ctx& c) { trace_target<Shape::Simplex<2>, true>(t, c); }, 200, 2, 60000});
    tg.push_back({"trace_hexa", [](vf::Tape& t, vf::Ctx& c) { trace_target<Shape::Hypercube<3>, false>(t, c); }, 200, 2, 60000});
    tg.push_back({"trace_tetra", [](vf::Tape& t, vf::Ctx& c) { trace_target<Shape::Simplex<3>, true>(t, c); }, 200, 2, 60000});
  }
}
