// C12 multi-layered halo splitting targets for shape Hexa
#include "common/c12_split.hpp"
extern template mg::Loaded<mg::Hexa> mg::gen_node<mg::Hexa>(vf::Tape&, vf::Ctx&, const mg::GenOpts&, mg::GenInfo&);
void c12_register_split_hexa(std::vector<vf::Target>& tg) { c12::register_split<mg::Hexa>(tg); }
