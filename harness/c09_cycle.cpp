// C09 (a)+(b) on plain LAFEM containers (LAFEM::Transfer), double and float; see common/c09_cycle_core.hpp
#include "common/c09_cycle_core.hpp"

int main(int argc, char** argv)
{
  FEAT::Runtime::ScopeGuard guard(argc, argv);
  std::vector<Target> tg;
  // tape: hierarchy (matrices, transfers, operators) + steps
  tg.push_back({"cycle", [](Tape& t, Ctx& c) { if(t.pick({3, 1}) == 0) cycle_case<LocalBackend<double, std::uint64_t>>(t, c, 7, 4); else cycle_case<LocalBackend<float, std::uint32_t>>(t, c, 7, 4); }, 100, 2, 20000});
  return main_impl(argc, argv, tg);
}
