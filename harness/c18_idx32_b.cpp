// C18 (extension round) - idx32, 3D: instantiations of c18::run_case with index type std::uint32_t (see c18_idx32_a.cpp)
#include "c18_elems.hpp"
#include "c18_parts.hpp"
namespace c18 {
typedef std::uint32_t I32;
void idx32_hexa(vf::Tape& t, vf::Ctx& c, int idx, bool flt, bool big)
{
  typedef Shape::Hypercube<3> S;
  switch(idx)
  {
  case 0: if(flt) run_case<S, EL1, float, I32>(t, c, M_L1, big); else run_case<S, EL1, double, I32>(t, c, M_L1, big); break;
  case 1: run_case<S, EL2, double, I32>(t, c, M_L2, big); break;
  default: throw vf::Discard{"bad element index"};
  }
}
void idx32_tetra(vf::Tape& t, vf::Ctx& c, int idx, bool flt, bool big)
{
  typedef Shape::Simplex<3> S; (void)flt;
  switch(idx)
  {
  case 0: run_case<S, EL1, double, I32>(t, c, M_L1, big); break;
  case 1: run_case<S, EL2, double, I32>(t, c, M_L2, big); break;
  case 2: run_case<S, ED1, double, I32>(t, c, M_D1, big); break;
  default: throw vf::Discard{"bad element index"};
  }
}
}
