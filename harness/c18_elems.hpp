// C18 - element catalogue (aliases with a single template parameter and their meta data)
#pragma once
#include "c18_core.hpp"
#include <kernel/space/lagrange1/element.hpp>
#include <kernel/space/lagrange2/element.hpp>
#include <kernel/space/lagrange3/element.hpp>
#include <kernel/space/discontinuous/element.hpp>
#include <kernel/space/cro_rav_ran_tur/element.hpp>
#include <kernel/space/bernstein2/element.hpp>
#include <kernel/space/q1tbnp/element.hpp>

namespace c18
{
  template<typename T_> using EL1 = Space::Lagrange1::Element<T_>;
  template<typename T_> using EL2 = Space::Lagrange2::Element<T_>;
  template<typename T_> using EL3 = Space::Lagrange3::Element<T_>;
  template<typename T_> using ED0 = Space::Discontinuous::Element<T_, Space::Discontinuous::Variant::StdPolyP<0>>;
  template<typename T_> using ED1 = Space::Discontinuous::Element<T_, Space::Discontinuous::Variant::StdPolyP<1>>;
  template<typename T_> using ECR = Space::CroRavRanTur::Element<T_>;
  template<typename T_> using EB2 = Space::Bernstein2::Element<T_>;
  template<typename T_> using EQB = Space::Q1TBNP::Element<T_>;

  // name, k, kq, nested, lin_any, cfac
  // nestedness: Lagrange/Bernstein/discontinuous spaces on the standard (multilinear) transformation are nested under
  // regular refinement because the child transformation is the parent transformation composed with an affine map of the
  // reference cell; Crouzeix-Raviart/Rannacher-Turek and Q1TBNP are non-conforming and not nested (only linear
  // polynomials are reproduced, DESIGN C18)
  static const ElemMeta M_L1{"lagrange1", 1, 1, true, true, 8000};
  static const ElemMeta M_L2{"lagrange2", 2, 2, true, true, 20000};
  static const ElemMeta M_L3{"lagrange3", 3, 3, true, true, 200000};
  static const ElemMeta M_D0{"discontinuous0", 0, 0, true, false, 4000};
  static const ElemMeta M_D1{"discontinuous1", 1, 1, true, true, 50000};
  static const ElemMeta M_B2{"bernstein2", 2, 2, true, true, 200000};
  static const ElemMeta M_CRS{"crouzeix-raviart", 1, 1, false, true, 8000};
  static const ElemMeta M_CRH{"rannacher-turek", 1, 2, false, true, 20000};
  static const ElemMeta M_QB{"q1tbnp", 1, 2, false, true, 20000};
} // namespace c18
