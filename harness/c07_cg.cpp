// C07, group "cg": PCG, PCR, PMR, Chebyshev, PCGNR on local CSR systems (NoneFilter / UnitFilter)
#include "common/c07_case.hpp"
using namespace c07;

static int maxn() { const char* e = getenv("C07_MAXN"); int v = e ? atoi(e) : 60; return v < 3 ? 60 : v; }

int main(int argc, char** argv)
{
  FEAT::Runtime::ScopeGuard guard(argc, argv);
  std::vector<Target> tg;
  tg.push_back({"cg", [](Tape& t, Ctx& c) { target<G_CG, double, LocalBE>(t, c, {K_PCG, K_PCR, K_PMR, K_CHEB, K_PCGNR}, {4, 2, 2, 2, 2}, maxn()); }, 96, 2, 60000});
  // thorough tier: same decoder, systems up to n = 120
  tg.push_back({"cg_big", [](Tape& t, Ctx& c) { target<G_CG, double, LocalBE>(t, c, {K_PCG, K_PCR, K_PMR, K_CHEB, K_PCGNR}, {4, 2, 2, 2, 2}, 120); }, 96, 3, 120000});
  // the practice of tutorial_06_global: unit filter, system matrix left unfiltered, convergence claimed (the solver's own filter_def/filter_cor calls carry the constraints)
  tg.push_back({"cg_unfilt", [](Tape& t, Ctx& c) { c07::force_bits = 7; target<G_CG, double, LocalBE>(t, c, {K_PCG, K_PCR, K_PMR, K_CHEB, K_PCGNR}, {4, 2, 2, 2, 2}, maxn()); c07::force_bits = 0; }, 96, 2, 60000});
  return main_impl(argc, argv, tg);
}
