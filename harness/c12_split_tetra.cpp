// C12 multi-layered halo splitting targets for shape Tetra
#include "common/c12_split.hpp"
extern template mg::Loaded<mg::Tetra> mg::gen_node<mg::Tetra>(vf::Tape&, vf::Ctx&, const mg::GenOpts&, mg::GenInfo&);
void c12_register_split_tetra(std::vector<vf::Target>& tg) { c12::register_split<mg::Tetra>(tg); }
