// C13 layer (1) targets for shape Hexa (generator instantiated in c10_gen_hexa.cpp)
#include "common/c13_emul.hpp"
extern template mg::Loaded<mg::Hexa> mg::gen_node<mg::Hexa>(vf::Tape&, vf::Ctx&, const mg::GenOpts&, mg::GenInfo&);
void c13_register_hexa(std::vector<vf::Target>& tg)
{
  tg.push_back({"emul_hexa", [](vf::Tape& t, vf::Ctx& c) { switch(t.pick({3, 2, 2, 1})) {
    case 0: c13::Emul<mg::Hexa, FEAT::Space::Lagrange1::Element>::run(t, c, "lagrange1"); break;
    case 1: c13::Emul<mg::Hexa, FEAT::Space::Lagrange2::Element>::run(t, c, "lagrange2"); break;
    case 2: c13::Emul<mg::Hexa, FEAT::Space::CroRavRanTur::Element>::run(t, c, "crorav"); break;
    default: c13::Emul<mg::Hexa, c13::DiscP0>::run(t, c, "discontinuous-p0", false); } }, 192, 3, 60000});
}
