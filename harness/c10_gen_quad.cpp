// explicit instantiation of the shared mesh generator for shape Quad (mesh file reader, factories, shape conversion)
#include "common/mesh_gen.hpp"
template mg::Loaded<mg::Quad> mg::gen_node<mg::Quad>(vf::Tape&, vf::Ctx&, const mg::GenOpts&, mg::GenInfo&);
