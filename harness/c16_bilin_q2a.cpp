// C16: scalar bilinear operators on Hypercube<2> meshes, pair catalogue half 'a' (see c16_bilin.hpp)
#include "c16_bilin.hpp"
namespace c16 { template void bilin_pairs_a<Shape::Hypercube<2>>(vf::Tape&, vf::Ctx&, const RawMesh&, int); }
