// C09 (c): used as a solver on nested Poisson discretisations the residual reduction per multigrid cycle stays bounded
// away from 1 independently of the number of levels.  The feat3-heavy part lives in c09_conv_{quad,tria,hexa}.cpp.
#include "common/c09_conv_api.hpp"
#include <kernel/runtime.hpp>
using namespace vf;
using namespace c09;

namespace
{
  const char* shape_names[] = { "quad-Q1", "tria-P1", "hexa-Q1" };
  const char* cyc_names[] = { "V", "F", "W" };
  const char* adapt_names[] = { "fixed", "min_energy", "min_defect" };
  // rho_max per cycle.  DESIGN C09 proposed 0.5/0.35/0.2 from a 1-D calibration and asks to fix the numbers after calibrating
  // on the pinned tree: 960 (quick domain) + 3000 (deep domain) generated 2-D/3-D cases gave at most 0.341 (V) / 0.331 (F) /
  // 0.171 (W) for fixed and min-energy CGC (worst family: P1 on triangles, coarse mesh jittered by 10%, two Jacobi steps);
  // feat3's F-cycle visits the coarse levels less often than the textbook F-cycle, so its rate is close to the V-cycle's.
  // Bounds = observed maximum * ~1.4.
  const double rho_max[] = { 0.5, 0.45, 0.25 };
  // level independence: rho(L) <= rho(2) + 0.25 (the two-level rate on coarse problems of 25..41 unknowns is untypically
  // small: observed differences up to 0.193), and from the 5th level on every added level adds at most 0.1 (observed per-level
  // increments in the worst family decay 0.110/0.085/0.062/0.027; a first version demanded <= 0.08 from the 4th level on,
  // calibrated on 960 cases only, and raised a false alarm at 0.084 on a hierarchy whose rates were all below 0.21)
  const double level_slack = 0.25, level_increment = 0.1;
  // min-defect CGC minimises the defect norm and thereby under-relaxes the smooth error components (two-level rates 0.2-0.45,
  // up to 0.58 on 6 levels); the property promises level independence for the cycle as such, so for this variant only
  // convergence with a rate clearly below 1 is demanded
  const double rho_max_mindef = 0.8;

  /// deep: larger finest meshes (own target name, so that a replay file decodes identically in every tier)
  void conv_case(Tape& t, Ctx& c, bool g_thorough)
  {
    ConvParams p; int shape = t.pick({3, 2, 2});
    const int maxref = shape == 2 ? (g_thorough ? 5 : 4) : (g_thorough ? 7 : 6);
    // coarse mesh: refinement level 0 is the single cell (two triangles) whose vertices all lie on the Dirichlet boundary,
    // i.e. a coarse level without free dofs (what tutorial_05 builds for level_min = 0)
    static const int crs_tab[] = { 1, 2, 0, 3 }; p.crs_ref = crs_tab[t.range(0, shape == 2 ? 2 : 3)];
    const unsigned nlev_raw = t.raw();
    p.cyc = t.pick({1, 1, 1}); p.nu = 2 + t.range(0, 2);
    static const double om[] = { 0.7, 0.6, 0.8 }; int omk = t.range(0, 2);
    p.adapt = t.pick({3, 2, 1}); p.peak = t.flag() ? 1 : 0; p.jitter = t.pick({2, 1, 1}); p.seed = t.raw() % 1000u;
    // Domain fact (false alarm fixed): damped Jacobi is only a smoother while omega*lambda_max(D^-1 A) stays well below 2.
    // On coarse meshes jittered by 15% of the mesh width, omega = 0.8 amplified high-frequency modes on triangles and the
    // rate grew with every added level (0.09 -> 0.53) for fixed and adaptive CGC alike - a property of that smoother on
    // that hierarchy, not of the multigrid.  Jitter is limited to 10% and omega = 0.8 is only used on undistorted meshes.
    if(omk == 2 && p.jitter > 0) omk = 0;
    p.omega = om[omk];
    // known finding c09-adapt-zero-cor: on a coarse level without free dofs the coarse grid correction vanishes exactly and the
    // adaptive step length is 0/0.  Steering: adaptive CGC is then combined with the next finer coarse mesh.
    if(p.crs_ref == 0 && p.adapt != 0 && c.excl("c09-adapt-zero-cor")) p.crs_ref = 1;
    p.nlev = 2 + nlev_raw % (std::min(4, maxref - p.crs_ref - 1) + 1);
    c.desc.set("shape", shape_names[shape]); c.desc.set("coarse_refinement", p.crs_ref); c.desc.set("levels", p.nlev); c.desc.set("cycle", cyc_names[p.cyc]);
    c.desc.set("smoothing_steps", p.nu); c.desc.set("omega", p.omega); c.desc.set("adapt", adapt_names[p.adapt]); c.desc.set("peak_smoother", p.peak); c.desc.set("jitter", p.jitter); c.desc.set("seed", p.seed);
    c.label(std::string("shape:") + shape_names[shape]); c.label(std::string("cycle:") + cyc_names[p.cyc]); c.label("levels:" + std::to_string(p.nlev));
    c.label(std::string("adapt:") + adapt_names[p.adapt]); c.label(p.peak ? "peak:given" : "peak:pre+post"); c.label(p.jitter ? "mesh:jittered" : "mesh:regular"); c.label(p.crs_ref == 0 ? "coarse:no-free-dofs" : "coarse:ref" + std::to_string(p.crs_ref)); c.label("nu:" + std::to_string(p.nu));
    c.nontrivial = p.nlev >= 3; c.op = std::string("conv-") + cyc_names[p.cyc];
    c.announce();
    ConvFn fn[] = { conv_quad, conv_tria, conv_hexa };
    ConvResult r = fn[shape](p);
    // calibration aid (never set by the driver): C09_CALIB=<file> appends the measured rates instead of checking them
    if(const char* cal = getenv("C09_CALIB")) { FILE* f = fopen(cal, "a"); if(f) { fprintf(f, "%s c%d L%d %s nu%d om%.1f %s peak%d jit%d :", shape_names[shape], p.crs_ref, p.nlev, cyc_names[p.cyc], p.nu, p.omega, adapt_names[p.adapt], p.peak, p.jitter); for(size_t k = 0; k < r.rho.size(); ++k) fprintf(f, " %.4f(%d,%ld)", r.rho[k], r.cycles[k], r.dofs[k]); fprintf(f, "\n"); fclose(f); } return; }
    std::ostringstream os; for(size_t k = 0; k < r.rho.size(); ++k) os << (k ? " " : "") << (k + 2) << "lv:" << r.rho[k];
    const double bound = p.adapt == 2 ? rho_max_mindef : rho_max[p.cyc];
    for(size_t k = 0; k < r.rho.size(); ++k)
      VF_CHECK(r.rho[k] <= bound, cyc_names[p.cyc] << "-cycle on " << (k + 2) << " levels (" << r.dofs[k] << " dofs): defect reduction per cycle " << r.rho[k] << " exceeds " << bound << "; rates by depth: " << os.str());
    if(p.adapt != 2)
    {
      // reference depth: two levels; three where the coarse level has no free dofs (the two-level method is then just the smoother on one unknown)
      const size_t kref = (p.crs_ref == 0 && r.rho.size() > 1) ? 1 : 0;
      VF_CHECK(r.rho.back() <= r.rho[kref] + level_slack, cyc_names[p.cyc] << "-cycle: rate on " << p.nlev << " levels " << r.rho.back() << " exceeds the " << (kref + 2) << "-level rate " << r.rho[kref] << " by more than " << level_slack << "; rates by depth: " << os.str());
      for(size_t k = 3; k < r.rho.size(); ++k)
        VF_CHECK(r.rho[k] <= r.rho[k - 1] + level_increment, cyc_names[p.cyc] << "-cycle: going from " << (k + 1) << " to " << (k + 2) << " levels raises the rate by more than " << level_increment << "; rates by depth: " << os.str());
    }
  }
}

int main(int argc, char** argv)
{
  FEAT::Runtime::ScopeGuard guard(argc, argv);
  std::vector<Target> tg;
  tg.push_back({"conv", [](Tape& t, Ctx& c) { conv_case(t, c, false); }, 16, 0, 120000});
  tg.push_back({"conv_deep", [](Tape& t, Ctx& c) { conv_case(t, c, true); }, 16, 0, 300000});
  return main_impl(argc, argv, tg);
}
