// C09 (c): used as a solver on nested Poisson discretisations the residual reduction per multigrid cycle stays bounded
// away from 1 independently of the number of levels.  The feat3-heavy part lives in c09_conv_{quad,tria,hexa}.cpp.
#include "common/c09_conv_api.hpp"
#include <kernel/runtime.hpp>
using namespace vf;
using namespace c09;

namespace
{
  const char* shape_names[] = { "quad-Q1", "tria-P1", "hexa-Q1" };
  const char* cyc_names[] = { "V", "F", "W" };
  const char* adapt_names[] = { "fixed", "min_energy", "min_defect" };
  // rho_max per cycle: DESIGN C09 (1-D calibration 0.27/0.17/0.08 -> bounds 0.5/0.35/0.2); the 2-D/3-D calibration on the
  // pinned tree is recorded in findings/C09.md (largest observed values are below 60% of these bounds)
  const double rho_max[] = { 0.5, 0.35, 0.2 };
  const double level_slack = 0.1;

  /// deep: larger finest meshes (own target name, so that a replay file decodes identically in every tier)
  void conv_case(Tape& t, Ctx& c, bool g_thorough)
  {
    ConvParams p; int shape = t.pick({3, 2, 2});
    const int maxref = shape == 2 ? (g_thorough ? 5 : 4) : (g_thorough ? 7 : 6);
    p.crs_ref = 1 + t.range(0, shape == 2 ? 1 : 2);
    p.nlev = 2 + t.range(0, std::min(4, maxref - p.crs_ref - 1));
    p.cyc = t.pick({1, 1, 1}); p.nu = 2 + t.range(0, 2);
    static const double om[] = { 0.7, 0.8, 0.6 }; p.omega = om[t.range(0, 2)];
    p.adapt = t.pick({3, 1, 1}); p.peak = t.flag() ? 1 : 0; p.jitter = t.pick({2, 1, 1, 1}); p.seed = t.raw() % 1000u;
    c.desc.set("shape", shape_names[shape]); c.desc.set("coarse_refinement", p.crs_ref); c.desc.set("levels", p.nlev); c.desc.set("cycle", cyc_names[p.cyc]);
    c.desc.set("smoothing_steps", p.nu); c.desc.set("omega", p.omega); c.desc.set("adapt", adapt_names[p.adapt]); c.desc.set("peak_smoother", p.peak); c.desc.set("jitter", p.jitter); c.desc.set("seed", p.seed);
    c.label(std::string("shape:") + shape_names[shape]); c.label(std::string("cycle:") + cyc_names[p.cyc]); c.label("levels:" + std::to_string(p.nlev));
    c.label(std::string("adapt:") + adapt_names[p.adapt]); c.label(p.peak ? "peak:given" : "peak:pre+post"); c.label(p.jitter ? "mesh:jittered" : "mesh:regular"); c.label("nu:" + std::to_string(p.nu));
    c.nontrivial = p.nlev >= 3; c.op = std::string("conv-") + cyc_names[p.cyc];
    c.announce();
    ConvFn fn[] = { conv_quad, conv_tria, conv_hexa };
    ConvResult r = fn[shape](p);
    if(const char* cal = getenv("C09_CALIB")) { FILE* f = fopen(cal, "a"); if(f) { fprintf(f, "%s c%d L%d %s nu%d om%.1f %s peak%d jit%d :", shape_names[shape], p.crs_ref, p.nlev, cyc_names[p.cyc], p.nu, p.omega, adapt_names[p.adapt], p.peak, p.jitter); for(size_t k = 0; k < r.rho.size(); ++k) fprintf(f, " %.4f(%d,%ld)", r.rho[k], r.cycles[k], r.dofs[k]); fprintf(f, "\n"); fclose(f); } return; }
    std::ostringstream os; for(size_t k = 0; k < r.rho.size(); ++k) os << (k ? " " : "") << (k + 2) << "lv:" << r.rho[k];
    for(size_t k = 0; k < r.rho.size(); ++k)
      VF_CHECK(r.rho[k] <= rho_max[p.cyc], cyc_names[p.cyc] << "-cycle on " << (k + 2) << " levels (" << r.dofs[k] << " dofs): defect reduction per cycle " << r.rho[k] << " exceeds " << rho_max[p.cyc] << "; rates by depth: " << os.str());
    VF_CHECK(r.rho.back() <= r.rho.front() + level_slack, cyc_names[p.cyc] << "-cycle: rate on " << p.nlev << " levels " << r.rho.back() << " exceeds the two-level rate " << r.rho.front() << " by more than " << level_slack << "; rates by depth: " << os.str());
  }
}

int main(int argc, char** argv)
{
  FEAT::Runtime::ScopeGuard guard(argc, argv);
  std::vector<Target> tg;
  tg.push_back({"conv", [](Tape& t, Ctx& c) { conv_case(t, c, false); }, 16, 0, 120000});
  tg.push_back({"conv_deep", [](Tape& t, Ctx& c) { conv_case(t, c, true); }, 16, 0, 300000});
  return main_impl(argc, argv, tg);
}
