// C09 (c): P1 on triangles
#include "common/c09_conv_core.hpp"
namespace c09 { ConvResult conv_tria(const ConvParams& p) { return conv_run<FEAT::Shape::Triangle>(p); } }
