// C09 (c): Q1 on quadrilaterals
#include "common/c09_conv_core.hpp"
namespace c09 { ConvResult conv_quad(const ConvParams& p) { return conv_run<FEAT::Shape::Quadrilateral>(p); } }
