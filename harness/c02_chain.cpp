// C02: conversion / clone / transpose / permute / layout-rebuild histories preserve the matrix.
// A pool of slots holds containers of different kinds; a reference model (dense long-double matrix) is kept
// per slot; after every command every slot is re-read from its raw arrays, validated structurally and compared
// exactly with its model.
#include "common/lafem_gen.hpp"
#include <kernel/adjacency/permutation.hpp>
using namespace vf;

typedef SparseMatrixCSR<double, std::uint64_t> C64;
typedef SparseMatrixCSR<float, std::uint32_t> C32;
typedef SparseMatrixBCSR<double, std::uint64_t, 2, 2> B22;
typedef SparseMatrixBCSR<double, std::uint64_t, 2, 3> B23;
typedef SparseMatrixCSCR<double, std::uint64_t> SC;
typedef SparseMatrixBanded<double, std::uint64_t> BD;
typedef DenseMatrix<double, std::uint64_t> DM;
enum Kind { K_NONE = -1, K_C64 = 0, K_C32, K_B22, K_SC, K_BD, K_DM, K_B23, K_COUNT };
static const char* kind_name[] = {"csr<double,u64>", "csr<float,u32>", "bcsr<2,2>", "cscr", "banded", "dense", "bcsr<2,3>"};

struct Slot
{
  int kind = K_NONE; int vg = 0, ig = 0; /* sharing groups of value / index arrays */ C64 c64; C32 c32; B22 b22; B23 b23; SC sc; BD bd; DM dm; Dense model;
  void reset() { *this = Slot(); }
};

template<typename F> auto with(Slot& s, F f)
{
  switch(s.kind) { case K_C64: return f(s.c64); case K_C32: return f(s.c32); case K_B22: return f(s.b22); case K_SC: return f(s.sc); case K_BD: return f(s.bd); case K_B23: return f(s.b23); default: return f(s.dm); }
}

static Dense view(Slot& s) { return with(s, [](auto& m) { return dense_of(m); }); }

static void check_slot(Slot& s, int idx, const std::string& after)
{
  if(s.kind == K_NONE) return;
  Dense d = view(s); // includes the structural validator
  VF_CHECK(d.r == s.model.r && d.c == s.model.c, "slot " << idx << " (" << kind_name[s.kind] << ") after " << after << ": dims " << d.r << "x" << d.c << " expected " << s.model.r << "x" << s.model.c);
  for(long i = 0; i < d.r; ++i) for(long j = 0; j < d.c; ++j)
    VF_CHECK(d(i, j) == s.model(i, j), "slot " << idx << " (" << kind_name[s.kind] << ") after " << after << ": entry (" << i << "," << j << ") = " << (double)d(i, j) << " expected " << (double)s.model(i, j));
  s.model.stored = d.stored;   // the pattern may legitimately grow (e.g. banded stores whole diagonals): track the actual one
}

static long nnz_of(const Dense& d) { long n = 0; for(char c : d.stored) n += c; return n; }

static Adjacency::Permutation make_perm(Tape& t, Index n, std::vector<Index>& pos)
{
  pos.resize(n); for(Index i = 0; i < n; ++i) pos[i] = i;
  int cls = t.pick({3, 1, 1}); // random / identity / reversal
  if(cls == 0) for(Index i = n; i > 1; --i) { Index j = (Index)t.range(0, (int)i - 1); std::swap(pos[i - 1], pos[j]); }
  else if(cls == 2) std::reverse(pos.begin(), pos.end());
  return Adjacency::Permutation(n, Adjacency::Permutation::ConstrType::perm, pos.data());
}

/// clone semantics probe for a pair (src, clone)
template<typename M> static void clone_probe(M& src, M& cl, CloneMode mode, const char* kn)
{
  auto& se = src.get_elements(); auto& ce = cl.get_elements(); auto& si = src.get_indices(); auto& ci = cl.get_indices();
  VF_CHECK(se.size() == ce.size() && si.size() == ci.size(), "clone has a different number of arrays");
  VF_CHECK(src.get_scalar_index() == cl.get_scalar_index(), "clone of " << kn << " has different scalar index data");
  bool share_val = (mode == CloneMode::Shallow), share_idx = (mode == CloneMode::Shallow || mode == CloneMode::Layout || mode == CloneMode::Weak);
  for(size_t k = 0; k < se.size(); ++k) if(src.get_elements_size()[k] > 0)
  {
    VF_CHECK((se[k] == ce[k]) == share_val, "clone mode " << (int)mode << " of " << kn << ": value array " << k << (share_val ? " not shared" : " shared with the source"));
    // mutation probe
    auto old = se[k][0]; auto oldc = ce[k][0]; ce[k][0] = oldc + 1000; bool changed = !(se[k][0] == old); ce[k][0] = oldc; if(share_val) se[k][0] = old;
    VF_CHECK(changed == share_val, "clone mode " << (int)mode << " of " << kn << ": writing through the clone " << (changed ? "changed" : "did not change") << " the source values");
  }
  for(size_t k = 0; k < si.size(); ++k) if(src.get_indices_size()[k] > 0)
    VF_CHECK((si[k] == ci[k]) == share_idx, "clone mode " << (int)mode << " of " << kn << ": index array " << k << (share_idx ? " not shared" : " shared with the source"));
}

static void chain_case(Tape& t, Ctx& c)
{
  const int NS = 4; Slot pool[NS];
  // ---- initial container
  int k0 = t.pick({4, 1, 2, 2, 2, 1, 2});
  J hist = J::arr(); J init = J::obj(); init.set("kind", kind_name[k0]);
  int next_group = 1; Slot& s0 = pool[0]; s0.kind = k0; s0.vg = next_group++; s0.ig = next_group++;
  if(k0 == K_BD) { Band b = gen_band(t, 10, t.pick({3, 1})); init.set("A", b.json()); s0.bd = make_banded<double, std::uint64_t>(b); s0.model = dense_of_band<double>(b); c.label("init:banded"); }
  else
  {
    Pat p = gen_pattern(t, 10, t.pick({3, 1}), false, -1, k0 == K_DM ? 1 : 0); init.set("A", p.json()); c.label(std::string("pat:") + p.cls);
    switch(k0)
    {
    case K_C64: s0.c64 = make_csr<double, std::uint64_t>(p); s0.model = dense_of_pat<double>(p); break;
    case K_C32: s0.c32 = make_csr<float, std::uint32_t>(p); s0.model = dense_of_pat<float>(p); break;
    case K_B22: s0.b22 = make_bcsr<double, std::uint64_t, 2, 2>(p); s0.model = dense_of_pat<double>(p, 2, 2); break;
    case K_SC: s0.sc = make_cscr<double, std::uint64_t>(p); s0.model = dense_of_pat<double>(p); break;
    case K_B23: s0.b23 = make_bcsr<double, std::uint64_t, 2, 3>(p); s0.model = dense_of_pat<double>(p, 2, 3); break;
    default: s0.dm = make_densem<double, std::uint64_t>(p); s0.model = dense_of_pat<double>(p); for(auto& x : s0.model.stored) x = 1; break;
    }
    if(p.nnz() == 0) c.label("init:entry-free"); else if(p.has_empty_row()) c.label("init:has-empty-row");
    if(p.rows != p.cols) c.label("init:rectangular");
  }
  c.desc.set("init", init);
  int nops = t.sized(1, 8, 1);
  // decode the whole history first (so the description is complete before anything runs)
  struct Cmd { int op, src, dst, mode; std::vector<Index> p, q; };
  // the decode depends on the evolving slot kinds, so commands are decoded and executed step by step;
  // the description therefore carries the history executed so far and is announced before each step.
  bool edge = (nnz_of(s0.model) == 0) || s0.model.r != s0.model.c;
  bool has_empty_row = false; for(long i = 0; i < s0.model.r; ++i) { bool any = false; for(long j = 0; j < s0.model.c; ++j) any |= (bool)s0.model.st(i, j); if(!any) has_empty_row = true; }
  c.nontrivial = (nops >= 2 && nnz_of(s0.model) > 0) || edge || has_empty_row;
  check_slot(s0, 0, "construction");
  for(int step = 0; step < nops; ++step)
  {
    // pick a live source slot
    std::vector<int> live; for(int i = 0; i < NS; ++i) if(pool[i].kind != K_NONE) live.push_back(i);
    int si = live[(size_t)t.range(0, (int)live.size() - 1)]; Slot& src = pool[si];
    int di = t.range(0, NS - 1); if(di == si) di = (si + 1) % NS; Slot& dst = pool[di];
    // candidate operations for this kind
    enum { O_CLONE, O_MOVE, O_LAYOUT, O_TRANSPOSE, O_TRANSPOSE2, O_TRANSPOSE_INTO, O_TRANSPOSE_INPLACE, O_PERMUTE, O_TO_C32, O_TO_C64, O_TO_BD, O_TO_SC, O_GRAPH, O_SELF_CONVERT, O_XCLONE };
    std::vector<int> ops = {O_CLONE, O_MOVE, O_SELF_CONVERT};
    if(src.kind != K_DM) ops.push_back(O_LAYOUT);
    if(src.kind == K_C64 || src.kind == K_B22 || src.kind == K_DM) { ops.push_back(O_TRANSPOSE); ops.push_back(O_TRANSPOSE2); ops.push_back(O_TRANSPOSE_INTO); }
    if(src.kind == K_DM) { ops.push_back(O_TRANSPOSE_INTO); ops.push_back(O_TRANSPOSE_INPLACE); }
    if(src.kind == K_C64 || src.kind == K_B22 || src.kind == K_B23) { ops.push_back(O_PERMUTE); ops.push_back(O_PERMUTE); }
    if(src.kind == K_C64 || src.kind == K_B22) ops.push_back(O_XCLONE);
    if(src.kind == K_B22 || src.kind == K_B23) ops.push_back(O_TO_SC);   // generic SparseMatrixCSCR::convert(const MT_&) from a blocked source
    if(src.kind == K_C64) { ops.push_back(O_TO_C32); ops.push_back(O_TO_BD); ops.push_back(O_TO_SC); ops.push_back(O_GRAPH); }
    if(src.kind != K_C64 && src.kind != K_DM) { ops.push_back(O_TO_C64); ops.push_back(O_TO_C64); } // DenseMatrix offers no conversion to sparse formats
    int op = ops[(size_t)t.range(0, (int)ops.size() - 1)];
    bool entry_free = nnz_of(src.model) == 0;
    // in-place permutation rewrites the value and index arrays: relatives sharing them (shallow/weak/layout clones,
    // same-type converts, shared layouts) would change as documented - only unshared containers are permuted
    if(op == O_PERMUTE || op == O_TRANSPOSE_INPLACE) for(int i = 0; i < NS; ++i) if(i != si && pool[i].kind != K_NONE && (pool[i].vg == src.vg || pool[i].ig == src.ig)) { op = O_CLONE; break; }
    // known-finding classes switched off by the driver (exactly the failing class, nothing more)
    if(entry_free && src.kind == K_C64 && op == O_PERMUTE && c.excl("c02-csr-entryfree-permute")) op = O_CLONE;
    if(entry_free && (src.kind == K_B22 || src.kind == K_B23) && op == O_PERMUTE && c.excl("c02-bcsr-entryfree-permute")) op = O_CLONE;
    if(entry_free && src.kind == K_C64 && op == O_TO_BD && c.excl("c02-csr-entryfree-to-banded")) op = O_CLONE;
    if(entry_free && src.kind == K_C64 && op == O_TO_SC && c.excl("c02-csr-entryfree-to-cscr")) op = O_CLONE;
    if(entry_free && src.kind == K_C64 && op == O_GRAPH && c.excl("c02-csr-entryfree-graph")) op = O_CLONE;
    if(entry_free && src.kind == K_SC && op == O_TO_C64 && c.excl("c02-generic-convert-entryfree")) op = O_CLONE;
    if(entry_free && (src.kind == K_C64 || src.kind == K_B22) && (op == O_TRANSPOSE || op == O_TRANSPOSE2 || op == O_TRANSPOSE_INTO) && c.excl("c02-entryfree-transpose")) op = O_CLONE;
    J h = J::obj(); h.set("src", si); h.set("dst", di); h.set("src_kind", kind_name[src.kind]);
    std::string opname;
    switch(op)
    {
    case O_CLONE: {
      int mode = t.range(0, 4); static const char* mn[] = {"shallow", "layout", "weak", "deep", "allocate"};
      opname = std::string("clone:") + mn[mode]; h.set("op", opname); hist.add(h); c.desc.set("history", hist); c.op = opname + "@" + kind_name[src.kind]; c.label("op:" + opname); c.announce();
      dst.reset();
      with(src, [&](auto& m) {
        typedef std::decay_t<decltype(m)> M; M cl = m.clone((CloneMode)mode);
        VF_CHECK(cl.rows() == m.rows() && cl.columns() == m.columns() && cl.used_elements() == m.used_elements(), "clone has different dimensions");
        clone_probe(m, cl, (CloneMode)mode, kind_name[src.kind]);
        if((CloneMode)mode == CloneMode::Allocate) return;                 // index and value arrays are uninitialised by definition: nothing more to claim
        if((CloneMode)mode == CloneMode::Layout) cl.copy(m);               // values are uninitialised by definition: define them through copy()
        dst.kind = src.kind; dst.model = src.model; dst.vg = (mode == 0) ? src.vg : next_group++; dst.ig = (mode <= 2) ? src.ig : next_group++;
        if constexpr(std::is_same<M, C64>::value) dst.c64 = std::move(cl); else if constexpr(std::is_same<M, C32>::value) dst.c32 = std::move(cl);
        else if constexpr(std::is_same<M, B22>::value) dst.b22 = std::move(cl); else if constexpr(std::is_same<M, B23>::value) dst.b23 = std::move(cl); else if constexpr(std::is_same<M, SC>::value) dst.sc = std::move(cl);
        else if constexpr(std::is_same<M, BD>::value) dst.bd = std::move(cl); else dst.dm = std::move(cl);
      });
      // value independence of deep / weak / layout clones: change the clone, the source must keep its model values (checked below for all slots)
      if(dst.kind != K_NONE && mode != 0) with(dst, [&](auto& m) { for(size_t k = 0; k < m.get_elements().size(); ++k) if(m.get_elements_size()[k] > 0) { m.get_elements()[k][0] += 1; } });
      if(dst.kind != K_NONE && mode != 0) { Dense d2 = view(dst); dst.model.a = d2.a; }   // clone now holds different values; its own model follows
      break; }
    case O_MOVE: {
      opname = "move"; h.set("op", opname); hist.add(h); c.desc.set("history", hist); c.op = opname + "@" + kind_name[src.kind]; c.label("op:move"); c.announce();
      { int vg = src.vg, ig = src.ig; dst.reset(); dst.vg = vg; dst.ig = ig; } dst.kind = src.kind; dst.model = src.model;
      switch(src.kind) { case K_C64: dst.c64 = std::move(src.c64); break; case K_C32: dst.c32 = std::move(src.c32); break; case K_B22: dst.b22 = std::move(src.b22); break; case K_B23: dst.b23 = std::move(src.b23); break;
        case K_SC: dst.sc = std::move(src.sc); break; case K_BD: dst.bd = std::move(src.bd); break; default: dst.dm = std::move(src.dm); }
      src.reset();
      break; }
    case O_SELF_CONVERT: {
      // same-type convert: the result shares everything with the source (documented: assign)
      opname = "convert:same-type"; h.set("op", opname); hist.add(h); c.desc.set("history", hist); c.op = opname + "@" + kind_name[src.kind]; c.label("op:" + opname); c.announce();
      dst.reset(); dst.kind = src.kind; dst.model = src.model; dst.vg = src.vg; dst.ig = src.ig;
      switch(src.kind) { case K_C64: dst.c64.convert(src.c64); break; case K_C32: dst.c32.convert(src.c32); break; case K_B22: dst.b22.convert(src.b22); break; case K_B23: dst.b23.convert(src.b23); break;
        case K_SC: dst.sc.convert(src.sc); break; case K_BD: dst.bd.convert(src.bd); break; default: dst.dm.convert(src.dm); }
      break; }
    case O_LAYOUT: {
      opname = "layout-rebuild"; h.set("op", opname); hist.add(h); c.desc.set("history", hist); c.op = opname + "@" + kind_name[src.kind]; c.label("op:" + opname); c.announce();
      dst.reset(); dst.kind = src.kind; dst.model = src.model; dst.vg = next_group++; dst.ig = src.ig;
      { // construct from the layout, or ASSIGN the layout to an object that is empty or already holds arrays of its own
        const int lv = t.range(0, 2); static const char* lvn[] = {"layout:construct", "layout:assign-to-empty", "layout:assign-over-filled"}; c.label(lvn[lv]);
        auto rebuild = [&](auto& d, const auto& sm) { typedef std::decay_t<decltype(d)> M; if(lv == 0) d = M(sm.layout()); else { if(lv == 2) d = sm.clone(CloneMode::Deep); d = sm.layout(); } d.copy(sm); };
        switch(src.kind) { case K_C64: rebuild(dst.c64, src.c64); break; case K_C32: rebuild(dst.c32, src.c32); break; case K_B22: rebuild(dst.b22, src.b22); break; case K_B23: rebuild(dst.b23, src.b23); break;
          case K_SC: rebuild(dst.sc, src.sc); break; default: rebuild(dst.bd, src.bd); } }
      break; }
    case O_GRAPH: {
      opname = "graph-rebuild"; h.set("op", opname); hist.add(h); c.desc.set("history", hist); c.op = opname + "@" + kind_name[src.kind]; c.label("op:" + opname); c.announce();
      dst.reset(); dst.kind = K_C64; dst.model = src.model;
      Adjacency::Graph g(Adjacency::RenderType::as_is, src.c64);
      dst.c64 = C64(g);
      VF_CHECK(dst.c64.rows() == src.c64.rows() && dst.c64.columns() == src.c64.columns() && dst.c64.used_elements() == src.c64.used_elements(), "matrix rebuilt from graph has different dimensions");
      if(src.c64.used_elements() > 0) dst.c64.copy(src.c64);
      break; }
    case O_TRANSPOSE: case O_TRANSPOSE2: {
      bool twice = (op == O_TRANSPOSE2); opname = twice ? "transpose-twice" : "transpose"; h.set("op", opname); hist.add(h); c.desc.set("history", hist); c.op = opname + "@" + kind_name[src.kind]; c.label("op:" + opname); c.announce();
      dst.reset(); dst.kind = src.kind; dst.model = twice ? src.model : src.model.transposed();
      switch(src.kind) { case K_C64: dst.c64 = src.c64.transpose(); if(twice) dst.c64 = dst.c64.transpose(); break;
        case K_B22: dst.b22 = src.b22.transpose(); if(twice) dst.b22 = dst.b22.transpose(); break;
        default: dst.dm = src.dm.transpose(); if(twice) dst.dm = dst.dm.transpose(); }
      if(twice && src.kind != K_DM) { // double transpose keeps the pattern as well
        Dense d = view(dst); VF_CHECK(d.stored == src.model.stored || nnz_of(src.model) == 0, "double transpose changed the sparsity pattern"); }
      break; }
    case O_XCLONE: {
      // clone(other, Deep) INTO A CONTAINER OF ANOTHER DATA TYPE (same or other index type): the result owns all its arrays, so
      // permuting it in place must leave the source alone (and vice versa); the values are the casts of the source's
      const int it32 = t.range(0, 1); opname = std::string("clone-cross-type:deep:") + (it32 ? "float,u32" : "float,u64"); h.set("op", opname); hist.add(h); c.desc.set("history", hist); c.op = opname + "@" + kind_name[src.kind]; c.label("op:" + opname);
      long br = (src.kind == K_B22) ? 2 : 1; Index nr = Index(src.model.r / br), nc = Index(src.model.c / br);
      std::vector<Index> pp, qq; Adjacency::Permutation P, Q; if(nr > 0 && nc > 0) { P = make_perm(t, nr, pp); Q = make_perm(t, nc, qq); }
      h.set("p", J(std::vector<long>(pp.begin(), pp.end()))); h.set("q", J(std::vector<long>(qq.begin(), qq.end()))); c.announce();
      auto probe = [&](auto& cl, auto& sm) {
        cl.clone(sm, CloneMode::Deep);
        VF_CHECK(cl.rows() == sm.rows() && cl.columns() == sm.columns() && cl.used_elements() == sm.used_elements(), "cross-type deep clone has different dimensions");
        for(size_t k = 0; k < cl.get_indices().size() && k < sm.get_indices().size(); ++k) if(sm.get_indices_size()[k] > 0)
          VF_CHECK((const void*)cl.get_indices()[k] != (const void*)sm.get_indices()[k], "deep clone into another data type shares index array " << k << " with its source");
        { Dense d = dense_of(cl); VF_CHECK(d.r == src.model.r && d.c == src.model.c, "cross-type deep clone represents a matrix of other dimensions");
          for(long i = 0; i < d.r; ++i) for(long j = 0; j < d.c; ++j) { VF_CHECK((bool)d.st(i, j) == (bool)src.model.st(i, j), "cross-type deep clone: stored position (" << i << "," << j << ") differs"); VF_CHECK(d(i, j) == (long double)(float)(double)src.model(i, j), "cross-type deep clone: entry (" << i << "," << j << ") = " << (double)d(i, j) << " is not the cast of " << (double)src.model(i, j)); } }
        if(nr > 0 && nc > 0 && sm.used_elements() > 0) cl.permute(P, Q);   // in place on the clone only
      };
      if(src.kind == K_C64) { if(it32) { SparseMatrixCSR<float, std::uint32_t> cl; probe(cl, src.c64); } else { SparseMatrixCSR<float, std::uint64_t> cl; probe(cl, src.c64); } }
      else { if(it32) { SparseMatrixBCSR<float, std::uint32_t, 2, 2> cl; probe(cl, src.b22); } else { SparseMatrixBCSR<float, std::uint64_t, 2, 2> cl; probe(cl, src.b22); } }
      di = si; break; }   // the invariant below checks that the source (and everybody else) still represents its model
    case O_TRANSPOSE_INTO: {
      // two-argument form target.transpose(x) into a prepared target: empty, already of the transposed shape (storage re-use
      // branch of DenseMatrix; the 'refresh A^T after A changed' use), of the source's shape, or the source itself
      static const char* tn[] = {"empty", "transposed-shape", "source-shape", "self"};
      int prep = t.pick({1, 3, 1, 1}); if(prep == 3 && src.kind == K_B22) prep = 1;
      opname = std::string("transpose-into:") + tn[prep]; h.set("op", opname); hist.add(h); c.desc.set("history", hist); c.op = opname + "@" + kind_name[src.kind]; c.label("op:" + opname);
      if(src.model.r != src.model.c && src.model.r > 1 && src.model.c > 1) c.label("transpose-into:nonsquare"); c.announce();
      Dense mt = src.model.transposed();
      if(prep == 3) { // x and the target are the same object (the library does this itself: CSR temp.transpose(temp))
        bool shared = false; for(int i = 0; i < NS; ++i) if(i != si && pool[i].kind != K_NONE && (pool[i].vg == src.vg || pool[i].ig == src.ig)) shared = true;
        if(src.kind == K_C64) src.c64.transpose(src.c64); else src.dm.transpose(src.dm);
        // a square dense matrix is transposed within its own storage: relatives sharing the values would follow, so their
        // models would have to change too - in that case keep the history simple and transpose back
        if(shared && src.kind == K_DM && src.model.r == src.model.c) { src.dm.transpose(src.dm); }
        else { src.model = mt; if(!(src.kind == K_DM && mt.r == mt.c)) { src.vg = next_group++; src.ig = next_group++; } }
        di = si; break; }
      dst.reset(); dst.kind = src.kind; dst.model = mt;
      switch(src.kind) {
        case K_C64: if(prep == 1) { dst.c64 = src.c64.transpose(); for(Index k = 0; k < dst.c64.used_elements(); ++k) dst.c64.val()[k] += 1.0; } else if(prep == 2) dst.c64 = src.c64.clone(CloneMode::Deep); dst.c64.transpose(src.c64); break;
        case K_B22: if(prep == 1) { dst.b22 = src.b22.transpose(); for(Index k = 0; k < dst.b22.used_elements() * 4; ++k) dst.b22.template val<Perspective::pod>()[k] += 1.0; } else if(prep == 2) dst.b22 = src.b22.clone(CloneMode::Deep); dst.b22.transpose(src.b22); break;
        default: if(prep == 1) dst.dm = DM(Index(src.model.c), Index(src.model.r), 7.0); else if(prep == 2) dst.dm = DM(Index(src.model.r), Index(src.model.c), 7.0);
          dst.dm.transpose(src.dm);
          if(prep == 1) { // refresh: change the source, transpose into the same target again (re-use branch a second time), and back
            DM tmp(Index(src.model.r), Index(src.model.c), 5.0); dst.dm.transpose(tmp); dst.dm.transpose(src.dm); } }
      break; }
    case O_TRANSPOSE_INPLACE: {
      opname = "transpose-inplace"; h.set("op", opname); hist.add(h); c.desc.set("history", hist); c.op = opname + "@" + kind_name[src.kind]; c.label("op:" + opname); c.announce();
      src.dm.transpose_inplace(); src.model = src.model.transposed(); di = si; break; }
    case O_PERMUTE: {
      bool back = t.flag(); opname = back ? "permute+inverse" : "permute"; h.set("op", opname);
      long br = (src.kind == K_B22 || src.kind == K_B23) ? 2 : 1, bc = (src.kind == K_B22) ? 2 : (src.kind == K_B23 ? 3 : 1); Index nr = Index(src.model.r / br), nc = Index(src.model.c / bc);
      if(nr == 0 || nc == 0) { // Permutation(0, ...) asserts "cannot create empty permutation": empty permutations exist only default-constructed
        opname = "permute:empty-perm"; h.set("op", opname); hist.add(h); c.desc.set("history", hist); c.op = opname + "@" + kind_name[src.kind]; c.label("op:" + opname); c.announce();
        Adjacency::Permutation e1, e2; if(src.kind == K_C64) src.c64.permute(e1, e2); else if(src.kind == K_B22) src.b22.permute(e1, e2); else src.b23.permute(e1, e2); di = si; break; }
      std::vector<Index> pp, qq; Adjacency::Permutation P = make_perm(t, nr, pp), Q = make_perm(t, nc, qq);
      h.set("p", J(std::vector<long>(pp.begin(), pp.end()))); h.set("q", J(std::vector<long>(qq.begin(), qq.end())));
      hist.add(h); c.desc.set("history", hist); c.op = opname + "@" + kind_name[src.kind]; c.label("op:" + opname); c.announce();
      // in place on src: B(i,j) = A(p[i], q[j]) (block-wise for BCSR)
      Dense m(src.model.r, src.model.c);
      for(long i = 0; i < m.r; ++i) for(long j = 0; j < m.c; ++j) { long oi = (long)pp[(size_t)(i / br)] * br + i % br, oj = (long)qq[(size_t)(j / bc)] * bc + j % bc; m(i, j) = src.model(oi, oj); m.st(i, j) = src.model.st(oi, oj); }
      if(src.kind == K_C64) src.c64.permute(P, Q); else if(src.kind == K_B22) src.b22.permute(P, Q); else src.b23.permute(P, Q);
      Dense before = src.model; src.model = m; check_slot(src, si, opname + " (forward)");
      // the inverse is obtained through one of the three documented routes (chosen by the dimensions: no extra draw)
      auto inv_of = [&](const Adjacency::Permutation& X, int route) { if(X.size() == 0 || route == 0) return X.inverse();
        if(route == 1) return Adjacency::Permutation(X.size(), Adjacency::Permutation::ConstrType::inv_perm, X.get_perm_pos());
        return Adjacency::Permutation(X.size(), Adjacency::Permutation::ConstrType::inv_swap, X.get_swap_pos()); };
      static const char* rn[] = {"inverse()", "inv_perm", "inv_swap"}; const int rp = int((P.size() * 2 + Q.size()) % 3), rq = int((P.size() + Q.size() * 2 + 1) % 3);
      if(back) { c.label(std::string("inverse-route:") + rn[rp]); c.label(std::string("inverse-route:") + rn[rq]); Adjacency::Permutation Pi = inv_of(P, rp), Qi = inv_of(Q, rq); if(src.kind == K_C64) src.c64.permute(Pi, Qi); else if(src.kind == K_B22) src.b22.permute(Pi, Qi); else src.b23.permute(Pi, Qi); src.model = before; }
      di = si; break; }
    case O_TO_C32: {
      opname = "convert:csr<float,u32>"; h.set("op", opname); hist.add(h); c.desc.set("history", hist); c.op = opname + "@" + kind_name[src.kind]; c.label("op:" + opname); c.announce();
      dst.reset(); dst.kind = K_C32; dst.model = src.model; for(auto& x : dst.model.a) x = (long double)(float)(double)x;
      dst.c32.convert(src.c64); break; }
    case O_TO_BD: {
      opname = "convert:banded"; h.set("op", opname); hist.add(h); c.desc.set("history", hist); c.op = opname + "@" + kind_name[src.kind]; c.label("op:" + opname); c.announce();
      dst.reset(); dst.kind = K_BD; dst.model = src.model; dst.bd.convert(src.c64); break; }
    case O_TO_SC: {
      opname = "convert:cscr"; h.set("op", opname); hist.add(h); c.desc.set("history", hist); c.op = opname + "@" + kind_name[src.kind]; c.label("op:" + opname); c.announce();
      dst.reset(); dst.kind = K_SC; dst.model = src.model;
      if(src.kind == K_B22) dst.sc.convert(src.b22); else if(src.kind == K_B23) dst.sc.convert(src.b23); else dst.sc.convert(src.c64);
      if(nnz_of(src.model) > 0) { Dense d = view(dst); VF_CHECK(d.stored == src.model.stored, "CSR->CSCR changed the sparsity pattern"); }
      break; }
    default: { // O_TO_C64
      opname = "convert:csr<double,u64>"; h.set("op", opname); hist.add(h); c.desc.set("history", hist); c.op = opname + "@" + kind_name[src.kind]; c.label("op:" + opname); c.announce();
      dst.reset(); dst.kind = K_C64; dst.model = src.model;
      switch(src.kind) { case K_C32: dst.c64.convert(src.c32); break; case K_B22: dst.c64.convert(src.b22); break; case K_B23: dst.c64.convert(src.b23); break; case K_SC: dst.c64.convert(src.sc); break;
        default: dst.c64.convert(src.bd); }
      break; }
    }
    if(pool[di].kind != K_NONE && pool[di].vg == 0) { pool[di].vg = next_group++; pool[di].ig = next_group++; }
    // ---- invariant: every slot still represents its model (bystanders included)
    for(int i = 0; i < NS; ++i) check_slot(pool[i], i, opname + " (step " + std::to_string(step) + ")");
  }
  c.desc.set("history", hist);
}

int main(int argc, char** argv)
{
  FEAT::Runtime::ScopeGuard guard(argc, argv);
  std::vector<Target> tg;
  tg.push_back({"chain", chain_case, 96, 12});
  return main_impl(argc, argv, tg);
}
