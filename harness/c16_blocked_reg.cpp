// C16: registration of the blocked operator targets (templates instantiated in c16_blocked_<shape>.cpp)
#include "c16_blocked.hpp"
namespace c16
{
  void reg_blocked(std::vector<vf::Target>& tg)
  {
    tg.push_back({"blocked_quad", [](vf::Tape& t, vf::Ctx& c) { blocked_target<Shape::Hypercube<2>, false>(t, c); }, 200, 2, 60000});
    tg.push_back({"blocked_tria", [](vf::Tape& t, vf::Ctx& c) { blocked_target<Shape::Simplex<2>, true>(t, c); }, 200, 2, 60000});
    tg.push_back({"blocked_hexa", [](vf::Tape& t, vf::Ctx& c) { blocked_target<Shape::Hypercube<3>, false>(t, c); }, 200, 2, 60000});
    tg.push_back({"blocked_tetra", [](vf::Tape& t, vf::Ctx& c) { blocked_target<Shape::Simplex<3>, true>(t, c); }, 200, 2, 60000});
  }
}
