// C10: refinement conformity and mesh-part consistency - one binary, targets registered by the per-shape TUs
#include "common/vf.hpp"
#include <kernel/runtime.hpp>
void c10_register_quad(std::vector<vf::Target>&);
void c10_register_tria(std::vector<vf::Target>&);
void c10_register_hexa(std::vector<vf::Target>&);
void c10_register_tetra(std::vector<vf::Target>&);
int main(int argc, char** argv)
{
  FEAT::Runtime::ScopeGuard guard(argc, argv);
  std::vector<vf::Target> tg;
  c10_register_quad(tg); c10_register_tria(tg); c10_register_hexa(tg); c10_register_tetra(tg);
  return vf::main_impl(argc, argv, tg);
}
