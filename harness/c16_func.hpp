// c16_func.hpp - linear functionals (force / Laplace functional) on every route (LinearFunctionalAssembler cell loop,
// LinearFunctionalAssemblyJob, ForceFunctionalAssemblyJob; scalar and blocked vectors) and the function-integral jobs /
// error computers (integrate_analytic_function, integrate_discrete_function, integrate_error_function,
// ScalarErrorComputer, VectorErrorComputer) against exact integrals of polynomials.
#pragma once
#include "c16_core.hpp"
#include <kernel/assembly/linear_functional_assembler.hpp>
#include <kernel/assembly/common_functionals.hpp>
#include <kernel/assembly/domain_assembler.hpp>
#include <kernel/assembly/domain_assembler_helpers.hpp>
#include <kernel/assembly/error_computer.hpp>

namespace c16
{
  inline LD sqr(LD x) { return x * x; }

  template<typename Shape_, typename Tag, typename DT, typename IT>
  struct FuncCase
  {
    static constexpr int dim = Shape_::dimension;
    typedef Geometry::ConformalMesh<Shape_, dim, double> MeshType;
    typedef Trafo::Standard::Mapping<MeshType> TrafoType;
    typedef typename Tag::template S<TrafoType> SpaceType;
    typedef LAFEM::DenseVector<DT, IT> VectorType;
    typedef LAFEM::DenseVectorBlocked<DT, IT, dim> BVectorType;

    Tape& t; Ctx& c; const RawMesh& rm;
    FuncCase(Tape& t_, Ctx& c_, const RawMesh& m) : t(t_), c(c_), rm(m) {}

    void run()
    {
      const bool simplex = rm.simplex; const double kap = rm.kappa;
      // sub-target: 0 force functional scalar, 1 force functional blocked, 2 Laplace functional, 3 analytic integral,
      //             4 discrete integral (scalar), 5 error integral + ScalarErrorComputer, 6 discrete/error integral blocked + VectorErrorComputer
      const int sub = t.pick({4, 3, 2, 2, 3, 3, 3});
      static const char* sn[] = {"force", "force_blocked", "laplace_functional", "analytic_integral", "discrete_integral", "error_integral", "vector_integrals"};
      const int q = t.range(0, 3);                                // degree of the analytic function f
      const bool tens = !simplex && rm.axis_aligned && Tag::tensor && t.flag(1, 4);
      std::vector<Poly> F = gen_polys(t, dim, dim, q, false);     // f (component 0) resp. vector field
      std::vector<Poly> Vp = gen_polys(t, dim, dim, Tag::p, tens);  // test polynomial(s) / discrete function(s) in the space
      DT alpha; { static const double as[] = {1.0, -1.0, 2.0, 0.5}; int ak = t.pick({4, 1, 1, 1, 2}); alpha = ak < 4 ? DT(as[ak]) : DT(t.real_nz(2)); }
      const bool prefill = t.flag(1, 3);
      const int b = Tag::bdeg(simplex), na = rm.cells_affine ? 0 : dim - 1;
      int need;
      switch(sub) { case 0: case 1: need = b + q + na; break; case 2: need = b + std::max(0, q - 2) + na; break; case 3: need = 2 * q + na; break; case 4: need = 2 * b + na; break; default: need = 2 * std::max(b, q) + na; }
      const int cubdeg = std::min(cub_cap(rm), need + t.range(0, dim == 2 ? 2 : 1));
      const std::string cubname = "auto-degree:" + std::to_string(cubdeg);
      // exactness is entitled: cubature degree sufficient; P_k in the space (non-affine cells: parametric spaces flagged nonaffine_ok,
      // and only value-type integrands are polynomial there)
      const bool cub_ok = cubdeg >= need;
      const bool space_ok = rm.cells_affine || Tag::nonaffine_ok;

      auto mesh = make_feat_mesh<MeshType>(rm); TrafoType trafo(*mesh); SpaceType space(trafo);
      c.desc.set("mesh", rm.json()); c.desc.set("space", Tag::name()); c.desc.set("dt", TN<DT>::n()); c.desc.set("sub", sn[sub]); c.desc.set("f", polys_json(F)); c.desc.set("v", polys_json(Vp));
      c.desc.set("alpha", (double)alpha); c.desc.set("cubature", cubname); c.desc.set("prefill", prefill);
      label_mesh(c, rm); c.label(std::string("sub:") + sn[sub]); c.label(std::string("space:") + Tag::name()); c.label(std::string("dt:") + TN<DT>::n());
      c.label((cub_ok && space_ok) ? "oracle:exact" : "oracle:routes-only"); if(tens) c.label("poly:tensor"); if(prefill) c.label("route:accumulate");
      c.label("fdeg:" + std::to_string(q));
      c.op = std::string("func:") + sn[sub];
      c.nontrivial = !(F[0].is_zero()) && space.get_num_dofs() > 1;
      c.announce();

      Cubature::DynamicFactory cub(cubname);
      Assembly::DomainAssembler<TrafoType> da(trafo); da.compile_all_elements();
      const LD al = (LD)alpha;
      PolyFunction<dim> f0(F[0]); PolyVecFunction<dim, dim> fv(F);
      const Index nd = space.get_num_dofs();

      if(sub == 0 || sub == 2)
      {
        // ------------------------------------------------------------ scalar functionals on three routes
        const DT pre = prefill ? DT(0.75) : DT(0);
        VectorType b1(nd, pre), b2(nd, pre), b3(nd, pre);
        if(sub == 0)
        {
          Assembly::Common::ForceFunctional<PolyFunction<dim>> fun(f0);
          Assembly::LinearFunctionalAssembler::assemble_vector(b1, fun, space, cub, alpha);
          Assembly::assemble_linear_functional_vector(da, b2, fun, space, cubname, alpha);
          Assembly::assemble_force_function_vector(da, b3, f0, space, cubname, alpha);
        }
        else
        {
          Assembly::Common::LaplaceFunctional<PolyFunction<dim>> fun(f0);
          Assembly::LinearFunctionalAssembler::assemble_vector(b1, fun, space, cub, alpha);
          Assembly::assemble_linear_functional_vector(da, b2, fun, space, cubname, alpha);
          b3.copy(b2);
        }
        std::vector<LD> v1 = flat_of(b1), v2 = flat_of(b2), v3 = flat_of(b3);
        check_same_vec<DT>(v1, v2, kap, "assemble_linear_functional_vector (job) vs LinearFunctionalAssembler::assemble_vector");
        check_same_vec<DT>(v1, v3, kap, "assemble_force_function_vector (job) vs LinearFunctionalAssembler::assemble_vector");
        for(auto& x : v1) x -= (LD)pre;
        LD S = 0; for(LD x : v1) S += fabsl(x); S = std::max(S, (LD)fabsl((LD)pre));
        if(cub_ok && space_ok)
        {
          PolyFunction<dim> pv(Vp[0]); VectorType vh; Assembly::Interpolator::project(vh, pv, space); std::vector<LD> vs = flat_of(vh);
          const std::vector<QP> qp = mesh_qps(rm, q + Vp[0].degree());
          const Poly& ff = F[0]; const Poly& vv = Vp[0];
          LD ex;
          if(sub == 0) ex = al * integrate(qp, [&](const LD* x) { return ff.val<LD>(x) * vv.val<LD>(x); });
          else ex = al * integrate(qp, [&](const LD* x) { LD lap = 0; for(int a = 0; a < dim; ++a) lap += ff.der2<LD>(x, a, a); return -lap * vv.val<LD>(x); });
          LD got = 0; for(size_t i = 0; i < vs.size(); ++i) got += vs[i] * v1[i];
          const LD tol = tol_of<DT>(kap, maxabs(vs) * S);
          VF_CHECK(std::isfinite((double)got) && fabsl(got - ex) <= tol, sn[sub] << ": v^T b = " << (double)got << " but the exact functional value is " << (double)ex << " (tol " << (double)tol << ")");
        }
      }
      else if(sub == 1)
      {
        // ------------------------------------------------------------ vector-valued force, blocked vectors
        BVectorType b1(nd), b2(nd), b3(nd); const DT pre = prefill ? DT(-0.5) : DT(0); b1.format(pre); b2.format(pre); b3.format(pre);
        Assembly::Common::ForceFunctional<PolyVecFunction<dim, dim>> fun(fv);
        Assembly::LinearFunctionalAssembler::assemble_vector(b1, fun, space, cub, alpha);
        Assembly::assemble_linear_functional_vector(da, b2, fun, space, cubname, alpha);
        Assembly::assemble_force_function_vector(da, b3, fv, space, cubname, alpha);
        std::vector<LD> v1 = flat_of(b1), v2 = flat_of(b2), v3 = flat_of(b3);
        check_same_vec<DT>(v1, v2, kap, "blocked assemble_linear_functional_vector vs LinearFunctionalAssembler::assemble_vector");
        check_same_vec<DT>(v1, v3, kap, "blocked assemble_force_function_vector vs LinearFunctionalAssembler::assemble_vector");
        for(auto& x : v1) x -= (LD)pre;
        LD S = 0; for(LD x : v1) S += fabsl(x); S = std::max(S, (LD)fabsl((LD)pre));
        if(cub_ok && space_ok)
        {
          std::vector<LD> vs((size_t)nd * dim, 0.0L);
          for(int a = 0; a < dim; ++a) { PolyFunction<dim> pv(Vp[(size_t)a]); VectorType vh; Assembly::Interpolator::project(vh, pv, space); for(Index i = 0; i < nd; ++i) vs[(size_t)i * dim + (size_t)a] = (LD)vh.elements()[i]; }
          const std::vector<QP> qp = mesh_qps(rm, q + polys_degree(Vp));
          const LD ex = al * integrate(qp, [&](const LD* x) { LD s = 0; for(int a = 0; a < dim; ++a) s += F[(size_t)a].val<LD>(x) * Vp[(size_t)a].val<LD>(x); return s; });
          LD got = 0; for(size_t i = 0; i < vs.size(); ++i) got += vs[i] * v1[i];
          const LD tol = tol_of<DT>(kap, maxabs(vs) * S);
          VF_CHECK(std::isfinite((double)got) && fabsl(got - ex) <= tol, "force_blocked: v^T b = " << (double)got << " but the exact functional value is " << (double)ex << " (tol " << (double)tol << ")");
        }
        // ---- vector-valued Laplace functional (Tensor3 Hessians: the evaluator's own per-point state) on both routes and against the exact value
        {
          BVectorType c1(nd), c2(nd); c1.format(pre); c2.format(pre);
          Assembly::Common::LaplaceFunctional<PolyVecFunction<dim, dim>> lfun(fv);
          Assembly::LinearFunctionalAssembler::assemble_vector(c1, lfun, space, cub, alpha);
          Assembly::assemble_linear_functional_vector(da, c2, lfun, space, cubname, alpha);
          std::vector<LD> w1 = flat_of(c1), w2 = flat_of(c2);
          check_same_vec<DT>(w1, w2, kap, "blocked Laplace functional: assemble_linear_functional_vector vs LinearFunctionalAssembler::assemble_vector");
          for(auto& x : w1) x -= (LD)pre;
          LD S2 = 0; for(LD x : w1) S2 += fabsl(x); S2 = std::max(S2, (LD)fabsl((LD)pre));
          if(cub_ok && space_ok)
          {
            std::vector<LD> vs((size_t)nd * dim, 0.0L);
            for(int a = 0; a < dim; ++a) { PolyFunction<dim> pv(Vp[(size_t)a]); VectorType vh; Assembly::Interpolator::project(vh, pv, space); for(Index i = 0; i < nd; ++i) vs[(size_t)i * dim + (size_t)a] = (LD)vh.elements()[i]; }
            const std::vector<QP> qp = mesh_qps(rm, q + polys_degree(Vp));
            const LD ex = al * integrate(qp, [&](const LD* x) { LD s2 = 0; for(int a = 0; a < dim; ++a) { LD lap = 0; for(int b = 0; b < dim; ++b) lap += F[(size_t)a].template der2<LD>(x, b, b); s2 -= lap * Vp[(size_t)a].template val<LD>(x); } return s2; });
            LD got = 0; for(size_t i = 0; i < vs.size(); ++i) got += vs[i] * w1[i];
            const LD tol = tol_of<DT>(kap, maxabs(vs) * S2);
            VF_CHECK(std::isfinite((double)got) && fabsl(got - ex) <= tol, "laplace_blocked: v^T b = " << (double)got << " but the exact functional value is " << (double)ex << " (tol " << (double)tol << ")");
          }
        }
      }
      else if(sub == 3)
      {
        // ------------------------------------------------------------ integrals of an analytic function (no space involved)
        auto info = Assembly::integrate_analytic_function<2, DT>(da, f0, cubname);
        if(cub_ok)
        {
          const std::vector<QP> qp = mesh_qps(rm, 2 * q); const Poly& ff = F[0];
          const LD A1 = integrate(qp, [&](const LD* x) { return fabsl(ff.val<LD>(x)); });
          const LD ex_v = integrate(qp, [&](const LD* x) { return ff.val<LD>(x); });
          const LD ex_h0 = integrate(qp, [&](const LD* x) { return sqr(ff.val<LD>(x)); });
          LD ex_h1 = 0, sc_g = 0; LD ex_g[3] = {0, 0, 0};
          for(int a = 0; a < dim; ++a) { ex_g[a] = integrate(qp, [&](const LD* x) { return ff.der<LD>(x, a); }); ex_h1 += integrate(qp, [&](const LD* x) { return sqr(ff.der<LD>(x, a)); }); sc_g += integrate(qp, [&](const LD* x) { return fabsl(ff.der<LD>(x, a)); }); }
          VF_CHECK(fabsl((LD)info.value - ex_v) <= tol_of<DT>(kap, A1), "integrate_analytic_function: value " << (double)info.value << " exact " << (double)ex_v);
          VF_CHECK(fabsl((LD)info.norm_h0_sqr - ex_h0) <= tol_of<DT>(kap, ex_h0), "integrate_analytic_function: norm_h0_sqr " << (double)info.norm_h0_sqr << " exact " << (double)ex_h0);
          VF_CHECK(fabsl((LD)info.norm_h1_sqr - ex_h1) <= tol_of<DT>(kap, ex_h1), "integrate_analytic_function: norm_h1_sqr " << (double)info.norm_h1_sqr << " exact " << (double)ex_h1);
          for(int a = 0; a < dim; ++a) VF_CHECK(fabsl((LD)info.grad[a] - ex_g[a]) <= tol_of<DT>(kap, sc_g), "integrate_analytic_function: grad[" << a << "] " << (double)info.grad[a] << " exact " << (double)ex_g[a]);
          for(int a = 0; a < dim; ++a) for(int bb = 0; bb < dim; ++bb)
          {
            const LD ex_h = integrate(qp, [&](const LD* x) { return ff.der2<LD>(x, a, bb); }); const LD sc_h = integrate(qp, [&](const LD* x) { return fabsl(ff.der2<LD>(x, a, bb)); });
            VF_CHECK(fabsl((LD)info.hess[a][bb] - ex_h) <= tol_of<DT>(kap, sc_h), "integrate_analytic_function: hess[" << a << "][" << bb << "] " << (double)info.hess[a][bb] << " exact " << (double)ex_h);
          }
        }
      }
      else if(sub == 4 || sub == 5)
      {
        // ------------------------------------------------------------ discrete function u_h = I(u), u polynomial in the space; error e = f - u_h
        PolyFunction<dim> pu(Vp[0]); VectorType uh; Assembly::Interpolator::project(uh, pu, space);
        const Poly& uu = Vp[0]; const Poly& ff = F[0];
        const std::vector<QP> qp = mesh_qps(rm, 2 * std::max(q, uu.degree()));
        if(sub == 4)
        {
          auto info = Assembly::integrate_discrete_function<1>(da, uh, space, cubname);
          if(cub_ok && space_ok)
          {
            const LD A1 = integrate(qp, [&](const LD* x) { return fabsl(uu.val<LD>(x)); });
            const LD ex_v = integrate(qp, [&](const LD* x) { return uu.val<LD>(x); }); const LD ex_h0 = integrate(qp, [&](const LD* x) { return sqr(uu.val<LD>(x)); });
            VF_CHECK(fabsl((LD)info.value - ex_v) <= tol_of<DT>(kap, A1), "integrate_discrete_function: value " << (double)info.value << " exact " << (double)ex_v);
            VF_CHECK(fabsl((LD)info.norm_h0_sqr - ex_h0) <= tol_of<DT>(kap, ex_h0), "integrate_discrete_function: norm_h0_sqr " << (double)info.norm_h0_sqr << " exact " << (double)ex_h0);
            if(rm.cells_affine)
            {
              LD ex_h1 = 0, sc_g = 0;
              for(int a = 0; a < dim; ++a) { ex_h1 += integrate(qp, [&](const LD* x) { return sqr(uu.der<LD>(x, a)); }); sc_g += integrate(qp, [&](const LD* x) { return fabsl(uu.der<LD>(x, a)); }); }
              VF_CHECK(fabsl((LD)info.norm_h1_sqr - ex_h1) <= tol_of<DT>(kap, ex_h1 + ex_h0), "integrate_discrete_function: norm_h1_sqr " << (double)info.norm_h1_sqr << " exact " << (double)ex_h1);
              for(int a = 0; a < dim; ++a) { const LD eg = integrate(qp, [&](const LD* x) { return uu.der<LD>(x, a); }); VF_CHECK(fabsl((LD)info.grad[a] - eg) <= tol_of<DT>(kap, sc_g + A1), "integrate_discrete_function: grad[" << a << "] " << (double)info.grad[a] << " exact " << (double)eg); }
            }
          }
        }
        else
        {
          auto info = Assembly::integrate_error_function<1>(da, f0, uh, space, cubname);
          auto einf = Assembly::ScalarErrorComputer<1>::compute(uh, f0, space, cub);
          // both entry points compute the same two norms.  Scale: the error is a difference f - u_h, its rounding noise scales with
          // the parts (|f|^2 + |u|^2), not with the (possibly vanishing) difference
          {
            const LD p0 = integrate(qp, [&](const LD* x) { return sqr(ff.val<LD>(x)) + sqr(uu.val<LD>(x)); });
            LD p1 = p0; for(int a = 0; a < dim; ++a) p1 += integrate(qp, [&](const LD* x) { return sqr(ff.der<LD>(x, a)) + sqr(uu.der<LD>(x, a)); });
            const LD sc0 = std::max(p0, std::max((LD)info.norm_h0_sqr, sqr((LD)einf.norm_h0))), sc1 = std::max(p1, std::max((LD)info.norm_h1_sqr, sqr((LD)einf.norm_h1)));
            VF_CHECK(fabsl((LD)info.norm_h0_sqr - sqr((LD)einf.norm_h0)) <= 4 * tol_of<DT>(kap, sc0), "ScalarErrorComputer H0^2 " << (double)sqr((LD)einf.norm_h0) << " vs integrate_error_function " << (double)info.norm_h0_sqr);
            VF_CHECK(fabsl((LD)info.norm_h1_sqr - sqr((LD)einf.norm_h1)) <= 4 * tol_of<DT>(kap, sc1), "ScalarErrorComputer H1^2 " << (double)sqr((LD)einf.norm_h1) << " vs integrate_error_function " << (double)info.norm_h1_sqr);
          }
          if(cub_ok && space_ok && rm.cells_affine)
          {
            // scale: the error is a difference of two functions; rounding scales with the parts, not with the difference
            const LD part0 = integrate(qp, [&](const LD* x) { return sqr(ff.val<LD>(x)) + sqr(uu.val<LD>(x)); });
            LD part1 = 0, ex_h1 = 0; for(int a = 0; a < dim; ++a) { part1 += integrate(qp, [&](const LD* x) { return sqr(ff.der<LD>(x, a)) + sqr(uu.der<LD>(x, a)); }); ex_h1 += integrate(qp, [&](const LD* x) { return sqr(ff.der<LD>(x, a) - uu.der<LD>(x, a)); }); }
            const LD ex_h0 = integrate(qp, [&](const LD* x) { return sqr(ff.val<LD>(x) - uu.val<LD>(x)); });
            const LD ex_v = integrate(qp, [&](const LD* x) { return ff.val<LD>(x) - uu.val<LD>(x); }); const LD A1 = integrate(qp, [&](const LD* x) { return fabsl(ff.val<LD>(x)) + fabsl(uu.val<LD>(x)); });
            VF_CHECK(fabsl((LD)info.value - ex_v) <= tol_of<DT>(kap, A1), "integrate_error_function: value " << (double)info.value << " exact " << (double)ex_v);
            VF_CHECK(fabsl((LD)info.norm_h0_sqr - ex_h0) <= 4 * tol_of<DT>(kap, part0), "integrate_error_function: norm_h0_sqr " << (double)info.norm_h0_sqr << " exact " << (double)ex_h0);
            VF_CHECK(fabsl((LD)info.norm_h1_sqr - ex_h1) <= 4 * tol_of<DT>(kap, part1 + part0), "integrate_error_function: norm_h1_sqr " << (double)info.norm_h1_sqr << " exact " << (double)ex_h1);
            VF_CHECK(fabsl(sqr((LD)einf.norm_h0) - ex_h0) <= 4 * tol_of<DT>(kap, part0), "ScalarErrorComputer: norm_h0^2 " << (double)sqr((LD)einf.norm_h0) << " exact " << (double)ex_h0);
            VF_CHECK(fabsl(sqr((LD)einf.norm_h1) - ex_h1) <= 4 * tol_of<DT>(kap, part1 + part0), "ScalarErrorComputer: norm_h1^2 " << (double)sqr((LD)einf.norm_h1) << " exact " << (double)ex_h1);
          }
        }
      }
      else
      {
        // ------------------------------------------------------------ vector fields: blocked discrete function, error, VectorErrorComputer
        PolyVecFunction<dim, dim> pu(Vp); BVectorType uh; Assembly::Interpolator::project(uh, pu, space);
        auto dinf = Assembly::integrate_discrete_function<1>(da, uh, space, cubname);
        auto info = Assembly::integrate_error_function<1>(da, fv, uh, space, cubname);
        auto einf = Assembly::VectorErrorComputer<1>::compute(uh, fv, space, cub);
        {
          const std::vector<QP> qp0 = mesh_qps(rm, 2 * std::max(q, polys_degree(Vp)));
          LD p0 = 0, p1 = 0;
          for(int i = 0; i < dim; ++i) { const Poly& u = Vp[(size_t)i]; const Poly& f = F[(size_t)i]; p0 += integrate(qp0, [&](const LD* x) { return sqr(f.val<LD>(x)) + sqr(u.val<LD>(x)); });
            for(int a = 0; a < dim; ++a) p1 += integrate(qp0, [&](const LD* x) { return sqr(f.der<LD>(x, a)) + sqr(u.der<LD>(x, a)); }); }
          p1 += p0;
          const LD sc0 = std::max(p0, std::max((LD)info.norm_h0_sqr, sqr((LD)einf.norm_h0))), sc1 = std::max(p1, std::max((LD)info.norm_h1_sqr, sqr((LD)einf.norm_h1)));
          VF_CHECK(fabsl((LD)info.norm_h0_sqr - sqr((LD)einf.norm_h0)) <= 4 * tol_of<DT>(kap, sc0), "VectorErrorComputer H0^2 " << (double)sqr((LD)einf.norm_h0) << " vs integrate_error_function " << (double)info.norm_h0_sqr);
          VF_CHECK(fabsl((LD)info.norm_h1_sqr - sqr((LD)einf.norm_h1)) <= 4 * tol_of<DT>(kap, sc1), "VectorErrorComputer H1^2 " << (double)sqr((LD)einf.norm_h1) << " vs integrate_error_function " << (double)info.norm_h1_sqr);
        }
        if(cub_ok && space_ok && rm.cells_affine)
        {
          const std::vector<QP> qp = mesh_qps(rm, 2 * std::max(q, polys_degree(Vp)));
          LD d_h0 = 0, d_h1 = 0, e_h0 = 0, e_h1 = 0, part0 = 0, part1 = 0;
          for(int i = 0; i < dim; ++i)
          {
            const Poly& u = Vp[(size_t)i]; const Poly& f = F[(size_t)i];
            const LD h0 = integrate(qp, [&](const LD* x) { return sqr(u.val<LD>(x)); }); d_h0 += h0;
            VF_CHECK(fabsl((LD)dinf.norm_h0_sqr_comp[i] - h0) <= tol_of<DT>(kap, h0), "integrate_discrete_function (blocked): norm_h0_sqr_comp[" << i << "] " << (double)dinf.norm_h0_sqr_comp[i] << " exact " << (double)h0);
            const LD iv = integrate(qp, [&](const LD* x) { return u.val<LD>(x); }); const LD ia = integrate(qp, [&](const LD* x) { return fabsl(u.val<LD>(x)); });
            VF_CHECK(fabsl((LD)dinf.value[i] - iv) <= tol_of<DT>(kap, ia), "integrate_discrete_function (blocked): value[" << i << "] " << (double)dinf.value[i] << " exact " << (double)iv);
            e_h0 += integrate(qp, [&](const LD* x) { return sqr(f.val<LD>(x) - u.val<LD>(x)); }); part0 += integrate(qp, [&](const LD* x) { return sqr(f.val<LD>(x)) + sqr(u.val<LD>(x)); });
            for(int a = 0; a < dim; ++a)
            {
              d_h1 += integrate(qp, [&](const LD* x) { return sqr(u.der<LD>(x, a)); });
              e_h1 += integrate(qp, [&](const LD* x) { return sqr(f.der<LD>(x, a) - u.der<LD>(x, a)); }); part1 += integrate(qp, [&](const LD* x) { return sqr(f.der<LD>(x, a)) + sqr(u.der<LD>(x, a)); });
              const LD ig = integrate(qp, [&](const LD* x) { return u.der<LD>(x, a); }); const LD sg = integrate(qp, [&](const LD* x) { return fabsl(u.der<LD>(x, a)); });
              VF_CHECK(fabsl((LD)dinf.grad[i][a] - ig) <= tol_of<DT>(kap, sg + ia), "integrate_discrete_function (blocked): grad[" << i << "][" << a << "] " << (double)dinf.grad[i][a] << " exact " << (double)ig);
            }
          }
          const LD dv = integrate(qp, [&](const LD* x) { LD s = 0; for(int i = 0; i < dim; ++i) s += Vp[(size_t)i].der<LD>(x, i); return s * s; });
          VF_CHECK(fabsl((LD)dinf.norm_h0_sqr - d_h0) <= tol_of<DT>(kap, d_h0), "integrate_discrete_function (blocked): norm_h0_sqr " << (double)dinf.norm_h0_sqr << " exact " << (double)d_h0);
          VF_CHECK(fabsl((LD)dinf.norm_h1_sqr - d_h1) <= tol_of<DT>(kap, d_h1 + d_h0), "integrate_discrete_function (blocked): norm_h1_sqr " << (double)dinf.norm_h1_sqr << " exact " << (double)d_h1);
          VF_CHECK(fabsl((LD)dinf.divergence_l2_sqr - dv) <= 4 * tol_of<DT>(kap, d_h1 + d_h0), "integrate_discrete_function (blocked): divergence_l2_sqr " << (double)dinf.divergence_l2_sqr << " exact " << (double)dv);
          VF_CHECK(fabsl((LD)info.norm_h0_sqr - e_h0) <= 4 * tol_of<DT>(kap, part0), "integrate_error_function (blocked): norm_h0_sqr " << (double)info.norm_h0_sqr << " exact " << (double)e_h0);
          VF_CHECK(fabsl((LD)info.norm_h1_sqr - e_h1) <= 4 * tol_of<DT>(kap, part1 + part0), "integrate_error_function (blocked): norm_h1_sqr " << (double)info.norm_h1_sqr << " exact " << (double)e_h1);
        }
      }
    }
  };

  template<typename Shape_> void func_spaces(Tape& t, Ctx& c, const RawMesh& rm, int which)
  {
    typedef std::uint64_t I64;
    switch(which)
    {
    case 0: { FuncCase<Shape_, SL1, double, I64> k(t, c, rm); k.run(); break; }
    case 1: { FuncCase<Shape_, SL2, double, I64> k(t, c, rm); k.run(); break; }
    case 2: { FuncCase<Shape_, SCR, double, I64> k(t, c, rm); k.run(); break; }
    case 3: { FuncCase<Shape_, SD1, double, I64> k(t, c, rm); k.run(); break; }
    default: { FuncCase<Shape_, SL2, float, std::uint32_t> k(t, c, rm); k.run(); break; }
    }
  }
  extern template void func_spaces<Shape::Hypercube<2>>(Tape&, Ctx&, const RawMesh&, int); extern template void func_spaces<Shape::Simplex<2>>(Tape&, Ctx&, const RawMesh&, int);
  extern template void func_spaces<Shape::Hypercube<3>>(Tape&, Ctx&, const RawMesh&, int); extern template void func_spaces<Shape::Simplex<3>>(Tape&, Ctx&, const RawMesh&, int);

  template<typename Shape_, bool simplex_> void func_target(Tape& t, Ctx& c)
  {
    MeshOpts o; o.dim = Shape_::dimension; o.simplex = simplex_; o.max_n = (o.dim == 2 ? 4 : 2);
    const int which = t.pick({3, 3, 2, 2, 1});
    if(o.dim == 3) o.max_cells = 4;
    RawMesh rm = gen_mesh(t, o);
    func_spaces<Shape_>(t, c, rm, which);
  }
} // namespace c16
