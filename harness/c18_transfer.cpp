// C18: prolongation is exact on the coarse space; restriction is its transpose; truncation is a left inverse;
// matrix-free prolongation == assembled matrix; permuted meshes and the global/muxed transfer give the same functions.
// Targets: one per cell shape (+ "-big" variants with larger meshes for the thorough tier), "global" (control-layer
// assembly into Global::Transfer, muxer) and "cfmap" (CoarseFineCellMapping on structured meshes).
#include "c18_parts.hpp"
#include <kernel/runtime.hpp>
using namespace vf;

namespace
{
  typedef void (*PartFn)(Tape&, Ctx&, int, bool, bool);
  struct Entry { PartFn fn; int idx; bool has_float; int weight; };

  void dispatch(Tape& t, Ctx& c, const std::vector<Entry>& cat, bool big)
  {
    // 0 on the tape -> first entry (lagrange1), double
    long tot = 0; for(auto& e : cat) tot += e.weight;
    long r = long(t.raw() % uint32_t(tot)); size_t k = 0;
    for(; k < cat.size(); ++k) { if(r < cat[k].weight) break; r -= cat[k].weight; }
    const bool flt = t.flag(1, 4) && cat[k].has_float;
    cat[k].fn(t, c, cat[k].idx, flt, big);
  }
  const std::vector<Entry> cat_quad{{c18::quad_a, 0, true, 4}, {c18::quad_a, 1, true, 4}, {c18::quad_a, 2, false, 3}, {c18::quad_a, 3, false, 2},
    {c18::quad_b, 0, false, 1}, {c18::quad_b, 1, true, 2}, {c18::quad_b, 2, false, 2}, {c18::quad_b, 3, false, 2}};
  const std::vector<Entry> cat_tria{{c18::tria_a, 0, true, 4}, {c18::tria_a, 1, true, 4}, {c18::tria_a, 2, false, 3},
    {c18::tria_b, 0, false, 1}, {c18::tria_b, 1, true, 2}, {c18::tria_b, 2, false, 2}};
  const std::vector<Entry> cat_hexa{{c18::hexa_a, 0, true, 4}, {c18::hexa_a, 1, false, 3}, {c18::hexa_a, 2, false, 2},
    {c18::hexa_b, 0, false, 1}, {c18::hexa_b, 1, false, 2}, {c18::hexa_b, 2, false, 2}, {c18::hexa_b, 3, false, 2}};
  const std::vector<Entry> cat_tetra{{c18::tetra_a, 0, true, 4}, {c18::tetra_a, 1, false, 3}, {c18::tetra_a, 2, false, 2},
    {c18::tetra_b, 0, false, 1}, {c18::tetra_b, 1, false, 2}, {c18::tetra_b, 2, false, 2}};
}

int main(int argc, char** argv)
{
  FEAT::Runtime::ScopeGuard guard(argc, argv);
  std::vector<Target> tg;
  tg.push_back({"quad", [](Tape& t, Ctx& c) { dispatch(t, c, cat_quad, false); }, 64, 4, 20000});
  tg.push_back({"tria", [](Tape& t, Ctx& c) { dispatch(t, c, cat_tria, false); }, 64, 4, 20000});
  tg.push_back({"hexa", [](Tape& t, Ctx& c) { dispatch(t, c, cat_hexa, false); }, 64, 4, 20000});
  tg.push_back({"tetra", [](Tape& t, Ctx& c) { dispatch(t, c, cat_tetra, false); }, 64, 4, 20000});
  tg.push_back({"quad-big", [](Tape& t, Ctx& c) { dispatch(t, c, cat_quad, true); }, 96, 5, 60000});
  tg.push_back({"tria-big", [](Tape& t, Ctx& c) { dispatch(t, c, cat_tria, true); }, 96, 5, 60000});
  tg.push_back({"hexa-big", [](Tape& t, Ctx& c) { dispatch(t, c, cat_hexa, true); }, 96, 5, 60000});
  tg.push_back({"tetra-big", [](Tape& t, Ctx& c) { dispatch(t, c, cat_tetra, true); }, 96, 5, 60000});
  tg.push_back({"global", [](Tape& t, Ctx& c) { c18::global_case(t, c, false); }, 64, 4, 20000});
  tg.push_back({"global-big", [](Tape& t, Ctx& c) { c18::global_case(t, c, true); }, 96, 5, 60000});
  tg.push_back({"cfmap", [](Tape& t, Ctx& c) { c18::cfmap_case(t, c); }, 48, 1, 20000});
  return main_impl(argc, argv, tg);
}
