// C16: linear functionals and function-integral jobs on 2D meshes (see c16_func.hpp)
#include "c16_func.hpp"
namespace c16 { template void func_spaces<Shape::Hypercube<2>>(vf::Tape&, vf::Ctx&, const RawMesh&, int); template void func_spaces<Shape::Simplex<2>>(vf::Tape&, vf::Ctx&, const RawMesh&, int); }
