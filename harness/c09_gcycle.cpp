// C09 (a)+(b) on Global:: containers over a single-process gate: exercises kernel/global/transfer.hpp (no muxer: the
// non-ghost rest/prol paths plus sync_0), Global::Matrix/Vector/Filter inside the same MultiGrid template
#include "common/c09_cycle_core.hpp"
#include <kernel/global/gate.hpp>
#include <kernel/global/vector.hpp>
#include <kernel/global/matrix.hpp>
#include <kernel/global/filter.hpp>
#include <kernel/global/transfer.hpp>
#include <kernel/lafem/vector_mirror.hpp>

template<typename DT_, typename IT_> struct GlobalBackend
{
  typedef DT_ DT; typedef IT_ IT;
  typedef SparseMatrixCSR<DT, IT> LM; typedef DenseVector<DT, IT> LV; typedef UnitFilter<DT, IT> LF;
  typedef FEAT::LAFEM::VectorMirror<DT, IT> Mir; typedef FEAT::Global::Gate<LV, Mir> Gate;
  typedef FEAT::Global::Matrix<LM, Mir, Mir> M; typedef FEAT::Global::Vector<LV, Mir> V; typedef FEAT::Global::Filter<LF, Mir> F;
  typedef FEAT::Global::Transfer<FEAT::LAFEM::Transfer<LM>, Mir> T0;
  struct LevelCtx { FEAT::Dist::Comm comm; Gate gate; explicit LevelCtx(int n) : comm(FEAT::Dist::Comm::world()), gate(comm) { gate.compile(LV(Index(n))); } };
  static M make_matrix(LevelCtx& lc, LM&& m) { return M(&lc.gate, &lc.gate, std::move(m)); }
  static F make_filter(LevelCtx&, LF&& f) { return F(std::move(f)); }
  static V make_vector(LevelCtx& lc, int n, DT val) { return V(&lc.gate, Index(n), val); }
  static T0 make_transfer(LM&& p, LM&& r) { return T0(nullptr, std::move(p), std::move(r)); }
  static DT* data(V& v) { return v.local().elements(); }
  static const DT* data(const V& v) { return v.local().elements(); }
  static int size(const V& v) { return (int)v.local().size(); }
  static const LM& local(const M& m) { return m.local(); }
  static const char* name() { return "global"; }
};

int main(int argc, char** argv)
{
  FEAT::Runtime::ScopeGuard guard(argc, argv);
  std::vector<Target> tg;
  tg.push_back({"cycle_global", [](Tape& t, Ctx& c) { cycle_case<GlobalBackend<double, std::uint64_t>>(t, c, 7, 4); }, 100, 2, 20000});
  return main_impl(argc, argv, tg);
}
