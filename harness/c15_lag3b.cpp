// C15: Lagrange-3 on hexahedra and tetrahedra (edge and face dof orientation handling)
#include "c15_core.hpp"
#include <kernel/space/lagrange3/element.hpp>
using namespace c15;
typedef Shape::Hypercube<3> H3; typedef Shape::Simplex<3> S3;
template<typename S_> using Trf = Trafo::Standard::Mapping<Geometry::ConformalMesh<S_>>;

static void lagrange3_3d(Tape& t, Ctx& c)
{
  ElemCfg q = {"Lagrange3", 3, true, false, true, 3, 2, 2, 3, 3}, p = q; p.tensor = false;
  // Hessians: offered by the hexahedral evaluator (ref_caps), not by the tetrahedral one (ref_caps_3d)
  switch(t.pick({1, 1}))
  {
  case 0: Check<Space::Lagrange3::Element<Trf<H3>>, true, true, true>::run(t, c, q); break;
  default: Check<Space::Lagrange3::Element<Trf<S3>>, true, false, true>::run(t, c, p); break;
  }
}
C15_MAIN({"lagrange3_3d", lagrange3_3d, 96, 8, 30000})
