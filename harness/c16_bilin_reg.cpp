// C16: registration of the scalar bilinear operator targets (the heavy templates are instantiated in c16_bilin_<shape><half>.cpp)
#include "c16_bilin.hpp"
namespace c16
{
  void reg_bilin(std::vector<vf::Target>& tg)
  {
    tg.push_back({"bilin_quad", [](vf::Tape& t, vf::Ctx& c) { bilin_target<Shape::Hypercube<2>, false>(t, c); }, 200, 2, 60000});
    tg.push_back({"bilin_tria", [](vf::Tape& t, vf::Ctx& c) { bilin_target<Shape::Simplex<2>, true>(t, c); }, 200, 2, 60000});
    tg.push_back({"bilin_hexa", [](vf::Tape& t, vf::Ctx& c) { bilin_target<Shape::Hypercube<3>, false>(t, c); }, 200, 2, 60000});
    tg.push_back({"bilin_tetra", [](vf::Tape& t, vf::Ctx& c) { bilin_target<Shape::Simplex<3>, true>(t, c); }, 200, 2, 60000});
  }
}
