// C09 (c): Q1 on hexahedra
#include "common/c09_conv_core.hpp"
namespace c09 { ConvResult conv_hexa(const ConvParams& p) { return conv_run<FEAT::Shape::Hexahedron>(p); } }
