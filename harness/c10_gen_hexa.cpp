// explicit instantiation of the shared mesh generator for shape Hexa (mesh file reader, factories, shape conversion)
#include "common/mesh_gen.hpp"
template mg::Loaded<mg::Hexa> mg::gen_node<mg::Hexa>(vf::Tape&, vf::Ctx&, const mg::GenOpts&, mg::GenInfo&);
