// explicit instantiation of the shared mesh generator for shape Tetra (mesh file reader, factories, shape conversion)
#include "common/mesh_gen.hpp"
template mg::Loaded<mg::Tetra> mg::gen_node<mg::Tetra>(vf::Tape&, vf::Ctx&, const mg::GenOpts&, mg::GenInfo&);
