// C08 (scalar CSR): stationary preconditioners apply their defining linear operator, followed by the correction filter
#include "common/c08_core.hpp"
using namespace vf;

#define DISPATCH(B, maxn, kind) [](Tape& t, Ctx& c) { switch(t.pick({5, 2, 1, 1})) { \
  case 0: { c08::Runner<double, std::uint64_t, B> r(t, c); r.run(maxn, kind); break; } \
  case 1: { c08::Runner<float, std::uint32_t, B> r(t, c); r.run(maxn, kind); break; } \
  case 2: { c08::Runner<double, std::uint32_t, B> r(t, c); r.run(maxn, kind); break; } \
  default: { c08::Runner<float, std::uint64_t, B> r(t, c); r.run(maxn, kind); break; } } }

int main(int argc, char** argv)
{
  FEAT::Runtime::ScopeGuard guard(argc, argv);
  std::vector<Target> tg;
  tg.push_back({"csr", DISPATCH(1, 20, -1), 192, 16});
  tg.push_back({"csr_ilu", DISPATCH(1, 20, c08::K_ILU), 192, 16});
  tg.push_back({"csr_big", DISPATCH(1, 40, -1), 512, 48});   // thorough tier only
  return main_impl(argc, argv, tg);
}
