// C15: Lagrange-1 and Lagrange-2 on all five shapes
#include "c15_core.hpp"
#include <kernel/space/lagrange1/element.hpp>
#include <kernel/space/lagrange2/element.hpp>
using namespace c15;
typedef Shape::Hypercube<1> H1; typedef Shape::Hypercube<2> H2; typedef Shape::Hypercube<3> H3; typedef Shape::Simplex<2> S2; typedef Shape::Simplex<3> S3;
template<typename S_> using Trf = Trafo::Standard::Mapping<Geometry::ConformalMesh<S_>>;

static void lagrange1(Tape& t, Ctx& c)
{
  ElemCfg q = {"Lagrange1", 1, true, false, true, 3, 2, 2, 3, 2}, p = q; p.tensor = false;
  switch(t.pick({2, 1, 2, 2, 2}))
  {
  case 0: Check<Space::Lagrange1::Element<Trf<H2>>, true, false, true>::run(t, c, q); break;
  case 1: Check<Space::Lagrange1::Element<Trf<H1>>, true, false, true>::run(t, c, q); break;
  case 2: Check<Space::Lagrange1::Element<Trf<S2>>, true, false, true>::run(t, c, p); break;
  case 3: Check<Space::Lagrange1::Element<Trf<H3>>, true, false, true>::run(t, c, q); break;
  default: Check<Space::Lagrange1::Element<Trf<S3>>, true, false, true>::run(t, c, p); break;
  }
}
static void lagrange2(Tape& t, Ctx& c)
{
  ElemCfg q = {"Lagrange2", 2, true, false, true, 3, 2, 2, 3, 2}, p = q; p.tensor = false;
  switch(t.pick({2, 1, 2, 2, 2}))
  {
  case 0: Check<Space::Lagrange2::Element<Trf<H2>>, true, true, true>::run(t, c, q); break;
  case 1: Check<Space::Lagrange2::Element<Trf<H1>>, true, true, true>::run(t, c, q); break;
  case 2: Check<Space::Lagrange2::Element<Trf<S2>>, true, true, true>::run(t, c, p); break;
  case 3: Check<Space::Lagrange2::Element<Trf<H3>>, true, true, true>::run(t, c, q); break;
  default: Check<Space::Lagrange2::Element<Trf<S3>>, true, true, true>::run(t, c, p); break;
  }
}
C15_MAIN({"lagrange1", lagrange1, 96, 8, 30000}, {"lagrange2", lagrange2, 96, 8, 30000})
