// C12: partitions and halos - one binary, targets registered by the per-shape TUs
#include "common/vf.hpp"
#include <kernel/runtime.hpp>
#include <ctime>
void c12_register_quad(std::vector<vf::Target>&);
void c12_register_tria(std::vector<vf::Target>&);
void c12_register_hexa(std::vector<vf::Target>&);
void c12_register_tetra(std::vector<vf::Target>&);
void c12_register_split_quad(std::vector<vf::Target>&); void c12_register_split_tria(std::vector<vf::Target>&);
void c12_register_split_hexa(std::vector<vf::Target>&); void c12_register_split_tetra(std::vector<vf::Target>&);

// PartiIterative seeds its random generator with time(nullptr): the executable's own time() (which takes precedence over
// libc's) returns the tape-chosen value while c12_fake_time != 0, so that a case determines its partition
time_t c12_fake_time = 0;
extern "C" time_t time(time_t* t) noexcept
{
  time_t v = c12_fake_time;
  if(v == 0) { struct timespec ts; clock_gettime(CLOCK_REALTIME, &ts); v = ts.tv_sec; }
  if(t) *t = v;
  return v;
}

int main(int argc, char** argv)
{
  FEAT::Runtime::ScopeGuard guard(argc, argv);
  std::vector<vf::Target> tg;
  c12_register_quad(tg); c12_register_tria(tg); c12_register_hexa(tg); c12_register_tetra(tg); c12_register_split_quad(tg); c12_register_split_tria(tg); c12_register_split_hexa(tg); c12_register_split_tetra(tg);
  return vf::main_impl(argc, argv, tg);
}
