// C12: partitions and halos - one binary, targets registered by the per-shape TUs
#include "common/vf.hpp"
#include <kernel/runtime.hpp>
#include <ctime>
void c12_register_quad(std::vector<vf::Target>&);
void c12_register_tria(std::vector<vf::Target>&);
void c12_register_hexa(std::vector<vf::Target>&);
void c12_register_tetra(std::vector<vf::Target>&);
void c12_register_split_quad(std::vector<vf::Target>&); void c12_register_split_tria(std::vector<vf::Target>&);
void c12_register_split_hexa(std::vector<vf::Target>&); void c12_register_split_tetra(std::vector<vf::Target>&);

// PartiIterative seeds its random generator with time(nullptr): the executable's own time() (which takes precedence over
// libc's) returns the tape-chosen value while c12_fake_time != 0, so that a case determines its partition
time_t c12_fake_time = 0;
extern "C" time_t time(time_t* t) noexcept
{
  time_t v = c12_fake_time;
  if(v == 0) { struct timespec ts; clock_gettime(CLOCK_REALTIME, &ts); v = ts.tv_sec; }
  if(t) *t = v;
  return v;
}

// ---- surface meshes (shape dimension 2, three world coordinates): the patch meshes must carry ALL coordinates of the base vertices they map to
#include <kernel/geometry/conformal_mesh.hpp>
#include <kernel/geometry/mesh_node.hpp>
#include <kernel/geometry/mesh_part.hpp>
#include <kernel/adjacency/graph.hpp>
template<typename Shape_> static void c12_surf_case(vf::Tape& t, vf::Ctx& c, const char* sname)
{
  using FEAT::Index; typedef FEAT::Geometry::ConformalMesh<Shape_, 3, double> M; typedef FEAT::Geometry::RootMeshNode<M> Node; typedef FEAT::Geometry::MeshPart<M> Part;
  constexpr bool quad = std::is_same<Shape_, FEAT::Shape::Hypercube<2>>::value;
  const int nx = t.range(1, 4), ny = t.range(1, 3); const int nv = (nx + 1) * (ny + 1);
  std::vector<std::array<double, 3>> vtx((size_t)nv); for(int j = 0; j <= ny; ++j) for(int i = 0; i <= nx; ++i) vtx[(size_t)(j * (nx + 1) + i)] = {i + 0.125 * t.real(1), j + 0.125 * t.real(1), t.real(2)};
  std::vector<std::vector<Index>> cells; for(int j = 0; j < ny; ++j) for(int i = 0; i < nx; ++i) { Index a = Index(j * (nx + 1) + i), b = a + 1, d = a + Index(nx + 1), e = d + 1;
    if(quad) cells.push_back({a, b, d, e}); else { cells.push_back({a, b, d}); cells.push_back({b, e, d}); } }
  const int nc = int(cells.size()); const int R = t.range(1, std::min(4, nc)); std::vector<int> rank((size_t)nc); for(int k = 0; k < nc; ++k) rank[(size_t)k] = k < R ? k : t.range(0, R - 1);
  vf::J d = vf::J::obj(); d.set("surface", sname); d.set("nx", nx); d.set("ny", ny); d.set("ranks", R); { vf::J a = vf::J::arr(); for(int r : rank) a.add(r); d.set("cell_rank", a); } { vf::J a = vf::J::arr(); for(auto& v : vtx) { vf::J q = vf::J::arr(); q.add(v[0]); q.add(v[1]); q.add(v[2]); a.add(q); } d.set("vertices", a); }
  c.desc = d; c.op = "surface-extract"; c.label(std::string("surface:") + sname); c.label("ranks:" + std::to_string(R)); c.nontrivial = R >= 2; c.announce();
  Index ne[4] = {Index(nv), 0, Index(nc), 0}; std::unique_ptr<M> mesh(new M(ne));
  for(int i = 0; i < nv; ++i) for(int k = 0; k < 3; ++k) mesh->get_vertex_set()[Index(i)][k] = vtx[(size_t)i][(size_t)k];
  { auto& is = mesh->template get_index_set<2, 0>(); for(int q = 0; q < nc; ++q) for(int k = 0; k < is.num_indices; ++k) is[Index(q)][k] = cells[(size_t)q][(size_t)k]; }
  mesh->deduct_topology_from_top();
  std::unique_ptr<Node> base(new Node(std::move(mesh)));
  const Index gR = Index(R), gN = Index(nc); FEAT::Adjacency::Graph g(gR, gN, gN); { Index* ptr = g.get_domain_ptr(); Index* idx = g.get_image_idx(); Index o = 0; for(int r = 0; r < R; ++r) { ptr[r] = o; for(int q = 0; q < nc; ++q) if(rank[(size_t)q] == r) idx[o++] = Index(q); } ptr[R] = o; }
  std::vector<std::unique_ptr<Node>> ps; std::vector<std::vector<int>> comm((size_t)R); for(int r = 0; r < R; ++r) ps.push_back(base->extract_patch(comm[(size_t)r], g, r));
  auto check = [&](const Node& b, int level)
  {
    for(int r = 0; r < R; ++r)
    {
      const Part* pp = b.get_patch(r); VF_CHECK(pp != nullptr, "level " << level << ": base node has no patch mesh-part for rank " << r);
      VF_CHECK(ps[(size_t)r] && ps[(size_t)r]->get_mesh(), "level " << level << ": no patch mesh for rank " << r); const M& pm = *ps[(size_t)r]->get_mesh();
      long want = 0; for(int q : rank) if(q == r) ++want; for(int l = 0; l < level; ++l) want *= 4;
      VF_CHECK(long(pm.get_num_elements()) == want, "level " << level << ": patch " << r << " has " << pm.get_num_elements() << " cells, " << want << " expected");
      const auto& ts = pp->template get_target_set<0>(); VF_CHECK(ts.get_num_entities() == pm.get_num_vertices(), "level " << level << ": patch " << r << " has " << pm.get_num_vertices() << " vertices, its mesh-part maps " << ts.get_num_entities());
      for(Index i = 0; i < pm.get_num_vertices(); ++i) for(int k = 0; k < 3; ++k) { const double a = pm.get_vertex_set()[i][k], w = b.get_mesh()->get_vertex_set()[ts[i]][k];
        VF_CHECK(std::fabs(a - w) <= 1e-13 * (1.0 + std::fabs(w)), "level " << level << ": patch " << r << " vertex " << i << " coordinate " << k << " = " << a << ", base vertex " << ts[i] << " has " << w); }
    }
  };
  check(*base, 0);
  base = base->refine_unique(FEAT::Geometry::AdaptMode::none); for(auto& p : ps) p = p->refine_unique(FEAT::Geometry::AdaptMode::none);
  check(*base, 1);
}

int main(int argc, char** argv)
{
  FEAT::Runtime::ScopeGuard guard(argc, argv);
  std::vector<vf::Target> tg;
  c12_register_quad(tg); c12_register_tria(tg); c12_register_hexa(tg); c12_register_tetra(tg); c12_register_split_quad(tg); c12_register_split_tria(tg); c12_register_split_hexa(tg); c12_register_split_tetra(tg);
  tg.push_back({"surf_parti", [](vf::Tape& t, vf::Ctx& c) { if(t.flag(1, 2)) c12_surf_case<FEAT::Shape::Hypercube<2>>(t, c, "quad-in-3d"); else c12_surf_case<FEAT::Shape::Simplex<2>>(t, c, "tria-in-3d"); }, 96, 2, 30000});
  return vf::main_impl(argc, argv, tg);
}
