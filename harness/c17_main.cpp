// C17: threaded domain assembly - entry point shared by the plain and the ThreadSanitizer flavour.
// The targets live in c17_sched.cpp (synthetic instrumented job) and c17_real.cpp (real feat3 jobs); they are
// separate translation units only to keep the cold build short (compiled in parallel).
#include "common/vf.hpp"
#include <kernel/runtime.hpp>
#include <atomic>
#include <unistd.h>
#include <sys/syscall.h>
void c17_register_sched(std::vector<vf::Target>& tg, const std::string& prefix);
void c17_register_real(std::vector<vf::Target>& tg, const std::string& prefix);
#if defined(__SANITIZE_THREAD__)
namespace c17 { std::atomic<int>& tsan_reports(); std::string& tsan_first(); int& verdict_fd(); }
extern "C" int __tsan_get_report_data(void* report, const char** description, int* count, int* stack_count, int* mop_count, int* loc_count,
                                      int* mutex_count, int* thread_count, int* unique_tid_count, void** sleep_trace, unsigned long trace_size);
// Reports are taken from the runtime's weak hook because vf children leave with _exit(). The first report ends the
// case at once (verdict line written here, like VF_FAIL would): every further report of the same race would only
// cost time (report generation dominates the run time of a failing case and thereby the shrinking time).
extern "C" void __tsan_on_report(void* report)
{
  const char* what = nullptr; int count = 0, stacks = 0, mops = 0, locs = 0, mutexes = 0, threads = 0, utids = 0; void* sleep_trace[1] = { nullptr };
  __tsan_get_report_data(report, &what, &count, &stacks, &mops, &locs, &mutexes, &threads, &utids, sleep_trace, 1);
  if(c17::tsan_reports().fetch_add(1) == 0)
  {
    c17::tsan_first() = what ? what : "report";
    int fd = c17::verdict_fd();
    if(fd >= 0)
    {
      std::string s = std::string("V{\"verdict\":\"fail\",\"sym\":\"mismatch:ThreadSanitizer reported ") + c17::tsan_first() + " during a threaded assemble()\",\"overrun\":0}\n";
      (void)!write(fd, s.data(), s.size()); syscall(SYS_exit_group, 0); _exit(0);
    }
  }
}
static const char* const prefix = "tsan_";
#else
static const char* const prefix = "";
#endif
int main(int argc, char** argv)
{
  FEAT::Runtime::ScopeGuard guard(argc, argv);
  std::vector<vf::Target> tg;
  c17_register_sched(tg, prefix);
  c17_register_real(tg, prefix);
  return vf::main_impl(argc, argv, tg);
}
