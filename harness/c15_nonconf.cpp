// C15: non-conforming elements: Crouzeix-Raviart / Rannacher-Turek, Q1~-bnp, CaiDouSanSheYe
#include "c15_core.hpp"
#include <kernel/space/cro_rav_ran_tur/element.hpp>
#include <kernel/space/q1tbnp/element.hpp>
#include <kernel/space/cai_dou_san_she_ye/element.hpp>
using namespace c15;
typedef Shape::Hypercube<2> H2; typedef Shape::Hypercube<3> H3; typedef Shape::Simplex<2> S2; typedef Shape::Simplex<3> S3;
template<typename S_> using Trf = Trafo::Standard::Mapping<Geometry::ConformalMesh<S_>>;

static void crorav(Tape& t, Ctx& c)
{
  // P1 on any cell: parametric P1 on simplices, non-parametric rotated Q1 on quadrilaterals/hexahedra
  ElemCfg e = {"CroRavRanTur", 1, false, false, false, 3, 2, 2, 3, 2};
  switch(t.pick({2, 2, 2, 2}))
  {
  case 0: Check<Space::CroRavRanTur::Element<Trf<H2>>, true, false, true>::run(t, c, e); break;
  case 1: Check<Space::CroRavRanTur::Element<Trf<S2>>, true, false, true>::run(t, c, e); break;
  case 2: Check<Space::CroRavRanTur::Element<Trf<H3>>, true, false, true>::run(t, c, e); break;
  default: Check<Space::CroRavRanTur::Element<Trf<S3>>, true, false, true>::run(t, c, e); break;
  }
}
static void q1tbnp(Tape& t, Ctx& c)
{
  ElemCfg e = {"Q1TBNP", 1, false, false, false, 3, 2, 2, 3, 2, {nullptr, nullptr, nullptr, nullptr, nullptr}}, e3 = e;
  // known finding: the hexahedral evaluator's gradients miss the mixed terms (findings/C15.md #1)
  e3.excl[3] = "c15-q1tbnp3d-grad";
  switch(t.pick({1, 1}))
  {
  case 0: Check<Space::Q1TBNP::Element<Trf<H2>>, true, false, true>::run(t, c, e); break;
  default: Check<Space::Q1TBNP::Element<Trf<H3>>, true, false, true>::run(t, c, e3); break;
  }
}
static void cdssy(Tape& t, Ctx& c)
{
  // known finding: bubble basis function (2.25 xy) and bubble functional (1/4 int f xy) are not normalised against each other (findings/C15.md #2)
  ElemCfg e = {"CaiDouSanSheYe", 1, false, true, false, 3, 2, 2, 3, 2, {nullptr, "c15-cdssy-bubble-dual", nullptr, nullptr, nullptr}};
  Check<Space::CaiDouSanSheYe::Element<Trf<H2>>, true, false, true>::run(t, c, e);
}
C15_MAIN({"crorav", crorav, 96, 8, 30000}, {"q1tbnp", q1tbnp, 96, 8, 30000}, {"cdssy", cdssy, 96, 8, 30000})
