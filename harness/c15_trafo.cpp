// C15 (4): transformations - image point / Jacobian / Hessian tensor against an own long-double multilinear map,
// det J integrates to the cell volume, inverse mapping returns the reference point; iso-parametric trafo without charts
// must coincide with the first-order map.
#include "c15_mesh.hpp"
#include <kernel/trafo/standard/mapping.hpp>
#include <kernel/trafo/isoparam/mapping.hpp>
#include <kernel/trafo/inverse_mapping.hpp>
using namespace c15;
using vf::Tape; using vf::Ctx; using vf::J;
typedef Shape::Hypercube<1> H1; typedef Shape::Hypercube<2> H2; typedef Shape::Hypercube<3> H3; typedef Shape::Simplex<2> S2; typedef Shape::Simplex<3> S3;

static const LD G3P[3] = {-0.774596669241483377035853079956479922L, 0.0L, 0.774596669241483377035853079956479922L};
static const LD G3W[3] = {5.0L / 9.0L, 8.0L / 9.0L, 5.0L / 9.0L};

/// geometric cell volume, independent of any Jacobian: simplices det/d!, segments length, quadrilaterals shoelace,
/// hexahedra by the divergence theorem over the six bilinear faces
template<typename Shape_> LD geo_volume(const CellGeo<Shape_>& g)
{
  typedef Ref<Shape_> R; constexpr int dim = R::dim;
  if constexpr(R::simplex)
  {
    LD Jm[dim][dim]; for(int i = 0; i < dim; ++i) for(int a = 0; a < dim; ++a) Jm[i][a] = g.X[a + 1][i] - g.X[0][i];
    LD f = 1; for(int k = 2; k <= dim; ++k) f *= k; return CellGeo<Shape_>::det(Jm) / f;
  }
  else if constexpr(dim == 1) return g.X[1][0] - g.X[0][0];
  else if constexpr(dim == 2)
  {
    int o[4] = {0, 1, 3, 2}; LD s = 0; for(int k = 0; k < 4; ++k) { const LD* p = g.X[o[k]]; const LD* q = g.X[o[(k + 1) % 4]]; s += p[0] * q[1] - q[0] * p[1]; } return s / 2;
  }
  else
  {
    // V = 1/3 sum_faces int x . (x_a cross x_b) da db, (a,b) cyclic after the face axis, sign = side
    LD c0[3] = {0, 0, 0}; for(int k = 0; k < 8; ++k) for(int i = 0; i < 3; ++i) c0[i] += g.X[k][i] / 8; // shift to the centre (conditioning)
    LD V = 0;
    for(int ax = 0; ax < 3; ++ax) for(int sd = 0; sd < 2; ++sd)
    {
      int a = (ax + 1) % 3, b = (ax + 2) % 3;
      for(int qa = 0; qa < 3; ++qa) for(int qb = 0; qb < 3; ++qb)
      {
        LD xi[3]; xi[ax] = sd ? 1 : -1; xi[a] = G3P[qa]; xi[b] = G3P[qb];
        LD x[3], Jm[3][3]; g.map(xi, x); g.jac(xi, Jm); for(int i = 0; i < 3; ++i) x[i] -= c0[i];
        LD ta[3] = {Jm[0][a], Jm[1][a], Jm[2][a]}, tb[3] = {Jm[0][b], Jm[1][b], Jm[2][b]};
        LD cr[3] = {ta[1] * tb[2] - ta[2] * tb[1], ta[2] * tb[0] - ta[0] * tb[2], ta[0] * tb[1] - ta[1] * tb[0]};
        V += (sd ? 1 : -1) * G3W[qa] * G3W[qb] * (x[0] * cr[0] + x[1] * cr[1] + x[2] * cr[2]) / 3;
      }
    }
    return V;
  }
}

template<typename Shape_, typename Trafo_> struct TrafoCheck
{
  typedef Ref<Shape_> R; static constexpr int dim = R::dim;
  typedef Geometry::ConformalMesh<Shape_> MeshType;
  typedef typename Trafo_::template Evaluator<Shape_, double>::Type TE;
  static constexpr TrafoTags tags = TrafoTags::img_point | TrafoTags::jac_mat | TrafoTags::jac_det | TrafoTags::jac_inv | TrafoTags::hess_ten;
  typedef typename TE::template ConfigTraits<tags>::EvalDataType TD;

  static void run(Tape& t, Ctx& c, const char* tname, double ulp_fac, bool with_inv)
  {
    c.desc.set("trafo", tname); c.desc.set("shape", R::name()); c.label(std::string("trafo:") + tname + ":" + R::name());
    int op = with_inv ? t.pick({3, 2, 3}) : t.pick({3, 2});
    static const char* opn[3] = {"eval", "volume", "invmap"};
    c.op = opn[op]; c.desc.set("op", c.op); c.label(std::string("op:") + c.op);
    GenOpt go;
    bool big = false;
    if(op == 2)
    {
      // known finding c15-invmap-abs-tol: Newton's absolute tolerance eps^0.9 cannot be met once |x| >~ 10
      big = !c.excl("c15-invmap-abs-tol");
      go.allow_scale = big;
    }
    MeshData<Shape_> md = gen_mesh<Shape_>(t, c, go);
    c.desc.set("mesh", md.desc);
    MeshType mesh(build_mesh(md)); Trafo_ trafo(mesh);
    const int nc = md.nc(); Index cell = Index(t.range(0, nc - 1));
    double xi[3] = {0, 0, 0}; std::string pl = gen_ref_point<Shape_>(t, xi); c.label(pl);
    c.desc.set("cell", (long long)cell); { J q = J::arr(); for(int j = 0; j < dim; ++j) q.add(xi[j]); c.desc.set("pt", q); }
    c.nontrivial = true;
    c.announce();
    auto geo = md.geo(int(cell));
    LD M = 0; for(int k = 0; k < R::nv; ++k) for(int i = 0; i < dim; ++i) M = std::max(M, std::fabs(geo.X[k][i]));
    const LD u = std::numeric_limits<double>::epsilon() / 2;
    const LD tolx = LD(ulp_fac) * u * M; // rounding of an nv-term combination of coordinates of magnitude M (2.11, K=8 folded into ulp_fac)
    TE te(trafo); TD td;
    if(op == 0)
    {
      te.prepare(cell);
      typename TE::DomainPointType p; for(int j = 0; j < dim; ++j) p[j] = xi[j];
      te(td, p);
      LD xl[3], x[3], Jm[dim][dim], H[dim][dim][dim]; for(int j = 0; j < dim; ++j) xl[j] = LD(xi[j]);
      geo.map(xl, x); geo.jac(xl, Jm); geo.hess(xl, H);
      LD jmax = 0;
      for(int i = 0; i < dim; ++i) VF_CHECK(std::fabs(LD(td.img_point[i]) - x[i]) <= tolx, "image point component " << i << " = " << td.img_point[i] << " differs from the multilinear map " << double(x[i]) << " by " << double(LD(td.img_point[i]) - x[i]) << " tol " << double(tolx));
      for(int i = 0; i < dim; ++i) for(int a = 0; a < dim; ++a)
      {
        jmax = std::max(jmax, std::fabs(Jm[i][a]));
        VF_CHECK(std::fabs(LD(td.jac_mat(i, a)) - Jm[i][a]) <= tolx, "jacobian entry (" << i << "," << a << ") = " << td.jac_mat(i, a) << " but d x_" << i << "/d xi_" << a << " = " << double(Jm[i][a]) << " tol " << double(tolx));
      }
      for(int i = 0; i < dim; ++i) for(int a = 0; a < dim; ++a) for(int b = 0; b < dim; ++b)
        VF_CHECK(std::fabs(LD(td.hess_ten(i, a, b)) - H[i][a][b]) <= tolx, "hessian tensor entry (" << i << "," << a << "," << b << ") = " << td.hess_ten(i, a, b) << " but second derivative = " << double(H[i][a][b]) << " tol " << double(tolx));
      LD dt = CellGeo<Shape_>::det(Jm); LD dfac = 1; for(int k = 1; k < dim; ++k) dfac *= jmax * k;
      LD told = 4 * dim * dfac * tolx + 8 * u * std::fabs(dt);
      // jac_det is the volume element (documented: "Jacobian determinant integrates to the cell volume"): for a reversed 1D cell
      // (x_v0 > x_v1, the only negatively oriented cells the generator makes) it is |det J|
      if(dim == 1 && dt < 0) dt = -dt;
      VF_CHECK(std::fabs(LD(td.jac_det) - dt) <= told, "jac_det = " << td.jac_det << " but det of the Jacobian = " << double(dt) << " tol " << double(told));
      VF_CHECK(td.jac_det > 0, "jac_det not positive on a positively oriented cell: " << td.jac_det);
      // J * J^-1 = I (residual bounded by cond(J) * rounding; the geometry classes keep cond(J) <= ~100)
      LD Ji[dim][dim]; CellGeo<Shape_>::inv(Jm, Ji); LD imax = 0; for(int i = 0; i < dim; ++i) for(int a = 0; a < dim; ++a) imax = std::max(imax, std::fabs(Ji[i][a]));
      for(int i = 0; i < dim; ++i) for(int a = 0; a < dim; ++a)
      {
        LD tol = 64 * dim * u * imax * (1 + jmax * imax) + dim * imax * imax * tolx * 4;
        VF_CHECK(std::fabs(LD(td.jac_inv(i, a)) - Ji[i][a]) <= tol, "jac_inv entry (" << i << "," << a << ") = " << td.jac_inv(i, a) << " but inverse Jacobian = " << double(Ji[i][a]) << " tol " << double(tol));
      }
      te.finish();
    }
    else if(op == 1)
    {
      // per cell: volume() and own Gauss quadrature of the returned jac_det against the geometric volume; total against the lattice box
      LD tot = 0;
      for(int q = 0; q < nc; ++q)
      {
        auto gq = md.geo(q); LD Mq = 0; for(int k = 0; k < R::nv; ++k) for(int i = 0; i < dim; ++i) Mq = std::max(Mq, std::fabs(gq.X[k][i]));
        LD V = geo_volume(gq); LD dq = gq.diam();
        VF_CHECK(V > 0, "harness: generated cell with non-positive volume");
        // relative error of a volume computed from coordinate differences: dim * eps * M / diam (cancellation), times ulp_fac
        LD tol = LD(ulp_fac) * 4 * dim * u * (1 + Mq / dq) * V * 4;
        te.prepare(Index(q));
        LD integ = 0;
        if constexpr(R::simplex)
        {
          typename TE::DomainPointType p; for(int j = 0; j < dim; ++j) p[j] = double(R::centre(j)); te(td, p);
          LD f = 1; for(int k = 2; k <= dim; ++k) f *= k; integ = LD(td.jac_det) / f;
        }
        else
        {
          int nq = 1; for(int j = 0; j < dim; ++j) nq *= 3;
          for(int k = 0; k < nq; ++k)
          {
            typename TE::DomainPointType p; LD w = 1; int kk = k; for(int j = 0; j < dim; ++j) { p[j] = double(G3P[kk % 3]); w *= G3W[kk % 3]; kk /= 3; }
            te(td, p); integ += w * LD(td.jac_det);
          }
        }
        VF_CHECK(std::fabs(integ - V) <= tol, "integral of jac_det over the reference cell = " << double(integ) << " but volume of cell " << q << " = " << double(V) << " diff " << double(integ - V) << " tol " << double(tol));
        LD vv = LD(te.volume());
        VF_CHECK(std::fabs(vv - V) <= tol, "volume() = " << double(vv) << " but volume of cell " << q << " = " << double(V) << " diff " << double(vv - V) << " tol " << double(tol));
        te.finish(); tot += V;
      }
      if(md.lattice_affine)
      {
        LD Lm[dim][dim]; for(int i = 0; i < dim; ++i) for(int j = 0; j < dim; ++j) Lm[i][j] = LD(md.lin[i][j]);
        LD box = CellGeo<Shape_>::det(Lm); const J* g = md.desc.get("grid"); for(auto& x : g->a) box *= LD(x.i);
        VF_CHECK(std::fabs(tot - box) <= 1e-10L * box, "harness: cell volumes " << double(tot) << " do not add up to the lattice box " << double(box));
      }
    }
    else
    {
      if constexpr(std::is_same<Trafo_, Trafo::Standard::Mapping<MeshType>>::value)
      {
        c.label(big ? "invmap:any-scale" : "invmap:unit-scale");
        te.prepare(cell);
        typename TE::DomainPointType p; for(int j = 0; j < dim; ++j) p[j] = xi[j];
        te(td, p);
        auto x = td.img_point;
        te.finish();
        Trafo::InverseMapping<Trafo_, double> inv(trafo);
        // (a) Newton on the cell the point came from
        typename Trafo::InverseMapping<Trafo_, double>::DomainPointType dp;
        bool conv = inv.unmap_point_by_newton(dp, x, cell);
        VF_CHECK(conv, "unmap_point_by_newton did not converge on the cell the point was mapped from (cell " << cell << ", |x|max=" << double(M) << ")");
        // tolerance: the unit test of feat3 accepts sqrt(eps); Newton stops at |F(xi)-x| < eps^0.9 => |dxi| <= |J^-1| eps^0.9
        double dist = 0; for(int j = 0; j < dim; ++j) dist = std::max(dist, std::fabs(dp[j] - xi[j]));
        VF_CHECK(dist <= 1.5e-8, "unmap_point_by_newton returned " << dp << " for reference point (" << xi[0] << "," << xi[1] << "," << xi[2] << "): distance " << dist);
        // (b) search over all cells (candidate cells on which Newton fails are skipped as in feat3's own test)
        auto res = inv.unmap_point(x, true);
        bool found = false;
        for(std::size_t k = 0; k < res.size(); ++k)
        {
          Index cc = res.cells[k]; VF_CHECK(cc < Index(nc), "unmap_point returned cell " << cc << " out of range");
          // every returned (cell, point) must map back onto x
          auto gk = md.geo(int(cc)); LD xl[3], y[3]; for(int j = 0; j < dim; ++j) xl[j] = LD(res.dom_points[k][j]); gk.map(xl, y);
          for(int i = 0; i < dim; ++i) VF_CHECK(std::fabs(y[i] - LD(x[i])) <= 1e-8L * geo.diam() + 64 * u * M, "unmap_point returned a point of cell " << cc << " that does not map onto the image point: component " << i << " " << double(y[i]) << " vs " << x[i]);
          VF_CHECK(R::inside(xl, 1.1e-4L), "unmap_point returned a point outside the reference cell (domain_tol 1e-4)");
          if(cc == cell) { found = true; double d2 = 0; for(int j = 0; j < dim; ++j) d2 = std::max(d2, std::fabs(res.dom_points[k][j] - xi[j])); VF_CHECK(d2 <= 1.5e-8, "unmap_point: reference point on the origin cell is off by " << d2); }
        }
        VF_CHECK(found, "unmap_point did not find the cell the point was mapped from (cell " << cell << ", " << res.size() << " cells returned)");
      }
    }
  }
};

template<typename S_> using Std = Trafo::Standard::Mapping<Geometry::ConformalMesh<S_>>;
template<typename S_, int k_> using Iso = Trafo::Isoparam::Mapping<Geometry::ConformalMesh<S_>, k_>;

static void trafo_std(Tape& t, Ctx& c)
{
  switch(t.pick({2, 1, 2, 2, 2}))
  {
  case 0: TrafoCheck<H2, Std<H2>>::run(t, c, "standard", 64.0, true); break;
  case 1: TrafoCheck<H1, Std<H1>>::run(t, c, "standard", 64.0, false); break;
  case 2: TrafoCheck<S2, Std<S2>>::run(t, c, "standard", 64.0, true); break;
  case 3: TrafoCheck<H3, Std<H3>>::run(t, c, "standard", 64.0, true); break;
  default: TrafoCheck<S3, Std<S3>>::run(t, c, "standard", 64.0, true); break;
  }
}
static void trafo_iso(Tape& t, Ctx& c)
{
  // without charts the iso-parametric nodes are the multilinear images of the lattice points, so the map is the first-order map
  switch(t.pick({2, 2, 2, 1, 1, 1, 1, 1, 1}))
  {
  case 0: TrafoCheck<H2, Iso<H2, 2>>::run(t, c, "isoparam2", 512.0, false); break;
  case 1: TrafoCheck<H2, Iso<H2, 3>>::run(t, c, "isoparam3", 512.0, false); break;
  case 2: TrafoCheck<H3, Iso<H3, 2>>::run(t, c, "isoparam2", 512.0, false); break;
  case 3: TrafoCheck<H3, Iso<H3, 3>>::run(t, c, "isoparam3", 512.0, false); break;
  case 4: TrafoCheck<H2, Iso<H2, 1>>::run(t, c, "isoparam1", 512.0, false); break;
  case 5: TrafoCheck<H3, Iso<H3, 1>>::run(t, c, "isoparam1", 512.0, false); break;
  case 6: TrafoCheck<H1, Iso<H1, 1>>::run(t, c, "isoparam1", 512.0, false); break;
  case 7: TrafoCheck<H1, Iso<H1, 2>>::run(t, c, "isoparam2", 512.0, false); break;
  default: TrafoCheck<H1, Iso<H1, 3>>::run(t, c, "isoparam3", 512.0, false); break;
  }
}
int main(int argc, char** argv)
{
  FEAT::Runtime::ScopeGuard guard(argc, argv);
  std::vector<vf::Target> tg = {{"trafo_std", trafo_std, 96, 8, 30000}, {"trafo_iso", trafo_iso, 96, 8, 30000}};
  return vf::main_impl(argc, argv, tg);
}
