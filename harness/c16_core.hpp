// c16_core.hpp - shared pieces of the C16 harness: space catalogue, dense views of assembled matrices from
// the raw arrays, tolerance policy, pattern/coupling checks, helpers for the oracle integrals.
#pragma once
#include "c16_mesh.hpp"
#include <kernel/trafo/standard/mapping.hpp>
#include <kernel/space/lagrange1/element.hpp>
#include <kernel/space/lagrange2/element.hpp>
#include <kernel/space/lagrange3/element.hpp>
#include <kernel/space/discontinuous/element.hpp>
#include <kernel/space/cro_rav_ran_tur/element.hpp>
#include <kernel/cubature/dynamic_factory.hpp>
#include <kernel/lafem/sparse_matrix_csr.hpp>
#include <kernel/lafem/sparse_matrix_bcsr.hpp>
#include <kernel/lafem/dense_vector.hpp>
#include <kernel/lafem/dense_vector_blocked.hpp>
#include <kernel/assembly/symbolic_assembler.hpp>
#include <kernel/assembly/interpolator.hpp>

namespace c16
{
  using vf::Tape; using vf::Ctx; using vf::J;

  template<typename T> struct TN; template<> struct TN<double> { static const char* n() { return "double"; } }; template<> struct TN<float> { static const char* n() { return "float"; } };
  template<typename T> struct IN; template<> struct IN<std::uint64_t> { static const char* n() { return "u64"; } }; template<> struct IN<std::uint32_t> { static const char* n() { return "u32"; } };
  template<typename DT> inline LD unit_roundoff() { return (LD)std::numeric_limits<DT>::epsilon() / 2; }
  template<typename DT> inline LD tiny() { return 16 * (LD)std::numeric_limits<DT>::min(); }

  // ------------------------------------------------------------------------------------------------
  // space catalogue.  p = largest k with P_k(x) contained in the space on the cells the generator makes
  // (affine cells; for the members flagged nonaffine_ok also on multilinear hypercube cells);
  // bdeg = per-variable (hypercube) resp. total (simplex) polynomial degree of the basis functions in
  // reference coordinates - used only to choose a cubature degree that is entitled to be exact.
  // ------------------------------------------------------------------------------------------------
  struct SL1 { template<typename T> using S = Space::Lagrange1::Element<T>; static const char* name() { return "lagrange1"; } static constexpr int p = 1; static int bdeg(bool) { return 1; } static constexpr bool tensor = true, nonaffine_ok = true, has_grad = true; static bool parametric(bool) { return true; } };
  struct SL2 { template<typename T> using S = Space::Lagrange2::Element<T>; static const char* name() { return "lagrange2"; } static constexpr int p = 2; static int bdeg(bool) { return 2; } static constexpr bool tensor = true, nonaffine_ok = true, has_grad = true; static bool parametric(bool) { return true; } };
  struct SL3 { template<typename T> using S = Space::Lagrange3::Element<T>; static const char* name() { return "lagrange3"; } static constexpr int p = 3; static int bdeg(bool) { return 3; } static constexpr bool tensor = true, nonaffine_ok = true, has_grad = true; static bool parametric(bool) { return true; } };
  struct SD0 { template<typename T> using S = Space::Discontinuous::Element<T, Space::Discontinuous::Variant::StdPolyP<0>>; static const char* name() { return "discontinuous0"; } static constexpr int p = 0; static int bdeg(bool) { return 0; } static constexpr bool tensor = false, nonaffine_ok = true, has_grad = false; static bool parametric(bool) { return true; } };
  // parametric P1: span{1,xi,eta}; contains P1(x) only on affine cells
  struct SD1 { template<typename T> using S = Space::Discontinuous::Element<T, Space::Discontinuous::Variant::StdPolyP<1>>; static const char* name() { return "discontinuous1"; } static constexpr int p = 1; static int bdeg(bool) { return 1; } static constexpr bool tensor = false, nonaffine_ok = false, has_grad = true; static bool parametric(bool simplex) { return simplex; } };
  // Crouzeix-Raviart (simplex, P1) / Rannacher-Turek (hypercube, non-parametric rotated Q1: {1,x,y,x^2-y^2} in a cell frame)
  struct SCR { template<typename T> using S = Space::CroRavRanTur::Element<T>; static const char* name() { return "crorav_rantur"; } static constexpr int p = 1; static int bdeg(bool simplex) { return simplex ? 1 : 2; } static constexpr bool tensor = false, nonaffine_ok = true, has_grad = true; static bool parametric(bool simplex) { return simplex; } };

  // Domain facts (implicit preconditions, learned from XABORTM / documentation, not defects):
  //  * Discontinuous<StdPolyP<0>> has eval_caps = value only: requesting gradients aborts by contract
  //    ("space evaluator does not support basis function gradients") => has_grad = false, gradient operators are not generated on that side.
  //  * LaplaceBeltramiOperator "can only be used in conjunction with parametric finite element spaces" (needs ref_grad);
  //    Discontinuous P1 and Rannacher-Turek on hypercubes are non-parametric evaluators => parametric(simplex).
  // ------------------------------------------------------------------------------------------------
  // dense views built from the raw arrays
  // ------------------------------------------------------------------------------------------------
  struct Dn
  {
    long r = 0, c = 0; std::vector<LD> a; std::vector<char> st;
    Dn() {} Dn(long rr, long cc) : r(rr), c(cc), a((size_t)(rr * cc), 0.0L), st((size_t)(rr * cc), 0) {}
    LD& operator()(long i, long j) { return a[(size_t)(i * c + j)]; } LD operator()(long i, long j) const { return a[(size_t)(i * c + j)]; }
    char& s(long i, long j) { return st[(size_t)(i * c + j)]; } char s(long i, long j) const { return st[(size_t)(i * c + j)]; }
    LD sumabs() const { LD x = 0; for(LD v : a) x += fabsl(v); return x; }
    LD maxabs() const { LD x = 0; for(LD v : a) x = std::max(x, fabsl(v)); return x; }
    bool finite() const { for(LD v : a) if(!std::isfinite((double)v)) return false; return true; }
  };
  template<typename DT, typename IT> Dn dense_of(const LAFEM::SparseMatrixCSR<DT, IT>& A)
  {
    Dn d((long)A.rows(), (long)A.columns()); if(A.used_elements() == 0) return d;
    const IT* rp = A.row_ptr(); const IT* ci = A.col_ind(); const DT* v = A.val();
    for(Index i = 0; i < A.rows(); ++i) for(IT k = rp[i]; k < rp[i + 1]; ++k) { d((long)i, (long)ci[k]) += (LD)v[k]; d.s((long)i, (long)ci[k])++; }
    return d;
  }
  template<typename DT, typename IT, int BH, int BW> Dn dense_of(const LAFEM::SparseMatrixBCSR<DT, IT, BH, BW>& A)
  {
    Dn d((long)A.rows() * BH, (long)A.columns() * BW); if(A.used_elements() == 0) return d;
    const IT* rp = A.row_ptr(); const IT* ci = A.col_ind(); const DT* v = A.template val<LAFEM::Perspective::pod>();
    for(Index i = 0; i < A.rows(); ++i) for(IT k = rp[i]; k < rp[i + 1]; ++k) for(int a = 0; a < BH; ++a) for(int b = 0; b < BW; ++b)
    { d((long)i * BH + a, (long)ci[k] * BW + b) += (LD)v[(size_t)k * BH * BW + (size_t)a * BW + (size_t)b]; d.s((long)i * BH + a, (long)ci[k] * BW + b)++; }
    return d;
  }
  template<typename DT, typename IT> std::vector<LD> flat_of(const LAFEM::DenseVector<DT, IT>& v) { std::vector<LD> o; for(Index i = 0; i < v.size(); ++i) o.push_back((LD)v.elements()[i]); return o; }
  template<typename DT, typename IT, int B> std::vector<LD> flat_of(const LAFEM::DenseVectorBlocked<DT, IT, B>& v) { std::vector<LD> o; const DT* e = v.template elements<LAFEM::Perspective::pod>(); for(Index i = 0; i < v.size() * Index(B); ++i) o.push_back((LD)e[i]); return o; }

  inline LD bil(const std::vector<LD>& v, const Dn& A, const std::vector<LD>& u)
  {
    LD s = 0; for(long i = 0; i < A.r; ++i) { LD r = 0; for(long j = 0; j < A.c; ++j) r += A(i, j) * u[(size_t)j]; s += v[(size_t)i] * r; } return s;
  }
  inline LD maxabs(const std::vector<LD>& v) { LD m = 0; for(LD x : v) m = std::max(m, fabsl(x)); return m; }

  // ------------------------------------------------------------------------------------------------
  // tolerance (DESIGN 2.11 adapted to assembled quantities; stated in props/C16.json):
  //   tol = K * kappa * u(DT) * S + tiny,  K = 256,
  // kappa = generator's bound of the cell Jacobian condition numbers (gradients are J^{-T} grad_ref: relative error kappa*u),
  // S     = product of the sup-norms of the coefficient vectors times the sum of |A_ij| (resp. sum |b_i|),
  //         which bounds the sum of the absolute values of all products accumulated in the compared quantity.
  // ------------------------------------------------------------------------------------------------
  template<typename DT> inline LD tol_of(double kappa, LD S) { return 256.0L * (LD)kappa * unit_roundoff<DT>() * S + tiny<DT>(); }

  /// two routes computing the same matrix: entries agree within tol_of(kappa, max|A|) (same arithmetic up to ordering / FMA)
  /// floor: additional absolute tolerance for operators with coefficient functions whose exact value may vanish by
  /// cancellation of O(1) terms (e.g. grad of a constant convection field): 64*u*(natural magnitude of the cancelling terms)
  template<typename DT> inline void check_same(const Dn& A, const Dn& B, double kappa, const char* what, LD floor = 0.0L)
  {
    VF_CHECK(A.r == B.r && A.c == B.c, what << ": dimensions differ");
    VF_CHECK(B.finite(), what << ": non-finite entries");
    const LD sc = std::max(A.maxabs(), B.maxabs()); const LD tol = tol_of<DT>(kappa, sc) + floor;
    for(long i = 0; i < A.r; ++i) for(long j = 0; j < A.c; ++j)
      VF_CHECK(fabsl(A(i, j) - B(i, j)) <= tol, what << ": entry (" << i << "," << j << ") " << (double)A(i, j) << " vs " << (double)B(i, j) << " tol " << (double)tol);
  }
  template<typename DT> inline void check_same_vec(const std::vector<LD>& a, const std::vector<LD>& b, double kappa, const char* what)
  {
    VF_CHECK(a.size() == b.size(), what << ": sizes differ");
    const LD sc = std::max(maxabs(a), maxabs(b)); const LD tol = tol_of<DT>(kappa, sc);
    for(size_t i = 0; i < a.size(); ++i)
      VF_CHECK(std::isfinite((double)b[i]) && fabsl(a[i] - b[i]) <= tol, what << ": entry " << i << " " << (double)a[i] << " vs " << (double)b[i] << " tol " << (double)tol);
  }

  // ------------------------------------------------------------------------------------------------
  // couplings from the DOF mappings (harness side) and pattern inclusion
  // ------------------------------------------------------------------------------------------------
  template<typename Space_> std::vector<std::vector<long>> cell_dofs(const Space_& sp)
  {
    std::vector<std::vector<long>> r; typename Space_::DofMappingType dm(sp);
    const Index nc = sp.get_mesh().get_num_entities(Space_::shape_dim);
    for(Index c = 0; c < nc; ++c) { dm.prepare(c); std::vector<long> v; for(int k = 0; k < dm.get_num_local_dofs(); ++k) v.push_back((long)dm.get_index(k)); dm.finish(); r.push_back(v); }
    return r;
  }
  /// coupling mask (rows x cols scalar dofs) for cell-wise test x trial couplings
  inline std::vector<char> couplings(const std::vector<std::vector<long>>& te, const std::vector<std::vector<long>>& tr, long nr, long nc)
  {
    std::vector<char> m((size_t)(nr * nc), 0);
    for(size_t c = 0; c < te.size(); ++c) for(long i : te[c]) for(long j : tr[c]) m[(size_t)(i * nc + j)] = 1;
    return m;
  }
  /// validate a CSR-like layout and check that it contains every coupling; returns the number of extra (non-coupling) entries
  template<typename IT> long check_pattern(const IT* rp, const IT* ci, long rows, long cols, long used, const std::vector<char>& cpl, const char* what)
  {
    VF_CHECK(rp != nullptr && rp[0] == IT(0), what << ": row_ptr[0] != 0");
    VF_CHECK((long)rp[rows] == used, what << ": row_ptr[rows] " << (long)rp[rows] << " != used_elements " << used);
    std::vector<char> st((size_t)(rows * cols), 0);
    for(long i = 0; i < rows; ++i)
    {
      VF_CHECK(rp[i] <= rp[i + 1], what << ": row_ptr not monotone at " << i);
      for(IT k = rp[i]; k < rp[i + 1]; ++k)
      {
        VF_CHECK((long)ci[k] < cols, what << ": column index out of range in row " << i);
        if(k > rp[i]) VF_CHECK(ci[k - 1] < ci[k], what << ": column indices not strictly increasing in row " << i);
        st[(size_t)(i * cols + (long)ci[k])] = 1;
      }
    }
    long extra = 0;
    for(long i = 0; i < rows; ++i) for(long j = 0; j < cols; ++j)
    {
      if(cpl[(size_t)(i * cols + j)]) VF_CHECK(st[(size_t)(i * cols + j)], what << ": coupling (" << i << "," << j << ") of a common cell is missing in the sparsity pattern");
      else if(st[(size_t)(i * cols + j)]) ++extra;
    }
    return extra;
  }

  /// cubature name with a degree entitled to exactness; cap = largest degree auto-degree can deliver for the shape
  inline int cub_cap(const RawMesh& m) { return m.simplex ? (m.dim == 2 ? 19 : 9) : 19; }

  /// oracle: integrate f(x) (callable on LD x[3]) of polynomial degree <= deg over the mesh
  template<typename F> LD integrate(const std::vector<QP>& q, F f) { LD s = 0; for(auto& p : q) s += p.w * f(p.x); return s; }
} // namespace c16
