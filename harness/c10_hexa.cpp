// C10 targets for shape Hexa (own translation unit: mesh TUs compile slowly, the shapes build in parallel;
// the mesh generator mg::gen_node<Hexa> is instantiated in c10_gen_hexa.cpp)
#include "common/c10_core.hpp"
extern template mg::Loaded<mg::Hexa> mg::gen_node<mg::Hexa>(vf::Tape&, vf::Ctx&, const mg::GenOpts&, mg::GenInfo&);
void c10_register_hexa(std::vector<vf::Target>& tg) { c10::register_shape<mg::Hexa>(tg); }
