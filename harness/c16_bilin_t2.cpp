// C16: scalar bilinear operators on Simplex<2> meshes (see c16_bilin.hpp)
#include "c16_bilin.hpp"
namespace c16 { void reg_bilin_t2(std::vector<vf::Target>& tg) { tg.push_back({"bilin_tria", [](vf::Tape& t, vf::Ctx& c) { bilin_target<Shape::Simplex<2>, true>(t, c); }, 320, 24, 120000}); } }
