// C18 - prolongation / restriction / truncation: case decoder and oracles (templates over shape, element, data type)
#pragma once
#include "c18_mesh.hpp"

#include <kernel/geometry/mesh_permutation.hpp>
#include <kernel/trafo/standard/mapping.hpp>
#include <kernel/assembly/grid_transfer.hpp>
#include <kernel/assembly/symbolic_assembler.hpp>
#include <kernel/assembly/interpolator.hpp>
#include <kernel/analytic/lambda_function.hpp>
#include <kernel/cubature/dynamic_factory.hpp>
#include <kernel/lafem/sparse_matrix_csr.hpp>
#include <kernel/lafem/dense_vector.hpp>
#include <kernel/lafem/dense_vector_blocked.hpp>
#include <kernel/lafem/transfer.hpp>
#include <kernel/adjacency/graph.hpp>
#include <omp.h>

namespace c18
{
  // ------------------------------------------------------------------------------------------------
  // element meta data
  // ------------------------------------------------------------------------------------------------
  struct ElemMeta
  {
    const char* name;
    int k;          // polynomials of total degree <= k are contained in the local space (any cell for affine trafos)
    int kq;         // highest per-direction degree of a local basis function (decides the cubature degree)
    bool nested;    // V_coarse is a subspace of V_fine for *every* coarse vector
    bool lin_any;   // linear functions are in the space on non-affine cells, too
    int cfac;       // tolerance class (see tol_factor)
  };

  /// calibration aid: with C18_CALIB=<file> every oracle appends "<tag> <ratio>" (ratio = error / (eps*scale))
  inline void calib(const std::string& tag, long double ratio)
  {
    static const char* path = getenv("C18_CALIB");
    if(!path) return;
    FILE* f = fopen(path, "a"); if(!f) return;
    fprintf(f, "%s %.3Le\n", tag.c_str(), ratio); fclose(f);
  }

  template<typename DT_> inline long double eps_of() { return (long double)std::numeric_limits<DT_>::epsilon(); }

  // ------------------------------------------------------------------------------------------------
  // finite element function evaluation through feat3's evaluators (always in double)
  // ------------------------------------------------------------------------------------------------
  template<typename Space_>
  struct FeEval
  {
    typedef typename Space_::TrafoType TrafoType;
    typedef typename Space_::ShapeType ShapeType;
    typedef typename TrafoType::template Evaluator<ShapeType, double>::Type TE;
    typedef typename Space_::template Evaluator<TE>::Type SE;
    static constexpr TrafoTags tcfg = SE::template ConfigTraits<SpaceTags::value>::trafo_config | TrafoTags::img_point;
    typename TE::template ConfigTraits<tcfg>::EvalDataType td;
    typename SE::template ConfigTraits<SpaceTags::value>::EvalDataType sd;
    TE te; SE se; typename Space_::DofMappingType dm;
    explicit FeEval(const Space_& s) : te(s.get_trafo()), se(s), dm(s) {}
    /// value of sum_i v[dof_i] phi_i at reference point xi of the given cell; *absacc = sum |v phi|
    template<typename Vec_>
    long double operator()(const Vec_& v, Index cell, const long double* xi, long double* absacc, long double* img = nullptr)
    {
      te.prepare(cell); se.prepare(te); dm.prepare(cell);
      typename TE::DomainPointType p; for(int k = 0; k < ShapeType::dimension; ++k) p[k] = double(xi[k]);
      te(td, p); se(sd, td);
      long double r = 0, a = 0; const int n = se.get_num_local_dofs();
      for(int i = 0; i < n; ++i) { long double x = (long double)sd.phi[i].value * (long double)v(dm.get_index(i)); r += x; a += std::fabs(x); }
      if(img) for(int k = 0; k < ShapeType::dimension; ++k) img[k] = td.img_point[k];
      dm.finish(); se.finish(); te.finish();
      if(absacc) *absacc = a;
      return r;
    }
  };

  // ------------------------------------------------------------------------------------------------
  // assembly of P, T, R following control/asm/transfer_asm.hpp (variant 0) or the *_direct helpers (variant 1)
  // ------------------------------------------------------------------------------------------------
  template<typename Mat_, typename Space_>
  void assemble_transfer(Mat_& P, Mat_& T, Mat_& R, const Space_& sf, const Space_& sc, const String& cub, int variant, bool trunc)
  {
    if(variant == 0)
    {
      Assembly::SymbolicAssembler::assemble_matrix_2lvl(P, sf, sc);
      auto wp = P.create_vector_l(); auto wt = P.create_vector_r();
      P.format(); wp.format(); wt.format();
      if(trunc) T.transpose(P);
      Assembly::GridTransfer::assemble_prolongation(P, wp, sf, sc, cub);
      if(trunc) Assembly::GridTransfer::assemble_truncation(T, wt, sf, sc, cub);
      wp.component_invert(wp); P.scale_rows(P, wp);
      R = P.transpose();
      if(trunc) { wt.component_invert(wt); T.scale_rows(T, wt); }
    }
    else
    {
      Assembly::SymbolicAssembler::assemble_matrix_2lvl(P, sf, sc);
      P.format();
      Cubature::DynamicFactory fac(cub);
      // extension round: the uint32 instantiations go through the cubature-name overloads of the *_direct helpers
      constexpr bool by_name = !std::is_same<typename Mat_::IndexType, Index>::value;
      if constexpr (by_name) Assembly::GridTransfer::assemble_prolongation_direct(P, sf, sc, cub);
      else Assembly::GridTransfer::assemble_prolongation_direct(P, sf, sc, fac);
      if(trunc)
      {
        T = P.transpose(); T.format();
        if constexpr (by_name) Assembly::GridTransfer::assemble_truncation_direct(T, sf, sc, cub);
        else Assembly::GridTransfer::assemble_truncation_direct(T, sf, sc, fac);
      }
      R = P.transpose();
    }
  }

  /// y_ref = A x in long double from the raw CSR arrays; absy = |A||x|
  template<typename Mat_, typename Vec_>
  void ref_apply(const Mat_& A, const Vec_& x, std::vector<long double>& y, std::vector<long double>& absy, bool transposed = false)
  {
    const auto* rp = A.row_ptr(); const auto* ci = A.col_ind(); const auto* va = A.val();
    y.assign(transposed ? A.columns() : A.rows(), 0.0L); absy = y;
    for(Index i = 0; i < A.rows(); ++i) for(auto k = rp[i]; k < rp[i + 1]; ++k)
    {
      if(!transposed) { long double tt = (long double)va[k] * (long double)x(Index(ci[k])); y[i] += tt; absy[i] += std::fabs(tt); }
      else { long double tt = (long double)va[k] * (long double)x(i); y[ci[k]] += tt; absy[ci[k]] += std::fabs(tt); }
    }
  }
  template<typename Mat_> long double max_abs(const Mat_& A) { long double m = 0; for(Index k = 0; k < A.used_elements(); ++k) m = std::max(m, (long double)std::fabs(A.val()[k])); return m; }
  template<typename DT_, typename IT_> long double max_abs_v(const LAFEM::DenseVector<DT_, IT_>& v) { long double m = 0; for(Index k = 0; k < v.size(); ++k) m = std::max(m, (long double)std::fabs(v(k))); return m; }
  template<typename Mat_> Index max_row_len(const Mat_& A) { Index m = 0; for(Index i = 0; i < A.rows(); ++i) m = std::max(m, Index(A.row_ptr()[i + 1] - A.row_ptr()[i])); return m; }

  /// coarse vector classes: 0 zero, 1 unit vector, 2 small integers, 3 dyadic, 4 scaled reals in +-[1e-3,1e3]
  // The tape supplies at most 32 values which are tiled over the vector with alternating sign: short tapes keep
  // rapidcheck's element-wise shrinking affordable (every tape entry costs ~30 re-evaluations of a failing case).
  template<typename DT_, typename IT_ = Index>
  LAFEM::DenseVector<DT_, IT_> gen_vector(Tape& t, Index n, int cls, J& js, const char* key)
  {
    LAFEM::DenseVector<DT_, IT_> v(n, DT_(0));
    if(n == 0) return v;
    J a = J::arr();
    if(cls == 1) { Index j = Index(t.range(0, int(n) - 1)); v(j, DT_(1)); js.set(std::string(key) + "-unit", (long long)j); return v; }
    if(cls >= 2)
    {
      double base[32]; const Index nb = std::min<Index>(n, 32);
      for(Index i = 0; i < nb; ++i) { base[i] = t.real(cls == 2 ? 0 : cls == 3 ? 1 : 2); a.add(double(DT_(base[i]))); }
      for(Index i = 0; i < n; ++i) v(i, DT_(((i / 32) & 1) ? -base[i % 32] : base[i % 32]));
      js.set(key, a);
    }
    return v;
  }
  inline const char* vcls_name(int c) { static const char* n[] = {"zero", "unit", "int", "dyadic", "real"}; return n[c]; }

  inline const char* perm_name(Geometry::PermutationStrategy s)
  {
    switch(s)
    {
    case Geometry::PermutationStrategy::none: return "none";
    case Geometry::PermutationStrategy::random: return "random";
    case Geometry::PermutationStrategy::lexicographic: return "lexi";
    case Geometry::PermutationStrategy::colored: return "colored";
    case Geometry::PermutationStrategy::cuthill_mckee: return "cmk";
    case Geometry::PermutationStrategy::cuthill_mckee_reversed: return "rcmk";
    case Geometry::PermutationStrategy::geometric_cuthill_mckee: return "gcmk";
    case Geometry::PermutationStrategy::geometric_cuthill_mckee_reversed: return "rgcmk";
    default: return "other";
    }
  }
  inline Geometry::PermutationStrategy perm_of(int i)
  {
    static const Geometry::PermutationStrategy s[] = {Geometry::PermutationStrategy::none, Geometry::PermutationStrategy::random,
      Geometry::PermutationStrategy::lexicographic, Geometry::PermutationStrategy::colored, Geometry::PermutationStrategy::cuthill_mckee,
      Geometry::PermutationStrategy::cuthill_mckee_reversed, Geometry::PermutationStrategy::geometric_cuthill_mckee,
      Geometry::PermutationStrategy::geometric_cuthill_mckee_reversed};
    return s[i];
  }

  enum Op { op_exact = 0, op_poly, op_trunc, op_rest, op_vecprol, op_intermesh, op_chain, op_count };
  inline const char* op_name(int o) { static const char* n[] = {"exact", "poly", "trunc", "rest", "vecprol", "intermesh", "chain"}; return n[o]; }

  /// reference points of the fine cell at which functions are compared: vertices, centroid, two generated interior points
  template<int dim, bool simplex>
  std::vector<std::array<long double, 3>> sample_points(const double g[2][3])
  {
    std::vector<std::array<long double, 3>> pts;
    constexpr int nl = simplex ? dim + 1 : (1 << dim);
    for(int j = 0; j < nl; ++j)
    {
      std::array<long double, 3> p{0, 0, 0};
      if(simplex) { if(j > 0) p[(size_t)j - 1] = 1; } else for(int k = 0; k < dim; ++k) p[(size_t)k] = ((j >> k) & 1) ? 1 : -1;
      pts.push_back(p);
    }
    { std::array<long double, 3> p{0, 0, 0}; if(simplex) for(int k = 0; k < dim; ++k) p[(size_t)k] = 1.0L / (dim + 1); pts.push_back(p); }
    for(int q = 0; q < 2; ++q)
    {
      std::array<long double, 3> p{0, 0, 0};
      if(simplex) { long double w[4], s = 0; for(int k = 0; k <= dim; ++k) { w[k] = 0.1L + (k < 3 ? (long double)g[q][k] : 0.5L * ((long double)g[q][0] + (long double)g[q][1])); s += w[k]; } for(int k = 0; k < dim; ++k) p[(size_t)k] = w[k + 1] / s; }
      else for(int k = 0; k < dim; ++k) p[(size_t)k] = 2.0L * g[q][k] - 1.0L;
      pts.push_back(p);
    }
    return pts;
  }

  /// tolerance factor: error <= tol_factor * eps(DT) * scale.  Measured ratios err/(eps*scale) (C18_CALIB, thorough tier, all
  /// shapes/distortions/permutations, 262k cases): lagrange1 116, lagrange2 195, lagrange3 387, bernstein2 2350, discontinuous0 48,
  /// discontinuous1 249 (P1 in real coordinates on translated, sheared cells), crouzeix-raviart 118, rannacher-turek 236,
  /// q1tbnp 307 - all below cfac/50; wrong operators give ratios >= 1e-3/eps.
  inline long double tol_factor(const ElemMeta& em) { return (long double)em.cfac; }

  // ------------------------------------------------------------------------------------------------
  // pointwise comparison of the coarse function (vector uc on level a) and the fine function (vector uf on level b>a):
  // for every fine cell the geometric parent (chain) and the affine child map are derived from the vertex coordinates,
  // both functions are evaluated through feat3's evaluators at the same physical points
  // ------------------------------------------------------------------------------------------------
  template<int dim, bool simplex, typename Mesh_, typename Space_, typename Vec_>
  void compare_fe_functions(const std::vector<std::unique_ptr<Mesh_>>& mesh, const std::vector<std::unique_ptr<Space_>>& space,
    int a, int b, const Vec_& uc, const Vec_& uf, const double g[2][3], long double tf, long double eps, const std::string& etag, const char* what)
  {
    typedef Space_ SpaceType;
    {
      std::vector<Rel> rel;
      for(int l = a; l < b; ++l) { rel.push_back(relate(*mesh[(size_t)l + 1], *mesh[(size_t)l])); VF_CHECK(rel.back().error.empty(), "harness: " << rel.back().error); }
      FeEval<SpaceType> ef(*space[(size_t)b]), ec(*space[(size_t)a]);
      auto pts = sample_points<dim, simplex>(g);
      const long double scale = std::max((long double)1e-300L, max_abs_v(uc));
      long double worst = 0;
      for(Index f = 0; f < mesh[(size_t)b]->get_num_elements(); ++f)
      {
        for(auto& p : pts)
        {
          long double xf[3] = {p[0], p[1], p[2]}, xc[3]; Index cell = f;
          for(int l = b - 1; l >= a; --l) { to_parent_ref<dim, simplex>(rel[(size_t)(l - a)].vref[cell], xf, xc); cell = Index(rel[(size_t)(l - a)].parent[cell]); for(int k = 0; k < dim; ++k) xf[k] = xc[k]; }
          long double af = 0, ac = 0, imf[3], imc[3];
          long double xfine[3] = {p[0], p[1], p[2]};
          long double vfv = ef(uf, f, xfine, &af, imf), vcv = ec(uc, cell, xc, &ac, imc);
          // harness self-check: both evaluations refer to the same physical point
          long double dd = 0, nn = 0; for(int k = 0; k < dim; ++k) { dd += (imf[k] - imc[k]) * (imf[k] - imc[k]); nn += imf[k] * imf[k]; }
          VF_CHECK(std::sqrt(dd) <= 1e-9L * (1.0L + std::sqrt(nn)), "harness: parent map inconsistent at fine cell " << f);
          const long double err = std::fabs(vfv - vcv);
          worst = std::max(worst, err / (eps * scale));
          VF_CHECK(err <= tf * eps * scale, what << ": coarse and fine function differ at fine cell " << f << " ref (" << (double)p[0] << "," << (double)p[1] << "," << (double)p[2]
            << "): fine " << (double)vfv << " coarse " << (double)vcv << " err " << (double)err << " tol " << (double)(tf * eps * scale));
        }
      }
      calib(etag + " " + what, worst);
    }
  }

  // ------------------------------------------------------------------------------------------------
  // the case
  // ------------------------------------------------------------------------------------------------
  // IT_ is the index type of the matrices and vectors (extension round: std::uint32_t through the targets "idx32*";
  // the decoder, the description and the oracles are those of the Index instantiations, plus the key "it")
  template<typename Shape_, template<typename> class ElemT_, typename DT_, typename IT_ = Index>
  void run_case(Tape& t, Ctx& c, const ElemMeta& em, bool big)
  {
    constexpr bool it32 = !std::is_same<IT_, Index>::value;
    constexpr int dim = Shape_::dimension;
    constexpr bool simplex = std::is_same<Shape_, Shape::Simplex<dim>>::value;
    typedef MeshT<Shape_> MeshType;
    typedef Trafo::Standard::Mapping<MeshType> TrafoType;
    typedef ElemT_<TrafoType> SpaceType;
    typedef LAFEM::SparseMatrixCSR<DT_, IT_> Mat;
    typedef LAFEM::DenseVector<DT_, IT_> Vec;
    const long double eps = eps_of<DT_>();
    const std::string etag = std::string(em.name) + "/" + (std::is_same<DT_, float>::value ? "f" : "d") + (it32 ? "32" : "");

    // ---------------------------------------------------------------- decode
    MeshDesc md = gen_mesh(t, dim, simplex, big);
    const bool via_deduct = t.flag(1, 3) && !(simplex && dim == 3);
    // operation
    int op;
    {
      // non-nested spaces: only polynomial exactness on the conforming subspace, adjointness and matrix-vs-vector
      int w_exact = em.nested ? 5 : 0, w_chain = em.nested ? 2 : 0;
      op = t.pick({w_exact, 3, 3, 2, 3, 2, w_chain});
      // domain fact: Trafo::InverseMapping<Trafo, float> does not compile on a mesh with double coordinates
      // (inverse_mapping.hpp:261 assigns vertices to a DataType box), so the generic inter-mesh transfer exists only
      // for DataType == CoordType; float cases use the matrix-free prolongation instead
      if(op == op_intermesh && !std::is_same<DT_, double>::value) op = op_vecprol;
    }
    // number of refinements: the chain needs two; other ops take the last level pair of 1 or 2 refinements
    const size_t child_count = simplex ? (dim == 2 ? 4 : 12) : (size_t(1) << dim);
    const size_t max_fine = big ? 1600 : 500;
    int nref = 1;
    {
      bool two = t.flag(1, 4);
      if(op == op_chain) two = true;
      if(two && md.cells.size() * child_count * child_count <= max_fine) nref = 2;
      else if(op == op_chain) op = op_exact; // mesh too large for a chain: plain two-level exactness
    }
    if(md.cells.size() * child_count > max_fine) nref = 1;
    int pst[3];
    for(int l = 0; l <= 2; ++l) pst[l] = t.pick({4, 2, 2, 2, 1, 1, 1, 1});
    // known finding c18-cmk-disconnected: (reversed) algebraic Cuthill-McKee aborts ("No root node found") on a mesh with
    // more than one connected component; with the switch on, such meshes get the lexicographic strategy instead
    for(int l = 0; l <= nref; ++l) if(md.components > 1 && (pst[l] == 4 || pst[l] == 5) && c.excl("c18-cmk-disconnected")) pst[l] = 2;
    const int variant = t.range(0, 1);
    const int vcls = t.pick({3, 2, 4, 1, 2});
    const int vcls_eff = (vcls + 2) % 5; // 0 on the tape -> small integers; then dyadic, real, zero, unit
    // cubature: "sufficient degree" = mass matrices of both levels integrated exactly (2*kq per direction plus the
    // degree of the Jacobian determinant on non-affine hypercubes: d-1 per direction)
    int need = 2 * em.kq + ((!simplex && !md.affine) ? dim : 0);
    if(need < 1) need = 1;
    int extra = t.range(0, 3);
    std::string cub;
    int cubk = t.pick({5, 2, 1, 1});
    if(simplex && dim == 3 && need + extra > 9) extra = std::max(0, 9 - need);
    if(cubk == 0 || (simplex && cubk != 3)) cub = "auto-degree:" + std::to_string(need + extra);
    else if(cubk == 1) cub = "gauss-legendre:" + std::to_string(std::min(20, (need + extra) / 2 + 1));
    else if(cubk == 2 && (need + extra + 3) / 2 + 1 <= 6) cub = "gauss-lobatto:" + std::to_string(std::max(3, (need + extra + 3) / 2 + 1)); // closed rule, n in 3..6 points: degree 2n-3
    else if(cubk == 2) cub = "gauss-legendre:" + std::to_string(std::min(20, (need + extra) / 2 + 1));
    else cub = "refine:auto-degree:" + std::to_string(need);
    double g[2][3]; for(int q = 0; q < 2; ++q) for(int k = 0; k < 3; ++k) g[q][k] = double(1 + t.range(0, 61)) / 64.0;

    // ---------------------------------------------------------------- describe
    c.desc.set("elem", em.name); c.desc.set("dt", std::is_same<DT_, float>::value ? "float" : "double");
    if(it32) { c.desc.set("it", "u32"); c.label("it:u32"); }
    c.desc.set("mesh", md.js); c.desc.set("op", op_name(op)); c.desc.set("nref", nref);
    { J p = J::arr(); for(int l = 0; l <= nref; ++l) p.add(perm_name(perm_of(pst[l]))); c.desc.set("perm", p); }
    c.desc.set("variant", variant == 0 ? "asm-protocol" : "direct"); c.desc.set("cub", cub); c.desc.set("vec", vcls_name(vcls_eff));
    c.op = std::string(op_name(op)) + ":" + em.name;
    for(auto& l : md.labels) c.label(l);
    c.label(std::string("elem:") + em.name); c.label(std::string("op:") + op_name(op));
    c.label(std::string("dt:") + (std::is_same<DT_, float>::value ? "float" : "double"));
    c.label(std::string("perm-coarse:") + perm_name(perm_of(pst[nref - 1]))); c.label(std::string("perm-fine:") + perm_name(perm_of(pst[nref])));
    c.label(pst[nref - 1] == 0 && pst[nref] == 0 ? "perm:none" : pst[nref - 1] == 0 ? "perm:fine-only" : pst[nref] == 0 ? "perm:coarse-only" : "perm:both");
    c.label(std::string("cub:") + cub.substr(0, cub.rfind(':'))); c.label(std::string("vec:") + vcls_name(vcls_eff));
    c.desc.set("build", via_deduct ? "deduct" : "factory"); c.label(via_deduct ? "build:deduct" : "build:factory");
    c.label(variant == 0 ? "asm:protocol" : "asm:direct"); c.label(nref == 2 ? "levels:3" : "levels:2");

    // ---------------------------------------------------------------- meshes (hierarchy first, permutations afterwards:
    // the protocol of Control::Domain::PartiDomainControl::create_mesh_permutations and area51/dbg_meshperm)
    std::vector<std::unique_ptr<MeshType>> mesh;
    mesh.push_back(build_mesh<Shape_>(md, via_deduct));
    for(int l = 0; l < nref; ++l) { Geometry::StandardRefinery<MeshType> ref(*mesh.back()); mesh.push_back(std::make_unique<MeshType>(ref)); }

    // generated data that needs the dof counts: decoded after the spaces exist, but before announce()
    std::vector<std::unique_ptr<TrafoType>> trafo; std::vector<std::unique_ptr<SpaceType>> space;
    auto make_spaces = [&]() { trafo.clear(); space.clear(); for(auto& m : mesh) { trafo.push_back(std::make_unique<TrafoType>(*m)); space.push_back(std::make_unique<SpaceType>(*trafo.back())); } };
    make_spaces(); // dof counts do not depend on the permutation
    const int lc = (op == op_chain) ? 0 : nref - 1, lf = nref; // level pair under test
    const Index ndc = space[(size_t)lc]->get_num_dofs(), ndf = space[(size_t)lf]->get_num_dofs();
    J vj = J::obj();
    Vec vc = gen_vector<DT_, IT_>(t, ndc, vcls_eff, vj, "c");
    Vec vf2 = gen_vector<DT_, IT_>(t, (op == op_rest) ? ndf : Index(0), (op == op_rest) ? std::max(2, vcls_eff) : 0, vj, "f");
    Vec vc2 = gen_vector<DT_, IT_>(t, (op == op_vecprol) ? ndc : Index(0), (op == op_vecprol) ? 2 : 0, vj, "c2");
    // polynomial coefficients (small integers) for the interpolation oracle
    const int pdeg = md.affine ? em.k : (em.lin_any ? std::min(em.k, 1) : 0);
    std::vector<std::array<int, 3>> mono; std::vector<double> coef;
    for(int a = 0; a <= pdeg; ++a) for(int b = 0; a + b <= pdeg; ++b) for(int d3 = 0; a + b + d3 <= pdeg; ++d3)
    { if(dim == 2 && d3 > 0) continue; mono.push_back({a, b, d3}); coef.push_back(op == op_poly || !em.nested ? t.real(0) : 0.0); }
    if(op == op_poly || (!em.nested && (op == op_trunc))) { bool any = false; for(double x : coef) if(x != 0.0) any = true; if(!any) coef[0] = 1.0; J cj(coef); vj.set("poly", cj); vj.set("pdeg", pdeg); }
    // known finding c18-intermesh-vector: transfer_intermesh_vector never clears its per-source-cell point lists;
    // with the switch on, the inter-mesh op still checks the matrix assembly but leaves out the vector transfer
    const bool skip_imv = (op == op_intermesh) && c.excl("c18-intermesh-vector");
    int nthreads = 1; if(op == op_intermesh) { nthreads = 1 + t.range(0, 3); c.desc.set("threads", nthreads); c.label("threads:" + std::to_string(nthreads)); }
    c.desc.set("data", vj); c.desc.set("ndofs", J(std::vector<long long>{(long long)ndc, (long long)ndf}));
    bool vnz = false; for(Index i = 0; i < vc.size(); ++i) if(vc(i) != DT_(0)) vnz = true;
    // non-trivial: >= 2 coarse cells sharing a facet (so that fine dofs are shared between children of different
    // parents and the weight normalisation matters) and a non-zero operand
    c.nontrivial = md.shared_facet && (vnz || op == op_poly || op == op_intermesh);
    c.announce();

    // ---------------------------------------------------------------- permute, then build trafos/spaces
    for(int l = 0; l <= nref; ++l) if(pst[l] != 0) mesh[(size_t)l]->create_permutation(perm_of(pst[l]));
    make_spaces();
    const SpaceType& sc = *space[(size_t)lc]; const SpaceType& sf = *space[(size_t)lf];
    VF_CHECK(sc.get_num_dofs() == ndc && sf.get_num_dofs() == ndf, "dof count changed by permutation");
    const long double tf = tol_factor(em);

    auto poly = [&](const long double* x) { long double s = 0; for(size_t m = 0; m < mono.size(); ++m) { long double tt = coef[m]; for(int k = 0; k < 3; ++k) for(int e = 0; e < mono[m][(size_t)k]; ++e) tt *= x[k]; s += tt; } return s; };
    auto interpolate = [&](Vec& v, const SpaceType& s)
    {
      if constexpr (dim == 2) { auto fn = Analytic::create_lambda_function_scalar_2d([&](DT_ x, DT_ y) { long double p[3] = {x, y, 0}; return DT_(poly(p)); }); Assembly::Interpolator::project(v, fn, s); }
      else { auto fn = Analytic::create_lambda_function_scalar_3d([&](DT_ x, DT_ y, DT_ z) { long double p[3] = {x, y, z}; return DT_(poly(p)); }); Assembly::Interpolator::project(v, fn, s); }
    };

    auto compare_functions = [&](int a, int b, const Vec& uc, const Vec& uf, const char* what)
    { compare_fe_functions<dim, simplex>(mesh, space, a, b, uc, uf, g, tf, eps, etag, what); };
    auto compare_vectors = [&](const Vec& x, const Vec& y, long double tol, const char* what)
    {
      VF_CHECK(x.size() == y.size(), what << ": size " << x.size() << " vs " << y.size());
      for(Index i = 0; i < x.size(); ++i) VF_CHECK(std::fabs((long double)x(i) - (long double)y(i)) <= tol, what << ": entry " << i << ": " << (double)x(i) << " vs " << (double)y(i) << " tol " << (double)tol);
    };
    auto worst_diff = [&](const Vec& x, const Vec& y) { long double w = 0; for(Index i = 0; i < std::min(x.size(), y.size()); ++i) w = std::max(w, std::fabs((long double)x(i) - (long double)y(i))); return w; };

    // ---------------------------------------------------------------- run
    Mat P, T, R;
    const bool want_trunc = (op == op_trunc) || (op == op_chain) || (op == op_rest);
    long double pmax = 0;
    if(op != op_chain)
    {
      assemble_transfer(P, T, R, sf, sc, String(cub), variant, want_trunc);
      VF_CHECK(P.rows() == ndf && P.columns() == ndc, "prolongation matrix is " << P.rows() << "x" << P.columns());
      pmax = max_abs(P);
    }

    if(op == op_exact)
    {
      // (1) P c are the fine coefficients of the same function; applied through LAFEM::Transfer
      LAFEM::Transfer<Mat> tr(P.clone(), R.clone());
      Vec y(ndf); tr.prol(y, vc);
      compare_functions(lc, lf, vc, y, "exact");
    }
    else if(op == op_poly)
    {
      // (1) P I_c(u) == I_f(u) for polynomials u of the coarse local space
      Vec uc, uf; interpolate(uc, sc); interpolate(uf, sf);
      Vec y(ndf); P.apply(y, uc);
      const long double scale = std::max(max_abs_v(uc), max_abs_v(uf)) + 1e-300L;
      calib(etag + " poly", worst_diff(y, uf) / (eps * scale));
      compare_vectors(y, uf, tf * eps * scale, "poly: P*I_c(u) vs I_f(u)");
    }
    else if(op == op_trunc)
    {
      // (2) T P c == c (nested spaces: any c; otherwise c = I_c(u), u in the conforming polynomial subspace)
      VF_CHECK(T.rows() == ndc && T.columns() == ndf, "truncation matrix is " << T.rows() << "x" << T.columns());
      Vec c0; if(em.nested) c0 = vc.clone(); else interpolate(c0, sc);
      LAFEM::Transfer<Mat> tr(P.clone(), R.clone(), T.clone());
      Vec y(ndf), z(ndc); tr.prol(y, c0); tr.trunc(y, z);
      const long double scale = max_abs_v(c0) + 1e-300L;
      calib(etag + " trunc", worst_diff(z, c0) / (eps * scale));
      compare_vectors(z, c0, tf * eps * scale, "trunc: T*P*c vs c");
    }
    else if(op == op_rest)
    {
      // (3) R == P^T entry by entry, Transfer::rest == transposed product, <R f, c> == <f, P c>
      VF_CHECK(R.rows() == ndc && R.columns() == ndf && R.used_elements() == P.used_elements(), "restriction matrix " << R.rows() << "x" << R.columns() << " nnz " << R.used_elements());
      std::map<std::pair<Index, Index>, DT_> pe;
      for(Index i = 0; i < P.rows(); ++i) for(auto k = P.row_ptr()[i]; k < P.row_ptr()[i + 1]; ++k) pe[std::make_pair(Index(P.col_ind()[k]), i)] = P.val()[k];
      for(Index i = 0; i < R.rows(); ++i) for(auto k = R.row_ptr()[i]; k < R.row_ptr()[i + 1]; ++k)
      {
        auto it = pe.find(std::make_pair(i, Index(R.col_ind()[k])));
        VF_CHECK(it != pe.end(), "rest: R(" << i << "," << R.col_ind()[k] << ") has no counterpart in P");
        VF_CHECK(it->second == R.val()[k], "rest: R(" << i << "," << R.col_ind()[k] << ")=" << (double)R.val()[k] << " but P^T has " << (double)it->second);
      }
      LAFEM::Transfer<Mat> tr(P.clone(), R.clone(), T.clone());
      Vec z(ndc); tr.rest(vf2, z);
      std::vector<long double> ref, aref; ref_apply(P, vf2, ref, aref, true);
      for(Index j = 0; j < ndc; ++j) VF_CHECK(std::fabs((long double)z(j) - ref[j]) <= 8.0L * (long double)(max_row_len(R) + 3) * (eps / 2) * aref[j] + 1e-300L, "rest: (R f)[" << j << "]=" << (double)z(j) << " vs P^T f " << (double)ref[j]);
      Vec y(ndf); tr.prol(y, vc);
      long double l = 0, r = 0, al = 0; for(Index j = 0; j < ndc; ++j) { l += (long double)z(j) * vc(j); al += std::fabs((long double)z(j) * vc(j)); }
      for(Index i = 0; i < ndf; ++i) { r += (long double)vf2(i) * y(i); al += std::fabs((long double)vf2(i) * y(i)); }
      VF_CHECK(std::fabs(l - r) <= 8.0L * (long double)(ndf + max_row_len(P) + 3) * (eps / 2) * al + 1e-300L, "rest: <R f,c>=" << (double)l << " vs <f,P c>=" << (double)r);
    }
    else if(op == op_vecprol)
    {
      // (4) matrix-free prolongation == assembled matrix (scalar and blocked vectors)
      Vec y(ndf); P.apply(y, vc);
      Vec f(ndf, DT_(0));
      if(variant == 0) { Vec w(ndf, DT_(0)); Assembly::GridTransfer::prolongate_vector(f, w, vc, sf, sc, String(cub)); w.component_invert(w); f.component_product(f, w); }
      else Assembly::GridTransfer::prolongate_vector_direct(f, vc, sf, sc, String(cub));
      std::vector<long double> ref, aref; ref_apply(P, vc, ref, aref);
      const long double vmax = max_abs_v(vc);
      // same local matrices, different order of summation and scaling: standard bound with the entry count of a row
      // times the number of cells meeting in a dof (<= 64), on |P||c| + |P|max |c|max (cancellation inside an entry)
      const long double tolv = 8.0L * 64.0L * (long double)(max_row_len(P) + 3) * (eps / 2);
      for(Index i = 0; i < ndf; ++i) VF_CHECK(std::fabs((long double)f(i) - ref[i]) <= tolv * (aref[i] + pmax * vmax) + 1e-300L, "vecprol: prolongate_vector[" << i << "]=" << (double)f(i) << " vs (P c)=" << (double)ref[i] << " matrix apply " << (double)y(i));
      // blocked
      typedef LAFEM::DenseVectorBlocked<DT_, IT_, 2> BVec;
      BVec bc(ndc), bf(ndf); bf.format();
      for(Index j = 0; j < ndc; ++j) { Tiny::Vector<DT_, 2> v2; v2[0] = vc(j); v2[1] = vc2(j); bc(j, v2); }
      if(variant == 0) { BVec bw(ndf); bw.format(); Assembly::GridTransfer::prolongate_vector(bf, bw, bc, sf, sc, String(cub)); bw.component_invert(bw); bf.component_product(bf, bw); }
      else Assembly::GridTransfer::prolongate_vector_direct(bf, bc, sf, sc, String(cub));
      std::vector<long double> ref2, aref2; ref_apply(P, vc2, ref2, aref2);
      const long double vmax2 = max_abs_v(vc2);
      for(Index i = 0; i < ndf; ++i)
      {
        auto v2 = bf(i);
        VF_CHECK(std::fabs((long double)v2[0] - ref[i]) <= tolv * (aref[i] + pmax * vmax) + 1e-300L, "vecprol: blocked component 0 [" << i << "]=" << (double)v2[0] << " vs " << (double)ref[i]);
        VF_CHECK(std::fabs((long double)v2[1] - ref2[i]) <= tolv * (aref2[i] + pmax * vmax2) + 1e-300L, "vecprol: blocked component 1 [" << i << "]=" << (double)v2[1] << " vs " << (double)ref2[i]);
      }
    }
    else if(op == op_intermesh)
    {
     if constexpr (std::is_same<DT_, double>::value)
     {
      // generic inter-mesh transfer on the nested pair == prolongation; thread-count differential
      Rel rel = relate(*mesh[(size_t)lf], *mesh[(size_t)lc]); VF_CHECK(rel.error.empty(), "harness: " << rel.error);
      const Index nfc = mesh[(size_t)lf]->get_num_elements(), ncc = mesh[(size_t)lc]->get_num_elements();
      std::vector<Index> ptr(nfc + 1), idx(nfc); for(Index f = 0; f <= nfc; ++f) ptr[f] = f; for(Index f = 0; f < nfc; ++f) idx[f] = Index(rel.parent[f]);
      Adjacency::Graph f2c(nfc, ncc, nfc, ptr.data(), idx.data());
      // open rule required (documented): interior points only
      const String icub = "auto-degree:" + std::to_string(need + extra);
      auto run = [&](int nt, Mat& M, Vec& tv)
      {
        omp_set_num_threads(nt);
        M = P.clone(LAFEM::CloneMode::Layout); M.format();
        int failed;
        if(variant == 1) failed = Assembly::GridTransfer::assemble_intermesh_transfer_direct(M, sf, sc, f2c, icub);
        else { Vec w(ndf, DT_(0)); failed = Assembly::GridTransfer::assemble_intermesh_transfer(M, w, sf, sc, f2c, icub); w.component_invert(w); M.scale_rows(M, w); }
        VF_CHECK(failed == 0, "intermesh: " << failed << " cubature points could not be unmapped (threads " << nt << ")");
        tv = Vec(ndf, DT_(0)); Vec w(ndf, DT_(0));
        if(skip_imv) return;
        failed = Assembly::GridTransfer::transfer_intermesh_vector(tv, w, vc, sf, sc, f2c, icub);
        VF_CHECK(failed == 0, "intermesh: vector transfer failed to unmap " << failed << " points");
        w.component_invert(w); tv.component_product(tv, w);
        if(variant == 1)
        {
          // extension round (no tape draws): the *_direct vector variant - instantiable since /repo bfe7709f6 - is the
          // protocol above in a single call; only the order of the OpenMP scatter-adds may differ
          Vec td(ndf, DT_(0));
          failed = Assembly::GridTransfer::transfer_intermesh_vector_direct(td, vc, sf, sc, f2c, icub);
          VF_CHECK(failed == 0, "intermesh: direct vector transfer failed to unmap " << failed << " points");
          const long double told = 64.0L * eps * (pmax * max_abs_v(vc) * (long double)max_row_len(P)) + 1e-300L;
          for(Index i = 0; i < ndf; ++i) VF_CHECK(std::fabs((long double)td(i) - (long double)tv(i)) <= told, "intermesh: transfer_intermesh_vector_direct[" << i << "]=" << (double)td(i) << " vs weight protocol " << (double)tv(i));
        }
        if constexpr (it32)
        {
          // extension round: blocked inter-mesh vector transfer; component 1 is -c/2 (an exact scaling), so both
          // components are known from the scalar result up to the order of the scatter-adds
          typedef LAFEM::DenseVectorBlocked<DT_, IT_, 2> BVec;
          BVec bs(ndc), bt(ndf), bw(ndf); bt.format(); bw.format();
          for(Index j = 0; j < ndc; ++j) { Tiny::Vector<DT_, 2> v2; v2[0] = vc(j); v2[1] = DT_(-0.5) * vc(j); bs(j, v2); }
          failed = Assembly::GridTransfer::transfer_intermesh_vector(bt, bw, bs, sf, sc, f2c, icub);
          VF_CHECK(failed == 0, "intermesh: blocked vector transfer failed to unmap " << failed << " points");
          bw.component_invert(bw); bt.component_product(bt, bw);
          const long double told = 64.0L * eps * (pmax * max_abs_v(vc) * (long double)max_row_len(P)) + 1e-300L;
          for(Index i = 0; i < ndf; ++i)
          {
            auto v2 = bt(i);
            VF_CHECK(std::fabs((long double)v2[0] - (long double)tv(i)) <= told, "intermesh: blocked vector transfer component 0 [" << i << "]=" << (double)v2[0] << " vs scalar " << (double)tv(i));
            VF_CHECK(std::fabs((long double)v2[1] + 0.5L * (long double)tv(i)) <= told, "intermesh: blocked vector transfer component 1 [" << i << "]=" << (double)v2[1] << " vs scalar " << (double)(-0.5L * tv(i)));
          }
        }
      };
      Mat M1, Mn; Vec t1, tn;
      run(1, M1, t1);
      // inverse mapping (Newton, tolerance eps^0.9 on the step) limits the accuracy of the unmapped points
      const long double tolm = std::max(tf, 1e5L) * eps * pmax; // measured ratios up to 1.4e3
      long double worst = 0;
      for(Index k = 0; k < P.used_elements(); ++k) { worst = std::max(worst, std::fabs((long double)M1.val()[k] - (long double)P.val()[k])); }
      calib(etag + " intermesh", worst / (eps * pmax));
      for(Index i = 0; i < P.rows(); ++i) for(auto k = P.row_ptr()[i]; k < P.row_ptr()[i + 1]; ++k)
        VF_CHECK(std::fabs((long double)M1.val()[k] - (long double)P.val()[k]) <= tolm, "intermesh: entry (" << i << "," << P.col_ind()[k] << ") " << (double)M1.val()[k] << " vs prolongation " << (double)P.val()[k]);
      std::vector<long double> ref, aref; ref_apply(M1, vc, ref, aref);
      const long double vmax = max_abs_v(vc);
      if(!skip_imv) for(Index i = 0; i < ndf; ++i) VF_CHECK(std::fabs((long double)t1(i) - ref[i]) <= 8.0L * 64.0L * (long double)(max_row_len(P) + 3) * (eps / 2) * (aref[i] + pmax * vmax) + 1e-300L, "intermesh: vector transfer [" << i << "]=" << (double)t1(i) << " vs matrix " << (double)ref[i]);
      // reverse direction (no tape draws): target = coarse space, source = fine space, adjactor coarse cell -> its children.
      // With an odd Gauss-Legendre rule on hypercubes the midpoint coordinates of the coarse cubature points lie ON the
      // interfaces between the children: such a point is found in 2^m source cells and enters with the documented averaging
      // weight 1/2^m.  The result is the local L2 projection onto the coarse space, a left inverse of the prolongation (nested spaces).
      if(!simplex && em.nested)
      {
        omp_set_num_threads(1);
        std::vector<Index> cptr(ncc + 1, 0), cidx(nfc); for(Index f = 0; f < nfc; ++f) cptr[Index(rel.parent[f]) + 1]++; for(Index q = 0; q < ncc; ++q) cptr[q + 1] += cptr[q];
        { std::vector<Index> pos(cptr.begin(), cptr.end() - 1); for(Index f = 0; f < nfc; ++f) cidx[pos[Index(rel.parent[f])]++] = f; }
        Adjacency::Graph c2f(ncc, nfc, nfc, cptr.data(), cidx.data());
        int npts = (need + extra) / 2 + 1; if(npts % 2 == 0) ++npts; if(npts > 19) npts = 19;
        const String rcub = "gauss-legendre:" + std::to_string(npts);
        Mat Tm = P.transpose(); Tm.format(); Vec wr(ndc, DT_(0));
        int failed = Assembly::GridTransfer::assemble_intermesh_transfer(Tm, wr, sc, sf, c2f, rcub);
        VF_CHECK(failed == 0, "intermesh (fine->coarse, " << rcub.c_str() << "): " << failed << " cubature points could not be unmapped");
        wr.component_invert(wr); Tm.scale_rows(Tm, wr);
        std::vector<long double> y, ay; ref_apply(P, vc, y, ay);
        long double tmax = 0; for(Index k = 0; k < Tm.used_elements(); ++k) tmax = std::max(tmax, std::fabs((long double)Tm.val()[k]));
        const long double vmx = max_abs_v(vc), tolr = std::max(tf, 1e5L) * eps * (tmax * pmax * vmx * (long double)(max_row_len(P) + 3) + vmx) + 1e-300L;
        for(Index i = 0; i < Tm.rows(); ++i)
        {
          long double z = 0; for(auto k = Tm.row_ptr()[i]; k < Tm.row_ptr()[i + 1]; ++k) z += (long double)Tm.val()[k] * y[Tm.col_ind()[k]];
          VF_CHECK(std::fabs(z - (long double)vc(i)) <= tolr, "intermesh (fine->coarse, " << rcub.c_str() << ", cubature points on the child interfaces): (T P c)[" << i << "] = " << (double)z << " but c[" << i << "] = " << (double)vc(i) << " (tol " << (double)tolr << ")");
        }
        // the matrix-free counterpart in the same direction: every coarse target cell gathers from SEVERAL fine source cells
        if(!skip_imv)
        {
          Vec yf(ndf, DT_(0)); P.apply(yf, vc); Vec tc(ndc, DT_(0)), wc(ndc, DT_(0));
          failed = Assembly::GridTransfer::transfer_intermesh_vector(tc, wc, yf, sc, sf, c2f, rcub);
          VF_CHECK(failed == 0, "intermesh (fine->coarse vector, " << rcub.c_str() << "): " << failed << " cubature points could not be unmapped");
          wc.component_invert(wc); tc.component_product(tc, wc);
          for(Index i = 0; i < ndc; ++i) VF_CHECK(std::fabs((long double)tc(i) - (long double)vc(i)) <= tolr, "intermesh (fine->coarse, matrix-free vector transfer): T(P c)[" << i << "] = " << (double)tc(i) << " but c[" << i << "] = " << (double)vc(i) << " (tol " << (double)tolr << ")");
        }
      }
      if(nthreads > 1)
      {
        run(nthreads, Mn, tn);
        // only the order of the scatter-adds may differ between thread counts
        for(Index k = 0; k < P.used_elements(); ++k) VF_CHECK(std::fabs((long double)Mn.val()[k] - (long double)M1.val()[k]) <= 64.0L * eps * pmax, "intermesh: threads " << nthreads << " vs 1: value " << k << " " << (double)Mn.val()[k] << " vs " << (double)M1.val()[k]);
        if(!skip_imv) for(Index i = 0; i < ndf; ++i) VF_CHECK(std::fabs((long double)tn(i) - (long double)t1(i)) <= 64.0L * eps * (pmax * vmax * (long double)max_row_len(P)) + 1e-300L, "intermesh: threads " << nthreads << " vs 1: vector " << i);
      }
     }
    }
    else if(op == op_chain)
    {
      // three levels: composite prolongation gives the same function, composite truncation inverts it
      Mat P2, T2, R2;
      assemble_transfer(P2, T2, R2, *space[2], *space[1], String(cub), variant, true);
      Mat P1, T1, R1;
      assemble_transfer(P1, T1, R1, *space[1], *space[0], String(cub), variant, true);
      Vec y1(space[1]->get_num_dofs()), y2(space[2]->get_num_dofs());
      P1.apply(y1, vc); P2.apply(y2, y1);
      compare_functions(0, 2, vc, y2, "chain");
      Vec z1(space[1]->get_num_dofs()), z0(space[0]->get_num_dofs());
      T2.apply(z1, y2); T1.apply(z0, z1);
      const long double scale = max_abs_v(vc) + 1e-300L;
      calib(etag + " chain-trunc", worst_diff(z0, vc) / (eps * scale));
      compare_vectors(z0, vc, 2 * tf * eps * scale, "chain: T1*T2*P2*P1*c vs c");
    }
  }
} // namespace c18
