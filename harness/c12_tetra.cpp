// C12 targets for shape Tetra (the mesh generator mg::gen_node<Tetra> is instantiated in c10_gen_tetra.cpp)
#include "common/c12_core.hpp"
extern template mg::Loaded<mg::Tetra> mg::gen_node<mg::Tetra>(vf::Tape&, vf::Ctx&, const mg::GenOpts&, mg::GenInfo&);
void c12_register_tetra(std::vector<vf::Target>& tg) { c12::register_shape<mg::Tetra>(tg); }
