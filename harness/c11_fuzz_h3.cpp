// C11 libFuzzer target fuzz_mesh_h3 (one TU per shape)
#include "common/c11_fuzz.hpp"
namespace c11 { void fuzz_h3(const uint8_t* d, size_t n) { fuzz_mesh<MeshH3>(d, n); } }
