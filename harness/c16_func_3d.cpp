// C16: linear functionals and function-integral jobs on 3D meshes (see c16_func.hpp)
#include "c16_func.hpp"
namespace c16 { template void func_spaces<Shape::Hypercube<3>>(vf::Tape&, vf::Ctx&, const RawMesh&, int); template void func_spaces<Shape::Simplex<3>>(vf::Tape&, vf::Ctx&, const RawMesh&, int); }
