// C13 layer (1): in-process emulation - one binary, targets registered by the per-shape TUs
#include "common/vf.hpp"
#include <kernel/runtime.hpp>
void c13_register_quad(std::vector<vf::Target>&); void c13_register_tria(std::vector<vf::Target>&);
void c13_register_hexa(std::vector<vf::Target>&); void c13_register_tetra(std::vector<vf::Target>&);
int main(int argc, char** argv)
{
  FEAT::Runtime::ScopeGuard guard(argc, argv);
  std::vector<vf::Target> tg; c13_register_quad(tg); c13_register_tria(tg); c13_register_hexa(tg); c13_register_tetra(tg);
  return vf::main_impl(argc, argv, tg);
}
