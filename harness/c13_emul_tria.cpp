// C13 layer (1) targets for shape Tria (generator instantiated in c10_gen_tria.cpp)
#include "common/c13_emul.hpp"
#include <kernel/space/lagrange3/element.hpp>
extern template mg::Loaded<mg::Tria> mg::gen_node<mg::Tria>(vf::Tape&, vf::Ctx&, const mg::GenOpts&, mg::GenInfo&);
void c13_register_tria(std::vector<vf::Target>& tg)
{
  tg.push_back({"emul_tria", [](vf::Tape& t, vf::Ctx& c) { switch(t.pick({3, 2, 2, 1, 2})) {
    case 0: c13::Emul<mg::Tria, FEAT::Space::Lagrange1::Element>::run(t, c, "lagrange1"); break;
    case 1: c13::Emul<mg::Tria, FEAT::Space::Lagrange2::Element>::run(t, c, "lagrange2"); break;
    case 2: c13::Emul<mg::Tria, FEAT::Space::CroRavRanTur::Element>::run(t, c, "crorav"); break;
    case 3: c13::Emul<mg::Tria, c13::DiscP0>::run(t, c, "discontinuous-p0", false); break;
    default: c13::Emul<mg::Tria, FEAT::Space::Lagrange3::Element>::run(t, c, "lagrange3"); /* several dofs per shared edge */ } }, 192, 3, 60000});
}
