// C16: assembly equals the integrals on every route - target registry of the c16_asm binary
#include "common/vf.hpp"
#include <kernel/runtime.hpp>
namespace c16
{
  void reg_bilin(std::vector<vf::Target>&); void reg_blocked(std::vector<vf::Target>&); void reg_func(std::vector<vf::Target>&); void reg_burgers(std::vector<vf::Target>&); void reg_trace(std::vector<vf::Target>&);
}
int main(int argc, char** argv)
{
  FEAT::Runtime::ScopeGuard guard(argc, argv);
  std::vector<vf::Target> tg;
  c16::reg_bilin(tg); c16::reg_blocked(tg); c16::reg_func(tg); c16::reg_burgers(tg); c16::reg_trace(tg);
  return vf::main_impl(argc, argv, tg);
}
