// C08 (square-blocked BCSR<2,2>, BCSR<3,3>): block versions of the stationary preconditioners
#include "common/c08_core.hpp"
using namespace vf;

static void bcsr_case(Tape& t, Ctx& c, int kind, int n2 = 8, int n3 = 6)
{
  switch(t.pick({4, 2, 3, 1}))
  {
  case 0: { c08::Runner<double, std::uint64_t, 2> r(t, c); r.run(n2, kind); break; }
  case 1: { c08::Runner<float, std::uint32_t, 2> r(t, c); r.run(n2, kind); break; }
  case 2: { c08::Runner<double, std::uint64_t, 3> r(t, c); r.run(n3, kind); break; }
  default: { c08::Runner<float, std::uint64_t, 3> r(t, c); r.run(n3, kind); break; }
  }
}

int main(int argc, char** argv)
{
  FEAT::Runtime::ScopeGuard guard(argc, argv);
  std::vector<Target> tg;
  tg.push_back({"bcsr", [](Tape& t, Ctx& c) { bcsr_case(t, c, -1); }, 192, 14});
  tg.push_back({"bcsr_ilu", [](Tape& t, Ctx& c) { bcsr_case(t, c, c08::K_ILU); }, 192, 14});
  tg.push_back({"bcsr_big", [](Tape& t, Ctx& c) { bcsr_case(t, c, -1, 14, 10); }, 512, 48});   // thorough tier only
  return main_impl(argc, argv, tg);
}
