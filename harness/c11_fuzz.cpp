// C11 (B): libFuzzer entry point.  Targets (env C11_FUZZ_TARGET): q2 h3 s2 s3 (bytes -> MeshFileReader, validity predicate,
// round trip), xml (bytes -> Xml::Scanner with a DummyParser, differential against an independent model of the line
// grammar), ini (bytes -> PropertyMap::read, dump/parse idempotence).
#include "common/vf.hpp"
#include <kernel/runtime.hpp>
#include <kernel/util/property_map.hpp>
#include <kernel/util/xml_scanner.hpp>
#include <kernel/util/exception.hpp>
#include <new>

// ASan's operator new aborts on absurd sizes instead of throwing; the parser under test relies on std::bad_alloc
// (declared counts become allocation sizes).  malloc keeps the heap checks, the limit keeps the run inside -rss_limit_mb.
static void* c11_alloc(std::size_t n) { if(n > (std::size_t(256) << 20)) throw std::bad_alloc(); void* p = malloc(n ? n : 1); if(!p) throw std::bad_alloc(); return p; }
void* operator new(std::size_t n) { return c11_alloc(n); }
void* operator new[](std::size_t n) { return c11_alloc(n); }
void* operator new(std::size_t n, const std::nothrow_t&) noexcept { return n > (std::size_t(256) << 20) ? nullptr : malloc(n ? n : 1); }
void* operator new[](std::size_t n, const std::nothrow_t&) noexcept { return n > (std::size_t(256) << 20) ? nullptr : malloc(n ? n : 1); }
void operator delete(void* p) noexcept { free(p); }
void operator delete[](void* p) noexcept { free(p); }
void operator delete(void* p, std::size_t) noexcept { free(p); }
void operator delete[](void* p, std::size_t) noexcept { free(p); }

namespace c11
{
  struct FuzzStats;
  void fuzz_q2(const uint8_t*, size_t); void fuzz_h3(const uint8_t*, size_t); void fuzz_s2(const uint8_t*, size_t); void fuzz_s3(const uint8_t*, size_t);
  // thin interface to the statistics object that lives in the shape TUs' header (defined in c11_fuzz_q2.cpp)
  void stats_init(const char* target, const char* path, const char* excl);
  void stats_exec(); void stats_class(const char* c); void stats_nt(const std::string& text); void stats_dump(); bool stats_excl(const char* sw);
  [[noreturn]] void stats_finding(const std::string& key);
}
using namespace FEAT;

namespace
{
  std::string trim(const std::string& s) { static const char* ws = " \a\b\f\n\r\t\v"; size_t a = s.find_first_not_of(ws); if(a == std::string::npos) return ""; size_t b = s.find_last_not_of(ws); return s.substr(a, b - a + 1); }
  bool is_alpha(char c) { return (c >= 'a' && c <= 'z') || (c >= 'A' && c <= 'Z'); }
  bool is_alnum(char c) { return is_alpha(c) || (c >= '0' && c <= '9'); }

  // ---- independent model of the markup line grammar (xml_scanner.hpp documentation + mesh_format.dox) ----
  // returns 0 content line, 1 markup, -1 malformed
  int model_markup(const std::string& line, std::string& name, bool& term, bool& closed)
  {
    bool xh = line.front() == '<', xt = line.back() == '>';
    if(!xh && !xt) return 0;
    if(xh != xt) return -1;
    std::string d = trim(line.substr(1, line.size() - 2));
    if(d.empty() || d.find('<') != std::string::npos || d.find('>') != std::string::npos) return -1;
    term = d.front() == '/'; closed = d.back() == '/';
    if(term && closed) return -1;
    if(term) d.erase(0, 1); if(closed) d.pop_back();
    d = trim(d); if(d.empty()) return -1;
    size_t n0 = d.find_first_of(" \a\b\f\n\r\t\v"); name = d.substr(0, n0); d = n0 == std::string::npos ? "" : trim(d.substr(n0));
    if(name.empty() || !is_alpha(name[0])) return -1; for(size_t i = 1; i < name.size(); ++i) if(!is_alnum(name[i])) return -1;
    if(term) return d.empty() ? 1 : -1;
    while(!d.empty())
    {
      size_t p = d.find('='); if(p == std::string::npos) return -1;
      std::string k = trim(d.substr(0, p)); d = trim(d.substr(p + 1));
      if(k.empty() || !is_alpha(k[0])) return -1; for(size_t i = 1; i < k.size(); ++i) if(!is_alnum(k[i])) return -1;
      if(d.empty() || d[0] != '"') return -1; size_t q = d.find('"', 1); if(q == std::string::npos) return -1;
      d = trim(d.substr(q + 1));
    }
    return 1;
  }
  /// true iff the text is a well-formed document for a parser that allows every markup/attribute/content (DummyParser)
  bool model_accepts(const std::string& text)
  {
    std::vector<std::string> stack; bool have_root = false; size_t pos = 0;
    while(pos <= text.size())
    {
      size_t e = text.find('\n', pos); bool last = (e == std::string::npos); if(last) e = text.size();
      std::string line = trim(text.substr(pos, e - pos)); pos = e + 1;
      if(!line.empty())
      {
        std::string name; bool term = false, closed = false;
        if(!have_root)
        {
          if(model_markup(line, name, term, closed) != 1 || term || closed) return false;
          have_root = true; stack.push_back(name);
        }
        else if(line.rfind("<!--", 0) == 0) { if(line.size() < 3 || line.substr(line.size() - 3) != "-->") return false; }
        else
        {
          int r = model_markup(line, name, term, closed); if(r < 0) return false;
          if(r == 1)
          {
            if(term) { if(stack.back() != name) return false; stack.pop_back(); if(stack.empty()) return true; }   // the scanner stops at the root terminator
            else if(!closed) stack.push_back(name);
          }
        }
      }
      if(last) break;
    }
    return false;   // no root markup, or end of file with open markups
  }

  void fuzz_xml(const uint8_t* data, size_t size)
  {
    std::string text((const char*)data, size);
    bool expect = model_accepts(text), got = false; std::string how;
    try { std::istringstream iss(text); Xml::Scanner sc(iss); sc.scan(std::make_shared<Xml::DummyParser>()); got = true; }
    catch(const Xml::Error& e) { how = e.what(); }
    catch(const std::bad_alloc&) { c11::stats_class("bad_alloc"); return; }
    catch(const std::exception& e) { c11::stats_finding(std::string("xml:exc:") + typeid(e).name() + ":" + e.what()); }
    c11::stats_class(got ? "accepted" : (how.find("Syntax") != std::string::npos ? "rejected:syntax" : "rejected:other"));
    // non-trivial: accepted documents and rejections that happen behind a valid root markup
    if(got || (expect != got)) c11::stats_nt(text); else { size_t nl = text.find('\n'); std::string n; bool t, c; std::string first = trim(text.substr(0, nl)); if(!first.empty() && model_markup(first, n, t, c) == 1 && !t && !c) c11::stats_nt(text); }
    if(expect && !got) c11::stats_finding("xml:rejected-wellformed:" + how);
    if(!expect && got) c11::stats_finding("xml:accepted-malformed");
  }

  // ---- INI ----
  std::string pm_dump(const PropertyMap& p) { std::ostringstream os; p.write(os); return os.str(); }
  bool pm_same(const PropertyMap& a, const PropertyMap& b, std::string& why)
  {
    if(a.get_entry_map().size() != b.get_entry_map().size()) { why = "entry count"; return false; }
    for(auto it = a.begin_entry(), jt = b.begin_entry(); it != a.end_entry(); ++it, ++jt) if(std::string(it->first) != std::string(jt->first) || std::string(it->second) != std::string(jt->second)) { why = "entry '" + it->first + "'"; return false; }
    auto it = a.begin_section(); auto jt = b.begin_section();
    for(; it != a.end_section() && jt != b.end_section(); ++it, ++jt) { if(std::string(it->first) != std::string(jt->first)) { why = "section name"; return false; } if(!pm_same(*it->second, *jt->second, why)) return false; }
    if(it != a.end_section() || jt != b.end_section()) { why = "section count"; return false; }
    return true;
  }
  /// trees the format cannot express (ini_format.dox): a line "[...]" is a section marker, so an entry whose key starts with
  /// '[' and whose value ends with ']' has no spelling (like the documented "no value with a hash sign"); such an entry can
  /// only come from a continuation line.  Same for line breaks: a key, value or section name spanning lines does not exist.
  bool unwritable(const PropertyMap& p)
  {
    for(auto it = p.begin_entry(); it != p.end_entry(); ++it) if(!it->first.empty() && it->first.front() == '[' && !it->second.empty() && it->second.back() == ']') return true;
    for(auto it = p.begin_section(); it != p.end_section(); ++it) if(unwritable(*it->second)) return true;
    return false;
  }
  size_t pm_count(const PropertyMap& p) { size_t n = p.get_entry_map().size(); for(auto it = p.begin_section(); it != p.end_section(); ++it) n += 1 + pm_count(*it->second); return n; }

  void fuzz_ini(const uint8_t* data, size_t size)
  {
    std::string text((const char*)data, size);
    PropertyMap y;
    try { std::istringstream is(text); y.read(is, true); }
    catch(const FEAT::Exception&) { c11::stats_class("rejected"); if(text.find('\n') != std::string::npos && text.find('=') != std::string::npos) c11::stats_nt(text); return; }
    catch(const std::bad_alloc&) { c11::stats_class("bad_alloc"); return; }
    catch(const std::exception& e) { c11::stats_finding(std::string("ini:exc:") + typeid(e).name() + ":" + e.what()); }
    c11::stats_class("parsed"); if(pm_count(y) >= 2) c11::stats_nt(text);
    if(unwritable(y)) { c11::stats_class("parsed:unwritable"); return; }
    std::string w1 = pm_dump(y); PropertyMap z;
    try { std::istringstream is(w1); z.read(is, true); } catch(const std::exception& e) { c11::stats_finding(std::string("ini:reject-own-output:") + e.what()); }
    std::string why; if(!pm_same(y, z, why)) c11::stats_finding("ini:structure:" + why);
    if(pm_dump(z) != w1) c11::stats_finding("ini:second-dump");
    c11::stats_class("roundtrip-ok");
  }

  void (*the_target)(const uint8_t*, size_t) = nullptr;
  unsigned long long since_dump = 0;
}

extern "C" int LLVMFuzzerInitialize(int* argc, char*** argv)
{
  Runtime::initialize(*argc, *argv);
  const char* tg = getenv("C11_FUZZ_TARGET"); std::string t = tg ? tg : "q2";
  if(t == "q2") the_target = c11::fuzz_q2; else if(t == "h3") the_target = c11::fuzz_h3; else if(t == "s2") the_target = c11::fuzz_s2; else if(t == "s3") the_target = c11::fuzz_s3;
  else if(t == "xml") the_target = fuzz_xml; else if(t == "ini") the_target = fuzz_ini; else { fprintf(stderr, "unknown C11_FUZZ_TARGET %s\n", t.c_str()); exit(2); }
  c11::stats_init(t.c_str(), getenv("C11_STATS"), getenv("C11_EXCLUDE"));
  atexit([]() { c11::stats_dump(); });
  return 0;
}

extern "C" int LLVMFuzzerTestOneInput(const uint8_t* data, size_t size)
{
  c11::stats_exec();
  the_target(data, size);
  if(++since_dump >= 4000) { since_dump = 0; c11::stats_dump(); }
  return 0;
}
