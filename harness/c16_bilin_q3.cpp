// C16: scalar bilinear operators on Hypercube<3> meshes (see c16_bilin.hpp)
#include "c16_bilin.hpp"
namespace c16 { void reg_bilin_q3(std::vector<vf::Target>& tg) { tg.push_back({"bilin_hexa", [](vf::Tape& t, vf::Ctx& c) { bilin_target<Shape::Hypercube<3>, false>(t, c); }, 320, 24, 120000}); } }
