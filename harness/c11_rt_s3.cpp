// C11 structured round trip + fault injection, shape s3 (one TU per shape so that the four reader/writer
// instantiations compile in parallel)
#include "common/c11_gen.hpp"
namespace c11
{
  void rt_s3(Tape& t, Ctx& c) { rt_case<MeshS3>(t, c); }
  void fault_s3(Tape& t, Ctx& c) { fault_case<MeshS3>(t, c); }
}
