// C11 (A): structured round trips - mesh files (4 shapes, separate TUs), property maps (INI), graphs - and the
// fault property (a valid file with one injected truncation / count / dimension / index / tag / syntax fault must be rejected)
#include "common/vf.hpp"
#include <kernel/runtime.hpp>
#include <kernel/util/property_map.hpp>
#include <kernel/util/exception.hpp>
#include <kernel/adjacency/graph.hpp>
#include <kernel/adjacency/permutation.hpp>
using namespace vf;
using namespace FEAT;

namespace c11
{
  void rt_surf(Tape&, Ctx&); void rt_q2(Tape&, Ctx&); void rt_h3(Tape&, Ctx&); void rt_s2(Tape&, Ctx&); void rt_s3(Tape&, Ctx&);
  void fault_q2(Tape&, Ctx&); void fault_h3(Tape&, Ctx&); void fault_s2(Tape&, Ctx&); void fault_s3(Tape&, Ctx&);
  void init_files_main();
}

// ------------------------------------------------------------------------------------------------------------------
// property maps
// ------------------------------------------------------------------------------------------------------------------
namespace
{
  // model of a property map: case-insensitive keys, last declaration wins, sections merge (ini_format.dox)
  struct Sec
  {
    std::map<std::string, std::pair<std::string, std::string>> val;   // lower(key) -> (key as first declared, value)
    std::map<std::string, std::pair<std::string, std::unique_ptr<Sec>>> sub;
    Sec* section(const std::string& n) { auto& e = sub[low(n)]; if(!e.second) { e.first = n; e.second.reset(new Sec()); } return e.second.get(); }
    void entry(const std::string& k, const std::string& v) { auto it = val.find(low(k)); if(it == val.end()) val[low(k)] = std::make_pair(k, v); else it->second.second = v; }
    static std::string low(std::string s) { for(auto& ch : s) ch = (char)std::tolower((unsigned char)ch); return s; }
    J json() const
    {
      J j = J::obj(); J v = J::obj(); for(auto& kv : val) v.set(kv.second.first, kv.second.second); j.set("entries", v);
      J s = J::obj(); for(auto& kv : sub) s.set(kv.second.first, kv.second.second->json()); j.set("sections", s); return j;
    }
    size_t count() const { size_t n = val.size(); for(auto& kv : sub) n += 1 + kv.second.second->count(); return n; }
  };
  J pm_json(const PropertyMap& p)
  {
    J j = J::obj(); J v = J::obj(); for(auto it = p.begin_entry(); it != p.end_entry(); ++it) v.set(it->first, it->second); j.set("entries", v);
    J s = J::obj(); for(auto it = p.begin_section(); it != p.end_section(); ++it) s.set(it->first, pm_json(*it->second)); j.set("sections", s); return j;
  }
  /// compares model and parsed map: same keys (case-insensitively), same values verbatim
  bool pm_equal(const Sec& m, const PropertyMap& p, const std::string& path, std::string& why)
  {
    if(m.val.size() != p.get_entry_map().size()) { why = path + ": entry count " + std::to_string(m.val.size()) + " vs " + std::to_string(p.get_entry_map().size()); return false; }
    for(auto& kv : m.val) { auto r = p.get_entry(kv.second.first); if(!r.second) { why = path + ": key '" + kv.second.first + "' missing"; return false; } if(std::string(r.first) != kv.second.second) { why = path + "/" + kv.second.first + ": '" + kv.second.second + "' vs '" + r.first + "'"; return false; } }
    size_t ns = 0; for(auto it = p.begin_section(); it != p.end_section(); ++it) ++ns;
    if(m.sub.size() != ns) { why = path + ": section count " + std::to_string(m.sub.size()) + " vs " + std::to_string(ns); return false; }
    for(auto& kv : m.sub) { const PropertyMap* s = p.get_sub_section(kv.second.first); if(!s) { why = path + ": section '" + kv.second.first + "' missing"; return false; } if(!pm_equal(*kv.second.second, *s, path + "/" + kv.second.first, why)) return false; }
    return true;
  }
  void pm_build(const Sec& m, PropertyMap& p)
  {
    for(auto& kv : m.val) p.add_entry(kv.second.first, kv.second.second, true);
    for(auto& kv : m.sub) pm_build(*kv.second.second, *p.add_section(kv.second.first));
  }

  // token generators. Domain (ini_format.dox): keys/values/section names are trimmed and parsed verbatim; '#' starts a
  // comment everywhere (so no token contains it); a key ends at the first '='; a value ending in '&' is a line
  // continuation; a line "[...]" is a section marker - hence an entry whose key starts with '[' while its value ends
  // with ']' cannot be written down (same status as the documented "no value with a hash sign"); not generated.
  std::string gen_token(Tape& t, int what)   // 0 key, 1 value, 2 section name
  {
    static const char* keys[] = { "key", "Key", "a", "solver.type", "max-iter", "x y", "{", "}", "[k", "k]", "tol_rel", "B", "b", "@include", "!", "~", "a/b" };
    static const char* vals[] = { "", "1", "value", "1E-8", "Hello World!", "a = b", "x=y=z", "[1 2 3]", "{", "}", "& x", "a&b", "tab\there", "3.1415926535 8979323846", "/path/to/file.xml", "\"quoted\"", "-", "]" };
    static const char* secs[] = { "Section", "section", "A", "B", "Sub Section", "a]b", "[nested]", "k=v", "x{", "!", "~", "S.1" };
    std::string s;
    if(what == 0) s = keys[t.range(0, (int)(sizeof keys / sizeof *keys) - 1)];
    else if(what == 1) s = vals[t.range(0, (int)(sizeof vals / sizeof *vals) - 1)];
    else s = secs[t.range(0, (int)(sizeof secs / sizeof *secs) - 1)];
    if(t.flag(1, 3)) s += std::to_string(t.range(0, 9));
    return s;
  }
  bool unwritable(const std::string& k, const std::string& v) { return !k.empty() && k[0] == '[' && !v.empty() && v.back() == ']'; }

  void gen_tree(Tape& t, Sec& s, int depth, int& budget)
  {
    int ne = t.range(0, 4);
    for(int i = 0; i < ne && budget > 0; ++i, --budget) { std::string k = gen_token(t, 0), v = gen_token(t, 1); if(unwritable(k, v)) v += "x"; s.entry(k, v); }
    int ns = depth >= 3 ? 0 : t.range(0, 3 - depth);
    for(int i = 0; i < ns && budget > 0; ++i, --budget) gen_tree(t, *s.section(gen_token(t, 2)), depth + 1, budget);
  }

  std::string pm_dump(const PropertyMap& p) { std::ostringstream os; p.write(os); return os.str(); }

  /// (A) tree -> dump -> parse -> same tree; dump again byte-identical
  void ini_tree(Tape& t, Ctx& c)
  {
    Sec m; int budget = 4 + t.sized(0, 40); gen_tree(t, m, 0, budget);
    c.desc.set("kind", "tree"); c.desc.set("tree", m.json()); c.op = "ini-roundtrip"; c.nontrivial = m.count() >= 2;
    c.label(m.sub.empty() ? "flat" : "nested"); if(m.count() == 0) c.label("empty");
    c.announce();
    PropertyMap x; pm_build(m, x);
    std::string w1 = pm_dump(x);
    PropertyMap y; { std::istringstream is(w1); try { y.read(is, true); } catch(const std::exception& e) { VF_FAIL("reject-own-output:" << e.what()); } }
    std::string why; VF_CHECK(pm_equal(m, y, "", why), "tree differs after dump->parse at " << why);
    std::string w2 = pm_dump(y); VF_CHECK(w1 == w2, "second dump differs");
  }

  /// free-style text (comments, optional braces, continuation lines, blank lines, odd spacing) with the tree it must denote
  void ini_text(Tape& t, Ctx& c)
  {
    Sec root; std::vector<Sec*> stack(1, &root); Sec* cur = &root; std::string txt; int nl = 2 + t.sized(0, 30); bool used_cont = false, used_comment = false, used_nobrace = false;
    enum { None, Entry, Section, Open, Close } last = None;
    auto ws = [&]() { static const char* w[] = { "", " ", "  ", "\t" }; return std::string(w[t.range(0, 3)]); };
    auto cmt = [&]() { if(t.flag(1, 4)) { used_comment = true; return ws() + "# c=1 [x] {"; } return std::string(); };
    for(int i = 0; i < nl; ++i)
    {
      int k = t.pick({6, 3, 2, 2, 1, 1});
      if(k == 0)   // entry: never directly after '}' (doc: error); directly after a bare section marker it is the brace-less form
      {
        if(last == Close) continue;
        std::string key = gen_token(t, 0), v = gen_token(t, 1); if(unwritable(key, v)) v += "x";
        if(last == Section) used_nobrace = true;
        if(!v.empty() && t.flag(1, 4))
        {
          // continuation: split the value; the part before '&' keeps its trailing blanks, the continued line is trimmed (doc)
          size_t cut = (size_t)t.range(0, (int)v.size()); std::string a = v.substr(0, cut), b = v.substr(cut);
          // pieces are trimmed when read: keep blanks away from the cut and let neither piece be empty or start with '#'
          if(a.empty() || b.empty() || std::isspace((unsigned char)a.back()) || std::isspace((unsigned char)b.front()) || std::isspace((unsigned char)a.front())) { txt += ws() + key + ws() + "=" + ws() + v + cmt() + "\n"; }
          else { used_cont = true; txt += ws() + key + ws() + "=" + ws() + a + "&" + cmt() + "\n" + (t.flag(1, 3) ? "\n   # only a comment\n" : "") + ws() + b + cmt() + "\n"; }
        }
        else txt += ws() + key + ws() + "=" + ws() + v + cmt() + "\n";
        cur->entry(key, v); last = Entry;
      }
      else if(k == 1) { std::string n = gen_token(t, 2); txt += ws() + "[" + ws() + n + ws() + "]" + cmt() + "\n"; cur = stack.back()->section(n); last = Section; }
      else if(k == 2 && last == Section) { txt += ws() + "{" + cmt() + "\n"; stack.push_back(cur); last = Open; }
      else if(k == 3 && stack.size() > 1 && last != None) { txt += ws() + "}" + cmt() + "\n"; stack.pop_back(); cur = stack.back(); last = Close; }
      else if(k == 4) txt += ws() + "\n";
      else if(k == 5) { txt += ws() + "# comment = [not] {parsed}\n"; used_comment = true; }
    }
    while(stack.size() > 1) { txt += "}\n"; stack.pop_back(); }
    c.desc.set("kind", "text"); c.desc.set("text", txt); c.op = "ini-parse"; c.nontrivial = root.count() >= 2;
    if(used_cont) c.label("continuation"); if(used_comment) c.label("comments"); if(used_nobrace) c.label("brace-less-section"); c.label(root.sub.empty() ? "flat" : "nested");
    c.announce();
    PropertyMap y; { std::istringstream is(txt); try { y.read(is, true); } catch(const std::exception& e) { VF_FAIL("reject-valid-text:" << e.what()); } }
    std::string why; VF_CHECK(pm_equal(root, y, "", why), "parsed tree differs from the documented meaning at " << why);
    std::string w1 = pm_dump(y); PropertyMap z; { std::istringstream is(w1); try { z.read(is, true); } catch(const std::exception& e) { VF_FAIL("reject-own-output:" << e.what()); } }
    VF_CHECK(pm_equal(root, z, "", why), "tree differs after dump->parse at " << why);
    VF_CHECK(pm_dump(z) == w1, "second dump differs");
  }

  /// malformed INI: a dump with nested sections and one fault (cut inside a brace block, missing/extra brace, line without '=')
  void ini_fault(Tape& t, Ctx& c)
  {
    Sec m; int budget = 6 + t.sized(0, 20); gen_tree(t, m, 0, budget); m.section("S")->entry("k", "v");   // at least one brace block
    PropertyMap x; pm_build(m, x); std::string w = pm_dump(x);
    std::vector<std::string> lines; { std::istringstream is(w); std::string l; while(std::getline(is, l)) lines.push_back(l); }
    auto trimmed = [&](size_t i) { size_t a = lines[i].find_first_not_of(' '); return a == std::string::npos ? std::string() : lines[i].substr(a); };
    std::vector<size_t> opens, closes, inside; int depth = 0;
    for(size_t i = 0; i < lines.size(); ++i) { std::string s = trimmed(i); if(s == "{") { opens.push_back(i); ++depth; } else if(s == "}" || s.rfind("} #", 0) == 0) { closes.push_back(i); --depth; } /* not "} = value": '}' is a legal key */ if(depth > 0) inside.push_back(i); }
    int k = t.pick({3, 2, 2, 2, 2}); std::string kind; std::vector<std::string> out = lines;
    if(k == 0) { size_t cut = inside[(size_t)t.range(0, (int)inside.size() - 1)]; out.resize(cut + 1); kind = "truncate-inside-braces"; }
    else if(k == 1) { out.erase(out.begin() + (long)opens[(size_t)t.range(0, (int)opens.size() - 1)]); kind = "drop-open-brace"; }
    else if(k == 2) { out.erase(out.begin() + (long)closes[(size_t)t.range(0, (int)closes.size() - 1)]); kind = "drop-close-brace"; }
    else if(k == 3) { out.insert(out.begin() + (long)t.range(0, (int)out.size()), t.flag(1, 2) ? "garbage without equals sign" : "[]"); kind = "bad-line"; }
    else
    {
      // a brace where none may stand: '{' is legal only directly behind a section marker (the dump puts one there already)
      bool open = t.flag(1, 2); size_t at = (size_t)t.range(0, (int)out.size());
      if(open && at > 0 && out[at - 1].find('[') != std::string::npos && out[at - 1].find(" = ") == std::string::npos && out[at - 1].find('}') == std::string::npos) ++at;
      out.insert(out.begin() + (long)std::min(at, out.size()), open ? "{" : "}"); kind = open ? "stray-open-brace" : "stray-close-brace";
    }
    std::string txt; for(auto& l : out) txt += l + "\n";
    // a stray '}' inside an open block closes it early and is then matched by the block's own brace one level up: only
    // at depth 0 (or as very first token) it is an error by itself, but the brace count no longer balances, so the text
    // as a whole is still malformed and must be rejected at the latest by the final "Missing '}'"/"Unexpected '}'" check
    c.desc.set("kind", "fault"); c.desc.set("fault", kind); c.desc.set("text", txt); c.op = "ini-reject"; c.nontrivial = true; c.label("fault:" + kind);
    c.announce();
    PropertyMap y; bool rejected = false; std::istringstream is(txt);
    try { y.read(is, true); } catch(const FEAT::Exception&) { rejected = true; } catch(const std::exception& e) { VF_FAIL("undocumented-exception:" << typeid(e).name() << ":" << e.what()); }
    VF_CHECK(rejected, "accepted:" << kind);
  }

  // ----------------------------------------------------------------------------------------------------------------
  // graphs (binary serialisation; the property claims the round trip only - DESIGN C11)
  // ----------------------------------------------------------------------------------------------------------------
  void graph_case(Tape& t, Ctx& c)
  {
    using Adjacency::Graph;
    int kind = t.pick({8, 1, 1});   // generated lists / zero domain nodes via the sized constructor / default constructed
    bool zero_excl = c.excl("c11-graph-zero-domain"); if(zero_excl && kind != 0) kind = 0;
    int nd = (kind == 0) ? t.sized(zero_excl ? 1 : 0, 12) : 0, ni = t.sized(0, 12);
    std::vector<Index> ptr(1, 0), idx;
    for(int i = 0; i < nd; ++i) { int deg = ni == 0 ? 0 : t.pick({2, 3, 2, 1, 1}); for(int k = 0; k < deg; ++k) idx.push_back((Index)t.range(0, ni - 1)); ptr.push_back((Index)idx.size()); }   // unsorted, duplicates allowed (a Graph is a multi-adjacency)
    J jl = J::arr(); for(int i = 0; i < nd; ++i) { J r = J::arr(); for(Index k = ptr[(size_t)i]; k < ptr[(size_t)i + 1]; ++k) r.add((long long)idx[(size_t)k]); jl.add(r); }
    c.desc.set("kind", kind == 0 ? "lists" : (kind == 1 ? "sized-ctor-zero-domain" : "default-ctor")); c.desc.set("domain", nd); c.desc.set("image", ni); c.desc.set("adj", jl);
    c.label(nd == 0 ? "domain:0" : "domain:1+"); c.label(idx.empty() ? "indices:0" : "indices:1+"); c.op = "graph-serialize"; c.nontrivial = nd >= 1;
    c.announce();
    Index dummy = 0;
    Graph g = (kind == 2) ? Graph() : Graph((Index)nd, (Index)ni, (Index)idx.size(), ptr.data(), idx.empty() ? &dummy : idx.data());
    std::vector<char> w1 = g.serialize();
    Graph y(w1);
    VF_CHECK(y.get_num_nodes_image() == g.get_num_nodes_image(), "image node count " << y.get_num_nodes_image() << " vs " << g.get_num_nodes_image());
    VF_CHECK(y.get_num_indices() == g.get_num_indices(), "index count " << y.get_num_indices() << " vs " << g.get_num_indices());
    VF_CHECK((kind == 2 ? Index(0) : y.get_num_nodes_domain()) == (kind == 2 ? Index(0) : g.get_num_nodes_domain()), "domain node count " << y.get_num_nodes_domain() << " vs " << g.get_num_nodes_domain());
    // a graph without domain nodes may or may not carry the single 0 of its pointer array: compared only for nd >= 1
    for(int i = 0; i <= nd && kind == 0 && nd > 0; ++i) VF_CHECK(y.get_domain_ptr()[i] == ptr[(size_t)i], "domain_ptr[" << i << "]");
    for(size_t k = 0; k < idx.size(); ++k) VF_CHECK(y.get_image_idx()[k] == idx[k], "image_idx[" << k << "]");
    std::vector<char> w2 = y.serialize();
    VF_CHECK(w1 == w2, "second serialisation differs (" << w1.size() << " vs " << w2.size() << " bytes)");
  }
}

int main(int argc, char** argv)
{
  FEAT::Runtime::ScopeGuard guard(argc, argv);
  c11::init_files_main();
  std::vector<Target> tg;
  tg.push_back({"rt_q2", c11::rt_q2, 384, 24, 60000});
  tg.push_back({"rt_h3", c11::rt_h3, 384, 24, 60000});
  tg.push_back({"rt_s2", c11::rt_s2, 384, 24, 60000});
  tg.push_back({"rt_surf", c11::rt_surf, 48, 4, 30000});
  tg.push_back({"rt_s3", c11::rt_s3, 384, 24, 60000});
  tg.push_back({"fault_q2", c11::fault_q2, 384, 16, 60000});
  tg.push_back({"fault_h3", c11::fault_h3, 384, 16, 60000});
  tg.push_back({"fault_s2", c11::fault_s2, 384, 16, 60000});
  tg.push_back({"fault_s3", c11::fault_s3, 384, 16, 60000});
  tg.push_back({"ini_tree", ini_tree, 64, 8});
  tg.push_back({"ini_text", ini_text, 64, 12});
  tg.push_back({"ini_fault", ini_fault, 64, 8});
  tg.push_back({"graph", graph_case, 32, 8});
  return main_impl(argc, argv, tg);
}
