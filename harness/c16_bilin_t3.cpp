// C16: scalar bilinear operators on Simplex<3> meshes (see c16_bilin.hpp)
#include "c16_bilin.hpp"
namespace c16 { void reg_bilin_t3(std::vector<vf::Target>& tg) { tg.push_back({"bilin_tetra", [](vf::Tape& t, vf::Ctx& c) { bilin_target<Shape::Simplex<3>, true>(t, c); }, 320, 24, 120000}); } }
