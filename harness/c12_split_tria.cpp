// C12 multi-layered halo splitting targets for shape Tria
#include "common/c12_split.hpp"
extern template mg::Loaded<mg::Tria> mg::gen_node<mg::Tria>(vf::Tape&, vf::Ctx&, const mg::GenOpts&, mg::GenInfo&);
void c12_register_split_tria(std::vector<vf::Target>& tg) { c12::register_split<mg::Tria>(tg); }
