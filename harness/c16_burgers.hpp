// c16_burgers.hpp - Burgers operators: classic BurgersAssembler (blocked / scalar matrix, defect vector) versus the
// domain-assembler jobs of burgers_assembly_job.hpp versus the documented operator
//   N(v;u,w) = nu L(u,w) + theta M(u,w) + beta K(v,u,w) + beta' K'(v,u,w)   (+ delta S, route agreement only)
// integrated exactly for polynomial fields.
#pragma once
#include "c16_core.hpp"
#include <kernel/assembly/burgers_assembler.hpp>
#include <kernel/assembly/burgers_assembly_job.hpp>
#include <kernel/assembly/domain_assembler.hpp>

namespace c16
{
  struct BurgersParams
  {
    bool deformation = false; double nu = 1, theta = 0, beta = 0, frechet_beta = 0, sd_delta = 0, sd_nu = 1;
    J json() const { J j = J::obj(); j.set("deformation", deformation); j.set("nu", nu); j.set("theta", theta); j.set("beta", beta); j.set("frechet_beta", frechet_beta); j.set("sd_delta", sd_delta); j.set("sd_nu", sd_nu); return j; }
    template<typename A> void apply(A& a) const
    {
      typedef typename A::DataType DT;
      a.deformation = deformation; a.nu = DT(nu); a.theta = DT(theta); a.beta = DT(beta); a.frechet_beta = DT(frechet_beta); a.sd_delta = DT(sd_delta); a.sd_nu = DT(sd_nu);
    }
  };
  /// parameter classes: each term alone, all together, with / without deformation, streamline diffusion on (route agreement only)
  inline BurgersParams gen_burgers_params(Tape& t, Ctx& c, bool allow_defo, bool allow_frechet, bool allow_sd)
  {
    BurgersParams p; static const double vals[] = {1.0, 0.5, 2.0, -1.0, 0.25};
    const int cls = t.pick({2, 2, 2, 2, 4});
    auto val = [&]() { return t.flag(1, 3) ? t.real_nz(1) : vals[t.range(0, 4)]; };
    p.nu = p.theta = p.beta = p.frechet_beta = 0;
    switch(cls)
    {
    case 0: p.nu = val(); c.label("terms:diffusion"); break;
    case 1: p.theta = val(); c.label("terms:reaction"); break;
    case 2: p.beta = val(); c.label("terms:convection"); break;
    case 3: if(allow_frechet) { p.frechet_beta = val(); c.label("terms:frechet"); } else { p.beta = val(); p.nu = val(); c.label("terms:convection+diffusion"); } break;
    default: p.nu = val(); p.theta = val(); p.beta = val(); if(allow_frechet && t.flag(1, 2)) p.frechet_beta = val(); c.label("terms:all"); break;
    }
    p.deformation = allow_defo && t.flag(1, 2); if(p.deformation) c.label("deformation:on"); else c.label("deformation:off");
    if(allow_sd && t.flag(1, 4)) { p.sd_delta = vals[t.range(0, 2)]; p.sd_nu = vals[t.range(0, 2)]; c.label("streamdiff:on"); }
    return p;
  }

  /// convection field with a stagnation point in a cell centre: v(x) = M (x - x_T) with x_T the vertex mean of a cell T (the image
  /// of the reference barycentre for every cell geometry, and v o trafo is (multi)linear, so every space reproduces it there): the
  /// streamline-diffusion parameter delta_T of that cell is defined as 0 while its neighbours have delta > 0
  inline int stagnation_field(Tape& t, const RawMesh& rm, std::vector<Poly>& V)
  {
    const int dim = rm.dim, nc = (int)rm.cells.size();
    const int cell = (nc >= 2) ? t.range(1, nc - 1) : 0;    // a cell that is not the first one visited
    double xc[3] = {0, 0, 0}; for(int v : rm.cells[(size_t)cell]) for(int b = 0; b < dim; ++b) xc[b] += rm.vtx[(size_t)v][(size_t)b] / (double)rm.cells[(size_t)cell].size();
    static const double mv[] = {1.0, -1.0, 0.5, 2.0, 0.0};
    const bool rot = (dim == 2) && t.flag(1, 3);            // vortex centre: v = (-(y-yc), x-xc)
    for(int a = 0; a < dim; ++a)
    {
      Poly q; q.dim = dim; double c0 = 0;
      for(int b = 0; b < dim; ++b)
      {
        double m = rot ? ((a == 0 && b == 1) ? -1.0 : ((a == 1 && b == 0) ? 1.0 : 0.0)) : ((a == b) ? mv[t.range(0, 3)] : mv[t.range(0, 4)]);
        Poly::Term tm; tm.c = m; tm.e[0] = tm.e[1] = tm.e[2] = 0; tm.e[b] = 1; q.t.push_back(tm); c0 -= m * xc[b];
      }
      Poly::Term t0; t0.c = c0; t0.e[0] = t0.e[1] = t0.e[2] = 0; q.t.push_back(t0);
      V[(size_t)a] = q;
    }
    return cell;
  }

  /// documented vector-valued operator integrand for convection field v, trial field u, test field w
  inline LD burgers_integrand(const BurgersParams& p, int dim, const std::vector<Poly>& v, const std::vector<Poly>& u, const std::vector<Poly>& w, const LD* x)
  {
    LD s = 0;
    for(int a = 0; a < dim; ++a)
    {
      const LD wa = w[(size_t)a].val<LD>(x);
      for(int b = 0; b < dim; ++b)
      {
        const LD du_ab = u[(size_t)a].der<LD>(x, b);
        s += p.nu * du_ab * w[(size_t)a].der<LD>(x, b);
        if(p.deformation) s += p.nu * u[(size_t)b].der<LD>(x, a) * w[(size_t)a].der<LD>(x, b);
        s += p.beta * v[(size_t)b].val<LD>(x) * du_ab * wa;
        s += p.frechet_beta * v[(size_t)a].der<LD>(x, b) * u[(size_t)b].val<LD>(x) * wa;
      }
      s += p.theta * u[(size_t)a].val<LD>(x) * wa;
    }
    return s;
  }
  inline LD burgers_scalar_integrand(const BurgersParams& p, int dim, const std::vector<Poly>& v, const Poly& u, const Poly& w, const LD* x)
  {
    LD s = p.theta * u.val<LD>(x) * w.val<LD>(x);
    for(int b = 0; b < dim; ++b) s += p.nu * u.der<LD>(x, b) * w.der<LD>(x, b) + p.beta * v[(size_t)b].val<LD>(x) * u.der<LD>(x, b) * w.val<LD>(x);
    return s;
  }

  /// natural magnitude of the terms that are summed up in a Burgers matrix (sum over all entries): the convective terms are built
  /// from sum_k v_k phi_k resp. sum_k v_k grad phi_k, which may cancel completely (constant field => grad v = 0), so the rounding
  /// noise of an entry scales with |coefficient| * max|v_k| * G * mass and not with the entry itself.  G = 16*kappa bounds |grad phi|.
  template<typename DT> inline LD burgers_floor(const BurgersParams& p, LD scale, LD vol, LD vmax, double kappa)
  {
    const LD G = 16.0L * (LD)kappa;
    const LD nat = fabsl(scale) * vol * (fabsl((LD)p.nu) * G * G + fabsl((LD)p.theta) + (fabsl((LD)p.beta) + fabsl((LD)p.frechet_beta)) * vmax * G + fabsl((LD)p.sd_delta) * vmax * G * G);
    return 64.0L * unit_roundoff<DT>() * nat;
  }

  template<typename DT, typename IT, int dim, typename Space_> void fill_blocked(LAFEM::DenseVectorBlocked<DT, IT, dim>& vec, const Space_& sp, const std::vector<Poly>& ps)
  {
    vec = LAFEM::DenseVectorBlocked<DT, IT, dim>(sp.get_num_dofs()); DT* e = vec.template elements<LAFEM::Perspective::pod>();
    for(int a = 0; a < dim; ++a) { PolyFunction<dim> f(ps[(size_t)a]); LAFEM::DenseVector<DT, IT> v; Assembly::Interpolator::project(v, f, sp); for(Index i = 0; i < v.size(); ++i) e[(size_t)i * dim + (size_t)a] = v.elements()[i]; }
  }

  template<typename Shape_, typename Tag, typename DT, typename IT>
  struct BurgersCase
  {
    static constexpr int dim = Shape_::dimension;
    typedef Geometry::ConformalMesh<Shape_, dim, double> MeshType;
    typedef Trafo::Standard::Mapping<MeshType> TrafoType;
    typedef typename Tag::template S<TrafoType> SpaceType;
    typedef LAFEM::SparseMatrixBCSR<DT, IT, dim, dim> BMatrix;
    typedef LAFEM::SparseMatrixCSR<DT, IT> SMatrix;
    typedef LAFEM::DenseVectorBlocked<DT, IT, dim> BVector;
    typedef LAFEM::DenseVector<DT, IT> SVector;
    Tape& t; Ctx& c; const RawMesh& rm;
    BurgersCase(Tape& t_, Ctx& c_, const RawMesh& m) : t(t_), c(c_), rm(m) {}

    void run()
    {
      const bool simplex = rm.simplex; const double kap = rm.kappa;
      const int sub = t.pick({4, 3, 3, 2});   // 0 blocked matrix, 1 scalar matrix, 2 blocked defect vector, 3 scalar defect vector
      static const char* sn[] = {"blocked_matrix", "scalar_matrix", "blocked_vector", "scalar_vector"};
      const bool scalar = (sub == 1 || sub == 3);
      // classic assemble_vector has no Frechet term (the vector job has): the Frechet class is generated for matrices only;
      // scalar variants assert !deformation and frechet_beta == 0
      BurgersParams p = gen_burgers_params(t, c, !scalar, sub == 0, true);
      const DT scale = DT(t.flag(1, 3) ? t.real_nz(1) : 1.0);
      const bool tens = !simplex && rm.axis_aligned && Tag::tensor && t.flag(1, 4);
      std::vector<Poly> V = gen_polys(t, dim, dim, Tag::p, false), U = gen_polys(t, dim, dim, Tag::p, tens), W = gen_polys(t, dim, dim, Tag::p, tens);
      const int conv_kind = t.pick({3, 1, 1});   // 0 polynomial field, 1 zero field, 2 sol == conv object (vector jobs)
      if(conv_kind == 1) { for(auto& q : V) { q.t.clear(); q.t.push_back({0.0, {0, 0, 0}}); } }
      const int b = Tag::bdeg(simplex);
      const int need = 2 * b + ((p.beta != 0.0 || p.frechet_beta != 0.0) ? b : 0);
      const int cubdeg = std::min(cub_cap(rm), need + t.range(0, 1)); const std::string cubname = "auto-degree:" + std::to_string(cubdeg);
      const bool prefill = t.flag(1, 3);
      // stagnation class (drawn last so that earlier recorded tapes decode as before): a field that vanishes in one cell centre,
      // mostly with streamline diffusion switched on (per-cell delta_T must be 0 there and only there)
      int stag_cell = -1;
      if(conv_kind == 0 && t.flag(1, 4)) { stag_cell = stagnation_field(t, rm, V); if(p.sd_delta == 0.0 && t.flag(3, 4)) { p.sd_delta = 0.5; p.sd_nu = 1.0; c.label("streamdiff:on"); } }
      const bool exact_ok = rm.cells_affine && cubdeg >= need && p.sd_delta == 0.0;

      auto mesh = make_feat_mesh<MeshType>(rm); TrafoType trafo(*mesh); SpaceType space(trafo);
      c.desc.set("mesh", rm.json()); c.desc.set("space", Tag::name()); c.desc.set("dt", TN<DT>::n()); c.desc.set("sub", sn[sub]); c.desc.set("params", p.json()); c.desc.set("scale", (double)scale);
      c.desc.set("conv", polys_json(V)); c.desc.set("u", polys_json(U)); c.desc.set("w", polys_json(W)); c.desc.set("conv_kind", conv_kind); c.desc.set("stagnation_cell", stag_cell); c.desc.set("cubature", cubname); c.desc.set("prefill", prefill);
      label_mesh(c, rm); c.label(std::string("sub:") + sn[sub]); c.label(std::string("space:") + Tag::name()); c.label(std::string("dt:") + TN<DT>::n());
      c.label(exact_ok ? "oracle:exact" : "oracle:routes+identities"); c.label(stag_cell >= 0 ? "conv:stagnation-point" : conv_kind == 0 ? "conv:polynomial" : (conv_kind == 1 ? "conv:zero" : "conv:sol==conv"));
      c.op = std::string("burgers:") + sn[sub];
      c.nontrivial = true;
      c.announce();

      Cubature::DynamicFactory cub(cubname);
      Assembly::DomainAssembler<TrafoType> da(trafo); da.compile_all_elements();
      BVector conv; fill_blocked<DT, IT, dim>(conv, space, V);
      Assembly::BurgersAssembler<DT, IT, dim> basm; p.apply(basm); basm.set_sd_v_norm(conv);
      const Index nd = space.get_num_dofs(); const long n = (long)nd;
      const std::vector<QP> qp = exact_ok ? mesh_qps(rm, 3 * Tag::p * (tens ? dim : 1)) : std::vector<QP>();
      const LD sc = (LD)scale;
      const LD flo = burgers_floor<DT>(p, sc, mesh_volume(rm), maxabs(flat_of(conv)), kap);

      if(sub == 0 || sub == 2)
      {
        BMatrix A; Assembly::SymbolicAssembler::assemble_matrix_std1(A, space); A.format();
        basm.assemble_matrix(A, conv, space, cub, scale);
        const Dn dA = dense_of(A); VF_CHECK(dA.finite(), "BurgersAssembler::assemble_matrix produced non-finite entries");
        const LD SA = dA.sumabs(), amax = dA.maxabs();
        // job route (no scale parameter: compare with scale * job)
        BMatrix B = A.clone(LAFEM::CloneMode::Layout); B.format();
        {
          Assembly::BurgersBlockedMatrixAssemblyJob<BMatrix, SpaceType> job(B, conv, space, cubname); p.apply(job); job.set_sd_v_norm(conv);
          VF_CHECK(fabsl((LD)job.sd_v_norm - (LD)basm.sd_v_norm) <= 8 * unit_roundoff<DT>() * fabsl((LD)basm.sd_v_norm), "sd_v_norm of job " << (double)job.sd_v_norm << " vs BurgersAssembler " << (double)basm.sd_v_norm);
          da.assemble(job);
        }
        Dn dB = dense_of(B); for(auto& x : dB.a) x *= sc;
        if(sub == 0)
        {
          check_same<DT>(dA, dB, kap, "BurgersBlockedMatrixAssemblyJob (scaled) vs BurgersAssembler::assemble_matrix", flo);
          if(p.theta == 0.0 && p.frechet_beta == 0.0)
            for(long i = 0; i < n * dim; ++i) for(int a = 0; a < dim; ++a) { LD s = 0, sa = 0; for(long j = 0; j < n; ++j) { s += dA(i, j * dim + a); sa += fabsl(dA(i, j * dim + a)); }
              VF_CHECK(fabsl(s) <= tol_of<DT>(kap, std::max(sa, amax)) + flo, "Burgers matrix without reaction: row " << i << " applied to the constant field e_" << a << " gives " << (double)s); }
          if(p.beta == 0.0 && p.frechet_beta == 0.0 && p.sd_delta == 0.0)
            for(long i = 0; i < n * dim; ++i) for(long j = i + 1; j < n * dim; ++j) VF_CHECK(fabsl(dA(i, j) - dA(j, i)) <= tol_of<DT>(kap, amax) + flo, "Burgers matrix without convection must be symmetric: A(" << i << "," << j << ")=" << (double)dA(i, j) << " A(" << j << "," << i << ")=" << (double)dA(j, i));
          if(exact_ok)
          {
            const std::vector<LD> us = blocked_vec(space, U), ws = blocked_vec(space, W);
            const LD ex = sc * integrate(qp, [&](const LD* x) { return burgers_integrand(p, dim, V, U, W, x); });
            const LD got = bil(ws, dA, us); const LD tol = tol_of<DT>(kap, maxabs(us) * maxabs(ws) * SA) + maxabs(us) * maxabs(ws) * flo;
            VF_CHECK(std::isfinite((double)got) && fabsl(got - ex) <= tol, "Burgers matrix: w^T N(v) u = " << (double)got << " but the exact operator value is " << (double)ex << " (tol " << (double)tol << ")");
          }
        }
        else
        {
          // defect vectors: rhs += scale * N(v) * primal
          BVector prim; fill_blocked<DT, IT, dim>(prim, space, U);
          const BVector& primal = (conv_kind == 2) ? conv : prim;
          const std::vector<LD> ps = flat_of(primal);
          const DT pre = prefill ? DT(0.5) : DT(0);
          BVector r1(nd), r2(nd); r1.format(pre); r2.format(DT(0));
          basm.assemble_vector(r1, conv, primal, space, cub, scale);
          {
            Assembly::BurgersBlockedVectorAssemblyJob<BVector, SpaceType> job(r2, primal, conv, space, cubname); p.apply(job); job.set_sd_v_norm(conv);
            da.assemble(job);
          }
          std::vector<LD> v1 = flat_of(r1), v2 = flat_of(r2), ref((size_t)(n * dim), 0.0L); LD S = amax * maxabs(ps);
          for(auto& x : v1) x -= (LD)pre; for(auto& x : v2) x *= sc;
          for(long i = 0; i < n * dim; ++i) { LD sa = 0; for(long j = 0; j < n * dim; ++j) { ref[(size_t)i] += dA(i, j) * ps[(size_t)j]; sa += fabsl(dA(i, j) * ps[(size_t)j]); } S = std::max(S, sa); }
          if(p.sd_delta == 0.0)   // classic assemble_vector has no streamline-diffusion term
          {
            for(long i = 0; i < n * dim; ++i) VF_CHECK(std::isfinite((double)v1[(size_t)i]) && fabsl(v1[(size_t)i] - ref[(size_t)i]) <= tol_of<DT>(kap, std::max(S, (LD)fabsl((LD)pre))) + flo * maxabs(ps), "BurgersAssembler::assemble_vector entry " << i << ": " << (double)v1[(size_t)i] << " vs matrix*primal " << (double)ref[(size_t)i]);
          }
          for(long i = 0; i < n * dim; ++i) VF_CHECK(std::isfinite((double)v2[(size_t)i]) && fabsl(v2[(size_t)i] - ref[(size_t)i]) <= tol_of<DT>(kap, S) + flo * maxabs(ps), "BurgersBlockedVectorAssemblyJob entry " << i << ": " << (double)v2[(size_t)i] << " vs matrix*primal " << (double)ref[(size_t)i]);
          if(exact_ok)
          {
            const std::vector<LD> ws = blocked_vec(space, W);
            const std::vector<Poly>& UU = (conv_kind == 2) ? V : U;
            const LD ex = sc * integrate(qp, [&](const LD* x) { return burgers_integrand(p, dim, V, UU, W, x); });
            LD got = 0; for(size_t i = 0; i < ws.size(); ++i) got += ws[i] * v1[i];
            const LD tol = tol_of<DT>(kap, maxabs(ws) * maxabs(ps) * SA) + maxabs(ws) * maxabs(ps) * flo;
            VF_CHECK(std::isfinite((double)got) && fabsl(got - ex) <= tol, "Burgers defect vector: w^T r = " << (double)got << " but the exact operator value is " << (double)ex << " (tol " << (double)tol << ")");
          }
        }
      }
      else
      {
        SMatrix A; Assembly::SymbolicAssembler::assemble_matrix_std1(A, space); A.format();
        basm.assemble_scalar_matrix(A, conv, space, cub, scale);
        const Dn dA = dense_of(A); VF_CHECK(dA.finite(), "BurgersAssembler::assemble_scalar_matrix produced non-finite entries");
        const LD SA = dA.sumabs(), amax = dA.maxabs();
        SMatrix B = A.clone(LAFEM::CloneMode::Layout); B.format();
        { Assembly::BurgersScalarMatrixAssemblyJob<SMatrix, SpaceType, BVector> job(B, conv, space, cubname); p.apply(job); job.set_sd_v_norm(conv); da.assemble(job); }
        Dn dB = dense_of(B); for(auto& x : dB.a) x *= sc;
        check_same<DT>(dA, dB, kap, "BurgersScalarMatrixAssemblyJob (scaled) vs BurgersAssembler::assemble_scalar_matrix", flo);
        if(sub == 1)
        {
          if(p.theta == 0.0)
            for(long i = 0; i < n; ++i) { LD s = 0, sa = 0; for(long j = 0; j < n; ++j) { s += dA(i, j); sa += fabsl(dA(i, j)); } VF_CHECK(fabsl(s) <= tol_of<DT>(kap, std::max(sa, amax)) + flo, "scalar Burgers matrix without reaction: row sum " << i << " = " << (double)s); }
          if(exact_ok)
          {
            PolyFunction<dim> fu(U[0]), fw(W[0]); SVector uh, wh; Assembly::Interpolator::project(uh, fu, space); Assembly::Interpolator::project(wh, fw, space);
            const std::vector<LD> us = flat_of(uh), ws = flat_of(wh);
            const LD ex = sc * integrate(qp, [&](const LD* x) { return burgers_scalar_integrand(p, dim, V, U[0], W[0], x); });
            const LD got = bil(ws, dA, us); const LD tol = tol_of<DT>(kap, maxabs(us) * maxabs(ws) * SA) + maxabs(us) * maxabs(ws) * flo;
            VF_CHECK(std::isfinite((double)got) && fabsl(got - ex) <= tol, "scalar Burgers matrix: w^T N(v) u = " << (double)got << " but the exact operator value is " << (double)ex << " (tol " << (double)tol << ")");
          }
        }
        else
        {
          PolyFunction<dim> fu(U[0]); SVector sol; Assembly::Interpolator::project(sol, fu, space);
          SVector r(nd, DT(0));
          { Assembly::BurgersScalarVectorAssemblyJob<SVector, SpaceType, BVector> job(r, sol, conv, space, cubname); p.apply(job); job.set_sd_v_norm(conv); da.assemble(job); }
          std::vector<LD> v = flat_of(r), ss = flat_of(sol), ref((size_t)n, 0.0L); LD S = amax * maxabs(ss);
          for(auto& x : v) x *= sc;
          for(long i = 0; i < n; ++i) { LD sa = 0; for(long j = 0; j < n; ++j) { ref[(size_t)i] += dA(i, j) * ss[(size_t)j]; sa += fabsl(dA(i, j) * ss[(size_t)j]); } S = std::max(S, sa); }
          for(long i = 0; i < n; ++i) VF_CHECK(std::isfinite((double)v[(size_t)i]) && fabsl(v[(size_t)i] - ref[(size_t)i]) <= tol_of<DT>(kap, S) + flo * maxabs(ss), "BurgersScalarVectorAssemblyJob entry " << i << ": " << (double)v[(size_t)i] << " vs matrix*sol " << (double)ref[(size_t)i]);
        }
      }
    }
    std::vector<LD> blocked_vec(const SpaceType& sp, const std::vector<Poly>& ps) { BVector v; fill_blocked<DT, IT, dim>(v, sp, ps); return flat_of(v); }
  };

  template<typename Shape_> void burgers_spaces(Tape& t, Ctx& c, const RawMesh& rm, int which)
  {
    typedef std::uint64_t I64;
    switch(which)
    {
    case 0: { BurgersCase<Shape_, SL2, double, I64> k(t, c, rm); k.run(); break; }
    case 1: { BurgersCase<Shape_, SL1, double, I64> k(t, c, rm); k.run(); break; }
    case 2: { BurgersCase<Shape_, SCR, double, I64> k(t, c, rm); k.run(); break; }
    default: { BurgersCase<Shape_, SL2, float, std::uint32_t> k(t, c, rm); k.run(); break; }
    }
  }
  extern template void burgers_spaces<Shape::Hypercube<2>>(Tape&, Ctx&, const RawMesh&, int); extern template void burgers_spaces<Shape::Simplex<2>>(Tape&, Ctx&, const RawMesh&, int);
  extern template void burgers_spaces<Shape::Hypercube<3>>(Tape&, Ctx&, const RawMesh&, int); extern template void burgers_spaces<Shape::Simplex<3>>(Tape&, Ctx&, const RawMesh&, int);

  template<typename Shape_, bool simplex_> void burgers_target(Tape& t, Ctx& c)
  {
    MeshOpts o; o.dim = Shape_::dimension; o.simplex = simplex_; o.max_n = (o.dim == 2 ? 3 : 2);
    const int which = t.pick({3, 2, 2, 1});
    if(o.dim == 3) o.max_cells = (which == 0 || which == 3) ? 2 : 4;
    RawMesh rm = gen_mesh(t, o);
    burgers_spaces<Shape_>(t, c, rm, which);
  }
} // namespace c16
