// C10 targets for shape Quad (own translation unit: mesh TUs compile slowly, the shapes build in parallel;
// the mesh generator mg::gen_node<Quad> is instantiated in c10_gen_quad.cpp)
#include "common/c10_core.hpp"
extern template mg::Loaded<mg::Quad> mg::gen_node<mg::Quad>(vf::Tape&, vf::Ctx&, const mg::GenOpts&, mg::GenInfo&);
void c10_register_quad(std::vector<vf::Target>& tg) { c10::register_shape<mg::Quad>(tg); }
