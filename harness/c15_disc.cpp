// C15: discontinuous P0 / P1 on all five shapes
#include "c15_core.hpp"
#include <kernel/space/discontinuous/element.hpp>
using namespace c15;
typedef Shape::Hypercube<1> H1; typedef Shape::Hypercube<2> H2; typedef Shape::Hypercube<3> H3; typedef Shape::Simplex<2> S2; typedef Shape::Simplex<3> S3;
template<typename S_> using Trf = Trafo::Standard::Mapping<Geometry::ConformalMesh<S_>>;
template<typename S_, int k_> using Dsc = Space::Discontinuous::Element<Trf<S_>, Space::Discontinuous::Variant::StdPolyP<k_>>;

static void discontinuous(Tape& t, Ctx& c)
{
  // P0: values only (no gradients offered); P1 on hypercubes is non-parametric (P1 in x on any cell)
  ElemCfg p0 = {"DiscP0", 0, false, false, false, 3, 2, 2, 0, 2}, p1 = {"DiscP1", 1, false, false, false, 3, 2, 2, 3, 2};
  switch(t.pick({2, 2, 2, 2, 1, 1, 1, 1, 1, 1}))
  {
  case 0: Check<Dsc<H2, 1>, true, false, true>::run(t, c, p1); break;
  case 1: Check<Dsc<S2, 1>, true, false, true>::run(t, c, p1); break;
  case 2: Check<Dsc<H3, 1>, true, false, true>::run(t, c, p1); break;
  case 3: Check<Dsc<S3, 1>, true, false, true>::run(t, c, p1); break;
  case 4: Check<Dsc<H1, 1>, true, false, true>::run(t, c, p1); break;
  case 5: Check<Dsc<H2, 0>, false, false, true>::run(t, c, p0); break;
  case 6: Check<Dsc<S2, 0>, false, false, true>::run(t, c, p0); break;
  case 7: Check<Dsc<H3, 0>, false, false, true>::run(t, c, p0); break;
  case 8: Check<Dsc<S3, 0>, false, false, true>::run(t, c, p0); break;
  default: Check<Dsc<H1, 0>, false, false, true>::run(t, c, p0); break;
  }
}
C15_MAIN({"discontinuous", discontinuous, 96, 8, 30000})
