// explicit instantiation of the shared mesh generator for shape Tria (mesh file reader, factories, shape conversion)
#include "common/mesh_gen.hpp"
template mg::Loaded<mg::Tria> mg::gen_node<mg::Tria>(vf::Tape&, vf::Ctx&, const mg::GenOpts&, mg::GenInfo&);
