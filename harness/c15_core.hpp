// c15_core.hpp - oracles for C15 (finite-element bases): reproduction through the node functionals, direct duality,
// span test by local least squares, finite-difference derivative consistency, conformity and DOF numbering.
#pragma once
#include "c15_mesh.hpp"
#include <kernel/analytic/function.hpp>
#include <kernel/assembly/asm_traits.hpp>
#include <kernel/assembly/interpolator.hpp>
#include <kernel/trafo/standard/mapping.hpp>
#include <kernel/lafem/dense_vector.hpp>
#include <map>

namespace c15
{
  using vf::Tape; using vf::Ctx; using vf::J;

  inline LD ipow(LD y, int e) { LD r = 1; for(int k = 0; k < e; ++k) r *= y; return r; }

  // ------------------------------------------------------------------------------------------------
  // polynomial in centred and scaled coordinates y = (x - ctr)/L as Analytic::Function (value, gradient, hessian)
  // ------------------------------------------------------------------------------------------------
  template<int dim_> struct PolyFn : public Analytic::Function
  {
    static constexpr int domain_dim = dim_; typedef Analytic::Image::Scalar ImageType;
    static constexpr bool can_value = true, can_grad = true, can_hess = true;
    struct Term { int e[3]; LD c; };
    // p(x) = sum_t c_t prod_j y_j^e_tj with y = B (x - ctr)
    std::vector<Term> terms; LD ctr[3] = {0, 0, 0}; LD B[3][3] = {{1, 0, 0}, {0, 1, 0}, {0, 0, 1}};
    void yof(const LD* x, LD* y) const { for(int i = 0; i < dim_; ++i) { y[i] = 0; for(int j = 0; j < dim_; ++j) y[i] += B[i][j] * (x[j] - ctr[j]); } }
    LD val(const LD* x) const { LD y[3]; yof(x, y); LD s = 0; for(auto& t : terms) { LD p = t.c; for(int j = 0; j < dim_; ++j) p *= ipow(y[j], t.e[j]); s += p; } return s; }
    void grad_y(const LD* y, LD* g) const
    {
      for(int a = 0; a < dim_; ++a) g[a] = 0;
      for(auto& t : terms) for(int a = 0; a < dim_; ++a)
      {
        if(t.e[a] == 0) continue; LD p = t.c * t.e[a];
        for(int j = 0; j < dim_; ++j) p *= ipow(y[j], t.e[j] - (j == a ? 1 : 0));
        g[a] += p;
      }
    }
    void hess_y(const LD* y, LD h[][dim_]) const
    {
      for(int a = 0; a < dim_; ++a) for(int b = 0; b < dim_; ++b) h[a][b] = 0;
      for(auto& t : terms) for(int a = 0; a < dim_; ++a) for(int b = 0; b < dim_; ++b)
      {
        int ea = t.e[a], eb = t.e[b]; LD f;
        if(a == b) { if(ea < 2) continue; f = LD(ea) * LD(ea - 1); } else { if(ea < 1 || eb < 1) continue; f = LD(ea) * LD(eb); }
        LD p = t.c * f;
        for(int j = 0; j < dim_; ++j) p *= ipow(y[j], t.e[j] - (j == a ? 1 : 0) - (j == b ? 1 : 0));
        h[a][b] += p;
      }
    }
    void grad(const LD* x, LD* g) const { LD y[3], gy[3]; yof(x, y); grad_y(y, gy); for(int a = 0; a < dim_; ++a) { g[a] = 0; for(int i = 0; i < dim_; ++i) g[a] += B[i][a] * gy[i]; } }
    void hess(const LD* x, LD h[][dim_]) const
    {
      LD y[3], hy[dim_][dim_]; yof(x, y); hess_y(y, hy);
      for(int a = 0; a < dim_; ++a) for(int b = 0; b < dim_; ++b) { h[a][b] = 0; for(int i = 0; i < dim_; ++i) for(int j = 0; j < dim_; ++j) h[a][b] += B[i][a] * hy[i][j] * B[j][b]; }
    }
    int degree() const { int d = 0; for(auto& t : terms) { int s = 0; for(int j = 0; j < dim_; ++j) s += t.e[j]; d = std::max(d, s); } return d; }
    J json() const { J a = J::arr(); for(auto& t : terms) { J q = J::arr(); q.add(double(t.c)); for(int j = 0; j < dim_; ++j) q.add(t.e[j]); a.add(q); } return a; }
    template<typename Traits_> class Evaluator : public Analytic::Function::Evaluator<Traits_>
    {
      const PolyFn& _f;
    public:
      typedef typename Traits_::DataType DataType; typedef typename Traits_::PointType PointType; typedef typename Traits_::ValueType ValueType;
      typedef typename Traits_::GradientType GradientType; typedef typename Traits_::HessianType HessianType;
      explicit Evaluator(const PolyFn& f) : _f(f) {}
      ValueType value(const PointType& p) { LD x[3]; for(int j = 0; j < dim_; ++j) x[j] = LD(p[j]); return DataType(_f.val(x)); }
      GradientType gradient(const PointType& p) { LD x[3], g[3]; for(int j = 0; j < dim_; ++j) x[j] = LD(p[j]); _f.grad(x, g); GradientType r; for(int j = 0; j < dim_; ++j) r[j] = DataType(g[j]); return r; }
      HessianType hessian(const PointType& p) { LD x[3], h[dim_][dim_]; for(int j = 0; j < dim_; ++j) x[j] = LD(p[j]); _f.hess(x, h); HessianType r; for(int a = 0; a < dim_; ++a) for(int b = 0; b < dim_; ++b) r(a, b) = DataType(h[a][b]); return r; }
    };
  };

  /// entitled polynomial: P_deg (total degree) or Q_deg (degree per variable); 0 on the tape -> constant 1
  template<int dim_, typename Mesh_> PolyFn<dim_> gen_poly(Tape& t, int deg, bool tensor, const Mesh_& m)
  {
    PolyFn<dim_> p; for(int j = 0; j < dim_; ++j) p.ctr[j] = LD(m.ctr[j]);
    const LD L = LD(m.ext > 0 ? m.ext : 1.0);
    for(int i = 0; i < dim_; ++i) for(int j = 0; j < dim_; ++j) p.B[i][j] = (i == j ? 1 / L : LD(0));
    if(tensor)
    {
      // Q_k is entitled in the *cell's own affine coordinates*: Q_k o F^-1 for a parallelepiped F(xi) = A xi + b contains
      // q(A^-1 x) but not q(x) unless A is diagonal (x*y has a xi^2 term on a sheared cell).  All cells of a jitter-free
      // mesh are lattice translates (and axis symmetries) of A*[0,1]^d, so y = (scale*A)^-1 (x - ctr) / n  is used.
      LD M[dim_][dim_], Mi[dim_][dim_]; for(int i = 0; i < dim_; ++i) for(int j = 0; j < dim_; ++j) M[i][j] = LD(m.lin[i][j]);
      CellGeo<typename Mesh_::ShapeT>::inv(M, Mi);
      for(int i = 0; i < dim_; ++i) for(int j = 0; j < dim_; ++j) p.B[i][j] = Mi[i][j] / 3;
    }
    int nt = 1 + t.range(0, 2);
    for(int q = 0; q < nt; ++q)
    {
      typename PolyFn<dim_>::Term tm; tm.e[0] = tm.e[1] = tm.e[2] = 0;
      bool top = t.flag(1, 2); int a0 = t.range(0, dim_ - 1);
      if(tensor) { for(int j = 0; j < dim_; ++j) tm.e[j] = top ? deg - ((j == a0) ? 0 : t.range(0, deg)) : t.range(0, deg); }
      else
      {
        int rem = deg;
        for(int jj = 0; jj < dim_; ++jj) { int j = (a0 + jj) % dim_; int e = (top && jj == dim_ - 1) ? rem : t.range(0, rem); tm.e[j] = e; rem -= e; }
      }
      static const double cf[8] = {1.0, -1.0, 0.5, 2.0, -0.75, 1.25, -2.0, 0.375};
      tm.c = LD(cf[t.range(0, 7)]);
      p.terms.push_back(tm);
    }
    return p;
  }

  /// generic smooth function (for conformity): sin(k.y+a) + 0.5 cos(m.y+b)
  template<int dim_> struct SmoothFn : public Analytic::Function
  {
    static constexpr int domain_dim = dim_; typedef Analytic::Image::Scalar ImageType;
    static constexpr bool can_value = true, can_grad = true, can_hess = true;
    LD k[3] = {1, 1, 1}, m[3] = {1, 1, 1}, a = 0, b = 0, ctr[3] = {0, 0, 0}, L = 1;
    LD arg(const LD* x, const LD* w, LD ph) const { LD s = ph; for(int j = 0; j < dim_; ++j) s += w[j] * (x[j] - ctr[j]) / L; return s; }
    LD val(const LD* x) const { return std::sin(arg(x, k, a)) + 0.5L * std::cos(arg(x, m, b)); }
    void grad(const LD* x, LD* g) const { LD c1 = std::cos(arg(x, k, a)), s2 = std::sin(arg(x, m, b)); for(int j = 0; j < dim_; ++j) g[j] = (k[j] * c1 - 0.5L * m[j] * s2) / L; }
    void hess(const LD* x, LD h[][dim_]) const { LD s1 = std::sin(arg(x, k, a)), c2 = std::cos(arg(x, m, b)); for(int i = 0; i < dim_; ++i) for(int j = 0; j < dim_; ++j) h[i][j] = (-k[i] * k[j] * s1 - 0.5L * m[i] * m[j] * c2) / (L * L); }
    template<typename Traits_> class Evaluator : public Analytic::Function::Evaluator<Traits_>
    {
      const SmoothFn& _f;
    public:
      typedef typename Traits_::DataType DataType; typedef typename Traits_::PointType PointType; typedef typename Traits_::ValueType ValueType;
      typedef typename Traits_::GradientType GradientType; typedef typename Traits_::HessianType HessianType;
      explicit Evaluator(const SmoothFn& f) : _f(f) {}
      ValueType value(const PointType& p) { LD x[3]; for(int j = 0; j < dim_; ++j) x[j] = LD(p[j]); return DataType(_f.val(x)); }
      GradientType gradient(const PointType& p) { LD x[3], g[3]; for(int j = 0; j < dim_; ++j) x[j] = LD(p[j]); _f.grad(x, g); GradientType r; for(int j = 0; j < dim_; ++j) r[j] = DataType(g[j]); return r; }
      HessianType hessian(const PointType& p) { LD x[3], h[dim_][dim_]; for(int j = 0; j < dim_; ++j) x[j] = LD(p[j]); _f.hess(x, h); HessianType r; for(int i = 0; i < dim_; ++i) for(int j = 0; j < dim_; ++j) r(i, j) = DataType(h[i][j]); return r; }
    };
  };

  // ------------------------------------------------------------------------------------------------
  // element configuration (run time part)
  // ------------------------------------------------------------------------------------------------
  struct ElemCfg
  {
    const char* name;
    int deg;            // entitled polynomial degree
    bool tensor;        // full Q_deg on parallelepipeds (P_deg on non-affine multilinear cells)
    bool affine_only;   // parametric element whose functionals/reproduction are claimed on affine cells only (CaiDouSanSheYe)
    bool conforming;    // H1-conforming: interpolants continuous across interior facets
    int w_repro, w_dual, w_l2, w_deriv, w_conf; // op weights
    // known-finding switches per op (repro, dual, l2proj, deriv, conf): when the driver switched the class off, the op is replaced
    const char* excl[5];
  };

  template<typename Space_, bool GRAD_, bool HESS_, bool NF_> struct Check
  {
    typedef Space_ SpaceType;
    typedef typename Space_::TrafoType TrafoType; typedef typename TrafoType::MeshType MeshType; typedef typename Space_::ShapeType ShapeType;
    typedef Ref<ShapeType> R; static constexpr int dim = R::dim;
    static constexpr SpaceTags stags = SpaceTags::value | (GRAD_ ? SpaceTags::grad : SpaceTags::none) | (HESS_ ? SpaceTags::hess : SpaceTags::none);
    typedef Assembly::AsmTraits1<double, Space_, TrafoTags::img_point | TrafoTags::jac_mat | TrafoTags::jac_det, stags> AT;
    typedef LAFEM::DenseVector<double, Index> VecT;

    struct Ev
    {
      typename AT::TrafoEvaluator te; typename AT::SpaceEvaluator se; typename AT::DofMapping dm;
      typename AT::TrafoEvalData td; typename AT::SpaceEvalData sd; int n = 0; bool prepared = false;
      Ev(const TrafoType& trafo, const Space_& space) : te(trafo), se(space), dm(space) {}
      void prepare(Index c) { if(prepared) finish(); te.prepare(c); se.prepare(te); dm.prepare(c); n = se.get_num_local_dofs(); prepared = true; }
      void finish() { if(!prepared) return; dm.finish(); se.finish(); te.finish(); prepared = false; }
      void at(const double* xi) { typename AT::DomainPointType p; for(int j = 0; j < dim; ++j) p[j] = xi[j]; te(td, p); se(sd, td); }
      void at(const LD* xi) { double x[3]; for(int j = 0; j < dim; ++j) x[j] = double(xi[j]); at(x); }
      double grad(int i, int k) const { if constexpr(GRAD_) return sd.phi[i].grad[k]; else return 0.0; }
      double hess(int i, int k, int l) const { if constexpr(HESS_) return sd.phi[i].hess(k, l); else return 0.0; }
    };

    // --------------------------------------------------------------------------------------------
    // a basis function of one cell as analytic function of the physical point (own Newton inverse of the cell map)
    // --------------------------------------------------------------------------------------------
    struct BasisFn : public Analytic::Function
    {
      static constexpr int domain_dim = dim; typedef Analytic::Image::Scalar ImageType;
      static constexpr bool can_value = true, can_grad = true, can_hess = true;
      Ev* ev = nullptr; const CellGeo<ShapeType>* geo = nullptr; int j = 0;
      void locate(const LD* x) const
      {
        LD xi[3]; if(!geo->unmap(x, xi)) VF_FAIL("harness:own Newton inverse did not converge");
        if(!R::inside(xi, 1e-9L)) VF_FAIL("mismatch:node functional evaluates the function outside the closure of its cell");
        ev->at(xi);
      }
      template<typename Traits_> class Evaluator : public Analytic::Function::Evaluator<Traits_>
      {
        const BasisFn& _f;
      public:
        typedef typename Traits_::DataType DataType; typedef typename Traits_::PointType PointType; typedef typename Traits_::ValueType ValueType;
        typedef typename Traits_::GradientType GradientType; typedef typename Traits_::HessianType HessianType;
        explicit Evaluator(const BasisFn& f) : _f(f) {}
        ValueType value(const PointType& p) { LD x[3]; for(int a = 0; a < dim; ++a) x[a] = LD(p[a]); _f.locate(x); return _f.ev->sd.phi[_f.j].value; }
        GradientType gradient(const PointType& p) { LD x[3]; for(int a = 0; a < dim; ++a) x[a] = LD(p[a]); _f.locate(x); GradientType r; for(int a = 0; a < dim; ++a) r[a] = _f.ev->grad(_f.j, a); return r; }
        HessianType hessian(const PointType& p) { LD x[3]; for(int a = 0; a < dim; ++a) x[a] = LD(p[a]); _f.locate(x); HessianType r; for(int a = 0; a < dim; ++a) for(int b = 0; b < dim; ++b) r(a, b) = _f.ev->hess(_f.j, a, b); return r; }
      };
    };

    // --------------------------------------------------------------------------------------------
    struct Setup
    {
      MeshData<ShapeType> md; MeshType mesh; TrafoType trafo; Space_ space;
      Setup(MeshData<ShapeType>&& m) : md(std::move(m)), mesh(build_mesh(md)), trafo(mesh), space(trafo) {}
    };

    template<int d_> static Index entity(const MeshType& mesh, Index cell, int i)
    {
      if constexpr(d_ == dim) { (void)mesh; (void)i; return cell; }
      else return mesh.template get_index_set<dim, d_>()(cell, i);
    }

    /// global dof indices assigned to the sub-entities of a cell, through DofAssignment (dimension by dimension)
    template<int d_> static void assigned(const Space_& space, Index cell, std::vector<Index>& out)
    {
      typedef typename Space_::template DofAssignment<d_, double>::Type DA;
      DA da(space);
      constexpr int cnt = (d_ == dim) ? 1 : Shape::FaceTraits<ShapeType, d_>::count;
      for(int i = 0; i < cnt; ++i)
      {
        da.prepare(entity<d_>(space.get_mesh(), cell, i));
        for(int a = 0; a < da.get_num_assigned_dofs(); ++a) out.push_back(da.get_index(a));
        da.finish();
      }
      if constexpr(d_ > 0) assigned<d_ - 1>(space, cell, out);
    }
    template<int d_> static Index expected_dofs(const Space_& space)
    {
      typedef typename Space_::template DofAssignment<d_, double>::Type DA;
      DA da(space); da.prepare(0); Index n = Index(da.get_num_assigned_dofs()) * space.get_mesh().get_num_entities(d_); da.finish();
      if constexpr(d_ > 0) n += expected_dofs<d_ - 1>(space);
      return n;
    }

    /// D[k][j] = N_k(phi_j) for the node functionals of all sub-entities of the cell
    template<int d_> static void dual_dim(const Space_& space, Index cell, Ev& ev, BasisFn& fn, std::vector<std::vector<double>>& D, std::vector<int>& hit)
    {
      if constexpr(NF_)
      {
        typedef typename Space_::template NodeFunctional<d_, double>::Type NF;
        if constexpr(int(NF::max_assigned_dofs) > 0)
        {
          typedef typename Space_::template DofAssignment<d_, double>::Type DA;
          typedef typename NF::template Value<BasisFn>::Type ValueType;
          NF nf(space); DA da(space);
          constexpr int cnt = (d_ == dim) ? 1 : Shape::FaceTraits<ShapeType, d_>::count;
          for(int i = 0; i < cnt; ++i)
          {
            Index e = entity<d_>(space.get_mesh(), cell, i);
            da.prepare(e);
            for(int j = 0; j < ev.n; ++j)
            {
              fn.j = j;
              Tiny::Vector<ValueType, int(NF::max_assigned_dofs)> nd;
              nf.prepare(e); nf(nd, fn); nf.finish();
              VF_CHECK(nf.get_num_assigned_dofs() == da.get_num_assigned_dofs(), "node functional and dof assignment disagree on the number of dofs of a " << d_ << "-entity");
              for(int a = 0; a < da.get_num_assigned_dofs(); ++a)
              {
                Index g = da.get_index(a); int k = -1;
                for(int q = 0; q < ev.n; ++q) if(ev.dm.get_index(q) == g) { k = q; break; }
                VF_CHECK(k >= 0, "dof " << g << " assigned to " << d_ << "-entity " << e << " is not in the dof mapping of cell " << cell);
                D[size_t(k)][size_t(j)] = nd[a]; if(j == 0) hit[size_t(k)]++;
              }
            }
            da.finish();
          }
        }
        if constexpr(d_ > 0) dual_dim<d_ - 1>(space, cell, ev, fn, D, hit);
      }
    }

    /// sup-norm samples of the basis functions on the prepared cell (vertices + centre + a few interior points)
    static void magnitudes(Ev& ev, std::vector<double>& mv, std::vector<double>& mg)
    {
      mv.assign(size_t(ev.n), 0.0); mg.assign(size_t(ev.n), 0.0);
      auto acc = [&](const double* xi) { ev.at(xi); for(int i = 0; i < ev.n; ++i) { mv[size_t(i)] = std::max(mv[size_t(i)], std::fabs(double(ev.sd.phi[i].value))); for(int k = 0; k < dim; ++k) mg[size_t(i)] = std::max(mg[size_t(i)], std::fabs(ev.grad(i, k))); } };
      double xi[3];
      for(int k = 0; k <= R::nv; ++k) { for(int j = 0; j < dim; ++j) xi[j] = double(k < R::nv ? R::vc(k, j) : R::centre(j)); acc(xi); }
      for(int k = 0; k < R::nv; ++k) for(int l = 0; l < k; ++l) { for(int j = 0; j < dim; ++j) xi[j] = double(0.5L * (R::vc(k, j) + R::vc(l, j))); acc(xi); }
      for(int k = 0; k < R::nv; ++k) { for(int j = 0; j < dim; ++j) xi[j] = double(0.6L * R::centre(j) + 0.4L * R::vc(k, j)); acc(xi); }
    }

    // ============================================================================================
    struct NoFix { void operator()(MeshData<ShapeType>&, Ctx&) const {} };
    static void run(Tape& t, Ctx& c, const ElemCfg& cfg) { run(t, c, cfg, NoFix()); }
    /// fix: generator hook applied to the generated mesh (used to steer away from known-finding classes by construction)
    template<typename Fix_> static void run(Tape& t, Ctx& c, const ElemCfg& cfg, const Fix_& fix)
    {
      c.desc.set("elem", cfg.name); c.desc.set("shape", R::name());
      c.label(std::string("elem:") + cfg.name + ":" + R::name());
      int wr = NF_ ? cfg.w_repro : 0, wd = NF_ ? cfg.w_dual : 0, wc = cfg.w_conf;
      int op = t.pick({wr, wd, cfg.w_l2, cfg.w_deriv, wc});
      if(!NF_ && op < 2) op = 2;
      if(cfg.excl[op] != nullptr && c.excl(cfg.excl[op])) op = (op == 2 ? 3 : 2); // steer away from a known-finding class: another op on the same element
      static const char* opn[5] = {"repro", "dual", "l2proj", "deriv", "conf"};
      c.op = opn[op]; c.desc.set("op", c.op); c.label(std::string("op:") + c.op);
      GenOpt go;
      // CaiDouSanSheYe: parametric with a cell-integral functional - reproduction/duality are claimed on affine cells only
      // (DESIGN: "P1 is reproduced on affine cells only ... expected, not a defect")
      if(cfg.affine_only && op <= 2) go.allow_jitter = false;
      if(op == 4) go.min_cells = 2;
      if(dim == 3 && (op == 1 || op == 2)) go.maxn = 2;
      MeshData<ShapeType> md0 = gen_mesh<ShapeType>(t, c, go); fix(md0, c);
      Setup s(std::move(md0));
      c.desc.set("mesh", s.md.desc);
      switch(op)
      {
      case 0: op_repro(t, c, cfg, s); break;
      case 1: op_dual(t, c, cfg, s); break;
      case 2: op_l2proj(t, c, cfg, s); break;
      case 3: op_deriv(t, c, cfg, s); break;
      default: op_conf(t, c, cfg, s); break;
      }
    }

    static double pmax_of(const PolyFn<dim>& p, const MeshData<ShapeType>& md)
    {
      LD m = 0; for(auto& v : md.vtx) { LD x[3]; for(int j = 0; j < dim; ++j) x[j] = LD(v[size_t(j)]); m = std::max(m, std::fabs(p.val(x))); }
      for(auto& tm : p.terms) m = std::max(m, std::fabs(tm.c) * 0.01L);
      return double(m);
    }

    // --------------------------------------------------------------------------------------------
    // (1) reproduction: Interpolator::project of an entitled polynomial, evaluated through the space evaluator
    // --------------------------------------------------------------------------------------------
    static void op_repro(Tape& t, Ctx& c, const ElemCfg& cfg, Setup& s)
    {
      bool tensor = cfg.tensor && s.md.affine_cells;
      PolyFn<dim> p = gen_poly<dim>(t, cfg.deg, tensor, s.md);
      c.desc.set("poly", p.json()); c.desc.set("space", tensor ? "Q" : "P");
      c.label(tensor ? "poly:Q" : "poly:P"); c.label("polydeg:" + std::to_string(p.degree()));
      const int nc = s.md.nc(); int ncheck = std::min(nc, 6);
      std::vector<int> cl; std::vector<std::array<double, 3>> pts; std::vector<std::string> pl;
      for(int q = 0; q < ncheck; ++q) { cl.push_back(nc <= 6 ? q : t.range(0, nc - 1)); for(int r = 0; r < 2; ++r) { std::array<double, 3> xi = {0, 0, 0}; pl.push_back(gen_ref_point<ShapeType>(t, xi.data())); pts.push_back(xi); } }
      for(auto& l : pl) c.label(l);
      { J pj = J::arr(); for(auto& x : pts) { J q = J::arr(); for(int j = 0; j < dim; ++j) q.add(x[size_t(j)]); pj.add(q); } c.desc.set("pts", pj); }
      c.nontrivial = (p.degree() >= 1) || cfg.deg == 0;
      c.announce();
      VecT u; if constexpr(NF_) Assembly::Interpolator::project(u, p, s.space); else VF_FAIL("harness:repro without node functionals");
      VF_CHECK(u.size() == s.space.get_num_dofs(), "interpolation vector has size " << u.size() << " != num_dofs " << s.space.get_num_dofs());
      const double pm = pmax_of(p, s.md);
      Ev ev(s.trafo, s.space);
      for(int q = 0; q < ncheck; ++q)
      {
        Index cell = Index(cl[size_t(q)]); auto geo = s.md.geo(int(cell)); ev.prepare(cell);
        for(int r = 0; r < 2; ++r)
        {
          const double* xi = pts[size_t(2 * q + r)].data(); ev.at(xi);
          LD xl[3], x[3]; for(int j = 0; j < dim; ++j) xl[j] = LD(xi[j]); geo.map(xl, x);
          LD uh = 0, S = 0; for(int i = 0; i < ev.n; ++i) { LD w = LD(u(ev.dm.get_index(i))) * LD(ev.sd.phi[i].value); uh += w; S += std::fabs(w); }
          LD ref = p.val(x);
          // tol: rounding of the functionals and of the n-term sum (2.11) times the conditioning of the bounded geometry classes
          LD tol = 1e-9L * (S + std::fabs(ref) + LD(pm));
          VF_CHECK(std::fabs(uh - ref) <= tol, "interpolant of an entitled polynomial differs: cell " << cell << " u_h=" << double(uh) << " p=" << double(ref) << " diff=" << double(uh - ref) << " tol=" << double(tol));
          if constexpr(GRAD_)
          {
            LD g[3]; p.grad(x, g);
            for(int k = 0; k < dim; ++k)
            {
              LD gh = 0, Sg = 0; for(int i = 0; i < ev.n; ++i) { LD w = LD(u(ev.dm.get_index(i))) * LD(ev.grad(i, k)); gh += w; Sg += std::fabs(w); }
              LD tg = 1e-8L * (Sg + std::fabs(g[k]) + LD(pm) / LD(s.md.hmin));
              VF_CHECK(std::fabs(gh - g[k]) <= tg, "gradient of the interpolant differs: cell " << cell << " comp " << k << " got " << double(gh) << " want " << double(g[k]) << " tol=" << double(tg));
            }
          }
          if constexpr(HESS_)
          {
            LD h[dim][dim]; p.hess(x, h);
            for(int k = 0; k < dim; ++k) for(int l = 0; l < dim; ++l)
            {
              LD hh = 0, Sh = 0; for(int i = 0; i < ev.n; ++i) { LD w = LD(u(ev.dm.get_index(i))) * LD(ev.hess(i, k, l)); hh += w; Sh += std::fabs(w); }
              LD th = 1e-7L * (Sh + std::fabs(h[k][l]) + LD(pm) / (LD(s.md.hmin) * LD(s.md.hmin)));
              VF_CHECK(std::fabs(hh - h[k][l]) <= th, "hessian of the interpolant differs: cell " << cell << " entry " << k << "," << l << " got " << double(hh) << " want " << double(h[k][l]) << " tol=" << double(th));
            }
          }
        }
      }
      ev.finish();
    }

    // --------------------------------------------------------------------------------------------
    // (1b) direct duality N_k(phi_j) = delta_kj on one cell
    // --------------------------------------------------------------------------------------------
    static void op_dual(Tape& t, Ctx& c, const ElemCfg&, Setup& s)
    {
      const int nc = s.md.nc(); Index cell = Index(t.range(0, nc - 1));
      c.desc.set("cell", (long long)cell);
      c.nontrivial = true;
      c.announce();
      if constexpr(NF_)
      {
        Ev ev(s.trafo, s.space); ev.prepare(cell);
        auto geo = s.md.geo(int(cell));
        std::vector<double> mv, mg; magnitudes(ev, mv, mg);
        BasisFn fn; fn.ev = &ev; fn.geo = &geo;
        std::vector<std::vector<double>> D(size_t(ev.n), std::vector<double>(size_t(ev.n), std::nan("")));
        std::vector<int> hit(size_t(ev.n), 0);
        dual_dim<dim>(s.space, cell, ev, fn, D, hit);
        for(int k = 0; k < ev.n; ++k) VF_CHECK(hit[size_t(k)] == 1, "local dof " << k << " of cell " << cell << " is the target of " << hit[size_t(k)] << " node functionals (expected exactly 1)");
        for(int k = 0; k < ev.n; ++k) for(int j = 0; j < ev.n; ++j)
        {
          // natural magnitude of N_k(phi_j) is sup|phi_j| / sup|phi_k| (derivative functionals against value basis functions etc.)
          double nat = std::max(1.0, mv[size_t(j)] / std::max(mv[size_t(k)], 1e-300));
          double want = (k == j) ? 1.0 : 0.0, tol = 1e-9 * nat;
          VF_CHECK(std::fabs(D[size_t(k)][size_t(j)] - want) <= tol, "node functional " << k << " applied to basis function " << j << " on cell " << cell << " gives " << D[size_t(k)][size_t(j)] << " (expected " << want << ", tol " << tol << ")");
        }
        ev.finish();
      }
    }

    // --------------------------------------------------------------------------------------------
    // (1c) span / unisolvence without node functionals: discrete least squares on a lattice of the cell
    //      (Gram matrix SPD with bounded pivots <=> basis linearly independent; entitled polynomial reproduced exactly)
    // --------------------------------------------------------------------------------------------
    static void lattice(int m, std::vector<std::array<double, 3>>& pts)
    {
      if constexpr(R::simplex)
      {
        // interior-shifted barycentric lattice
        for(int i = 0; i <= m; ++i) for(int j = 0; j <= (dim > 1 ? m - i : 0); ++j) for(int k = 0; k <= (dim > 2 ? m - i - j : 0); ++k)
        {
          std::array<double, 3> x = {double(i) / m, double(j) / m, double(k) / m}; pts.push_back(x);
        }
      }
      else
      {
        for(int i = 0; i <= m; ++i) for(int j = 0; j <= (dim > 1 ? m : 0); ++j) for(int k = 0; k <= (dim > 2 ? m : 0); ++k)
        {
          std::array<double, 3> x = {-1.0 + 2.0 * i / m, dim > 1 ? -1.0 + 2.0 * j / m : 0.0, dim > 2 ? -1.0 + 2.0 * k / m : 0.0}; pts.push_back(x);
        }
      }
    }
    static void op_l2proj(Tape& t, Ctx& c, const ElemCfg& cfg, Setup& s)
    {
      bool tensor = cfg.tensor && s.md.affine_cells;
      PolyFn<dim> p = gen_poly<dim>(t, cfg.deg, tensor, s.md);
      const int nc = s.md.nc(); Index cell = Index(t.range(0, nc - 1));
      c.desc.set("poly", p.json()); c.desc.set("space", tensor ? "Q" : "P"); c.desc.set("cell", (long long)cell);
      c.label(tensor ? "poly:Q" : "poly:P"); c.label("polydeg:" + std::to_string(p.degree()));
      c.nontrivial = (p.degree() >= 1) || cfg.deg == 0;
      c.announce();
      Ev ev(s.trafo, s.space); ev.prepare(cell); auto geo = s.md.geo(int(cell)); const int n = ev.n;
      std::vector<std::array<double, 3>> pts; lattice(std::max(cfg.deg, 1) + 2, pts);
      VF_CHECK(int(pts.size()) >= n, "harness: lattice too small");
      std::vector<std::vector<LD>> Phi(pts.size(), std::vector<LD>(size_t(n))); std::vector<LD> pv(pts.size());
      for(size_t q = 0; q < pts.size(); ++q)
      {
        ev.at(pts[q].data()); for(int i = 0; i < n; ++i) Phi[q][size_t(i)] = LD(ev.sd.phi[i].value);
        LD xl[3], x[3]; for(int j = 0; j < dim; ++j) xl[j] = LD(pts[q][size_t(j)]); geo.map(xl, x); pv[q] = p.val(x);
      }
      // column scaling, Gram matrix, Cholesky in long double
      std::vector<LD> sc(size_t(n), 0); for(int i = 0; i < n; ++i) { for(size_t q = 0; q < pts.size(); ++q) sc[size_t(i)] += Phi[q][size_t(i)] * Phi[q][size_t(i)]; sc[size_t(i)] = std::sqrt(sc[size_t(i)]); VF_CHECK(sc[size_t(i)] > 0, "basis function " << i << " vanishes on the whole lattice of cell " << cell); }
      std::vector<std::vector<LD>> G(size_t(n), std::vector<LD>(size_t(n), 0)); std::vector<LD> b(size_t(n), 0);
      for(int i = 0; i < n; ++i) { for(int j = 0; j <= i; ++j) { LD g = 0; for(size_t q = 0; q < pts.size(); ++q) g += Phi[q][size_t(i)] * Phi[q][size_t(j)]; G[size_t(i)][size_t(j)] = G[size_t(j)][size_t(i)] = g / (sc[size_t(i)] * sc[size_t(j)]); } for(size_t q = 0; q < pts.size(); ++q) b[size_t(i)] += Phi[q][size_t(i)] * pv[q] / sc[size_t(i)]; }
      for(int i = 0; i < n; ++i)
      {
        for(int j = 0; j <= i; ++j)
        {
          LD v = G[size_t(i)][size_t(j)]; for(int k = 0; k < j; ++k) v -= G[size_t(i)][size_t(k)] * G[size_t(j)][size_t(k)];
          if(i == j)
          {
            // unisolvence: pivot of the unit-diagonal Gram matrix bounded away from 0 (1e-12 ~ condition 1e12 would already mean "dependent" in double)
            VF_CHECK(v > 1e-12L, "basis functions of cell " << cell << " are linearly dependent on the lattice (Gram pivot " << double(v) << " at " << i << ")");
            G[size_t(i)][size_t(i)] = std::sqrt(v);
          }
          else G[size_t(i)][size_t(j)] = v / G[size_t(j)][size_t(j)];
        }
      }
      std::vector<LD> y(static_cast<size_t>(n)), cf(static_cast<size_t>(n));
      for(int i = 0; i < n; ++i) { LD v = b[size_t(i)]; for(int k = 0; k < i; ++k) v -= G[size_t(i)][size_t(k)] * y[size_t(k)]; y[size_t(i)] = v / G[size_t(i)][size_t(i)]; }
      for(int i = n - 1; i >= 0; --i) { LD v = y[size_t(i)]; for(int k = i + 1; k < n; ++k) v -= G[size_t(k)][size_t(i)] * cf[size_t(k)]; cf[size_t(i)] = v / G[size_t(i)][size_t(i)]; }
      const double pm = pmax_of(p, s.md);
      for(size_t q = 0; q < pts.size(); ++q)
      {
        LD uh = 0, S = 0; for(int i = 0; i < n; ++i) { LD w = cf[size_t(i)] / sc[size_t(i)] * Phi[q][size_t(i)]; uh += w; S += std::fabs(w); }
        LD tol = 1e-7L * (S + std::fabs(pv[q]) + LD(pm));
        VF_CHECK(std::fabs(uh - pv[q]) <= tol, "entitled polynomial is not in the span of the basis on cell " << cell << ": residual " << double(uh - pv[q]) << " at lattice point " << q << " tol=" << double(tol));
      }
      ev.finish();
    }

    // --------------------------------------------------------------------------------------------
    // (2) derivative consistency by central differences in reference coordinates (chain rule with the own Jacobian)
    // --------------------------------------------------------------------------------------------
    static void op_deriv(Tape& t, Ctx& c, const ElemCfg&, Setup& s)
    {
      const int nc = s.md.nc(); Index cell = Index(t.range(0, nc - 1));
      double xi[3] = {0, 0, 0}; std::string pl = gen_ref_point<ShapeType>(t, xi); c.label(pl);
      c.desc.set("cell", (long long)cell); { J q = J::arr(); for(int j = 0; j < dim; ++j) q.add(xi[j]); c.desc.set("pt", q); }
      c.nontrivial = GRAD_;
      c.announce();
      if constexpr(GRAD_)
      {
        Ev ev(s.trafo, s.space); ev.prepare(cell); auto geo = s.md.geo(int(cell)); const int n = ev.n;
        std::vector<double> mv, mg; magnitudes(ev, mv, mg);
        const double h = 1e-5 * (R::simplex ? 0.5 : 1.0);
        LD xl[3]; for(int j = 0; j < dim; ++j) xl[j] = LD(xi[j]);
        LD Jm[dim][dim]; geo.jac(xl, Jm);
        ev.at(xi);
        std::vector<std::array<double, 3>> g0(static_cast<size_t>(n)); std::vector<std::array<std::array<double, 3>, 3>> h0(static_cast<size_t>(n));
        for(int i = 0; i < n; ++i) { for(int k = 0; k < dim; ++k) { g0[size_t(i)][size_t(k)] = ev.grad(i, k); for(int l = 0; l < dim; ++l) h0[size_t(i)][size_t(k)][size_t(l)] = ev.hess(i, k, l); } mv[size_t(i)] = std::max(mv[size_t(i)], std::fabs(double(ev.sd.phi[i].value))); }
        for(int d = 0; d < dim; ++d)
        {
          double xp[3], xm[3]; for(int j = 0; j < dim; ++j) { xp[j] = xm[j] = xi[j]; } xp[d] += h; xm[d] -= h;
          const double hh = (xp[d] - xm[d]);
          std::vector<double> vp(static_cast<size_t>(n)), vm(static_cast<size_t>(n)); std::vector<std::array<double, 3>> gp(static_cast<size_t>(n)), gm(static_cast<size_t>(n));
          ev.at(xp); for(int i = 0; i < n; ++i) { vp[size_t(i)] = ev.sd.phi[i].value; for(int k = 0; k < dim; ++k) gp[size_t(i)][size_t(k)] = ev.grad(i, k); }
          ev.at(xm); for(int i = 0; i < n; ++i) { vm[size_t(i)] = ev.sd.phi[i].value; for(int k = 0; k < dim; ++k) gm[size_t(i)][size_t(k)] = ev.grad(i, k); }
          for(int i = 0; i < n; ++i)
          {
            double fd = (vp[size_t(i)] - vm[size_t(i)]) / hh;
            LD an = 0; for(int k = 0; k < dim; ++k) an += LD(g0[size_t(i)][size_t(k)]) * Jm[k][d];
            // tol = C h^2 sup|phi_i| (C from the Markov bound for degree <= 5 polynomials) + rounding eps/h sup|phi_i|
            double tol = 1e-6 * (mv[size_t(i)] + std::fabs(double(an))) + 1e-300;
            VF_CHECK(std::fabs(fd - double(an)) <= tol, "gradient of basis function " << i << " on cell " << cell << " is not the derivative of its values: d/dxi_" << d << " FD=" << fd << " grad.dF=" << double(an) << " tol=" << tol);
            if constexpr(HESS_)
            {
              for(int k = 0; k < dim; ++k)
              {
                double fdg = (gp[size_t(i)][size_t(k)] - gm[size_t(i)][size_t(k)]) / hh;
                LD ah = 0; for(int l = 0; l < dim; ++l) ah += LD(h0[size_t(i)][size_t(k)][size_t(l)]) * Jm[l][d];
                double th = 1e-5 * (mg[size_t(i)] + std::fabs(g0[size_t(i)][size_t(k)]) + std::fabs(double(ah))) + 1e-300;
                VF_CHECK(std::fabs(fdg - double(ah)) <= th, "hessian of basis function " << i << " on cell " << cell << " is not the derivative of its gradient: d/dxi_" << d << " of grad_" << k << " FD=" << fdg << " hess.dF=" << double(ah) << " tol=" << th);
              }
            }
          }
        }
        if constexpr(HESS_)
        {
          for(int i = 0; i < n; ++i) for(int k = 0; k < dim; ++k) for(int l = 0; l < k; ++l)
          {
            double a = h0[size_t(i)][size_t(k)][size_t(l)], b = h0[size_t(i)][size_t(l)][size_t(k)];
            VF_CHECK(std::fabs(a - b) <= 1e-9 * (std::fabs(a) + std::fabs(b)) + 1e-9 * mg[size_t(i)] / double(s.md.hmin), "hessian of basis function " << i << " is not symmetric: " << a << " vs " << b);
          }
        }
        // the evaluator must return the same numbers whatever subset of {value, grad, hess} the caller asks for (a
        // Hessian-only or gradient-only configuration goes through other branches of the configuration traits)
        ev.at(xi);
        {
          const double hs = 1.0 / double(s.md.hmin);
          restricted<SpaceTags::value>(s, cell, xi, [&](const auto& sd) { for(int i = 0; i < n; ++i) VF_CHECK(std::fabs(double(sd.phi[i].value) - double(ev.sd.phi[i].value)) <= 1e-12 * (mv[size_t(i)] + 1e-300), "value-only configuration: basis function " << i << " on cell " << cell << " = " << double(sd.phi[i].value) << ", with value|grad|hess " << double(ev.sd.phi[i].value)); });
          restricted<SpaceTags::grad>(s, cell, xi, [&](const auto& sd) { for(int i = 0; i < n; ++i) for(int k = 0; k < dim; ++k) VF_CHECK(std::fabs(double(sd.phi[i].grad[k]) - ev.grad(i, k)) <= 1e-11 * (mg[size_t(i)] + mv[size_t(i)] * hs + 1e-300), "gradient-only configuration: d_" << k << " of basis function " << i << " on cell " << cell << " = " << double(sd.phi[i].grad[k]) << ", with value|grad|hess " << ev.grad(i, k)); });
          if constexpr(HESS_)
            restricted<SpaceTags::hess>(s, cell, xi, [&](const auto& sd) { for(int i = 0; i < n; ++i) for(int k = 0; k < dim; ++k) for(int l = 0; l < dim; ++l) VF_CHECK(std::fabs(double(sd.phi[i].hess(k, l)) - ev.hess(i, k, l)) <= 1e-10 * ((mg[size_t(i)] + mv[size_t(i)] * hs) * hs + std::fabs(ev.hess(i, k, l)) + 1e-300), "hessian-only configuration: d_" << k << "d_" << l << " of basis function " << i << " on cell " << cell << " = " << double(sd.phi[i].hess(k, l)) << ", with value|grad|hess " << ev.hess(i, k, l)); });
        }
        ev.finish();
      }
    }

    /// evaluates the basis at one point with a restricted space configuration (own evaluator objects) and hands the data to fn
    template<SpaceTags cfg_, typename Fn_> static void restricted(Setup& s, Index cell, const double* xi, Fn_&& fn)
    {
      typedef Assembly::AsmTraits1<double, Space_, TrafoTags::none, cfg_> ATR;
      typename ATR::TrafoEvaluator te(s.trafo); typename ATR::SpaceEvaluator se(s.space); typename ATR::TrafoEvalData td; typename ATR::SpaceEvalData sd;
      typename ATR::DomainPointType p; for(int j = 0; j < dim; ++j) p[j] = xi[j];
      te.prepare(cell); se.prepare(te); te(td, p); se(sd, td); fn(sd); se.finish(); te.finish();
    }

    // --------------------------------------------------------------------------------------------
    // (3) DOF numbering: one index per shared functional; conformity across interior facets
    // --------------------------------------------------------------------------------------------
    static void op_conf(Tape& t, Ctx& c, const ElemCfg& cfg, Setup& s)
    {
      SmoothFn<dim> f; for(int j = 0; j < dim; ++j) { f.ctr[j] = LD(s.md.ctr[j]); f.k[j] = LD(1 + t.range(0, 5)) * 0.5L; f.m[j] = LD(t.range(0, 6) - 3); }
      f.L = LD(s.md.ext > 0 ? s.md.ext : 1.0); f.a = LD(t.range(0, 15)) / 4; f.b = LD(t.range(0, 15)) / 4;
      { J q = J::arr(); for(int j = 0; j < dim; ++j) { q.add(double(f.k[j])); q.add(double(f.m[j])); } q.add(double(f.a)); q.add(double(f.b)); c.desc.set("fn", q); }
      // points on facets: facet-local parameters from the tape (up to 3 per facet)
      double par[3][3]; for(int r = 0; r < 3; ++r) { double xi[3] = {0, 0, 0}; gen_ref_point<ShapeType>(t, xi, true); for(int j = 0; j < 3; ++j) par[r][j] = xi[j]; }
      { J q = J::arr(); for(int r = 0; r < 3; ++r) for(int j = 0; j < dim; ++j) q.add(par[r][j]); c.desc.set("par", q); }
      const int nc = s.md.nc();
      // interior facets by own vertex-set matching
      std::map<std::vector<int>, std::vector<std::pair<int, int>>> fmap;
      for(int q = 0; q < nc; ++q) for(int fc = 0; fc < R::nfacets; ++fc)
      {
        int lv[8]; R::facet(fc, lv); std::vector<int> key; for(int k = 0; k < R::nfv; ++k) key.push_back(s.md.cells[size_t(q)][size_t(lv[k])]);
        std::sort(key.begin(), key.end()); fmap[key].push_back({q, fc});
      }
      int nint = 0; for(auto& kv : fmap) if(kv.second.size() == 2) ++nint;
      c.label(nint > 0 ? "facets:interior" : "facets:none"); c.label(cfg.conforming ? "conformity:H1" : "conformity:none");
      c.nontrivial = nc >= 2 && nint > 0;
      c.announce();
      // ---- numbering
      const Index N = s.space.get_num_dofs();
      VF_CHECK(N == expected_dofs<dim>(s.space), "get_num_dofs()=" << N << " != sum over dimensions of entities x dofs per entity = " << expected_dofs<dim>(s.space));
      Ev ev(s.trafo, s.space);
      VF_CHECK(ev.dm.get_num_global_dofs() == N, "dof mapping reports " << ev.dm.get_num_global_dofs() << " global dofs, space " << N);
      std::vector<int> cover(size_t(N), 0);
      for(int q = 0; q < nc; ++q)
      {
        ev.prepare(Index(q));
        VF_CHECK(ev.dm.get_num_local_dofs() == ev.n, "dof mapping has " << ev.dm.get_num_local_dofs() << " local dofs, evaluator " << ev.n);
        std::vector<Index> a, b; for(int i = 0; i < ev.n; ++i) { Index g = ev.dm.get_index(i); VF_CHECK(g < N, "dof index " << g << " out of range " << N); a.push_back(g); cover[size_t(g)]++; }
        assigned<dim>(s.space, Index(q), b);
        std::sort(a.begin(), a.end()); std::sort(b.begin(), b.end());
        VF_CHECK(std::adjacent_find(a.begin(), a.end()) == a.end(), "dof mapping of cell " << q << " maps two local dofs to one global index");
        VF_CHECK(a == b, "dof mapping of cell " << q << " and dof assignment of its sub-entities give different index sets (" << a.size() << " vs " << b.size() << " indices)");
      }
      for(Index g = 0; g < N; ++g) VF_CHECK(cover[size_t(g)] > 0, "global dof " << g << " is not reached from any cell");
      // ---- conformity
      if constexpr(NF_)
      {
        if(cfg.conforming)
        {
          VecT u; Assembly::Interpolator::project(u, f, s.space);
          auto eval = [&](int cell, const LD* xi, LD& S) { ev.prepare(Index(cell)); ev.at(xi); LD v = 0; S = 0; for(int i = 0; i < ev.n; ++i) { LD w = LD(u(ev.dm.get_index(i))) * LD(ev.sd.phi[i].value); v += w; S += std::fabs(w); } return v; };
          for(auto& kv : fmap)
          {
            if(kv.second.size() != 2) continue;
            int ca = kv.second[0].first, fa = kv.second[0].second, cb = kv.second[1].first;
            auto ga = s.md.geo(ca), gb = s.md.geo(cb);
            for(int r = 0; r < 3; ++r)
            {
              // point on the local facet fa of cell ca
              LD xa[3] = {0, 0, 0};
              if constexpr(R::simplex)
              {
                // barycentric: put the weight of vertex fa onto the others
                LD w[4]; LD rest = 1; for(int j = 0; j < dim; ++j) { w[j + 1] = LD(par[r][j]); rest -= w[j + 1]; } w[0] = rest;
                LD wf = w[fa]; w[fa] = 0; for(int k = 0; k <= dim; ++k) if(k != fa) w[k] += wf / LD(dim);
                for(int j = 0; j < dim; ++j) xa[j] = w[j + 1];
              }
              else { for(int j = 0; j < dim; ++j) xa[j] = LD(par[r][j]); xa[fa / 2] = (fa % 2) ? 1 : -1; }
              LD x[3], xb[3]; ga.map(xa, x);
              if(!gb.unmap(x, xb)) VF_FAIL("harness:own Newton inverse did not converge on the neighbour cell");
              if(!R::inside(xb, 1e-10L)) VF_FAIL("harness:facet point is not on the neighbour cell");
              LD Sa, Sb; LD va = eval(ca, xa, Sa), vb = eval(cb, xb, Sb);
              LD tol = 1e-10L * (Sa + Sb + 1);
              VF_CHECK(std::fabs(va - vb) <= tol, "interpolant jumps across the facet shared by cells " << ca << " and " << cb << ": " << double(va) << " vs " << double(vb) << " diff " << double(va - vb) << " tol " << double(tol));
            }
          }
        }
      }
      ev.finish();
    }
  };
} // namespace c15

#define C15_MAIN(...) \
  int main(int argc, char** argv) { FEAT::Runtime::ScopeGuard guard(argc, argv); std::vector<vf::Target> tg = { __VA_ARGS__ }; return vf::main_impl(argc, argv, tg); }
