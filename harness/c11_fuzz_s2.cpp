// C11 libFuzzer target fuzz_mesh_s2 (one TU per shape)
#include "common/c11_fuzz.hpp"
namespace c11 { void fuzz_s2(const uint8_t* d, size_t n) { fuzz_mesh<MeshS2>(d, n); } }
