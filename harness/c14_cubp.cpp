// C14: cubature exactness - "tensor:" / "scalar:" name variants (the configuration tools/cub_list is built with)
#define FEAT_CUBATURE_TENSOR_PREFIX 1
#define FEAT_CUBATURE_SCALAR_PREFIX 1
#include "common/c14_core.hpp"
int main(int argc, char** argv) { return c14::run_main(argc, argv, "_p"); }
