#!/usr/bin/env python3
"""C11 libFuzzer campaign wrapper (run key "script" of props/C11.json).

search:  c11_fuzz.py --bin B --verif V --root R --build D --target fuzz_mesh_q2 --cases N --max-size S --seed X
                     --replay-dir DIR --tier T [--exclude a,b] --out result.json
         runs B on a fresh copy of V/corpus/<target> with -seed derived from --seed and -runs=N, collects crash-* artifacts,
         re-runs each 3x, wraps the bytes of the smallest confirmed one as a base64 JSON replay and reports the counters
         the target dumped into its side file (evaluations = executions; distinct_nontrivial = distinct inputs that parsed
         or were rejected behind the root markup - counted inside the target).
replay:  c11_fuzz.py --bin B ... --replay file.json [--exclude a,b] --out result.json
"""
import sys, os, json, argparse, subprocess, shutil, base64, hashlib, re, glob, time

TARGETS = {"fuzz_mesh_q2": "q2", "fuzz_mesh_h3": "h3", "fuzz_mesh_s2": "s2", "fuzz_mesh_s3": "s3", "fuzz_xml": "xml", "fuzz_ini": "ini"}


def symptom_of(err, rc):
    """one-line symptom from the stderr of a single-input run"""
    m = re.search(r"C11-FINDING: (.*)", err)
    if m:
        return "finding:" + m.group(1).strip()
    m = re.search(r"ERROR: AddressSanitizer: ([^\n]*)", err)
    if m:
        kind = m.group(1).split(" on ")[0].strip()
        fr = re.search(r"#\d+ 0x[0-9a-f]+ in ([^\n]*?/kernel/[^\n ]*)", err)
        fn = ""
        if fr:
            fn = re.sub(r"^.* in ", "", fr.group(0))
            fn = re.sub(r"/[^ ]*/kernel/", "kernel/", fn)
        return "asan:" + kind + ((" in " + fn) if fn else "")
    m = re.search(r"([^\n]*runtime error:[^\n]*)", err)
    if m:
        return "ubsan:" + re.sub(r"^/[^ ]*/kernel/", "kernel/", m.group(1).strip())
    if "FATAL ERROR" in err or "Assertion" in err:
        mm = re.search(r"FATAL ERROR: *([^\n]*)", err)
        msg = mm.group(1).strip()[:200] if mm else ""
        for key in ("Expression", "Function"):
            mm = re.search(key + r"\.*: *([^\n]*)", err)
            if mm:
                msg += (" | " if msg else "") + mm.group(1).strip()[:160]
        return "abort:" + (msg or "assertion")
    if "ERROR: libFuzzer: timeout" in err:
        return "hang:libFuzzer timeout"
    if "ERROR: libFuzzer: out-of-memory" in err:
        return "oom:libFuzzer rss limit"
    m = re.search(r"ERROR: libFuzzer: ([^\n]*)", err)
    if m:
        return "crash:" + m.group(1).strip()
    return "exit:%s" % rc


def run_one(binp, path, env, timeout=90):
    try:
        p = subprocess.run([binp, path, "-timeout=60", "-rss_limit_mb=4096"], stdout=subprocess.PIPE, stderr=subprocess.PIPE, env=env, timeout=timeout, errors="replace")
        return p.returncode, p.stderr
    except subprocess.TimeoutExpired:
        return -9, "ERROR: libFuzzer: timeout (wrapper watchdog)"


def main():
    ap = argparse.ArgumentParser()
    for k in ("--bin", "--verif", "--root", "--build", "--target", "--replay-dir", "--tier", "--exclude", "--out", "--replay"):
        ap.add_argument(k)
    ap.add_argument("--cases", type=int, default=1000)
    ap.add_argument("--max-size", type=int, default=100)
    ap.add_argument("--seed", type=int, default=1)
    a, _ = ap.parse_known_args()
    env = dict(os.environ)
    env.setdefault("ASAN_OPTIONS", "detect_leaks=0:abort_on_error=1:alloc_dealloc_mismatch=0:allocator_may_return_null=1")
    if a.exclude:
        env["C11_EXCLUDE"] = a.exclude

    # ------------------------------------------------------------------ replay of one stored input
    if a.replay:
        c = json.load(open(a.replay))
        tgt = c.get("target", "")
        env["C11_FUZZ_TARGET"] = TARGETS[tgt]
        env.pop("C11_STATS", None)
        tmp = a.out + ".input"
        open(tmp, "wb").write(base64.b64decode(c["bytes_b64"]))
        rc, err = run_one(a.bin, tmp, env)
        os.remove(tmp)
        res = {"mode": "replay", "target": tgt, "verdict": "fail" if rc != 0 else "ok", "symptom": symptom_of(err, rc) if rc != 0 else "", "op": tgt}
        json.dump(res, open(a.out, "w"))
        return 1 if rc != 0 else 0

    # ------------------------------------------------------------------ campaign
    tgt = a.target
    env["C11_FUZZ_TARGET"] = TARGETS[tgt]
    work = os.path.join(a.build, "run", "C11", "fuzz-%s-%d" % (tgt, a.seed))
    shutil.rmtree(work, ignore_errors=True)
    os.makedirs(os.path.join(work, "corpus"))
    os.makedirs(os.path.join(work, "art"))
    seeds = sorted(glob.glob(os.path.join(a.verif, "corpus", tgt, "*")))
    for s in seeds:
        shutil.copy(s, os.path.join(work, "corpus", os.path.basename(s)))
    stats_path = os.path.join(work, "stats.json")
    env["C11_STATS"] = stats_path
    dic = os.path.join(a.verif, "corpus", "c11_ini.dict" if tgt == "fuzz_ini" else "c11_mesh.dict")
    cap = 75 if a.tier == "quick" else 3000
    cmd = [a.bin, os.path.join(work, "corpus"), "-seed=%d" % (a.seed % 4294967291 or 1), "-runs=%d" % a.cases, "-max_total_time=%d" % cap,
           "-timeout=10", "-rss_limit_mb=3072", "-max_len=%d" % (4096 if a.max_size <= 100 else 16384), "-len_control=50",
           "-artifact_prefix=" + os.path.join(work, "art") + "/", "-print_final_stats=1", "-verbosity=0"]
    if os.path.exists(dic):
        cmd.append("-dict=" + dic)
    t0 = time.time()
    p = subprocess.run(cmd, stdout=subprocess.PIPE, stderr=subprocess.PIPE, env=env, errors="replace")
    wall = time.time() - t0
    try:
        st = json.load(open(stats_path))
    except Exception:
        st = {"execs": 0, "parsed": 0, "nontrivial": 0, "distinct_nontrivial": 0, "classes": {}, "excluded": {}, "nt_hashes": []}
    res = {"mode": "search", "target": tgt, "seed": a.seed, "cases_requested": a.cases, "max_size": a.max_size,
           "evaluations": st["execs"], "nontrivial": st["nontrivial"], "distinct_nontrivial": st["distinct_nontrivial"], "discards": 0,
           "classes": st["classes"], "excluded": st["excluded"], "nt_hashes": st.get("nt_hashes", []), "seed_files": len(seeds), "wall_s": wall,
           "libfuzzer_rc": p.returncode}
    # samples: a few inputs libFuzzer added to the corpus (coverage-increasing mutants), shortest first
    new = [f for f in glob.glob(os.path.join(work, "corpus", "*")) if os.path.basename(f) not in set(os.path.basename(s) for s in seeds)]
    new.sort(key=lambda f: (os.path.getsize(f), f))
    samples = []
    for f in (seeds[:2] + new[:4]):
        samples.append({"label": "seed" if f in seeds else "corpus-addition", "case": {"file": os.path.basename(f), "text": open(f, "rb").read()[:400].decode("latin-1")}})
    res["samples"] = samples
    res["corpus_additions"] = len(new)

    # artifacts: crash-* count when they reproduce 3x; timeout/oom/slow-unit are load noise unless they reproduce under a 60 s watchdog
    arts = sorted(glob.glob(os.path.join(work, "art", "*")), key=lambda f: (0 if os.path.basename(f).startswith("crash-") else 1, os.path.getsize(f), f))
    renv = dict(env)
    renv.pop("C11_STATS", None)
    for art in arts:
        if os.path.basename(art).startswith("slow-unit"):
            continue
        n, sym = 0, ""
        for _ in range(3):
            rc, err = run_one(a.bin, art, renv)
            if rc != 0:
                n += 1
                sym = sym or symptom_of(err, rc)
        if n == 0:
            continue
        data = open(art, "rb").read()
        sha = hashlib.sha1(data).hexdigest()[:16]
        rp = os.path.join(a.replay_dir or work, "%s-%s.json" % (tgt, sha))
        kind = sym.split(":", 1)[0]
        sub = sym.split(":", 2)[1] if sym.count(":") >= 1 else ""
        json.dump({"target": tgt, "bytes_b64": base64.b64encode(data).decode(), "symptom": sym, "op": tgt, "text": data[:3000].decode("latin-1")}, open(rp, "w"))
        res["failure"] = {"symptom": sym, "op": tgt, "sym_key": kind + ":" + sub.split(" ")[0] + "@" + tgt, "replay": rp, "confirmed": n,
                          "desc": {"bytes": len(data), "text": data[:1500].decode("latin-1"), "artifact": os.path.basename(art)}}
        break
    if "failure" not in res and p.returncode != 0 and not arts:
        # the fuzzer itself died without leaving an artifact: broken run, make it visible as a flaky failure (confirmed 0)
        res["failure"] = {"symptom": "fuzzer exit %d: %s" % (p.returncode, p.stderr[-400:]), "op": tgt, "sym_key": "fuzzer@" + tgt, "replay": "", "confirmed": 0, "desc": {}}
    json.dump(res, open(a.out, "w"))
    return 1 if "failure" in res else 0


if __name__ == "__main__":
    sys.exit(main())
