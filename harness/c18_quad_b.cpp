// C18 - quad_b: instantiations of c18::run_case for Shape::Hypercube<2> (see c18_core.hpp)
#include "c18_elems.hpp"
#include "c18_parts.hpp"
namespace c18 {
void quad_b(vf::Tape& t, vf::Ctx& c, int idx, bool flt, bool big)
{
  typedef Shape::Hypercube<2> S; (void)flt;
  switch(idx)
  {
  case 0: run_case<S, ED0, double>(t, c, M_D0, big); break;
  case 1: if(flt) run_case<S, ED1, float>(t, c, M_D1, big); else run_case<S, ED1, double>(t, c, M_D1, big); break;
  case 2: run_case<S, ECR, double>(t, c, M_CRH, big); break;
  case 3: run_case<S, EQB, double>(t, c, M_QB, big); break;
  default: throw vf::Discard{"bad element index"};
  }
}
}
