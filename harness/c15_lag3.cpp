// C15: Lagrange-3 on all five shapes (edge/face dof orientation handling)
#include "c15_core.hpp"
#include <kernel/space/lagrange3/element.hpp>
using namespace c15;
typedef Shape::Hypercube<1> H1; typedef Shape::Hypercube<2> H2; typedef Shape::Simplex<2> S2;
template<typename S_> using Trf = Trafo::Standard::Mapping<Geometry::ConformalMesh<S_>>;

static void lagrange3(Tape& t, Ctx& c)
{
  ElemCfg q = {"Lagrange3", 3, true, false, true, 3, 2, 2, 3, 3}, p = q; p.tensor = false;
  switch(t.pick({3, 1, 3}))
  {
  case 0: Check<Space::Lagrange3::Element<Trf<H2>>, true, true, true>::run(t, c, q); break;
  case 1: Check<Space::Lagrange3::Element<Trf<H1>>, true, true, true>::run(t, c, q); break;
  default: Check<Space::Lagrange3::Element<Trf<S2>>, true, true, true>::run(t, c, p); break;
  }
}
C15_MAIN({"lagrange3", lagrange3, 96, 8, 30000})
