// C16: registration of the Burgers targets (templates instantiated in c16_burgers_2d.cpp / c16_burgers_3d.cpp)
#include "c16_burgers.hpp"
namespace c16
{
  void reg_burgers(std::vector<vf::Target>& tg)
  {
    tg.push_back({"burgers_quad", [](vf::Tape& t, vf::Ctx& c) { burgers_target<Shape::Hypercube<2>, false>(t, c); }, 200, 2, 60000});
    tg.push_back({"burgers_tria", [](vf::Tape& t, vf::Ctx& c) { burgers_target<Shape::Simplex<2>, true>(t, c); }, 200, 2, 60000});
    tg.push_back({"burgers_hexa", [](vf::Tape& t, vf::Ctx& c) { burgers_target<Shape::Hypercube<3>, false>(t, c); }, 200, 2, 60000});
    tg.push_back({"burgers_tetra", [](vf::Tape& t, vf::Ctx& c) { burgers_target<Shape::Simplex<3>, true>(t, c); }, 200, 2, 60000});
  }
}
