// C11 libFuzzer target fuzz_mesh_q2 (one TU per shape)
#include "common/c11_fuzz.hpp"
namespace c11 { void fuzz_q2(const uint8_t* d, size_t n) { fuzz_mesh<MeshQ2>(d, n); } }

// statistics interface used by the main TU (xml / ini targets and the libFuzzer callbacks)
namespace c11
{
  void stats_init(const char* target, const char* path, const char* excl)
  {
    FuzzStats& s = stats(); s.target = target ? target : ""; s.path = path ? path : "";
    std::stringstream ss(excl ? excl : ""); std::string x; while(std::getline(ss, x, ',')) if(!x.empty()) s.excl.insert(x);
  }
  void stats_exec() { stats().execs++; }
  void stats_class(const char* c) { stats().classes[c]++; }
  void stats_nt(const std::string& text) { stats().nt(text); }
  void stats_dump() { stats().dump(); }
  bool stats_excl(const char* sw) { return stats().is_excl(sw); }
  void stats_finding(const std::string& key) { finding(key); }
}
