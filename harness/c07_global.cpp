// C07, group "global": PipePCG, GroppPCG, RBiCGStab (need dot_async/norm2_async) and PCG as control, through
// single-rank Global::Matrix / Global::Vector / Global::Filter wrappers around a compiled Global::Gate
#include "common/c07_case.hpp"
using namespace c07;

static int maxn() { const char* e = getenv("C07_MAXN"); int v = e ? atoi(e) : 60; return v < 3 ? 60 : v; }

int main(int argc, char** argv)
{
  FEAT::Runtime::ScopeGuard guard(argc, argv);
  std::vector<Target> tg;
  tg.push_back({"global", [](Tape& t, Ctx& c) { target<G_GLOBAL, double, GlobalBE>(t, c, {K_PIPEPCG, K_GROPPPCG, K_RBICGSTAB, K_PCG}, {3, 3, 3, 1}, maxn()); }, 96, 2, 60000});
  // thorough tier: same decoder, systems up to n = 120
  tg.push_back({"global_big", [](Tape& t, Ctx& c) { target<G_GLOBAL, double, GlobalBE>(t, c, {K_PIPEPCG, K_GROPPPCG, K_RBICGSTAB, K_PCG}, {3, 3, 3, 1}, 120); }, 96, 3, 120000});
  return main_impl(argc, argv, tg);
}
