// C15: Bernstein-2, P2-bubble, Hermite-3, Argyris, Bogner-Fox-Schmit
#include "c15_core.hpp"
#include <kernel/space/bernstein2/element.hpp>
#include <kernel/space/p2bubble/element.hpp>
#include <kernel/space/hermite3/element.hpp>
#include <kernel/space/argyris/element.hpp>
#include <kernel/space/bogner_fox_schmit/element.hpp>
using namespace c15;
typedef Shape::Hypercube<1> H1; typedef Shape::Hypercube<2> H2; typedef Shape::Hypercube<3> H3; typedef Shape::Simplex<2> S2;
template<typename S_> using Trf = Trafo::Standard::Mapping<Geometry::ConformalMesh<S_>>;

static void bernstein2(Tape& t, Ctx& c)
{
  ElemCfg e = {"Bernstein2", 2, true, false, true, 3, 2, 2, 3, 2};
  switch(t.pick({2, 1, 2}))
  {
  case 0: Check<Space::Bernstein2::Element<Trf<H2>>, true, true, true>::run(t, c, e); break;
  case 1: Check<Space::Bernstein2::Element<Trf<H1>>, true, true, true>::run(t, c, e); break;
  default: Check<Space::Bernstein2::Element<Trf<H3>>, true, true, true>::run(t, c, e); break;
  }
}
static void p2bubble(Tape& t, Ctx& c)
{
  ElemCfg e = {"P2Bubble", 2, false, false, true, 3, 2, 2, 3, 2};
  Check<Space::P2Bubble::Element<Trf<S2>>, true, true, true>::run(t, c, e);
}
static void hermite3(Tape& t, Ctx& c)
{
  // claimed pairs: Hypercube<1> and Simplex<2> (the quadrilateral variant is outside element-regression-test's pairs)
  ElemCfg e = {"Hermite3", 3, false, false, true, 3, 2, 2, 3, 2};
  switch(t.pick({1, 2}))
  {
  case 0: Check<Space::Hermite3::Element<Trf<H1>>, true, true, true>::run(t, c, e); break;
  default: Check<Space::Hermite3::Element<Trf<S2>>, true, true, true>::run(t, c, e); break;
  }
}
static void argyris(Tape& t, Ctx& c)
{
  ElemCfg e = {"Argyris", 5, false, false, true, 3, 2, 2, 3, 2};
  Check<Space::Argyris::Element<Trf<S2>>, true, true, true>::run(t, c, e);
}
static void bfs(Tape& t, Ctx& c)
{
  // no NodeFunctional: unisolvence through the local least-squares span test (Q3 on parallelograms, P3 on bilinear cells)
  ElemCfg e = {"BognerFoxSchmit", 3, true, false, false, 0, 0, 3, 3, 2};
  Check<Space::BognerFoxSchmit::Element<Trf<H2>>, true, true, false>::run(t, c, e);
}
C15_MAIN({"bernstein2", bernstein2, 96, 8, 30000}, {"p2bubble", p2bubble, 96, 8, 30000}, {"hermite3", hermite3, 96, 8, 30000}, {"argyris", argyris, 96, 8, 30000}, {"bfs", bfs, 96, 8, 30000})
