// C15: Bernstein-2, P2-bubble, Hermite-3, Argyris, Bogner-Fox-Schmit
#include "c15_core.hpp"
#include <kernel/space/bernstein2/element.hpp>
#include <kernel/space/p2bubble/element.hpp>
#include <kernel/space/hermite3/element.hpp>
#include <kernel/space/argyris/element.hpp>
#include <kernel/space/bogner_fox_schmit/element.hpp>
using namespace c15;
typedef Shape::Hypercube<1> H1; typedef Shape::Hypercube<2> H2; typedef Shape::Hypercube<3> H3; typedef Shape::Simplex<2> S2;
template<typename S_> using Trf = Trafo::Standard::Mapping<Geometry::ConformalMesh<S_>>;

static void bernstein2(Tape& t, Ctx& c)
{
  ElemCfg e = {"Bernstein2", 2, true, false, true, 3, 2, 2, 3, 2};
  switch(t.pick({2, 1, 2}))
  {
  case 0: Check<Space::Bernstein2::Element<Trf<H2>>, true, true, true>::run(t, c, e); break;
  case 1: Check<Space::Bernstein2::Element<Trf<H1>>, true, true, true>::run(t, c, e); break;
  default: Check<Space::Bernstein2::Element<Trf<H3>>, true, true, true>::run(t, c, e); break;
  }
}
static void p2bubble(Tape& t, Ctx& c)
{
  ElemCfg e = {"P2Bubble", 2, false, false, true, 3, 2, 2, 3, 2};
  Check<Space::P2Bubble::Element<Trf<S2>>, true, true, true>::run(t, c, e);
}
static void hermite3(Tape& t, Ctx& c)
{
  // claimed pairs: Hypercube<1> and Simplex<2> (the quadrilateral variant is outside element-regression-test's pairs)
  ElemCfg e = {"Hermite3", 3, false, false, true, 3, 2, 2, 3, 2};
  switch(t.pick({1, 2, 1}))
  {
  case 0: Check<Space::Hermite3::Element<Trf<H1>>, true, true, true>::run(t, c, e); break;
  case 1: Check<Space::Hermite3::Element<Trf<S2>>, true, true, true>::run(t, c, e); break;
  default: {
    // quadrilateral variant: outside the reproduction/duality claims (its node functionals and dof counts do not match, it is
    // not in element-regression-test's pairs), but it is a supported instantiation and its evaluator still has to return
    // gradients and Hessians that are the derivatives of the returned values on every (also non-parallelogram) cell, in every
    // evaluation configuration: derivative-consistency op only
    ElemCfg q = {"Hermite3", 3, false, false, false, 0, 0, 0, 3, 0};
    Check<Space::Hermite3::Element<Trf<H2>>, true, true, false>::run(t, c, q); break; }
  }
}
// ---------------------------------------------------------------------------------------------------------------
// Known finding "c15-argyris-pivot" (findings/C15.md #3): Math::invert_matrix pivots on the *diagonal* only; the Argyris
// nodal matrix (monomials about the barycentre x vertex/edge functionals) has structurally tiny diagonal entries, and for
// some vertex orders the symmetric pivot search ends up dividing by a rounding-level pivot.  The class is characterised
// by construction: the harness builds the same nodal matrix from the element's definition, replays the documented
// pivot rule and calls a cell "pivot-unstable" if a chosen diagonal pivot is < 1e-6 of the largest entry still available
// in its row or column.  With the switch on, such cells get their local vertex list rotated (an orientation preserving
// symmetry, so still a legal mesh) until the predicate is false.
// ---------------------------------------------------------------------------------------------------------------
static bool argyris_pivot_unstable(const double v[3][2])
{
  const int n = 21; double bx = (v[0][0] + v[1][0] + v[2][0]) / 3.0, by = (v[0][1] + v[1][1] + v[2][1]) / 3.0;
  static double a[21][21]; for(int i = 0; i < n; ++i) for(int j = 0; j < n; ++j) a[i][j] = 0.0;
  double ev[3][2] = {{0, 0}, {0, 0}, {0, 0}};
  auto pw = [](double x, double* p) { p[0] = 1.0; for(int l = 0; l < 5; ++l) p[l + 1] = p[l] * x; };
  for(int vi = 0; vi < 3; ++vi)
  {
    double px = v[vi][0] - bx, py = v[vi][1] - by, vx[6], vy[6]; pw(px, vx); pw(py, vy);
    ev[(vi + 1) % 3][0] += px; ev[(vi + 1) % 3][1] += py; ev[(vi + 2) % 3][0] -= px; ev[(vi + 2) % 3][1] -= py;
    int k = 0;
    for(int i = 0; i < 6; ++i) for(int j = 0; i + j < 6; ++j, ++k)
    {
      a[k][6 * vi + 0] = vx[i] * vy[j];
      if(i > 0) a[k][6 * vi + 1] = i * vx[i - 1] * vy[j];
      if(j > 0) a[k][6 * vi + 2] = j * vy[j - 1] * vx[i];
      if(i > 1) a[k][6 * vi + 3] = i * (i - 1) * vx[i - 2] * vy[j];
      if(j > 1) a[k][6 * vi + 4] = j * (j - 1) * vy[j - 2] * vx[i];
      if(i * j > 0) a[k][6 * vi + 5] = i * vx[i - 1] * j * vy[j - 1];
    }
  }
  for(int ei = 0; ei < 3; ++ei)
  {
    double mx = 0.5 * (v[(ei + 1) % 3][0] + v[(ei + 2) % 3][0]) - bx, my = 0.5 * (v[(ei + 1) % 3][1] + v[(ei + 2) % 3][1]) - by, vx[6], vy[6]; pw(mx, vx); pw(my, vy);
    double dn = std::sqrt(ev[ei][0] * ev[ei][0] + ev[ei][1] * ev[ei][1]), nx = ev[ei][1] / dn, ny = -ev[ei][0] / dn;
    int k = 0;
    for(int i = 0; i < 6; ++i) for(int j = 0; i + j < 6; ++j, ++k)
    {
      if(i > 0) a[k][18 + ei] += i * nx * vx[i - 1] * vy[j];
      if(j > 0) a[k][18 + ei] += j * ny * vy[j - 1] * vx[i];
    }
  }
  // replay of the pivot rule of Math::invert_matrix (largest remaining diagonal entry), in-situ Gauss-Jordan
  int p[21]; for(int i = 0; i < n; ++i) p[i] = i;
  for(int k = 0; k < n; ++k)
  {
    int ib = k; double pv = std::fabs(a[p[k]][p[k]]);
    for(int j = k + 1; j < n; ++j) if(std::fabs(a[p[j]][p[j]]) > pv) { pv = std::fabs(a[p[j]][p[j]]); ib = j; }
    std::swap(p[k], p[ib]);
    const int r = p[k];
    double avail = 0; for(int j = k; j < n; ++j) avail = std::max(avail, std::max(std::fabs(a[r][p[j]]), std::fabs(a[p[j]][r])));
    if(!(pv > 1e-6 * avail) || pv == 0.0) return true;
    double piv = 1.0 / a[r][r]; a[r][r] = 1.0; for(int j = 0; j < n; ++j) a[r][j] *= piv;
    for(int i = 0; i < n; ++i) { if(i == r) continue; double f = a[i][r]; a[i][r] = 0.0; for(int j = 0; j < n; ++j) a[i][j] -= a[r][j] * f; }
  }
  return false;
}
struct ArgyrisFix
{
  void operator()(MeshData<S2>& md, Ctx& c) const
  {
    int bad = 0, rotated = 0;
    for(auto& cl : md.cells)
    {
      auto unstable = [&]() { double v[3][2]; for(int k = 0; k < 3; ++k) for(int i = 0; i < 2; ++i) v[k][i] = md.vtx[size_t(cl[size_t(k)])][size_t(i)]; return argyris_pivot_unstable(v); };
      if(!unstable()) continue;
      ++bad;
      if(!c.excl("c15-argyris-pivot")) continue;
      for(int r = 0; r < 2 && unstable(); ++r) { std::rotate(cl.begin(), cl.begin() + 1, cl.end()); ++rotated; }
      if(unstable()) throw vf::Discard{"all three rotations of an Argyris cell are pivot-unstable"};
    }
    c.label(bad ? "argyris:pivot-unstable-cell" : "argyris:pivot-stable");
    md.desc.set("pivot_unstable_cells", bad);
    if(rotated)
    {
      // keep the description truthful: the cell lists changed after gen_mesh() wrote them
      md.desc.set("rotated_by_switch", rotated);
      if(md.nc() <= 6) { vf::J cj = vf::J::arr(); for(auto& cl : md.cells) { vf::J q = vf::J::arr(); for(int k = 0; k < 3; ++k) q.add(cl[size_t(k)]); cj.add(q); } md.desc.set("cells", cj); }
    }
  }
};
static void argyris(Tape& t, Ctx& c)
{
  ElemCfg e = {"Argyris", 5, false, false, true, 3, 2, 2, 3, 2, {nullptr, nullptr, nullptr, nullptr, nullptr}};
  Check<Space::Argyris::Element<Trf<S2>>, true, true, true>::run(t, c, e, ArgyrisFix());
}
static void bfs(Tape& t, Ctx& c)
{
  // no NodeFunctional: unisolvence through the local least-squares span test (Q3 on parallelograms, P3 on bilinear cells)
  ElemCfg e = {"BognerFoxSchmit", 3, true, false, false, 0, 0, 3, 3, 2};
  // 1D variant as well (intervals in either vertex order: the derivative dofs of a reversed cell must still mean +u')
  if(t.pick({3, 1}) == 0) Check<Space::BognerFoxSchmit::Element<Trf<H2>>, true, true, false>::run(t, c, e);
  else if(t.flag(1, 2)) Check<Space::BognerFoxSchmit::Element<Trf<H1>>, true, true, false>::run(t, c, e);
  else
  {
    // global C1 conformity in 1D: with ANY coefficient vector the discrete function and its first derivative are continuous
    // at every interior vertex (the two global dofs of a vertex mean u(x_v) and u'(x_v) for both adjacent cells, whatever
    // their vertex order), and a global cubic is reproduced by setting the dofs to its values and derivatives
    typedef Check<Space::BognerFoxSchmit::Element<Trf<H1>>, true, true, false> CK; typedef Shape::Hypercube<1> SH;
    c.desc.set("elem", "BognerFoxSchmit"); c.desc.set("shape", "H1"); c.label("elem:BognerFoxSchmit:H1"); c.op = "c1conf"; c.desc.set("op", "c1conf"); c.label("op:c1conf");
    GenOpt go; go.min_cells = 2; go.allow_reversed_1d = true; MeshData<SH> md0 = gen_mesh<SH>(t, c, go); CK::Setup s(std::move(md0)); c.desc.set("mesh", s.md.desc);
    const Index nd = s.space.get_num_dofs(); std::vector<double> coef((size_t)nd); for(auto& x : coef) x = double(t.range(0, 64) - 32) / 8.0;
    { bool rev = false; for(auto& cl : s.md.cells) if(s.md.vtx[size_t(cl[0])][0] > s.md.vtx[size_t(cl[1])][0]) rev = true; c.label(rev ? "c1conf:has-reversed-cell" : "c1conf:all-left-to-right"); }
    c.desc.set("coef", J(coef)); c.nontrivial = s.md.nc() >= 2; c.announce();
    const double ca = 0.5, cb = -1.25, cc = 0.75, cd = 0.375;   // cubic p(x) = ca + cb x + cc x^2 + cd x^3
    struct Side { double val, der, pval, pder; }; std::map<int, std::vector<Side>> at_vertex;
    typename CK::Ev ev(s.trafo, s.space);
    for(int cell = 0; cell < s.md.nc(); ++cell)
    {
      ev.prepare(Index(cell)); VF_CHECK(ev.n == 4, "1D BFS cell has " << ev.n << " local dofs");
      // dofs of the cubic through the vertex/derivative meaning: dof 2v = p(x_v), dof 2v+1 = p'(x_v) (DofAssignment: 2 per vertex)
      for(int k = 0; k < 2; ++k)
      {
        const double xi = (k == 0) ? -1.0 : 1.0; ev.at(&xi); const int v = s.md.cells[size_t(cell)][size_t(k)]; const double xv = s.md.vtx[size_t(v)][0];
        Side sd{0, 0, 0, 0};
        for(int i = 0; i < ev.n; ++i)
        {
          const Index g = ev.dm.get_index(i); const double pc = (g % 2 == 0) ? 0.0 : 0.0; (void)pc;
          sd.val += coef[size_t(g)] * ev.sd.phi[i].value; sd.der += coef[size_t(g)] * ev.grad(i, 0);
          const int gv = int(g / 2); const double xg = s.md.vtx[size_t(gv)][0]; const double pg = (g % 2 == 0) ? (ca + cb * xg + cc * xg * xg + cd * xg * xg * xg) : (cb + 2 * cc * xg + 3 * cd * xg * xg);
          sd.pval += pg * ev.sd.phi[i].value; sd.pder += pg * ev.grad(i, 0);
        }
        const double pex = ca + cb * xv + cc * xv * xv + cd * xv * xv * xv, dex = cb + 2 * cc * xv + 3 * cd * xv * xv, sc = 1.0 + std::fabs(xv) * std::fabs(xv) * std::fabs(xv);
        VF_CHECK(std::fabs(sd.pval - pex) <= 1e-11 * sc * 8 && std::fabs(sd.pder - dex) <= 1e-10 * sc * 8 / s.md.hmin, "1D BFS: dofs set to the values and derivatives of a cubic give u_h(x_v) = " << sd.pval << ", u_h'(x_v) = " << sd.pder << " at vertex " << v << " of cell " << cell << ", the cubic has " << pex << ", " << dex);
        at_vertex[v].push_back(sd);
      }
      ev.finish();
    }
    for(auto& kv : at_vertex) if(kv.second.size() == 2)
    {
      const Side& a = kv.second[0]; const Side& b = kv.second[1]; const double sc = 8.0 / s.md.hmin;
      VF_CHECK(std::fabs(a.val - b.val) <= 1e-12 * 64, "1D BFS function jumps at interior vertex " << kv.first << ": " << a.val << " vs " << b.val);
      VF_CHECK(std::fabs(a.der - b.der) <= 1e-11 * 64 * sc, "1D BFS derivative jumps at interior vertex " << kv.first << ": " << a.der << " vs " << b.der << " (the space is C1)");
    }
  }
}
C15_MAIN({"bernstein2", bernstein2, 96, 8, 30000}, {"p2bubble", p2bubble, 96, 8, 30000}, {"hermite3", hermite3, 96, 8, 30000}, {"argyris", argyris, 96, 8, 30000}, {"bfs", bfs, 96, 8, 30000})
