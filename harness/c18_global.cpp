// C18 - target "global": the transfer assembled by Control::Asm::asm_transfer_scalar (the anchored control-layer routine)
// into a Global::Transfer, applied through Global::Vector objects, with and without a coarse-level muxer
// (one process: the sibling communicator has size 1, so a "parent+child" level exercises the muxed code paths
// join/split as copies).  Oracles: same functions (pointwise), T*P = Id, R = P^T, and equality with the locally
// assembled operators of c18_core.hpp.
#include "c18_elems.hpp"
#include "c18_parts.hpp"
#include <kernel/lafem/vector_mirror.hpp>
#include <kernel/global/gate.hpp>
#include <kernel/global/muxer.hpp>
#include <kernel/global/vector.hpp>
#include <kernel/global/transfer.hpp>
#include <control/asm/transfer_asm.hpp>

namespace c18
{
  template<typename Space_>
  struct Lvl
  {
    int index; const Space_* space;
    int get_level_index() const { return index; }
    std::size_t bytes() const { return 0; }
  };

  template<typename Shape_, template<typename> class ElemT_>
  void run_global(Tape& t, Ctx& c, const ElemMeta& em, bool big)
  {
    constexpr int dim = Shape_::dimension;
    constexpr bool simplex = std::is_same<Shape_, Shape::Simplex<dim>>::value;
    typedef double DT_;
    typedef MeshT<Shape_> MeshType;
    typedef Trafo::Standard::Mapping<MeshType> TrafoType;
    typedef ElemT_<TrafoType> SpaceType;
    typedef LAFEM::SparseMatrixCSR<DT_, Index> Mat;
    typedef LAFEM::DenseVector<DT_, Index> Vec;
    typedef LAFEM::VectorMirror<DT_, Index> Mirror;
    typedef Global::Gate<Vec, Mirror> GateType;
    typedef Global::Muxer<Vec, Mirror> MuxerType;
    typedef Global::Vector<Vec, Mirror> GVec;
    typedef Global::Transfer<LAFEM::Transfer<Mat>, Mirror> GTransfer;
    typedef Lvl<SpaceType> LevelType;
    typedef Control::Domain::VirtualLevel<LevelType> VirtLevel;
    typedef Control::Domain::DomainLayer Layer;
    const long double eps = eps_of<DT_>();
    const std::string etag = std::string(em.name) + "/g";

    // ---------------------------------------------------------------- decode
    MeshDesc md = gen_mesh(t, dim, simplex, big);
    const bool via_deduct = t.flag(1, 3) && !(simplex && dim == 3);
    const int mux = t.range(0, 1);              // 0: plain coarse level, 1: coarse level is child+parent (muxed)
    // shrink drops entries below 1e-3*max: documented lossy option.  It is generated only for elements whose genuine
    // prolongation entries are mesh independent and larger than that (Lagrange-1/2 in 2D: >= 1/64); the truncation
    // matrix may legitimately lose entries, so T*P = Id is not demanded for shrunk operators.
    const bool shrink = t.flag(1, 4) && em.k <= 2 && em.nested && std::string(em.name).find("lagrange") == 0;
    int pst[2]; for(int l = 0; l < 2; ++l) pst[l] = t.pick({4, 2, 2, 2, 1, 1, 1, 1});
    for(int l = 0; l < 2; ++l) if(md.components > 1 && (pst[l] == 4 || pst[l] == 5) && c.excl("c18-cmk-disconnected")) pst[l] = 2;
    const int vcls_eff = (t.pick({3, 2, 4, 1, 2}) + 2) % 5;
    int need = 2 * em.kq + ((!simplex && !md.affine) ? dim : 0); if(need < 1) need = 1;
    const std::string cub = "auto-degree:" + std::to_string(need + t.range(0, 3));
    double g[2][3]; for(int q = 0; q < 2; ++q) for(int k = 0; k < 3; ++k) g[q][k] = double(1 + t.range(0, 61)) / 64.0;

    c.desc.set("elem", em.name); c.desc.set("mesh", md.js); c.desc.set("op", "global"); c.desc.set("mux", mux ? "child+parent" : "plain");
    c.desc.set("shrink", shrink);
    { J p = J::arr(); for(int l = 0; l < 2; ++l) p.add(perm_name(perm_of(pst[l]))); c.desc.set("perm", p); }
    c.desc.set("cub", cub); c.desc.set("vec", vcls_name(vcls_eff)); c.desc.set("build", via_deduct ? "deduct" : "factory");
    c.op = std::string("global:") + em.name;
    for(auto& l : md.labels) c.label(l);
    c.label(std::string("elem:") + em.name); c.label(mux ? "mux:child+parent" : "mux:plain"); c.label(shrink ? "shrink:yes" : "shrink:no");
    c.label(pst[0] == 0 && pst[1] == 0 ? "perm:none" : pst[0] == 0 ? "perm:fine-only" : pst[1] == 0 ? "perm:coarse-only" : "perm:both");
    c.label(std::string("vec:") + vcls_name(vcls_eff));

    std::vector<std::unique_ptr<MeshType>> mesh;
    mesh.push_back(build_mesh<Shape_>(md, via_deduct));
    { Geometry::StandardRefinery<MeshType> ref(*mesh.back()); mesh.push_back(std::make_unique<MeshType>(ref)); }
    std::vector<std::unique_ptr<TrafoType>> trafo; std::vector<std::unique_ptr<SpaceType>> space;
    auto make_spaces = [&]() { trafo.clear(); space.clear(); for(auto& m : mesh) { trafo.push_back(std::make_unique<TrafoType>(*m)); space.push_back(std::make_unique<SpaceType>(*trafo.back())); } };
    make_spaces();
    const Index ndc = space[0]->get_num_dofs(), ndf = space[1]->get_num_dofs();
    J vj = J::obj();
    Vec vc = gen_vector<DT_>(t, ndc, vcls_eff, vj, "c");
    Vec vf2 = gen_vector<DT_>(t, ndf, 2, vj, "f");
    c.desc.set("data", vj); c.desc.set("ndofs", J(std::vector<long long>{(long long)ndc, (long long)ndf}));
    bool vnz = false; for(Index i = 0; i < vc.size(); ++i) if(vc(i) != DT_(0)) vnz = true;
    c.nontrivial = md.shared_facet && vnz;
    c.announce();

    for(int l = 0; l < 2; ++l) if(pst[l] != 0) mesh[(size_t)l]->create_permutation(perm_of(pst[l]));
    make_spaces();
    const SpaceType& sc = *space[0]; const SpaceType& sf = *space[1];
    const long double tf = tol_factor(em);

    // ---------------------------------------------------------------- levels, layers, gates, muxer (one process)
    Dist::Comm comm = Dist::Comm::world();
    auto layer = std::make_shared<Layer>(Dist::Comm::world(), 0);
    auto layer_child = std::make_shared<Layer>(Dist::Comm::world(), 0);
    layer_child->set_parent(Dist::Comm::world(), 0);
    auto layer_parent = std::make_shared<Layer>(Dist::Comm::world(), 1);
    auto lvl_f = std::make_shared<LevelType>(LevelType{1, &sf});
    auto lvl_c = std::make_shared<LevelType>(LevelType{0, &sc});
    auto lvl_cp = std::make_shared<LevelType>(LevelType{0, &sc});
    VirtLevel virt_f(lvl_f, layer);
    std::unique_ptr<VirtLevel> virt_c;
    if(mux == 0) virt_c.reset(new VirtLevel(lvl_c, layer));
    else virt_c.reset(new VirtLevel(lvl_c, layer_child, lvl_cp, layer_parent));
    GateType gate_f(comm), gate_c(comm);
    gate_f.compile(Vec(ndf)); gate_c.compile(Vec(ndc));
    MuxerType muxer;
    if(mux == 1)
    {
      muxer.set_parent(layer_child->sibling_comm_ptr(), 0, Mirror::make_identity(ndc));
      muxer.push_child(Mirror::make_identity(ndc));
      muxer.compile(Vec(ndc));
      VF_CHECK(muxer.is_child() && muxer.is_parent() && !muxer.is_ghost(), "harness: muxer roles");
    }
    GTransfer gt(&muxer);
    Control::Asm::asm_transfer_scalar(virt_f, *virt_c, String(cub), true, shrink,
      [](const LevelType& lv) { return lv.space; }, gt.local(), muxer, gate_f, gate_c);
    gt.compile();

    // ---------------------------------------------------------------- oracles
    const Mat& GP = gt.get_mat_prol(); const Mat& GR = gt.get_mat_rest(); const Mat& GT = gt.get_mat_trunc();
    VF_CHECK(GP.rows() == ndf && GP.columns() == ndc && GR.rows() == ndc && GR.columns() == ndf && GT.rows() == ndc && GT.columns() == ndf, "global: operator dimensions");
    // locally assembled reference (same protocol): identical arithmetic, hence identical entries (without shrink)
    Mat P, T, R; assemble_transfer(P, T, R, sf, sc, String(cub), 0, true);
    if(!shrink)
    {
      VF_CHECK(GP.used_elements() == P.used_elements() && GT.used_elements() == T.used_elements(), "global: pattern sizes differ from local assembly");
      for(Index k = 0; k < P.used_elements(); ++k) VF_CHECK(GP.val()[k] == P.val()[k] && GP.col_ind()[k] == P.col_ind()[k], "global: prolongation entry " << k << " " << GP.val()[k] << " vs local " << P.val()[k]);
      for(Index k = 0; k < T.used_elements(); ++k) VF_CHECK(GT.val()[k] == T.val()[k] && GT.col_ind()[k] == T.col_ind()[k], "global: truncation entry " << k << " " << GT.val()[k] << " vs local " << T.val()[k]);
    }
    // R == P^T entry by entry
    {
      std::map<std::pair<Index, Index>, DT_> pe;
      for(Index i = 0; i < GP.rows(); ++i) for(auto k = GP.row_ptr()[i]; k < GP.row_ptr()[i + 1]; ++k) pe[std::make_pair(Index(GP.col_ind()[k]), i)] = GP.val()[k];
      VF_CHECK(GR.used_elements() == GP.used_elements(), "global: nnz(R) " << GR.used_elements() << " vs nnz(P) " << GP.used_elements());
      for(Index i = 0; i < GR.rows(); ++i) for(auto k = GR.row_ptr()[i]; k < GR.row_ptr()[i + 1]; ++k)
      {
        auto it = pe.find(std::make_pair(i, Index(GR.col_ind()[k])));
        VF_CHECK(it != pe.end() && it->second == GR.val()[k], "global: R(" << i << "," << GR.col_ind()[k] << ") is not P^T");
      }
    }
    // prolongation through the global objects gives the same function
    GVec gc(&gate_c, vc.clone()), gf(&gate_f, ndf), gz(&gate_c, ndc), gfd(&gate_f, vf2.clone()), grc(&gate_c, ndc);
    gt.prol(gf, gc);
    compare_fe_functions<dim, simplex>(mesh, space, 0, 1, vc, gf.local(), g, tf, eps, etag, "global-exact");
    // equals the local matrix product
    {
      std::vector<long double> ref, aref; ref_apply(GP, vc, ref, aref);
      for(Index i = 0; i < ndf; ++i) VF_CHECK(std::fabs((long double)gf.local()(i) - ref[i]) <= 8.0L * (long double)(max_row_len(GP) + 3) * (eps / 2) * aref[i] + 1e-300L, "global: prol[" << i << "]=" << gf.local()(i) << " vs P c " << (double)ref[i]);
    }
    // truncation is a left inverse
    if(!shrink)
    {
      gt.trunc(gf, gz);
      const long double scale = max_abs_v(vc) + 1e-300L; long double w = 0;
      for(Index j = 0; j < ndc; ++j) w = std::max(w, std::fabs((long double)gz.local()(j) - (long double)vc(j)));
      calib(etag + " global-trunc", w / (eps * scale));
      for(Index j = 0; j < ndc; ++j) VF_CHECK(std::fabs((long double)gz.local()(j) - (long double)vc(j)) <= tf * eps * scale, "global: (T P c)[" << j << "]=" << gz.local()(j) << " vs c " << vc(j));
    }
    // restriction = transposed prolongation
    {
      gt.rest(gfd, grc);
      std::vector<long double> ref, aref; ref_apply(GP, vf2, ref, aref, true);
      for(Index j = 0; j < ndc; ++j) VF_CHECK(std::fabs((long double)grc.local()(j) - ref[j]) <= 8.0L * (long double)(max_row_len(GR) + 3) * (eps / 2) * aref[j] + 1e-300L, "global: rest[" << j << "]=" << grc.local()(j) << " vs P^T f " << (double)ref[j]);
    }
  }

  void global_case(vf::Tape& t, vf::Ctx& c, bool big)
  {
    switch(t.pick({3, 3, 2, 3, 3, 2}))
    {
    case 0: run_global<Shape::Hypercube<2>, EL1>(t, c, M_L1, big); break;
    case 1: run_global<Shape::Hypercube<2>, EL2>(t, c, M_L2, big); break;
    case 2: run_global<Shape::Hypercube<2>, ED1>(t, c, M_D1, big); break;
    case 3: run_global<Shape::Simplex<2>, EL1>(t, c, M_L1, big); break;
    case 4: run_global<Shape::Simplex<2>, EL2>(t, c, M_L2, big); break;
    default: run_global<Shape::Simplex<2>, ED1>(t, c, M_D1, big); break;
    }
  }
} // namespace c18
