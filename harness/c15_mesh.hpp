// c15_mesh.hpp - own small mesh construction for C15 (factories + re-orientation + re-numbering + distortion)
// and an own long-double re-implementation of the first-order reference maps (nodal shape functions),
// deliberately independent of kernel/trafo/standard/details.hpp (which works with monomial coefficients).
#pragma once
#include "common/vf.hpp"
#include <kernel/runtime.hpp>
#include <kernel/shape.hpp>
#include <kernel/geometry/conformal_mesh.hpp>
#include <array>
#include <vector>
#include <string>
#include <cmath>

namespace c15
{
  using namespace FEAT;
  typedef long double LD;

  // ------------------------------------------------------------------------------------------------
  // reference cells: vertex coordinates, nodal shape functions and their derivatives, facets
  // (numbering as in kernel/shape.hpp: hypercube vertex k has coordinate 2*bit_j(k)-1, simplex vertex 0 is
  // the origin and vertex k>0 is e_{k-1})
  // ------------------------------------------------------------------------------------------------
  template<typename Shape_> struct Ref;

  template<int d_> struct Ref<Shape::Hypercube<d_>>
  {
    static constexpr int dim = d_, nv = (1 << d_), nfacets = 2 * d_, nfv = (1 << (d_ - 1));
    static constexpr bool simplex = false;
    static const char* name() { return d_ == 1 ? "H1" : (d_ == 2 ? "H2" : "H3"); }
    static LD vc(int k, int j) { return LD(2 * ((k >> j) & 1) - 1); }
    static LD centre(int) { return LD(0); }
    template<typename T> static void N(const T* xi, T* n)
    {
      for(int k = 0; k < nv; ++k) { n[k] = T(1); for(int j = 0; j < dim; ++j) n[k] *= (T(1) + T(vc(k, j)) * xi[j]) / T(2); }
    }
    template<typename T> static void dN(const T* xi, T dn[][d_])
    {
      for(int k = 0; k < nv; ++k) for(int a = 0; a < dim; ++a)
      {
        T v = T(vc(k, a)) / T(2);
        for(int j = 0; j < dim; ++j) if(j != a) v *= (T(1) + T(vc(k, j)) * xi[j]) / T(2);
        dn[k][a] = v;
      }
    }
    template<typename T> static void d2N(const T* xi, T d2[][d_][d_])
    {
      for(int k = 0; k < nv; ++k) for(int a = 0; a < dim; ++a) for(int b = 0; b < dim; ++b)
      {
        if(a == b) { d2[k][a][b] = T(0); continue; }
        T v = T(vc(k, a)) * T(vc(k, b)) / T(4);
        for(int j = 0; j < dim; ++j) if(j != a && j != b) v *= (T(1) + T(vc(k, j)) * xi[j]) / T(2);
        d2[k][a][b] = v;
      }
    }
    /// local vertices of facet f (axis f/2, side f%2), any order
    static void facet(int f, int* v) { int ax = f / 2, sd = f % 2, n = 0; for(int k = 0; k < nv; ++k) if(((k >> ax) & 1) == sd) v[n++] = k; }
    static bool inside(const LD* xi, LD tol) { for(int j = 0; j < dim; ++j) if(std::fabs(xi[j]) > 1 + tol) return false; return true; }
  };

  template<int d_> struct Ref<Shape::Simplex<d_>>
  {
    static constexpr int dim = d_, nv = d_ + 1, nfacets = d_ + 1, nfv = d_;
    static constexpr bool simplex = true;
    static const char* name() { return d_ == 1 ? "S1" : (d_ == 2 ? "S2" : "S3"); }
    static LD vc(int k, int j) { return LD(k == j + 1 ? 1 : 0); }
    static LD centre(int) { return LD(1) / LD(d_ + 1); }
    template<typename T> static void N(const T* xi, T* n) { n[0] = T(1); for(int j = 0; j < dim; ++j) { n[0] -= xi[j]; n[j + 1] = xi[j]; } }
    template<typename T> static void dN(const T*, T dn[][d_]) { for(int a = 0; a < dim; ++a) { dn[0][a] = T(-1); for(int k = 1; k < nv; ++k) dn[k][a] = T(k == a + 1 ? 1 : 0); } }
    template<typename T> static void d2N(const T*, T d2[][d_][d_]) { for(int k = 0; k < nv; ++k) for(int a = 0; a < dim; ++a) for(int b = 0; b < dim; ++b) d2[k][a][b] = T(0); }
    static void facet(int f, int* v) { int n = 0; for(int k = 0; k < nv; ++k) if(k != f) v[n++] = k; }
    static bool inside(const LD* xi, LD tol) { LD s = 0; for(int j = 0; j < dim; ++j) { if(xi[j] < -tol) return false; s += xi[j]; } return s <= 1 + tol; }
  };

  // ------------------------------------------------------------------------------------------------
  // own first-order cell map in long double
  // ------------------------------------------------------------------------------------------------
  template<typename Shape_> struct CellGeo
  {
    typedef Ref<Shape_> R; static constexpr int dim = R::dim, nv = R::nv;
    LD X[R::nv][R::dim];
    void map(const LD* xi, LD* x) const { LD n[nv]; R::N(xi, n); for(int i = 0; i < dim; ++i) { x[i] = 0; for(int k = 0; k < nv; ++k) x[i] += n[k] * X[k][i]; } }
    void jac(const LD* xi, LD J[][R::dim]) const { LD dn[nv][dim]; R::dN(xi, dn); for(int i = 0; i < dim; ++i) for(int a = 0; a < dim; ++a) { J[i][a] = 0; for(int k = 0; k < nv; ++k) J[i][a] += dn[k][a] * X[k][i]; } }
    void hess(const LD* xi, LD H[][R::dim][R::dim]) const { LD d2[nv][dim][dim]; R::d2N(xi, d2); for(int i = 0; i < dim; ++i) for(int a = 0; a < dim; ++a) for(int b = 0; b < dim; ++b) { H[i][a][b] = 0; for(int k = 0; k < nv; ++k) H[i][a][b] += d2[k][a][b] * X[k][i]; } }
    static LD det(const LD J[][R::dim])
    {
      if constexpr(dim == 1) return J[0][0];
      else if constexpr(dim == 2) return J[0][0] * J[1][1] - J[0][1] * J[1][0];
      else return J[0][0] * (J[1][1] * J[2][2] - J[1][2] * J[2][1]) - J[0][1] * (J[1][0] * J[2][2] - J[1][2] * J[2][0]) + J[0][2] * (J[1][0] * J[2][1] - J[1][1] * J[2][0]);
    }
    static void inv(const LD J[][R::dim], LD Ji[][R::dim])
    {
      LD dt = det(J);
      if constexpr(dim == 1) Ji[0][0] = 1 / dt;
      else if constexpr(dim == 2) { Ji[0][0] = J[1][1] / dt; Ji[0][1] = -J[0][1] / dt; Ji[1][0] = -J[1][0] / dt; Ji[1][1] = J[0][0] / dt; }
      else
      {
        Ji[0][0] = (J[1][1] * J[2][2] - J[1][2] * J[2][1]) / dt; Ji[0][1] = (J[0][2] * J[2][1] - J[0][1] * J[2][2]) / dt; Ji[0][2] = (J[0][1] * J[1][2] - J[0][2] * J[1][1]) / dt;
        Ji[1][0] = (J[1][2] * J[2][0] - J[1][0] * J[2][2]) / dt; Ji[1][1] = (J[0][0] * J[2][2] - J[0][2] * J[2][0]) / dt; Ji[1][2] = (J[0][2] * J[1][0] - J[0][0] * J[1][2]) / dt;
        Ji[2][0] = (J[1][0] * J[2][1] - J[1][1] * J[2][0]) / dt; Ji[2][1] = (J[0][1] * J[2][0] - J[0][0] * J[2][1]) / dt; Ji[2][2] = (J[0][0] * J[1][1] - J[0][1] * J[1][0]) / dt;
      }
    }
    /// own Newton inverse (start: cell centre); returns false if it did not converge
    bool unmap(const LD* x, LD* xi) const
    {
      for(int j = 0; j < dim; ++j) xi[j] = R::centre(j);
      LD scale = 0; for(int k = 0; k < nv; ++k) for(int i = 0; i < dim; ++i) scale = std::max(scale, std::fabs(X[k][i] - X[0][i]));
      for(int it = 0; it < 60; ++it)
      {
        LD y[dim], J[dim][dim], Ji[dim][dim]; map(xi, y); jac(xi, J); inv(J, Ji);
        LD nrm = 0; for(int i = 0; i < dim; ++i) nrm = std::max(nrm, std::fabs(y[i] - x[i]));
        if(nrm <= 1e-17L * scale + 1e-4900L) return true;
        for(int a = 0; a < dim; ++a) { LD s = 0; for(int i = 0; i < dim; ++i) s += Ji[a][i] * (y[i] - x[i]); xi[a] -= s; }
        if(it > 8 && nrm <= 1e-15L * scale) return true;
      }
      return false;
    }
    LD diam() const { LD m = 0; for(int k = 0; k < nv; ++k) for(int l = 0; l < k; ++l) { LD s = 0; for(int i = 0; i < dim; ++i) s += (X[k][i] - X[l][i]) * (X[k][i] - X[l][i]); m = std::max(m, std::sqrt(s)); } return m; }
  };

  // ------------------------------------------------------------------------------------------------
  // orientation preserving symmetries of the reference cell, as local vertex permutations:
  // new_local_vertex_list[k] = old_list[sigma[k]]
  // ------------------------------------------------------------------------------------------------
  template<typename Shape_> struct Syms;
  template<int d_> struct Syms<Shape::Hypercube<d_>>
  {
    static const std::vector<std::array<int, (1 << d_)>>& get()
    {
      static std::vector<std::array<int, (1 << d_)>> s;
      if(!s.empty()) return s;
      // signed permutation matrices with determinant +1; identity first
      int perm[3] = {0, 1, 2};
      std::vector<std::array<int, 3>> perms; std::array<int, 3> p0 = {0, 1, 2}; perms.push_back(p0);
      if(d_ == 2) perms.push_back({1, 0, 2});
      if(d_ == 3) { perms.push_back({1, 2, 0}); perms.push_back({2, 0, 1}); perms.push_back({1, 0, 2}); perms.push_back({0, 2, 1}); perms.push_back({2, 1, 0}); }
      (void)perm;
      for(auto& p : perms) for(int sg = 0; sg < (1 << d_); ++sg)
      {
        // R e_j = s_j e_{p[j]}
        int psign = 1; for(int a = 0; a < d_; ++a) for(int b = a + 1; b < d_; ++b) if(p[a] > p[b]) psign = -psign;
        int ssign = 1; for(int j = 0; j < d_; ++j) if((sg >> j) & 1) ssign = -ssign;
        if(psign * ssign != 1 && d_ != 1) continue;   // 1D: the reversed interval (x_v0 > x_v1) is a legitimate cell, the trafo works with |J|
        std::array<int, (1 << d_)> sig;
        for(int k = 0; k < (1 << d_); ++k)
        {
          int img = 0; // R c_k: component p[j] = s_j * c_k[j]
          for(int j = 0; j < d_; ++j) { int cj = ((k >> j) & 1) ? 1 : -1; if((sg >> j) & 1) cj = -cj; if(cj > 0) img |= (1 << p[j]); }
          sig[k] = img;
        }
        s.push_back(sig);
      }
      return s;
    }
  };
  template<int d_> struct Syms<Shape::Simplex<d_>>
  {
    static const std::vector<std::array<int, d_ + 1>>& get()
    {
      static std::vector<std::array<int, d_ + 1>> s;
      if(!s.empty()) return s;
      std::array<int, d_ + 1> p; for(int i = 0; i <= d_; ++i) p[i] = i;
      do { int sg = 1; for(int a = 0; a <= d_; ++a) for(int b = a + 1; b <= d_; ++b) if(p[a] > p[b]) sg = -sg; if(sg == 1) s.push_back(p); } while(std::next_permutation(p.begin(), p.end()));
      return s; // identity is first (lexicographic order)
    }
  };

  // ------------------------------------------------------------------------------------------------
  // generated mesh description
  // ------------------------------------------------------------------------------------------------
  template<typename Shape_> struct MeshData
  {
    typedef Shape_ ShapeT; typedef Ref<Shape_> R; static constexpr int dim = R::dim, nvc = R::nv;
    std::vector<std::array<double, R::dim>> vtx;
    std::vector<std::array<int, R::nv>> cells;
    bool affine_cells = true;       // every cell is an affine image of the reference cell
    double ctr[3] = {0, 0, 0};      // bounding box centre
    double ext = 1.0;               // bounding box extent (max over axes)
    double hmin = 1.0;              // smallest cell diameter
    double lin[3][3] = {{1, 0, 0}, {0, 1, 0}, {0, 0, 1}}; // linear part of the global lattice -> world map (meaningful if !jitter)
    bool lattice_affine = true;     // vertices are an affine image of the integer lattice (no jitter)
    vf::J desc = vf::J::obj();
    CellGeo<Shape_> geo(int c) const { CellGeo<Shape_> g; for(int k = 0; k < nvc; ++k) for(int i = 0; i < dim; ++i) g.X[k][i] = LD(vtx[size_t(cells[size_t(c)][k])][i]); return g; }
    int nc() const { return int(cells.size()); }
    int nvt() const { return int(vtx.size()); }
  };

  struct GenOpt
  {
    int maxn = 3;            // max cells per axis of the base grid (1D: multiplied by 2)
    bool allow_jitter = true;
    bool allow_affine = true;
    bool allow_sym = true;
    bool allow_reversed_1d = false;   // 1D only: intervals stored right-to-left (negative 1D Jacobian); opt-in per check
    bool allow_scale = true;
    int min_cells = 1;
  };

  /// generates a conforming mesh by construction; labels the classes on c
  template<typename Shape_> MeshData<Shape_> gen_mesh(vf::Tape& t, vf::Ctx& c, const GenOpt& o)
  {
    typedef Ref<Shape_> R; constexpr int dim = R::dim;
    MeshData<Shape_> m;
    int n[3] = {1, 1, 1};
    int maxn = (dim == 1 ? 2 * o.maxn : o.maxn);
    for(int j = 0; j < dim; ++j) n[j] = 1 + t.sized(0, maxn - 1, 1);
    if(o.min_cells > 1 && n[0] * n[1] * n[2] * (R::simplex ? (dim == 2 ? 2 : (dim == 3 ? 6 : 1)) : 1) < o.min_cells) n[0] = std::max(n[0], 2);
    // lattice vertices
    int nvx[3] = {n[0] + 1, dim > 1 ? n[1] + 1 : 1, dim > 2 ? n[2] + 1 : 1};
    auto vid = [&](int i, int j, int k) { return (k * nvx[1] + j) * nvx[0] + i; };
    for(int k = 0; k < nvx[2]; ++k) for(int j = 0; j < nvx[1]; ++j) for(int i = 0; i < nvx[0]; ++i)
    {
      std::array<double, R::dim> p; int ijk[3] = {i, j, k}; for(int a = 0; a < dim; ++a) p[a] = double(ijk[a]); m.vtx.push_back(p);
    }
    // cells
    for(int k = 0; k < n[2]; ++k) for(int j = 0; j < n[1]; ++j) for(int i = 0; i < n[0]; ++i)
    {
      int hv[8]; for(int q = 0; q < (1 << dim); ++q) hv[q] = vid(i + (q & 1), j + ((q >> 1) & 1), k + ((q >> 2) & 1));
      if constexpr(!R::simplex) { std::array<int, R::nv> cl; for(int q = 0; q < R::nv; ++q) cl[q] = hv[q]; m.cells.push_back(cl); }
      else if constexpr(dim == 1) { std::array<int, R::nv> cl = {hv[0], hv[1]}; m.cells.push_back(cl); }
      else if constexpr(dim == 2)
      {
        // diagonal (0,0)-(1,1); both triangles positively oriented
        std::array<int, R::nv> a = {hv[0], hv[1], hv[3]}, b = {hv[0], hv[3], hv[2]}; m.cells.push_back(a); m.cells.push_back(b);
      }
      else
      {
        // Kuhn triangulation: one tetrahedron per permutation of the axes, v0=(0,0,0) ... v3=(1,1,1); odd permutations get two
        // vertices swapped to keep the orientation positive; translation invariant => conforming across cubes
        int pm[6][3] = {{0, 1, 2}, {1, 2, 0}, {2, 0, 1}, {1, 0, 2}, {0, 2, 1}, {2, 1, 0}};
        for(int q = 0; q < 6; ++q)
        {
          int b0 = 0, b1 = b0 | (1 << pm[q][0]), b2 = b1 | (1 << pm[q][1]), b3 = 7;
          std::array<int, R::nv> cl = {hv[b0], hv[b1], hv[b2], hv[b3]};
          if(q >= 3) std::swap(cl[2], cl[3]);
          m.cells.push_back(cl);
        }
      }
    }
    const int nc = int(m.cells.size()), nv = int(m.vtx.size());
    vf::J d = vf::J::obj();
    { vf::J g = vf::J::arr(); for(int a = 0; a < dim; ++a) g.add(n[a]); d.set("grid", g); }
    c.label(nc == 1 ? "cells:1" : (nc <= 4 ? "cells:2-4" : (nc <= 12 ? "cells:5-12" : "cells:13+")));

    // --- re-orientation: an orientation preserving symmetry of the reference cell per cell
    const auto& syms = Syms<Shape_>::get();
    bool nonid = false;
    if(o.allow_sym && syms.size() > 1 && (dim > 1 || o.allow_reversed_1d))
    {
      int mode = t.pick({3, 5, 2}); // 0 none, 1 independent per cell, 2 the same for all cells
      vf::J sj = vf::J::arr();
      int same = (mode == 2) ? t.range(0, int(syms.size()) - 1) : 0;
      for(int q = 0; q < nc; ++q)
      {
        int s = (mode == 0) ? 0 : (mode == 2 ? same : t.range(0, int(syms.size()) - 1));
        if(s != 0) nonid = true;
        auto old = m.cells[size_t(q)]; for(int k = 0; k < R::nv; ++k) m.cells[size_t(q)][k] = old[syms[size_t(s)][k]];
        sj.add(s);
      }
      d.set("sym", sj);
    }
    c.label(nonid ? "sym:nonid" : "sym:id");

    // --- re-numbering of cells and vertices (Fisher-Yates driven by the tape)
    bool cperm = t.flag(1, 2), vperm = t.flag(1, 2);
    if(cperm && nc > 1) { for(int q = nc - 1; q > 0; --q) { int r = t.range(0, q); std::swap(m.cells[size_t(q)], m.cells[size_t(r)]); } }
    std::vector<int> vp(static_cast<size_t>(nv)); for(int q = 0; q < nv; ++q) vp[size_t(q)] = q;
    if(vperm) { for(int q = nv - 1; q > 0; --q) { int r = t.range(0, q); std::swap(vp[size_t(q)], vp[size_t(r)]); } }
    // vp[old] = new
    {
      std::vector<std::array<double, R::dim>> nvv(static_cast<size_t>(nv)); for(int q = 0; q < nv; ++q) nvv[size_t(vp[size_t(q)])] = m.vtx[size_t(q)];
      m.vtx = nvv; for(auto& cl : m.cells) for(auto& x : cl) x = vp[size_t(x)];
    }
    d.set("cperm", cperm && nc > 1); d.set("vperm", vperm);
    if(cperm && nc > 1) c.label("renum:cells"); if(vperm) c.label("renum:verts"); if(!(cperm && nc > 1) && !vperm) c.label("renum:none");

    // --- geometry: jitter (bounded so that every cell keeps a positive Jacobian, see below), affine map, scale, offset
    int g = 0;
    if(o.allow_affine && o.allow_jitter) g = t.pick({2, 3, 3, 3});
    else if(o.allow_affine) g = t.pick({2, 3});
    else if(o.allow_jitter) g = 2 * t.pick({2, 3});
    bool jit = (g == 2 || g == 3), aff = (g == 1 || g == 3);
    if(jit)
    {
      // jitter radius per coordinate relative to the unit lattice spacing:
      //   hypercubes: J = (1/2)(I+E), |E_ij| <= 4a  => strictly diagonally dominant with positive diagonal for 2D a<=0.12 (0.52>0.48),
      //               3D a<=0.08 (0.68>0.64)  => det J > 0 at every reference point
      //   triangles (half squares): det >= 1-6a; Kuhn tetrahedra: ||T^-1 E||_inf <= 12a < 1 for a <= 0.06
      double amax = R::simplex ? (dim == 3 ? 0.06 : 0.12) : (dim == 3 ? 0.08 : 0.12);
      if(dim == 1) amax = 0.3;
      double a = amax * double(1 + t.range(0, 7)) / 8.0;
      for(auto& p : m.vtx) for(int i = 0; i < dim; ++i) p[i] += a * double(t.range(0, 64) - 32) / 32.0;
      d.set("jitter", a);
    }
    double A[3][3] = {{1, 0, 0}, {0, 1, 0}, {0, 0, 1}};
    if(aff)
    {
      // A = Rot * S, S upper triangular with positive diagonal (scales 1/2..2, aspect <= 4, shear <= 3/4): det A > 0, cond bounded
      double sc[3], sh[3];
      for(int i = 0; i < 3; ++i) { static const double tab[5] = {1.0, 0.5, 2.0, 0.75, 1.5}; sc[i] = tab[t.range(0, 4)]; sh[i] = double(t.range(0, 12) - 6) / 8.0; }
      double S[3][3] = {{sc[0], sh[0], sh[1]}, {0, sc[1], sh[2]}, {0, 0, sc[2]}};
      double th[3]; for(int i = 0; i < 3; ++i) th[i] = double(t.range(0, 31)) * 6.283185307179586 / 32.0;
      double Rm[3][3] = {{1, 0, 0}, {0, 1, 0}, {0, 0, 1}};
      if(dim == 2) { Rm[0][0] = std::cos(th[0]); Rm[0][1] = -std::sin(th[0]); Rm[1][0] = std::sin(th[0]); Rm[1][1] = std::cos(th[0]); }
      if(dim == 3)
      {
        double cz = std::cos(th[0]), sz = std::sin(th[0]), cy = std::cos(th[1]), sy = std::sin(th[1]), cx = std::cos(th[2]), sx = std::sin(th[2]);
        double Rz[3][3] = {{cz, -sz, 0}, {sz, cz, 0}, {0, 0, 1}}, Ry[3][3] = {{cy, 0, sy}, {0, 1, 0}, {-sy, 0, cy}}, Rx[3][3] = {{1, 0, 0}, {0, cx, -sx}, {0, sx, cx}};
        double T[3][3]; for(int i = 0; i < 3; ++i) for(int j = 0; j < 3; ++j) { T[i][j] = 0; for(int k = 0; k < 3; ++k) T[i][j] += Ry[i][k] * Rx[k][j]; }
        for(int i = 0; i < 3; ++i) for(int j = 0; j < 3; ++j) { Rm[i][j] = 0; for(int k = 0; k < 3; ++k) Rm[i][j] += Rz[i][k] * T[k][j]; }
      }
      for(int i = 0; i < dim; ++i) for(int j = 0; j < dim; ++j) { A[i][j] = 0; for(int k = 0; k < dim; ++k) A[i][j] += Rm[i][k] * S[k][j]; }
      vf::J aj = vf::J::arr(); for(int i = 0; i < dim; ++i) for(int j = 0; j < dim; ++j) aj.add(A[i][j]); d.set("A", aj);
    }
    double scale = 1.0, off[3] = {0, 0, 0}; int scls = 0, ocls = 0;
    if(o.allow_scale)
    {
      scls = t.pick({6, 1, 1, 1}); // coordinates of magnitude 1, 1/64, 16, 64 (shipped meshes reach |x| = 75)
      scale = (scls == 0 ? 1.0 : (scls == 1 ? 1.0 / 64.0 : (scls == 2 ? 16.0 : 64.0)));
      ocls = t.pick({5, 2, 1});    // offset: none, a few extents, 10 extents
      if(ocls > 0) for(int i = 0; i < dim; ++i) off[i] = double(t.range(0, 16) - 8) * (ocls == 1 ? 0.5 : 2.5) * scale * double(maxn);
      d.set("scale", scale); if(ocls > 0) { vf::J oj = vf::J::arr(); for(int i = 0; i < dim; ++i) oj.add(off[i]); d.set("off", oj); }
    }
    for(auto& p : m.vtx) { double q[3] = {0, 0, 0}; for(int i = 0; i < dim; ++i) for(int j = 0; j < dim; ++j) q[i] += A[i][j] * p[j]; for(int i = 0; i < dim; ++i) p[i] = scale * q[i] + off[i]; }
    c.label(std::string("geo:") + (g == 0 ? "unit" : (g == 1 ? "affine" : (g == 2 ? "jitter" : "affine+jitter"))));
    c.label(std::string("scale:") + (scls == 0 ? "1" : (scls == 1 ? "1/64" : (scls == 2 ? "16" : "64"))));
    c.label(std::string("offset:") + (ocls == 0 ? "none" : (ocls == 1 ? "near" : "far")));
    m.affine_cells = R::simplex || !jit; m.lattice_affine = !jit;
    for(int i = 0; i < 3; ++i) for(int j = 0; j < 3; ++j) m.lin[i][j] = scale * A[i][j];
    c.label(m.affine_cells ? "cellgeo:affine" : "cellgeo:multilinear");

    // bounding box, cell sizes; generator self-check: positive Jacobian at all vertices and the centre of every cell
    double lo[3] = {1e300, 1e300, 1e300}, hi[3] = {-1e300, -1e300, -1e300};
    for(auto& p : m.vtx) for(int i = 0; i < dim; ++i) { lo[i] = std::min(lo[i], p[i]); hi[i] = std::max(hi[i], p[i]); }
    m.ext = 0; for(int i = 0; i < dim; ++i) { m.ctr[i] = 0.5 * (lo[i] + hi[i]); m.ext = std::max(m.ext, hi[i] - lo[i]); }
    m.hmin = 1e300;
    for(int q = 0; q < nc; ++q)
    {
      auto gq = m.geo(q); m.hmin = std::min(m.hmin, double(gq.diam()));
      for(int k = 0; k <= R::nv; ++k)
      {
        LD xi[3]; for(int j = 0; j < dim; ++j) xi[j] = (k < R::nv ? R::vc(k, j) : R::centre(j));
        LD J[dim][dim]; gq.jac(xi, J);
        if(dim == 1) { if(!(CellGeo<Shape_>::det(J) != 0)) throw vf::Discard{"generator produced a degenerate interval"}; }   // reversed intervals are legitimate
        else if(!(CellGeo<Shape_>::det(J) > 0)) throw vf::Discard{"generator produced a non-positive Jacobian"};
      }
    }
    if(nv <= 12) { vf::J vj = vf::J::arr(); for(auto& p : m.vtx) { vf::J q = vf::J::arr(); for(int i = 0; i < dim; ++i) q.add(p[i]); vj.add(q); } d.set("vtx", vj); }
    else { std::string s; for(auto& p : m.vtx) for(int i = 0; i < dim; ++i) { char b[32]; snprintf(b, sizeof b, "%.17g,", p[i]); s += b; } char hb[20]; snprintf(hb, sizeof hb, "%016llx", (unsigned long long)vf::fnv64(s)); d.set("vtx_hash", std::string(hb)); d.set("nv", nv); }
    if(nc <= 6) { vf::J cj = vf::J::arr(); for(auto& cl : m.cells) { vf::J q = vf::J::arr(); for(int k = 0; k < R::nv; ++k) q.add(cl[k]); cj.add(q); } d.set("cells", cj); }
    else { std::string s; for(auto& cl : m.cells) for(int k = 0; k < R::nv; ++k) s += std::to_string(cl[k]) + ","; char hb[20]; snprintf(hb, sizeof hb, "%016llx", (unsigned long long)vf::fnv64(s)); d.set("cells_hash", std::string(hb)); d.set("nc", nc); }
    m.desc = d;
    return m;
  }

  /// builds the feat3 mesh: vertex set + vertices-at-cell, everything else by deduct_topology_from_top()
  template<typename Shape_> Geometry::ConformalMesh<Shape_> build_mesh(const MeshData<Shape_>& m)
  {
    typedef Ref<Shape_> R; constexpr int dim = R::dim;
    Index ne[4] = {0, 0, 0, 0}; ne[0] = Index(m.nvt()); ne[dim] = Index(m.nc());
    Geometry::ConformalMesh<Shape_> mesh(ne);
    auto& vs = mesh.get_vertex_set();
    for(Index i = 0; i < ne[0]; ++i) for(int a = 0; a < dim; ++a) vs[i][a] = m.vtx[size_t(i)][a];
    auto& vc = mesh.template get_index_set<dim, 0>();
    for(Index q = 0; q < ne[dim]; ++q) for(int k = 0; k < R::nv; ++k) vc(q, k) = Index(m.cells[size_t(q)][k]);
    if constexpr(dim > 1) mesh.deduct_topology_from_top();
    else mesh.fill_neighbors();
    return mesh;
  }

  // ------------------------------------------------------------------------------------------------
  // reference points: vertex / edge / face / interior / centre classes
  // ------------------------------------------------------------------------------------------------
  template<typename Shape_> std::string gen_ref_point(vf::Tape& t, double* xi, bool interior_only = false)
  {
    typedef Ref<Shape_> R; constexpr int dim = R::dim;
    int cls = interior_only ? (t.pick({1, 4})) : t.pick({1, 5, 2, 2, 2}); // 0 centre, 1 interior, 2 vertex, 3 facet interior, 4 lower dim (edge in 3D)
    if(interior_only && cls == 1) cls = 1;
    // barycentric / multilinear weights from the tape (dyadic)
    if(R::simplex)
    {
      double w[4] = {0, 0, 0, 0}; int fixed_zero = 0;
      if(cls == 0) { for(int j = 0; j < dim; ++j) xi[j] = 1.0 / double(dim + 1); return "pt:centre"; }
      if(cls == 2) { int k = t.range(0, dim); for(int j = 0; j < dim; ++j) xi[j] = double(R::vc(k, j)); return "pt:vertex"; }
      if(cls == 3) fixed_zero = 1; if(cls == 4) fixed_zero = std::max(1, dim - 1);
      int z0 = t.range(0, dim); double s = 0;
      for(int k = 0; k <= dim; ++k) { w[k] = double(1 + t.range(0, 30)); }
      for(int q = 0; q < fixed_zero && q < dim; ++q) w[(z0 + q) % (dim + 1)] = 0;
      for(int k = 0; k <= dim; ++k) s += w[k];
      for(int j = 0; j < dim; ++j) xi[j] = w[j + 1] / s;
      return cls == 1 ? "pt:interior" : (cls == 3 ? "pt:facet" : (dim == 3 ? "pt:edge" : "pt:facet"));
    }
    else
    {
      if(cls == 0) { for(int j = 0; j < dim; ++j) xi[j] = 0.0; return "pt:centre"; }
      for(int j = 0; j < dim; ++j) xi[j] = double(t.range(0, 60) - 30) / 32.0; // (-1,1) dyadic-ish grid
      if(cls == 1) return "pt:interior";
      if(cls == 2) { int k = t.range(0, R::nv - 1); for(int j = 0; j < dim; ++j) xi[j] = double(R::vc(k, j)); return "pt:vertex"; }
      int nfix = (cls == 3) ? 1 : std::max(1, dim - 1); int a0 = t.range(0, dim - 1);
      for(int q = 0; q < nfix; ++q) xi[(a0 + q) % dim] = t.flag() ? 1.0 : -1.0;
      return cls == 3 ? "pt:facet" : (dim == 3 ? "pt:edge" : "pt:facet");
    }
  }
} // namespace c15
