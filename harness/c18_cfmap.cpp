// C18 - target "cfmap": Geometry::Intern::CoarseFineCellMapping on structured meshes (the specialisation that the
// transfer assembly cannot reach on this tree, because StructuredMesh has no mesh permutation interface) and on
// conformal meshes, against the children determined geometrically (fine cell centroid inside the coarse cell).
#include "c18_mesh.hpp"
#include "c18_parts.hpp"
#include <kernel/geometry/structured_mesh.hpp>
#include <kernel/geometry/intern/coarse_fine_cell_mapping.hpp>

namespace c18
{
  template<int dim>
  void run_cfmap_struct(Tape& t, Ctx& c)
  {
    typedef Geometry::StructuredMesh<dim, dim, double> MeshType;
    Index ns[3] = {1, 1, 1};
    for(int k = 0; k < dim; ++k) ns[k] = Index(1 + t.sized(0, dim == 3 ? 3 : 6, 1));
    // tensor grid with generated increasing coordinates
    std::vector<double> x[3];
    for(int k = 0; k < dim; ++k) { double p = t.real(1); x[k].push_back(p); for(Index i = 0; i < ns[k]; ++i) { p += double(1 + t.range(0, 15)) / 8.0; x[k].push_back(p); } }
    c.desc.set("kind", "structured"); c.desc.set("dim", dim);
    { J s = J::arr(); for(int k = 0; k < dim; ++k) s.add((long long)ns[k]); c.desc.set("slices", s); }
    { J s = J::arr(); for(int k = 0; k < dim; ++k) s.add(J(x[k])); c.desc.set("grid", s); }
    c.op = "cfmap:structured" + std::to_string(dim) + "d";
    c.label("cfmap:structured"); c.label("dim:" + std::to_string(dim));
    Index ncell = 1; for(int k = 0; k < dim; ++k) ncell *= ns[k];
    c.label(ncell == 1 ? "cells:1" : ncell <= 4 ? "cells:2-4" : ncell <= 16 ? "cells:5-16" : "cells:>16");
    c.nontrivial = ncell >= 2;
    c.announce();

    MeshType coarse(ns);
    {
      auto& vs = coarse.get_vertex_set();
      for(Index i = 0; i <= (dim > 2 ? ns[2] : 0); ++i) for(Index j = 0; j <= (dim > 1 ? ns[1] : 0); ++j) for(Index k = 0; k <= ns[0]; ++k)
      {
        auto& v = vs[k + (ns[0] + 1u) * (j + (dim > 1 ? (ns[1] + 1u) * i : Index(0)))];
        v[0] = x[0][k]; if constexpr (dim > 1) v[1] = x[1][j]; if constexpr (dim > 2) v[2] = x[2][i];
      }
    }
    Geometry::StandardRefinery<MeshType> ref(coarse); MeshType fine(ref);
    VF_CHECK(fine.get_num_elements() == coarse.get_num_elements() * (Index(1) << dim), "fine mesh has " << fine.get_num_elements() << " cells");
    // geometric children: centroid of the fine cell inside the bounding box of the coarse cell
    auto bbox = [&](const MeshType& m, Index cell, double lo[3], double hi[3], double cen[3])
    {
      const auto& iv = m.template get_index_set<dim, 0>(); const auto& vs = m.get_vertex_set();
      for(int k = 0; k < dim; ++k) { lo[k] = 1e300; hi[k] = -1e300; cen[k] = 0; }
      for(int j = 0; j < (1 << dim); ++j) for(int k = 0; k < dim; ++k) { double v = vs[iv(cell, j)][k]; lo[k] = std::min(lo[k], v); hi[k] = std::max(hi[k], v); cen[k] += v / double(1 << dim); }
    };
    std::vector<std::set<Index>> kids(coarse.get_num_elements());
    for(Index f = 0; f < fine.get_num_elements(); ++f)
    {
      double lo[3], hi[3], cen[3]; bbox(fine, f, lo, hi, cen); int hits = 0;
      for(Index cc = 0; cc < coarse.get_num_elements(); ++cc)
      {
        double clo[3], chi[3], ccen[3]; bbox(coarse, cc, clo, chi, ccen); bool in = true;
        for(int k = 0; k < dim; ++k) if(!(cen[k] > clo[k] && cen[k] < chi[k])) in = false;
        if(in) { kids[cc].insert(f); ++hits; }
      }
      VF_CHECK(hits == 1, "harness: fine cell " << f << " lies in " << hits << " coarse cells");
    }
    Geometry::Intern::CoarseFineCellMapping<MeshType, MeshType> cfm(fine, coarse);
    VF_CHECK(cfm.get_num_children() == (Index(1) << dim), "get_num_children " << cfm.get_num_children());
    VF_CHECK(cfm.get_num_nodes_domain() == coarse.get_num_elements() && cfm.get_num_nodes_image() == fine.get_num_elements(), "adjactor dimensions");
    for(Index cc = 0; cc < coarse.get_num_elements(); ++cc)
    {
      std::set<Index> got, got2;
      for(Index ch = 0; ch < cfm.get_num_children(); ++ch) got.insert(cfm.calc_fcell(cc, ch));
      VF_CHECK(got == kids[cc], "calc_fcell: children of coarse cell " << cc << " differ from the geometric children (first " << *got.begin() << " vs " << *kids[cc].begin() << ")");
      Index cnt = 0;
      for(auto it = cfm.image_begin(cc); it != cfm.image_end(cc); ++it) { got2.insert(*it); VF_CHECK(++cnt <= 64, "image iterator of coarse cell " << cc << " does not terminate"); }
      VF_CHECK(got2 == kids[cc], "image iterator: children of coarse cell " << cc << " differ from the geometric children (" << got2.size() << " cells)");
    }
  }

  void cfmap_case(vf::Tape& t, vf::Ctx& c)
  {
    switch(t.pick({3, 2, 3}))
    {
    case 0: run_cfmap_struct<2>(t, c); break;
    case 1: run_cfmap_struct<1>(t, c); break;
    default: run_cfmap_struct<3>(t, c); break;
    }
  }
} // namespace c18
