// C16: Burgers assemblers and jobs on 2D meshes (see c16_burgers.hpp)
#include "c16_burgers.hpp"
namespace c16 { template void burgers_spaces<Shape::Hypercube<2>>(vf::Tape&, vf::Ctx&, const RawMesh&, int); template void burgers_spaces<Shape::Simplex<2>>(vf::Tape&, vf::Ctx&, const RawMesh&, int); }
