// c16_trace.hpp - TraceAssembler on boundary facets: operator matrices (mass / Laplace), functional vectors and the
// integral of a discrete function against exact facet integrals of polynomials; facet selection by compile_all_facets,
// boundary mesh part, explicit facet subsets and re-use of an assembler object after clear().
#pragma once
#include "c16_core.hpp"
#include <kernel/assembly/trace_assembler.hpp>
#include <kernel/assembly/common_operators.hpp>
#include <kernel/assembly/common_functionals.hpp>
#include <kernel/geometry/boundary_factory.hpp>
#include <kernel/geometry/mesh_part.hpp>
#include <kernel/assembly/unit_filter_assembler.hpp>
#include <kernel/lafem/unit_filter.hpp>

namespace c16
{
  /// quadrature points on one flat facet (segment / triangle / parallelogram) given by its vertices, exact for degree <= deg
  inline void facet_qps(const RawMesh& m, const std::vector<int>& fv, int deg, std::vector<QP>& out)
  {
    const int d = m.dim; const int n = (deg + 1) / 2 + 1; const Gauss1D& g = gauss01(n);
    auto V = [&](int k, int a) { return (LD)m.vtx[(size_t)fv[(size_t)k]][(size_t)a]; };
    if(d == 2)
    {
      LD len = std::sqrt((double)((V(1, 0) - V(0, 0)) * (V(1, 0) - V(0, 0)) + (V(1, 1) - V(0, 1)) * (V(1, 1) - V(0, 1))));
      len = sqrtl((V(1, 0) - V(0, 0)) * (V(1, 0) - V(0, 0)) + (V(1, 1) - V(0, 1)) * (V(1, 1) - V(0, 1)));
      for(int i = 0; i < n; ++i) { QP p; p.x[2] = 0; for(int a = 0; a < 2; ++a) p.x[a] = V(0, a) + g.x[(size_t)i] * (V(1, a) - V(0, a)); p.w = g.w[(size_t)i] * len; out.push_back(p); }
      return;
    }
    // 3D: e1 = v1 - v0, e2 = v2 - v0 ; area element |e1 x e2|
    LD e1[3], e2[3]; for(int a = 0; a < 3; ++a) { e1[a] = V(1, a) - V(0, a); e2[a] = V(2, a) - V(0, a); }
    const LD cx = e1[1] * e2[2] - e1[2] * e2[1], cy = e1[2] * e2[0] - e1[0] * e2[2], cz = e1[0] * e2[1] - e1[1] * e2[0];
    const LD ar = sqrtl(cx * cx + cy * cy + cz * cz);
    const bool tri = (fv.size() == 3);
    const int n2 = tri ? (deg + 2) / 2 + 1 : n; const Gauss1D& g2 = gauss01(n2);
    for(int i = 0; i < n2; ++i) for(int j = 0; j < n2; ++j)
    {
      LD s = g2.x[(size_t)i], r = g2.x[(size_t)j], w = g2.w[(size_t)i] * g2.w[(size_t)j];
      if(tri) { r = r * (1 - s); w *= (1 - s); }
      QP p; for(int a = 0; a < 3; ++a) p.x[a] = V(0, a) + s * e1[a] + r * e2[a]; p.w = w * ar; out.push_back(p);
    }
  }

  template<typename Shape_, typename Tag, typename DT, typename IT>
  struct TraceCase
  {
    static constexpr int dim = Shape_::dimension;
    typedef Geometry::ConformalMesh<Shape_, dim, double> MeshType;
    typedef Trafo::Standard::Mapping<MeshType> TrafoType;
    typedef typename Tag::template S<TrafoType> SpaceType;
    typedef LAFEM::SparseMatrixCSR<DT, IT> MatrixType;
    typedef LAFEM::DenseVector<DT, IT> VectorType;
    Tape& t; Ctx& c; const RawMesh& rm;
    TraceCase(Tape& t_, Ctx& c_, const RawMesh& m) : t(t_), c(c_), rm(m) {}

    void run()
    {
      const bool simplex = rm.simplex; const double kap = rm.kappa;
      // 0 mass matrix, 1 Laplace matrix (full gradients on the facets), 2 force functional, 3 discrete integral,
      // 4 unit filter of the boundary part (Lagrange spaces: dofs = support of the boundary mass, values = interpolation)
      const int sub = Tag::tensor ? t.pick({3, 2, 3, 2, 2}) : t.pick({3, 2, 3, 2});
      static const char* sn[] = {"mass", "laplace", "force", "discrete_integral", "unit_filter"};
      int sel = t.pick({3, 2, 3, 3});   // 0 compile_all_facets(outer), 1 boundary mesh part, 2 explicit facet subset, 3 re-use after clear()
      if(sel == 3 && c.excl("c16-trace-clear-reuse")) sel = 2;   // known finding: clear() keeps the facet mask => use a fresh object instead
      static const char* sl[] = {"all-outer", "meshpart", "subset", "reuse-after-clear"};
      const int q = t.range(0, 2);
      std::vector<Poly> F = gen_polys(t, 1, dim, q, false), P = gen_polys(t, 2, dim, Tag::p, false);
      DT alpha; { static const double as[] = {1.0, -1.0, 2.0, 0.5}; alpha = DT(as[t.range(0, 3)]); }
      const std::uint32_t seedA = t.raw() | 1u, seedB = t.raw() | 1u;
      const int b = Tag::bdeg(simplex);
      // facet integrands: traces of the basis functions have at most the same per-variable / total degree; non-affine 2D cells have straight edges
      const int need = ((sub <= 1 || sub == 4) ? 2 * b : (sub == 2 ? b + q : b)) + ((rm.cells_affine || dim == 2) ? 0 : 2);
      const int cubdeg = std::min(m_cap(), need + t.range(0, 2)); const std::string cubname = "auto-degree:" + std::to_string(cubdeg);
      // exact oracle: flat facets (2D always, 3D affine cells), P_k in the space, gradients only on affine cells
      const bool flat = (dim == 2) || rm.cells_affine;
      const bool exact_ok = flat && cubdeg >= need && (rm.cells_affine || (Tag::nonaffine_ok && sub != 1));

      auto mesh = make_feat_mesh<MeshType>(rm); TrafoType trafo(*mesh); SpaceType space(trafo);
      c.desc.set("mesh", rm.json()); c.desc.set("space", Tag::name()); c.desc.set("dt", TN<DT>::n()); c.desc.set("sub", sn[sub]); c.desc.set("selection", sl[sel]);
      c.desc.set("f", polys_json(F)); c.desc.set("uv", polys_json(P)); c.desc.set("alpha", (double)alpha); c.desc.set("cubature", cubname); c.desc.set("seedA", (long long)seedA); c.desc.set("seedB", (long long)seedB);
      label_mesh(c, rm); c.label(std::string("sub:") + sn[sub]); c.label(std::string("sel:") + sl[sel]); c.label(std::string("space:") + Tag::name()); c.label(exact_ok ? "oracle:exact" : "oracle:measure-only");
      c.op = std::string("trace:") + sn[sub];
      c.nontrivial = true;
      c.announce();

      // ---------------------------------------------------------------- boundary facets (harness side: facets whose vertex set occurs in exactly one cell)
      static constexpr int fd = dim - 1;
      const auto& vaf = mesh->template get_index_set<fd, 0>();
      const Index nf = mesh->get_num_entities(fd);
      std::map<std::vector<int>, int> cnt;
      {
        static const int qe[4][2] = {{0, 1}, {2, 3}, {0, 2}, {1, 3}}, te[3][2] = {{1, 2}, {2, 0}, {0, 1}};
        static const int hf[6][4] = {{0, 1, 2, 3}, {4, 5, 6, 7}, {0, 1, 4, 5}, {2, 3, 6, 7}, {0, 2, 4, 6}, {1, 3, 5, 7}}, tf[4][3] = {{1, 2, 3}, {0, 2, 3}, {0, 1, 3}, {0, 1, 2}};
        for(auto& cell : rm.cells)
        {
          const int nfc = simplex ? dim + 1 : 2 * dim, nvf = simplex ? dim : (1 << (dim - 1));
          for(int f = 0; f < nfc; ++f)
          {
            std::vector<int> key;
            for(int k = 0; k < nvf; ++k) key.push_back(cell[(size_t)(dim == 2 ? (simplex ? te[f][k] : qe[f][k]) : (simplex ? tf[f][k] : hf[f][k]))]);
            std::sort(key.begin(), key.end()); cnt[key]++;
          }
        }
      }
      std::vector<std::vector<int>> fverts((size_t)nf); std::vector<char> is_bnd((size_t)nf, 0); Index nbnd = 0;
      for(Index f = 0; f < nf; ++f)
      {
        for(int k = 0; k < vaf.num_indices; ++k) fverts[(size_t)f].push_back((int)vaf[f][k]);
        std::vector<int> key = fverts[(size_t)f]; std::sort(key.begin(), key.end());
        auto it = cnt.find(key); VF_CHECK(it != cnt.end(), "facet " << f << " of the feat3 mesh is not a facet of any generated cell");
        if(it->second == 1) { is_bnd[(size_t)f] = 1; ++nbnd; }
      }
      VF_CHECK((Index)cnt.size() == nf, "feat3 mesh has " << nf << " facets, the generated cells have " << cnt.size());
      // ---------------------------------------------------------------- facet selection
      std::vector<char> want((size_t)nf, 0);
      Assembly::TraceAssembler<TrafoType> ta(trafo);
      if(sel == 0) { want = is_bnd; ta.compile_all_facets(false, true); }
      else if(sel == 1)
      {
        want = is_bnd; Geometry::BoundaryFactory<MeshType> bf(*mesh); Geometry::MeshPart<MeshType> bnd(bf);
        VF_CHECK(bnd.get_num_entities(fd) == nbnd, "BoundaryFactory mesh part has " << bnd.get_num_entities(fd) << " facets, expected " << nbnd);
        ta.add_mesh_part(bnd); ta.compile();
      }
      else
      {
        std::vector<char> first((size_t)nf, 0);
        for(Index f = 0; f < nf; ++f) if(is_bnd[(size_t)f]) { first[(size_t)f] = (hash2(seedA, (std::uint32_t)f) & 1u) ? 1 : 0; want[(size_t)f] = (hash2(seedB, (std::uint32_t)f) % 3u != 0u) ? 1 : 0; }
        if(sel == 3)
        {
          // first life of the object: another facet set, assembled once; then clear() and select the wanted set
          for(Index f = 0; f < nf; ++f) if(first[(size_t)f]) ta.add_facet(f);
          ta.compile();
          { VectorType dummy(space.get_num_dofs(), DT(1)); Cubature::DynamicFactory cub0(cubname); (void)ta.assemble_discrete_integral(dummy, space, cub0); }
          ta.clear();
        }
        for(Index f = 0; f < nf; ++f) if(want[(size_t)f]) ta.add_facet(f);
        ta.compile();
      }
      std::vector<QP> qp; const int odeg = 2 * std::max(Tag::p, q); LD meas = 0;
      if(flat) for(Index f = 0; f < nf; ++f) if(want[(size_t)f]) facet_qps(rm, fverts[(size_t)f], odeg, qp);
      for(auto& p : qp) meas += p.w;
      Index nwant = 0; for(char w : want) nwant += w; c.label(nwant == 0 ? "facets:none" : (nwant == nbnd ? "facets:whole-boundary" : "facets:part"));

      Cubature::DynamicFactory cub(cubname); const LD al = (LD)alpha;
      const Index nd = space.get_num_dofs();
      Poly pone; pone.dim = dim; pone.t.push_back({1.0, {0, 0, 0}}); PolyFunction<dim> fone(pone); VectorType oneh; Assembly::Interpolator::project(oneh, fone, space); const std::vector<LD> ones = flat_of(oneh);
      PolyFunction<dim> fu(P[0]), fv(P[1]); VectorType uh, vh; Assembly::Interpolator::project(uh, fu, space); Assembly::Interpolator::project(vh, fv, space);
      const std::vector<LD> us = flat_of(uh), vs = flat_of(vh);
      if(sub == 4)
      {
        // facets selected by a mesh part with exactly the wanted facets is not constructible without feat3's factories:
        // use the whole boundary part for the filter and an own trace assembler over all outer facets for the reference
        Geometry::BoundaryFactory<MeshType> bf(*mesh); Geometry::MeshPart<MeshType> bnd(bf);
        Assembly::UnitFilterAssembler<MeshType> ufa; ufa.add_mesh_part(bnd);
        PolyFunction<dim> ff(F[0]); LAFEM::UnitFilter<DT, IT> filter; ufa.assemble(filter, space, ff);
        LAFEM::UnitFilter<DT, IT> filter0; ufa.assemble(filter0, space);
        Assembly::TraceAssembler<TrafoType> tb(trafo); tb.compile_all_facets(false, true);
        MatrixType A; Assembly::SymbolicAssembler::assemble_matrix_std1(A, space); A.format(); Assembly::Common::IdentityOperator op; tb.assemble_operator_matrix1(A, op, space, cub, DT(1));
        const Dn dA = dense_of(A); const LD amax = dA.maxabs();
        VectorType fh; Assembly::Interpolator::project(fh, ff, space); const std::vector<LD> fs = flat_of(fh);
        std::set<long> fidx, fidx0, sup;
        for(Index k = 0; k < filter.used_elements(); ++k) fidx.insert((long)filter.get_indices()[k]);
        for(Index k = 0; k < filter0.used_elements(); ++k) { fidx0.insert((long)filter0.get_indices()[k]); VF_CHECK(filter0.get_values()[k] == DT(0), "homogeneous unit filter value " << (double)filter0.get_values()[k]); }
        for(long i = 0; i < dA.r; ++i) if(dA(i, i) > 1e-6L * amax) sup.insert(i);
        VF_CHECK(fidx == fidx0, "unit filter index sets of the homogeneous and the function based assembly differ");
        VF_CHECK(fidx == sup, "unit filter holds " << fidx.size() << " dofs but " << sup.size() << " basis functions have a non-vanishing trace on the boundary");
        for(Index k = 0; k < filter.used_elements(); ++k)
        {
          const long i = (long)filter.get_indices()[k]; const LD v = (LD)filter.get_values()[k];
          VF_CHECK(fabsl(v - fs[(size_t)i]) <= 8 * unit_roundoff<DT>() * (fabsl(fs[(size_t)i]) + 1), "unit filter value of dof " << i << " is " << (double)v << " but the interpolation of f has " << (double)fs[(size_t)i]);
        }
      }
      else if(sub <= 1)
      {
        MatrixType A; Assembly::SymbolicAssembler::assemble_matrix_std1(A, space); A.format();
        if(sub == 0) { Assembly::Common::IdentityOperator op; ta.assemble_operator_matrix1(A, op, space, cub, alpha); }
        else { Assembly::Common::LaplaceOperator op; ta.assemble_operator_matrix1(A, op, space, cub, alpha); }
        const Dn dA = dense_of(A); VF_CHECK(dA.finite(), "trace operator matrix has non-finite entries"); const LD SA = dA.sumabs(), amax = dA.maxabs();
        for(long i = 0; i < dA.r; ++i) for(long j = i + 1; j < dA.c; ++j) VF_CHECK(fabsl(dA(i, j) - dA(j, i)) <= tol_of<DT>(kap, amax), "trace " << sn[sub] << " matrix not symmetric at (" << i << "," << j << ")");
        if(sub == 1) for(long i = 0; i < dA.r; ++i) { LD s = 0, sa = 0; for(long j = 0; j < dA.c; ++j) { s += dA(i, j) * ones[(size_t)j]; sa += fabsl(dA(i, j) * ones[(size_t)j]); } VF_CHECK(fabsl(s) <= tol_of<DT>(kap, std::max(sa, amax)), "trace Laplace matrix: (A*1)_" << i << " = " << (double)s); }
        if(sub == 0 && flat) { const LD got = bil(ones, dA, ones); VF_CHECK(fabsl(got - al * meas) <= tol_of<DT>(kap, SA + fabsl(al * meas)), "trace mass: 1^T M 1 = " << (double)got << " but alpha * measure of the selected facets = " << (double)(al * meas)); }
        if(exact_ok)
        {
          const Poly& U = P[0]; const Poly& V = P[1];
          const LD ex = al * integrate(qp, [&](const LD* x) { if(sub == 0) return U.val<LD>(x) * V.val<LD>(x); LD s = 0; for(int a = 0; a < dim; ++a) s += U.der<LD>(x, a) * V.der<LD>(x, a); return s; });
          const LD got = bil(vs, dA, us); const LD tol = tol_of<DT>(kap, maxabs(us) * maxabs(vs) * SA);
          VF_CHECK(std::isfinite((double)got) && fabsl(got - ex) <= tol, "trace " << sn[sub] << ": v^T A u = " << (double)got << " but the exact facet integral is " << (double)ex << " (tol " << (double)tol << ")");
        }
      }
      else if(sub == 2)
      {
        PolyFunction<dim> ff(F[0]); Assembly::Common::ForceFunctional<PolyFunction<dim>> fun(ff);
        VectorType bvec(nd, DT(0.5)); ta.assemble_functional_vector(bvec, fun, space, cub, alpha);
        std::vector<LD> bs = flat_of(bvec); for(auto& x : bs) x -= 0.5L; LD S = 0.5L; for(LD x : bs) S += fabsl(x);
        if(exact_ok)
        {
          const Poly& Fp = F[0]; const Poly& V = P[1];
          const LD ex = al * integrate(qp, [&](const LD* x) { return Fp.val<LD>(x) * V.val<LD>(x); });
          LD got = 0; for(size_t i = 0; i < bs.size(); ++i) got += vs[i] * bs[i];
          const LD tol = tol_of<DT>(kap, maxabs(vs) * S);
          VF_CHECK(std::isfinite((double)got) && fabsl(got - ex) <= tol, "trace force functional: v^T b = " << (double)got << " but the exact facet integral is " << (double)ex << " (tol " << (double)tol << ")");
        }
      }
      else
      {
        const DT got = ta.assemble_discrete_integral(uh, space, cub);
        if(exact_ok)
        {
          const Poly& U = P[0];
          const LD ex = integrate(qp, [&](const LD* x) { return U.val<LD>(x); }); const LD sa = integrate(qp, [&](const LD* x) { return fabsl(U.val<LD>(x)); });
          VF_CHECK(std::isfinite((double)got) && fabsl((LD)got - ex) <= tol_of<DT>(kap, std::max(sa, maxabs(us) * meas)), "trace discrete integral = " << (double)got << " but the exact facet integral is " << (double)ex);
        }
        if(flat) { const DT g1 = ta.assemble_discrete_integral(oneh, space, cub); VF_CHECK(fabsl((LD)g1 - meas) <= tol_of<DT>(kap, meas + 1), "trace integral of 1 = " << (double)g1 << " but the measure of the selected facets is " << (double)meas); }
      }
      // ---------------------------------------------------------------- jump operators on inner facets (draw appended behind all others)
      // continuous spaces: every basis function has the same trace from both sides of an inner facet, so the jump operator
      // sum_E int_E [phi][psi] vanishes entry by entry whatever orientation the two cells see the facet in; a polynomial of the
      // space has a continuous gradient, so the jump-stabilisation operator sum_E (s J_E)^p int_E [grad phi].[grad psi] annihilates
      // its coefficient vector (rows), and the operator is symmetric
      if constexpr(Tag::tensor)
      {
        if(t.flag(1, 3) && mesh->get_num_elements() >= 2)
        {
          c.label("jump:inner-facets"); c.desc.set("jump_ops", true); c.op = "trace:jump"; c.announce();
          Assembly::TraceAssembler<TrafoType> tj(trafo); tj.compile_all_facets(true, false);
          MatrixType J; Assembly::SymbolicAssembler::assemble_matrix_ext_facet1(J, space); J.format();
          tj.assemble_jump_operator_matrix(J, space, cub, alpha);
          LD vol = 0; for(auto& x : mesh_qps(rm, 0)) vol += x.w; const LD hs = (LD)std::pow((double)vol / (double)mesh->get_num_elements(), 1.0 / dim);
          const LD fm = (LD)mesh->get_num_entities(fd) * std::pow((double)hs, dim - 1) * kap;      // scale of the total facet measure
          { LD mx = 0; Index wi = 0, wj = 0; for(Index i = 0; i < J.rows(); ++i) for(auto k = J.row_ptr()[i]; k < J.row_ptr()[i + 1]; ++k) if(fabsl((LD)J.val()[k]) > mx) { mx = fabsl((LD)J.val()[k]); wi = i; wj = J.col_ind()[k]; }
            VF_CHECK(std::isfinite((double)mx) && mx <= 1e-10L * fabsl((LD)alpha) * (fm + 1), "jump operator of a continuous space on the inner facets: entry (" << wi << "," << wj << ") = " << (double)mx << " but every inner jump [phi] vanishes"); }
          if(Tag::has_grad && (rm.cells_affine || Tag::nonaffine_ok) && rm.cells_affine)
          {
            MatrixType S; Assembly::SymbolicAssembler::assemble_matrix_ext_facet1(S, space); S.format();
            tj.assemble_jump_stabil_operator_matrix(S, space, cub, DT(1), DT(2), DT(2));
            VectorType ph; { PolyFunction<dim> pf(P[0]); Assembly::Interpolator::project(ph, pf, space); }
            VectorType r(space.get_num_dofs(), DT(0)); S.apply(r, ph);
            LD smax = 0; for(Index k = 0; k < S.used_elements(); ++k) smax = std::max(smax, fabsl((LD)S.val()[k])); LD pmx = 0; for(Index i = 0; i < ph.size(); ++i) pmx = std::max(pmx, fabsl((LD)ph(i)));
            Index rl = 0; for(Index i = 0; i < S.rows(); ++i) rl = std::max<Index>(rl, Index(S.row_ptr()[i + 1] - S.row_ptr()[i]));
            for(Index i = 0; i < r.size(); ++i) VF_CHECK(fabsl((LD)r(i)) <= tol_of<DT>(kap, smax * pmx * (LD)(rl + 1)), "jump stabilisation operator applied to a polynomial of the space: row " << i << " gives " << (double)r(i) << " (the gradient of the polynomial is continuous)");
            for(Index i = 0; i < S.rows(); ++i) for(auto k = S.row_ptr()[i]; k < S.row_ptr()[i + 1]; ++k) { const Index j = S.col_ind()[k]; LD sji = 0; for(auto q2 = S.row_ptr()[j]; q2 < S.row_ptr()[j + 1]; ++q2) if(S.col_ind()[q2] == i) sji = (LD)S.val()[q2];
              VF_CHECK(fabsl((LD)S.val()[k] - sji) <= tol_of<DT>(kap, smax), "jump stabilisation operator is not symmetric: S(" << i << "," << j << ") = " << (double)S.val()[k] << ", S(" << j << "," << i << ") = " << (double)sji); }
          }
        }
      }
    }
    static std::uint32_t hash2(std::uint32_t a, std::uint32_t b) { std::uint64_t x = (std::uint64_t(a) << 32 | b) * 0x9e3779b97f4a7c15ull; x ^= x >> 29; x *= 0xbf58476d1ce4e5b9ull; x ^= x >> 32; return (std::uint32_t)x; }
    int m_cap() const { return (rm.simplex && dim == 3) ? 19 : 19; }   // facet rules: Gauss (1D / quad facets) or Dunavant (triangle facets)
  };

  template<typename Shape_> void trace_spaces(Tape& t, Ctx& c, const RawMesh& rm, int which)
  {
    typedef std::uint64_t I64;
    switch(which)
    {
    case 0: { TraceCase<Shape_, SL1, double, I64> k(t, c, rm); k.run(); break; }
    case 1: { TraceCase<Shape_, SL2, double, I64> k(t, c, rm); k.run(); break; }
    default: { TraceCase<Shape_, SCR, double, I64> k(t, c, rm); k.run(); break; }
    }
  }
  extern template void trace_spaces<Shape::Hypercube<2>>(Tape&, Ctx&, const RawMesh&, int); extern template void trace_spaces<Shape::Simplex<2>>(Tape&, Ctx&, const RawMesh&, int);
  extern template void trace_spaces<Shape::Hypercube<3>>(Tape&, Ctx&, const RawMesh&, int); extern template void trace_spaces<Shape::Simplex<3>>(Tape&, Ctx&, const RawMesh&, int);

  template<typename Shape_, bool simplex_> void trace_target(Tape& t, Ctx& c)
  {
    MeshOpts o; o.dim = Shape_::dimension; o.simplex = simplex_; o.max_n = (o.dim == 2 ? 3 : 2);
    const int which = t.pick({3, 3, 2});
    if(o.dim == 3) o.max_cells = 4;
    RawMesh rm = gen_mesh(t, o);
    trace_spaces<Shape_>(t, c, rm, which);
  }
} // namespace c16
