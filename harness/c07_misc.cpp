// C07, group "misc": Richardson, RGCR, IDR(s) on local CSR systems (NoneFilter / UnitFilter)
#include "common/c07_case.hpp"
using namespace c07;

static int maxn() { const char* e = getenv("C07_MAXN"); int v = e ? atoi(e) : 60; return v < 3 ? 60 : v; }

int main(int argc, char** argv)
{
  FEAT::Runtime::ScopeGuard guard(argc, argv);
  std::vector<Target> tg;
  tg.push_back({"misc", [](Tape& t, Ctx& c) { target<G_MISC, double, LocalBE>(t, c, {K_RICH, K_RGCR, K_IDRS}, {3, 2, 3}, maxn()); }, 96, 2, 60000});
  // thorough tier: same decoder, systems up to n = 120
  tg.push_back({"misc_big", [](Tape& t, Ctx& c) { target<G_MISC, double, LocalBE>(t, c, {K_RICH, K_RGCR, K_IDRS}, {3, 2, 3}, 120); }, 96, 3, 120000});
  return main_impl(argc, argv, tg);
}
