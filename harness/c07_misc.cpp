// C07, group "misc": Richardson, RGCR, IDR(s) on local CSR systems (NoneFilter / UnitFilter)
#include "common/c07_case.hpp"
using namespace c07;

static int maxn() { const char* e = getenv("C07_MAXN"); int v = e ? atoi(e) : 60; return v < 3 ? 60 : v; }

int main(int argc, char** argv)
{
  FEAT::Runtime::ScopeGuard guard(argc, argv);
  std::vector<Target> tg;
  tg.push_back({"misc", [](Tape& t, Ctx& c) { target<G_MISC, double, LocalBE>(t, c, {K_RICH, K_RGCR, K_IDRS}, {3, 2, 3}, maxn()); }, 96, 2, 60000});
  // thorough tier: same decoder, systems up to n = 120
  tg.push_back({"misc_big", [](Tape& t, Ctx& c) { target<G_MISC, double, LocalBE>(t, c, {K_RICH, K_RGCR, K_IDRS}, {3, 2, 3}, 120); }, 96, 3, 120000});
  // the practice of tutorial_06_global: unit filter, system matrix left unfiltered, convergence claimed (the solver's own filter_def/filter_cor calls carry the constraints)
  tg.push_back({"misc_unfilt", [](Tape& t, Ctx& c) { c07::force_bits = 7; target<G_MISC, double, LocalBE>(t, c, {K_RICH, K_RGCR, K_IDRS}, {1, 2, 5}, maxn()); c07::force_bits = 0; }, 96, 2, 60000});
  return main_impl(argc, argv, tg);
}
