// C18, extension round (binary c18_ext): targets that close the gaps listed in findings/C18.md
//   idx32 / idx32-big     : the case decoder and all oracle groups of c18_core.hpp with index type std::uint32_t for the
//                           matrices and vectors (quad/tria/hexa/tetra, double and float)
//   blocked / blocked-big : Control::Asm::asm_transfer_blocked into Global::Transfer<LAFEM::Transfer<SparseMatrixBWrappedCSR>>
//                           (block sizes 2/3, double/float, Index/uint32), see c18_blocked.cpp
#include "c18_parts.hpp"
#include <kernel/runtime.hpp>
using namespace vf;

namespace
{
  typedef void (*PartFn)(Tape&, Ctx&, int, bool, bool);
  struct Entry { PartFn fn; int idx; bool has_float; int weight; };
  // 0 on the tape -> quadrilaterals, lagrange1, double
  const std::vector<Entry> cat32{
    {c18::idx32_quad, 0, true, 4}, {c18::idx32_quad, 1, true, 3}, {c18::idx32_quad, 2, false, 2}, {c18::idx32_quad, 3, false, 2},
    {c18::idx32_tria, 0, true, 4}, {c18::idx32_tria, 1, false, 3}, {c18::idx32_tria, 2, false, 1}, {c18::idx32_tria, 3, false, 2},
    {c18::idx32_hexa, 0, true, 2}, {c18::idx32_hexa, 1, false, 1},
    {c18::idx32_tetra, 0, false, 2}, {c18::idx32_tetra, 1, false, 1}, {c18::idx32_tetra, 2, false, 1}};

  void dispatch(Tape& t, Ctx& c, bool big)
  {
    long tot = 0; for(auto& e : cat32) tot += e.weight;
    long r = long(t.raw() % uint32_t(tot)); size_t k = 0;
    for(; k < cat32.size(); ++k) { if(r < cat32[k].weight) break; r -= cat32[k].weight; }
    const bool flt = t.flag(1, 3) && cat32[k].has_float;
    cat32[k].fn(t, c, cat32[k].idx, flt, big);
  }
}

int main(int argc, char** argv)
{
  FEAT::Runtime::ScopeGuard guard(argc, argv);
  std::vector<Target> tg;
  tg.push_back({"idx32", [](Tape& t, Ctx& c) { dispatch(t, c, false); }, 64, 4, 20000});
  tg.push_back({"idx32-big", [](Tape& t, Ctx& c) { dispatch(t, c, true); }, 96, 5, 60000});
  tg.push_back({"blocked", [](Tape& t, Ctx& c) { c18::blocked_case(t, c, false); }, 128, 5, 20000});
  tg.push_back({"blocked-big", [](Tape& t, Ctx& c) { c18::blocked_case(t, c, true); }, 160, 6, 60000});
  return main_impl(argc, argv, tg);
}
