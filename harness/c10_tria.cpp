// C10 targets for shape Tria (own translation unit: mesh TUs compile slowly, the shapes build in parallel;
// the mesh generator mg::gen_node<Tria> is instantiated in c10_gen_tria.cpp)
#include "common/c10_core.hpp"
extern template mg::Loaded<mg::Tria> mg::gen_node<mg::Tria>(vf::Tape&, vf::Ctx&, const mg::GenOpts&, mg::GenInfo&);
void c10_register_tria(std::vector<vf::Target>& tg) { c10::register_shape<mg::Tria>(tg); }
