// C16: Burgers assemblers and jobs on 3D meshes (see c16_burgers.hpp)
#include "c16_burgers.hpp"
namespace c16 { template void burgers_spaces<Shape::Hypercube<3>>(vf::Tape&, vf::Ctx&, const RawMesh&, int); template void burgers_spaces<Shape::Simplex<3>>(vf::Tape&, vf::Ctx&, const RawMesh&, int); }
