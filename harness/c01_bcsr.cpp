// C01: block-CSR matrix-vector products for all four (blocked/plain) operand vector combinations
#include "common/lafem_gen.hpp"
#include "common/c01_core.hpp"
using namespace vf;

template<typename DT, typename IT, int H, int W> void bcsr_case(Tape& t, Ctx& c)
{
  Pat p = gen_pattern(t, 12, t.pick({3, 1, 2}));
  c.desc.set("kind", "bcsr"); c.desc.set("dt", TypeName<DT>::n()); c.desc.set("it", TypeName<IT>::n()); c.desc.set("bh", H); c.desc.set("bw", W); c.desc.set("A", p.json());
  c.label(std::string("pat:") + p.cls); c.label("block:" + std::to_string(H) + "x" + std::to_string(W));
  auto A = make_bcsr<DT, IT, H, W>(p);
  Dense Dexp = dense_of_pat<DT>(p, H, W);
  auto snap = [](const decltype(A)& m) { return snapshot(m); };
  typedef DenseVector<DT, IT> DV; typedef DenseVectorBlocked<DT, IT, H> BL; typedef DenseVectorBlocked<DT, IT, W> BR;
  auto dl = [&] { return DV(A.template rows<Perspective::pod>()); }; auto dr = [&] { return DV(A.template columns<Perspective::pod>()); };
  auto bl = [&] { return BL(A.rows()); }; auto br = [&] { return BR(A.columns()); };
  int vk = t.pick({2, 1, 1, 1});
  static const char* vkn[] = {"vec:blocked/blocked", "vec:dense/dense", "vec:blocked/dense", "vec:dense/blocked"};
  c.label(vkn[vk]); c.desc.set("vectors", vkn[vk]);
  switch(vk)
  {
  case 0: apply_case<DT>(t, c, A, Dexp, true, bl, br, snap); break;
  case 1: apply_case<DT>(t, c, A, Dexp, true, dl, dr, snap); break;
  case 2: apply_case<DT>(t, c, A, Dexp, true, bl, dr, snap); break;
  default: apply_case<DT>(t, c, A, Dexp, true, dl, br, snap); break;
  }
}

#ifndef BCSR_PART
#define BCSR_PART 0
#endif

int main(int argc, char** argv)
{
  FEAT::Runtime::ScopeGuard guard(argc, argv);
  std::vector<Target> tg;
#if BCSR_PART == 0
  tg.push_back({"bcsr_a", [](Tape& t, Ctx& c) { switch(t.pick({3, 3, 2, 2, 2})) {
    case 0: bcsr_case<double, std::uint64_t, 2, 2>(t, c); break; case 1: bcsr_case<double, std::uint64_t, 2, 3>(t, c); break;
    case 2: bcsr_case<double, std::uint64_t, 1, 1>(t, c); break; case 3: bcsr_case<float, std::uint32_t, 3, 2>(t, c); break;
    default: bcsr_case<double, std::uint64_t, 3, 3>(t, c); } }, 64, 12});
#else
  tg.push_back({"bcsr_b", [](Tape& t, Ctx& c) { switch(t.pick({3, 3, 2, 2, 2})) {
    case 0: bcsr_case<double, std::uint64_t, 3, 2>(t, c); break; case 1: bcsr_case<double, std::uint32_t, 1, 3>(t, c); break;
    case 2: bcsr_case<double, std::uint64_t, 3, 1>(t, c); break; case 3: bcsr_case<float, std::uint64_t, 2, 2>(t, c); break;
    default: bcsr_case<double, std::uint64_t, 4, 4>(t, c); } }, 64, 12});
#endif
  return main_impl(argc, argv, tg);
}
