// C13 layer (1) targets for shape Tetra (generator instantiated in c10_gen_tetra.cpp)
#include "common/c13_emul.hpp"
extern template mg::Loaded<mg::Tetra> mg::gen_node<mg::Tetra>(vf::Tape&, vf::Ctx&, const mg::GenOpts&, mg::GenInfo&);
void c13_register_tetra(std::vector<vf::Target>& tg)
{
  tg.push_back({"emul_tetra", [](vf::Tape& t, vf::Ctx& c) { switch(t.pick({3, 2, 2, 1})) {
    case 0: c13::Emul<mg::Tetra, FEAT::Space::Lagrange1::Element>::run(t, c, "lagrange1"); break;
    case 1: c13::Emul<mg::Tetra, FEAT::Space::Lagrange2::Element>::run(t, c, "lagrange2"); break;
    case 2: c13::Emul<mg::Tetra, FEAT::Space::CroRavRanTur::Element>::run(t, c, "crorav"); break;
    default: c13::Emul<mg::Tetra, c13::DiscP0>::run(t, c, "discontinuous-p0", false); } }, 192, 3, 60000});
}
