// C13 layers (2)+(3): real MPI run of discretise / operate / solve on a partitioned domain; prints partition-independent
// scalars as one JSON line from rank 0.  Built with mpicxx -DFEAT_HAVE_MPI -DFEAT3_VERIF from the tree's sources.
// The message-order hook (SynchVectorTicket::wait) is driven by --sync-seed: every sync scatters the neighbour buffers
// in a pseudo-random order derived from (seed, rank, call counter); --delay-us adds a per-rank start delay.
#include <kernel/runtime.hpp>
#include <kernel/util/simple_arg_parser.hpp>
#include <kernel/geometry/conformal_mesh.hpp>
#include <kernel/geometry/mesh_node.hpp>
#include <kernel/trafo/standard/mapping.hpp>
#include <kernel/space/lagrange1/element.hpp>
#include <kernel/space/lagrange2/element.hpp>
#include <kernel/space/discontinuous/element.hpp>
#include <kernel/global/gate.hpp>
#include <kernel/global/vector.hpp>
#include <kernel/global/matrix.hpp>
#include <kernel/lafem/sparse_matrix_bcsr.hpp>
#include <kernel/lafem/dense_vector_blocked.hpp>
#include <control/asm/gate_asm.hpp>
#include <kernel/analytic/common.hpp>
#include <kernel/assembly/common_functionals.hpp>
#include <kernel/assembly/interpolator.hpp>
#include <kernel/solver/pcg.hpp>
#include <kernel/solver/jacobi_precond.hpp>
#include <kernel/solver/richardson.hpp>
#include <kernel/solver/multigrid.hpp>
#include <kernel/util/dist.hpp>
#include <control/domain/parti_domain_control.hpp>
#include <control/scalar_basic.hpp>
#include <thread>
#include <chrono>
#include <cstdio>

namespace C13
{
  using namespace FEAT;
  static unsigned long long g_sync_seed = 0, g_sync_calls = 0; static int g_rank = 0;
  static unsigned long long mix(unsigned long long x) { x += 0x9e3779b97f4a7c15ull; x = (x ^ (x >> 30)) * 0xbf58476d1ce4e5b9ull; x = (x ^ (x >> 27)) * 0x94d049bb133111ebull; return x ^ (x >> 31); }
  static void order_hook(std::size_t* o, std::size_t n)
  {
    unsigned long long s = mix(g_sync_seed ^ mix((unsigned long long)g_rank * 1000003ull + (++g_sync_calls)));
    for(std::size_t i = n; i > 1; --i) { s = mix(s); std::swap(o[i - 1], o[(std::size_t)(s % i)]); }
  }

  template<typename Shape_, template<typename> class Elem_>
  int run(SimpleArgParser& args, const Dist::Comm& comm, const char* ename)
  {
    typedef Geometry::ConformalMesh<Shape_> MeshType; typedef Trafo::Standard::Mapping<MeshType> TrafoType; typedef Elem_<TrafoType> SpaceType;
    typedef Control::Domain::SimpleDomainLevel<MeshType, TrafoType, SpaceType> DomainLevelType;
    typedef double DataType; typedef Index IndexType;
    Control::Domain::PartiDomainControl<DomainLevelType> domain(comm, true);
    domain.parse_args(args);
    const bool use_splitter = args.check("splitter") >= 0;   // (the domain control supports kept base levels for single-layered hierarchies only)
    if(use_splitter) domain.keep_base_levels();   // rank 0 keeps the unpartitioned levels: needed by the base splitter (join/split of distributed vectors)
    domain.set_desired_levels(args.query("level")->second);
    domain.create(args.query("mesh")->second);
    domain.add_trafo_mesh_part_charts();
    typedef Control::ScalarUnitFilterSystemLevel<DataType, IndexType> SystemLevelType;
    std::deque<std::shared_ptr<SystemLevelType>> system_levels;
    const Index num_levels = domain.size_physical();
    for(Index i(0); i < num_levels; ++i) system_levels.push_back(std::make_shared<SystemLevelType>());
    const String cubature("auto-degree:5");
    for(Index i(0); i < num_levels; ++i) { domain.at(i)->domain_asm.compile_all_elements(); system_levels.at(i)->assemble_gate(domain.at(i)); }
    for(Index i(0); (i < domain.size_physical()) && ((i + 1) < domain.size_virtual()); ++i)
    {
      system_levels.at(i)->assemble_coarse_muxer(domain.at(i + 1));
      if((i + 1) < domain.size_physical()) system_levels.at(i)->assemble_transfer(*system_levels.at(i + 1), domain.at(i), domain.at(i + 1), cubature);
      else system_levels.at(i)->assemble_transfer(domain.at(i), domain.at(i + 1), cubature);
    }
    if(use_splitter) system_levels.front()->assemble_base_splitter(domain.front());
    for(Index i(0); i < num_levels; ++i) system_levels.at(i)->assemble_laplace_matrix(domain.at(i)->domain_asm, domain.at(i)->space, cubature);
    for(Index i(0); i < num_levels; ++i) system_levels.at(i)->assemble_homogeneous_unit_filter(*domain.at(i), domain.at(i)->space);

    typedef typename SystemLevelType::GlobalSystemVector GlobalSystemVector;
    auto& the_domain_level = *domain.front(); SystemLevelType& lvl = *system_levels.front();
    Analytic::Common::ExpBubbleFunction<Shape_::dimension> sol_func;
    GlobalSystemVector vec_sol = lvl.matrix_sys.create_vector_r(), vec_rhs = lvl.matrix_sys.create_vector_r(), vec_int = lvl.matrix_sys.create_vector_r(), vec_tmp = lvl.matrix_sys.create_vector_r();
    vec_sol.format(); vec_rhs.format();
    { Assembly::Common::LaplaceFunctional<decltype(sol_func)> force_func(sol_func);
      Assembly::assemble_linear_functional_vector(the_domain_level.domain_asm, vec_rhs.local(), force_func, the_domain_level.space, cubature); vec_rhs.sync_0(); }
    const double rhs_norm_unfiltered = vec_rhs.norm2();
    // interpolation of the analytic function: a consistent (type-1) vector
    Assembly::Interpolator::project(vec_int.local(), sol_func, the_domain_level.space);
    const double int_norm = vec_int.norm2();
    const double dot_int_rhs = vec_int.dot(vec_rhs);
    lvl.matrix_sys.apply(vec_tmp, vec_int);                 // distributed operator application (includes the synchronisation)
    const double aint_norm = vec_tmp.norm2();
    const double energy = vec_int.dot(vec_tmp);             // u^T A u
    // the other operator overloads against the plain product (the Laplace matrix is symmetric: A^T u = A u):
    // r <- A^T u;  r <- y + alpha A^T u and r <- y + alpha A u with y a different object than r and non-zero on the interfaces
    double at_diff = 0.0, at4_diff = 0.0, a4_diff = 0.0; const double aint_max = vec_tmp.max_abs_element();
    {
      GlobalSystemVector vt = lvl.matrix_sys.create_vector_r(), vr = lvl.matrix_sys.create_vector_r(), v4 = lvl.matrix_sys.create_vector_r();
      vt.format(-3.0); lvl.matrix_sys.apply_transposed(vt, vec_int); vt.axpy(vec_tmp, -1.0); at_diff = vt.max_abs_element();
      vr.copy(vec_int); vr.axpy(vec_tmp, -0.5);                                   // reference: u - A u / 2
      v4.format(-3.0); lvl.matrix_sys.apply_transposed(v4, vec_int, vec_int, -0.5); v4.axpy(vr, -1.0); at4_diff = v4.max_abs_element();
      v4.format(-3.0); lvl.matrix_sys.apply(v4, vec_int, vec_int, -0.5); v4.axpy(vr, -1.0); a4_diff = v4.max_abs_element();
    }
    const double maxabs = vec_int.max_abs_element();
    // a type-0 vector synchronised: local rhs contributions of each patch were summed by sync_0 above; do it once more by hand
    GlobalSystemVector vec_t0 = lvl.matrix_sys.create_vector_r(); vec_t0.format();
    { Assembly::Common::ForceFunctional<decltype(sol_func)> ff(sol_func);
      Assembly::assemble_linear_functional_vector(the_domain_level.domain_asm, vec_t0.local(), ff, the_domain_level.space, cubature); vec_t0.sync_0(); }
    const double t0_norm = vec_t0.norm2();
    const Index num_dofs = lvl.gate_sys.get_num_global_dofs();
    // a discontinuous (P0) space on the same level: its gate has no neighbour mirrors at all, yet global dots/norms
    // must still be the sums over all patches
    double p0_dot = 0.0, p0_norm = 0.0, p0_norm_async = 0.0, p0_max = 0.0; Index p0_dofs = 0;
    {
      typedef Space::Discontinuous::Element<TrafoType, Space::Discontinuous::Variant::StdPolyP<0>> P0Space;
      typedef LAFEM::DenseVector<DataType, IndexType> LV; typedef LAFEM::VectorMirror<DataType, IndexType> LM;
      P0Space p0space(the_domain_level.trafo);
      Global::Gate<LV, LM> p0gate; Control::Asm::asm_gate(domain.front(), p0space, p0gate, true);
      Global::Vector<LV, LM> pa(&p0gate, LV(p0space.get_num_dofs())), pb(&p0gate, LV(p0space.get_num_dofs()));
      Assembly::Interpolator::project(pa.local(), sol_func, p0space);
      Analytic::Common::SineBubbleFunction<Shape_::dimension> sine_func; Assembly::Interpolator::project(pb.local(), sine_func, p0space);
      p0_dot = pa.dot(pb); p0_norm = pa.norm2(); p0_norm_async = pb.norm2_async().wait(); p0_max = pa.max_abs_element(); p0_dofs = p0gate.get_num_global_dofs();
    }

    // base splitter: join the distributed type-1 vector into the undecomposed vector on the root, split it again;
    // the joined vector is the undecomposed vector (same norm), the input must not change, split(join(v)) == v, a second join gives the same
    double join_norm = 0.0, join_norm2 = 0.0, int_norm_after_join = 0.0, split_err = 0.0, aint_norm_after_join = 0.0;
    if(use_splitter)
    {
      const auto& splitter = lvl.base_splitter_sys;
      auto vec_base = splitter.join(vec_int);
      double jn = splitter.is_root() ? double(vec_base.norm2()) : 0.0; comm.allreduce(&jn, &join_norm, std::size_t(1), Dist::op_max);
      int_norm_after_join = vec_int.norm2();
      lvl.matrix_sys.apply(vec_tmp, vec_int); aint_norm_after_join = vec_tmp.norm2();
      GlobalSystemVector vec_sp = lvl.matrix_sys.create_vector_r(); vec_sp.format(-7.0);
      splitter.split(vec_sp, vec_base);
      vec_sp.axpy(vec_int, -1.0); split_err = vec_sp.max_abs_element();
      auto vec_base2 = splitter.join(vec_int);
      double jn2 = splitter.is_root() ? double(vec_base2.norm2()) : 0.0; comm.allreduce(&jn2, &join_norm2, std::size_t(1), Dist::op_max);
    }

    // type-0 -> type-1 conversion of matrices (SynchMatrix): a blocked matrix whose blocks are a_ij * B (B a fixed 2x2 block) must
    // convert to the scalar type-1 matrix (x) B entry by entry - the exchange of blocked values against the exchange of scalars
    double blk_t1_err = 0.0, t1_max = 0.0, blkv_sync_err = 0.0, blkv_max = 0.0, blkv_dot = 0.0, blkv_dot_ref = 0.0, blkv_norm = 0.0, blkv_maxabs = 0.0, blkv_maxabs_ref = 0.0;
    {
      typedef LAFEM::SparseMatrixBCSR<DataType, IndexType, 2, 2> LMB; typedef LAFEM::DenseVectorBlocked<DataType, IndexType, 2> LVB; typedef typename SystemLevelType::SystemMirror MirT;
      const auto& la = lvl.matrix_sys.local(); const Index nloc = la.rows();
      Global::Gate<LVB, MirT> gate_b; gate_b.convert(lvl.gate_sys, LVB(nloc));
      Adjacency::Graph gr(Adjacency::RenderType::as_is, la); LMB lb(gr);
      static const double B[2][2] = {{1.0, 0.5}, {-0.25, 2.0}};
      for(Index k = 0; k < la.used_elements(); ++k) for(int i = 0; i < 2; ++i) for(int j = 0; j < 2; ++j) lb.val()[k][i][j] = la.val()[k] * B[i][j];
      Global::Matrix<LMB, MirT, MirT> gmb(&gate_b, &gate_b, lb.clone());
      auto t1b = gmb.convert_to_1(); auto t1a = lvl.matrix_sys.convert_to_1();
      double em = 0.0, am = 0.0;
      for(Index k = 0; k < t1a.used_elements(); ++k) { am = std::max(am, std::fabs(double(t1a.val()[k]))); for(int i = 0; i < 2; ++i) for(int j = 0; j < 2; ++j) em = std::max(em, std::fabs(double(t1b.val()[k][i][j]) - double(t1a.val()[k]) * B[i][j])); }
      comm.allreduce(&em, &blk_t1_err, std::size_t(1), Dist::op_max); comm.allreduce(&am, &t1_max, std::size_t(1), Dist::op_max);
      // blocked vectors over the real transport: v = (r, -0.5 r) for the local (type-0) rhs contributions r; sync_0, dot, norm2 and max_abs_element
      // through the blocked gate against the scalar ones
      {
        GlobalSystemVector s0 = lvl.matrix_sys.create_vector_r(); s0.format();
        { Assembly::Common::ForceFunctional<decltype(sol_func)> fu(sol_func);
          Assembly::assemble_linear_functional_vector(the_domain_level.domain_asm, s0.local(), fu, the_domain_level.space, cubature); }
        Global::Vector<LVB, MirT> vb(&gate_b, nloc);
        for(Index i = 0; i < nloc; ++i) { Tiny::Vector<DataType, 2> t; t[0] = s0.local()(i); t[1] = -0.5 * s0.local()(i); vb.local()(i, t); }
        vb.sync_0(); s0.sync_0();
        double e2 = 0.0, m2 = 0.0;
        for(Index i = 0; i < nloc; ++i) { const double r = s0.local()(i); const auto t = vb.local()(i); m2 = std::max(m2, std::fabs(r)); e2 = std::max(e2, std::max(std::fabs(double(t[0]) - r), std::fabs(double(t[1]) + 0.5 * r))); }
        comm.allreduce(&e2, &blkv_sync_err, std::size_t(1), Dist::op_max); comm.allreduce(&m2, &blkv_max, std::size_t(1), Dist::op_max);
        blkv_dot = vb.dot(vb); blkv_dot_ref = 1.25 * s0.dot(s0); blkv_norm = vb.norm2(); blkv_maxabs = vb.max_abs_element(); blkv_maxabs_ref = s0.max_abs_element();
      }
    }

    // every synchronisation route of Global::Vector against the others and against an independent statement (seeded C13k:
    // the sync_1_async wrapper forwarded to sync_0_async): (1) sync_1 and sync_1_async().wait() leave a consistent (type-1)
    // vector unchanged; (2) on a vector that is inconsistent on the interfaces (local copy scaled by 1 + rank/4) the four routes
    // sync_1 | sync_1_async | from_1_to_0 + sync_0 | from_1_to_0 + sync_0_async agree entry by entry; (3) dot_async / norm2sqr_async
    // / norm2_async equal their blocking counterparts
    double sync_route_err = 0.0, sync_scalar_err = 0.0;
    {
      auto maxdiff = [](const GlobalSystemVector& x, const GlobalSystemVector& y) { double m = 0.0; const auto* px = x.local().elements(); const auto* py = y.local().elements();
        for(Index i = 0; i < x.local().size(); ++i) { const double dd = std::fabs(double(px[i]) - double(py[i])); if(!(dd <= m)) m = dd; } return m; };
      // wait() is called on every ticket, as documented ("a ticket that has to be waited upon") - also on the empty ticket of a gate
      // without neighbours (one process), which aborted on the pinned tree (fixed: known_findings.json)
      double e = 0.0;
      { GlobalSystemVector a = vec_int.clone(LAFEM::CloneMode::Deep), b = vec_int.clone(LAFEM::CloneMode::Deep);
        a.sync_1(); { auto tk = b.sync_1_async(); tk.wait(); }
        e = std::max(e, std::max(maxdiff(a, vec_int), maxdiff(b, vec_int))); }
      { GlobalSystemVector a = vec_int.clone(LAFEM::CloneMode::Deep); a.local().scale(a.local(), 1.0 + 0.25 * double(comm.rank()));
        GlobalSystemVector b = a.clone(LAFEM::CloneMode::Deep), c2 = a.clone(LAFEM::CloneMode::Deep), d2 = a.clone(LAFEM::CloneMode::Deep);
        a.sync_1(); { auto tk = b.sync_1_async(); tk.wait(); }
        c2.from_1_to_0(); c2.sync_0(); d2.from_1_to_0(); { auto tk = d2.sync_0_async(); tk.wait(); }
        e = std::max(e, std::max(maxdiff(b, a), std::max(maxdiff(c2, a), maxdiff(d2, a)))); }
      comm.allreduce(&e, &sync_route_err, std::size_t(1), Dist::op_max);
      const double d_b = vec_int.dot(vec_tmp), d_a = vec_int.dot_async(vec_tmp).wait(), n_b = vec_int.norm2(), n_a = vec_int.norm2_async().wait(), q_a = vec_int.norm2sqr_async().wait();
      sync_scalar_err = std::max(std::fabs(d_b - d_a) / std::max(std::fabs(d_b), 1e-300), std::max(std::fabs(n_b - n_a), std::fabs(std::sqrt(q_a) - n_b)) / std::max(n_b, 1e-300));
    }

    lvl.filter_sys.filter_sol(vec_sol); lvl.filter_sys.filter_rhs(vec_rhs);
    const double rhs_norm = vec_rhs.norm2();
    String sname = args.check("solver") > 0 ? args.query("solver")->second.front() : String("jacobi");
    std::shared_ptr<Solver::SolverBase<GlobalSystemVector>> precon;
    std::shared_ptr<Solver::MultiGridHierarchy<typename SystemLevelType::GlobalSystemMatrix, typename SystemLevelType::GlobalSystemFilter, typename SystemLevelType::GlobalSystemTransfer>> mgh;
    if(sname == "mg")
    {
      mgh = std::make_shared<Solver::MultiGridHierarchy<typename SystemLevelType::GlobalSystemMatrix, typename SystemLevelType::GlobalSystemFilter, typename SystemLevelType::GlobalSystemTransfer>>(domain.size_virtual());
      for(Index i(0); i < num_levels; ++i)
      {
        const SystemLevelType& l = *system_levels.at(i);
        auto jac = Solver::new_jacobi_precond(l.matrix_sys, l.filter_sys, 0.7); auto smoother = Solver::new_richardson(l.matrix_sys, l.filter_sys, 1.0, jac); smoother->set_min_iter(4); smoother->set_max_iter(4);
        if((i + 1) < domain.size_virtual()) mgh->push_level(l.matrix_sys, l.filter_sys, l.transfer_sys, smoother, smoother, smoother); else mgh->push_level(l.matrix_sys, l.filter_sys, smoother);
      }
      mgh->init(); precon = Solver::new_multigrid(mgh, Solver::MultiGridCycle::V);
    }
    else precon = Solver::new_jacobi_precond(lvl.matrix_sys, lvl.filter_sys, 1.0);
    auto solver = Solver::new_pcg(lvl.matrix_sys, lvl.filter_sys, precon);
    solver->set_tol_rel(1E-11); solver->set_max_iter(5000); solver->init();
    auto result = Solver::solve(*solver, vec_sol, vec_rhs, lvl.matrix_sys, lvl.filter_sys);
    const int iters = (int)solver->get_num_iter(); const double def_init = solver->get_def_initial(), def_final = solver->get_def_final();
    solver->done(); if(mgh) mgh->done();
    const double sol_norm = vec_sol.norm2();
    // true residual of the returned solution
    lvl.matrix_sys.apply(vec_tmp, vec_sol, vec_rhs, -1.0); lvl.filter_sys.filter_def(vec_tmp); const double true_res = vec_tmp.norm2();
    auto errors = Assembly::integrate_error_function<1>(the_domain_level.domain_asm, sol_func, vec_sol.local(), the_domain_level.space, cubature);
    errors.synchronize(comm);
    if(comm.rank() == 0)
    {
      std::printf("C13JSON {\"ranks\":%d,\"element\":\"%s\",\"num_dofs\":%llu,\"levels_physical\":%llu,\"levels_virtual\":%llu,\"status\":\"%s\",\"iters\":%d,"
        "\"rhs_norm_unfiltered\":%.17g,\"int_norm\":%.17g,\"dot_int_rhs\":%.17g,\"aint_norm\":%.17g,\"energy\":%.17g,\"maxabs\":%.17g,\"aint_max\":%.17g,\"at_diff\":%.17g,\"at4_diff\":%.17g,\"a4_diff\":%.17g,\"t0_norm\":%.17g,\"rhs_norm\":%.17g,"
        "\"join_norm\":%.17g,\"join_norm2\":%.17g,\"int_norm_after_join\":%.17g,\"aint_norm_after_join\":%.17g,\"split_err\":%.17g,\"blk_t1_err\":%.17g,\"t1_max\":%.17g,\"blkv_sync_err\":%.17g,\"blkv_max\":%.17g,\"blkv_dot\":%.17g,\"blkv_dot_ref\":%.17g,\"blkv_norm\":%.17g,\"blkv_maxabs\":%.17g,\"blkv_maxabs_ref\":%.17g,\"p0_dofs\":%llu,\"p0_dot\":%.17g,\"p0_norm\":%.17g,\"p0_norm_async\":%.17g,\"p0_max\":%.17g,\"def_init\":%.17g,\"def_final\":%.17g,\"true_res\":%.17g,\"sol_norm\":%.17g,\"h0_err\":%.17g,\"h1_err\":%.17g,\"sync_route_err\":%.17g,\"sync_scalar_err\":%.17g}\n",
        comm.size(), ename, (unsigned long long)num_dofs, (unsigned long long)domain.size_physical(), (unsigned long long)domain.size_virtual(), stringify(result).c_str(), iters,
        rhs_norm_unfiltered, int_norm, dot_int_rhs, aint_norm, energy, maxabs, aint_max, at_diff, at4_diff, a4_diff, t0_norm, rhs_norm, join_norm, join_norm2, int_norm_after_join, aint_norm_after_join, split_err, blk_t1_err, t1_max, blkv_sync_err, blkv_max, blkv_dot, blkv_dot_ref, blkv_norm, blkv_maxabs, blkv_maxabs_ref, (unsigned long long)p0_dofs, p0_dot, p0_norm, p0_norm_async, p0_max, def_init, def_final, true_res, sol_norm, std::sqrt((double)errors.norm_h0_sqr), std::sqrt((double)errors.norm_h1_sqr), sync_route_err, sync_scalar_err);
      std::printf("C13LEVELS desired [%s] chosen [%s]\n", domain.format_desired_levels().c_str(), domain.format_chosen_levels().c_str());
      std::printf("C13INFO %s\n", domain.get_chosen_parti_info().c_str());
      std::fflush(stdout);
    }
    return 0;
  }

  int main(int argc, char** argv)
  {
    Dist::Comm comm(Dist::Comm::world());
    SimpleArgParser args(argc, argv);
    Control::Domain::add_supported_pdc_args(args);
    args.support("mesh"); args.support("level"); args.support("shape"); args.support("space"); args.support("solver"); args.support("sync-seed"); args.support("splitter"); args.support("delay-us");
    g_rank = comm.rank();
    if(args.check("sync-seed") > 0) { args.parse("sync-seed", g_sync_seed); if(g_sync_seed != 0) FEAT::Verif::sync_order_hook = &order_hook; }
    if(args.check("delay-us") > 0) { unsigned long long d = 0; args.parse("delay-us", d); if(d > 0) std::this_thread::sleep_for(std::chrono::microseconds(mix(d ^ (unsigned long long)g_rank) % (d + 1))); }
    String shape = args.query("shape")->second.front(), space = args.check("space") > 0 ? args.query("space")->second.front() : String("q1");
    if(shape == "quad") return (space == "q2") ? run<Shape::Hypercube<2>, Space::Lagrange2::Element>(args, comm, "lagrange2") : run<Shape::Hypercube<2>, Space::Lagrange1::Element>(args, comm, "lagrange1");
    if(shape == "tria") return (space == "q2") ? run<Shape::Simplex<2>, Space::Lagrange2::Element>(args, comm, "lagrange2") : run<Shape::Simplex<2>, Space::Lagrange1::Element>(args, comm, "lagrange1");
    if(shape == "hexa") return run<Shape::Hypercube<3>, Space::Lagrange1::Element>(args, comm, "lagrange1");
    std::fprintf(stderr, "unknown shape\n"); return 2;
  }
}

int main(int argc, char* argv[])
{
  FEAT::Runtime::ScopeGuard runtime_scope_guard(argc, argv);
  try { return C13::main(argc, argv); }
  catch(const std::exception& exc) { std::cerr << "ERROR: unhandled exception: " << exc.what() << std::endl; FEAT::Runtime::abort(); }
  return 0;
}
