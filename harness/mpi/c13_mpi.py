#!/usr/bin/env python3
"""C13 layers (2)+(3): Hypothesis generates (mesh, levels, element, process count, partitioner options, solver, message-order
seed, start delay); each example runs `mpirun -n N c13_mpi ...` and compares the partition-independent scalars printed by
rank 0 with the one-process run of the same discretisation (same mesh, same finest level, same element), cached per key.
Same result-JSON contract as vf::main_impl (see HARNESS_GUIDE.md)."""
import sys, os, json, argparse, subprocess, hashlib, re, time, math
sys.path.insert(0, "/opt/veriftools/pyvenv/lib/python3.11/site-packages")
from hypothesis import given, settings, seed as hseed, strategies as st, HealthCheck, Phase
import hypothesis

MESHES = [  # (file, shape, max finest level, spaces)
    ("unit-square-quad.xml", "quad", 4, ["q1", "q2"]), ("l-shape-quad.xml", "quad", 3, ["q1", "q2"]), ("unit_circle_quad_12.xml", "quad", 3, ["q1"]),
    ("unit-square-tria.xml", "tria", 4, ["q1", "q2"]), ("l-shape-tria.xml", "tria", 3, ["q1"]), ("unit_circle_tria_6.xml", "tria", 3, ["q1"]),
    ("unit-cube-hexa.xml", "hexa", 2, ["q1"]),
]
NPROCS = [1, 2, 3, 4, 5, 7, 8, 16]
# relative tolerances: quantities before the solve only see summation-order rounding; after the solve the PCG tolerance
# (1e-11 relative defect) times the condition number enters
TOL = {"rhs_norm_unfiltered": 1e-12, "int_norm": 1e-12, "dot_int_rhs": 1e-12, "aint_norm": 1e-12, "energy": 1e-12, "maxabs": 1e-14, "t0_norm": 1e-12, "rhs_norm": 1e-12,
       "def_init": 1e-12, "p0_dot": 1e-12, "p0_norm": 1e-12, "p0_norm_async": 1e-12, "p0_max": 1e-14, "sol_norm": 1e-7, "h0_err": 1e-5, "h1_err": 1e-6}


def run_mpi(binp, root, n, mesh, levels, shape, space, solver, extra, timeout=300):
    cmd = ["mpirun", "--allow-run-as-root", "--oversubscribe", "-n", str(n), binp, "--mesh", os.path.join(root, "data/meshes", mesh), "--level"] + levels.split() + ["--shape", shape, "--space", space, "--solver", solver] + extra
    env = dict(os.environ); env["OMP_NUM_THREADS"] = "1"; env.pop("MALLOC_PERTURB_", None); env.pop("GLIBC_TUNABLES", None)
    try:
        p = subprocess.run(cmd, stdout=subprocess.PIPE, stderr=subprocess.PIPE, env=env, timeout=timeout, errors="replace")
    except subprocess.TimeoutExpired:
        return None, "hang", " ".join(cmd)
    m = re.search(r"C13JSON (\{.*\})", p.stdout)
    if "Failed to find a suitable partitioning" in (p.stdout + p.stderr):
        return None, "parti-failed", " ".join(cmd)   # the control layer reports that no partitioning exists for this request: legitimate
    if p.returncode != 0 or not m:
        msg = (p.stderr or p.stdout)[-600:].replace("\n", " ")
        return None, "crash rc=%s: %s" % (p.returncode, msg), " ".join(cmd)
    d = json.loads(m.group(1))
    lv = re.search(r"C13LEVELS desired \[(.*?)\] chosen \[(.*?)\]", p.stdout)
    d["chosen_levels"] = lv.group(2) if lv else ""
    return d, None, " ".join(cmd)


def main():
    ap = argparse.ArgumentParser()
    for a in ("--bin", "--verif", "--root", "--build", "--target", "--out", "--replay", "--replay-dir", "--exclude", "--tier"):
        ap.add_argument(a)
    ap.add_argument("--cases", type=int, default=40); ap.add_argument("--max-size", type=int, default=100); ap.add_argument("--seed", type=int, default=1)
    a = ap.parse_args()
    t0 = time.time()
    refcache = {}
    stats = {"evaluations": 0, "nontrivial": 0, "classes": {}, "samples": [], "hashes": set()}
    failure = {}

    def reference(mesh, top, shape, space, solver):
        key = (mesh, top, shape, space, solver)
        if key not in refcache:
            refcache[key] = run_mpi(a.bin, a.root, 1, mesh, "%d 0" % top if top > 0 else "0", shape, space, solver, [])
        return refcache[key]

    def evaluate(case):
        mesh, shape, space, n, levels, solver, extra = case["mesh"], case["shape"], case["space"], case["n"], case["levels"], case["solver"], case["extra"]
        d, err, cmd = run_mpi(a.bin, a.root, n, mesh, levels, shape, space, solver, extra)
        if err == "hang":   # deadlock must reproduce 3/3 to count
            again = [run_mpi(a.bin, a.root, n, mesh, levels, shape, space, solver, extra)[1] for _ in range(2)]
            if all(x == "hang" for x in again):
                return "hang: no result within the watchdog, 3 of 3 runs (%s)" % cmd
            return None
        if err == "parti-failed":
            stats["classes"]["partitioning-reported-failure"] = stats["classes"].get("partitioning-reported-failure", 0) + 1
            case["_skipped"] = True
            return None
        if err:
            return err + " (" + cmd + ")"
        top = int(re.findall(r"\d+", d["chosen_levels"])[0]) if d.get("chosen_levels") else int(levels.split()[0])
        r, rerr, rcmd = reference(mesh, top, shape, space, solver)
        if rerr:
            return "one-process reference failed: " + rerr
        if r.get("p0_dofs") != d.get("p0_dofs"):
            return "number of global P0 dofs %s differs from the one-process run %s" % (d.get("p0_dofs"), r.get("p0_dofs"))
        if r["num_dofs"] != d["num_dofs"]:
            return "number of global dofs %s differs from the one-process run %s" % (d["num_dofs"], r["num_dofs"])
        if d["status"] != "success" or r["status"] != "success":
            return "solver status %s (one process: %s)" % (d["status"], r["status"])
        for k, tol in TOL.items():
            scale = max(abs(r[k]), 1e-300)
            if not (abs(d[k] - r[k]) <= tol * scale):
                return "%s = %.17g on %d processes, %.17g on one (rel. diff %.3g > %.1g)" % (k, d[k], n, r[k], abs(d[k] - r[k]) / scale, tol)
        # operator overloads: A^T u, y + alpha A^T u, y + alpha A u (y != r) equal the plain product (symmetric matrix) entry by entry
        for k in ("at_diff", "at4_diff", "a4_diff"):
            if not (d[k] <= 1e-12 * max(d["aint_max"], d["maxabs"], 1e-300)):
                return "%s = %.3g: the overload differs from the plain distributed product (max |A u| = %.3g) on %d processes" % (k, d[k], d["aint_max"], n)
        # synchronisation routes of Global::Vector (sync_1 / sync_1_async / from_1_to_0 + sync_0 / + sync_0_async) and async scalars
        if not (d["sync_route_err"] <= 1e-13 * max(d["maxabs"], 1e-300)):
            return "sync_1 / sync_1_async / from_1_to_0+sync_0(_async) disagree (or change a consistent vector) by %.3g (max |v| = %.3g) on %d processes" % (d["sync_route_err"], d["maxabs"], n)
        if not (d["sync_scalar_err"] <= 1e-13):
            return "dot_async / norm2_async / norm2sqr_async differ from the blocking calls (rel. %.3g) on %d processes" % (d["sync_scalar_err"], n)
        # blocked type-1 matrix == scalar type-1 matrix (x) B
        if not (d["blk_t1_err"] <= 1e-13 * max(d["t1_max"], 1e-300)):
            return "blocked convert_to_1 differs from the scalar type-1 matrix (x) B by %.3g (max entry %.3g) on %d processes" % (d["blk_t1_err"], d["t1_max"], n)
        # blocked vector (r, -0.5 r) through the blocked gate against the scalar vector r
        if not (d["blkv_sync_err"] <= 1e-13 * max(d["blkv_max"], 1e-300)):
            return "blocked sync_0 differs from the scalar sync_0 by %.3g (max entry %.3g) on %d processes" % (d["blkv_sync_err"], d["blkv_max"], n)
        if not (abs(d["blkv_dot"] - d["blkv_dot_ref"]) <= 1e-12 * abs(d["blkv_dot_ref"]) and abs(d["blkv_norm"] ** 2 - d["blkv_dot_ref"]) <= 1e-12 * abs(d["blkv_dot_ref"])):
            return "blocked dot/norm2 %.17g / %.17g^2 differ from 1.25 * scalar dot %.17g on %d processes" % (d["blkv_dot"], d["blkv_norm"], d["blkv_dot_ref"], n)
        if not (abs(d["blkv_maxabs"] - d["blkv_maxabs_ref"]) <= 1e-14 * abs(d["blkv_maxabs_ref"])):
            return "blocked max_abs_element %.17g differs from the scalar one %.17g on %d processes" % (d["blkv_maxabs"], d["blkv_maxabs_ref"], n)
        # base splitter (join/split): the joined vector is the undecomposed one, the input is left alone, split inverts join
        for k, ref in (("join_norm", "int_norm"), ("join_norm2", "int_norm"), ("int_norm_after_join", "int_norm"), ("aint_norm_after_join", "aint_norm")) if case.get("splitter") else ():
            if not (abs(d[k] - d[ref]) <= 1e-12 * max(abs(d[ref]), 1e-300)):
                return "%s = %.17g differs from %s = %.17g of the same run on %d processes" % (k, d[k], ref, d[ref], n)
        if case.get("splitter") and not (d["split_err"] <= 1e-13 * max(d["maxabs"], 1e-300)):
            return "split(join(v)) differs from v by %.3g (max |v| = %.3g) on %d processes" % (d["split_err"], d["maxabs"], n)
        if solver == "jacobi" and abs(d["iters"] - r["iters"]) > 2:
            return "PCG-Jacobi needs %d iterations on %d processes, %d on one" % (d["iters"], n, r["iters"])
        if d["true_res"] > 1e-8 * max(d["def_init"], 1e-300):
            return "true residual %.3g of the returned solution is not small (initial defect %.3g)" % (d["true_res"], d["def_init"])
        return None

    if a.replay:
        case = json.load(open(a.replay))["case"]
        msg = evaluate(case)
        json.dump({"mode": "replay", "target": "mpi", "verdict": "fail" if msg else "ok", "symptom": ("mismatch:" + msg) if msg else "", "op": "mpi-run"}, open(a.out, "w"))
        return 1 if msg else 0

    @st.composite
    def cases(draw):
        mesh, shape, maxlvl, spaces = draw(st.sampled_from(MESHES))
        space = draw(st.sampled_from(spaces))
        n = draw(st.sampled_from(NPROCS))
        top = draw(st.integers(min_value=max(1, maxlvl - 2), max_value=maxlvl if space == "q1" else maxlvl - 1))
        levels = "%d 0" % top
        layered = False
        if n >= 4 and top >= 3 and draw(st.booleans()):   # multi-layered hierarchy: coarser levels on fewer processes
            mid = draw(st.integers(min_value=1, max_value=top - 1)); sub = draw(st.sampled_from([x for x in (2, 3, 4) if x < n and n % x == 0] or [1]))
            if sub > 1:
                levels = "%d %d:%d 0" % (top, mid, sub); layered = True
        solver = draw(st.sampled_from(["jacobi", "jacobi", "mg"]))
        extra = []
        pt = draw(st.sampled_from(["default", "2level", "naive", "genetic"]))
        if pt == "2level": extra += ["--parti-type", "2level"]
        elif pt == "naive": extra += ["--parti-type", "naive"]
        elif pt == "genetic": extra += ["--parti-type", "genetic", "naive", "--parti-genetic-time", "0.05", "0.05"]
        if draw(st.booleans()): extra += ["--parti-rank-elems", str(draw(st.sampled_from([1, 2, 4])))]
        sync = draw(st.integers(min_value=0, max_value=10 ** 6)) if draw(st.booleans()) else 0
        if sync: extra += ["--sync-seed", str(sync)]
        splitter = (not layered) and draw(st.booleans())   # kept base levels exist for single-layered hierarchies only
        if splitter: extra += ["--splitter"]
        delay = draw(st.sampled_from([0, 0, 2000, 20000]))
        if delay: extra += ["--delay-us", str(delay)]
        return {"mesh": mesh, "shape": shape, "space": space, "n": n, "levels": levels, "solver": solver, "extra": extra, "layered": layered, "parti": pt, "sync": bool(sync), "delay": delay, "splitter": splitter}

    def body(case):
        stats["evaluations"] += 1
        msg = evaluate(case)
        nt = case["n"] >= 2 and not case.pop("_skipped", False)
        if nt:
            stats["nontrivial"] += 1; stats["hashes"].add(hashlib.sha1(json.dumps(case, sort_keys=True).encode()).hexdigest()[:16])
        for lab in ("n:%d" % case["n"], "shape:" + case["shape"], "space:" + case["space"], "solver:" + case["solver"], "parti:" + case["parti"], "layered" if case["layered"] else "single-layer", "msg-order:permuted" if case["sync"] else "msg-order:arrival", "splitter:join+split" if case.get("splitter") else "splitter:off", "delay:%d" % case["delay"]):
            stats["classes"][lab] = stats["classes"].get(lab, 0) + 1
        if len(stats["samples"]) < 8 and nt:
            stats["samples"].append({"label": "n:%d" % case["n"], "case": case})
        if msg:
            LAST["case"] = case      # Hypothesis replays the minimal failing example last
            raise AssertionError(msg)

    test = settings(max_examples=a.cases, database=None, deadline=None, derandomize=False, report_multiple_bugs=False, suppress_health_check=list(HealthCheck),
                    phases=[Phase.generate, Phase.shrink])(hseed(a.seed)(given(cases())(body)))
    res = {"mode": "search", "target": "mpi", "seed": a.seed}
    rc = 0
    try:
        test()
    except AssertionError as e:
        rc = 1
        res["failure_msg"] = str(e).split("\n")[0]
    except Exception as e:  # pragma: no cover
        rc = 1; res["failure_msg"] = "driver error: %r" % (e,)
    res.update({"evaluations": stats["evaluations"], "nontrivial": stats["nontrivial"], "distinct_nontrivial": len(stats["hashes"]), "discards": 0, "classes": stats["classes"], "excluded": {},
                "samples": stats["samples"], "nt_hashes": sorted(stats["hashes"])})
    if rc:
        lc = LAST.get("case")
        rp = os.path.join(a.replay_dir, "mpi-%s.json" % hashlib.sha1(json.dumps(lc, sort_keys=True).encode()).hexdigest()[:16])
        json.dump({"target": "mpi", "case": lc, "symptom": res["failure_msg"]}, open(rp, "w"))
        nf = sum(1 for _ in range(3) if evaluate(lc))
        res["failure"] = {"symptom": "mismatch:" + res["failure_msg"], "op": "mpi-run", "sym_key": "mismatch@mpi-run", "replay": rp, "confirmed": nf, "desc": lc}
    res["wall_s"] = time.time() - t0
    json.dump(res, open(a.out, "w"))
    return rc


LAST = {}
if __name__ == "__main__":
    sys.exit(main())
