// C04 (part 2): SparseVector / SparseVectorBlocked behave like their dense expansion (absent entries are zeros)
// after any insertion order incl. duplicate insertions; per-component "_blocked" operations of DenseVectorBlocked.
#include "common/lafem_gen.hpp"
#include "common/c01_core.hpp"
#include <kernel/lafem/sparse_vector.hpp>
#include <kernel/lafem/sparse_vector_blocked.hpp>
#include <kernel/adjacency/permutation.hpp>
using namespace vf;

template<typename DT, typename IT> static void sparse_case(Tape& t, Ctx& c)
{
  long n = t.sized(1, 40, 3);
  int nins = t.sized(0, 50, 3);
  int vcls = t.pick({3, 1, 2});
  bool dups = t.flag(1, 3);
  int op = t.range(0, 6); static const char* opn[] = {"lookup", "max_abs_element", "min_abs_element", "max_element", "min_element", "permute", "clone+convert"};
  // insertion list: distinct indices in generated order, optionally with duplicates (same index again, other value)
  std::vector<std::pair<long, double>> ins; std::vector<char> used((size_t)n, 0);
  for(int k = 0; k < nins; ++k)
  {
    long idx = t.range(0, (int)n - 1);
    if(used[(size_t)idx] && !dups) { long j = idx; do { j = (j + 1) % n; } while(used[(size_t)j] && j != idx); if(used[(size_t)j]) break; idx = j; }
    used[(size_t)idx] = 1; ins.push_back({idx, t.real(vcls)});
  }
  // known finding switch: min/max on sparse vectors scan size() slots of the stored-values array
  if(op >= 1 && op <= 4 && c.excl("c04-sparse-minmax")) op = 0;
  c.desc.set("kind", "sparse"); c.desc.set("dt", TypeName<DT>::n()); c.desc.set("size", n); c.desc.set("op", opn[op]);
  { J a = J::arr(); for(auto& p : ins) { J e = J::arr(); e.add(p.first); e.add(p.second); a.add(e); } c.desc.set("insertions", a); }
  c.op = opn[op]; c.label(std::string("op:") + opn[op]); c.label(dups ? "duplicates:allowed" : "duplicates:none"); c.label(ins.empty() ? "stored:none" : ((long)ins.size() >= n ? "stored:many" : "stored:some"));
  // model: per index the set of admissible values (every value inserted for it; which duplicate survives is unspecified)
  std::vector<std::vector<long double>> adm((size_t)n);
  for(auto& p : ins) adm[(size_t)p.first].push_back((long double)DT(p.second));
  bool has_dup = false; for(auto& a : adm) if(a.size() > 1) has_dup = true;
  if(has_dup) c.label("has-duplicate-insertion");
  c.nontrivial = ins.size() >= 2;
  c.announce();
  SparseVector<DT, IT> v((Index)n);
  for(auto& p : ins) v((Index)p.first, DT(p.second));
  VF_CHECK((long)v.size() == n, "size changed by insertion");
  // dense expansion through lookup
  auto expand = [&](const SparseVector<DT, IT>& w, std::vector<long double>& out) { out.clear(); for(long i = 0; i < n; ++i) out.push_back((long double)w((Index)i)); };
  std::vector<long double> e; expand(v, e);
  for(long i = 0; i < n; ++i)
  {
    if(adm[(size_t)i].empty()) VF_CHECK(e[(size_t)i] == 0, "absent entry " << i << " reads " << (double)e[(size_t)i]);
    else VF_CHECK(std::find(adm[(size_t)i].begin(), adm[(size_t)i].end(), e[(size_t)i]) != adm[(size_t)i].end(), "entry " << i << " reads " << (double)e[(size_t)i] << " which was never inserted there");
  }
  // structural: after lookup (which sorts) indices strictly increasing, used_elements == number of distinct indices
  long distinct = 0; for(auto& a : adm) if(!a.empty()) ++distinct;
  VF_CHECK((long)v.used_elements() == distinct, "used_elements " << v.used_elements() << " expected " << distinct << " distinct indices");
  for(Index k = 1; k < v.used_elements(); ++k) VF_CHECK(v.indices()[k - 1] < v.indices()[k], "indices not strictly increasing after sort");
  switch(op)
  {
  case 1: { long double ref = 0; for(auto x : e) ref = std::max(ref, fabsl(x)); long double got = (long double)v.max_abs_element(); VF_CHECK(got == ref, "max_abs_element returned " << (double)got << " expected " << (double)ref); break; }
  case 2: { long double ref = fabsl(e[0]); for(auto x : e) ref = std::min(ref, fabsl(x)); long double got = (long double)v.min_abs_element(); VF_CHECK(got == ref, "min_abs_element returned " << (double)got << " expected " << (double)ref); break; }
  case 3: { long double ref = e[0]; for(auto x : e) ref = std::max(ref, x); long double got = (long double)v.max_element(); VF_CHECK(got == ref, "max_element returned " << (double)got << " expected " << (double)ref); break; }
  case 4: { long double ref = e[0]; for(auto x : e) ref = std::min(ref, x); long double got = (long double)v.min_element(); VF_CHECK(got == ref, "min_element returned " << (double)got << " expected " << (double)ref); break; }
  case 5: { std::vector<Index> pos((size_t)n); for(long i = 0; i < n; ++i) pos[(size_t)i] = (Index)i; for(long i = n; i > 1; --i) std::swap(pos[(size_t)i - 1], pos[(size_t)t.range(0, (int)i - 1)]);
            Adjacency::Permutation P((Index)n, Adjacency::Permutation::ConstrType::perm, pos.data()); v.permute(P);
            std::vector<long double> f; expand(v, f); for(long i = 0; i < n; ++i) VF_CHECK(f[(size_t)i] == e[(size_t)pos[(size_t)i]], "permute: entry " << i << " = " << (double)f[(size_t)i] << " expected old entry " << pos[(size_t)i] << " = " << (double)e[(size_t)pos[(size_t)i]]);
            break; }
  case 6: { SparseVector<DT, IT> cl = v.clone(CloneMode::Deep); std::vector<long double> f; expand(cl, f); VF_CHECK(f == e, "deep clone differs");
            cl((Index)0, DT(99)); std::vector<long double> g; expand(v, g); VF_CHECK(g == e, "writing to a deep clone changed the source");
            SparseVector<float, std::uint32_t> cv; cv.convert(v); VF_CHECK((long)cv.size() == n, "converted vector has a different size");
            for(long i = 0; i < n; ++i) VF_CHECK((long double)cv((Index)i) == (long double)(float)(DT)e[(size_t)i], "convert<float,u32>: entry " << i << " differs");
            break; }
  default: break;
  }
}

template<int B> static void sparse_blocked_case(Tape& t, Ctx& c)
{
  typedef double DT; typedef Index IT; typedef Tiny::Vector<DT, B> VT;
  long n = t.sized(1, 24, 3); int nins = t.sized(0, 30, 3); int vcls = t.pick({3, 1, 2});
  int op = t.range(0, 4); static const char* opn[] = {"lookup", "max_abs_element", "min_abs_element", "max_element", "min_element"};
  std::vector<long> idxs; std::vector<std::vector<double>> vals; std::vector<char> used((size_t)n, 0);
  for(int k = 0; k < nins; ++k) { long idx = t.range(0, (int)n - 1); if(used[(size_t)idx]) continue; used[(size_t)idx] = 1; idxs.push_back(idx); std::vector<double> b; for(int j = 0; j < B; ++j) b.push_back(t.real(vcls)); vals.push_back(b); }
  if(op >= 1 && c.excl("c04-sparse-blocked-minmax")) op = 0;
  c.desc.set("kind", "sparse_blocked<" + std::to_string(B) + ">"); c.desc.set("size", n); c.desc.set("op", opn[op]);
  { J a = J::arr(); for(size_t k = 0; k < idxs.size(); ++k) { J e = J::arr(); e.add(idxs[k]); e.add(J(vals[k])); a.add(e); } c.desc.set("insertions", a); }
  c.op = std::string(opn[op]) + "@blocked"; c.label(std::string("op:") + opn[op]); c.label(idxs.empty() ? "stored:none" : "stored:some");
  c.nontrivial = idxs.size() >= 2; c.announce();
  SparseVectorBlocked<DT, IT, B> v((Index)n);
  for(size_t k = 0; k < idxs.size(); ++k) { VT b; for(int j = 0; j < B; ++j) b[j] = vals[k][(size_t)j]; v((Index)idxs[k], b); }
  std::vector<long double> e((size_t)(n * B), 0.0L);
  for(size_t k = 0; k < idxs.size(); ++k) for(int j = 0; j < B; ++j) e[(size_t)(idxs[k] * B + j)] = vals[k][(size_t)j];
  for(long i = 0; i < n; ++i) { VT b = v((Index)i); for(int j = 0; j < B; ++j) VF_CHECK((long double)b[j] == e[(size_t)(i * B + j)], "entry (" << i << "," << j << ") reads " << b[j] << " expected " << (double)e[(size_t)(i * B + j)]); }
  VF_CHECK(v.used_elements() == idxs.size(), "used_elements " << v.used_elements() << " expected " << idxs.size());
  switch(op)
  {
  case 1: { long double ref = 0; for(auto x : e) ref = std::max(ref, fabsl(x)); long double got = (long double)v.max_abs_element(); VF_CHECK(got == ref, "max_abs_element returned " << (double)got << " expected " << (double)ref); break; }
  case 2: { long double ref = fabsl(e[0]); for(auto x : e) ref = std::min(ref, fabsl(x)); long double got = (long double)v.min_abs_element(); VF_CHECK(got == ref, "min_abs_element returned " << (double)got << " expected " << (double)ref); break; }
  case 3: { long double ref = e[0]; for(auto x : e) ref = std::max(ref, x); long double got = (long double)v.max_element(); VF_CHECK(got == ref, "max_element returned " << (double)got << " expected " << (double)ref); break; }
  case 4: { long double ref = e[0]; for(auto x : e) ref = std::min(ref, x); long double got = (long double)v.min_element(); VF_CHECK(got == ref, "min_element returned " << (double)got << " expected " << (double)ref); break; }
  default: break;
  }
}

/// per-component ("_blocked") operations of DenseVectorBlocked: one value per block component
template<int B> static void blocked_ops_case(Tape& t, Ctx& c)
{
  typedef double DT; typedef Index IT; typedef DenseVectorBlocked<DT, IT, B> V; typedef Tiny::Vector<DT, B> VT;
  long n = t.sized(0, 20, 3); int vcls = t.pick({3, 1, 3, 1});
  int op = t.range(0, 9); static const char* opn[] = {"axpy_blocked", "scale_blocked", "dot_blocked", "triple_dot_blocked", "norm2_blocked", "norm2sqr_blocked", "max_abs_element_blocked", "min_abs_element_blocked", "max_element_blocked", "min_element_blocked"};
  int als = (op <= 3) ? t.range(0, (op == 3) ? 4 : 1) : 0;   // 0 none, 1 r==x, 2 r==y, 3 x==y, 4 all (triple dot only)
  if(op >= 6 && n == 0) op = 4;   // min/max undefined on an empty vector
  std::vector<double> rv = gen_values(t, (size_t)(n * B), vcls), xv = gen_values(t, (size_t)(n * B), vcls), yv = gen_values(t, (size_t)(n * B), vcls), av = gen_values(t, (size_t)B, 2);
  c.desc.set("kind", "blocked<" + std::to_string(B) + ">"); c.desc.set("n", n); c.desc.set("op", opn[op]); c.desc.set("alias", als); c.desc.set("r", J(rv)); c.desc.set("x", J(xv)); c.desc.set("y", J(yv)); c.desc.set("alpha", J(av));
  c.op = opn[op]; c.label(std::string("op:") + opn[op]); c.label("alias:" + std::to_string(als)); c.nontrivial = n >= 2;
  V r((Index)n), x((Index)n), y((Index)n); vfill_all(r, rv); vfill_all(x, xv); vfill_all(y, yv);
  V& X = (als == 1 || als == 4) ? r : x; V& Y = (als == 2 || als == 4) ? r : (als == 3 ? X : y);
  std::vector<long double> R0, X0, Y0; vflat(r, R0); vflat(X, X0); vflat(Y, Y0);
  VT alpha; for(int j = 0; j < B; ++j) alpha[j] = av[(size_t)j];
  const long double u = unit_roundoff<DT>(), tiny = 16.0L * (long double)std::numeric_limits<DT>::min();
  c.announce();
  if(op <= 1)
  {
    if(op == 0) r.axpy_blocked(X, alpha); else r.scale_blocked(X, alpha);
    std::vector<long double> R1; vflat(r, R1);
    for(long i = 0; i < n; ++i) for(int j = 0; j < B; ++j)
    {
      size_t k = (size_t)(i * B + j); long double a = (long double)alpha[j];
      long double ref = (op == 0) ? R0[k] + a * X0[k] : a * X0[k]; long double sa = (op == 0) ? fabsl(R0[k]) + fabsl(a * X0[k]) : fabsl(a * X0[k]);
      VF_CHECK(fabsl(R1[k] - ref) <= 32.0L * u * sa + tiny, opn[op] << " entry (" << i << "," << j << "): got " << (double)R1[k] << " expected " << (double)ref);
    }
    return;
  }
  VT res;
  switch(op) { case 2: res = r.dot_blocked(X); break; case 3: res = r.triple_dot_blocked(X, Y); break; case 4: res = r.norm2_blocked(); break; case 5: res = r.norm2sqr_blocked(); break;
    case 6: res = r.max_abs_element_blocked(); break; case 7: res = r.min_abs_element_blocked(); break; case 8: res = r.max_element_blocked(); break; default: res = r.min_element_blocked(); }
  for(int j = 0; j < B; ++j)
  {
    long double ref = 0, sa = 0;
    for(long i = 0; i < n; ++i)
    {
      size_t k = (size_t)(i * B + j); long double a = R0[k];
      switch(op)
      {
      case 2: ref += a * X0[k]; sa += fabsl(a * X0[k]); break; case 3: ref += a * X0[k] * Y0[k]; sa += fabsl(a * X0[k] * Y0[k]); break;
      case 4: case 5: ref += a * a; sa += a * a; break;
      case 6: ref = (i == 0) ? fabsl(a) : std::max(ref, fabsl(a)); break; case 7: ref = (i == 0) ? fabsl(a) : std::min(ref, fabsl(a)); break;
      case 8: ref = (i == 0) ? a : std::max(ref, a); break; default: ref = (i == 0) ? a : std::min(ref, a); break;
      }
    }
    if(op == 4) { ref = sqrtl(ref); sa = ref; }
    long double got = (long double)res[j];
    if(op >= 6) VF_CHECK(got == ref, opn[op] << " component " << j << ": got " << (double)got << " expected " << (double)ref);
    else VF_CHECK(std::isfinite((double)got) && fabsl(got - ref) <= 8.0L * (long double)(n + 4) * u * sa + tiny, opn[op] << " component " << j << ": got " << (double)got << " expected " << (double)ref);
  }
}

int main(int argc, char** argv)
{
  FEAT::Runtime::ScopeGuard guard(argc, argv);
  std::vector<Target> tg;
  tg.push_back({"sparse", [](Tape& t, Ctx& c) { if(t.flag(1, 3)) sparse_case<float, std::uint32_t>(t, c); else sparse_case<double, std::uint64_t>(t, c); }, 64, 6});
  tg.push_back({"sparse_blocked", [](Tape& t, Ctx& c) { if(t.flag()) sparse_blocked_case<2>(t, c); else sparse_blocked_case<3>(t, c); }, 64, 8});
  tg.push_back({"blocked_ops", [](Tape& t, Ctx& c) { switch(t.pick({2, 2, 1, 1})) { case 0: blocked_ops_case<2>(t, c); break; case 1: blocked_ops_case<3>(t, c); break; case 2: blocked_ops_case<1>(t, c); break; default: blocked_ops_case<4>(t, c); } }, 64, 10});
  return main_impl(argc, argv, tg);
}
