// C12 targets for shape Quad (the mesh generator mg::gen_node<Quad> is instantiated in c10_gen_quad.cpp)
#include "common/c12_core.hpp"
extern template mg::Loaded<mg::Quad> mg::gen_node<mg::Quad>(vf::Tape&, vf::Ctx&, const mg::GenOpts&, mg::GenInfo&);
void c12_register_quad(std::vector<vf::Target>& tg) { c12::register_shape<mg::Quad>(tg); }
