// c16_mesh.hpp - C16's own small mesh construction, exact polynomial integration (oracle side) and
// polynomial analytic functions (feat3 side).  Deliberately independent of feat3's cubature, trafo and
// basis functions: the oracle integrates polynomials with its own Gauss-Legendre rule in long double
// over cells described only by their vertex coordinates (simplex: affine map, hypercube: multilinear map).
#pragma once
#include "common/vf.hpp"
#include <kernel/runtime.hpp>
#include <kernel/shape.hpp>
#include <kernel/geometry/conformal_mesh.hpp>
#include <kernel/analytic/function.hpp>
#include <array>
#include <memory>

namespace c16
{
  using namespace FEAT;
  typedef long double LD;

  // ------------------------------------------------------------------------------------------------
  // Gauss-Legendre rule on [0,1] in long double (own Newton iteration, no feat3 tables)
  // ------------------------------------------------------------------------------------------------
  struct Gauss1D { std::vector<LD> x, w; };
  inline const Gauss1D& gauss01(int n)
  {
    static std::map<int, Gauss1D> cache;
    auto it = cache.find(n); if(it != cache.end()) return it->second;
    Gauss1D g; g.x.resize((size_t)n); g.w.resize((size_t)n);
    const LD pi = 3.14159265358979323846264338327950288L;
    for(int i = 0; i < n; ++i)
    {
      LD z = std::cos(pi * (LD(i) + 0.75L) / (LD(n) + 0.5L)), pp = 0;
      for(int it2 = 0; it2 < 100; ++it2)
      {
        LD p1 = 1, p2 = 0;
        for(int j = 1; j <= n; ++j) { LD p3 = p2; p2 = p1; p1 = ((2 * j - 1) * z * p2 - (j - 1) * p3) / j; }
        pp = n * (z * p1 - p2) / (z * z - 1);
        LD dz = p1 / pp; z -= dz; if(fabsl(dz) < 1e-19L) break;
      }
      // recompute derivative at the converged node
      { LD p1 = 1, p2 = 0; for(int j = 1; j <= n; ++j) { LD p3 = p2; p2 = p1; p1 = ((2 * j - 1) * z * p2 - (j - 1) * p3) / j; } pp = n * (z * p1 - p2) / (z * z - 1); }
      g.x[(size_t)i] = (1 - z) / 2; g.w[(size_t)i] = 1 / ((1 - z * z) * pp * pp);
    }
    return cache[n] = g;
  }

  // ------------------------------------------------------------------------------------------------
  // raw mesh: vertices + vertices-at-cell, built by construction from the tape
  // ------------------------------------------------------------------------------------------------
  struct RawMesh
  {
    int dim = 2; bool simplex = false;
    std::vector<std::array<double, 3>> vtx;
    std::vector<std::vector<int>> cells;
    bool cells_affine = true;    // every cell is the affine image of the reference cell (always true for simplices)
    bool axis_aligned = true;    // hypercube cells are axis-parallel boxes (tensor-product polynomials are in Q_p)
    std::string geo, grid;       // class names
    bool renumbered = false, reoriented = false;
    double kappa = 1.0;          // bound of the Jacobian condition numbers (spectral-ish, from edge vectors)
    int nverts_per_cell() const { return simplex ? dim + 1 : (1 << dim); }
    vf::J json() const
    {
      vf::J j = vf::J::obj(); j.set("dim", dim); j.set("shape", simplex ? "simplex" : "hypercube"); j.set("grid", grid); j.set("geo", geo);
      j.set("renumbered", renumbered); j.set("reoriented", reoriented);
      vf::J v = vf::J::arr(); for(auto& p : vtx) { vf::J q = vf::J::arr(); for(int i = 0; i < dim; ++i) q.add(p[(size_t)i]); v.add(q); } j.set("vtx", v);
      vf::J cs = vf::J::arr(); for(auto& c : cells) cs.add(vf::J(c)); j.set("cells", cs);
      return j;
    }
  };

  // oracle quadrature point in physical coordinates
  struct QP { LD x[3]; LD w; };

  /// quadrature points of one cell, exact for polynomials (in x) of degree <= deg (any cell geometry admitted by the generator)
  inline void cell_qps(const RawMesh& m, const std::vector<int>& cell, int deg, std::vector<QP>& out)
  {
    const int d = m.dim;
    // per-variable degree of f(x(xi))*J(xi): simplex (Duffy) deg + d - 1 ; hypercube multilinear: deg*1... per variable deg + (d-1)
    // (x is multilinear => x^a has per-variable degree a; det J has per-variable degree d-1)
    const int n = (deg + d - 1) / 2 + 1;
    const Gauss1D& g = gauss01(n);
    int idx[3] = {0, 0, 0};
    const int tot = (d == 1) ? n : (d == 2 ? n * n : n * n * n);
    for(int q = 0; q < tot; ++q)
    {
      int r = q; for(int i = 0; i < d; ++i) { idx[i] = r % n; r /= n; }
      LD xi[3] = {0, 0, 0}, w = 1;
      for(int i = 0; i < d; ++i) { xi[i] = g.x[(size_t)idx[i]]; w *= g.w[(size_t)idx[i]]; }
      QP p; p.x[0] = p.x[1] = p.x[2] = 0;
      if(m.simplex)
      {
        // Duffy: reference simplex coordinates
        LD s[3] = {0, 0, 0}, jac = 1;
        if(d == 1) { s[0] = xi[0]; }
        else if(d == 2) { s[0] = xi[0]; s[1] = xi[1] * (1 - xi[0]); jac = (1 - xi[0]); }
        else { s[0] = xi[0]; s[1] = xi[1] * (1 - xi[0]); s[2] = xi[2] * (1 - xi[0]) * (1 - xi[1]); jac = (1 - xi[0]) * (1 - xi[0]) * (1 - xi[1]); }
        LD J[3][3];
        for(int a = 0; a < d; ++a) for(int b = 0; b < d; ++b) J[a][b] = (LD)m.vtx[(size_t)cell[(size_t)b + 1]][(size_t)a] - (LD)m.vtx[(size_t)cell[0]][(size_t)a];
        for(int a = 0; a < d; ++a) { p.x[a] = (LD)m.vtx[(size_t)cell[0]][(size_t)a]; for(int b = 0; b < d; ++b) p.x[a] += J[a][b] * s[b]; }
        LD det = (d == 1) ? J[0][0] : (d == 2 ? J[0][0] * J[1][1] - J[0][1] * J[1][0]
          : J[0][0] * (J[1][1] * J[2][2] - J[1][2] * J[2][1]) - J[0][1] * (J[1][0] * J[2][2] - J[1][2] * J[2][0]) + J[0][2] * (J[1][0] * J[2][1] - J[1][1] * J[2][0]));
        p.w = w * jac * fabsl(det);
      }
      else
      {
        const int nv = 1 << d; LD J[3][3] = {{0, 0, 0}, {0, 0, 0}, {0, 0, 0}};
        for(int k = 0; k < nv; ++k)
        {
          LD N = 1; LD dN[3] = {1, 1, 1};
          for(int i = 0; i < d; ++i)
          {
            const bool bit = (k >> i) & 1; const LD f = bit ? xi[i] : 1 - xi[i]; const LD df = bit ? 1.0L : -1.0L;
            N *= f; for(int b = 0; b < d; ++b) dN[b] *= (b == i) ? df : f;
          }
          for(int a = 0; a < d; ++a) { const LD c = (LD)m.vtx[(size_t)cell[(size_t)k]][(size_t)a]; p.x[a] += N * c; for(int b = 0; b < d; ++b) J[a][b] += c * dN[b]; }
        }
        LD det = (d == 1) ? J[0][0] : (d == 2 ? J[0][0] * J[1][1] - J[0][1] * J[1][0]
          : J[0][0] * (J[1][1] * J[2][2] - J[1][2] * J[2][1]) - J[0][1] * (J[1][0] * J[2][2] - J[1][2] * J[2][0]) + J[0][2] * (J[1][0] * J[2][1] - J[1][1] * J[2][0]));
        p.w = w * fabsl(det);
      }
      out.push_back(p);
    }
  }
  inline std::vector<QP> mesh_qps(const RawMesh& m, int deg) { std::vector<QP> v; for(auto& c : m.cells) cell_qps(m, c, deg, v); return v; }
  inline LD mesh_volume(const RawMesh& m) { LD s = 0; for(auto& q : mesh_qps(m, 0)) s += q.w; return s; }

  // ------------------------------------------------------------------------------------------------
  // polynomials
  // ------------------------------------------------------------------------------------------------
  struct Poly
  {
    struct Term { double c; int e[3]; };
    int dim = 2; std::vector<Term> t;
    int degree() const { int d = 0; for(auto& x : t) if(x.c != 0.0) d = std::max(d, x.e[0] + x.e[1] + x.e[2]); return d; }
    int var_degree() const { int d = 0; for(auto& x : t) if(x.c != 0.0) d = std::max(d, std::max(x.e[0], std::max(x.e[1], x.e[2]))); return d; }
    bool is_zero() const { for(auto& x : t) if(x.c != 0.0) return false; return true; }
    bool is_const() const { for(auto& x : t) if(x.c != 0.0 && x.e[0] + x.e[1] + x.e[2] > 0) return false; return true; }
    template<typename T> static T ipow(T x, int e) { T r = T(1); for(int i = 0; i < e; ++i) r *= x; return r; }
    template<typename T, typename P> T val(const P& x) const
    {
      T s = T(0); for(auto& m : t) { T v = T(m.c); for(int i = 0; i < dim; ++i) v *= ipow(T(x[i]), m.e[i]); s += v; } return s;
    }
    template<typename T, typename P> T der(const P& x, int a) const
    {
      T s = T(0);
      for(auto& m : t) { if(m.e[a] == 0) continue; T v = T(m.c) * T(m.e[a]); for(int i = 0; i < dim; ++i) v *= ipow(T(x[i]), i == a ? m.e[i] - 1 : m.e[i]); s += v; }
      return s;
    }
    template<typename T, typename P> T der2(const P& x, int a, int b) const
    {
      T s = T(0);
      for(auto& m : t)
      {
        int e[3] = {m.e[0], m.e[1], m.e[2]}; T v = T(m.c);
        if(e[a] == 0) continue; v *= T(e[a]); e[a]--; if(e[b] == 0) continue; v *= T(e[b]); e[b]--;
        for(int i = 0; i < dim; ++i) v *= ipow(T(x[i]), e[i]); s += v;
      }
      return s;
    }
    vf::J json() const
    {
      std::ostringstream os; bool first = true; static const char* nm[] = {"x", "y", "z"};
      for(auto& m : t) { if(m.c == 0.0) continue; if(!first) os << " + "; first = false; os << m.c; for(int i = 0; i < dim; ++i) if(m.e[i]) { os << "*" << nm[i]; if(m.e[i] > 1) os << "^" << m.e[i]; } }
      if(first) os << "0"; return vf::J(os.str());
    }
  };

  /// polynomial of total degree <= p (tensor == false) or per-variable degree <= p (tensor == true); coefficient class by tape
  inline Poly gen_poly(vf::Tape& t, int dim, int p, bool tensor, int force_kind = -1)
  {
    Poly P; P.dim = dim;
    // kind: 0 = constant 1, 1 = single monomial of top degree, 2 = dense small integers, 3 = dense dyadic
    int kind = force_kind >= 0 ? force_kind : t.pick({1, 2, 4, 2});
    if(kind == 0 || p == 0) { double c = (kind == 0) ? 1.0 : t.real_nz(0); P.t.push_back({c, {0, 0, 0}}); return P; }
    std::vector<std::array<int, 3>> ex;
    for(int a = 0; a <= p; ++a) for(int b = 0; b <= (dim > 1 ? p : 0); ++b) for(int c = 0; c <= (dim > 2 ? p : 0); ++c)
      if(tensor || a + b + c <= p) ex.push_back({a, b, c});
    if(kind == 1)
    {
      // one monomial among those of maximal degree (plus a constant so that mass-type identities see it)
      std::vector<std::array<int, 3>> top; int best = 0; for(auto& e : ex) best = std::max(best, e[0] + e[1] + e[2]);
      for(auto& e : ex) if(e[0] + e[1] + e[2] == best || (!tensor && e[0] + e[1] + e[2] == p)) top.push_back(e);
      auto e = top[(size_t)t.range(0, (int)top.size() - 1)];
      P.t.push_back({t.real_nz(0), {e[0], e[1], e[2]}}); P.t.push_back({t.real(0), {0, 0, 0}}); return P;
    }
    for(auto& e : ex) { double c = t.real(kind == 2 ? 0 : 1); if(c != 0.0) P.t.push_back({c, {e[0], e[1], e[2]}}); }
    if(P.t.empty()) P.t.push_back({1.0, {0, 0, 0}});
    return P;
  }

  /// scalar polynomial as feat3 analytic function
  template<int dim_>
  class PolyFunction : public Analytic::Function
  {
  public:
    static constexpr int domain_dim = dim_;
    typedef Analytic::Image::Scalar ImageType;
    static constexpr bool can_value = true, can_grad = true, can_hess = true;
    Poly poly;
    explicit PolyFunction(const Poly& p) : poly(p) {}
    template<typename Traits_>
    class Evaluator : public Analytic::Function::Evaluator<Traits_>
    {
    public:
      typedef typename Traits_::DataType DataType; typedef typename Traits_::PointType PointType;
      typedef typename Traits_::ValueType ValueType; typedef typename Traits_::GradientType GradientType; typedef typename Traits_::HessianType HessianType;
      const Poly& p;
      explicit Evaluator(const PolyFunction& f) : p(f.poly) {}
      ValueType value(const PointType& x) { return p.template val<DataType>(x); }
      GradientType gradient(const PointType& x) { GradientType g; for(int a = 0; a < dim_; ++a) g[a] = p.template der<DataType>(x, a); return g; }
      HessianType hessian(const PointType& x) { HessianType h; for(int a = 0; a < dim_; ++a) for(int b = 0; b < dim_; ++b) h[a][b] = p.template der2<DataType>(x, a, b); return h; }
    };
  };

  /// vector-valued polynomial field (nc_ components) as feat3 analytic function
  template<int dim_, int nc_ = dim_>
  class PolyVecFunction : public Analytic::Function
  {
  public:
    static constexpr int domain_dim = dim_;
    typedef Analytic::Image::Vector<nc_> ImageType;
    static constexpr bool can_value = true, can_grad = true, can_hess = true;
    std::vector<Poly> comp;
    explicit PolyVecFunction(const std::vector<Poly>& c) : comp(c) {}
    template<typename Traits_>
    class Evaluator : public Analytic::Function::Evaluator<Traits_>
    {
    public:
      typedef typename Traits_::DataType DataType; typedef typename Traits_::PointType PointType;
      typedef typename Traits_::ValueType ValueType; typedef typename Traits_::GradientType GradientType; typedef typename Traits_::HessianType HessianType;
      const std::vector<Poly>& c;
      explicit Evaluator(const PolyVecFunction& f) : c(f.comp) {}
      ValueType value(const PointType& x) { ValueType v; for(int i = 0; i < nc_; ++i) v[i] = c[(size_t)i].template val<DataType>(x); return v; }
      GradientType gradient(const PointType& x) { GradientType g; for(int i = 0; i < nc_; ++i) for(int a = 0; a < dim_; ++a) g[i][a] = c[(size_t)i].template der<DataType>(x, a); return g; }
      HessianType hessian(const PointType& x) { HessianType h; for(int i = 0; i < nc_; ++i) for(int a = 0; a < dim_; ++a) for(int b = 0; b < dim_; ++b) h[i][a][b] = c[(size_t)i].template der2<DataType>(x, a, b); return h; }
    };
  };
  inline std::vector<Poly> gen_polys(vf::Tape& t, int n, int dim, int p, bool tensor) { std::vector<Poly> v; for(int i = 0; i < n; ++i) v.push_back(gen_poly(t, dim, p, tensor)); return v; }
  inline vf::J polys_json(const std::vector<Poly>& v) { vf::J a = vf::J::arr(); for(auto& p : v) a.add(p.json()); return a; }
  inline int polys_degree(const std::vector<Poly>& v) { int d = 0; for(auto& p : v) d = std::max(d, p.degree()); return d; }

  // ------------------------------------------------------------------------------------------------
  // mesh generator
  // ------------------------------------------------------------------------------------------------
  /// all orientation preserving symmetries of the reference hypercube as permutations of the local vertex numbers
  inline const std::vector<std::vector<int>>& cube_rotations(int d)
  {
    static std::vector<std::vector<int>> rot[4];
    if(!rot[d].empty()) return rot[d];
    std::vector<int> perm(d); for(int i = 0; i < d; ++i) perm[(size_t)i] = i;
    do
    {
      for(int sg = 0; sg < (1 << d); ++sg)
      {
        // signed permutation matrix R: R e_i = s_i e_perm[i]; determinant = sign(perm) * prod s_i
        int inv = 0; for(int i = 0; i < d; ++i) for(int j = i + 1; j < d; ++j) if(perm[(size_t)i] > perm[(size_t)j]) ++inv;
        int det = (inv & 1) ? -1 : 1; for(int i = 0; i < d; ++i) if((sg >> i) & 1) det = -det;
        if(det != 1) continue;
        std::vector<int> lp((size_t)1 << d);
        for(int k = 0; k < (1 << d); ++k)
        {
          int img = 0;
          for(int i = 0; i < d; ++i) { int c = ((k >> i) & 1) ? 1 : -1; if((sg >> i) & 1) c = -c; if(c > 0) img |= 1 << perm[(size_t)i]; }
          lp[(size_t)k] = img;
        }
        rot[d].push_back(lp);
      }
    } while(std::next_permutation(perm.begin(), perm.end()));
    // identity first (0 on the tape = simplest)
    for(size_t i = 0; i < rot[d].size(); ++i) { bool id = true; for(size_t k = 0; k < rot[d][i].size(); ++k) id = id && rot[d][i][k] == (int)k; if(id) { std::swap(rot[d][0], rot[d][i]); break; } }
    return rot[d];
  }
  /// even permutations of d+1 simplex vertices
  inline const std::vector<std::vector<int>>& simplex_rotations(int d)
  {
    static std::vector<std::vector<int>> rot[4];
    if(!rot[d].empty()) return rot[d];
    std::vector<int> perm((size_t)d + 1); for(int i = 0; i <= d; ++i) perm[(size_t)i] = i;
    do { int inv = 0; for(int i = 0; i <= d; ++i) for(int j = i + 1; j <= d; ++j) if(perm[(size_t)i] > perm[(size_t)j]) ++inv; if(!(inv & 1)) rot[d].push_back(perm); }
    while(std::next_permutation(perm.begin(), perm.end()));
    return rot[d];
  }

  /// thorough tier: environment C16_DEEP=1 enlarges the grids (one more cell per direction)
  inline int deep() { static int d = (getenv("C16_DEEP") != nullptr) ? 1 : 0; return d; }
  struct MeshOpts { int dim = 2; bool simplex = false; int max_n = 3; int max_cells = 1000; bool allow_nonaffine = true; bool allow_renumber = true; bool force_unit = false; };

  inline RawMesh gen_mesh(vf::Tape& t, const MeshOpts& o)
  {
    RawMesh m; m.dim = o.dim; m.simplex = o.simplex; const int d = o.dim;
    int n[3] = {1, 1, 1};
    for(int i = 0; i < d; ++i) n[i] = t.sized(1, o.max_n + deep(), 1);
    // bound the number of grid cells by construction (work bound for heavy element pairs)
    for(int i = d - 1; i >= 0; --i) { int others = 1; for(int j = 0; j < d; ++j) if(j != i) others *= n[j]; while(n[i] > 1 && n[i] * others > o.max_cells * (1 + deep())) --n[i]; }
    // grid spacing class: 0 uniform, 1 non-uniform dyadic
    const int gcls = o.force_unit ? 0 : t.pick({2, 1});
    std::vector<double> co[3];
    for(int i = 0; i < 3; ++i)
    {
      co[i].push_back(0.0);
      if(i >= d) continue;
      for(int k = 0; k < n[i]; ++k)
      {
        static const double hs[] = {1.0, 0.5, 2.0, 0.25};
        double h = (gcls == 0) ? 1.0 : hs[t.range(0, 3)];
        co[i].push_back(co[i].back() + h);
      }
    }
    m.grid = (gcls == 0 ? "uniform" : "nonuniform"); m.grid += ":" + std::to_string(n[0]); for(int i = 1; i < d; ++i) m.grid += "x" + std::to_string(n[i]);
    double hmin = 1e9, hmax = 0; for(int i = 0; i < d; ++i) for(size_t k = 1; k < co[i].size(); ++k) { hmin = std::min(hmin, co[i][k] - co[i][k - 1]); hmax = std::max(hmax, co[i][k] - co[i][k - 1]); }
    const int nvx = n[0] + 1, nvy = (d > 1 ? n[1] + 1 : 1), nvz = (d > 2 ? n[2] + 1 : 1);
    auto vid = [&](int i, int j, int k) { return i + nvx * (j + nvy * k); };
    m.vtx.resize((size_t)(nvx * nvy * nvz));
    for(int k = 0; k < nvz; ++k) for(int j = 0; j < nvy; ++j) for(int i = 0; i < nvx; ++i) m.vtx[(size_t)vid(i, j, k)] = {co[0][(size_t)i], d > 1 ? co[1][(size_t)j] : 0.0, d > 2 ? co[2][(size_t)k] : 0.0};
    // geometry class: 0 identity, 1 affine (skew), 2 jitter, 3 jitter + affine
    int geo = o.force_unit ? 0 : (o.allow_nonaffine ? t.pick({3, 3, 2, 1}) : t.pick({1, 1}));
    static const char* gn[] = {"axis", "affine", "jitter", "jitter+affine"}; m.geo = gn[geo];
    double kap = hmax / hmin;
    if(geo >= 2)
    {
      // bounded per-vertex jitter: |delta_i| <= hmin/8 per coordinate keeps every vertex Jacobian positive by construction
      // (edge vectors change by at most hmin/4 per coordinate; diagonally dominant edge matrix)
      for(auto& p : m.vtx) for(int i = 0; i < d; ++i) p[(size_t)i] += hmin * double(t.range(0, 8) - 4) / 32.0;
      kap *= 2.0;
      if(!o.simplex) m.cells_affine = false;
      m.axis_aligned = false;
    }
    if(geo == 1 || geo == 3)
    {
      // A = L * D * U with unit triangular L, U (entries dyadic in [-1/2,1/2]) and D in {1/2,1,2}: det A > 0 by construction
      double L[3][3] = {{1, 0, 0}, {0, 1, 0}, {0, 0, 1}}, U[3][3] = {{1, 0, 0}, {0, 1, 0}, {0, 0, 1}}, D[3] = {1, 1, 1};
      static const double ds[] = {1.0, 2.0, 0.5};
      for(int i = 0; i < d; ++i) { D[i] = ds[t.range(0, 2)]; for(int j = 0; j < i; ++j) { L[i][j] = double(t.range(0, 8) - 4) / 8.0; U[j][i] = double(t.range(0, 8) - 4) / 8.0; } }
      double A[3][3];
      for(int i = 0; i < 3; ++i) for(int j = 0; j < 3; ++j) { A[i][j] = 0; for(int k = 0; k < 3; ++k) A[i][j] += L[i][k] * D[k] * U[k][j]; }
      double off[3] = {double(t.range(0, 4)) / 2.0 - 1.0, double(t.range(0, 4)) / 2.0 - 1.0, double(t.range(0, 4)) / 2.0 - 1.0};
      for(auto& p : m.vtx) { double q[3] = {0, 0, 0}; for(int i = 0; i < d; ++i) { q[i] = off[i]; for(int j = 0; j < d; ++j) q[i] += A[i][j] * p[(size_t)j]; } for(int i = 0; i < d; ++i) p[(size_t)i] = q[i]; }
      // cond(L), cond(U) <= (1+1/2)^(d-1)*..., cond(D) <= 4: generous bound
      kap *= 4.0 * (d == 1 ? 1.0 : (d == 2 ? 2.5 : 8.0));
      m.axis_aligned = false;
    }
    m.kappa = kap;
    // cells
    for(int k = 0; k < (d > 2 ? n[2] : 1); ++k) for(int j = 0; j < (d > 1 ? n[1] : 1); ++j) for(int i = 0; i < n[0]; ++i)
    {
      std::vector<int> hc;
      for(int c = 0; c < (1 << d); ++c) hc.push_back(vid(i + (c & 1), j + ((c >> 1) & 1), k + ((c >> 2) & 1)));
      if(!o.simplex) { m.cells.push_back(hc); continue; }
      if(d == 1) { m.cells.push_back(hc); continue; }
      if(d == 2)
      {
        // two triangles; diagonal chosen per cell (both choices give a conforming mesh in 2D), positive orientation
        if(t.flag(1, 2)) { m.cells.push_back({hc[0], hc[1], hc[2]}); m.cells.push_back({hc[3], hc[2], hc[1]}); }
        else { m.cells.push_back({hc[0], hc[1], hc[3]}); m.cells.push_back({hc[0], hc[3], hc[2]}); }
        continue;
      }
      // Kuhn triangulation: 6 tetrahedra along the main diagonal 0-7 (same in every cube => conforming)
      int pm[3] = {0, 1, 2};
      do
      {
        int a = 0; std::vector<int> tet; tet.push_back(hc[0]);
        for(int s = 0; s < 3; ++s) { a |= 1 << pm[s]; tet.push_back(hc[(size_t)a]); }
        int inv = 0; for(int x = 0; x < 3; ++x) for(int y = x + 1; y < 3; ++y) if(pm[x] > pm[y]) ++inv;
        if(inv & 1) std::swap(tet[2], tet[3]);   // make positively oriented
        m.cells.push_back(tet);
      } while(std::next_permutation(pm, pm + 3));
    }
    if(o.simplex && d > 1) m.axis_aligned = false;
    // renumbering / re-orientation (G-mesh (c)): vertex permutation, cell permutation, orientation-preserving local symmetry per cell
    if(o.allow_renumber && t.flag(1, 2))
    {
      m.renumbered = true;
      const int nv = (int)m.vtx.size(); std::vector<int> p((size_t)nv); for(int i = 0; i < nv; ++i) p[(size_t)i] = i;
      for(int i = 0; i + 1 < nv; ++i) std::swap(p[(size_t)i], p[(size_t)(i + t.range(0, nv - 1 - i))]);
      std::vector<std::array<double, 3>> nvx2((size_t)nv); for(int i = 0; i < nv; ++i) nvx2[(size_t)p[(size_t)i]] = m.vtx[(size_t)i];
      m.vtx = nvx2; for(auto& c : m.cells) for(auto& v : c) v = p[(size_t)v];
      const int nc = (int)m.cells.size();
      for(int i = 0; i + 1 < nc; ++i) std::swap(m.cells[(size_t)i], m.cells[(size_t)(i + t.range(0, nc - 1 - i))]);
    }
    if(o.allow_renumber && d > 1 && t.flag(1, 2))
    {
      m.reoriented = true;
      const auto& rots = o.simplex ? simplex_rotations(d) : cube_rotations(d);
      for(auto& c : m.cells) { const auto& r = rots[(size_t)t.range(0, (int)rots.size() - 1)]; std::vector<int> nc2(c.size()); for(size_t k = 0; k < c.size(); ++k) nc2[k] = c[(size_t)r[k]]; c = nc2; }
    }
    return m;
  }

  /// build the feat3 mesh (vertices-at-cell only, remaining topology deduced by feat3 like tools/mesh_indexer does)
  template<typename Mesh_>
  std::unique_ptr<Mesh_> make_feat_mesh(const RawMesh& m)
  {
    static constexpr int sd = Mesh_::shape_dim;
    Index ne[4] = {0, 0, 0, 0}; ne[0] = (Index)m.vtx.size(); ne[sd] = (Index)m.cells.size();
    std::unique_ptr<Mesh_> mesh(new Mesh_(ne));
    auto& vs = mesh->get_vertex_set();
    for(Index i = 0; i < ne[0]; ++i) for(int k = 0; k < Mesh_::world_dim; ++k) vs[i][k] = typename Mesh_::CoordType(m.vtx[(size_t)i][(size_t)k]);
    auto& is = mesh->template get_index_set<sd, 0>();
    for(Index c = 0; c < ne[sd]; ++c) for(int k = 0; k < (int)m.cells[(size_t)c].size(); ++k) is[c][k] = (Index)m.cells[(size_t)c][(size_t)k];
    mesh->deduct_topology_from_top();
    return mesh;
  }

  inline void label_mesh(vf::Ctx& c, const RawMesh& m)
  {
    c.label(std::string("shape:") + (m.simplex ? "simplex" : "hypercube") + std::to_string(m.dim));
    c.label("geo:" + m.geo); c.label(m.cells_affine ? "cells:affine" : "cells:nonaffine");
    if(m.renumbered) c.label("mesh:renumbered"); if(m.reoriented) c.label("mesh:reoriented");
    c.label(m.cells.size() == 1 ? "cells:1" : (m.cells.size() <= 4 ? "cells:2-4" : "cells:5+"));
  }
} // namespace c16
