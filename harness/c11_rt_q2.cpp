// C11 structured round trip + fault injection, shape q2 (one TU per shape so that the four reader/writer
// instantiations compile in parallel)
#include "common/c11_gen.hpp"
namespace c11
{
  void rt_q2(Tape& t, Ctx& c) { rt_case<MeshQ2>(t, c); }
  void fault_q2(Tape& t, Ctx& c) { fault_case<MeshQ2>(t, c); }
  void init_files_main() { init_files(); }
}
