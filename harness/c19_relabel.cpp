// C19 (relabelling part): permuting a graph, a vector and a matrix by the same permutations relabels them consistently
#include "common/c19_model.hpp"
#include <kernel/lafem/sparse_matrix_csr.hpp>
#include <kernel/lafem/dense_vector.hpp>
using namespace c19;
using namespace FEAT::LAFEM;

/// permutation of length n from the tape (n == 0: the default-constructed empty permutation - the only way feat3 offers)
static Permutation gen_permutation(Tape& t, int n, std::vector<Index>& E, int& kind)
{
  std::vector<Index> s = gen_swap(t, n); E = perm_of_swap(s);
  if(n == 0) { kind = -1; return Permutation(); }
  kind = t.pick({3, 2, 1});
  if(kind == 0) return Permutation(Index(n), Permutation::ConstrType::perm, E.data());
  if(kind == 1) return Permutation(Index(n), Permutation::ConstrType::swap, s.data());
  std::vector<Index> Ei = inv_of(E); return Permutation(Index(n), Permutation::ConstrType::inv_perm, Ei.data());
}

static void relabel_target(Tape& t, Ctx& c)
{
  static const char* opn[] = { "graph_perm_ctor", "permute_indices", "matrix_vector" };
  int op = t.pick({4, 2, 5});
  c.op = opn[op]; c.desc.set("op", opn[op]); c.label(std::string("op:") + opn[op]);

  if(op == 0)
  {
    // Graph(other, domain_perm, image_perm): node i of the result is node domain_perm[i] of other, image index k becomes image_perm[k]
    Adj A = gen_adj(t, 30); int how = t.range(0, 2);
    std::vector<Index> dp, ip; int k1, k2;
    Permutation pd = gen_permutation(t, A.nd, dp, k1), pi = gen_permutation(t, A.ni, ip, k2);
    c.desc.set("ctor", how); c.desc.set("A", A.json()); c.desc.set("domain_perm", J(dp)); c.desc.set("image_perm", J(ip));
    c.label("adj:" + A.cls); if(A.nd == 0) c.label("feature:nd=0"); if(A.ni == 0) c.label("feature:ni=0"); if(A.has_dups()) c.label("feature:duplicates"); if(A.nidx() && A.has_empty()) c.label("feature:empty-lists");
    if(is_identity(dp)) c.label("domain-perm:identity"); if(is_identity(ip)) c.label("image-perm:identity");
    c.nontrivial = A.nidx() >= 2 && !(is_identity(dp) && is_identity(ip));
    c.announce();
    Graph g = make_graph(A, how);
    Graph h(g, pd, pi);
    Lists got = read_graph(h, "permuted graph");
    VF_CHECK(h.get_num_nodes_domain() == Index(A.nd) && h.get_num_nodes_image() == Index(A.ni), "permuted graph dims " << h.get_num_nodes_domain() << "x" << h.get_num_nodes_image());
    for(int i = 0; i < A.nd; ++i)
    {
      std::vector<Index> e; for(Index k : A.a[(size_t)dp[(size_t)i]]) e.push_back(ip[(size_t)k]);
      VF_CHECK(got[(size_t)i] == e, "permuted graph node " << i << " got " << show(got[(size_t)i]) << " expected " << show(e));
    }
    VF_CHECK(read_graph(g, "source") == A.a, "permutation constructor modified its source");
    // relabelling back with the inverse permutations restores the relation:
    // h[i] = ip(g[dp[i]])  =>  g[j] = ip^-1(h[dp^-1[j]])
    Permutation pdi = pd.inverse(), pii = pi.inverse();
    Graph b(h, pdi, pii);
    VF_CHECK(read_graph(b, "back-permuted graph") == A.a, "permuting with the inverse permutations does not restore the graph");
    return;
  }

  if(op == 1)
  {
    // Graph::permute_indices(inv_perm): every image index k becomes inv_perm.map(k). feat3 asserts a non-empty index
    // array (explicit precondition), so relations have at least one index.
    // exclusion c19-permute-indices-size-assert: the function asserts "number of indices == permutation size" instead of
    // "number of image nodes == permutation size" (known finding); steer to partition-like relations (every image node
    // exactly once - what Geometry::Partition passes), where both numbers coincide.
    Adj A = gen_adj(t, 30);
    if(A.nd == 0 || A.ni == 0) { A.nd = std::max(A.nd, 1); A.ni = std::max(A.ni, 1); A.a.resize((size_t)A.nd); }
    if(A.nidx() == 0) A.a[(size_t)t.range(0, A.nd - 1)].push_back(Index(t.range(0, A.ni - 1)));
    if(A.nidx() != A.ni && c.excl("c19-permute-indices-size-assert")) { for(auto& r : A.a) r.clear(); for(int j = 0; j < A.ni; ++j) A.a[(size_t)t.range(0, A.nd - 1)].push_back(Index(j)); A.cls = "partition-like(steered)"; }
    int how = t.range(0, 2); std::vector<Index> ip; int k2; Permutation pi = gen_permutation(t, A.ni, ip, k2);
    c.desc.set("ctor", how); c.desc.set("A", A.json()); c.desc.set("inv_perm", J(ip));
    c.label("adj:" + A.cls); c.label(A.nidx() == A.ni ? "indices==image-nodes" : A.nidx() < A.ni ? "indices<image-nodes" : "indices>image-nodes");
    c.nontrivial = A.nidx() >= 2 && !is_identity(ip);
    c.announce();
    Graph g = make_graph(A, how);
    g.permute_indices(pi);
    Lists got = read_graph(g, "permute_indices");
    VF_CHECK(g.get_num_nodes_domain() == Index(A.nd) && g.get_num_nodes_image() == Index(A.ni), "permute_indices changed the dimensions");
    for(int i = 0; i < A.nd; ++i)
    {
      std::vector<Index> e; for(Index k : A.a[(size_t)i]) e.push_back(ip[(size_t)k]);
      VF_CHECK(got[(size_t)i] == e, "permute_indices node " << i << " got " << show(got[(size_t)i]) << " expected " << show(e));
    }
    return;
  }

  // op == 2: CSR matrix A (its pattern = graph), vector x, row permutation pr, column permutation pc:
  //   A' = A.permute(pr, pc) has A'(i,j) = A(pr[i], pc[j]);  x' = x.permute(pc) has x'[j] = x[pc[j]];
  //   A' x' = pr applied to (A x);  pattern(A') = Graph(pattern(A), pr, pc^-1) as sets.
  // Entry-free CSR matrices are a known crash family of C02 (null arrays) and are not what this property is about: nnz >= 1.
  static const int cl[] = { 0, 4, 6, 7 };
  Adj A = gen_adj(t, 24, -1, -1, cl[t.pick({3, 2, 1, 1})]);
  if(A.nd == 0 || A.ni == 0) { A.nd = std::max(A.nd, 1); A.ni = std::max(A.ni, 1); A.a.resize((size_t)A.nd); }
  bool square = t.flag(1, 3); if(square) { int n = std::min(A.nd, A.ni); A.nd = A.ni = n; A.a.resize((size_t)n); for(auto& r : A.a) r.erase(std::remove_if(r.begin(), r.end(), [&](Index v) { return v >= Index(n); }), r.end()); }
  A.a = m_injectify(A.a);   // CSR rows: sorted distinct columns
  if(A.nidx() == 0) A.a[(size_t)t.range(0, A.nd - 1)].push_back(Index(t.range(0, A.ni - 1)));
  std::vector<std::vector<double>> val((size_t)A.nd); for(int i = 0; i < A.nd; ++i) for(size_t k = 0; k < A.a[(size_t)i].size(); ++k) val[(size_t)i].push_back(t.real(0) + double(1 + (i + 3 * (int)k) % 5)); // small integers, mostly non-zero
  std::vector<double> xv((size_t)A.ni); for(auto& v : xv) v = t.real(0);
  std::vector<Index> rp_, cp_; int k1, k2;
  Permutation pr = gen_permutation(t, A.nd, rp_, k1);
  bool same = square && t.flag(1, 2);   // symmetric relabelling (what mesh/matrix reordering does)
  Permutation pc = same ? pr.clone() : gen_permutation(t, A.ni, cp_, k2); if(same) cp_ = rp_;
  J vals = J::arr(); for(auto& r : val) vals.add(J(r));
  c.desc.set("A", A.json()); c.desc.set("values", vals); c.desc.set("x", J(xv)); c.desc.set("row_perm", J(rp_)); c.desc.set("col_perm", J(cp_)); c.desc.set("same_perm", same);
  c.label(square ? "dims:square" : "dims:rect"); c.label(same ? "perm:symmetric" : "perm:independent"); if(A.has_empty()) c.label("feature:empty-rows");
  if(is_identity(rp_)) c.label("row-perm:identity"); if(is_identity(cp_)) c.label("col-perm:identity");
  c.nontrivial = A.nidx() >= 2 && !(is_identity(rp_) && is_identity(cp_));
  c.announce();

  typedef SparseMatrixCSR<double, Index> M; typedef DenseVector<double, Index> V; typedef DenseVector<Index, Index> VI;
  Index nnz = Index(A.nidx()), rows = Index(A.nd), cols = Index(A.ni);
  VI ci(nnz), rp(rows + 1); V vv(nnz); { Index k = 0; rp.elements()[0] = 0; for(Index i = 0; i < rows; ++i) { for(size_t q = 0; q < A.a[(size_t)i].size(); ++q, ++k) { ci.elements()[k] = A.a[(size_t)i][q]; vv.elements()[k] = val[(size_t)i][q]; } rp.elements()[i + 1] = k; } }
  M mat(rows, cols, ci, vv, rp);
  V x(cols), y(rows); for(Index j = 0; j < cols; ++j) x.elements()[j] = xv[(size_t)j];
  mat.apply(y, x);
  // reference A x from the description (small integers: exact)
  std::vector<double> yref((size_t)rows, 0.0); for(Index i = 0; i < rows; ++i) for(size_t q = 0; q < A.a[(size_t)i].size(); ++q) yref[(size_t)i] += val[(size_t)i][q] * xv[(size_t)A.a[(size_t)i][q]];
  for(Index i = 0; i < rows; ++i) VF_CHECK(y.elements()[i] == yref[(size_t)i], "A x entry " << i);
  Graph pat(RenderType::as_is, mat);
  VF_CHECK(read_graph(pat, "pattern graph") == A.a && pat.get_num_nodes_image() == cols, "Graph(as_is, matrix) differs from the pattern");

  // permute everything
  M m2 = mat.clone(CloneMode::Deep); m2.permute(pr, pc);   // Deep: a weak clone shares the index arrays that permute rewrites
  V x2 = x.clone(CloneMode::Deep); x2.permute(pc);
  V y2(rows); m2.apply(y2, x2);
  VF_CHECK(m2.rows() == rows && m2.columns() == cols && m2.used_elements() == nnz, "permuted matrix dims/nnz");
  for(Index j = 0; j < cols; ++j) VF_CHECK(x2.elements()[j] == xv[(size_t)cp_[(size_t)j]], "permuted vector entry " << j);
  // dense view of A' from the raw arrays
  std::vector<double> d2((size_t)(rows * cols), 0.0); std::vector<char> s2((size_t)(rows * cols), 0);
  VF_CHECK(m2.row_ptr()[0] == 0 && m2.row_ptr()[rows] == nnz, "permuted row_ptr ends");
  for(Index i = 0; i < rows; ++i) for(Index k = m2.row_ptr()[i]; k < m2.row_ptr()[i + 1]; ++k)
  {
    Index j = m2.col_ind()[k]; VF_CHECK(j < cols, "permuted column index out of range");
    if(k > m2.row_ptr()[i]) VF_CHECK(m2.col_ind()[k - 1] < j, "permuted row " << i << " columns not strictly ascending");
    d2[(size_t)(i * cols + j)] = m2.val()[k]; s2[(size_t)(i * cols + j)] = 1;
  }
  for(Index i = 0; i < rows; ++i) for(Index j = 0; j < cols; ++j)
  {
    Index oi = rp_[(size_t)i], oj = cp_[(size_t)j]; const auto& r = A.a[(size_t)oi];
    auto it = std::find(r.begin(), r.end(), oj); bool st = it != r.end(); double v = st ? val[(size_t)oi][(size_t)(it - r.begin())] : 0.0;
    VF_CHECK((s2[(size_t)(i * cols + j)] != 0) == st && d2[(size_t)(i * cols + j)] == v, "A'(" << i << "," << j << ") != A(" << oi << "," << oj << ")");
  }
  for(Index i = 0; i < rows; ++i) VF_CHECK(y2.elements()[i] == yref[(size_t)rp_[(size_t)i]], "A'x' entry " << i << " = " << y2.elements()[i] << " but (Ax)[row_perm[" << i << "]] = " << yref[(size_t)rp_[(size_t)i]]);
  { V yp = y.clone(CloneMode::Deep); yp.permute(pr); for(Index i = 0; i < rows; ++i) VF_CHECK(yp.elements()[i] == y2.elements()[i], "permute(Ax) != A'x' at " << i); }
  // graph relabelled the same way
  Permutation pci = pc.inverse();
  Graph gp(pat, pr, pci);
  Graph pat2(RenderType::as_is, m2);
  Lists a = m_sorted(read_graph(gp, "permuted pattern graph")), b = read_graph(pat2, "pattern of permuted matrix");
  VF_CHECK(a == b, "Graph(pattern, row_perm, col_perm^-1) differs from the pattern of the permuted matrix");
  // the original operands are untouched by clone+permute
  VF_CHECK(read_graph(pat, "pattern graph afterwards") == A.a, "pattern graph changed");
  for(Index j = 0; j < cols; ++j) VF_CHECK(x.elements()[j] == xv[(size_t)j], "x changed by permuting its clone");
}

int main(int argc, char** argv)
{
  FEAT::Runtime::ScopeGuard guard(argc, argv);
  std::vector<Target> tg;
  tg.push_back({"relabel", relabel_target, 160, 8, 5000});
  return main_impl(argc, argv, tg);
}
