// c09_core.hpp - C09: generated (non mesh-based) multigrid hierarchies, logging mocks, and the
// independent reference of the documented V/F/W cycles (trace + linear map with running error bound).
//
// Level numbering follows feat3: level 0 is the finest ("top"), higher index = coarser.
#pragma once
#include "lafem_gen.hpp"
#include <kernel/lafem/unit_filter.hpp>
#include <kernel/lafem/transfer.hpp>
#include <kernel/solver/multigrid.hpp>

namespace c09
{
  using namespace vf;
  typedef long double LD;

  /// the global event trace (mocks and logging transfers append; single threaded, one case per process)
  inline std::vector<std::string>& trace() { static std::vector<std::string> t; return t; }

  // ------------------------------------------------------------------------------------------
  // dense long-double helpers
  // ------------------------------------------------------------------------------------------
  struct DM
  {
    int r = 0, c = 0; std::vector<LD> a;
    DM() {} DM(int rr, int cc) : r(rr), c(cc), a(size_t(rr) * size_t(cc), 0.0L) {}
    LD& operator()(int i, int j) { return a[size_t(i) * size_t(c) + size_t(j)]; }
    LD operator()(int i, int j) const { return a[size_t(i) * size_t(c) + size_t(j)]; }
  };
  inline DM dm_of(const Dense& d) { DM m((int)d.r, (int)d.c); m.a = d.a; return m; }
  inline DM dm_mul(const DM& a, const DM& b) { DM m(a.r, b.c); for(int i = 0; i < a.r; ++i) for(int k = 0; k < a.c; ++k) { LD v = a(i, k); if(v == 0.0L) continue; for(int j = 0; j < b.c; ++j) m(i, j) += v * b(k, j); } return m; }
  inline DM dm_t(const DM& a) { DM m(a.c, a.r); for(int i = 0; i < a.r; ++i) for(int j = 0; j < a.c; ++j) m(j, i) = a(i, j); return m; }
  /// inverse of the principal sub-matrix on the free dofs (Gauss-Jordan with partial pivoting), embedded with zero rows/cols
  inline DM dm_inv_free(const DM& A, const std::vector<char>& filt)
  {
    int n = A.r; std::vector<int> fr; for(int i = 0; i < n; ++i) if(!filt[i]) fr.push_back(i);
    int m = (int)fr.size(); DM out(n, n); if(m == 0) return out;
    DM w(m, 2 * m); for(int i = 0; i < m; ++i) { for(int j = 0; j < m; ++j) w(i, j) = A(fr[i], fr[j]); w(i, m + i) = 1.0L; }
    for(int k = 0; k < m; ++k)
    {
      int p = k; for(int i = k + 1; i < m; ++i) if(fabsl(w(i, k)) > fabsl(w(p, k))) p = i;
      if(p != k) for(int j = 0; j < 2 * m; ++j) std::swap(w(k, j), w(p, j));
      LD d = w(k, k); if(d == 0.0L) throw Discard{"singular level matrix"};
      for(int j = 0; j < 2 * m; ++j) w(k, j) /= d;
      for(int i = 0; i < m; ++i) if(i != k) { LD f = w(i, k); if(f != 0.0L) for(int j = 0; j < 2 * m; ++j) w(i, j) -= f * w(k, j); }
    }
    for(int i = 0; i < m; ++i) for(int j = 0; j < m; ++j) out(fr[i], fr[j]) = w(i, m + j);
    return out;
  }

  // ------------------------------------------------------------------------------------------
  // generated description of a hierarchy
  // ------------------------------------------------------------------------------------------
  enum Role { PRE = 0, POST = 1, PEAK = 2, CRS = 3 };
  static const char* role_names[] = { "pre", "post", "peak", "crs" };
  static const char* op_kind_names[] = { "jacobi", "richardson", "exact", "jacobi+pert", "zero", "gauss-seidel" };

  struct OpDesc { int kind = 0; double omega = 1.0; std::vector<double> pert; /* n*n row-major additive perturbation (kind 3) */ };

  struct LevelDesc
  {
    int n = 1;
    Pat A;                       // SPD, stored diagonal
    std::string a_cls;           // "fine" | "galerkin" | "galerkin+spd" | "independent"
    std::vector<char> filt;      // unit-filter dofs
    Pat P, R;                    // transfer to the next coarser level (absent on the last level)
    std::string p_cls, r_cls;
    std::vector<OpDesc> ops;     // distinct solver objects of this level
    int role[4] = { -1, -1, -1, -1 };  // object index per role (objects may be shared between roles)
  };

  /// Bulk data (pattern flags, small value choices) is decoded from 4-bit pieces, eight per tape entry: rapidcheck's
  /// shrinking of the fixed-length tape costs O(length^2 * 32) evaluations, so the tape must stay short.
  /// All-zero tape entries still decode to the simplest choice everywhere.
  struct Nib
  {
    Tape& t; uint32_t cur = 0; int left = 0;
    explicit Nib(Tape& tt) : t(tt) {}
    int next() { if(!left) { cur = t.raw(); left = 8; } int v = int(cur & 15u); cur >>= 4; --left; return v; }
    /// true with probability ~num/den (den <= 16); 0 -> false
    bool flag(unsigned num, unsigned den) { return (unsigned(next()) % den) >= (den - num); }
    int range(int lo, int hi) { int span = hi - lo + 1; if(span <= 1) return lo; int v = span <= 16 ? next() : (next() | (next() << 4)); return lo + v % span; }
  };
  // --- small value pickers (0 on the tape -> first entry)
  inline double pick_val(Nib& t, std::initializer_list<double> v) { int k = t.range(0, (int)v.size() - 1); return *(v.begin() + k); }

  /// SPD by construction: symmetric pattern, strictly diagonally dominant with positive diagonal
  inline Pat gen_spd(Tape& tp, int n, std::string* cls_out = nullptr)
  {
    Tape& t = tp; Nib nb(tp);
    Pat p; p.rows = p.cols = n; p.col.assign(n, {}); p.val.assign(n, {});
    int cls = t.pick({4, 3, 1, 1}); // random symmetric / tridiagonal / dense / diagonal
    static const char* cn[] = { "sym-random", "tridiag", "dense", "diagonal" };
    p.cls = cn[cls]; if(cls_out) *cls_out = cn[cls];
    std::vector<std::vector<double>> m(n, std::vector<double>(n, 0.0));
    unsigned num = 3 + (unsigned)t.range(0, 7);
    for(int i = 0; i < n; ++i) for(int j = 0; j < i; ++j)
    {
      bool on = false;
      switch(cls) { case 0: on = nb.flag(num, 16); break; case 1: on = (j == i - 1); break; case 2: on = true; break; default: on = false; }
      if(!on) continue;
      double v = pick_val(nb, { -1.0, -0.5, 0.5, -0.25, 1.0, -2.0, 0.25 });
      m[i][j] = v; m[j][i] = v;
    }
    for(int i = 0; i < n; ++i)
    {
      double s = 0.0; for(int j = 0; j < n; ++j) if(j != i) s += std::fabs(m[i][j]);
      m[i][i] = s + pick_val(nb, { 1.0, 0.5, 2.0, 0.25, 4.0 });
    }
    for(int i = 0; i < n; ++i) for(int j = 0; j < n; ++j) if(m[i][j] != 0.0) { p.col[i].push_back(j); p.val[i].push_back(m[i][j]); }
    return p;
  }

  /// full column rank by construction: rows = permutation of [T; X], T lower triangular with non-zero diagonal
  inline Pat gen_prol(Tape& tp, int nf, int nc, std::string& cls)
  {
    Tape& t = tp; Nib nb(tp);
    Pat p; p.rows = nf; p.cols = nc; p.col.assign(nf, {}); p.val.assign(nf, {});
    int k = t.pick({4, 2, 2}); static const char* cn[] = { "interp", "injection", "dense" };
    cls = cn[k]; p.cls = cls;
    std::vector<int> perm(nf); for(int i = 0; i < nf; ++i) perm[i] = i;
    for(int i = nf - 1; i > 0; --i) { int j = i - nb.range(0, i); std::swap(perm[i], perm[j]); } // Fisher-Yates; 0 on the tape -> identity
    unsigned num = 2 + 2 * (unsigned)t.range(0, 4);
    for(int i = 0; i < nf; ++i)
    {
      int row = perm[i];
      std::vector<std::pair<int, double>> e;
      for(int j = 0; j < nc; ++j)
      {
        bool diag = (i < nc && j == i);
        if(i < nc && j > i) continue;                 // T is lower triangular
        bool on = diag;
        if(!diag) { switch(k) { case 0: on = nb.flag(num, 16); break; case 1: on = false; break; default: on = true; } }
        if(!on) continue;
        double v = diag ? pick_val(nb, { 1.0, 0.5, 2.0 }) : pick_val(nb, { 0.5, 0.25, 1.0, -0.25, 0.75 });
        e.emplace_back(j, v);
      }
      for(auto& x : e) { p.col[row].push_back(x.first); p.val[row].push_back(x.second); }
    }
    return p;
  }

  inline Pat pat_transposed(const Pat& p, double scale)
  {
    Pat q; q.rows = p.cols; q.cols = p.rows; q.col.assign(q.rows, {}); q.val.assign(q.rows, {});
    for(int i = 0; i < p.rows; ++i) for(size_t k = 0; k < p.col[i].size(); ++k) { q.col[p.col[i][k]].push_back(i); q.val[p.col[i][k]].push_back(p.val[i][k] * scale); }
    return q;
  }

  template<typename DT> Pat pat_of_dense(const DM& m, bool keep_diag)
  {
    Pat p; p.rows = m.r; p.cols = m.c; p.col.assign(m.r, {}); p.val.assign(m.r, {});
    for(int i = 0; i < m.r; ++i) for(int j = 0; j < m.c; ++j) { double v = (double)DT(m(i, j)); if(v != 0.0 || (keep_diag && i == j)) { p.col[i].push_back(j); p.val[i].push_back(v); } }
    return p;
  }
  template<typename DT> DM dm_of_pat(const Pat& p) { return dm_of(dense_of_pat<DT>(p)); }

  /// builds the dense operator of a mock solver object (rows of filtered dofs are zero: every real feat3
  /// preconditioner ends with filter_cor, so corrections handed to the multigrid satisfy the filter)
  template<typename DT> std::vector<DT> build_op(const OpDesc& o, const DM& A, const std::vector<char>& filt)
  {
    int n = A.r; DM s(n, n);
    switch(o.kind)
    {
    case 0: case 3: for(int i = 0; i < n; ++i) s(i, i) = (LD)o.omega / A(i, i); break;
    case 1: { LD mx = 0; for(int i = 0; i < n; ++i) { LD r = 0; for(int j = 0; j < n; ++j) r += fabsl(A(i, j)); mx = std::max(mx, r); } for(int i = 0; i < n; ++i) s(i, i) = (LD)o.omega / mx; break; }
    case 2: s = dm_inv_free(A, filt); break;
    case 4: break;
    case 5: { // (D+L)^-1 on the free dofs, by forward substitution on unit vectors
      for(int c = 0; c < n; ++c) { if(filt[c]) continue; for(int i = 0; i < n; ++i) { if(filt[i]) continue; LD r = (i == c) ? 1.0L : 0.0L; for(int j = 0; j < i; ++j) if(!filt[j]) r -= A(i, j) * s(j, c); s(i, c) = r / A(i, i); } }
      break; }
    }
    if(o.kind == 3) for(int i = 0; i < n; ++i) for(int j = 0; j < n; ++j) s(i, j) += (LD)o.pert[size_t(i) * n + j] / A(i, i);
    for(int i = 0; i < n; ++i) if(filt[i]) for(int j = 0; j < n; ++j) s(i, j) = 0.0L;
    std::vector<DT> out(size_t(n) * n); for(size_t k = 0; k < out.size(); ++k) out[k] = DT(s.a[k]);
    return out;
  }

  inline OpDesc gen_op(Tape& t, int n, bool coarse)
  {
    OpDesc o; o.kind = coarse ? t.pick({6, 1, 1, 1, 1, 1}) : t.pick({4, 1, 1, 2, 1, 2});
    if(coarse) { static const int map[] = { 2, 0, 1, 3, 4, 5 }; o.kind = map[o.kind]; }
    Nib nb(t);
    o.omega = pick_val(nb, { 0.75, 0.5, 1.0 });
    if(o.kind == 3) { o.pert.assign(size_t(n) * n, 0.0); for(auto& x : o.pert) if(nb.flag(1, 4)) x = pick_val(nb, { 0.125, -0.125, 0.0625, -0.25 }); }
    return o;
  }

  struct HierDesc { int nlev = 1; std::vector<LevelDesc> lv; };

  template<typename DT> HierDesc gen_hierarchy(Tape& t, Ctx& c, int max_levels, int max_grow)
  {
    HierDesc h;
    // number of levels 1..max_levels; 0 on the tape -> 1
    h.nlev = 1 + t.range(0, std::min(max_levels - 1, 2 + t.size / 10));
    h.lv.resize(h.nlev);
    // sizes: coarsest first
    std::vector<int> n(h.nlev); n[h.nlev - 1] = t.range(1, 4);
    for(int l = h.nlev - 2; l >= 0; --l) n[l] = n[l + 1] + t.sized(0, max_grow, 2);
    int gal_cls = t.pick({3, 2, 1}); // all galerkin / galerkin+spd / per-level choice incl. independent
    for(int l = 0; l < h.nlev; ++l)
    {
      LevelDesc& L = h.lv[l]; L.n = n[l];
      // filter: class none / few / many
      int fc = t.pick({2, 2, 1}); L.filt.assign(L.n, 0);
      if(fc) { Nib nb(t); for(int i = 0; i < L.n; ++i) L.filt[i] = nb.flag(fc == 1 ? 1u : 3u, 8u) ? 1 : 0; }
      if(l == 0) { L.A = gen_spd(t, L.n); L.a_cls = "fine"; }
      else
      {
        const LevelDesc& Fn = h.lv[l - 1];
        int k = gal_cls == 2 ? t.pick({1, 1, 1}) : gal_cls;
        DM Pd = dm_of_pat<DT>(Fn.P), Ad = dm_of_pat<DT>(Fn.A);
        if(k == 2) { L.A = gen_spd(t, L.n); L.a_cls = "independent"; }
        else
        {
          DM G = dm_mul(dm_t(Pd), dm_mul(Ad, Pd));
          if(k == 1) { Pat E = gen_spd(t, L.n); DM Ed = dm_of_pat<DT>(E); for(size_t q = 0; q < G.a.size(); ++q) G.a[q] += Ed.a[q]; L.a_cls = "galerkin+spd"; }
          else L.a_cls = "galerkin";
          for(int i = 0; i < G.r; ++i) for(int j = 0; j < i; ++j) { LD s = (LD)DT(G(i, j)); G(i, j) = s; G(j, i) = s; } // keep it exactly symmetric after narrowing
          L.A = pat_of_dense<DT>(G, true); L.A.cls = L.a_cls;
        }
      }
      if(l + 1 < h.nlev)
      {
        L.P = gen_prol(t, n[l], n[l + 1], L.p_cls);
        switch(t.pick({5, 2, 1}))
        {
        case 0: L.R = pat_transposed(L.P, 1.0); L.r_cls = "P^T"; break;
        case 1: { Nib nb(t); double s = pick_val(nb, { 0.5, 2.0, 0.25 }); L.R = pat_transposed(L.P, s); L.r_cls = "s*P^T"; break; }
        default: { std::string dummy; Pat q = gen_prol(t, n[l], n[l + 1], dummy); L.R = pat_transposed(q, 1.0); L.r_cls = "independent"; break; }
        }
      }
      // solver objects: every one of the 2^4 presence combinations is reachable on every level
      bool has[4]; int pc = t.pick({3, 5}); // 0: all four roles present; 1: independent coin flips
      for(int r = 0; r < 4; ++r) has[r] = pc == 0 ? true : t.flag(1, 2);
      if(pc == 0 && l + 1 < h.nlev) has[CRS] = t.flag(1, 2);
      for(int r = 0; r < 4; ++r)
      {
        if(!has[r]) continue;
        // sharing: post may re-use the pre object, peak may re-use pre or post (feat3 documents that the pointers need not differ)
        if(r == POST && L.role[PRE] >= 0 && t.flag(1, 4)) { L.role[r] = L.role[PRE]; continue; }
        if(r == PEAK && L.role[PRE] >= 0 && t.flag(1, 6)) { L.role[r] = L.role[PRE]; continue; }
        if(r == PEAK && L.role[POST] >= 0 && t.flag(1, 6)) { L.role[r] = L.role[POST]; continue; }
        L.ops.push_back(gen_op(t, L.n, r == CRS)); L.role[r] = (int)L.ops.size() - 1;
      }
    }
    (void)c;
    return h;
  }

  inline J hier_json(const HierDesc& h)
  {
    J a = J::arr();
    for(int l = 0; l < h.nlev; ++l)
    {
      const LevelDesc& L = h.lv[l]; J j = J::obj();
      j.set("n", L.n); j.set("A", L.a_cls + "/" + L.A.cls); j.set("nnzA", L.A.nnz());
      int nf = 0; for(char f : L.filt) nf += f; j.set("filtered", nf);
      if(l + 1 < h.nlev) { j.set("P", L.p_cls); j.set("R", L.r_cls); }
      J ro = J::obj();
      for(int r = 0; r < 4; ++r) if(L.role[r] >= 0) { const OpDesc& o = L.ops[L.role[r]]; ro.set(role_names[r], std::string(op_kind_names[o.kind]) + "#" + std::to_string(L.role[r])); }
      j.set("solvers", ro); a.add(j);
    }
    return a;
  }

  /// hash over all generated numbers (so that distinctness sees the data, while the description stays short)
  inline std::string hier_hash(const HierDesc& h)
  {
    std::string s;
    auto addp = [&](const Pat& p) { for(int i = 0; i < p.rows; ++i) for(size_t k = 0; k < p.col[i].size(); ++k) { s += std::to_string(i) + "," + std::to_string(p.col[i][k]) + "," + std::to_string(p.val[i][k]) + ";"; } s += "|"; };
    for(auto& L : h.lv) { addp(L.A); addp(L.P); addp(L.R); for(char f : L.filt) s += f ? '1' : '0'; for(auto& o : L.ops) { s += std::to_string(o.kind) + std::to_string(o.omega); for(double x : o.pert) s += std::to_string(x); } }
    char b[20]; snprintf(b, sizeof b, "%016llx", (unsigned long long)fnv64(s)); return b;
  }

  // ------------------------------------------------------------------------------------------
  // reference: value + running bound of the rounding error of a DT evaluation of the same steps
  // ------------------------------------------------------------------------------------------
  struct EV { std::vector<LD> v, e; EV() {} explicit EV(int n) : v(size_t(n), 0.0L), e(size_t(n), 0.0L) {} int n() const { return (int)v.size(); } };

  struct RefLevel { int n = 0; DM A, P, R; std::vector<char> filt; std::vector<DM> ops; int role[4] = { -1, -1, -1, -1 }; };

  /// Tolerance formula (DESIGN 2.11 applied step by step): every matrix-vector product y=Mx computed in DT obeys
  /// |fl(y)-y| <= |M| e_x + K (cols+2) u |M|(|x|+e_x), every axpy/quotient analogously; K = 8 slack.
  struct Ref
  {
    const std::vector<RefLevel>& L; LD U; LD K = 8.0L;
    int adapt = 0, top = 0, crs = 0;
    std::vector<EV> x, b, dupd; std::vector<char> has_dupd;
    std::vector<std::string> tr, trh;
    bool illcond = false; bool zero_cor = false; int n_omega = 0;
    mutable LD maxabs = 0; ///< largest |value|+bound seen in any intermediate vector (overflow guard of the comparison)
    std::vector<double> omegas;
    Ref(const std::vector<RefLevel>& l, LD u) : L(l), U(u), x(l.size()), b(l.size()), dupd(l.size()), has_dupd(l.size(), 0) {}

    void filt(EV& y, int l) const { for(int i = 0; i < y.n(); ++i) if(L[l].filt[i]) { y.v[i] = 0; y.e[i] = 0; } }
    EV mv(const DM& M, const EV& xx) const
    {
      EV y(M.r);
      for(int i = 0; i < M.r; ++i)
      {
        LD s = 0, ab = 0, er = 0;
        for(int j = 0; j < M.c; ++j) { LD m = M(i, j); if(m == 0.0L) continue; s += m * xx.v[j]; ab += fabsl(m) * (fabsl(xx.v[j]) + xx.e[j]); er += fabsl(m) * xx.e[j]; }
        y.v[i] = s; y.e[i] = er + K * LD(M.c + 2) * U * ab; maxabs = std::max(maxabs, ab);
      }
      return y;
    }
    /// F(b - A x)
    EV defect(int l) const
    {
      const DM& A = L[l].A; EV d(A.r);
      for(int i = 0; i < A.r; ++i)
      {
        LD s = b[l].v[i], ab = fabsl(b[l].v[i]) + b[l].e[i], er = b[l].e[i];
        for(int j = 0; j < A.c; ++j) { LD m = A(i, j); if(m == 0.0L) continue; s -= m * x[l].v[j]; ab += fabsl(m) * (fabsl(x[l].v[j]) + x[l].e[j]); er += fabsl(m) * x[l].e[j]; }
        d.v[i] = s; d.e[i] = er + K * LD(A.c + 3) * U * ab; maxabs = std::max(maxabs, ab);
      }
      filt(d, l); return d;
    }
    void axpy(EV& y, const EV& cc, LD om, LD eom) const
    {
      for(int i = 0; i < y.n(); ++i)
      {
        LD ab = fabsl(y.v[i]) + y.e[i] + (fabsl(om) + eom) * (fabsl(cc.v[i]) + cc.e[i]);
        y.e[i] = y.e[i] + fabsl(om) * cc.e[i] + eom * (fabsl(cc.v[i]) + cc.e[i]) + K * 3.0L * U * ab;
        y.v[i] += om * cc.v[i]; maxabs = std::max(maxabs, ab);
      }
    }
    void dot(const EV& p, const EV& q, LD& val, LD& err) const
    {
      LD s = 0, ab = 0, er = 0;
      for(int i = 0; i < p.n(); ++i) { s += p.v[i] * q.v[i]; ab += (fabsl(p.v[i]) + p.e[i]) * (fabsl(q.v[i]) + q.e[i]); er += fabsl(p.v[i]) * q.e[i] + fabsl(q.v[i]) * p.e[i] + p.e[i] * q.e[i]; }
      val = s; err = er + K * LD(p.n() + 2) * U * ab;
    }
    void ev(int l, int role) { tr.push_back("L" + std::to_string(l) + ":" + std::to_string(L[l].role[role])); trh.push_back(std::string(role_names[role]) + "@L" + std::to_string(l)); }
    void evt(int l, const char* what) { tr.push_back("L" + std::to_string(l) + ":" + what); trh.push_back(std::string(what) + "@L" + std::to_string(l)); }

    // --- the building blocks of the documented cycles
    /// level entered from above: pre-smoothing of the zero initial guess, or the documented fallback sol:=0
    void enter(int l) { has_dupd[l] = 0; if(L[l].role[PRE] >= 0) { ev(l, PRE); x[l] = mv(L[l].ops[L[l].role[PRE]], b[l]); } else x[l] = EV(L[l].n); }
    /// restrict the current (filtered) defect of level l
    void down(int l) { EV d = defect(l); evt(l, "rest"); EV r = mv(L[l].R, d); filt(r, l + 1); b[l + 1] = r; }
    /// coarse level: the coarse solver, or the documented fallback sol := filter_cor(rhs)
    void solve(int l) { has_dupd[l] = 0; if(L[l].role[CRS] >= 0) { ev(l, CRS); x[l] = mv(L[l].ops[L[l].role[CRS]], b[l]); } else { x[l] = b[l]; filt(x[l], l); } }
    /// coarse grid correction x_l += omega * F P x_{l+1}; omega = 1 or the energy / defect minimiser
    void up(int l)
    {
      evt(l, "prol"); EV cc = mv(L[l].P, x[l + 1]); filt(cc, l);
      has_dupd[l] = 0;
      if(adapt == 0) { axpy(x[l], cc, 1.0L, 0.0L); return; }
      ++n_omega;
      bool zero = true; for(int i = 0; i < cc.n(); ++i) if(cc.v[i] != 0.0L || cc.e[i] != 0.0L) zero = false;
      if(zero) { zero_cor = true; omegas.push_back(0.0); return; } // every omega minimises: the iterate must stay unchanged
      EV d = defect(l); EV tt = mv(L[l].A, cc); filt(tt, l);
      LD num, en, den, ed;
      if(adapt == 1) { dot(d, cc, num, en); dot(tt, cc, den, ed); }   // energy:  <d,c> / <Ac,c>
      else { dot(d, tt, num, en); dot(tt, tt, den, ed); }             // defect:  <d,Ac> / <Ac,Ac>
      if(!(fabsl(den) > 8.0L * ed) || den == 0.0L) { illcond = true; omegas.push_back(0.0); return; }
      LD om = num / den; LD eom = (en + fabsl(om) * ed) / (fabsl(den) - ed) + K * U * fabsl(om);
      // the closed form really is the minimiser (self-check of the oracle against the property text)
      {
        auto fun = [&](LD w) { LD f = 0; if(adapt == 1) { /* 1/2 w^2 <Ac,c> - w <d,c> */ f = 0.5L * w * w * den - w * num; } else { for(int i = 0; i < d.n(); ++i) { LD r = d.v[i] - w * tt.v[i]; f += r * r; } } return f; };
        LD h = std::max(fabsl(om), 1.0L) * 1e-3L; LD f0 = fun(om);
        VF_CHECK(fun(om + h) >= f0 && fun(om - h) >= f0, "oracle self-check: closed-form omega is not the minimiser");
      }
      omegas.push_back((double)om);
      axpy(x[l], cc, om, eom);
      // feat3 updates the defect as d - omega*A*c before post-smoothing: bound of that evaluation path
      EV du = d; axpy(du, tt, -om, eom); filt(du, l); dupd[l] = du; has_dupd[l] = 1;
    }
    void smooth(int l, int role)
    {
      EV d = defect(l);
      if(has_dupd[l]) { for(int i = 0; i < d.n(); ++i) d.e[i] = std::max(d.e[i], dupd[l].e[i] + fabsl(dupd[l].v[i] - d.v[i])); has_dupd[l] = 0; }
      ev(l, role); EV s = mv(L[l].ops[L[l].role[role]], d); axpy(x[l], s, 1.0L, 0.0L);
    }
    void post(int l) { if(L[l].role[POST] >= 0) smooth(l, POST); has_dupd[l] = 0; }
    /// peak smoothing; without a peak smoother: the pre- and the post-smoother (if given), in this order
    void peak(int l)
    {
      has_dupd[l] = 0;
      if(L[l].role[PEAK] >= 0) smooth(l, PEAK);
      else { if(L[l].role[PRE] >= 0) smooth(l, PRE); if(L[l].role[POST] >= 0) smooth(l, POST); }
    }

    // --- the cycles, recursively (feat3 is iterative/counter based)
    void V(int l) { if(l == crs) { solve(l); return; } enter(l); down(l); V(l + 1); up(l); post(l); }
    /// F: like V on the top level; on every inner level a second visit of the coarser levels (as a V) after a peak
    void F(int l) { if(l == crs) { solve(l); return; } enter(l); down(l); F(l + 1); up(l); if(l != top) { peak(l); down(l); V(l + 1); up(l); } post(l); }
    /// W: two recursive visits on every level including the top, separated by a peak
    void W(int l) { if(l == crs) { solve(l); return; } enter(l); down(l); W(l + 1); up(l); peak(l); down(l); W(l + 1); up(l); post(l); }

    EV run(int cyc, int top_, int crs_, int adapt_, const std::vector<LD>& defect_in)
    {
      top = top_; crs = crs_; adapt = adapt_; tr.clear(); trh.clear(); illcond = false; zero_cor = false; n_omega = 0; omegas.clear(); maxabs = 0;
      for(auto& hd : has_dupd) hd = 0;
      b[top] = EV(L[top].n); b[top].v = defect_in;
      switch(cyc) { case 0: V(top); break; case 1: F(top); break; default: W(top); }
      return x[top];
    }
  };

  // ------------------------------------------------------------------------------------------
  // structural facts straight from the property text, checked on feat3's own transfer events
  // ------------------------------------------------------------------------------------------
  inline void check_structure(const std::vector<std::string>& tr, int cyc, int top, int crs, bool have_crs_solver, int crs_obj)
  {
    std::vector<std::pair<char, int>> T; int n_crs = 0;
    for(auto& s : tr)
    {
      size_t p = s.find(':'); int l = atoi(s.c_str() + 1); std::string w = s.substr(p + 1);
      if(w == "rest") T.emplace_back('r', l); else if(w == "prol") T.emplace_back('p', l);
      else if(l == crs && have_crs_solver && atoi(w.c_str()) == crs_obj) ++n_crs;
    }
    const int Lv = crs - top; static const char* cn = "VFW";
    long exp_solves = cyc == 0 ? 1 : (cyc == 1 ? std::max(Lv, 1) : (1L << Lv));
    if(Lv == 0)
    {
      VF_CHECK(T.empty(), "single-level range but " << T.size() << " transfer events");
    }
    else
    {
      long visits = 0; std::vector<int> peaks;
      for(size_t k = 0; k + 1 < T.size(); ++k)
      {
        if(T[k].first == 'r' && T[k].second == crs - 1 && T[k + 1].first == 'p' && T[k + 1].second == crs - 1) ++visits;
        if(T[k].first == 'p' && T[k + 1].first == 'r' && T[k].second == T[k + 1].second) peaks.push_back(T[k].second);
        // transfers move one level at a time
        int a = T[k].first == 'r' ? T[k].second + 1 : T[k].second, bb = T[k + 1].first == 'r' ? T[k + 1].second : T[k + 1].second + 1;
        VF_CHECK(a == bb, cn[cyc] << "-cycle: transfer events jump between levels at transfer event " << k);
      }
      VF_CHECK(!T.empty() && T.front() == std::make_pair('r', top) && T.back() == std::make_pair('p', top), cn[cyc] << "-cycle does not start with a restriction from / end with a prolongation to the top level");
      VF_CHECK(visits == exp_solves, cn[cyc] << "-cycle over " << Lv << " levels above the coarse level visited the coarse level " << visits << " times, documented: " << exp_solves);
      std::vector<int> exp_peaks;
      if(cyc == 1) for(int p = crs - 1; p > top; --p) exp_peaks.push_back(p);
      if(cyc == 2) for(long k = 1; k < (1L << Lv); ++k) exp_peaks.push_back(crs - 1 - __builtin_ctzl((unsigned long)k));
      std::ostringstream a, e; for(int p : peaks) a << p << ' '; for(int p : exp_peaks) e << p << ' ';
      VF_CHECK(peaks == exp_peaks, cn[cyc] << "-cycle peak levels visited: [" << a.str() << "] documented order: [" << e.str() << "]");
    }
    if(have_crs_solver) VF_CHECK(n_crs == exp_solves, cn[cyc] << "-cycle called the coarse solver " << n_crs << " times, documented: " << exp_solves);
  }

  // ------------------------------------------------------------------------------------------
  // feat3-side mocks
  // ------------------------------------------------------------------------------------------
  template<typename B>
  struct MockSolver : public FEAT::Solver::SolverBase<typename B::V>
  {
    typedef typename B::V V; typedef typename B::DT DT;
    std::string evname; int n; std::vector<DT> S;
    MockSolver(const std::string& e, int nn, std::vector<DT>&& s) : evname(e), n(nn), S(std::move(s)) {}
    virtual String name() const override { return "c09mock"; }
    virtual FEAT::Solver::Status apply(V& cor, const V& def) override
    {
      trace().push_back(evname);
      VF_CHECK(B::size(cor) == n && B::size(def) == n, "solver object " << evname << " called with vectors of size " << B::size(cor) << "/" << B::size(def) << ", level size " << n);
      VF_CHECK(B::data(cor) != B::data(def), "solver object " << evname << " called with aliased vectors");
      const DT* d = B::data(def); DT* c = B::data(cor);
      for(int i = 0; i < n; ++i) { DT s = DT(0); for(int j = 0; j < n; ++j) s += S[size_t(i) * n + j] * d[j]; c[i] = s; }
      return FEAT::Solver::Status::success;
    }
  };

  /// the backend's real transfer operator (LAFEM::Transfer / Global::Transfer) with logging rest/prol
  template<typename B>
  struct LogTransfer : public B::T0
  {
    typedef typename B::T0 Base; typedef typename Base::VectorType VectorType; typedef typename B::LM LM;
    int lvl;
    LogTransfer(LM&& p, LM&& r, int l) : Base(B::make_transfer(std::move(p), std::move(r))), lvl(l) {}
    LogTransfer(LogTransfer&& o) : Base(std::move(static_cast<Base&>(o))), lvl(o.lvl) {}
    bool rest(const VectorType& f, VectorType& c) const { trace().push_back("L" + std::to_string(lvl) + ":rest"); return Base::rest(f, c); }
    bool prol(VectorType& f, const VectorType& c) const { trace().push_back("L" + std::to_string(lvl) + ":prol"); return Base::prol(f, c); }
  };
} // namespace c09
