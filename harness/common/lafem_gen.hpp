// lafem_gen.hpp - generators and dense oracles for LAFEM containers (shared by C01-C06, C20 ...)
#pragma once
#include "vf.hpp"
#include <kernel/runtime.hpp>
#include <kernel/lafem/sparse_matrix_csr.hpp>
#include <kernel/lafem/sparse_matrix_bcsr.hpp>
#include <kernel/lafem/sparse_matrix_cscr.hpp>
#include <kernel/lafem/sparse_matrix_banded.hpp>
#include <kernel/lafem/dense_matrix.hpp>
#include <kernel/lafem/dense_vector.hpp>
#include <kernel/lafem/dense_vector_blocked.hpp>
#include <kernel/adjacency/graph.hpp>

namespace vf
{
  using namespace FEAT;
  using namespace FEAT::LAFEM;

  // ------------------------------------------------------------------------------------------
  // pattern + values
  // ------------------------------------------------------------------------------------------
  struct Pat
  {
    int rows = 0, cols = 0;
    std::vector<std::vector<int>> col;      // sorted distinct column indices per row
    std::vector<std::vector<double>> val;   // matching values (one scalar per entry; blocks derive more)
    std::string cls;
    long nnz() const { long n = 0; for(auto& r : col) n += (long)r.size(); return n; }
    bool has_empty_row() const { for(auto& r : col) if(r.empty()) return true; return false; }
    bool has_empty_col() const { std::vector<char> s(cols, 0); for(auto& r : col) for(int c : r) s[c] = 1; for(char x : s) if(!x) return true; return false; }
    J json() const
    {
      J j = J::obj(); j.set("rows", rows); j.set("cols", cols); j.set("class", cls);
      J e = J::arr();
      for(int i = 0; i < rows; ++i) for(size_t k = 0; k < col[i].size(); ++k) { J t = J::arr(); t.add(i); t.add(col[i][k]); t.add(val[i][k]); e.add(t); }
      j.set("entries", e); return j;
    }
  };

  static const char* pat_class_names[] = { "random", "entry-free", "single", "diagonal", "empty-rows", "empty-cols", "full", "banded", "symmetric", "nz-diag" };

  /// pattern generator by construction. valcls: value class of Tape::real. square: force rows==cols.
  /// force_cls >= 0 selects the class.
  inline Pat gen_pattern(Tape& t, int maxdim, int valcls, bool square = false, int force_cls = -1, int mindim = 0, int fixed_rows = -1, int fixed_cols = -1)
  {
    Pat p;
    int cls = force_cls >= 0 ? force_cls : t.pick({30, 6, 5, 5, 10, 8, 6, 8, 6, 6});
    p.cls = pat_class_names[cls];
    p.rows = fixed_rows >= 0 ? fixed_rows : t.sized(mindim, maxdim); p.cols = fixed_cols >= 0 ? fixed_cols : (square ? p.rows : t.sized(mindim, maxdim));
    p.col.assign(p.rows, {}); p.val.assign(p.rows, {});
    if(p.rows == 0 || p.cols == 0) return p;
    auto addv = [&](int i, int j) { p.col[i].push_back(j); p.val[i].push_back(t.real(valcls)); };
    switch(cls)
    {
    case 0: case 4: case 5: case 9: {
      unsigned den = 10, num = (unsigned)t.range(0, 9); // density 0..0.9 (0 first)
      std::vector<char> skiprow(p.rows, 0), skipcol(p.cols, 0);
      if(cls == 4) { for(int i = 0; i < p.rows; ++i) skiprow[i] = t.flag(1, 3); skiprow[t.range(0, p.rows - 1)] = 1; }
      if(cls == 5) { for(int j = 0; j < p.cols; ++j) skipcol[j] = t.flag(1, 3); skipcol[t.range(0, p.cols - 1)] = 1; }
      for(int i = 0; i < p.rows; ++i) for(int j = 0; j < p.cols; ++j)
      {
        bool on = t.flag(num, den);
        if(cls == 9 && i == j) on = true;
        if(skiprow[i] || skipcol[j]) on = false;
        if(on) addv(i, j);
      }
      if(cls == 9) for(int i = 0; i < std::min(p.rows, p.cols); ++i) for(size_t k = 0; k < p.col[i].size(); ++k) if(p.col[i][k] == i && p.val[i][k] == 0.0) p.val[i][k] = 1.0 + i;
      break; }
    case 1: break;
    case 2: { int i = t.range(0, p.rows - 1), j = t.range(0, p.cols - 1); addv(i, j); break; }
    case 3: for(int i = 0; i < std::min(p.rows, p.cols); ++i) addv(i, i); break;
    case 6: for(int i = 0; i < p.rows; ++i) for(int j = 0; j < p.cols; ++j) addv(i, j); break;
    case 7: { int lo = t.range(0, 3), hi = t.range(0, 3); for(int i = 0; i < p.rows; ++i) for(int j = std::max(0, i - lo); j <= std::min(p.cols - 1, i + hi); ++j) if(t.flag(3, 4)) addv(i, j); break; }
    case 8: {
      int n = std::min(p.rows, p.cols); unsigned num = (unsigned)t.range(1, 6);
      std::vector<std::vector<char>> m(p.rows, std::vector<char>(p.cols, 0));
      for(int i = 0; i < n; ++i) for(int j = 0; j <= i; ++j) if(t.flag(num, 10)) { m[i][j] = 1; m[j][i] = 1; }
      for(int i = 0; i < p.rows; ++i) for(int j = 0; j < p.cols; ++j) if(m[i][j]) addv(i, j);
      break; }
    }
    return p;
  }

  /// random vector values
  inline std::vector<double> gen_values(Tape& t, size_t n, int valcls) { std::vector<double> v(n); for(auto& x : v) x = t.real(valcls); return v; }

  // ------------------------------------------------------------------------------------------
  // dense oracle matrix
  // ------------------------------------------------------------------------------------------
  struct Dense
  {
    long r = 0, c = 0; std::vector<long double> a; std::vector<char> stored; // stored: entry is part of the pattern
    Dense() {}
    Dense(long rr, long cc) : r(rr), c(cc), a((size_t)(rr * cc), 0.0L), stored((size_t)(rr * cc), 0) {}
    long double& operator()(long i, long j) { return a[(size_t)(i * c + j)]; }
    long double operator()(long i, long j) const { return a[(size_t)(i * c + j)]; }
    char& st(long i, long j) { return stored[(size_t)(i * c + j)]; }
    char st(long i, long j) const { return stored[(size_t)(i * c + j)]; }
    Dense transposed() const { Dense t(c, r); for(long i = 0; i < r; ++i) for(long j = 0; j < c; ++j) { t(j, i) = (*this)(i, j); t.st(j, i) = st(i, j); } return t; }
    bool same_values(const Dense& o) const { return r == o.r && c == o.c && a == o.a; }
  };

  // ------------------------------------------------------------------------------------------
  // builders (through the constructors real callers use)
  // ------------------------------------------------------------------------------------------
  template<typename DT, typename IT>
  SparseMatrixCSR<DT, IT> make_csr(const Pat& p)
  {
    typedef SparseMatrixCSR<DT, IT> M;
    long nnz = p.nnz();
    if(nnz == 0) return M(Index(p.rows), Index(p.cols)); // entry-free: the representation feat3 itself produces
    DenseVector<IT, IT> ci((Index)nnz), rp(Index(p.rows + 1)); DenseVector<DT, IT> v((Index)nnz);
    Index k = 0; rp.elements()[0] = IT(0);
    for(int i = 0; i < p.rows; ++i) { for(size_t q = 0; q < p.col[i].size(); ++q) { ci.elements()[k] = IT(p.col[i][q]); v.elements()[k] = DT(p.val[i][q]); ++k; } rp.elements()[i + 1] = IT(k); }
    return M(Index(p.rows), Index(p.cols), ci, v, rp);
  }

  inline Adjacency::Graph make_graph(const Pat& p)
  {
    Adjacency::Graph g(Index(p.rows), Index(p.cols), Index(p.nnz()));
    Index* dp = g.get_domain_ptr(); Index* ii = g.get_image_idx(); Index k = 0; dp[0] = 0;
    for(int i = 0; i < p.rows; ++i) { for(int c : p.col[i]) ii[k++] = Index(c); dp[i + 1] = k; }
    return g;
  }

  /// block value for entry (value v at block-entry e, local (bi,bj)): deterministic variation so blocks are not constant
  inline double block_val(double v, int bi, int bj, int w) { return v == 0.0 ? 0.0 : v + double(bi * w + bj) * (v > 0 ? 0.5 : -0.25) * ((bi + bj) % 2 ? -1.0 : 1.0); }

  template<typename DT, typename IT, int H, int W>
  SparseMatrixBCSR<DT, IT, H, W> make_bcsr(const Pat& p)
  {
    typedef SparseMatrixBCSR<DT, IT, H, W> M;
    Adjacency::Graph g = make_graph(p);
    M m(g);
    if(p.nnz() == 0) return m;
    DT* v = m.template val<Perspective::pod>(); Index k = 0;
    for(int i = 0; i < p.rows; ++i) for(size_t q = 0; q < p.col[i].size(); ++q, ++k)
      for(int bi = 0; bi < H; ++bi) for(int bj = 0; bj < W; ++bj) v[k * Index(H * W) + Index(bi * W + bj)] = DT(block_val(p.val[i][q], bi, bj, W));
    return m;
  }

  template<typename DT, typename IT>
  SparseMatrixCSCR<DT, IT> make_cscr(const Pat& p)
  {
    typedef SparseMatrixCSCR<DT, IT> M;
    long nnz = p.nnz();
    if(nnz == 0) return M(Index(p.rows), Index(p.cols));
    Index ur = 0; for(auto& r : p.col) if(!r.empty()) ++ur;
    DenseVector<IT, IT> ci((Index)nnz), rp(ur + 1), rn(ur); DenseVector<DT, IT> v((Index)nnz);
    Index k = 0, q = 0; rp.elements()[0] = IT(0);
    for(int i = 0; i < p.rows; ++i)
    {
      if(p.col[i].empty()) continue;
      for(size_t s = 0; s < p.col[i].size(); ++s) { ci.elements()[k] = IT(p.col[i][s]); v.elements()[k] = DT(p.val[i][s]); ++k; }
      rn.elements()[q] = IT(i); rp.elements()[++q] = IT(k);
    }
    return M(Index(p.rows), Index(p.cols), ci, v, rp, rn);
  }

  template<typename DT, typename IT>
  DenseMatrix<DT, IT> make_densem(const Pat& p)
  {
    DenseMatrix<DT, IT> m(Index(p.rows), Index(p.cols), DT(0));
    for(int i = 0; i < p.rows; ++i) for(size_t q = 0; q < p.col[i].size(); ++q) m(Index(i), Index(p.col[i][q]), DT(p.val[i][q]));
    return m;
  }

  /// banded description: offsets (strictly increasing in [0, rows+cols-1)) and values per (offset,row)
  struct Band
  {
    int rows = 0, cols = 0; std::vector<int> offs; std::vector<double> val; // val[k*rows+i]
    J json() const { J j = J::obj(); j.set("rows", rows); j.set("cols", cols); j.set("offsets", J(offs)); j.set("val", J(val)); return j; }
  };
  inline Band gen_band(Tape& t, int maxdim, int valcls)
  {
    Band b; b.rows = t.sized(1, maxdim); b.cols = t.flag(1, 3) ? t.sized(1, maxdim) : b.rows;
    int nd = b.rows + b.cols - 1;
    int cls = t.pick({4, 2, 2, 2, 1}); // random subset / only sub-diagonals / only super / without main / all
    for(int k = 0; k < nd; ++k)
    {
      // offset k <-> col = row + k + 1 - rows ; main diagonal is k = rows-1
      bool on = false;
      switch(cls) { case 0: on = t.flag(1, 3); break; case 1: on = (k < b.rows - 1) && t.flag(1, 2); break; case 2: on = (k > b.rows - 1) && t.flag(1, 2); break;
        case 3: on = (k != b.rows - 1) && t.flag(1, 2); break; default: on = true; }
      if(on) b.offs.push_back(k);
    }
    if(b.offs.empty()) b.offs.push_back(t.range(0, nd - 1));
    b.val.resize(b.offs.size() * (size_t)b.rows);
    for(auto& x : b.val) x = t.real(valcls);
    return b;
  }
  template<typename DT, typename IT>
  SparseMatrixBanded<DT, IT> make_banded(const Band& b)
  {
    DenseVector<DT, IT> v(Index(b.val.size())); DenseVector<IT, IT> o(Index(b.offs.size()));
    for(size_t k = 0; k < b.val.size(); ++k) v.elements()[k] = DT(b.val[k]);
    for(size_t k = 0; k < b.offs.size(); ++k) o.elements()[k] = IT(b.offs[k]);
    return SparseMatrixBanded<DT, IT>(Index(b.rows), Index(b.cols), v, o);
  }

  // ------------------------------------------------------------------------------------------
  // dense views from raw arrays + structural validators (throw vf::Fail on violation)
  // ------------------------------------------------------------------------------------------
  template<typename DT, typename IT>
  Dense dense_of(const SparseMatrixCSR<DT, IT>& m, bool validate = true)
  {
    Dense d((long)m.rows(), (long)m.columns());
    Index ue = m.used_elements();
    if(ue == 0) { return d; }
    const IT* rp = m.row_ptr(); const IT* ci = m.col_ind(); const DT* v = m.val();
    VF_CHECK(rp != nullptr && ci != nullptr && v != nullptr, "csr arrays missing although used_elements=" << ue);
    if(validate)
    {
      VF_CHECK(Index(rp[0]) == 0, "row_ptr[0]=" << rp[0]);
      VF_CHECK(Index(rp[m.rows()]) == ue, "row_ptr[rows]=" << rp[m.rows()] << " != used_elements " << ue);
      VF_CHECK(m.get_indices_size().at(0) == ue && m.get_elements_size().at(0) == ue && m.get_indices_size().at(1) == m.rows() + 1, "array sizes inconsistent");
    }
    for(Index i = 0; i < m.rows(); ++i)
    {
      if(validate) VF_CHECK(rp[i] <= rp[i + 1], "row_ptr not monotone at row " << i);
      for(IT k = rp[i]; k < rp[i + 1]; ++k)
      {
        if(validate) { VF_CHECK(Index(ci[k]) < m.columns(), "column index " << ci[k] << " out of range in row " << i); if(k > rp[i]) VF_CHECK(ci[k - 1] < ci[k], "column indices not strictly increasing in row " << i); }
        if(Index(k) < ue && Index(ci[k]) < m.columns()) { d((long)i, (long)ci[k]) += (long double)v[k]; d.st((long)i, (long)ci[k]) = 1; }
      }
    }
    return d;
  }

  template<typename DT, typename IT, int H, int W>
  Dense dense_of(const SparseMatrixBCSR<DT, IT, H, W>& m, bool validate = true)
  {
    Dense d((long)m.rows() * H, (long)m.columns() * W);
    Index ue = m.used_elements();
    if(ue == 0) return d;
    const IT* rp = m.row_ptr(); const IT* ci = m.col_ind(); const DT* v = m.template val<Perspective::pod>();
    VF_CHECK(rp != nullptr && ci != nullptr && v != nullptr, "bcsr arrays missing although used_elements=" << ue);
    if(validate) { VF_CHECK(Index(rp[0]) == 0, "row_ptr[0]=" << rp[0]); VF_CHECK(Index(rp[m.rows()]) == ue, "row_ptr[rows]=" << rp[m.rows()] << " != used_elements " << ue); }
    for(Index i = 0; i < m.rows(); ++i)
    {
      if(validate) VF_CHECK(rp[i] <= rp[i + 1], "row_ptr not monotone at row " << i);
      for(IT k = rp[i]; k < rp[i + 1]; ++k)
      {
        if(validate) { VF_CHECK(Index(ci[k]) < m.columns(), "column index out of range in row " << i); if(k > rp[i]) VF_CHECK(ci[k - 1] < ci[k], "column indices not strictly increasing in row " << i); }
        if(Index(k) < ue && Index(ci[k]) < m.columns())
          for(int bi = 0; bi < H; ++bi) for(int bj = 0; bj < W; ++bj) { d((long)i * H + bi, (long)ci[k] * W + bj) += (long double)v[Index(k) * Index(H * W) + Index(bi * W + bj)]; d.st((long)i * H + bi, (long)ci[k] * W + bj) = 1; }
      }
    }
    return d;
  }

  template<typename DT, typename IT>
  Dense dense_of(const SparseMatrixCSCR<DT, IT>& m, bool validate = true)
  {
    Dense d((long)m.rows(), (long)m.columns());
    Index ue = m.used_elements();
    if(ue == 0) return d;
    const IT* rp = m.row_ptr(); const IT* ci = m.col_ind(); const DT* v = m.val(); const IT* rn = m.row_numbers(); Index ur = m.used_rows();
    VF_CHECK(rp && ci && v && rn, "cscr arrays missing although used_elements=" << ue);
    if(validate) { VF_CHECK(Index(rp[0]) == 0, "row_ptr[0]=" << rp[0]); VF_CHECK(Index(rp[ur]) == ue, "row_ptr[used_rows]=" << rp[ur] << " != used_elements " << ue); }
    for(Index q = 0; q < ur; ++q)
    {
      if(validate) { VF_CHECK(Index(rn[q]) < m.rows(), "row number out of range"); if(q) VF_CHECK(rn[q - 1] < rn[q], "row numbers not strictly increasing"); VF_CHECK(rp[q] <= rp[q + 1], "row_ptr not monotone"); }
      for(IT k = rp[q]; k < rp[q + 1]; ++k)
      {
        if(validate) { VF_CHECK(Index(ci[k]) < m.columns(), "column index out of range"); if(k > rp[q]) VF_CHECK(ci[k - 1] < ci[k], "column indices not strictly increasing in compressed row " << q); }
        if(Index(k) < ue && Index(ci[k]) < m.columns() && Index(rn[q]) < m.rows()) { d((long)rn[q], (long)ci[k]) += (long double)v[k]; d.st((long)rn[q], (long)ci[k]) = 1; }
      }
    }
    return d;
  }

  template<typename DT, typename IT>
  Dense dense_of(const SparseMatrixBanded<DT, IT>& m, bool validate = true)
  {
    Dense d((long)m.rows(), (long)m.columns());
    Index no = m.num_of_offsets(); if(no == 0 || m.rows() == 0) return d;
    const IT* of = m.offsets(); const DT* v = m.val();
    VF_CHECK(of && v, "banded arrays missing");
    for(Index k = 0; k < no; ++k)
    {
      if(validate) { VF_CHECK(Index(of[k]) + 1 < m.rows() + m.columns(), "offset out of matrix"); if(k) VF_CHECK(of[k - 1] < of[k], "offsets not strictly increasing"); }
      for(Index i = 0; i < m.rows(); ++i)
      {
        long j = (long)i + (long)of[k] + 1 - (long)m.rows();
        if(j >= 0 && j < (long)m.columns()) { d((long)i, j) += (long double)v[k * m.rows() + i]; d.st((long)i, j) = 1; }
      }
    }
    return d;
  }

  template<typename DT, typename IT>
  Dense dense_of(const DenseMatrix<DT, IT>& m, bool = true)
  {
    Dense d((long)m.rows(), (long)m.columns());
    if(m.rows() * m.columns() == 0) return d;
    const DT* v = m.elements(); VF_CHECK(v != nullptr, "dense matrix array missing");
    for(Index i = 0; i < m.rows(); ++i) for(Index j = 0; j < m.columns(); ++j) { d((long)i, (long)j) = (long double)v[i * m.columns() + j]; d.st((long)i, (long)j) = 1; }
    return d;
  }

  /// expected dense matrix from the pattern description (DT narrowing applied)
  template<typename DT> Dense dense_of_pat(const Pat& p, int H = 1, int W = 1)
  {
    Dense d((long)p.rows * H, (long)p.cols * W);
    for(int i = 0; i < p.rows; ++i) for(size_t q = 0; q < p.col[i].size(); ++q)
      for(int bi = 0; bi < H; ++bi) for(int bj = 0; bj < W; ++bj)
      { double v = (H == 1 && W == 1) ? p.val[i][q] : block_val(p.val[i][q], bi, bj, W); d((long)i * H + bi, (long)p.col[i][q] * W + bj) = (long double)DT(v); d.st((long)i * H + bi, (long)p.col[i][q] * W + bj) = 1; }
    return d;
  }
  template<typename DT> Dense dense_of_band(const Band& b)
  {
    Dense d(b.rows, b.cols);
    for(size_t k = 0; k < b.offs.size(); ++k) for(int i = 0; i < b.rows; ++i) { long j = (long)i + b.offs[k] + 1 - b.rows; if(j >= 0 && j < b.cols) { d(i, j) = (long double)DT(b.val[k * b.rows + i]); d.st(i, j) = 1; } }
    return d;
  }

  // ------------------------------------------------------------------------------------------
  // byte snapshots of container arrays (operand immutability, clone probes)
  // ------------------------------------------------------------------------------------------
  template<typename C> std::string snapshot(const C& c)
  {
    std::string s;
    auto& el = c.get_elements(); auto& es = c.get_elements_size(); auto& in = c.get_indices(); auto& is = c.get_indices_size();
    for(size_t k = 0; k < el.size(); ++k) if(el[k] && es[k]) s.append((const char*)el[k], es[k] * sizeof(*el[k]));
    s += "|";
    for(size_t k = 0; k < in.size(); ++k) if(in[k] && is[k]) s.append((const char*)in[k], is[k] * sizeof(*in[k]));
    s += "|";
    for(auto x : c.get_scalar_index()) s.append((const char*)&x, sizeof x);
    return s;
  }

  // ------------------------------------------------------------------------------------------
  // tolerance (DESIGN 2.11): K * n * u * sum|terms| + tiny
  // ------------------------------------------------------------------------------------------
  template<typename DT> long double unit_roundoff() { return (long double)std::numeric_limits<DT>::epsilon() / 2.0L; }
  template<typename DT> long double tol_sum(long n, long double sumabs, long double K = 8.0L)
  {
    return K * (long double)(n + 2) * unit_roundoff<DT>() * sumabs + 16.0L * (long double)std::numeric_limits<DT>::min();
  }

  template<typename DT> struct TypeName;
  template<> struct TypeName<float> { static const char* n() { return "float"; } };
  template<> struct TypeName<double> { static const char* n() { return "double"; } };
  template<> struct TypeName<std::uint32_t> { static const char* n() { return "u32"; } };
  template<> struct TypeName<std::uint64_t> { static const char* n() { return "u64"; } };

  /// alpha classes: 0, 1, -1, tiny (<eps), generated
  template<typename DT> DT gen_alpha(Tape& t, std::string& cls)
  {
    switch(t.pick({4, 2, 2, 2, 1}))
    {
    case 0: { cls = "alpha-gen"; double a = t.real(2); if(a == 0.0) { cls = "alpha-0"; } return DT(a); }
    case 1: cls = "alpha-0"; return DT(0);
    case 2: cls = "alpha-1"; return DT(1);
    case 3: cls = "alpha--1"; return DT(-1);
    default: cls = "alpha-tiny"; return DT(std::numeric_limits<DT>::epsilon() / 4) * (t.flag() ? DT(-1) : DT(1));
    }
  }
} // namespace vf
