// c11_mesh.hpp - C11: models, generators, round-trip oracle, validity predicate, text sketch and fault mutators
// for the feat3 mesh file reader/writer.  Shared by the rapidcheck harness (c11_rt*) and the libFuzzer harness
// (c11_fuzz*).  Everything is a template over the root mesh type so that every shape lives in its own TU.
#pragma once
#include "vf.hpp"
#include <kernel/runtime.hpp>
#include <kernel/geometry/conformal_mesh.hpp>
#include <kernel/geometry/mesh_node.hpp>
#include <kernel/geometry/mesh_part.hpp>
#include <kernel/geometry/mesh_atlas.hpp>
#include <kernel/geometry/partition_set.hpp>
#include <kernel/geometry/mesh_file_reader.hpp>
#include <kernel/geometry/mesh_file_writer.hpp>
#include <kernel/geometry/common_factories.hpp>
#include <kernel/geometry/boundary_factory.hpp>
#include <kernel/util/xml_scanner.hpp>
#include <array>
#include <new>

namespace c11
{
  using namespace FEAT;
  using namespace FEAT::Geometry;
  using vf::J;

  typedef ConformalMesh<Shape::Hypercube<2>, 2, Real> MeshQ2;
  typedef ConformalMesh<Shape::Hypercube<3>, 3, Real> MeshH3;
  typedef ConformalMesh<Shape::Simplex<2>, 2, Real> MeshS2;
  typedef ConformalMesh<Shape::Simplex<3>, 3, Real> MeshS3;

  template<typename M> struct ShapeInfo;
  template<> struct ShapeInfo<MeshQ2> { static const char* tag() { return "q2"; } static const char* type() { return "conformal:hypercube:2:2"; } };
  template<> struct ShapeInfo<MeshH3> { static const char* tag() { return "h3"; } static const char* type() { return "conformal:hypercube:3:3"; } };
  template<> struct ShapeInfo<MeshS2> { static const char* tag() { return "s2"; } static const char* type() { return "conformal:simplex:2:2"; } };
  template<> struct ShapeInfo<MeshS3> { static const char* tag() { return "s3"; } static const char* type() { return "conformal:simplex:3:3"; } };

  template<int d, int dmax, typename F> inline void for_dims(F&& f)
  {
    if constexpr(d <= dmax) { f(std::integral_constant<int, d>()); for_dims<d + 1, dmax>(f); }
  }

  // ------------------------------------------------------------------------------------------------------------
  // bundle of the three objects one mesh file describes
  // ------------------------------------------------------------------------------------------------------------
  template<typename M> struct Bundle
  {
    std::unique_ptr<MeshAtlas<M>> atlas;          // declared first: destroyed last (the node points into it)
    std::unique_ptr<RootMeshNode<M>> node;
    PartitionSet ps;
    Bundle() : atlas(new MeshAtlas<M>()) {}
  };

  template<typename M> inline std::string write_bundle(const Bundle<M>& b, bool skip_internal = true, bool indent = true)
  {
    std::ostringstream os;
    { MeshFileWriter wr(os, indent); wr.write(b.node.get(), b.atlas.get(), &b.ps, skip_internal); }
    return os.str();
  }

  /// parse (throws what the reader throws)
  template<typename M> inline void parse_text(const std::string& txt, Bundle<M>& out)
  {
    std::istringstream iss(txt);
    MeshFileReader rd(iss);
    out.node = rd.parse<M>(*out.atlas, &out.ps);
  }
  template<typename M> inline void parse_texts(const std::vector<std::string>& txts, Bundle<M>& out)
  {
    std::deque<std::istringstream> iss;
    MeshFileReader rd;
    for(auto& t : txts) { iss.emplace_back(t); rd.add_stream(iss.back()); }
    out.node = rd.parse<M>(*out.atlas, &out.ps);
  }

  // ------------------------------------------------------------------------------------------------------------
  // access to protected chart members (legal: &Derived::member has type T Base::*)
  // ------------------------------------------------------------------------------------------------------------
  template<typename SM> struct CirclePeek : Atlas::Circle<SM>
  {
    typedef Atlas::Circle<SM> B;
    static J get(const B& c)
    {
      J j = J::obj(); j.set("type", "circle");
      const auto& mp = c.*(&CirclePeek::_midpoint);
      J m = J::arr(); m.add((double)mp[0]); m.add((double)mp[1]); j.set("mid", m);
      j.set("radius", (double)(c.*(&CirclePeek::_radius)));
      if(c.*(&CirclePeek::_have_domain))
      {
        double ta = c.*(&CirclePeek::_trafo_a), tb = c.*(&CirclePeek::_trafo_b);
        double l = -ta, r = l + 2.0 * Math::pi<double>() / tb;
        J d = J::arr(); d.add(l); d.add(r); j.set("dom", d);
      }
      return j;
    }
  };
  template<typename SM> struct BezierPeek : Atlas::Bezier<SM>
  {
    typedef Atlas::Bezier<SM> B;
    static J get(const B& c)
    {
      J j = J::obj(); j.set("type", "bezier"); j.set("closed", c.is_closed());
      j.set("orient", (double)(c.*(&BezierPeek::_orientation)));
      J vp = J::arr(); for(auto x : c.get_vertex_pointers()) vp.add((long long)x); j.set("vtx_ptr", vp);
      J w = J::arr(); for(const auto& p : c.get_world_points()) { J q = J::arr(); q.add((double)p[0]); q.add((double)p[1]); w.add(q); } j.set("world", w);
      J pa = J::arr(); for(const auto& p : c.*(&BezierPeek::_param)) pa.add((double)p[0]); j.set("param", pa);
      return j;
    }
  };
  template<typename M> struct SpherePeek : Atlas::Sphere<M>
  {
    typedef Atlas::Sphere<M> B;
    static J get(const B& c)
    {
      J j = J::obj(); j.set("type", "sphere");
      const auto& mp = c.*(&SpherePeek::_midpoint);
      J m = J::arr(); for(int k = 0; k < 3; ++k) m.add((double)mp[k]); j.set("mid", m);
      j.set("radius", (double)(c.*(&SpherePeek::_radius)));
      return j;
    }
  };
  template<typename M, typename Sub> struct ExtrudePeek : Atlas::Extrude<M, Sub>
  {
    typedef Atlas::Extrude<M, Sub> B;
    static void get(const B& c, J& j)
    {
      j.set("type", "extrude");
      const auto& o = c.*(&ExtrudePeek::_origin); const auto& f = c.*(&ExtrudePeek::_offset); const auto& r = c.*(&ExtrudePeek::_rotation);
      J jo = J::arr(); jo.add((double)o[0]); jo.add((double)o[1]); j.set("origin", jo);
      J jf = J::arr(); for(int k = 0; k < 3; ++k) jf.add((double)f[k]); j.set("offset", jf);
      J jr = J::arr(); for(int a = 0; a < 3; ++a) for(int b = 0; b < 3; ++b) jr.add((double)r(a, b)); j.set("rot", jr);
    }
  };

  template<typename M> struct SubMeshOf
  {
    typedef typename Shape::FaceTraits<typename M::ShapeType, 2>::ShapeType SubShape;
    typedef ConformalMesh<SubShape, 2, typename M::CoordType> Type;
  };

  /// chart -> model; returns {"type":"unknown"} for chart kinds the file format cannot express
  template<typename M> inline J chart_to_J(const Atlas::ChartBase<M>& ch)
  {
    if constexpr(M::world_dim == 2)
    {
      if(auto* p = dynamic_cast<const Atlas::Circle<M>*>(&ch)) return CirclePeek<M>::get(*p);
      if(auto* p = dynamic_cast<const Atlas::Bezier<M>*>(&ch)) return BezierPeek<M>::get(*p);
    }
    else
    {
      typedef typename SubMeshOf<M>::Type SM;
      if(auto* p = dynamic_cast<const Atlas::Sphere<M>*>(&ch)) return SpherePeek<M>::get(*p);
      if(auto* p = dynamic_cast<const Atlas::SurfaceMesh<M>*>(&ch))
      {
        J j = J::obj(); j.set("type", "surfmesh");
        const auto& sm = *p->_surface_mesh; const auto& vs = sm.get_vertex_set();
        J v = J::arr(); for(Index i = 0; i < vs.get_num_vertices(); ++i) { J q = J::arr(); for(int k = 0; k < 3; ++k) q.add((double)vs[i][k]); v.add(q); } j.set("vtx", v);
        const auto& is = sm.template get_index_set<2, 0>();
        J t = J::arr(); for(Index i = 0; i < is.get_num_entities(); ++i) { J q = J::arr(); for(int k = 0; k < 3; ++k) q.add((long long)is[i][k]); t.add(q); } j.set("tri", t);
        return j;
      }
      if(auto* p = dynamic_cast<const Atlas::Extrude<M, Atlas::Circle<SM>>*>(&ch))
      {
        J j = J::obj(); ExtrudePeek<M, Atlas::Circle<SM>>::get(*p, j); if(p->_sub_chart) j.set("sub", CirclePeek<SM>::get(*p->_sub_chart)); return j;
      }
      if(auto* p = dynamic_cast<const Atlas::Extrude<M, Atlas::Bezier<SM>>*>(&ch))
      {
        J j = J::obj(); ExtrudePeek<M, Atlas::Bezier<SM>>::get(*p, j); if(p->_sub_chart) j.set("sub", BezierPeek<SM>::get(*p->_sub_chart)); return j;
      }
    }
    J j = J::obj(); j.set("type", "unknown:" + ch.get_type()); return j;
  }

  // ------------------------------------------------------------------------------------------------------------
  // models of mesh / mesh part / partition (vf::J trees)
  // ------------------------------------------------------------------------------------------------------------
  template<typename M> inline J mesh_to_J(const M& m)
  {
    constexpr int dim = M::shape_dim;
    J j = J::obj();
    J ne = J::arr(); for(int d = 0; d <= dim; ++d) ne.add((long long)m.get_num_entities(d)); j.set("ne", ne);
    const auto& vs = m.get_vertex_set();
    J v = J::arr(); for(Index i = 0; i < vs.get_num_vertices(); ++i) { J p = J::arr(); for(int k = 0; k < M::world_dim; ++k) p.add((double)vs[i][k]); v.add(p); } j.set("vtx", v);
    J topo = J::obj();
    for_dims<1, dim>([&](auto dc) {
      constexpr int d = decltype(dc)::value;
      const auto& is = m.template get_index_set<d, 0>();
      J a = J::arr();
      for(Index i = 0; i < is.get_num_entities(); ++i) { J tp = J::arr(); for(int k = 0; k < is.num_indices; ++k) tp.add((long long)is[i][k]); a.add(tp); }
      topo.set(std::to_string(d), a);
    });
    j.set("topo", topo);
    return j;
  }

  template<typename M> inline J part_to_J(const MeshPart<M>& p, const std::string& chart)
  {
    constexpr int dim = M::shape_dim;
    J j = J::obj(); j.set("chart", chart); j.set("topology", p.has_topology());
    J ne = J::arr(); for(int d = 0; d <= dim; ++d) ne.add((long long)p.get_num_entities(d)); j.set("ne", ne);
    J trg = J::obj();
    for_dims<0, dim>([&](auto dc) {
      constexpr int d = decltype(dc)::value;
      const auto& ts = p.template get_target_set<d>();
      J a = J::arr(); for(Index i = 0; i < ts.get_num_entities(); ++i) a.add((long long)ts[i]);
      trg.set(std::to_string(d), a);
    });
    j.set("map", trg);
    if(p.has_topology())
    {
      J topo = J::obj();
      for_dims<1, dim>([&](auto dc) {
        constexpr int d = decltype(dc)::value;
        const auto& is = p.template get_index_set<d, 0>();
        J a = J::arr();
        for(Index i = 0; i < is.get_num_entities(); ++i) { J tp = J::arr(); for(int k = 0; k < is.num_indices; ++k) tp.add((long long)is[i][k]); a.add(tp); }
        topo.set(std::to_string(d), a);
      });
      j.set("topo", topo);
    }
    J at = J::obj();
    for(const auto& kv : p.get_mesh_attributes())
    {
      J a = J::obj(); a.set("dim", kv.second->get_dimension()); a.set("n", (long long)kv.second->get_num_values());
      J v = J::arr(); for(Index i = 0; i < kv.second->get_num_values(); ++i) for(int k = 0; k < kv.second->get_dimension(); ++k) v.add((double)(*kv.second)(i, k));
      a.set("v", v); at.set(kv.first, a);
    }
    j.set("attr", at);
    return j;
  }

  inline J partition_to_J(const Partition& p)
  {
    J j = J::obj(); j.set("name", std::string(p.get_name())); j.set("prio", p.get_priority()); j.set("level", p.get_level());
    j.set("ranks", (long long)p.get_num_patches()); j.set("elems", (long long)p.get_num_elements());
    const auto& g = p.get_patches(); J pa = J::arr();
    for(Index i = 0; i < g.get_num_nodes_domain(); ++i) { J r = J::arr(); for(auto it = g.image_begin(i); it != g.image_end(i); ++it) r.add((long long)*it); pa.add(r); }
    j.set("patches", pa); return j;
  }

  /// model of the whole bundle as the file format can express it
  template<typename M> inline J bundle_to_J(const Bundle<M>& b, bool skip_internal)
  {
    J j = J::obj();
    J ch = J::obj();
    if(b.atlas) for(const auto& kv : b.atlas->get_mesh_chart_map()) ch.set(kv.first, chart_to_J<M>(*kv.second));
    j.set("charts", ch);
    if(b.node && b.node->get_mesh()) j.set("mesh", mesh_to_J(*b.node->get_mesh()));
    J parts = J::obj();
    if(b.node)
      for(const auto& nm : b.node->get_mesh_part_names())
      {
        if(skip_internal && nm.starts_with('_')) continue;
        parts.set(nm, part_to_J<M>(*b.node->find_mesh_part(nm), b.node->find_mesh_part_chart_name(nm)));
      }
    j.set("parts", parts);
    J ps = J::arr(); for(const auto& p : b.ps.get_partitions()) ps.add(partition_to_J(p)); j.set("partitions", ps);
    return j;
  }

  // ------------------------------------------------------------------------------------------------------------
  // model comparison "to the printed precision".  Writer uses the default ostream precision (6 significant
  // digits): relative error <= 5e-6 per number (DESIGN 2.11).  Integers, strings, booleans, shapes: exact.
  //   key "rot"  : entries of the Extrude rotation matrix; the file stores three angles in revolutions with 6
  //                digits => absolute error per entry <= 3 * 2*pi*5e-6*0.5 < 5e-5
  //   keys "origin"/"offset" of an Extrude chart: absolute 3.4e-6 (the writer omits vectors with |v|^2 <= eps^0.7)
  //   key "dom"  : Circle parameter interval [l,r]; the chart stores (-l, 2pi/(r-l)) and the writer reconstructs
  //                r = l + 2pi/b, so r carries an absolute error of a few ulp of (|l|+|r|) on top of the printed one
  // ------------------------------------------------------------------------------------------------------------
  inline bool jnum(const J& a, double& v) { if(a.t == J::Int) { v = (double)a.i; return true; } if(a.t == J::Dbl) { v = a.d; return true; } return false; }
  inline bool jcmp(const J& a, const J& b, const std::string& path, std::string& why, double abs_tol = 0.0)
  {
    if(a.t == J::Int && b.t == J::Int) { if(a.i != b.i) { why = path + ": " + std::to_string(a.i) + " != " + std::to_string(b.i); return false; } return true; }
    double x, y;
    if(jnum(a, x) && jnum(b, y))
    {
      double tol = 5.0001e-6 * std::max(std::fabs(x), std::fabs(y)) + abs_tol + 1e-300;   // 1e-300: subnormal inputs lose digits when read back
      if(!(std::fabs(x - y) <= tol)) { char buf[160]; snprintf(buf, sizeof buf, ": %.17g vs %.17g (tol %.3g)", x, y, tol); why = path + buf; return false; }
      return true;
    }
    if(a.t != b.t) { why = path + ": type differs"; return false; }
    switch(a.t)
    {
    case J::Null: return true;
    case J::Bool: if(a.b != b.b) { why = path + ": bool differs"; return false; } return true;
    case J::Str: if(a.s != b.s) { why = path + ": '" + a.s + "' != '" + b.s + "'"; return false; } return true;
    case J::Arr:
      if(a.a.size() != b.a.size()) { why = path + ": length " + std::to_string(a.a.size()) + " != " + std::to_string(b.a.size()); return false; }
      for(size_t k = 0; k < a.a.size(); ++k) if(!jcmp(a.a[k], b.a[k], path + "[" + std::to_string(k) + "]", why, abs_tol)) return false;
      return true;
    case J::Obj:
      if(a.o.size() != b.o.size()) { why = path + ": key count " + std::to_string(a.o.size()) + " != " + std::to_string(b.o.size()); return false; }
      for(size_t k = 0; k < a.o.size(); ++k)
      {
        if(a.o[k].first != b.o[k].first) { why = path + ": key '" + a.o[k].first + "' != '" + b.o[k].first + "'"; return false; }
        double at = abs_tol;
        if(a.o[k].first == "rot") at = 5e-5;
        // Extrude::write() leaves out origin/offset whose squared norm is <= eps^0.7 (deliberate "is zero" test of the writer):
        // components below sqrt(eps^0.7) = 3.3e-6 may come back as 0
        if(a.o[k].first == "origin" || a.o[k].first == "offset") at = 3.4e-6;
        if(a.o[k].first == "dom" && a.o[k].second.a.size() == 2) { double l = 0, r = 0; jnum(a.o[k].second.a[0], l); jnum(a.o[k].second.a[1], r); at = 1e-12 * (std::fabs(l) + std::fabs(r)); }
        if(!jcmp(a.o[k].second, b.o[k].second, path + "/" + a.o[k].first, why, at)) return false;
      }
      return true;
    default: return true;
    }
  }

  // ------------------------------------------------------------------------------------------------------------
  // validity predicate of a parsed bundle: what "declared counts / dimensions / vertex-index ranges" means for the
  // objects in memory.  Returns "" when fine; "range:..." for violations the property says must have been rejected
  // by the reader; "weird:..." for inconsistencies the property does not speak about (no round trip is demanded
  // of such objects).
  // ------------------------------------------------------------------------------------------------------------
  inline bool has_nonfinite(const J& j)
  {
    if(j.t == J::Dbl) return !std::isfinite(j.d);
    for(const auto& x : j.a) if(has_nonfinite(x)) return true;
    for(const auto& kv : j.o) if(has_nonfinite(kv.second)) return true;
    return false;
  }
  template<typename M> inline std::string validate_bundle(const Bundle<M>& b)
  {
    constexpr int dim = M::shape_dim;
    std::string res;
    auto range = [&](const std::string& s) { if(res.empty() || res[0] == 'w') res = "range:" + s; };
    auto weird = [&](const std::string& s) { if(res.empty()) res = "weird:" + s; };
    const M* mesh = b.node ? b.node->get_mesh() : nullptr;
    if(mesh)
    {
      Index nv = mesh->get_num_entities(0);
      if(mesh->get_vertex_set().get_num_vertices() != nv) range("mesh vertex count");
      for_dims<1, dim>([&](auto dc) {
        constexpr int d = decltype(dc)::value;
        const auto& is = mesh->template get_index_set<d, 0>();
        if(is.get_num_entities() != mesh->get_num_entities(d)) range("mesh entity count dim " + std::to_string(d));
        for(Index i = 0; i < is.get_num_entities(); ++i) for(int k = 0; k < is.num_indices; ++k) if(is[i][k] >= nv) range("mesh vertex index dim " + std::to_string(d));
      });
    }
    if(b.node)
      for(const auto& nm_ : b.node->get_mesh_part_names())
      {
        const std::string nm(nm_);
        const MeshPart<M>* p = b.node->find_mesh_part(nm_);
        Index pnv = p->get_num_entities(0);
        for_dims<0, dim>([&](auto dc) {
          constexpr int d = decltype(dc)::value;
          const auto& ts = p->template get_target_set<d>();
          if(ts.get_num_entities() != p->get_num_entities(d)) range("part mapping count");
          if(mesh) for(Index i = 0; i < ts.get_num_entities(); ++i) if(ts[i] >= mesh->get_num_entities(d)) { if(d == 0) range("part '" + nm + "' vertex mapping index >= parent vertex count"); else weird("part mapping index dim>0 out of parent range"); }
        });
        if(p->has_topology())
          for_dims<1, dim>([&](auto dc) {
            constexpr int d = decltype(dc)::value;
            const auto& is = p->template get_index_set<d, 0>();
            if(is.get_num_entities() != p->get_num_entities(d)) weird("part topology lists entities of a dimension the part does not declare (faces missing from the part)");
            // indices in a <Topology> of a part are bound-checked by the reader; pnv+1 is the marker deduct_topology() leaves for
            // "vertex of a listed entity is not among the part's vertices" (topology="parent" with an incomplete vertex mapping)
            for(Index i = 0; i < is.get_num_entities(); ++i) for(int k = 0; k < is.num_indices; ++k) if(is[i][k] >= pnv) { if(is[i][k] == pnv + 1) weird("part entity refers to a parent vertex that is not mapped"); else range("part '" + nm + "' topology vertex index >= part vertex count"); }
          });
        for(const auto& kv : p->get_mesh_attributes())
        {
          if(kv.second->get_num_values() != pnv) range("attribute value count");
          if(kv.second->get_dimension() <= 0) range("attribute dimension");
        }
      }
    if(b.atlas)
      for(const auto& kv_ : b.atlas->get_mesh_chart_map())
      {
        const std::pair<std::string, const Atlas::ChartBase<M>*> kv(std::string(kv_.first), kv_.second.get());
        J c = chart_to_J<M>(*kv.second);
        // e.g. angles="0 0 1e308": 2*pi*1e308 overflows, the rotation matrix is NaN and the writer then leaves the angles out
        if(has_nonfinite(c)) weird("chart with non-finite numbers (overflow while reading)");
        const J* cc = &c;
        if(c.gets("type") == "extrude") { cc = c.get("sub"); if(!cc) { range("extrude without sub chart"); continue; } }
        std::string ty = cc->gets("type");
        if(ty == "bezier")
        {
          const J* vp = cc->get("vtx_ptr"); const J* w = cc->get("world"); const J* pa = cc->get("param");
          if(vp->a.size() < 2) range("bezier '" + kv.first + "' has " + std::to_string(vp->a.size()) + " points (declared size >= 2)");
          else if(!pa->a.empty() && pa->a.size() != vp->a.size()) range("bezier '" + kv.first + "' param count " + std::to_string(pa->a.size()) + " != point count " + std::to_string(vp->a.size()));
          for(auto& x : vp->a) if((size_t)x.i >= w->a.size()) range("bezier vertex pointer");
          double ori = 0; jnum(*cc->get("orient"), ori); if(ori != 1.0 && ori != -1.0) weird("bezier orientation is neither +1 nor -1 (the writer can only express -1)");
        }
        if(ty == "surfmesh")
        {
          size_t nv = cc->get("vtx")->a.size();
          for(auto& t : cc->get("tri")->a) for(auto& x : t.a) if((size_t)x.i >= nv) range("surfmesh '" + kv.first + "' triangle vertex index >= verts");
        }
        if(ty.rfind("unknown", 0) == 0) weird("chart kind");
      }
    for(const auto& p : b.ps.get_partitions())
    {
      const auto& g = p.get_patches();
      for(Index i = 0; i < g.get_num_nodes_domain(); ++i) for(auto it = g.image_begin(i); it != g.image_end(i); ++it) if(*it >= g.get_num_nodes_image()) range("patch element index");
    }
    return res;
  }

  // ------------------------------------------------------------------------------------------------------------
  // text sketch: a tolerant line scanner that mirrors Xml::Scanner's line model (trimmed non-empty lines; a line
  // is a markup iff it starts with '<' and ends with '>') - used to pick mutation sites in valid files and to
  // evaluate the input-class predicates of known findings on arbitrary fuzz input.
  // ------------------------------------------------------------------------------------------------------------
  struct SLine
  {
    size_t beg = 0, end = 0;            // byte range of the raw line in the text (without '\n')
    std::string txt;                    // trimmed
    bool markup = false, term = false, closed = false, comment = false;
    std::string name; std::map<std::string, std::string> attrs;
    std::vector<int> ctx;               // indices of the open markup lines enclosing this line (outermost first)
  };
  inline std::string trim(const std::string& s)
  {
    static const char* ws = " \a\b\f\n\r\t\v"; size_t a = s.find_first_not_of(ws); if(a == std::string::npos) return ""; size_t b = s.find_last_not_of(ws); return s.substr(a, b - a + 1);
  }
  inline std::vector<std::string> split_ws(const std::string& s)
  {
    std::vector<std::string> r; std::string cur; static const std::string ws = " \a\b\f\n\r\t\v";
    for(char c : s) { if(ws.find(c) != std::string::npos) { if(!cur.empty()) { r.push_back(cur); cur.clear(); } } else cur += c; }
    if(!cur.empty()) r.push_back(cur); return r;
  }
  struct Sketch
  {
    std::vector<SLine> lines;
    const SLine& open_of(const SLine& l, int up = 0) const { return lines[(size_t)l.ctx[l.ctx.size() - 1 - (size_t)up]]; }
    bool in(const SLine& l, const char* a, const char* b = nullptr) const
    {
      if(b == nullptr) return !l.ctx.empty() && open_of(l).name == a;
      return l.ctx.size() >= 2 && open_of(l).name == b && open_of(l, 1).name == a;
    }
  };
  inline Sketch sketch(const std::string& text)
  {
    Sketch sk; std::vector<int> stack; size_t pos = 0;
    while(pos <= text.size())
    {
      size_t e = text.find('\n', pos); if(e == std::string::npos) e = text.size();
      SLine l; l.beg = pos; l.end = e; l.txt = trim(text.substr(pos, e - pos)); pos = e + 1;
      if(l.txt.empty()) { if(e >= text.size()) break; continue; }
      l.ctx = stack;
      if(l.txt.rfind("<!--", 0) == 0) l.comment = true;
      else if(l.txt.front() == '<' && l.txt.back() == '>' && l.txt.size() >= 3)
      {
        l.markup = true; std::string d = trim(l.txt.substr(1, l.txt.size() - 2));
        if(!d.empty() && d.front() == '/') { l.term = true; d = trim(d.substr(1)); }
        else if(!d.empty() && d.back() == '/') { l.closed = true; d = trim(d.substr(0, d.size() - 1)); }
        size_t n0 = d.find_first_of(" \a\b\f\n\r\t\v"); l.name = d.substr(0, n0); d = n0 == std::string::npos ? "" : trim(d.substr(n0));
        while(!d.empty())
        {
          size_t p = d.find('='); if(p == std::string::npos) break;
          std::string k = trim(d.substr(0, p)); d = trim(d.substr(p + 1)); if(d.empty() || d.front() != '"') break;
          size_t q = d.find('"', 1); if(q == std::string::npos) break;
          l.attrs.emplace(k, trim(d.substr(1, q - 1))); d = trim(d.substr(q + 1));
        }
        if(l.term) { if(!stack.empty()) stack.pop_back(); l.ctx = stack; }
        else if(!l.closed) stack.push_back((int)sk.lines.size());
      }
      sk.lines.push_back(l);
      if(e >= text.size()) break;
    }
    return sk;
  }
  /// what `String::parse(Index&)` makes of a token (strtoull semantics incl. a leading minus); false if it fails
  inline bool parse_index(const std::string& tok, unsigned long long& v)
  {
    std::istringstream iss(trim(tok)); iss >> v; return !iss.fail();
  }

  // ------------------------------------------------------------------------------------------------------------
  // input classes of the known findings (evaluated on the text).  Each returns true if the text belongs to the
  // class; the fuzz target skips such inputs when the switch is excluded, the fault generator does not produce them.
  // ------------------------------------------------------------------------------------------------------------
  inline bool cls_dup_chart(const Sketch& sk)
  {
    std::set<std::string> seen;
    for(auto& l : sk.lines) if(l.markup && !l.term && l.name == "Chart" && l.ctx.size() == 1) { auto it = l.attrs.find("name"); if(it != l.attrs.end() && !seen.insert(it->second).second) return true; }
    return false;
  }
  inline bool cls_bezier_ctrl(const Sketch& sk)
  {
    for(auto& l : sk.lines) if(!l.markup && !l.comment && sk.in(l, "Bezier", "Points")) { auto tk = split_ws(l.txt); unsigned long long v = 0; if(!tk.empty() && parse_index(tk[0], v) && v >= (1ull << 31)) return true; }
    return false;
  }
  inline bool cls_mapping_dim(const Sketch& sk, int shape_dim)
  {
    for(auto& l : sk.lines) if(l.markup && !l.term && l.name == "Mapping" && sk.in(l, "MeshPart")) { auto it = l.attrs.find("dim"); unsigned long long v = 0; if(it != l.attrs.end() && parse_index(it->second, v) && v == (unsigned long long)(shape_dim + 1)) return true; }
    return false;
  }
  inline bool cls_surfmesh_index(const Sketch& sk)
  {
    for(auto& l : sk.lines) if(!l.markup && !l.comment && sk.in(l, "SurfaceMesh", "Triangles"))
    {
      unsigned long long nv = 0; auto it = sk.open_of(l, 1).attrs.find("verts"); if(it == sk.open_of(l, 1).attrs.end() || !parse_index(it->second, nv)) continue;
      auto tk = split_ws(l.txt); for(size_t k = 0; k < tk.size() && k < 3; ++k) { unsigned long long v = 0; if(parse_index(tk[k], v) && v >= nv) return true; }
    }
    return false;
  }
  /// SurfaceMesh triangulation with a degenerate triangle (repeated vertex) or an edge used by more than two triangle sides
  inline bool cls_surfmesh_nonmanifold(const Sketch& sk)
  {
    std::map<int, std::map<std::pair<unsigned long long, unsigned long long>, int>> edges;   // per <Triangles> block (index of its open line)
    for(auto& l : sk.lines) if(!l.markup && !l.comment && sk.in(l, "SurfaceMesh", "Triangles"))
    {
      auto tk = split_ws(l.txt); if(tk.size() < 3) continue; unsigned long long v[3]; bool ok = true; for(int k = 0; k < 3; ++k) ok = ok && parse_index(tk[(size_t)k], v[k]); if(!ok) continue;
      if(v[0] == v[1] || v[1] == v[2] || v[0] == v[2]) return true;
      for(int k = 0; k < 3; ++k) { auto e = std::make_pair(std::min(v[k], v[(k + 1) % 3]), std::max(v[k], v[(k + 1) % 3])); if(++edges[l.ctx.back()][e] > 2) return true; }
    }
    return false;
  }
  /// topology="parent" mesh part with a mapping entry that is >= the number of entities the (first) root mesh declares for
  /// that dimension (the class in which the post-parse topology deduction reads/writes out of bounds)
  inline bool cls_mapping_index(const Sketch& sk)
  {
    std::vector<unsigned long long> sizes;
    for(auto& l : sk.lines) if(l.markup && !l.term && l.name == "Mesh" && l.ctx.size() == 1 && sizes.empty()) { auto it = l.attrs.find("size"); if(it != l.attrs.end()) for(auto& t : split_ws(it->second)) { unsigned long long v = 0; parse_index(t, v); sizes.push_back(v); } }
    for(auto& l : sk.lines) if(!l.markup && !l.comment && sk.in(l, "MeshPart", "Mapping"))
    {
      unsigned long long d = 0, v = 0; auto it = sk.open_of(l).attrs.find("dim"); if(it == sk.open_of(l).attrs.end() || !parse_index(it->second, d)) continue;
      auto tt = sk.open_of(l, 1).attrs.find("topology"); if(tt == sk.open_of(l, 1).attrs.end() || tt->second != "parent" || sizes.empty()) continue;
      if(!parse_index(l.txt, v)) continue;
      if(d >= sizes.size() || v >= sizes[d]) return true;
    }
    return false;
  }
  /// topology="parent" mesh part that lists an entity (dim >= 1) of the first root mesh with a vertex that is not in the part's
  /// vertex mapping (deduct_topology marks such vertices with an out-of-range value and then computes on them)
  inline bool cls_parent_unmapped(const Sketch& sk)
  {
    std::map<unsigned long long, std::vector<std::vector<unsigned long long>>> topo; bool have = false;
    for(auto& l : sk.lines) if(!l.markup && !l.comment && sk.in(l, "Mesh", "Topology") && l.ctx.size() == 3)
    {
      unsigned long long d = 0; auto it = sk.open_of(l).attrs.find("dim"); if(it == sk.open_of(l).attrs.end() || !parse_index(it->second, d)) continue;
      std::vector<unsigned long long> tp; for(auto& tk : split_ws(l.txt)) { unsigned long long v = 0; parse_index(tk, v); tp.push_back(v); }
      topo[d].push_back(tp); have = true;
    }
    if(!have) return false;
    for(size_t i = 0; i < sk.lines.size(); ++i)
    {
      const auto& l = sk.lines[i]; if(!(l.markup && !l.term && l.name == "MeshPart" && l.ctx.size() == 1)) continue;
      auto tt = l.attrs.find("topology"); if(tt == l.attrs.end() || tt->second != "parent") continue;
      std::set<unsigned long long> verts; std::vector<std::pair<unsigned long long, unsigned long long>> ents;
      for(size_t k = i + 1; k < sk.lines.size() && sk.lines[k].ctx.size() >= 2; ++k)
      {
        const auto& m = sk.lines[k]; if(m.markup || m.comment || !sk.in(m, "MeshPart", "Mapping")) continue;
        unsigned long long d = 0, v = 0; auto it = sk.open_of(m).attrs.find("dim"); if(it == sk.open_of(m).attrs.end() || !parse_index(it->second, d) || !parse_index(m.txt, v)) continue;
        if(d == 0) verts.insert(v); else ents.emplace_back(d, v);
      }
      for(auto& e : ents) { auto it = topo.find(e.first); if(it == topo.end() || e.second >= it->second.size()) continue; for(auto v : it->second[(size_t)e.second]) if(!verts.count(v)) return true; }
    }
    return false;
  }
  /// Partition declaring more ranks than it has Patch children
  inline bool cls_partition_missing_patch(const Sketch& sk)
  {
    for(size_t i = 0; i < sk.lines.size(); ++i)
    {
      const auto& l = sk.lines[i]; if(!(l.markup && !l.term && l.name == "Partition" && l.ctx.size() == 1)) continue;
      auto it = l.attrs.find("size"); if(it == l.attrs.end()) continue; auto tk = split_ws(it->second); unsigned long long r = 0; if(tk.empty() || !parse_index(tk[0], r)) continue;
      unsigned long long blocks = 0;   // Patch blocks, whatever their rank attribute says (a repeated rank is not a count violation)
      for(size_t k = i + 1; k < sk.lines.size(); ++k) { const auto& m = sk.lines[k]; if(m.ctx.size() <= 1) break; if(m.markup && !m.term && m.name == "Patch" && m.ctx.size() == 2 && m.ctx.back() == (int)i) ++blocks; }
      if(blocks < r) return true;
    }
    return false;
  }
} // namespace c11
