// c14_core.hpp - C14: every named cubature rule is exact up to its nominal polynomial degree
//
// The name space is read from the tree itself (FactoryWrapper<Shape>::factory_no_refine / Scalar::FactoryWrapper with an own
// collector functor: driver names, [min_points,max_points] of variadic drivers, aliases, AutoAlias<Shape>::max_auto_degree);
// the *nominal degree* of a name comes from the literature the drivers cite (table nominal_degree() below) and the
// reference integrals are closed formulas evaluated in long double.  Included by c14_cub.cpp (plain names) and
// c14_cubp.cpp (FEAT_CUBATURE_TENSOR_PREFIX / FEAT_CUBATURE_SCALAR_PREFIX defined: "tensor:" / "scalar:" name variants).
#pragma once
#include "vf.hpp"
#include <kernel/runtime.hpp>
#include <kernel/cubature/dynamic_factory.hpp>
#include <kernel/cubature/scalar/dynamic_factory.hpp>
#include <sys/resource.h>

namespace c14
{
  using namespace FEAT;
  using namespace FEAT::Cubature;
  using vf::Tape; using vf::Ctx; using vf::J;

#if defined(FEAT_CUBATURE_TENSOR_PREFIX) || defined(FEAT_CUBATURE_SCALAR_PREFIX)
  static const bool prefix_build = true;
#else
  static const bool prefix_build = false;
#endif

  // failure kinds (text before the first ':' of the symptom is part of the failure signature that shrinking must keep):
  //   weightsum / inexact / resolve (answered with another rule than the name denotes) / refused (advertised name not served) /
  //   accepted (unknown name answered with a rule) / touched (refusal modified the rule object) / noexcept (refusal without UnknownRule)
  #define C14_CHECK(kind, cond, msg) do { if(!(cond)) { VF_FAIL(kind << ":" << msg); } } while(0)

  enum { S1 = 0, S2, S3, H1, H2, H3, SC, NSHAPES };
  inline const char* shape_name(int s) { static const char* n[] = {"Simplex<1>", "Simplex<2>", "Simplex<3>", "Hypercube<1>", "Hypercube<2>", "Hypercube<3>", "Scalar"}; return n[s]; }
  inline int shape_dim(int s) { return s == SC ? 1 : (s % 3) + 1; }
  inline bool is_simplex(int s) { return s < 3; }
  /// points per input point of one refinement step: 2^d children, except that feat3's tetrahedron refinement has 12 children
  /// (domain fact learned from a false alarm: refine:hammer-stroud-degree-3 on Simplex<3> has 5*12 points); only used to bound costs
  inline long refine_count(int s) { return s == S3 ? 12 : (1l << shape_dim(s)); }

  // ------------------------------------------------------------------------------------------------------------------
  // name space as advertised by the tree
  // ------------------------------------------------------------------------------------------------------------------
  struct Drv { std::string name; bool variadic; int lo, hi; };   // factory name as advertised (may carry a tensor:/scalar: prefix)
  struct Ali { std::string alias, target; int n; };              // n = -1: alias of a non-variadic driver
  struct Space { std::vector<Drv> drv; std::vector<Ali> ali; int max_auto = -1; };

  template<typename F_, bool var_ = (F_::variadic != 0)> struct Coll;
  template<typename F_> struct Coll<F_, false>
  {
    Space& sp; std::string nm;
    static void add(Space& sp) { Coll c{sp, std::string(F_::name())}; sp.drv.push_back({c.nm, false, 0, 0}); F_::alias(c); }
    void alias(const String& a) { sp.ali.push_back({std::string(a), nm, -1}); }
  };
  template<typename F_> struct Coll<F_, true>
  {
    Space& sp; std::string nm;
    static void add(Space& sp) { Coll c{sp, std::string(F_::name())}; sp.drv.push_back({c.nm, true, int(F_::min_points), int(F_::max_points)}); F_::alias(c); }
    void alias(const String& a, int n) { sp.ali.push_back({std::string(a), nm, n}); }
  };
  struct Collector { Space& sp; template<typename F_> void factory() { Coll<F_>::add(sp); } };

  template<typename Shape_> Space collect_shape() { Space sp; Collector c{sp}; FactoryWrapper<Shape_>::factory_no_refine(c); sp.max_auto = AutoAlias<Shape_>::max_auto_degree; return sp; }
  inline Space collect_scalar() { Space sp; Collector c{sp}; Scalar::FactoryWrapper::factory(c); return sp; }

  inline std::string strip_prefix(const std::string& n)
  {
    if(n.compare(0, 7, "tensor:") == 0) return n.substr(7);
    if(n.compare(0, 7, "scalar:") == 0) return n.substr(7);
    return n;
  }

  /// nominal degree from the literature the drivers cite (DESIGN C14); -1 = driver not in the oracle's table
  inline int nominal_degree(const std::string& drv_with_prefix, int n)
  {
    const std::string d = strip_prefix(drv_with_prefix);
    if(d == "gauss-legendre") return 2 * n - 1;
    if(d == "gauss-lobatto") return 2 * n - 3;
    if(d == "newton-cotes-closed" || d == "newton-cotes-open" || d == "maclaurin") return (n % 2) ? n : n - 1;
    if(d == "midpoint" || d == "barycentre" || d == "trapezoidal") return 1;
    if(d.compare(0, 21, "hammer-stroud-degree-") == 0) return atoi(d.c_str() + 21);
    if(d.compare(0, 15, "lauffer-degree-") == 0) return atoi(d.c_str() + 15);
    if(d == "dunavant" || d == "silvester-open") return n;
    if(d == "shunn-ham") { static const int t[] = {-1, -1, 2, 3, 5, 6, 8}; return (n >= 2 && n <= 6) ? t[n] : -1; }
    return -1;
  }
  /// does the un-refined rule consist of a single point? (non-trivial rule: >= 2 points)
  inline bool one_point(const std::string& drv_with_prefix, int n)
  {
    const std::string d = strip_prefix(drv_with_prefix);
    if(d == "midpoint" || d == "barycentre") return true;
    return (d == "gauss-legendre" || d == "maclaurin" || d == "newton-cotes-open") && n == 1;
  }

  struct Entry
  {
    std::string name;     // the name as requested
    std::string drv;      // driver behind it ("" for auto-degree)
    int n = -1;           // point-count parameter (-1: none); for auto-degree: the requested degree
    int degree = -1;      // nominal degree
    bool onept = false;
    bool is_alias = false, is_auto = false;
    std::string canon;    // name the created rule must report ("" = not predicted: auto-degree)
  };

  struct Names
  {
    Space sp[NSHAPES];
    std::vector<Entry> ent[NSHAPES];
    std::vector<std::pair<int, int>> all;  // (shape, index) in enumeration order
    std::string problem;                   // non-empty: the oracle table does not know a driver of the tree
  };

  inline const Names& names()
  {
    static Names* N = nullptr;
    if(N) return *N;
    N = new Names;
    N->sp[S1] = collect_shape<Shape::Simplex<1>>(); N->sp[S2] = collect_shape<Shape::Simplex<2>>(); N->sp[S3] = collect_shape<Shape::Simplex<3>>();
    N->sp[H1] = collect_shape<Shape::Hypercube<1>>(); N->sp[H2] = collect_shape<Shape::Hypercube<2>>(); N->sp[H3] = collect_shape<Shape::Hypercube<3>>();
    N->sp[SC] = collect_scalar();
    for(int s = 0; s < NSHAPES; ++s)
    {
      std::set<std::string> seen;
      auto push = [&](Entry e) { if(e.degree < 0 && N->problem.empty()) N->problem = std::string(shape_name(s)) + " '" + e.name + "'"; if(seen.insert(e.name).second) N->ent[s].push_back(e); };
      for(auto& d : N->sp[s].drv)
      {
        if(!d.variadic) { Entry e; e.name = d.name; e.drv = d.name; e.degree = nominal_degree(d.name, -1); e.onept = one_point(d.name, -1); e.canon = d.name; push(e); }
        else for(int n = d.lo; n <= d.hi; ++n) { Entry e; e.name = d.name + ":" + std::to_string(n); e.drv = d.name; e.n = n; e.degree = nominal_degree(d.name, n); e.onept = one_point(d.name, n); e.canon = e.name; push(e); }
      }
      for(auto& a : N->sp[s].ali)
      {
        Entry e; e.name = a.alias; e.drv = a.target; e.n = a.n; e.degree = nominal_degree(a.target, a.n); e.onept = one_point(a.target, a.n); e.is_alias = true;
        e.canon = a.n < 0 ? a.target : a.target + ":" + std::to_string(a.n); push(e);
      }
      for(int n = 1; n <= N->sp[s].max_auto; ++n)
      {
        Entry e; e.name = "auto-degree:" + std::to_string(n); e.n = n; e.degree = n; e.is_auto = true;
        // auto-degree:1 resolves to a one-point rule on every shape (barycentre / gauss-legendre:1)
        e.onept = (n <= 1); push(e);
      }
      for(size_t i = 0; i < N->ent[s].size(); ++i) N->all.emplace_back(s, (int)i);
    }
    return *N;
  }

  // ------------------------------------------------------------------------------------------------------------------
  // known findings (table typos of the pinned tree): exactly these base rules are steered around when switched off
  // ------------------------------------------------------------------------------------------------------------------
  inline const char* kf_switch(int shape, const std::string& canon)
  {
    if(shape != S2) return nullptr;
    if(canon == "dunavant:7") return "c14-dunavant7";
    if(canon == "dunavant:18") return "c14-dunavant18";
    if(canon == "silvester-open:5") return "c14-silvester5";
    if(canon == "silvester-open:6") return "c14-silvester6";
    return nullptr;
  }
  inline bool entry_excluded(Ctx& c, int shape, const Entry& e) { const char* sw = kf_switch(shape, e.canon); return sw && c.excl(sw); }

  // ------------------------------------------------------------------------------------------------------------------
  // rule creation through the public routes
  // ------------------------------------------------------------------------------------------------------------------
  struct Pts { int d = 0; long n = 0; std::vector<long double> w, x; std::string name; };
  enum Route { R_STATIC = 0, R_MEMBER, R_THROW, R_CTOR, NROUTES };
  inline const char* route_name(int r) { static const char* n[] = {"static-create", "member-create", "create_throw", "rule-ctor"}; return n[r]; }

  struct Made { bool ok = false; bool untouched = true; std::string refusal; Pts p; };

  template<typename Shape_, typename DT_> Made make_shape(const std::string& name, int route)
  {
    typedef Rule<Shape_, DT_, DT_, Tiny::Vector<DT_, Shape_::dimension>> RuleType;
    Made m; RuleType rule;
    switch(route)
    {
    case R_STATIC: m.ok = DynamicFactory::create(rule, String(name)); break;
    case R_MEMBER: { DynamicFactory f{String(name)}; m.ok = f.create(rule); break; }
    case R_THROW:
      {
        DynamicFactory f{String(name)};
        try { f.create_throw(rule); m.ok = true; }
        catch(const UnknownRule& e) { m.ok = false; m.refusal = e.what(); }
        break;
      }
    default:
      {
        DynamicFactory f{String(name)};
        try { RuleType r2(ctor_factory, f); rule = std::move(r2); m.ok = true; }
        catch(const UnknownRule& e) { m.ok = false; m.refusal = e.what(); }
        break;
      }
    }
    m.untouched = (rule.get_num_points() == 0) && rule.get_name().empty();
    if(m.ok)
    {
      constexpr int d = Shape_::dimension;
      m.p.d = d; m.p.n = rule.get_num_points(); m.p.name = rule.get_name();
      m.p.w.resize(m.p.n); m.p.x.resize(m.p.n * d);
      for(long k = 0; k < m.p.n; ++k) { m.p.w[k] = (long double)rule.get_weight((int)k); for(int i = 0; i < d; ++i) m.p.x[k * d + i] = (long double)rule.get_coord((int)k, i); }
    }
    return m;
  }
  template<typename DT_> Made make_scalar(const std::string& name, int route)
  {
    Made m; Scalar::Rule<DT_, DT_> rule;
    if(route == R_STATIC) m.ok = Scalar::DynamicFactory::create(rule, String(name));
    else { Scalar::DynamicFactory f{String(name)}; m.ok = f.create(rule); }   // the scalar factory has no throwing routes
    m.untouched = (rule.get_num_points() == 0) && rule.get_name().empty();
    if(m.ok)
    {
      m.p.d = 1; m.p.n = rule.get_num_points(); m.p.name = rule.get_name(); m.p.w.resize(m.p.n); m.p.x.resize(m.p.n);
      for(long k = 0; k < m.p.n; ++k) { m.p.w[k] = (long double)rule.get_weight((int)k); m.p.x[k] = (long double)rule.get_coord((int)k); }
    }
    return m;
  }
  template<typename DT_> Made make_dt(int shape, const std::string& name, int route)
  {
    switch(shape)
    {
    case S1: return make_shape<Shape::Simplex<1>, DT_>(name, route);
    case S2: return make_shape<Shape::Simplex<2>, DT_>(name, route);
    case S3: return make_shape<Shape::Simplex<3>, DT_>(name, route);
    case H1: return make_shape<Shape::Hypercube<1>, DT_>(name, route);
    case H2: return make_shape<Shape::Hypercube<2>, DT_>(name, route);
    case H3: return make_shape<Shape::Hypercube<3>, DT_>(name, route);
    default: return make_scalar<DT_>(name, route);
    }
  }
  inline Made make(int shape, const std::string& name, int route, bool flt) { return flt ? make_dt<float>(shape, name, route) : make_dt<double>(shape, name, route); }

  // ------------------------------------------------------------------------------------------------------------------
  // exact integrals and the exactness check
  // ------------------------------------------------------------------------------------------------------------------
  struct Mono { int a[3] = {0, 0, 0}; int deg() const { return a[0] + a[1] + a[2]; } };
  inline long double fact(int n) { long double r = 1; for(int i = 2; i <= n; ++i) r *= i; return r; }
  /// simplex {x>=0, sum x<=1}: prod a_i! / (|a|+d)! ; cube [-1,1]^d: prod (a_i odd ? 0 : 2/(a_i+1))
  inline long double exact_integral(bool simplex, int d, const Mono& m)
  {
    long double r = 1;
    if(simplex) { int s = 0; for(int i = 0; i < d; ++i) { r *= fact(m.a[i]); s += m.a[i]; } return r / fact(s + d); }
    for(int i = 0; i < d; ++i) { if(m.a[i] % 2) return 0; r *= 2.0L / (m.a[i] + 1); }
    return r;
  }
  inline long double ref_volume(int shape) { Mono z; return exact_integral(is_simplex(shape), shape_dim(shape), z); }
  /// all monomials of total degree lo..hi in d variables, ascending degree
  inline std::vector<Mono> monomials(int d, int lo, int hi)
  {
    std::vector<Mono> r;
    for(int deg = std::max(lo, 0); deg <= hi; ++deg)
      for(int a = deg; a >= 0; --a)
      {
        if(d == 1) { if(a == deg) { Mono m; m.a[0] = a; r.push_back(m); } continue; }
        for(int b = deg - a; b >= 0; --b)
        {
          if(d == 2) { if(a + b == deg) { Mono m; m.a[0] = a; m.a[1] = b; r.push_back(m); } continue; }
          Mono m; m.a[0] = a; m.a[1] = b; m.a[2] = deg - a - b; r.push_back(m);
        }
      }
    return r;
  }
  inline long n_monomials(int d, int deg) { long r = 1; for(int i = 1; i <= d; ++i) r = r * (deg + i) / i; return r; }

  /// Q[m] = sum_k w_k x_k^a(m), A[m] = sum_k |w_k x_k^a(m)|; points processed in blocks so that the power tables stay small
  inline void quad_monomials(const Pts& p, const std::vector<Mono>& ms, std::vector<long double>& Q, std::vector<long double>& A)
  {
    Q.assign(ms.size(), 0.0L); A.assign(ms.size(), 0.0L);
    int maxe = 0; for(auto& m : ms) for(int i = 0; i < 3; ++i) maxe = std::max(maxe, m.a[i]);
    const int d = p.d, E = maxe + 1; const long B = 128;
    std::vector<long double> pw((size_t)B * d * E);
    for(long k0 = 0; k0 < p.n; k0 += B)
    {
      long nb = std::min(B, p.n - k0);
      for(long k = 0; k < nb; ++k) for(int i = 0; i < d; ++i) { long double* q = &pw[(k * d + i) * E]; q[0] = 1; long double x = p.x[(k0 + k) * d + i]; for(int e = 1; e < E; ++e) q[e] = q[e - 1] * x; }
      for(size_t mi = 0; mi < ms.size(); ++mi)
      {
        const Mono& m = ms[mi]; long double s = 0, sa = 0;
        for(long k = 0; k < nb; ++k)
        {
          const long double* q = &pw[k * d * E]; long double t = p.w[k0 + k] * q[m.a[0]];
          if(d > 1) t *= q[E + m.a[1]]; if(d > 2) t *= q[2 * E + m.a[2]];
          s += t; sa += fabsl(t);
        }
        Q[mi] += s; A[mi] += sa;
      }
    }
  }

  /// relative tolerance (DESIGN 2.11 / C14): 1e-12 for double tables; float rules carry rounded tables: each term
  /// w*x^a has relative error <= (|a|+1)*u, so K*(deg+2)*u with K = 8, u = 2^-24
  inline long double rel_tol(bool flt, int deg) { return flt ? 8.0L * (deg + 2) * 5.9604644775390625e-8L : 1e-12L; }

  inline std::string mono_str(int d, const Mono& m) { std::string s = "("; for(int i = 0; i < d; ++i) { if(i) s += ","; s += std::to_string(m.a[i]); } return s + ")"; }

  /// weight sum and all given monomials; throws vf::Fail on the first (lowest-degree) violation; returns worst err/tol
  inline double check_exact(Ctx& c, int shape, const Pts& p, const std::vector<Mono>& ms, bool flt, int deg_for_tol)
  {
    const bool simplex = is_simplex(shape); const long double rt = rel_tol(flt, deg_for_tol);
    {
      long double s = 0, sa = 0; for(long k = 0; k < p.n; ++k) { s += p.w[k]; sa += fabsl(p.w[k]); }
      long double vol = ref_volume(shape), tol = rt * (sa + vol);
      C14_CHECK("weightsum", fabsl(s - vol) <= tol, "weight sum of '" << p.name << "' on " << shape_name(shape) << " is " << (double)s << ", reference volume " << (double)vol << " (npts " << p.n << ")");
    }
    std::vector<long double> Q, A; quad_monomials(p, ms, Q, A);
    double worst = 0;
    for(size_t mi = 0; mi < ms.size(); ++mi)
    {
      long double ex = exact_integral(simplex, p.d, ms[mi]), tol = rt * (A[mi] + fabsl(ex)), err = fabsl(Q[mi] - ex);
      C14_CHECK("inexact", err <= tol, "'" << p.name << "' on " << shape_name(shape) << " (npts " << p.n << ") is not exact for monomial x^" << mono_str(p.d, ms[mi])
        << " of degree " << ms[mi].deg() << ": got " << (double)Q[mi] << ", exact " << (double)ex << ", err/tol " << (double)(err / tol));
      if(tol > 0) worst = std::max(worst, (double)(err / tol));
    }
    return worst;
  }
  /// is the rule exact for every monomial of exactly this degree? (evidence only: measured vs. nominal degree)
  inline bool exact_at_degree(int shape, const Pts& p, int deg, bool flt)
  {
    std::vector<Mono> ms = monomials(p.d, deg, deg); std::vector<long double> Q, A; quad_monomials(p, ms, Q, A);
    for(size_t mi = 0; mi < ms.size(); ++mi) { long double ex = exact_integral(is_simplex(shape), p.d, ms[mi]); if(fabsl(Q[mi] - ex) > rel_tol(flt, deg) * (A[mi] + fabsl(ex))) return false; }
    return true;
  }

  /// upper bound of the number of points of the un-refined rule behind an entry (only used to bound the refine count)
  inline long points_bound(int shape, const Entry& e)
  {
    if(shape == S2) return 80; if(shape == S3) return 60;
    long per_dim = e.is_auto ? e.n / 2 + 1 : (e.n > 0 ? e.n : 2), r = 1;
    for(int i = 0; i < shape_dim(shape); ++i) r *= per_dim;
    return r;
  }
  /// safety net: a request that makes the factory allocate without bound must end as bad_alloc in the child, not as an OOM of the host
  inline void limit_memory() { struct rlimit rl { 6ul << 30, 6ul << 30 }; setrlimit(RLIMIT_AS, &rl); }

  inline std::string refine_prefix(int k) { return k <= 0 ? "" : (k == 1 ? "refine:" : "refine*" + std::to_string(k) + ":"); }
  inline long env_long(const char* n, long def) { const char* e = getenv(n); return (e && *e) ? atol(e) : def; }

  /// pick an entry of `shape` that is not switched off; start at index i0 (by construction, no rejection loop on the tape)
  inline int pick_entry(Ctx& c, int shape, int i0)
  {
    const auto& E = names().ent[shape]; int n = (int)E.size();
    for(int j = 0; j < n; ++j) { int i = (i0 + j) % n; if(!entry_excluded(c, shape, E[i])) return i; }
    return i0 % n;
  }
  inline int pick_shape(Tape& t) { static const int map[] = {S2, S3, H2, H3, S1, H1, SC}; return map[t.pick({4, 3, 3, 2, 2, 2, 2})]; }

  inline void harness_ok(Ctx& c)
  {
    limit_memory();
    // a driver the oracle table does not know would make every verdict about it meaningless: fail loudly
    if(!names().problem.empty()) { c.op = "harness"; c.announce(); VF_FAIL("harness:no nominal degree known for " << names().problem << " - extend nominal_degree()"); }
  }

  // ------------------------------------------------------------------------------------------------------------------
  // shared body: create `req` (= refine prefix + entry name, possibly re-spelled) and check it against the entry's degree
  // ------------------------------------------------------------------------------------------------------------------
  struct Plan { int shape; const Entry* e; int k; std::string req; int route; bool flt; bool lenient_spelling; };

  inline Made create_checked(Ctx& c, const Plan& pl)
  {
    Made m = make(pl.shape, pl.req, pl.route, pl.flt);
    if(!m.ok)
    {
      // an advertised name in its canonical spelling must be served; a re-spelled one (case / blanks) may be refused,
      // the property does not promise case-insensitivity
      if(pl.lenient_spelling) return m;
      VF_FAIL("refused:advertised name '" << pl.req << "' refused on " << shape_name(pl.shape) << " via " << route_name(pl.route));
    }
    if(!pl.e->canon.empty())
      C14_CHECK("resolve", m.p.name == refine_prefix(pl.k) + pl.e->canon, "'" << pl.req << "' on " << shape_name(pl.shape) << " answered with rule '" << m.p.name << "', expected '" << refine_prefix(pl.k) + pl.e->canon << "'");
    C14_CHECK("resolve", m.p.n >= 1, "'" << pl.req << "': rule without points");
    return m;
  }

  // ------------------------------------------------------------------------------------------------------------------
  // target enum: the complete name space, one name per case, selected by the rapidcheck size (deterministic sweep:
  // sizes cycle 0..max_size, so every index < (kmax+1)*N is visited in every run); k = size / N is the refine count
  // ------------------------------------------------------------------------------------------------------------------
  inline void sampled_or_full(Tape& t, Ctx& c, const Plan& pl, const Made& m, long budget, bool force_full)
  {
    const int d = m.p.d, deg = pl.e->degree;
    long work = m.p.n * n_monomials(d, deg);
    std::vector<Mono> ms;
    if(force_full || work <= budget) ms = monomials(d, 0, deg);
    else
    {
      // too many point*monomial products for one case: every monomial up to the largest affordable degree plus
      // tape-selected monomials of the remaining degrees (always including degree `deg`)
      int d0 = 0; while(d0 < deg && m.p.n * n_monomials(d, d0 + 1) <= budget / 2) ++d0;
      ms = monomials(d, 0, d0);
      std::vector<Mono> hi = monomials(d, d0 + 1, deg); long take = std::max(8l, (budget / 2) / std::max(1l, m.p.n));
      if((long)hi.size() <= take) ms.insert(ms.end(), hi.begin(), hi.end());
      else { std::vector<Mono> top = monomials(d, deg, deg); ms.push_back(top[t.range(0, (int)top.size() - 1)]); for(long j = 1; j < take; ++j) ms.push_back(hi[t.range(0, (int)hi.size() - 1)]); }
    }
    check_exact(c, pl.shape, m.p, ms, pl.flt, deg);
  }

  inline void t_enum(Tape& t, Ctx& c, int k0)
  {
    harness_ok(c);
    const Names& N = names(); const int total = (int)N.all.size();
    const long sizes = env_long("C14_ENUM_SIZES", 0), budget = env_long("C14_BUDGET", 200000000);
    if(sizes > 0 && total > sizes) { c.op = "harness"; c.announce(); VF_FAIL("harness:name space has " << total << " names, props enumerate only " << sizes << " sizes (raise max_size/cases/C14_ENUM_SIZES)"); }
    // the sweep of refine count k0 is its own target so that the sweeps run in parallel; sizes beyond the name space give generated extras
    int k = k0, idx = t.size % total;
    bool generated = false;
    if(t.size >= total) { k = t.range(0, 3); idx = t.range(0, total - 1); generated = true; }
    int shape = N.all[idx].first, ei = N.all[idx].second;
    if(entry_excluded(c, shape, N.ent[shape][ei])) { ei = pick_entry(c, shape, ei + 1 + t.range(0, 40)); generated = true; }
    if(shape == SC && k > 0) { k = 0; generated = true; }    // the scalar factory has no refine prefix
    const Entry& e = N.ent[shape][ei];
    if(generated) { long base = points_bound(shape, e); while(k > 0) { long n = base; for(int i = 0; i < k; ++i) n *= refine_count(shape); if(n <= 300000) break; --k; } }
    Plan pl{shape, &e, k, refine_prefix(k) + e.name, R_STATIC, false, false};
    c.desc.set("shape", shape_name(shape)); c.desc.set("name", pl.req); c.desc.set("nominal_degree", e.degree); c.desc.set("mode", generated ? "substitute" : "sweep");
    c.label(std::string("shape:") + shape_name(shape)); c.label("refine:" + std::to_string(k));
    c.label("drv:" + (e.is_auto ? std::string("auto-degree") : strip_prefix(e.drv))); if(e.is_alias) c.label("alias");
    c.nontrivial = !(e.onept && k == 0);
    c.op = "sweep";
    c.announce();
    Made m = create_checked(c, pl);
    sampled_or_full(t, c, pl, m, budget, k == 0);
  }

  // ------------------------------------------------------------------------------------------------------------------
  // target poly: generated polynomials on generated (shape, name, refine count, spelling, creation route, data type)
  // ------------------------------------------------------------------------------------------------------------------
  inline std::string respell(Tape& t, const std::string& s, int how)
  {
    std::string r = s;
    switch(how)
    {
    case 1: for(auto& ch : r) ch = (char)toupper((unsigned char)ch); break;
    case 2: for(auto& ch : r) if(t.flag()) ch = (char)toupper((unsigned char)ch); break;
    case 3: { std::string o; for(char ch : r) { if(ch == ':') { o += t.flag() ? " :" : ":"; if(t.flag()) o += ' '; } else o += ch; } r = (t.flag() ? " " : "") + o + (t.flag() ? " " : ""); break; }
    default: break;
    }
    return r;
  }

  inline void t_poly(Tape& t, Ctx& c)
  {
    harness_ok(c);
    const Names& N = names(); const long budget = env_long("C14_BUDGET", 200000000);
    int shape = pick_shape(t);
    const auto& E = N.ent[shape];
    int ei = pick_entry(c, shape, t.range(0, (int)E.size() - 1));
    const Entry& e = E[ei];
    int k = (shape == SC) ? 0 : t.pick({5, 3, 2, 1});
    // keep the refined rule below ~300k points (refine*3 of a 8000-point rule is 4M points: enum/thorough territory)
    { long base = points_bound(shape, e); while(k > 0) { long n = base; for(int i = 0; i < k; ++i) n *= refine_count(shape); if(n <= 300000) break; --k; } }
    int spell = t.pick({6, 1, 1, 1});
    int route = t.range(0, NROUTES - 1);
    bool flt = t.pick({7, 1}) == 1;
    std::string req = respell(t, refine_prefix(k) + e.name, spell);
    Plan pl{shape, &e, k, req, route, flt, spell != 0};

    // polynomial: 1..24 terms c_a x^a, integer coefficients in -9..9 \ {0}, |a| <= nominal degree, first term of full degree
    const int d = shape_dim(shape);
    std::vector<Mono> all = monomials(d, 0, e.degree), top = monomials(d, e.degree, e.degree);
    int nterms = 1 + t.sized(0, 23, 3);
    std::vector<Mono> ms; std::vector<long double> cf; J jp = J::arr();
    for(int j = 0; j < nterms; ++j)
    {
      Mono m = (j == 0) ? top[t.range(0, (int)top.size() - 1)] : all[t.range(0, (int)all.size() - 1)];
      long double co = (long double)t.real_nz(0);
      ms.push_back(m); cf.push_back(co);
      J term = J::arr(); term.add((int)co); for(int i = 0; i < d; ++i) term.add(m.a[i]); jp.add(term);
    }
    c.desc.set("shape", shape_name(shape)); c.desc.set("name", req); c.desc.set("nominal_degree", e.degree); c.desc.set("route", route_name(route));
    c.desc.set("dt", flt ? "float" : "double"); c.desc.set("poly[coef,exponents]", jp);
    c.label(std::string("shape:") + shape_name(shape)); c.label("refine:" + std::to_string(k)); c.label(std::string("route:") + route_name(route));
    c.label(flt ? "dt:float" : "dt:double"); c.label("spelling:" + std::string(spell == 0 ? "canonical" : spell == 1 ? "upper" : spell == 2 ? "mixed-case" : "blanks"));
    c.label("drv:" + (e.is_auto ? std::string("auto-degree") : strip_prefix(e.drv))); if(e.is_alias) c.label("alias");
    c.nontrivial = !(e.onept && k == 0);
    (void)budget;
    c.op = "poly";
    c.announce();

    Made m = create_checked(c, pl);
    if(!m.ok) return;   // re-spelled name refused: allowed, nothing to integrate
    // weight sum + the polynomial as a whole: Q(P) = sum_a c_a Q(x^a) against sum_a c_a I(x^a); the tolerance is the sum
    // of the monomial tolerances weighted by |c_a|
    {
      std::vector<Mono> none; check_exact(c, shape, m.p, none, flt, e.degree);
      std::vector<long double> Q, A; quad_monomials(m.p, ms, Q, A);
      long double q = 0, ex = 0, scale = 0;
      for(size_t j = 0; j < ms.size(); ++j) { long double I = exact_integral(is_simplex(shape), d, ms[j]); q += cf[j] * Q[j]; ex += cf[j] * I; scale += fabsl(cf[j]) * (A[j] + fabsl(I)); }
      long double tol = rel_tol(flt, e.degree) * scale;
      C14_CHECK("inexact", fabsl(q - ex) <= tol, "'" << m.p.name << "' on " << shape_name(shape) << " (npts " << m.p.n << ", " << (flt ? "float" : "double") << ") integrates the degree-" << e.degree
        << " polynomial to " << (double)q << ", exact " << (double)ex << ", err/tol " << (double)(fabsl(q - ex) / tol));
    }
  }

  // ------------------------------------------------------------------------------------------------------------------
  // name model: what may a request string be answered with?
  // ------------------------------------------------------------------------------------------------------------------
  enum Verdict { V_KNOWN, V_UNKNOWN, V_LENIENT, V_JUNK, V_NEGREFINE };
  struct Model
  {
    Verdict v = V_UNKNOWN;
    int k = 0;                 // refine count (KNOWN/LENIENT/JUNK)
    const Entry* e = nullptr;  // entry behind the base (KNOWN, LENIENT with a definite reading, JUNK)
    std::string why;
  };
  inline std::string lower(std::string s) { for(auto& ch : s) ch = (char)tolower((unsigned char)ch); return s; }
  inline std::string trim(const std::string& s) { size_t b = s.find_first_not_of(" \t\n\r\f\v"), e = s.find_last_not_of(" \t\n\r\f\v"); return b == std::string::npos ? "" : s.substr(b, e - b + 1); }
  /// integer text: 0 strict decimal ("12"), 1 same value in a lax spelling ("+12", "012"), 2 leading integer followed by
  /// other characters ("12x", "2.9"), 3 negative integer (possibly with junk), 4 no integer at all / out of long range
  inline int int_class(const std::string& s, long& val)
  {
    val = 0; size_t i = 0; bool neg = false, sign = false;
    if(i < s.size() && (s[i] == '+' || s[i] == '-')) { neg = s[i] == '-'; sign = true; ++i; }
    size_t d0 = i; while(i < s.size() && isdigit((unsigned char)s[i]) && i - d0 < 12) { val = val * 10 + (s[i] - '0'); ++i; }
    if(i == d0) return 4;
    if(i < s.size() && isdigit((unsigned char)s[i])) return 4;  // too long for any parameter: never in range
    bool junk = i < s.size();
    if(neg) { val = -val; return 3; }
    if(junk) return 2;
    if(sign || (i - d0 > 1 && s[d0] == '0')) return 1;
    return 0;
  }

  inline Model classify(int shape, const std::string& raw)
  {
    const Names& N = names(); const auto& E = N.ent[shape]; const Space& sp = N.sp[shape];
    Model M; bool lax = false;
    // split at ':' and normalise each part (case, surrounding blanks): feat3 compares case-insensitively and trims
    std::vector<std::string> parts; { std::string cur; for(char ch : raw) { if(ch == ':') { parts.push_back(cur); cur.clear(); } else cur += ch; } parts.push_back(cur); }
    for(auto& p : parts) { std::string q = lower(trim(p)); if(q != p) lax = true; p = q; }
    size_t first = 0;
    bool junk = false;
    if(parts[0].compare(0, 6, "refine") == 0 && shape != SC && (parts[0].size() == 6 || parts[0][6] == '*'))
    {
      if(parts.size() < 2) { M.why = "refine without base"; return M; }
      M.k = 1;
      if(parts[0].size() > 6)
      {
        long kv; std::string cnt = trim(parts[0].substr(7)); if(cnt.size() + 7 != parts[0].size()) lax = true;
        switch(int_class(cnt, kv))
        {
        case 0: break; case 1: lax = true; break; case 2: junk = true; break;
        case 3: M.v = V_NEGREFINE; M.why = "negative refine count"; M.k = -1; break;
        default: M.why = "refine count is not a number"; return M;
        }
        if(M.v != V_NEGREFINE) { if(kv > 1000) { M.why = "absurd refine count"; M.k = (int)1001; } else M.k = (int)kv; }
      }
      first = 1;
    }
    std::string base; for(size_t i = first; i < parts.size(); ++i) { if(i > first) base += ":"; base += parts[i]; }
    // which entry does the base denote?
    const Entry* hit = nullptr; bool out_of_range = false, lenient_range = false;
    for(auto& e : E) if(e.name == base) { hit = &e; break; }
    if(!hit)
    {
      // variadic driver / auto-degree with a parameter in lax spelling, with trailing characters, or out of range
      auto param_of = [&](const std::string& head, std::string& par) { if(base.size() > head.size() && base.compare(0, head.size(), head) == 0 && base[head.size()] == ':') { par = base.substr(head.size() + 1); return true; } return false; };
      std::string par;
      for(auto& d : sp.drv) if(d.variadic && param_of(d.name, par))
      {
        long v; int ic = int_class(trim(par), v);
        if(ic == 4 || ic == 3) { out_of_range = true; break; }
        if(v < d.lo || v > d.hi) { out_of_range = true; break; }
        for(auto& e : E) if(e.name == d.name + ":" + std::to_string(v)) hit = &e;
        if(ic == 1) lax = true; if(ic == 2) junk = true;
        break;
      }
      if(!hit && !out_of_range && sp.max_auto >= 0 && param_of("auto-degree", par))
      {
        long v; int ic = int_class(trim(par), v);
        if(ic == 4) out_of_range = true;
        // outside the advertised range (negative, 0, > max_auto_degree) the property promises nothing: lenient
        else if(ic == 3 || v > sp.max_auto || v < 1) lenient_range = true;
        else { for(auto& e : E) if(e.is_auto && e.n == v) hit = &e; if(ic == 1) lax = true; if(ic == 2) junk = true; }
        if(ic == 2 && lenient_range) junk = true;
      }
    }
    if(M.v == V_NEGREFINE) { if(!hit && !lenient_range) { M.v = V_UNKNOWN; M.why = "negative refine count on an unknown base"; } M.e = hit; return M; }
    if(!hit && !lenient_range) { M.v = V_UNKNOWN; M.why = out_of_range ? "parameter out of range" : "no such name"; return M; }
    M.e = hit;
    if(M.k > 1000) { M.v = V_LENIENT; M.why = "absurd refine count"; return M; }   // never generated; kept away from feat3 by the caller
    if(junk) { M.v = V_JUNK; M.why = "trailing characters after a number"; return M; }
    if(lenient_range) { M.v = V_LENIENT; M.e = nullptr; M.why = "auto-degree outside the advertised range"; return M; }
    if(M.k == 0 && first == 1) { M.v = V_LENIENT; M.why = "refine*0"; return M; }
    if(lax) { M.v = V_LENIENT; M.why = "lax spelling"; return M; }
    M.v = V_KNOWN; return M;
  }

  /// a rule that was handed out for a lenient request must still be a rule of this shape's name space that keeps its own promise
  inline const Entry* entry_of_resolved(int shape, const std::string& resolved, int& k_out)
  {
    std::string b = resolved; k_out = 0;
    if(b.compare(0, 7, "refine:") == 0) { k_out = 1; b = b.substr(7); }
    else if(b.compare(0, 7, "refine*") == 0) { size_t p = b.find(':'); if(p == std::string::npos) return nullptr; k_out = atoi(b.c_str() + 7); b = b.substr(p + 1); }
    for(auto& e : names().ent[shape]) if(!e.is_alias && !e.is_auto && e.name == b) return &e;
    return nullptr;
  }

  inline const std::vector<std::string>& soup_tokens()
  {
    static const std::vector<std::string> T = {
      ":", "gauss-legendre", "gauss-lobatto", "newton-cotes-closed", "newton-cotes-open", "maclaurin", "midpoint", "trapezoidal", "barycentre",
      "dunavant", "silvester-open", "shunn-ham", "hammer-stroud-degree-2", "hammer-stroud-degree-3", "hammer-stroud-degree-5", "lauffer-degree-2", "lauffer-degree-4",
      "simpson", "pulcherrima", "milne-boole", "6-point", "weddle", "auto-degree", "auto", "degree", "refine:", "refine*2:", "refine*3:", "refine*0:", "refine", "tensor:", "scalar:",
      "0", "1", "2", "3", "4", "5", "6", "7", "8", "9", "-", "+", " ", "x", ".", ",", "e", "A", "_", "*x", "::" };
    return T;
  }

  /// steer away from switched-off known-finding classes, describe the case, run the request, judge the answer with the model
  inline void judge_request(Ctx& c, int shape, std::string req, int route, const std::string& cname)
  {
    Model M = classify(shape, req);
    // never hand feat3 a request whose honest answer is astronomically large (refine*k multiplies the points by 2^(d*k))
    if(M.k > 3) { req = "refine*x:" + req; M = classify(shape, req); }
    if(M.v == V_JUNK && c.excl("c14-param-junk")) { req = "?" + req; M = classify(shape, req); }
    if(M.v == V_NEGREFINE && c.excl("c14-refine-negcount")) { req = "x" + req; M = classify(shape, req); }
    if(M.e && entry_excluded(c, shape, *M.e)) { req = "x" + req; M = classify(shape, req); }
    static const char* vn[] = {"known", "unknown", "lenient", "junk", "neg-refine"};
    c.desc.set("shape", shape_name(shape)); c.desc.set("name", req); c.desc.set("class", cname); c.desc.set("model", vn[M.v]); if(!M.why.empty()) c.desc.set("why", M.why);
    c.desc.set("route", route_name(route));
    c.label(std::string("shape:") + shape_name(shape)); c.label("class:" + cname); c.label(std::string("model:") + vn[M.v]); c.label(std::string("route:") + route_name(route));
    // non-trivial: a near miss (mentions a driver, alias or prefix keyword of some shape), not pure garbage
    { std::string lo = lower(req); bool near = false; const auto& T = soup_tokens(); for(size_t j = 1; j < 32; ++j) if(lo.find(lower(T[j])) != std::string::npos) near = true; c.nontrivial = near; }
    c.op = (M.v == V_UNKNOWN || M.v == V_JUNK || M.v == V_NEGREFINE) ? "refuse" : "accept";
    c.announce();

    if(M.v == V_NEGREFINE)
    {
      // "refine*-1:<valid>" is not a name of any rule; the honest reactions are a refusal or - at worst - treating it like
      // refine*0.  Run it under an address-space limit in a grand-child: the pinned tree parses -1 into an unsigned count.
      std::string err; std::string how = vf::run_isolated([&] { struct rlimit rl { 1ul << 29, 1ul << 29 }; setrlimit(RLIMIT_AS, &rl); Made m = make(shape, req, route, false); if(m.ok) _exit(7); }, &err, 15000);
      C14_CHECK("accepted", how == "", "negative refine count '" << req << "' on " << shape_name(shape) << " via " << route_name(route) << " is not refused: " << (how == "exit7" ? std::string("answered with a rule") : how + " " + vf::first_line_with(err, "EXC")));
      return;
    }
    Made m = make(shape, req, route, false);
    if(M.v == V_UNKNOWN || M.v == V_JUNK)
    {
      C14_CHECK("accepted", !m.ok, "unknown name '" << req << "' (" << M.why << ") on " << shape_name(shape) << " via " << route_name(route) << " is answered with rule '" << m.p.name << "' (" << m.p.n << " points)");
      C14_CHECK("touched", m.untouched, "refused name '" << req << "' still modified the rule object");
      if(route >= R_THROW && shape != SC) C14_CHECK("noexcept", !m.refusal.empty(), "refusal of '" << req << "' did not raise UnknownRule");
      return;
    }
    if(!m.ok) { if(M.v == V_KNOWN) VF_FAIL("refused:advertised name '" << req << "' refused on " << shape_name(shape) << " via " << route_name(route)); C14_CHECK("touched", m.untouched, "refused name '" << req << "' still modified the rule object"); return; }
    // accepted (known or lenient): it must be the rule the reading denotes, resp. some rule of the name space that keeps its promise
    int kr = 0; const Entry* re = entry_of_resolved(shape, m.p.name, kr);
    C14_CHECK("resolve", re != nullptr, "'" << req << "' on " << shape_name(shape) << " answered with '" << m.p.name << "', which is no rule of the name space");
    if(M.e && !M.e->canon.empty()) C14_CHECK("resolve", m.p.name == refine_prefix(M.k) + M.e->canon, "'" << req << "' on " << shape_name(shape) << " answered with rule '" << m.p.name << "', expected '" << refine_prefix(M.k) + M.e->canon << "'");
    int deg = re->degree; if(M.e) deg = std::max(deg, M.e->degree);
    if(kf_switch(shape, re->canon) && c.excl(kf_switch(shape, re->canon))) return;
    std::vector<Mono> ms = monomials(m.p.d, 0, deg);
    if(m.p.n * (long)ms.size() > 50000000) ms.resize(std::max<size_t>(1, 50000000 / m.p.n));
    check_exact(c, shape, m.p, ms, false, deg);
  }

  // ------------------------------------------------------------------------------------------------------------------
  // target names: mutated names (by construction) and token soup; unknown names must be refused on every route
  // ------------------------------------------------------------------------------------------------------------------
  inline void t_names(Tape& t, Ctx& c)
  {
    harness_ok(c);
    const Names& N = names();
    int shape = pick_shape(t);
    const auto& E = N.ent[shape]; const Space& sp = N.sp[shape];
    std::vector<const Drv*> var; for(auto& d : sp.drv) if(d.variadic) var.push_back(&d);
    // a valid base to mutate (never one of the switched-off table typos: an accepted lenient spelling would re-find them)
    auto valid = [&]() -> const Entry& { return E[pick_entry(c, shape, t.range(0, (int)E.size() - 1))]; };
    auto rpre = [&]() -> std::string { return shape == SC ? "" : refine_prefix(t.pick({5, 2, 1})); };

    int cls = t.pick({3, 3, 2, 3, 3, 2, 2, 2, 3, 2});
    if(cls == 6 && c.excl("c14-param-junk")) cls = 0;
    std::string req, cname;
    switch(cls)
    {
    case 0: // point count outside [min_points, max_points]
      {
        cname = "wrong-count"; const Drv& d = *var[t.range(0, (int)var.size() - 1)];
        long n; switch(t.pick({3, 3, 2, 2, 2, 1, 1, 1, 1})) {
          case 0: n = d.hi + 1; break; case 1: n = d.lo - 1; break; case 2: n = d.hi + 1 + t.range(0, 60); break; case 3: n = d.lo + t.range(0, d.hi - d.lo) + 21; break;
          case 4: n = 0; break; case 5: n = -(long)t.range(1, 20); break; case 6: n = 1000 + t.range(0, 9000); break; case 7: n = 2147483647l + t.range(0, 2); break; default: n = 4294967296l + d.lo + t.range(0, d.hi - d.lo); break; }
        if(n >= d.lo && n <= d.hi) n = d.hi + 1;
        req = rpre() + d.name + ":" + std::to_string(n); break;
      }
    case 1: // one edit in the alphabetic part of a valid name
      {
        cname = "typo"; const Entry& e = valid(); std::string s = e.name; std::vector<int> pos; for(size_t i = 0; i < s.size(); ++i) if(isalpha((unsigned char)s[i])) pos.push_back((int)i);
        if(pos.empty()) { s += "x"; }   // "6-point" has letters, cannot happen
        else
        {
          int p = pos[t.range(0, (int)pos.size() - 1)];
          switch(t.pick({2, 2, 2, 1, 1})) { case 0: s.erase(p, 1); break; case 1: s.insert(p, 1, s[p]); break; case 2: s[p] = (s[p] == 'z') ? 'a' : char(s[p] + 1); break;
            case 3: if(p + 1 < (int)s.size() && s[p + 1] != s[p]) std::swap(s[p], s[p + 1]); else s.insert(p, 1, 'q'); break; default: s[p] = '_'; break; }
        }
        req = rpre() + s; break;
      }
    case 2: // parameter missing / empty / misplaced
      {
        cname = "param-shape"; const Drv& d = *var[t.range(0, (int)var.size() - 1)]; int n = d.lo + t.range(0, d.hi - d.lo);
        switch(t.pick({2, 2, 1, 1, 1, 2, 2, 1})) {
          case 0: req = d.name + ":"; break; case 1: req = d.name; break; case 2: req = d.name + ": "; break; case 3: req = d.name + "::" + std::to_string(n); break; case 4: req = ":" + std::to_string(n); break;
          case 5: { std::vector<const Drv*> nv; for(auto& x : sp.drv) if(!x.variadic) nv.push_back(&x); req = (nv.empty() ? std::string("barycentre") : nv[t.range(0, (int)nv.size() - 1)]->name) + ":" + std::to_string(1 + t.range(0, 4)); break; }
          case 6: { if(sp.ali.empty()) req = d.name + ":x"; else req = sp.ali[t.range(0, (int)sp.ali.size() - 1)].alias + ":" + std::to_string(n); break; }
          default: req = d.name + ":" + std::string(1, "xn?*"[t.range(0, 3)]); break; }
        req = rpre() + req; break;
      }
    case 3: // a name of another shape
      {
        cname = "wrong-shape"; int os = (shape + 1 + t.range(0, NSHAPES - 2)) % NSHAPES; const auto& OE = N.ent[os]; int i0 = t.range(0, (int)OE.size() - 1);
        std::set<std::string> mine; for(auto& e : E) mine.insert(e.name);
        req = ""; for(size_t j = 0; j < OE.size(); ++j) { const Entry& oe = OE[(i0 + j) % OE.size()]; if(!mine.count(oe.name) && !oe.is_auto) { req = oe.name; break; } }
        // identical name spaces (e.g. Hypercube<1> vs Hypercube<2>): a driver that only exists on triangles resp. tetrahedra
        if(req.empty()) req = (shape == H1 || shape == H2 || shape == H3) ? "dunavant:" + std::to_string(2 + t.range(0, 18)) : "shunn-ham:" + std::to_string(2 + t.range(0, 4));
        req = rpre() + req; break;
      }
    case 4: // malformed refine prefix
      {
        cname = "refine-malformed"; const Entry& e = valid(); if(shape == SC) { req = "refine:" + e.name; break; }
        switch(t.pick({3, 2, 1, 1, 2, 1, 1, 1, 3})) {
          case 0: req = "refine*0:" + e.name; break; case 1: req = "refine*x:" + e.name; break; case 2: req = "refine*:" + e.name; break; case 3: req = t.flag() ? "refine:" : "refine"; break;
          case 4: req = "refine:" + refine_prefix(1 + t.range(0, 1)) + e.name; break; case 5: req = "refine*2*2:" + e.name; break; case 6: req = "refinex:" + e.name; break; case 7: req = "refine*2" + e.name; break;
          default: if(c.excl("c14-refine-negcount")) req = "refine*+1:" + e.name; else req = "refine*-" + std::to_string(1 + t.range(0, 2)) + ":" + e.name; break; }
        break;
      }
    case 5: // malformed / out-of-range auto alias
      {
        cname = "auto-malformed"; int mx = std::max(sp.max_auto, 1);
        switch(t.pick({2, 1, 2, 1, 1, 1, 1, 1, 3, 1})) {
          case 0: req = "auto-degree:"; break; case 1: req = "auto-degree"; break; case 2: req = "auto-degree:x"; break; case 3: req = "auto-foo:3"; break; case 4: req = "auto:3"; break; case 5: req = "autodegree:3"; break;
          case 6: req = "auto-degree:" + std::to_string(1 + t.range(0, mx - 1)) + ":foo"; break; case 7: req = "auto-degree-x:3"; break;
          case 8: req = "auto-degree:" + std::to_string(mx + 1 + t.range(0, 30)); break; default: req = t.flag() ? "auto-degree:0" : "auto-degree:-" + std::to_string(1 + t.range(0, 5)); break; }
        req = rpre() + req; break;
      }
    case 6: // characters after the number (only while the known finding is not switched off)
      {
        cname = "param-junk"; static const char* sfx[] = {"x", ".5", " 4", "e1", ",", ";", ".0", "-", ":", ":x"};
        if(shape != SC && t.flag(1, 4)) { const Entry& e = valid(); req = "refine*" + std::to_string(1 + t.range(0, 1)) + sfx[t.range(0, 7)] + ":" + e.name; }
        else if(sp.max_auto >= 1 && t.flag(1, 4)) req = rpre() + "auto-degree:" + std::to_string(1 + t.range(0, sp.max_auto - 1)) + sfx[t.range(0, 9)];
        else
        {
          const Drv& d = *var[t.range(0, (int)var.size() - 1)]; int n = d.lo + t.range(0, d.hi - d.lo);
          for(auto& e : E) if(e.name == d.name + ":" + std::to_string(n) && entry_excluded(c, shape, e)) n = d.lo;
          req = rpre() + d.name + ":" + std::to_string(n) + sfx[t.range(0, 9)];
        }
        break;
      }
    case 7: // tensor:/scalar: prefixes where this build does not define them (or the bare name where it does)
      {
        cname = "prefix-misuse"; const Entry& e = valid();
        switch(t.pick({2, 2, 1, 1, 2})) {
          case 0: req = "tensor:" + e.name; break; case 1: req = "scalar:" + e.name; break; case 2: req = "tensor:tensor:" + strip_prefix(e.name); break; case 3: req = "tensor:refine:" + e.name; break;
          default: req = strip_prefix(e.name); if(req == e.name) req = (is_simplex(shape) ? "tensor:" : "scalar:") + e.name; break; }
        req = rpre() + req; break;
      }
    case 8: // token soup
      {
        cname = "soup"; const auto& T = soup_tokens(); int n = 1 + t.sized(0, 7, 3);
        for(int j = 0; j < n; ++j) req += T[t.range(0, (int)T.size() - 1)];
        break;
      }
    default: // control: valid names in canonical / lax spelling keep the model honest
      {
        cname = "control"; const Entry& e = valid(); req = respell(t, rpre() + e.name, t.pick({2, 1, 1, 1})); break;
      }
    }

    judge_request(c, shape, req, t.range(0, NROUTES - 1), cname);
  }

  /// one literal request: tape = [shape, route, length, characters...] (regression replays that do not depend on the enumeration order)
  inline void t_byname(Tape& t, Ctx& c)
  {
    harness_ok(c);
    int shape = t.range(0, NSHAPES - 1), route = t.range(0, NROUTES - 1), len = t.range(0, 80);
    std::string req; for(int i = 0; i < len; ++i) req += char(32 + t.range(0, 94));
    judge_request(c, shape, req, route, "literal");
  }

  inline int run_main(int argc, char** argv, const char* sfx)
  {
    FEAT::Runtime::ScopeGuard guard(argc, argv);
    std::vector<vf::Target> tg;
    tg.push_back({std::string("enum") + sfx, [](Tape& t, Ctx& c) { t_enum(t, c, 0); }, 64, 0, 180000});
    tg.push_back({std::string("enum_r1") + sfx, [](Tape& t, Ctx& c) { t_enum(t, c, 1); }, 64, 0, 180000});
    tg.push_back({std::string("enum_r2") + sfx, [](Tape& t, Ctx& c) { t_enum(t, c, 2); }, 64, 0, 180000});
    tg.push_back({std::string("enum_r3") + sfx, [](Tape& t, Ctx& c) { t_enum(t, c, 3); }, 64, 0, 180000});
    tg.push_back({std::string("byname") + sfx, t_byname, 96, 0, 180000});
    tg.push_back({std::string("poly") + sfx, t_poly, 160, 0, 60000});
    tg.push_back({std::string("names") + sfx, t_names, 64, 0, 30000});
    return vf::main_impl(argc, argv, tg);
  }
} // namespace c14
