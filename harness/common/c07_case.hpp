// c07_case.hpp - case decoder and driver of C07 (see c07_core.hpp for the oracles)
#pragma once
#include "c07_core.hpp"

namespace c07
{
  // ------------------------------------------------------------------------------------------
  // small helpers
  // ------------------------------------------------------------------------------------------
  template<typename DT> void setv(DenseVector<DT, Index>& v, const std::vector<double>& s) { for(Index i = 0; i < v.size(); ++i) v.elements()[i] = DT(s[(size_t)i]); }
  template<typename DT> std::vector<double> getv(const DenseVector<DT, Index>& v) { std::vector<double> s((size_t)v.size()); for(Index i = 0; i < v.size(); ++i) s[(size_t)i] = (double)v.elements()[i]; return s; }
  template<typename DT> std::string bytes(const DenseVector<DT, Index>& v) { return v.size() ? std::string((const char*)v.elements(), v.size() * sizeof(DT)) : std::string(); }

  /// decoder override for the '*_unfilt' targets (bit 0: convergence mode, bit 1: unit filter, bit 2: system matrix left unfiltered); the draws are still consumed
  static int force_bits = 0;
  template<typename DT> NoneFilter<DT, Index> build_filter(NoneFilter<DT, Index>*, int, const std::vector<int>&, const std::vector<double>&) { return NoneFilter<DT, Index>(); }
  template<typename DT> UnitFilter<DT, Index> build_filter(UnitFilter<DT, Index>*, int n, const std::vector<int>& idx, const std::vector<double>& val)
  {
    UnitFilter<DT, Index> f((Index)n); for(size_t k = 0; k < idx.size(); ++k) f.add(Index(idx[k]), DT(val[k])); return f;
  }

  /// runs f in a grand-child and returns (status, iterations) - only used to obtain the class label (stop reason)
  /// and the non-trivial flag before the description is announced; the judged run happens afterwards in the child.
  template<typename F> inline bool probe(F f, int& status, unsigned long& iters)
  {
    int fd[2]; if(pipe(fd)) return false;
    pid_t p = fork();
    if(p == 0)
    {
      close(fd[0]); int dn = open("/dev/null", O_WRONLY); if(dn >= 0) { dup2(dn, 2); }
      long out[2] = { -1, 0 };
      try { int s = 0; unsigned long it = 0; f(s, it); out[0] = s; out[1] = (long)it; } catch(...) { out[0] = -2; }
      (void)!write(fd[1], out, sizeof out); _exit(0);
    }
    close(fd[1]); long in[2] = { -1, 0 }; bool ok = false;
    struct pollfd pf { fd[0], POLLIN, 0 };
    if(poll(&pf, 1, 15000) > 0) ok = (read(fd[0], in, sizeof in) == (ssize_t)sizeof in);
    close(fd[0]); if(!ok) kill(p, SIGKILL);
    int st = 0; waitpid(p, &st, 0);
    status = (int)in[0]; iters = (unsigned long)in[1];
    return ok && in[0] >= 0;
  }

  inline double cg_bound(double kappa, double tol) { double sk = std::sqrt(std::max(1.0, kappa)); return 0.5 * sk * std::log(2.0 * sk / tol); }

  struct Claim { bool on = false; long budget = 0; std::string why; };

  // ------------------------------------------------------------------------------------------
  // the case
  // ------------------------------------------------------------------------------------------
  template<int G, typename DT, template<typename, typename> class BEt, typename LF>
  void run_case(Tape& t, Ctx& c, const Sys& sys, int kind, bool conv_mode, const std::vector<int>& fidx, const std::vector<double>& fval)
  {
    typedef BEt<DT, LF> BE; typedef typename BE::LM LM; typedef typename BE::LV LV; typedef typename BE::VT VT;
    const int n = sys.n; const bool have_filter = !fidx.empty();
    const LD u = unit_roundoff<DT>();
    std::vector<char> fixed((size_t)n, 0); for(int i : fidx) fixed[(size_t)i] = 1;
    int n_int = n - (int)fidx.size();

    // ---- known-finding classes (switched off by the driver once registered; see findings/C07.md)
    //  zero initial defect (rhs 0, exact start vector, fully constrained system): BiCGStab / BiCGStab(l) return
    //  Status::undefined, IDR(s) divides 0/0 and returns 'aborted' with a NaN iterate
    const bool avoid_zero_def = (kind == K_BICGSTAB && c.excl("c07-bicgstab-zero-defect")) || (kind == K_BICGSTABL && c.excl("c07-bicgstabl-zero-defect"))
      || (kind == K_IDRS && c.excl("c07-idrs-zero-defect"));
    //  BiCGStab / RBiCGStab accept convergence after the half step without looking at min_iter
    const bool avoid_min_iter = (kind == K_BICGSTAB || kind == K_RBICGSTAB) && c.excl("c07-bicgstab-halfstep-min-iter");
    //  (F)GMRES(k) counts the inner Krylov steps and then once more in _set_new_defect: a run that meets max_iter inside the inner
    //  loop performs and reports max_iter+1 iterations.  Where in a cycle the limit is met depends on the run (early exits of
    //  the inner loop), so this class cannot be avoided by construction: with the finding switched off, exactly the comparison
    //  num_iter <= max_iter is done with one iteration of slack for these two solvers; everything else is still checked.
    const bool avoid_gmres_overshoot = (kind == K_FGMRES || kind == K_GMRES) && c.excl("c07-gmres-maxiter-overshoot");
    //  BiCGStab(l), right-preconditioned variant: the final x := M^-1 y (and filter_cor) is applied to the whole iterate including
    //  the start vector, so correct() with a non-zero start vector / non-zero filter values returns a wrong vector as 'success'
    const bool avoid_right_correct = (kind == K_BICGSTABL) && c.excl("c07-bicgstabl-right-correct");
    //  BiCGStab(l), right variant, judges convergence on the recurrence residual only: when the Krylov space is exhausted inside a
    //  block (n <= l, degenerate spectrum / initial residual) the near-0/0 coefficients wreck the iterate but not the recurrence
    //  residual, and 'success' is returned for a wrong vector (the left variant recomputes b - A x and is truthful)
    const bool avoid_right_breakdown = (kind == K_BICGSTABL) && c.excl("c07-bicgstabl-right-false-success");
    //  RGCR has no breakdown test: iterations forced beyond convergence (min_iter) normalise a rounding-noise vector (1/||q||),
    //  the resulting directions violate q = A p, are recycled into later solves, and 'success' is reported for a wrong vector
    //  same mechanism in PipePCG (recurrences for A p, A q ... instead of products): 1e18-sized iterate returned as 'success'.
    //  Common root: _analyse_defect() returns 'progress' below min_iter even for a zero defect (only the initial defect has an exit)
    const bool avoid_rgcr_forced = (kind == K_RGCR || kind == K_PIPEPCG) && c.excl("c07-forced-iterations-false-success");
    //  IDR(s) keeps _shadow_space_setup == true over done_symbolic()/init_symbolic() although the shadow vectors are re-allocated
    const bool avoid_idrs_reinit = (kind == K_IDRS) && c.excl("c07-idrs-reinit-shadow-space");

    // ---- system the way every caller prepares it: filter_mat on the assembled matrix
    Pat pat = sys.pat();
    LM Araw = make_csr<DT, Index>(pat);
    LM Af = Araw.clone();
    LF lf = build_filter<DT>((LF*)nullptr, n, fidx, fval);
    lf.filter_mat(Af);
    // second practice of the callers (tutorial_06_global): the system matrix is left unfiltered and the solver's own
    // filter_def/filter_cor calls impose the constraints; the system being solved (and the oracle) is the same filtered one
    const bool matfilt = !have_filter || !(int(t.flag(1, 3)) | (force_bits & 4));
    const Dense D = dense_of(Af);           // oracle view from the raw arrays (validated)
    const Dense Dsol = matfilt ? D : dense_of(Araw);   // what the solver's matrix.apply() sees
    VF_CHECK(D.r == n && D.c == n, "harness:matrix dims");
    DenseLU lu(D);
    VF_CHECK(!lu.singular, "harness:generated system singular");
    const LD Ainv = lu.inv_frob(), Afro = frob(D);
    std::vector<double> diag((size_t)n); double dmean = 0; for(int i = 0; i < n; ++i) { diag[(size_t)i] = (double)D(i, i); dmean += std::fabs(diag[(size_t)i]) / n; }

    // ---- solver parameters
    SolverSpec sp; sp.kind = kind;
    switch(kind)
    {
    case K_BICGSTABL: sp.dim = 1 + t.range(0, 3); sp.variant = t.flag(1, 3); break;
    case K_BICGSTAB: sp.variant = t.flag(1, 3); break;
    case K_FGMRES: case K_GMRES: { static const int dims[6] = { 4, 1, 2, 8, 16, 64 }; sp.dim = dims[t.pick({3, 1, 2, 2, 1, 1})]; static const double inn[3] = { 0.0, 1.0, 0.1 }; sp.inner = inn[t.pick({3, 1, 1})]; break; }
    case K_IDRS: sp.dim = 1 + t.range(0, 5); break;
    default: break;
    }
    // ---- preconditioner pairing (in scope by construction):
    //  * CG-type solvers need an SPD preconditioner: none / Jacobi / Scale / SSOR(0<w<2) / ILU(0); ILU(0) of the
    //    generated SPD classes exists with positive pivots (symmetric H-matrices, tridiagonal, block-dense = exact LU)
    //  * PCGNR works on A^T M_l A with M_l, M_r SPD: none / Jacobi / Scale only (SSOR/ILU of a nonsymmetric matrix are not symmetric)
    //  * PMR minimises in the M^-1 norm: same restriction when the matrix is nonsymmetric
    //  * Chebyshev takes no preconditioner
    {
      int pk;
      if(kind == K_CHEB) pk = P_NONE;
      else if(kind == K_PCGNR || (kind == K_PMR && !sys.sym)) { static const int tab[3] = { P_NONE, P_JACOBI, P_SCALE }; pk = tab[t.pick({3, 2, 1})]; }
      else if(conv_mode && slow_method(kind)) { static const int tab[3] = { P_NONE, P_JACOBI, P_SCALE }; pk = tab[t.pick({3, 2, 1})]; }
      else { static const int tab[5] = { P_NONE, P_JACOBI, P_SSOR, P_ILU, P_SCALE }; pk = tab[t.pick({4, 2, 2, 2, 1})]; }
      // sweeps over an unfiltered matrix couple constrained and free rows (callers build SSOR/ILU from a filtered matrix)
      if(!matfilt && (pk == P_SSOR || pk == P_ILU)) pk = P_JACOBI;
      sp.prec = pk;
      auto pom = [&](int p) -> double
      {
        switch(p)
        {
        case P_JACOBI: { static const double w[4] = { 1.0, 0.7, 0.5, 1.2 }; return w[t.pick({3, 1, 1, 1})]; }
        case P_SSOR: { static const double w[4] = { 1.0, 0.5, 1.5, 1.9 }; return w[t.pick({3, 1, 1, 1})]; }
        case P_SCALE: { static const double w[3] = { 1.0, 0.5, 2.0 }; return w[t.pick({2, 1, 1})] / dmean; }
        default: t.raw(); return 1.0;
        }
      };
      sp.pomega = pom(pk);
      if(kind == K_PCGNR) { static const int tab[3] = { P_NONE, P_JACOBI, P_SCALE }; sp.prec2 = tab[t.pick({3, 1, 1})]; sp.pomega2 = pom(sp.prec2); }
    }

    if(avoid_right_breakdown && sp.variant == 1)
    {
      // the right variant is only generated where the Krylov space cannot be exhausted inside a block: generic spectrum and
      // initial residual (forced below), enough free unknowns, no spectrum-collapsing preconditioner
      bool gen_sys = sys.generic && !(have_filter && (sys.cls.find("lap") == 0 || sys.cls.find("convdiff") == 0));
      if(!(gen_sys && n_int >= 3 * sp.dim + 2 && (sp.prec == P_NONE || sp.prec == P_SCALE))) sp.variant = 0;
    }
    // ---- Richardson damping / Chebyshev fractions; rate certificates for the S3 claim
    double rate = -1.0;      // certified contraction factor per step (stationary methods); <0: none
    if(kind == K_RICH)
    {
      // residual iteration matrix T = I - w A M^-1 on the unfiltered indices, M^-1 diagonal for none/Jacobi/Scale
      std::vector<double> minv((size_t)n, 1.0); bool diagM = true;
      if(sp.prec == P_JACOBI) for(int i = 0; i < n; ++i) minv[(size_t)i] = sp.pomega / diag[(size_t)i];
      else if(sp.prec == P_SCALE) for(int i = 0; i < n; ++i) minv[(size_t)i] = sp.pomega;
      else if(sp.prec != P_NONE) diagM = false;
      double base;
      if(sys.sym && sp.prec != P_JACOBI) base = 2.0 / (sys.lmin + sys.lmax) / (sp.prec == P_SCALE ? sp.pomega : 1.0);
      else if(sp.prec == P_JACOBI) base = 1.0 / sp.pomega;
      else { double dm = 0; for(int i = 0; i < n; ++i) dm = std::max(dm, std::fabs(diag[(size_t)i])); base = 1.0 / dm / (sp.prec == P_SCALE ? sp.pomega : 1.0); }
      static const double th_conv[3] = { 1.0, 0.5, 0.25 }; static const double th_free[6] = { 1.0, 0.5, 1.9, 2.2, 3.0, 0.1 };
      double th = conv_mode ? th_conv[t.pick({3, 2, 1})] : th_free[t.pick({3, 2, 2, 2, 1, 1})];
      sp.omega = base * th;
      if(diagM)
      {
        double n1 = 0, ni = 0; std::vector<double> colsum((size_t)n, 0.0);
        for(int i = 0; i < n; ++i) { if(fixed[(size_t)i]) continue; double rs = 0; for(int j = 0; j < n; ++j) { if(fixed[(size_t)j]) continue; double tij = (i == j ? 1.0 : 0.0) - sp.omega * (double)D(i, j) * minv[(size_t)j]; rs += std::fabs(tij); colsum[(size_t)j] += std::fabs(tij); } ni = std::max(ni, rs); }
        for(double x : colsum) n1 = std::max(n1, x);
        rate = std::min(n1, ni);
        if(sys.sym && sp.prec != P_JACOBI) { double we = sp.omega * (sp.prec == P_SCALE ? sp.pomega : 1.0); rate = std::min(rate, std::max(std::fabs(1.0 - we * sys.lmin), std::fabs(1.0 - we * sys.lmax))); }
      }
    }
    if(kind == K_CHEB)
    {
      static const double fmins[4] = { 0.5, 0.03, 0.1, 0.3 }; static const double fmaxs[4] = { 0.8, 1.1, 1.0, 1.5 };
      sp.fmin = fmins[t.pick({3, 2, 1, 1})]; sp.fmax = fmaxs[t.pick({3, 2, 1, 1})];
      // the solver estimates lambda_max by 40 power iterations from the constant vector; replicate it to know the interval it will use
      std::vector<double> v((size_t)n, 1.0 / std::sqrt((double)n)), z((size_t)n); double lam = 0, lam_old = 0;
      for(int it = 0; it < 40; ++it)
      {
        double zz = 0; for(int i = 0; i < n; ++i) { double s = 0; for(int j = 0; j < n; ++j) s += (double)Dsol(i, j) * v[(size_t)j]; z[(size_t)i] = s; zz += s * s; }
        double nz = std::sqrt(zz); lam = 0; for(int i = 0; i < n; ++i) { v[(size_t)i] = z[(size_t)i] / nz; lam += v[(size_t)i] * z[(size_t)i]; }
        if(std::fabs((lam - lam_old) / lam) < 1e-4) break; lam_old = lam;
      }
      double d = 0.5 * (sp.fmax + sp.fmin) * lam, cc = 0.5 * (sp.fmax - sp.fmin) * lam;
      auto Gf = [](double x) { x = std::fabs(x); return x > 1.0 ? x + std::sqrt(x * x - 1.0) : 1.0; };
      double g0 = Gf(d / cc); rate = std::max(Gf((d - sys.lmin) / cc), Gf((d - sys.lmax) / cc)) / g0 * 1.02;   // 2% margin for the replicated estimate
    }

    // ---- right-hand sides / start vectors
    auto gen_solve = [&](bool first) -> SolveSpec
    {
      SolveSpec s; s.correct = t.flag(1, 2);
      if(avoid_right_correct && sp.variant == 1) s.correct = false;
      int rc = t.pick({4, 3, 1, 1, 2});
      const bool force_generic = avoid_right_breakdown && sp.variant == 1;
      if(force_generic) rc = 0;
      SubTape vt(t.raw(), (size_t)(2 * n + 2), t.size); Tape& r = vt.t;   // vector entries: one choice expands to the values
      std::vector<double> xs((size_t)n, 0.0);
      const bool ints = sys.integer;
      switch(rc)
      {
      case 0: s.rhs_cls = "rand-real"; s.b.resize((size_t)n); s.rhs_generic = true; for(auto& x : s.b) { x = r.real(2); if(x == 0.0) x = 1.0; } break;
      case 1: {
        s.rhs_cls = "A*xs"; for(auto& x : xs) x = ints ? r.real(0) : r.real(1);
        for(int i = 0; i < n; ++i) if(fixed[(size_t)i]) xs[(size_t)i] = 0.0;
        for(size_t k = 0; k < fidx.size(); ++k) xs[(size_t)fidx[k]] = (double)DT(fval[k]);
        s.b.assign((size_t)n, 0.0); for(int i = 0; i < n; ++i) { double a = 0; for(int j = 0; j < n; ++j) if(D.st(i, j)) a += (double)D(i, j) * xs[(size_t)j]; s.b[(size_t)i] = a; }
        break; }
      case 2: s.rhs_cls = "zero"; s.b.assign((size_t)n, 0.0); break;
      case 3: s.rhs_cls = "unit"; s.b.assign((size_t)n, 0.0); s.b[(size_t)r.range(0, n - 1)] = 1.0; break;
      default: s.rhs_cls = "rand-int"; s.b.resize((size_t)n); for(auto& x : s.b) x = r.real(0); break;
      }
      LV tmp((Index)n);
      if(s.correct)
      {
        setv(tmp, s.b); lf.filter_rhs(tmp); s.b = getv(tmp);
        int xc = (rc == 1) ? t.pick({2, 2, 2, 1}) : t.pick({2, 2, 0, 1});
        if(force_generic && xc > 1) xc = 1;
        switch(xc)
        {
        case 0: s.x0_cls = "zero"; s.x0.assign((size_t)n, 0.0); break;
        case 1: s.x0_cls = "rand"; s.x0.resize((size_t)n); for(auto& x : s.x0) x = ints ? r.real(0) : r.real(2); break;
        case 2: s.x0_cls = "exact"; s.x0 = xs; s.exact_start = ints; break;
        default: {
          s.x0_cls = "near-exact"; std::vector<LD> bb(s.b.begin(), s.b.end()); auto xr = lu.solve(bb); s.x0.resize((size_t)n); for(int i = 0; i < n; ++i) s.x0[(size_t)i] = (double)DT((double)xr[(size_t)i]); break; }
        }
        setv(tmp, s.x0); lf.filter_sol(tmp); s.x0 = getv(tmp);
        if(s.exact_start) for(size_t k = 0; k < fval.size(); ++k) if(fval[k] != std::floor(fval[k])) s.exact_start = false;
      }
      else
      {
        // apply() receives a defect: filtered by the caller (zero at the constrained indices)
        setv(tmp, s.b); lf.filter_def(tmp); s.b = getv(tmp);
        s.x0_cls = "n/a";
      }
      // what matters to a Krylov method is the initial residual b - A x0: an (almost) exact start vector leaves rounding noise or a
      // single perturbed component, i.e. a degenerate Krylov space (false alarm seen: BiCGStab(1) 0/0 after the exact first step)
      if(s.correct && (s.x0_cls == "exact" || s.x0_cls == "near-exact")) s.rhs_generic = false;
      if(have_filter && s.rhs_generic) { for(int i = 0; i < n; ++i) if(!fixed[(size_t)i] && s.b[(size_t)i] == 0.0) s.rhs_generic = false; }
      if(avoid_zero_def)
      {
        // steer away from a zero initial defect: perturb the first free component until ||b - A x0|| > 0
        std::vector<LD> bL((size_t)n), x0L((size_t)n, 0.0L);
        for(int guard = 0; guard < 4; ++guard)
        {
          for(int i = 0; i < n; ++i) { bL[(size_t)i] = (LD)DT(s.b[(size_t)i]); x0L[(size_t)i] = s.correct ? (LD)DT(s.x0[(size_t)i]) : 0.0L; }
          LD bn = norm2(bL), xn = norm2(x0L);
          // "zero up to rounding": the solver's own evaluation in DT may give exactly 0 there
          if(norm2(resid(D, x0L, bL)) > 64.0L * (LD)n * u * (Afro * xn + bn) && bn + xn > 0.0L) break;
          int f = 0; while(f < n && fixed[(size_t)f]) ++f;
          if(f >= n) break;   // fully constrained: handled by the filter generator
          s.b[(size_t)f] += (double)(guard + 1) * std::max(1.0, std::fabs(diag[(size_t)f])); s.rhs_cls += "+nz"; s.exact_start = false; s.rhs_generic = false; if(s.x0_cls == "exact" || s.x0_cls == "near-exact") s.x0_cls += "-perturbed";
        }
      }
      (void)first; return s;
    };
    SolveSpec SA = gen_solve(true);
    LD bnorm = 0; for(double x : SA.b) bnorm += (LD)x * (LD)x; bnorm = sqrtl(bnorm);

    // ---- stop criteria
    Cfg cfg; Claim claim;
    const double kap = sys.kappa();
    const bool generic = sys.generic && SA.rhs_generic && !(have_filter && (sys.cls.find("lap") == 0 || sys.cls.find("convdiff") == 0));
    if(conv_mode)
    {
      // relative tolerance above the attainable accuracy of methods that recompute the true residual: 50 n u kappa
      double tmin = std::max(1e-12, 50.0 * n * (double)u * 2.0 * kap);
      int emax = std::max(1, (int)std::floor(-std::log10(tmin))); emax = std::min(emax, 12);
      int e = 1 + t.range(0, emax - 1); cfg.tol_rel = std::pow(10.0, -e); cfg.has_tol_rel = true;
      const double tol = cfg.tol_rel; const double pf = (sp.prec == P_NONE || sp.prec == P_SCALE) ? 1.0 : 16.0 * n;
      double bud = 0; claim.on = true;
      switch(kind)
      {
      case K_PCG: case K_PCR: case K_PIPEPCG: case K_GROPPPCG: bud = 100 + 20 * n + 3 * cg_bound(kap * pf, tol); break;
      case K_PCGNR: bud = 100 + 20 * n + 3 * cg_bound(kap * kap * pf * pf, tol); break;
      case K_BICGSTAB: case K_RBICGSTAB: case K_BICGSTABL: case K_IDRS: case K_RGCR: bud = 100 + 40 * n + 3 * cg_bound(kap * kap * pf, tol); break;
      case K_FGMRES: case K_GMRES: bud = (sp.dim >= n_int) ? 100 + 20 * n : 200 + 40 * n + 4.0 * kap * kap * pf * std::log(1.0 / tol); break;
      case K_PMR: bud = 100 + (sys.sym ? 2.0 * kap * pf : 4.0 * kap * kap * pf) * std::log(1.0 / tol); break;
      case K_RICH: case K_CHEB:
        if(rate > 0 && rate <= 0.98) bud = 30 + 1.2 * (std::log(tol / (2.0 * n)) / std::log(rate)); else { claim.on = false; claim.why = "no certified rate"; }
        break;
      default: claim.on = false;
      }
      if(block_method(kind))
      {
        // scope fact (ii): exact exhaustion of the Krylov space inside a block is a 0/0 breakdown of the method
        if(!generic) { claim.on = false; claim.why = "degenerate spectrum/rhs possible"; }
        if(n_int < 3 * sp.dim + 2) { claim.on = false; claim.why = "n < 3*dim+2"; }
        // Jacobi/SSOR/ILU collapse the spectrum where the (filtered) matrix decouples or ILU(0) is exact (isolated nodes, trees,
        // tridiagonal): the Krylov space is exhausted after a few steps and the block ends in 0/0 (false alarm seen:
        // BiCGStab(2)+ILU(0) on 9 free unknowns, aborted after 4 sweeps)
        if(!(sp.prec == P_NONE || sp.prec == P_SCALE)) { claim.on = false; claim.why = "preconditioner may collapse the spectrum (block method)"; }
      }
      // BiCG-type methods can break down (rho = 0) on structured nonsymmetric data, e.g. a triangular Toeplitz matrix with a unit
      // rhs (false alarm seen: RBiCGStab on bidiag(-2,2), rhs e_1): convergence is claimed on SPD systems (where BiCG = CG) and
      // on generic nonsymmetric data only
      // (second false alarm: RBiCGStab + ILU(0) on the 2x3 Laplacian with rhs e_1 - the preconditioned operator A M^-1 is nonsymmetric
      // and (r0, r1) = 0 exactly; a textbook BiCGStab replica breaks down the same way)
      if((kind == K_BICGSTAB || kind == K_RBICGSTAB || kind == K_BICGSTABL || kind == K_IDRS) && !generic && !(sys.sym && (sp.prec == P_NONE || sp.prec == P_SCALE)))
      { claim.on = false; claim.why = "BiCG-type method on structured nonsymmetric (preconditioned) data"; }
      if(bud > 60000) { claim.on = false; claim.why = "budget above cap"; bud = 60000; }
      {
        // the requested reduction must stay above the attainable accuracy u (||A|| ||x|| + ||b||) (start vectors that are
        // already exact up to rounding cannot be improved by a factor tol_rel: domain fact, not a defect)
        std::vector<LD> bL((size_t)n), x0L((size_t)n, 0.0L); for(int i = 0; i < n; ++i) { bL[(size_t)i] = (LD)DT(SA.b[(size_t)i]); if(SA.correct) x0L[(size_t)i] = (LD)DT(SA.x0[(size_t)i]); }
        LD d0 = norm2(resid(D, x0L, bL)); auto xr = lu.solve(bL);
        LD attain = 50.0L * (LD)n * u * (Afro * std::max(norm2(xr), norm2(x0L)) + norm2(bL));
        if(d0 > 0.0L && (LD)cfg.tol_rel * d0 < attain) { claim.on = false; claim.why = "tol_rel*d0 below attainable accuracy"; }
      }
      cfg.max_iter = (int)std::max(1.0, std::ceil(bud)); cfg.min_iter = 0;
      claim.budget = cfg.max_iter;
      if(!claim.on && claim.why.empty()) claim.why = "not claimed";
    }
    else
    {
      if(t.flag(3, 4)) { cfg.has_tol_rel = true; cfg.tol_rel = std::pow(10.0, -(1 + t.range(0, 11))); } else t.raw();
      double bsc = bnorm > 0 ? (double)bnorm : 1.0;
      if(t.flag(1, 3)) { cfg.has_tol_abs = true; cfg.tol_abs = 0.7 * bsc * std::pow(10.0, -t.range(0, 10)); } else t.raw();
      if(t.flag(1, 4)) { cfg.has_tol_abs_low = true; cfg.tol_abs_low = 0.3 * bsc * std::pow(10.0, -t.range(0, 10)); /* never exactly d0: the initial test is '<', the later one '<=' */ if(cfg.has_tol_abs) cfg.tol_abs_low = std::min(cfg.tol_abs_low, cfg.tol_abs); } else t.raw();
      cfg.max_iter = t.sized(1, 200, 6); cfg.min_iter = std::min(cfg.max_iter, t.range(0, 5));
      if(t.flag(1, 8)) cfg.min_iter = cfg.max_iter;       // defect-skipping class (min_iter >= max_iter)
      if(avoid_min_iter || avoid_rgcr_forced) cfg.min_iter = 0;
      if(avoid_zero_def) { cfg.has_tol_abs_low = false; cfg.tol_abs_low = 0; }
      cfg.min_stag = t.pick({4, 1, 1, 1});
      { static const double sr[5] = { 0.95, 0.5, 0.99, 0.1, 1.0 }; int k = t.pick({3, 2, 1, 1, 1}); if(k) { cfg.has_stag_rate = true; cfg.stag_rate = sr[k]; } }
      { static const double dr[5] = { 0, 1e3, 10.0, 2.0, 0.5 }; int k = t.pick({4, 1, 1, 1, 1}); if(k) { cfg.has_div_rel = true; cfg.div_rel = dr[k]; } }
      if(t.flag(1, 6)) { cfg.has_div_abs = true; cfg.div_abs = bsc * std::pow(10.0, t.range(0, 3)); } else t.raw();
      cfg.skip = !t.flag(1, 4); cfg.plot = t.pick({8, 1, 1, 1});
    }

    // ---- history
    int init_style = t.pick({2, 1});
    bool rep_a = t.flag(1, 2);
    bool have_b = t.flag(1, 3);
    SolveSpec SB; if(have_b) SB = gen_solve(false);
    int reinit = t.pick({2, 1, 1});     // none / numeric / full
    if(avoid_idrs_reinit && reinit == 2) reinit = 1;
    int done_style = t.pick({2, 1});
    bool poison = t.flag(1, 3);
    //  BiCGStab(l) scales its never-written work vectors u_j by beta = 0 in the first sweep (0 * NaN = NaN)
    if(kind == K_BICGSTABL && poison && c.excl("c07-bicgstabl-uninit-work-vectors")) poison = false;
    std::vector<std::string> ops;
    ops.push_back(init_style ? "init_symbolic+init_numeric" : "init"); ops.push_back("A");
    if(rep_a) ops.push_back("A"); if(have_b) ops.push_back("B");
    if(reinit == 1) { ops.push_back("done_numeric"); ops.push_back("init_numeric"); ops.push_back("A"); }
    if(reinit == 2) { ops.push_back("done"); ops.push_back("init"); ops.push_back("A"); }
    ops.push_back(done_style ? "done_numeric+done_symbolic" : "done");

    // ---- description, labels
    c.desc.set("dt", TypeName<DT>::n()); c.desc.set("backend", BE::is_global ? "global" : "local");
    c.desc.set("sys", sys.json());
    { J f = J::obj(); f.set("type", std::is_same<LF, NoneFilter<DT, Index>>::value ? "none" : "unit"); f.set("idx", J(fidx)); f.set("val", J(fval)); c.desc.set("filter", f); }
    c.desc.set("solver", sp.json()); c.desc.set("mode", conv_mode ? "conv" : "free"); c.desc.set("cfg", cfg.json());
    if(conv_mode) { J cl = J::obj(); cl.set("claimed", claim.on); cl.set("budget", claim.budget); if(!claim.on) cl.set("why", claim.why); if(rate > 0) cl.set("rate", rate); c.desc.set("s3", cl); }
    auto sj = [&](const SolveSpec& s) { J j = J::obj(); j.set("op", s.correct ? "correct" : "apply"); j.set("rhs_class", s.rhs_cls); j.set("x0_class", s.x0_cls); j.set("b", J(s.b)); if(s.correct) j.set("x0", J(s.x0)); return j; };
    c.desc.set("A", sj(SA)); if(have_b) c.desc.set("B", sj(SB));
    c.desc.set("history", J(ops));
    const std::string kn = kind_names[kind];
    c.op = kn; c.label("kind:" + kn); c.label("prec:" + std::string(prec_names[sp.prec])); c.label(std::string("filter:") + (std::is_same<LF, NoneFilter<DT, Index>>::value ? "none" : have_filter ? "unit" : "unit-empty"));
    c.label(std::string("mode:") + (conv_mode ? (claim.on ? "conv-claimed" : "conv-unclaimed") : "free"));
    c.label("sys:" + sys.cls.substr(0, sys.cls.find('('))); c.label(std::string("op:") + (SA.correct ? "correct" : "apply")); c.label("rhs:" + SA.rhs_cls); if(SA.correct) c.label("x0:" + SA.x0_cls);
    c.label(std::string("hist:") + (reinit == 0 ? "single-init" : reinit == 1 ? "reinit-numeric" : "reinit-full")); if(rep_a) c.label("hist:repeat"); if(have_b) c.label("hist:interleaved");
    if(!conv_mode) { if(cfg.min_iter >= cfg.max_iter) c.label("cfg:min>=max"); if(cfg.min_stag) c.label("cfg:stagnation-check"); if(cfg.has_div_rel || cfg.has_div_abs) c.label("cfg:divergence-limits"); if(cfg.has_tol_abs || cfg.has_tol_abs_low) c.label("cfg:abs-tolerances"); if(cfg.plot) c.label("cfg:plot"); if(!cfg.skip) c.label("cfg:noskip"); }
    if(have_filter) c.label(matfilt ? "matrix:filtered" : "matrix:unfiltered"); c.desc.set("matrix_filtered", matfilt);
    if(poison) c.label("heap:nan-poisoned"); c.desc.set("heap_poison", poison);
    if(n == 1) c.label("n:1"); else if(n == 2) c.label("n:2"); else if(n < 10) c.label("n:3-9"); else if(n < 30) c.label("n:10-29"); else c.label("n:30+");
    if(SA.exact_start) c.label("x0:exact-zero-defect");

    // ---- everything below touches the solver
    BE be(matfilt ? std::move(Af) : std::move(Araw), std::move(lf));
    auto mk = [&]() { auto s = make_solver<G>(be, sp); apply_cfg(*s, cfg); return s; };
    typedef SolveResult<DT> SR;
    // one solve on solver s; 'fill' = prior content of the output vector for apply()
    auto do_solve = [&](IterativeSolver<VT>& s, const SolveSpec& S, double fill, std::string* rhs_after) -> SR
    {
      RecBase* rec = dynamic_cast<RecBase*>(&s); if(rec) rec->reset_log();
      VT b = be.vec(), x = be.vec(); setv(BE::loc(b), S.b);
      if(S.correct) setv(BE::loc(x), S.x0); else { std::vector<double> g((size_t)n, fill); setv(BE::loc(x), g); }
      Status st = S.correct ? s.correct(x, b) : s.apply(x, b);
      SR r; r.status = (int)st; r.iters = (unsigned long)s.get_num_iter(); r.def0 = s.get_def_initial(); r.defF = s.get_def_final();
      r.xbytes = bytes(BE::loc(x)); for(double v : getv(BE::loc(x))) r.x.push_back((LD)v);
      if(rec) { r.log = rec->log; r.init_status = rec->init_status; }
      if(rhs_after) *rhs_after = bytes(BE::loc(b));
      VF_CHECK((int)s.get_status() == r.status, "S2 get_status() " << status_name((int)s.get_status()) << " differs from the returned status " << status_name(r.status));
      return r;
    };
    const double NaN = std::numeric_limits<double>::quiet_NaN();

    // probe run (grand-child): stop reason label and non-trivial flag
    {
      if(!freopen("/dev/null", "w", stdout)) { /* plots go to the inherited stdout */ }
      int pst = -1; unsigned long pit = 0;
      bool ok = probe([&](int& s, unsigned long& it) { auto sv = mk(); sv->init(); SR r = do_solve(*sv, SA, 0.0, nullptr); s = r.status; it = r.iters; sv->done(); }, pst, pit);
      c.label(std::string("stop:") + (ok ? status_name(pst) : "probe-failed"));
      c.label("stop-by-kind:" + kn + "/" + (ok ? status_name(pst) : "probe-failed"));
      c.nontrivial = ok && n >= 3 && pit >= 1;
      c.desc.set("probe", J(std::string(ok ? status_name(pst) : "failed") + "/" + std::to_string(pit)));
    }
    c.announce();
    c.fd = -1;   // the description is complete: suppress the scaffold's re-announce at the end of the case (it would count every label twice)

    // ---- judged run
    // Fresh allocations have unspecified content (MemoryPool uses plain malloc) and the forked child inherits whatever the
    // parent's heap holds.  To keep the verdict a function of the case, the free lists are conditioned through the public
    // API before every (re-)initialisation: work-vector sized blocks filled with 0 ("clean"), or with NaN in the
    // "heap:nan-poisoned" class, where a fresh solver on clean memory serves as reference: a solver that reads a work
    // vector before writing it gives different results (same inputs => same result, S5; in-scope convergence, S3).
    auto heap = [&](double v) { std::vector<LV> junk; for(int k = 0; k < 160; ++k) junk.emplace_back((Index)n, DT(v)); };
    SR R0;
    if(poison) { heap(0.0); auto s0 = mk(); s0->init(); R0 = do_solve(*s0, SA, NaN, nullptr); s0->done(); s0.reset(); heap(NaN); }
    else heap(0.0);
    auto solver = mk();
    Limits<DT> L(*solver);
    const bool plot_iter = (cfg.plot == 1 || cfg.plot == 3);
    const bool skip_class = (L.min_iter >= L.max_iter) && cfg.skip && !plot_iter && L.min_stag == 0;

    auto judge = [&](const SolveSpec& S, const SR& R, const std::string& rhs_after, const char* tag)
    {
      // S4: right-hand side untouched
      { LV tmp((Index)n); setv(tmp, S.b); VF_CHECK(bytes(tmp) == rhs_after, "S4 " << tag << ": right-hand side modified by " << (S.correct ? "correct" : "apply")); }
      std::vector<LD> b(S.b.begin(), S.b.end()); for(auto& v : b) v = (LD)DT((double)v);
      std::vector<LD> x0((size_t)n, 0.0L); if(S.correct) for(int i = 0; i < n; ++i) x0[(size_t)i] = (LD)DT(S.x0[(size_t)i]);
      LD x0n = norm2(x0), bn = norm2(b);
      const LD d0 = norm2(resid(D, x0, b));
      bool xfin = true; for(LD v : R.x) if(!std::isfinite((double)v)) xfin = false;
      // S4: start vector honoured by correct() / ignored by apply(): the reported initial defect is ||b - A x0||
      {
        LD tol0 = 8.0L * (LD)(n + 2) * u * (Afro * x0n + bn) + 16.0L * (LD)std::numeric_limits<DT>::min();
        VF_CHECK(std::isfinite((double)R.def0) && fabsl((LD)R.def0 - d0) <= tol0, "S4 " << tag << ": reported initial defect " << (double)R.def0 << " but ||b-A*x0|| = " << (double)d0 << " (" << (S.correct ? "correct" : "apply") << ", tol " << (double)tol0 << ")");
      }
      if(S.exact_start)
      {
        VF_CHECK(d0 == 0.0L, "harness:exact start has defect " << (double)d0);
        VF_CHECK(R.status == (int)Status::success && R.iters == 0, "S4 " << tag << ": correct() from the exact solution (zero defect) returned " << status_name(R.status) << " after " << R.iters << " iterations");
        LV tmp((Index)n); setv(tmp, S.x0); VF_CHECK(bytes(tmp) == R.xbytes, "S4 " << tag << ": correct() from the exact solution changed the iterate");
      }
      // S2
      check_stop_logic(L, R, kind, skip_class, xfin, avoid_gmres_overshoot ? 1ul : 0ul);
      // S1
      LD allowed = 0, slack = 0, rn = 0;
      // defect-skipping class (min_iter >= max_iter, skipping allowed, no plot, no stagnation check): documented as "the defect is
      // not computed"; the returned status then rests on a stale value (the initial defect, for (F)GMRES the last inner estimate)
      // and is not judged against the residual (false alarm seen: GMRES(4), n=1, one forced iteration -> 0/0, stale estimate 0)
      if(R.status == (int)Status::success && !(skip_class && R.iters > 0))
      {
        VF_CHECK(xfin, "S1 " << tag << ": success with a non-finite iterate");
        rn = norm2(resid(D, R.x, b)); LD xn = norm2(R.x);
        LD eps2 = (LD)std::numeric_limits<DT>::epsilon() * (LD)std::numeric_limits<DT>::epsilon();
        allowed = std::min((LD)L.tol_abs, std::max((LD)L.tol_rel * d0, (LD)L.tol_abs_low));
        if(R.iters == 0) allowed = std::max(allowed, std::max((LD)L.tol_abs_low, eps2));
        // rounding drift between the recurrence residual and b - A x scales with the largest iterate met on the way (Greenbaum 1997:
        // ||b - A x_k - r_k|| <= c k u ||A|| max_j ||x_j||); the start vector is the available bound for it (false alarm seen: GroppPCG,
        // zero rhs, ||x0|| ~ 1e3, ||A|| ~ 1e4, tol_abs = 1e-10, i.e. 17 digits below the initial defect)
        slack = 8.0L * (LD)(R.iters + 1) * (LD)n * u * (Afro * std::max(xn, x0n) + bn) + 16.0L * (LD)std::numeric_limits<DT>::min();
        // communication-hiding variants replace the products A p, A u, ... by recurrences; their local rounding errors are propagated
        // into the residual gap with an amplification that grows with the condition number (Cools et al., SIMAX 39 (2018): maximal
        // attainable accuracy of pipelined CG).  False alarm seen: PipePCG, n=2, kappa=1e3, tol_abs 1.6e-13*d0, gap 12x the plain bound.
        // RGCR keeps normalised direction pairs (p_i, q_i ~ A M^-1 p_i) and re-uses them in later solves: x += (r.q_i) p_i, r -= (r.q_i) q_i.  Each stored
        // pair carries the error of its orthogonalisation chain, scaled by 1/||q_i||, so the gap between recurrence and true residual grows
        // with the condition number as well.  False alarm seen (thorough tier, misc_unfilt): convdiff1d n=20, kappa 268, SSOR(1.9), tol_rel 1e-10,
        // second solve on the object: true residual 1.06e-9 d0, reported 1.5e-12 d0 - 190x the plain bound, inside kappa x the bound.
        if(kind == K_PIPEPCG || kind == K_GROPPPCG || kind == K_RBICGSTAB || kind == K_RGCR) slack *= (LD)std::max(1.0, kap);
        VF_CHECK(rn <= allowed * (1.0L + 1e-6L) + slack, "S1 " << tag << ": status success after " << R.iters << " iterations but ||b-Ax|| = " << (double)rn << " > accepted " << (double)allowed << " (+ rounding slack " << (double)slack
          << "); d0 " << (double)d0 << " reported final defect " << (double)R.defF);
      }
      // S3
      if(conv_mode && claim.on && &S == &SA)
      {
        // block methods: once the Krylov space of the free unknowns is (nearly) exhausted the 0/0 breakdown is inherent (scope fact ii)
        const unsigned long steps = R.iters * (unsigned long)((kind == K_BICGSTABL) ? sp.dim : 1);
        const bool exhausted = block_method(kind) && R.status == (int)Status::aborted && !xfin && (long)steps + sp.dim + 1 >= (long)n_int;
        if(exhausted) return;
        VF_CHECK(R.status == (int)Status::success, "S3 " << tag << ": in-scope system (kappa<=" << kap << ", budget " << claim.budget << " iterations, tol_rel " << cfg.tol_rel << ") ended with " << status_name(R.status)
          << " after " << R.iters << " iterations, defect " << (double)R.def0 << " -> " << (double)R.defF);
        auto xr = lu.solve(b); LD en = 0, xrn = norm2(xr); for(int i = 0; i < n; ++i) en += (R.x[(size_t)i] - xr[(size_t)i]) * (R.x[(size_t)i] - xr[(size_t)i]); en = sqrtl(en);
        LD eb = Ainv * (allowed * (1.0L + 1e-6L) + slack) * 1.000001L + 64.0L * (LD)n * std::numeric_limits<LD>::epsilon() * Ainv * Afro * xrn;
        VF_CHECK(en <= eb, "S3 " << tag << ": ||x - x_ref|| = " << (double)en << " > ||A^-1||_F * residual bound = " << (double)eb << " (||x_ref|| " << (double)xrn << ")");
      }
    };
    auto same = [&](const SR& a, const SR& b, const char* what)
    {
      {
        // a breakdown of the method (0/0 after exhaustion of the Krylov space, scope facts ii/iii) is outside every promise:
        // two runs that both end 'aborted' with a non-finite iterate count as the same result, however they got there
        auto nonfin = [](const SR& r) { for(LD v : r.x) if(!std::isfinite((double)v)) return true; return false; };
        if(a.status == (int)Status::aborted && b.status == (int)Status::aborted && nonfin(a) && nonfin(b)) return;
      }
      VF_CHECK(a.status == b.status && a.iters == b.iters, "S5 " << what << ": status/iterations differ: " << status_name(a.status) << "/" << a.iters << " vs " << status_name(b.status) << "/" << b.iters);
      // bitwise, except that any NaN equals any NaN (IEEE 754 leaves sign and payload of an arithmetic NaN unspecified)
      size_t k = 0;
      for(; k < a.x.size(); ++k) { if(std::isnan((double)a.x[k]) && std::isnan((double)b.x[k])) continue; if(memcmp(a.xbytes.data() + k * sizeof(DT), b.xbytes.data() + k * sizeof(DT), sizeof(DT)) != 0) break; }
      if(k < a.x.size())
      {
        VF_FAIL("mismatch:S5 " << what << ": iterates differ bitwise (same solver object, same inputs; " << status_name(a.status) << " after " << a.iters << " iterations): x[" << k << "] = " << (double)a.x[k] << " vs " << (double)b.x[k]);
      }
      auto beq = [](DT p, DT q) { return (std::isnan((double)p) && std::isnan((double)q)) || memcmp(&p, &q, sizeof(DT)) == 0; };
      VF_CHECK(beq(a.def0, b.def0) && beq(a.defF, b.defF), "S5 " << what << ": reported defects differ: " << (double)a.def0 << "->" << (double)a.defF << " vs " << (double)b.def0 << "->" << (double)b.defF);
    };

    if(init_style) { solver->init_symbolic(); solver->init_numeric(); } else solver->init();
    std::string ra;
    // RGCR recycles a quarter of its search directions from the previous solve *by design*; a repeated solve
    // reproduces them exactly only if the previous solve on this symbolic state had the same inputs
    bool rgcr_clean = true;
    // same finding as the uninitialised work vectors: BiCGStab(l) never resets u_j, so a solve that broke down (NaN) poisons
    // every later solve on the same symbolic state.  With the finding switched off such a solver is re-created (done/init on
    // clean memory) before it is used again.
    const bool reset_tainted = (kind == K_BICGSTABL) && c.excl("c07-bicgstabl-uninit-work-vectors");
    auto tainted = [&](const SR& r) { if(!std::isfinite((double)r.defF)) return true; for(LD v : r.x) if(!std::isfinite((double)v)) return true; return false; };
    auto untaint = [&](const SR& r) { if(reset_tainted && tainted(r)) { solver->done(); heap(0.0); solver->init(); } };
    SR R1 = do_solve(*solver, SA, NaN, &ra); untaint(R1);
    if(poison) same(R0, R1, "fresh solver objects on zero-filled vs NaN-filled free memory (result depends on uninitialised work vectors)");
    judge(SA, R1, ra, "solve#1");
    if(rep_a)
    {
      SR R2 = do_solve(*solver, SA, 0.0, &ra); untaint(R2); judge(SA, R2, ra, "repeat");
      same(R1, R2, SA.correct ? "repeated correct()" : "apply() with NaN vs zero prior content of the output vector");
    }
    if(!SA.correct && !rep_a)
    {
      // S4 needs the second run in any case: prior content of the output vector must not matter
      SR R2 = do_solve(*solver, SA, 1e30, &ra); untaint(R2); same(R1, R2, "apply() with NaN vs 1e30 prior content of the output vector");
    }
    if(have_b)
    {
      SR RB = do_solve(*solver, SB, NaN, &ra); untaint(RB);
      // B is judged with S1/S2/S4 (no S3 claim)
      judge(SB, RB, ra, "solve B");
      rgcr_clean = false;
    }
    if(reinit)
    {
      if(reinit == 1) { solver->done_numeric(); heap(poison ? NaN : 0.0); solver->init_numeric(); } else { solver->done(); heap(poison ? NaN : 0.0); solver->init(); rgcr_clean = true; }
      SR R3 = do_solve(*solver, SA, -7.0, &ra); judge(SA, R3, ra, reinit == 1 ? "after done_numeric/init_numeric" : "after done/init");
      if(kind != K_RGCR || rgcr_clean) same(R1, R3, reinit == 1 ? "solve after done_numeric/init_numeric" : "solve after done/init");
    }
    if(done_style) { solver->done_numeric(); solver->done_symbolic(); } else solver->done();
  }

  // ------------------------------------------------------------------------------------------
  // target entry: decodes the head of the tape (kind, mode, system, filter) and dispatches on the filter type
  // ------------------------------------------------------------------------------------------
  template<int G, typename DT, template<typename, typename> class BEt>
  void target(Tape& t, Ctx& c, const std::vector<int>& kinds, const std::vector<int>& weights, int maxn)
  {
    // solver kind (0 on the tape = first = simplest)
    long tot = 0; for(int w : weights) tot += w; long r = long(t.raw() % uint32_t(tot)); size_t ki = 0; for(; ki < weights.size(); ++ki) { if(r < weights[ki]) break; r -= weights[ki]; }
    int kind = kinds[std::min(ki, kinds.size() - 1)];
    bool conv_mode = !t.flag(1, 2); if(force_bits & 1) conv_mode = true;
    bool sym = needs_spd(kind) ? true : !t.flag(2, 3);
    if(kind == K_PMR || kind == K_PCGNR || kind == K_RICH) sym = t.flag(1, 2) ? false : true;
    double kcap = 1e4;
    if(conv_mode)
    {
      // condition caps keep the certified iteration budgets of slow methods small (see claim computation)
      if(kind == K_CHEB) kcap = 20; else if(slow_method(kind)) kcap = 30; else if(kind == K_PCGNR) kcap = 100; else if(kind == K_FGMRES || kind == K_GMRES) kcap = 50;
    }
    Sys sys = gen_sys(t, sym, maxn, kcap);
    // known finding c07-bicgstab-... style exclusions are applied by the callers through 'c'
    bool unit = t.flag(1, 3); if(force_bits & 2) unit = true;
    std::vector<int> fidx; std::vector<double> fval;
    if(unit)
    {
      unsigned p = (unsigned)t.range(0, 8);
      SubTape ft(t.raw(), (size_t)(2 * sys.n), t.size);
      for(int i = 0; i < sys.n; ++i) { bool on = ft.t.flag(p, 8); double v = sys.integer ? ft.t.real(0) : ft.t.real(1); if(on) { fidx.push_back(i); fval.push_back(v); } }
      // a fully constrained system has a zero defect for every input (see the zero-defect findings)
      if((int)fidx.size() == sys.n && ((kind == K_BICGSTAB && c.excl("c07-bicgstab-zero-defect")) || (kind == K_BICGSTABL && c.excl("c07-bicgstabl-zero-defect")) || (kind == K_IDRS && c.excl("c07-idrs-zero-defect")))) { fidx.pop_back(); fval.pop_back(); }
      run_case<G, DT, BEt, UnitFilter<DT, Index>>(t, c, sys, kind, conv_mode, fidx, fval);
    }
    else run_case<G, DT, BEt, NoneFilter<DT, Index>>(t, c, sys, kind, conv_mode, fidx, fval);
  }
} // namespace c07
