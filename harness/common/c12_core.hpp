// c12_core.hpp - oracles and targets of property C12 (partitions cover each cell once; neighbouring patches agree on
// their interface; joint refinement; built-in partitioners), one process, no MPI: RootMeshNode::extract_patch is called
// for every rank on the same base node (which thereby collects the patch mesh-parts = the patch->base maps).
#pragma once
#include "c10_core.hpp"
#include <kernel/geometry/parti_2lvl.hpp>
#include <kernel/geometry/parti_iterative.hpp>

/// the harness binary overrides time(): PartiIterative seeds its generator with time(nullptr); a tape-chosen value makes
/// its partition a function of the case (0 = real clock)
extern time_t c12_fake_time;

namespace c12
{
  using namespace mg;
  using c10::collect_parts;

  /// cell -> rank assignments (G-partition): 0 random, 1 contiguous balanced, 2 interleaved (disconnected patches),
  /// 3 checkerboard on the cell index (vertex-touching/disconnected on structured grids), 4 one cell per rank, 5 single rank
  inline std::vector<int> gen_assignment(vf::Tape& t, Index ncells, int kind, int& nranks, std::string& kname)
  {
    static const char* kn[6] = {"random", "contiguous", "interleaved", "pairs", "one-cell-per-rank", "single-rank"};
    kname = kn[kind]; std::vector<int> r((size_t)ncells, 0);
    const int nmax = int(std::min<Index>(ncells, 8));
    switch(kind)
    {
    case 0: { nranks = 1 + t.range(0, nmax - 1); Chooser ch(t, size_t(ncells), 64); for(Index i = 0; i < ncells; ++i) r[i] = (i < Index(nranks)) ? int(i) : int(ch.pick(unsigned(nranks)));
              for(Index i = 0; i < Index(nranks); ++i) { Index j = i + Index(ch.pick(unsigned(ncells - i))); std::swap(r[i], r[j]); } break; }
    case 1: nranks = 1 + t.range(0, nmax - 1); for(Index i = 0; i < ncells; ++i) r[i] = int((i * Index(nranks)) / ncells); break;
    case 2: nranks = 1 + t.range(0, nmax - 1); for(Index i = 0; i < ncells; ++i) r[i] = int(i % Index(nranks)); break;
    case 3: nranks = int(std::min<Index>(ncells, 2)); for(Index i = 0; i < ncells; ++i) r[i] = int(((i / 2) % 2 + i) % Index(nranks)); if(ncells >= 2) { r[0] = 0; r[1] = 1; } break;
    case 4: nranks = int(std::min<Index>(ncells, 24)); for(Index i = 0; i < ncells; ++i) r[i] = int(std::min<Index>(i, Index(nranks) - 1)); break;
    default: nranks = 1; break;
    }
    return r;
  }

  inline FEAT::Adjacency::Graph graph_of(const std::vector<int>& rank_of, int nranks, bool shuffled_cells, vf::Tape& t)
  {
    const Index ncells = Index(rank_of.size());
    std::vector<std::vector<Index>> lst((size_t)nranks); for(Index i = 0; i < ncells; ++i) lst[size_t(rank_of[i])].push_back(i);
    if(shuffled_cells) for(auto& l : lst) { Chooser ch(t, l.size(), 16); for(size_t i = 0; i + 1 < l.size(); ++i) { size_t j = i + ch.pick(unsigned(l.size() - i)); std::swap(l[i], l[j]); } }
    std::vector<Index> ptr(size_t(nranks) + 1, 0), idx; for(int r = 0; r < nranks; ++r) { ptr[size_t(r) + 1] = ptr[size_t(r)] + Index(lst[size_t(r)].size()); idx.insert(idx.end(), lst[size_t(r)].begin(), lst[size_t(r)].end()); }
    return FEAT::Adjacency::Graph(Index(nranks), ncells, ncells, ptr.data(), idx.data());
  }

  template<typename Shape_> struct Parted
  {
    std::unique_ptr<NodeOf<Shape_>> base; std::vector<std::unique_ptr<NodeOf<Shape_>>> patch; std::vector<std::vector<int>> comm;
  };

  /// oracles (1)-(4) on one level: base node (holding the patch mesh-parts) and the patch nodes (holding the halos)
  template<typename Shape_> inline void check_level(const Parted<Shape_>& P, bool base_neigh_valid, const std::string& ctx)
  {
    constexpr int sd = Shape_::dimension; const int n = int(P.patch.size());
    const Flat B = flatten<Shape_>(*P.base->get_mesh(), base_neigh_valid);
    std::vector<FlatPart> map((size_t)n); std::vector<Flat> pm((size_t)n);
    for(int r = 0; r < n; ++r)
    {
      const PartOf<Shape_>* pp = P.base->get_patch(r); VF_CHECK(pp != nullptr, ctx << " base node has no patch mesh-part for rank " << r);
      map[size_t(r)] = flatten_part<Shape_>(*pp);
      { std::string s = validate_part(map[size_t(r)], B); VF_CHECK(s.empty(), ctx << " patch map of rank " << r << ": " << s); }
      VF_CHECK(P.patch[size_t(r)] && P.patch[size_t(r)]->get_mesh(), ctx << " patch node of rank " << r << " has no mesh");
      pm[size_t(r)] = flatten<Shape_>(*P.patch[size_t(r)]->get_mesh(), true);
    }
    // (1) the cell targets of all patches partition the base cells
    std::vector<int> owner(size_t(B.n[sd]), -1);
    for(int r = 0; r < n; ++r) for(Index c : map[size_t(r)].trg[sd])
    { VF_CHECK(owner[c] < 0, ctx << " base cell " << c << " belongs to patches " << owner[c] << " and " << r); owner[c] = r; }
    for(Index c = 0; c < B.n[sd]; ++c) VF_CHECK(owner[c] >= 0, ctx << " base cell " << c << " belongs to no patch");
    // (2) injective maps; patch mesh is a valid mesh and the image of its entities are the base entities (same vertices, same coordinates);
    //     the lower-dimensional targets are exactly the faces of the patch cells
    std::vector<std::vector<std::set<Index>>> have((size_t)n);
    for(int r = 0; r < n; ++r)
    {
      const FlatPart& m = map[size_t(r)]; const Flat& q = pm[size_t(r)];
      { std::string s = validate(q); VF_CHECK(s.empty(), ctx << " patch mesh of rank " << r << ": " << s); }
      have[size_t(r)].resize(size_t(sd) + 1);
      for(int d = 0; d <= sd; ++d)
      {
        VF_CHECK(q.n[d] == m.n[d], ctx << " patch " << r << " has " << q.n[d] << " entities of dimension " << d << " but its map has " << m.n[d]);
        for(Index x : m.trg[d]) VF_CHECK(have[size_t(r)][size_t(d)].insert(x).second, ctx << " patch " << r << " maps two local " << d << "-entities onto base entity " << x);
      }
      std::set<Index> want[4]; for(Index c : m.trg[sd]) for(int d = 0; d < sd; ++d) for(int k = 0; k < B.nc[sd][d]; ++k) want[d].insert(B.at(sd, d, c, k));
      for(int d = 0; d < sd; ++d) VF_CHECK(want[d] == have[size_t(r)][size_t(d)], ctx << " patch " << r << ": " << d << "-entities of the map (" << have[size_t(r)][size_t(d)].size() << ") are not the faces of its cells (" << want[d].size() << ")");
      for(Index v = 0; v < q.n[0]; ++v) for(int a = 0; a < sd; ++a) VF_CHECK(q.vtx[v][size_t(a)] == B.vtx[m.trg[0][v]][size_t(a)], ctx << " patch " << r << " vertex " << v << " has other coordinates than base vertex " << m.trg[0][v]);
      for(int d = 1; d <= sd; ++d) for(Index i = 0; i < q.n[d]; ++i)
      {
        std::vector<Index> a; for(Index v : q.verts(d, i)) a.push_back(m.trg[0][v]); std::sort(a.begin(), a.end());
        VF_CHECK(a == B.sorted_verts(d, m.trg[d][i]), ctx << " patch " << r << ": local " << d << "-entity " << i << " does not consist of the vertices of base entity " << m.trg[d][i]);
      }
    }
    // (3) neighbour relation: s in comm(r) <=> patches share a base vertex; symmetric and complete
    for(int r = 0; r < n; ++r)
    {
      std::set<int> got(P.comm[size_t(r)].begin(), P.comm[size_t(r)].end());
      VF_CHECK(got.size() == P.comm[size_t(r)].size() && !got.count(r), ctx << " comm ranks of " << r << " contain duplicates or the rank itself");
      for(int s = 0; s < n; ++s) if(s != r)
      {
        bool share = false; for(Index v : have[size_t(r)][0]) if(have[size_t(s)][0].count(v)) { share = true; break; }
        VF_CHECK(share == (got.count(s) > 0), ctx << " ranks " << r << " and " << s << (share ? " share a base vertex but " : " share no vertex but ") << s << (got.count(s) ? " is" : " is not") << " a comm neighbour of " << r);
      }
      std::set<int> hk; for(auto& kv : P.patch[size_t(r)]->get_halo_map()) { hk.insert(kv.first); VF_CHECK(kv.second != nullptr, ctx << " patch " << r << " has a null halo for " << kv.first); }
      VF_CHECK(hk == got, ctx << " patch " << r << " has " << hk.size() << " halos but " << got.size() << " comm neighbours");
    }
    // (4) halos: same sequence of base entities on both sides = the shared base entities
    for(int r = 0; r < n; ++r) for(int s : P.comm[size_t(r)]) if(r < s)
    {
      const PartOf<Shape_>* hr = P.patch[size_t(r)]->get_halo(s); const PartOf<Shape_>* hs = P.patch[size_t(s)]->get_halo(r);
      VF_CHECK(hr && hs, ctx << " halo between " << r << " and " << s << " missing on one side");
      FlatPart fr = flatten_part<Shape_>(*hr), fs = flatten_part<Shape_>(*hs);
      { std::string e = validate_part(fr, pm[size_t(r)]); VF_CHECK(e.empty(), ctx << " halo " << r << "->" << s << ": " << e); }
      { std::string e = validate_part(fs, pm[size_t(s)]); VF_CHECK(e.empty(), ctx << " halo " << s << "->" << r << ": " << e); }
      for(int d = 0; d <= sd; ++d)
      {
        std::vector<Index> br, bs; for(Index i : fr.trg[d]) br.push_back(map[size_t(r)].trg[d][i]); for(Index i : fs.trg[d]) bs.push_back(map[size_t(s)].trg[d][i]);
        VF_CHECK(br.size() == bs.size(), ctx << " halos " << r << "<->" << s << " list " << br.size() << " and " << bs.size() << " entities of dimension " << d);
        for(size_t i = 0; i < br.size(); ++i) VF_CHECK(br[i] == bs[i], ctx << " halos " << r << "<->" << s << " differ at position " << i << " of dimension " << d << ": base entities " << br[i] << " and " << bs[i]);
        std::set<Index> sh; for(Index x : have[size_t(r)][size_t(d)]) if(have[size_t(s)][size_t(d)].count(x)) sh.insert(x);
        std::set<Index> got(br.begin(), br.end());
        VF_CHECK(got.size() == br.size(), ctx << " halo " << r << "->" << s << " lists a " << d << "-entity twice");
        VF_CHECK(got == sh, ctx << " halo " << r << "<->" << s << " holds " << got.size() << " entities of dimension " << d << ", the patches share " << sh.size());
      }
    }
  }

  template<typename Shape_> inline void extract_all(Parted<Shape_>& P, const FEAT::Adjacency::Graph& ear, int nranks)
  {
    P.patch.clear(); P.comm.assign((size_t)nranks, {});
    auto twin = P.base->clone_unique();   // for create_patch_meshpart below
    for(int r = 0; r < nranks; ++r) P.patch.push_back(P.base->extract_patch(P.comm[size_t(r)], ear, r));
    // RootMeshNode::create_patch_meshpart registers the patch mesh-part of a rank WITHOUT extracting it (what a parent layer does for the other
    // children): it must describe the same sub-mesh, in every dimension, as the part that extract_patch registered
    for(int r = 0; r < nranks; ++r)
    {
      twin->create_patch_meshpart(ear, r); const PartOf<Shape_>* a = twin->get_patch(r); const PartOf<Shape_>* b = P.base->get_patch(r);
      VF_CHECK(a != nullptr && b != nullptr, "create_patch_meshpart / extract_patch registered no patch mesh-part for rank " << r);
      const FlatPart fa = flatten_part<Shape_>(*a), fb = flatten_part<Shape_>(*b);
      for(int d = 0; d <= Shape_::dimension; ++d) { std::set<FEAT::Index> sa(fa.trg[(size_t)d].begin(), fa.trg[(size_t)d].end()), sb(fb.trg[(size_t)d].begin(), fb.trg[(size_t)d].end());
        VF_CHECK(sa.size() == fa.trg[(size_t)d].size() && sa == sb, "create_patch_meshpart(rank " << r << "): " << fa.trg[(size_t)d].size() << " entities of dimension " << d << " (" << sa.size() << " distinct), the patch mesh-part registered by extract_patch has " << sb.size()); }
    }
  }

  template<typename Shape_> inline void refine_all(Parted<Shape_>& P)
  {
    P.base = P.base->refine_unique(FEAT::Geometry::AdaptMode::none);
    for(auto& p : P.patch) p = p->refine_unique(FEAT::Geometry::AdaptMode::none);
  }

  // ------------------------------------------------------------------------------------------------------------
  // target: explicit partitions
  // ------------------------------------------------------------------------------------------------------------
  template<typename Shape_> inline void parti_case(vf::Tape& t, vf::Ctx& c)
  {
    constexpr int sd = Shape_::dimension;
    GenOpts go; go.max_file_cells = (sd == 2 ? 30 + 2 * t.size : 8 + t.size / 2); go.lattice_depth = 1; go.tetra_always_factory = true;
    GenInfo gi; Loaded<Shape_> L = gen_node<Shape_>(t, c, go, gi);
    c.desc = gi.desc; c.desc.set("shape", ShapeInfo<Shape_>::name()); c.label(std::string("shape:") + ShapeInfo<Shape_>::name());
    c10::fail_if_invalid(c, gi);
    const Index ncells = L.node->get_mesh()->get_num_elements();
    int nranks = 1; std::string kname; const int kind = t.pick({4, 2, 2, 2, 1, 1});
    std::vector<int> rank_of = gen_assignment(t, ncells, kind, nranks, kname);
    const bool shuffled = t.flag(1, 3);
    FEAT::Adjacency::Graph ear = graph_of(rank_of, nranks, shuffled, t);
    const long cap = (sd == 2 ? 60L : 40L) * std::max(t.size, 10);
    int depth = t.range(0, 2); long cells = long(ncells); int dmax = 0; while(dmax < depth && cells * ref_count(ShapeInfo<Shape_>::simplex, sd, sd) <= cap) { cells *= ref_count(ShapeInfo<Shape_>::simplex, sd, sd); ++dmax; } depth = dmax;
    const bool with_bnd = t.flag(1, 3);
    c.desc.set("assignment", kname); c.desc.set("ranks", nranks); c.desc.set("depth", depth); if(shuffled) c.desc.set("cell_order", "shuffled"); if(rank_of.size() <= 48) c.desc.set("rank_of_cell", vf::J(rank_of));
    if(with_bnd) c.desc.set("boundary_part", true);
    c.label("assign:" + kname); c.label("depth:" + std::to_string(depth)); c.label(nranks == 1 ? "ranks:1" : (Index(nranks) == ncells ? "ranks:ncells" : (nranks <= 3 ? "ranks:2-3" : "ranks:4+"))); if(shuffled) c.label("cell-order:shuffled");
    c.nontrivial = nranks >= 2; c.op = "extract"; c.announce();
    if(with_bnd) { FEAT::Geometry::BoundaryFactory<MeshOf<Shape_>> bf(*L.node->get_mesh()); L.node->add_mesh_part("bnd", bf.make_unique()); }
    Parted<Shape_> P; P.base = std::move(L.node);
    extract_all<Shape_>(P, ear, nranks);
    check_level<Shape_>(P, gi.neigh_valid, "L0");
    for(int l = 1; l <= depth; ++l) { refine_all<Shape_>(P); check_level<Shape_>(P, true, "L" + std::to_string(l)); }
  }

  // ------------------------------------------------------------------------------------------------------------
  // target: built-in partitioners
  // ------------------------------------------------------------------------------------------------------------
  inline void check_graph(const FEAT::Adjacency::Graph& g, Index want_ranks, Index want_cells, const std::string& who)
  {
    VF_CHECK(g.get_num_nodes_domain() == want_ranks, who << " returned " << g.get_num_nodes_domain() << " patches, " << want_ranks << " were requested");
    VF_CHECK(g.get_num_nodes_image() == want_cells, who << " partitions " << g.get_num_nodes_image() << " cells, the mesh has " << want_cells);
    std::vector<int> cnt((size_t)want_cells, 0);
    for(Index r = 0; r < want_ranks; ++r)
    {
      VF_CHECK(g.degree(r) > 0, who << " left patch " << r << " empty");
      for(auto it = g.image_begin(r); it != g.image_end(r); ++it) { VF_CHECK(*it < want_cells, who << " lists cell " << *it << " >= " << want_cells); cnt[*it]++; }
    }
    for(Index i = 0; i < want_cells; ++i) VF_CHECK(cnt[i] == 1, who << " assigns cell " << i << " to " << cnt[i] << " patches");
  }

  /// cell graph whose edges are shared facets: number of components and largest finite distance between two cells
  inline void facet_graph_stats(const Flat& f, int& comps, Index& diameter)
  {
    const int sd = f.sd; std::vector<Index> first(size_t(f.n[sd - 1]), ~Index(0)); std::vector<std::vector<Index>> adj(size_t(f.n[sd]));
    for(Index c = 0; c < f.n[sd]; ++c) for(int k = 0; k < f.nc[sd][sd - 1]; ++k) { Index fc = f.at(sd, sd - 1, c, k); if(first[fc] == ~Index(0)) first[fc] = c; else { adj[c].push_back(first[fc]); adj[first[fc]].push_back(c); } }
    comps = 0; diameter = 0; std::vector<char> comp_seen(size_t(f.n[sd]), 0);
    for(Index s = 0; s < f.n[sd]; ++s)
    {
      std::vector<Index> dist(size_t(f.n[sd]), ~Index(0)), q{s}; dist[s] = 0;
      for(size_t h = 0; h < q.size(); ++h) { Index c = q[h]; diameter = std::max(diameter, dist[c]); for(Index o : adj[c]) if(dist[o] == ~Index(0)) { dist[o] = dist[c] + 1; q.push_back(o); } }
      if(!comp_seen[s]) { ++comps; for(Index c : q) comp_seen[c] = 1; }
    }
  }

  template<typename Shape_> inline void builtin_case(vf::Tape& t, vf::Ctx& c)
  {
    constexpr int sd = Shape_::dimension; constexpr bool sx = ShapeInfo<Shape_>::simplex;
    GenOpts go; go.max_file_cells = (sd == 2 ? 30 + t.size : 8 + t.size / 4); go.lattice_depth = 1; go.tetra_always_factory = true;
    GenInfo gi; Loaded<Shape_> L = gen_node<Shape_>(t, c, go, gi);
    c.desc = gi.desc; c.desc.set("shape", ShapeInfo<Shape_>::name()); c.label(std::string("shape:") + ShapeInfo<Shape_>::name());
    c10::fail_if_invalid(c, gi);
    const Index ncells = L.node->get_mesh()->get_num_elements();
    int which = t.pick({1, 1});   // 0 Parti2Lvl, 1 PartiIterative
    int comps = 0; Index diam = 0; facet_graph_stats(flatten<Shape_>(*L.node->get_mesh(), false), comps, diam);
    c.label(comps == 1 ? "mesh:facet-connected" : "mesh:facet-disconnected"); c.desc.set("facet_components", comps); c.desc.set("facet_diameter", (long long)diam);
    // PartiIterative asserts num_elems >= num_patches: requested counts 1..min(32, ncells)
    const Index req_it = Index(1 + t.range(0, int(std::min<Index>(ncells, 32)) - 1));
    // its distance search gives up beyond this distance from a centre (parti_iterative.hpp, exploration_threshold)
    const Index thr = std::max<Index>(std::max<Index>(Index(std::pow(double(ncells), 1.0 / double(sd)) + 1.0), ncells / req_it), Index(2));
    const bool may_leave_cells_unreached = (comps > 1) || (diam > thr);
    // known finding c12-iterative-unreached: cells that no centre's search reaches (other facet-component, or farther than the
    // exploration threshold from every centre) keep an uninitialised patch number / get distance 0 by wrap-around.  With the
    // switch on, PartiIterative only sees meshes on which every search reaches every cell; the others go to Parti2Lvl.
    if(which == 1 && may_leave_cells_unreached && c.excl("c12-iterative-unreached")) which = 0;
    // finer switch (sub-class of the above, used to isolate the facet-connected variant): only facet-disconnected meshes are diverted
    if(which == 1 && comps > 1 && c.excl("c12-iterative-disconnected")) which = 0;
    if(which == 0)
    {
      // requested counts 1..32; half of the cases ask for a count for which a 2-level partition exists (ncells * factor^k)
      const Index factor = sx ? Index(ref_count(true, sd, sd)) : Index(2);
      Index req;
      if(t.flag()) { req = ncells; int k = t.range(0, 5); while(k-- > 0 && req * factor <= 64) req *= factor; }
      else req = Index(1 + t.range(0, 31));
      c.desc.set("partitioner", "2lvl"); c.desc.set("requested", (long long)req); c.label("partitioner:2lvl");
      c.nontrivial = true; c.op = "parti2lvl"; c.announce();
      FEAT::Geometry::Parti2Lvl<MeshOf<Shape_>> p2(*L.node->get_mesh(), req);
      if(!p2.success()) return;   // failure reported: allowed by the property
      const Index lvl = p2.parti_level();
      Parted<Shape_> P; P.base = std::move(L.node);
      for(Index l = 0; l < lvl; ++l) { P.base = P.base->refine_unique(FEAT::Geometry::AdaptMode::none); VF_CHECK(P.base->get_mesh()->get_num_elements() <= 200000, "partition level too deep"); }
      FEAT::Adjacency::Graph g = p2.build_elems_at_rank();
      check_graph(g, req, P.base->get_mesh()->get_num_elements(), "Parti2Lvl");
      if(P.base->get_mesh()->get_num_elements() <= Index(sd == 2 ? 600 : 300) && req <= 16) { extract_all<Shape_>(P, g, int(req)); check_level<Shape_>(P, lvl > 0 || gi.neigh_valid, "2lvl"); }
    }
    else
    {
      const Index req = req_it;
      const uint32_t seed = 1u + (t.raw() % 1000000u);
      c.desc.set("partitioner", "iterative"); c.desc.set("requested", (long long)req); c.desc.set("time_seed", (long long)seed); c.label("partitioner:iterative");
      c.label(req == 1 ? "req:1" : (req == ncells ? "req:ncells" : "req:mid")); c.label(may_leave_cells_unreached ? "iterative:may-leave-unreached" : "iterative:all-reachable");
      c.nontrivial = true; c.op = "partiiterative"; c.announce();
      c12_fake_time = time_t(seed);
      FEAT::Dist::Comm comm = FEAT::Dist::Comm::world();
      FEAT::Geometry::PartiIterative<MeshOf<Shape_>> pi(*L.node->get_mesh(), comm, req, 0.0, 0.0);
      FEAT::Adjacency::Graph g = pi.build_elems_at_rank();
      check_graph(g, req, ncells, "PartiIterative");
      if(req <= 12) { Parted<Shape_> P; P.base = std::move(L.node); extract_all<Shape_>(P, g, int(req)); check_level<Shape_>(P, true, "iterative"); }
    }
  }

  template<typename Shape_> inline void register_shape(std::vector<vf::Target>& tg)
  {
    const std::string s = ShapeInfo<Shape_>::name();
    tg.push_back({s + "_parti", [](vf::Tape& t, vf::Ctx& c) { parti_case<Shape_>(t, c); }, 192, 2, 60000});
    tg.push_back({s + "_builtin", [](vf::Tape& t, vf::Ctx& c) { builtin_case<Shape_>(t, c); }, 160, 1, 60000});
  }
} // namespace c12
