// mesh_gen.hpp - shared mesh generators (G-mesh of DESIGN.md §3), a type-erased "flat" view of feat3 meshes and
// mesh parts, and the structural mesh validator used by C10/C12 (and meant for C11/C13/C15...).
//
// Everything here is harness-side: reference-cell tables, symmetry groups, volumes and Jacobians are computed with
// own code from the vertex-at-cell lists; the tables are cross-checked once against feat3's FaceIndexMapping
// (mg::selfcheck_tables) - a mismatch there is a harness error, not a violation.
#pragma once
#include "vf.hpp"
#include <kernel/runtime.hpp>
#include <kernel/geometry/conformal_mesh.hpp>
#include <kernel/geometry/mesh_part.hpp>
#include <kernel/geometry/mesh_node.hpp>
#include <kernel/geometry/mesh_atlas.hpp>
#include <kernel/geometry/partition_set.hpp>
#include <kernel/geometry/mesh_file_reader.hpp>
#include <kernel/geometry/boundary_factory.hpp>
#include <kernel/geometry/common_factories.hpp>
#include <kernel/geometry/shape_convert_factory.hpp>
#include <kernel/geometry/intern/face_index_mapping.hpp>
#include <array>
#include <numeric>
#include <memory>
#include <dirent.h>

namespace mg
{
  using FEAT::Index;
  typedef FEAT::Shape::Hypercube<2> Quad;
  typedef FEAT::Shape::Hypercube<3> Hexa;
  typedef FEAT::Shape::Simplex<2> Tria;
  typedef FEAT::Shape::Simplex<3> Tetra;
  template<typename Shape_> using MeshOf = FEAT::Geometry::ConformalMesh<Shape_, Shape_::dimension, double>;
  template<typename Shape_> using PartOf = FEAT::Geometry::MeshPart<MeshOf<Shape_>>;
  template<typename Shape_> using NodeOf = FEAT::Geometry::RootMeshNode<MeshOf<Shape_>>;
  template<typename Shape_> using AtlasOf = FEAT::Geometry::MeshAtlas<MeshOf<Shape_>>;

  template<typename Shape_> struct ShapeInfo;
  template<> struct ShapeInfo<Quad> { static constexpr bool simplex = false; static const char* name() { return "quad"; } static const char* ftype() { return "conformal:hypercube:2:2"; } };
  template<> struct ShapeInfo<Hexa> { static constexpr bool simplex = false; static const char* name() { return "hexa"; } static const char* ftype() { return "conformal:hypercube:3:3"; } };
  template<> struct ShapeInfo<Tria> { static constexpr bool simplex = true; static const char* name() { return "tria"; } static const char* ftype() { return "conformal:simplex:2:2"; } };
  template<> struct ShapeInfo<Tetra> { static constexpr bool simplex = true; static const char* name() { return "tetra"; } static const char* ftype() { return "conformal:simplex:3:3"; } };

  // ------------------------------------------------------------------------------------------------------------
  // reference cells (own tables, written from the mesh-format documentation: vertex i of a hypercube sits at the
  // point whose k-th coordinate is bit k of i; simplex vertex 0 is the origin, vertex k the k-th unit point)
  // ------------------------------------------------------------------------------------------------------------
  inline int nverts(bool simplex, int D) { return simplex ? D + 1 : (1 << D); }

  /// local vertex indices of every local d-face of a D-dimensional reference cell (0 <= d <= D <= 3)
  inline const std::vector<std::vector<int>>& ref_faces(bool simplex, int D, int d)
  {
    static std::vector<std::vector<int>> tab[2][4][4];
    static bool init = false;
    if(!init)
    {
      init = true;
      for(int s = 0; s < 2; ++s) for(int DD = 0; DD <= 3; ++DD)
      {
        int nv = nverts(s == 1, DD);
        for(int v = 0; v < nv; ++v) tab[s][DD][0].push_back({v});
        std::vector<int> all; for(int v = 0; v < nv; ++v) all.push_back(v);
        tab[s][DD][DD] = {all};
      }
      // hypercubes
      tab[0][2][1] = {{0, 1}, {2, 3}, {0, 2}, {1, 3}};
      tab[0][3][1] = {{0, 1}, {2, 3}, {4, 5}, {6, 7}, {0, 2}, {1, 3}, {4, 6}, {5, 7}, {0, 4}, {1, 5}, {2, 6}, {3, 7}};
      tab[0][3][2] = {{0, 1, 2, 3}, {4, 5, 6, 7}, {0, 1, 4, 5}, {2, 3, 6, 7}, {0, 2, 4, 6}, {1, 3, 5, 7}};
      // simplices: edge i of a triangle is opposite vertex i; tetra edges in lexicographic order, face i opposite vertex i
      tab[1][2][1] = {{1, 2}, {2, 0}, {0, 1}};
      tab[1][3][1] = {{0, 1}, {0, 2}, {0, 3}, {1, 2}, {1, 3}, {2, 3}};
      tab[1][3][2] = {{1, 2, 3}, {0, 2, 3}, {0, 1, 3}, {0, 1, 2}};
    }
    return tab[simplex ? 1 : 0][D][d];
  }

  /// number of interior d-dimensional entities created when one D-dimensional cell is refined (2-level refinement)
  inline int ref_count(bool simplex, int D, int d)
  {
    if(d > D) return 0;
    if(D == 0) return 1;
    if(!simplex)
    {
      // number of (D-d)-faces of the D-cube
      static const int c[4][4] = {{1, 0, 0, 0}, {1, 2, 0, 0}, {1, 4, 4, 0}, {1, 6, 12, 8}};
      return c[D][d];
    }
    // simplices: edge -> midpoint + 2 edges; triangle -> 3 edges + 4 triangles; tetrahedron -> centre vertex, 6 edges, 16 faces, 12 tetrahedra
    static const int c[4][4] = {{1, 0, 0, 0}, {1, 2, 0, 0}, {0, 3, 4, 0}, {1, 6, 16, 12}};
    return c[D][d];
  }

  struct Sym { std::vector<int> p; int det; };

  /// all symmetries of the reference cell as local-vertex permutations (new_local[i] = old_local[p[i]]);
  /// index 0 is the identity, then the remaining orientation-preserving ones, then the reflections
  inline const std::vector<Sym>& syms(bool simplex, int D)
  {
    static std::vector<Sym> tab[2][4];
    static bool init = false;
    if(!init)
    {
      init = true;
      for(int DD = 1; DD <= 3; ++DD)
      {
        // hypercube: signed axis permutations
        {
          std::vector<Sym> pos, neg; std::vector<int> ax(DD); std::iota(ax.begin(), ax.end(), 0);
          do
          {
            int inv = 0; for(int a = 0; a < DD; ++a) for(int b = a + 1; b < DD; ++b) if(ax[a] > ax[b]) ++inv;
            for(int sg = 0; sg < (1 << DD); ++sg)
            {
              Sym s; s.det = (inv & 1) ? -1 : 1; for(int a = 0; a < DD; ++a) if((sg >> a) & 1) s.det = -s.det;
              for(int v = 0; v < (1 << DD); ++v)
              {
                int w = 0; for(int a = 0; a < DD; ++a) { int b = ((v >> a) & 1) ^ ((sg >> a) & 1); w |= b << ax[a]; }
                s.p.push_back(w);
              }
              (s.det > 0 ? pos : neg).push_back(s);
            }
          } while(std::next_permutation(ax.begin(), ax.end()));
          tab[0][DD] = pos; tab[0][DD].insert(tab[0][DD].end(), neg.begin(), neg.end());
        }
        // simplex: all vertex permutations, sign = parity
        {
          std::vector<Sym> pos, neg; std::vector<int> pr(DD + 1); std::iota(pr.begin(), pr.end(), 0);
          do
          {
            int inv = 0; for(int a = 0; a <= DD; ++a) for(int b = a + 1; b <= DD; ++b) if(pr[a] > pr[b]) ++inv;
            Sym s; s.p = pr; s.det = (inv & 1) ? -1 : 1; (s.det > 0 ? pos : neg).push_back(s);
          } while(std::next_permutation(pr.begin(), pr.end()));
          tab[1][DD] = pos; tab[1][DD].insert(tab[1][DD].end(), neg.begin(), neg.end());
        }
      }
      Sym id0; id0.p = {0}; id0.det = 1; tab[0][0] = {id0}; tab[1][0] = {id0};
    }
    return tab[simplex ? 1 : 0][D];
  }
  inline int num_proper_syms(bool simplex, int D) { int n = 0; for(auto& s : syms(simplex, D)) if(s.det > 0) ++n; return n; }

  /// start-up cross-check of the own tables against feat3's FaceIndexMapping; returns "" or the mismatch
  inline std::string selfcheck_tables()
  {
    using namespace FEAT::Geometry::Intern;
    std::ostringstream e;
    auto chk = [&](bool simplex, int D, int d, auto mapfn)
    {
      const auto& t = ref_faces(simplex, D, d);
      for(size_t f = 0; f < t.size(); ++f) for(size_t k = 0; k < t[f].size(); ++k)
        if(mapfn(int(f), int(k)) != t[f][k]) e << "table(" << simplex << "," << D << "," << d << ")[" << f << "][" << k << "] ";
    };
    chk(false, 2, 1, [](int f, int k) { return FaceIndexMapping<Quad, 1, 0>::map(f, k); });
    chk(false, 3, 1, [](int f, int k) { return FaceIndexMapping<Hexa, 1, 0>::map(f, k); });
    chk(false, 3, 2, [](int f, int k) { return FaceIndexMapping<Hexa, 2, 0>::map(f, k); });
    chk(true, 2, 1, [](int f, int k) { return FaceIndexMapping<Tria, 1, 0>::map(f, k); });
    chk(true, 3, 1, [](int f, int k) { return FaceIndexMapping<Tetra, 1, 0>::map(f, k); });
    chk(true, 3, 2, [](int f, int k) { return FaceIndexMapping<Tetra, 2, 0>::map(f, k); });
    // symmetry group sizes
    if(num_proper_syms(false, 2) != 4 || num_proper_syms(false, 3) != 24 || num_proper_syms(true, 2) != 3 || num_proper_syms(true, 3) != 12) e << "symmetry group sizes ";
    if(syms(false, 3).size() != 48 || syms(true, 3).size() != 24 || syms(false, 2).size() != 8 || syms(true, 2).size() != 6) e << "full symmetry group sizes ";
    for(int s = 0; s < 2; ++s) for(int D = 1; D <= 3; ++D) { const auto& id = syms(s == 1, D)[0]; for(size_t i = 0; i < id.p.size(); ++i) if(id.p[i] != int(i)) e << "identity-first "; }
    return e.str();
  }

  // ------------------------------------------------------------------------------------------------------------
  // flat views
  // ------------------------------------------------------------------------------------------------------------
  struct Flat
  {
    bool simplex = false; int sd = 0;
    Index n[4] = {0, 0, 0, 0};
    std::vector<std::array<double, 3>> vtx;          // empty for mesh-part topologies
    std::vector<Index> idx[4][3]; int nc[4][3]; Index bound[4][3];
    std::vector<Index> neigh; bool have_neigh = false;
    Flat() { for(auto& a : nc) for(auto& b : a) b = 0; for(auto& a : bound) for(auto& b : a) b = 0; }
    Index at(int D, int d, Index e, int k) const { return idx[D][d][size_t(e) * size_t(nc[D][d]) + size_t(k)]; }
    Index rows(int D, int d) const { return nc[D][d] ? Index(idx[D][d].size() / size_t(nc[D][d])) : Index(0); }
    /// vertex list of entity e of dimension D
    std::vector<Index> verts(int D, Index e) const
    {
      if(D == 0) return {e};
      std::vector<Index> r(size_t(nc[D][0])); for(int k = 0; k < nc[D][0]; ++k) r[size_t(k)] = at(D, 0, e, k); return r;
    }
    std::vector<Index> sorted_verts(int D, Index e) const { auto r = verts(D, e); std::sort(r.begin(), r.end()); return r; }
    int euler() const { int e = 0; for(int d = 0; d <= sd; ++d) e += (d % 2 ? -1 : 1) * int(n[d]); return e; }
  };

  template<typename Shape_, int D, int d> struct FlatFill
  {
    static void run(const FEAT::Geometry::IndexSetHolder<Shape_>& ish, Flat& f)
    {
      const auto& is = ish.template get_index_set<D, d>();
      f.nc[D][d] = is.num_indices; f.bound[D][d] = is.get_index_bound();
      const Index ne = is.get_num_entities();
      f.idx[D][d].resize(size_t(ne) * size_t(is.num_indices));
      for(Index e = 0; e < ne; ++e) for(int k = 0; k < is.num_indices; ++k) f.idx[D][d][size_t(e) * size_t(is.num_indices) + size_t(k)] = is(e, k);
      if constexpr(d + 1 < D) FlatFill<Shape_, D, d + 1>::run(ish, f);
      else if constexpr(D < Shape_::dimension) FlatFill<Shape_, D + 1, 0>::run(ish, f);
    }
  };

  template<typename Shape_> inline Flat flatten(const MeshOf<Shape_>& m, bool with_neigh = true)
  {
    Flat f; f.simplex = ShapeInfo<Shape_>::simplex; f.sd = Shape_::dimension;
    for(int d = 0; d <= f.sd; ++d) f.n[d] = m.get_num_entities(d);
    const auto& vs = m.get_vertex_set(); f.vtx.resize(size_t(vs.get_num_vertices()));
    for(Index i = 0; i < vs.get_num_vertices(); ++i) { f.vtx[i] = {0.0, 0.0, 0.0}; for(int c = 0; c < Shape_::dimension; ++c) f.vtx[i][size_t(c)] = vs[i][c]; }
    FlatFill<Shape_, 1, 0>::run(m.get_index_set_holder(), f);
    if(!with_neigh) return f;
    const auto& nb = m.get_neighbors(); f.have_neigh = true; f.neigh.resize(size_t(nb.get_num_entities()) * size_t(nb.num_indices));
    for(Index e = 0; e < nb.get_num_entities(); ++e) for(int k = 0; k < nb.num_indices; ++k) f.neigh[size_t(e) * size_t(nb.num_indices) + size_t(k)] = nb(e, k);
    return f;
  }

  struct FlatPart
  {
    int sd = 0; Index n[4] = {0, 0, 0, 0};
    std::vector<Index> trg[4];
    bool topo = false; Flat top;    // own topology (part-local indices), if any
    vf::J summary() const { vf::J j = vf::J::arr(); for(int d = 0; d <= sd; ++d) j.add((long long)n[d]); return j; }
  };

  template<typename Shape_, int d> struct TrgFill
  {
    static void run(const PartOf<Shape_>& p, FlatPart& f)
    {
      const auto& t = p.template get_target_set<d>(); f.trg[d].resize(size_t(t.get_num_entities()));
      for(Index i = 0; i < t.get_num_entities(); ++i) f.trg[d][i] = t[i];
      if constexpr(d < Shape_::dimension) TrgFill<Shape_, d + 1>::run(p, f);
    }
  };
  template<typename Shape_> inline FlatPart flatten_part(const PartOf<Shape_>& p)
  {
    FlatPart f; f.sd = Shape_::dimension; for(int d = 0; d <= f.sd; ++d) f.n[d] = p.get_num_entities(d);
    TrgFill<Shape_, 0>::run(p, f);
    f.topo = p.has_topology();
    if(f.topo)
    {
      f.top.simplex = ShapeInfo<Shape_>::simplex; f.top.sd = f.sd; for(int d = 0; d <= f.sd; ++d) f.top.n[d] = f.n[d];
      FlatFill<Shape_, 1, 0>::run(*p.get_topology(), f.top);
    }
    return f;
  }

  // ------------------------------------------------------------------------------------------------------------
  // geometry of a cell (own integration, long double)
  // ------------------------------------------------------------------------------------------------------------
  /// Jacobian determinant of the reference map of cell c at reference point xi (hypercube: [0,1]^d multilinear; simplex: affine)
  inline long double det_jac(const Flat& f, Index c, const long double* xi)
  {
    const int D = f.sd; long double Jm[3][3] = {{0, 0, 0}, {0, 0, 0}, {0, 0, 0}};
    if(f.simplex)
    {
      const auto& v0 = f.vtx[f.at(D, 0, c, 0)];
      for(int k = 0; k < D; ++k) { const auto& vk = f.vtx[f.at(D, 0, c, k + 1)]; for(int r = 0; r < D; ++r) Jm[r][k] = (long double)vk[size_t(r)] - (long double)v0[size_t(r)]; }
    }
    else
    {
      const int nv = 1 << D;
      for(int i = 0; i < nv; ++i)
      {
        const auto& v = f.vtx[f.at(D, 0, c, i)];
        for(int k = 0; k < D; ++k)
        {
          long double g = ((i >> k) & 1) ? 1.0L : -1.0L;
          for(int a = 0; a < D; ++a) if(a != k) g *= ((i >> a) & 1) ? xi[a] : (1.0L - xi[a]);
          for(int r = 0; r < D; ++r) Jm[r][k] += g * (long double)v[size_t(r)];
        }
      }
    }
    if(D == 2) return Jm[0][0] * Jm[1][1] - Jm[0][1] * Jm[1][0];
    return Jm[0][0] * (Jm[1][1] * Jm[2][2] - Jm[1][2] * Jm[2][1]) - Jm[0][1] * (Jm[1][0] * Jm[2][2] - Jm[1][2] * Jm[2][0]) + Jm[0][2] * (Jm[1][0] * Jm[2][1] - Jm[1][1] * Jm[2][0]);
  }

  /// signed volume of cell c: simplex det/d!, multilinear cells by 2-point Gauss per direction (exact: det J has degree <= 2 per variable)
  inline long double cell_volume(const Flat& f, Index c)
  {
    const int D = f.sd;
    if(f.simplex) { long double xi[3] = {0, 0, 0}; return det_jac(f, c, xi) / (D == 2 ? 2.0L : 6.0L); }
    const long double g0 = 0.5L - 0.5L / std::sqrt(3.0L), g1 = 0.5L + 0.5L / std::sqrt(3.0L);
    long double s = 0.0L; const int np = 1 << D;
    for(int q = 0; q < np; ++q) { long double xi[3]; for(int a = 0; a < D; ++a) xi[a] = ((q >> a) & 1) ? g1 : g0; s += det_jac(f, c, xi); }
    return s / (long double)np;
  }

  /// longest edge of cell c and largest absolute coordinate of its vertices (for the volume tolerance)
  inline void cell_scales(const Flat& f, Index c, long double& hmax, long double& cmax)
  {
    hmax = 0; cmax = 0; const int D = f.sd;
    for(const auto& e : ref_faces(f.simplex, D, 1))
    {
      const auto& a = f.vtx[f.at(D, 0, c, e[0])]; const auto& b = f.vtx[f.at(D, 0, c, e[1])]; long double l = 0;
      for(int r = 0; r < D; ++r) { long double t = (long double)a[size_t(r)] - (long double)b[size_t(r)]; l += t * t; }
      hmax = std::max(hmax, std::sqrt(l));
    }
    for(int k = 0; k < f.nc[D][0]; ++k) for(int r = 0; r < D; ++r) cmax = std::max(cmax, (long double)std::fabs(f.vtx[f.at(D, 0, c, k)][size_t(r)]));
  }

  /// smallest det J over the lattice {0, 1/m, ..., 1}^d of cell c, relative to hmax^d (simplex: the constant determinant)
  inline long double min_rel_jac(const Flat& f, Index c, int m, int* sign_mix = nullptr)
  {
    long double hmax, cmax; cell_scales(f, c, hmax, cmax); const int D = f.sd; long double sc = 1; for(int a = 0; a < D; ++a) sc *= hmax;
    if(sc == 0) return 0;
    if(f.simplex) { long double xi[3] = {0, 0, 0}; return det_jac(f, c, xi) / sc; }
    long double mn = 1e300L, mx = -1e300L; int np = 1; for(int a = 0; a < D; ++a) np *= (m + 1);
    for(int q = 0; q < np; ++q)
    {
      long double xi[3]; int r = q; for(int a = 0; a < D; ++a) { xi[a] = (long double)(r % (m + 1)) / (long double)m; r /= (m + 1); }
      long double dj = det_jac(f, c, xi) / sc; mn = std::min(mn, dj); mx = std::max(mx, dj);
    }
    if(sign_mix) *sign_mix = (mn < 0 && mx > 0) ? 1 : 0;
    return (mx <= 0) ? mx : mn;   // negative cell: report the value closest to zero from below
  }

  // ------------------------------------------------------------------------------------------------------------
  // structural validator (oracle (2),(3) of C10; "the C10 validator" of C11/C12)
  // ------------------------------------------------------------------------------------------------------------
  struct FacetAdj { std::vector<int> count; };

  inline std::vector<int> facet_counts(const Flat& f)
  {
    std::vector<int> cnt(size_t(f.n[f.sd - 1]), 0);
    for(Index x : f.idx[f.sd][f.sd - 1]) if(x < cnt.size()) cnt[x]++;
    return cnt;
  }

  /// returns "" if the flat mesh is a consistent conforming mesh, else the first inconsistency found
  inline std::string validate(const Flat& f, bool is_part_topology = false)
  {
    std::ostringstream e; const int sd = f.sd;
    // sizes, ranges, bounds
    for(int D = 1; D <= sd; ++D) for(int d = 0; d < D; ++d)
    {
      const int want_nc = int(ref_faces(f.simplex, D, d).size());
      if(f.nc[D][d] != want_nc) { e << "index set <" << D << "," << d << "> has " << f.nc[D][d] << " columns, shape has " << want_nc; return e.str(); }
      if(f.rows(D, d) != f.n[D]) { if(is_part_topology && f.n[D] == 0 && f.rows(D, d) == 0) continue; e << "index set <" << D << "," << d << "> has " << f.rows(D, d) << " rows but num_entities[" << D << "]=" << f.n[D]; return e.str(); }
      for(Index x : f.idx[D][d]) if(x >= f.n[d]) { e << "index set <" << D << "," << d << "> holds index " << x << " >= num_entities[" << d << "]=" << f.n[d]; return e.str(); }
      if(!is_part_topology && f.n[D] > 0 && f.bound[D][d] != f.n[d]) { e << "index set <" << D << "," << d << "> has index bound " << f.bound[D][d] << " but num_entities[" << d << "]=" << f.n[d]; return e.str(); }
    }
    // distinct vertices per entity; unique vertex sets per dimension
    for(int D = 1; D <= sd; ++D)
    {
      std::vector<std::vector<Index>> keys; keys.reserve(size_t(f.n[D]));
      for(Index c = 0; c < f.n[D]; ++c)
      {
        auto s = f.sorted_verts(D, c);
        for(size_t k = 1; k < s.size(); ++k) if(s[k] == s[k - 1]) { e << "entity " << c << " of dimension " << D << " lists vertex " << s[k] << " twice"; return e.str(); }
        keys.push_back(std::move(s));
      }
      std::vector<Index> ord(keys.size()); std::iota(ord.begin(), ord.end(), Index(0));
      std::sort(ord.begin(), ord.end(), [&](Index a, Index b) { return keys[a] < keys[b]; });
      for(size_t k = 1; k < ord.size(); ++k) if(keys[ord[k]] == keys[ord[k - 1]]) { e << "entities " << ord[k - 1] << " and " << ord[k] << " of dimension " << D << " have the same vertex set"; return e.str(); }
    }
    // every listed sub-entity is the corresponding local face
    for(int D = 2; D <= sd; ++D) for(int d = 1; d < D; ++d)
    {
      const auto& rf = ref_faces(f.simplex, D, d);
      for(Index c = 0; c < f.n[D]; ++c) for(size_t lf = 0; lf < rf.size(); ++lf)
      {
        std::vector<Index> a; for(int k : rf[lf]) a.push_back(f.at(D, 0, c, k)); std::sort(a.begin(), a.end());
        const Index s = f.at(D, d, c, int(lf));
        if(a != f.sorted_verts(d, s)) { e << "local " << d << "-face " << lf << " of " << D << "-cell " << c << " is listed as entity " << s << " whose vertices differ from the cell's local face vertices"; return e.str(); }
      }
    }
    if(is_part_topology) return "";
    // every entity is referenced by a cell
    for(int d = 0; d < sd; ++d)
    {
      std::vector<char> used(size_t(f.n[d]), 0); for(Index x : f.idx[sd][d]) used[x] = 1;
      for(Index i = 0; i < f.n[d]; ++i) if(!used[i]) { e << "entity " << i << " of dimension " << d << " is not a face of any cell"; return e.str(); }
    }
    // facet adjacency
    auto cnt = facet_counts(f);
    for(size_t i = 0; i < cnt.size(); ++i) if(cnt[i] < 1 || cnt[i] > 2) { e << "facet " << i << " has " << cnt[i] << " adjacent cells"; return e.str(); }
    if(f.have_neigh)
    {
      const int nf = f.nc[sd][sd - 1];
      if(f.neigh.size() != size_t(f.n[sd]) * size_t(nf)) { e << "neighbour set has wrong size"; return e.str(); }
      // other cell at each facet
      std::vector<Index> first(size_t(f.n[sd - 1]), ~Index(0)), second(size_t(f.n[sd - 1]), ~Index(0));
      for(Index c = 0; c < f.n[sd]; ++c) for(int k = 0; k < nf; ++k) { Index fc = f.at(sd, sd - 1, c, k); if(first[fc] == ~Index(0)) first[fc] = c; else second[fc] = c; }
      for(Index c = 0; c < f.n[sd]; ++c) for(int k = 0; k < nf; ++k)
      {
        Index fc = f.at(sd, sd - 1, c, k); Index want = (first[fc] == c) ? second[fc] : first[fc];
        Index got = f.neigh[size_t(c) * size_t(nf) + size_t(k)];
        if(got != want) { e << "neighbour of cell " << c << " across local facet " << k << " is stored as " << (long long)got << " but the facet's other cell is " << (long long)want; return e.str(); }
      }
    }
    return "";
  }

  /// consistency of a mesh part with its parent mesh: ranges, own topology vs. parent entities
  inline std::string validate_part(const FlatPart& p, const Flat& m)
  {
    std::ostringstream e;
    for(int d = 0; d <= p.sd; ++d)
    {
      if(p.trg[d].size() != size_t(p.n[d])) { e << "part target set " << d << " has " << p.trg[d].size() << " entries, num_entities says " << p.n[d]; return e.str(); }
      for(Index x : p.trg[d]) if(x >= m.n[d]) { e << "part target set " << d << " holds " << x << " >= " << m.n[d]; return e.str(); }
    }
    if(!p.topo) return "";
    std::string s = validate(p.top, true); if(!s.empty()) return "part topology: " + s;
    for(int d = 1; d <= p.sd; ++d) for(Index i = 0; i < p.n[d]; ++i)
    {
      std::vector<Index> a; for(int k = 0; k < p.top.nc[d][0]; ++k) a.push_back(p.trg[0][p.top.at(d, 0, i, k)]); std::sort(a.begin(), a.end());
      if(a != m.sorted_verts(d, p.trg[d][i])) { e << "part entity " << i << " of dimension " << d << " (target " << p.trg[d][i] << ") has own vertices that do not map onto the vertices of its target"; return e.str(); }
    }
    return "";
  }

  /// closure of the facets with exactly one adjacent cell: sorted index lists per dimension < sd
  inline std::vector<std::vector<Index>> boundary_closure(const Flat& f, const std::vector<char>* facet_mask = nullptr)
  {
    const int sd = f.sd; std::vector<std::vector<Index>> r((size_t)sd); auto cnt = facet_counts(f);
    std::vector<std::vector<char>> mk((size_t)sd); for(int d = 0; d < sd; ++d) mk[size_t(d)].assign(size_t(f.n[d]), 0);
    for(Index i = 0; i < f.n[sd - 1]; ++i) if(cnt[i] == 1 && !(facet_mask && (*facet_mask)[i]))
    {
      mk[size_t(sd - 1)][i] = 1;
      for(int d = 0; d < sd - 1; ++d) for(int k = 0; k < f.nc[sd - 1][d]; ++k) mk[size_t(d)][f.at(sd - 1, d, i, k)] = 1;
    }
    for(int d = 0; d < sd; ++d) for(Index i = 0; i < f.n[d]; ++i) if(mk[size_t(d)][i]) r[size_t(d)].push_back(i);
    return r;
  }

  // ------------------------------------------------------------------------------------------------------------
  // raw meshes (vertex coordinates + vertices-at-cell) and generators
  // ------------------------------------------------------------------------------------------------------------
  struct Raw
  {
    bool simplex = false; int sd = 2;
    std::vector<std::array<double, 3>> vtx;
    std::vector<std::vector<Index>> cells;
    vf::J json(size_t max_cells = 12) const
    {
      vf::J j = vf::J::obj(); j.set("nv", (long long)vtx.size()); j.set("nc", (long long)cells.size());
      if(cells.size() <= max_cells)
      {
        vf::J c = vf::J::arr(); for(auto& x : cells) { vf::J r = vf::J::arr(); for(Index i : x) r.add((long long)i); c.add(r); } j.set("cells", c);
        vf::J v = vf::J::arr(); for(auto& x : vtx) { vf::J r = vf::J::arr(); for(int a = 0; a < sd; ++a) r.add(x[size_t(a)]); v.add(r); } j.set("vtx", v);
      }
      return j;
    }
  };

  /// deterministic 64-bit mixer used to expand ONE tape word into per-entity choices on meshes too large for
  /// one tape word per entity (seed 0 never reaches this function: callers treat 0 as "identity")
  inline uint64_t mix64(uint64_t x) { x += 0x9e3779b97f4a7c15ull; x = (x ^ (x >> 30)) * 0xbf58476d1ce4e5b9ull; x = (x ^ (x >> 27)) * 0x94d049bb133111ebull; return x ^ (x >> 31); }

  /// remove vertices not used by any cell (every real caller does: see tools/mesh_tools/mesh_indexer.cpp deorphan_vtx)
  inline void deorphan(Raw& r)
  {
    std::vector<Index> map(r.vtx.size(), ~Index(0)); std::vector<std::array<double, 3>> nv;
    for(auto& c : r.cells) for(Index& v : c) { if(map[v] == ~Index(0)) { map[v] = Index(nv.size()); nv.push_back(r.vtx[v]); } v = map[v]; }
    r.vtx.swap(nv);
  }

  /// make every cell positively oriented by swapping two local vertices where necessary (simplex only helper)
  inline long double raw_simplex_det(const Raw& r, const std::vector<Index>& c)
  {
    Flat f; f.simplex = true; f.sd = r.sd; f.vtx = r.vtx; f.nc[r.sd][0] = r.sd + 1; f.idx[r.sd][0] = c; long double xi[3] = {0, 0, 0}; return det_jac(f, 0, xi);
  }

  /// structured nx x ny (x nz) grid on [0,nx]x[0,ny](x[0,nz]); keep[i] == 0 removes cell i (holes, L-shapes, vertex-touching
  /// and disconnected pieces); simplex: each square -> 2 triangles (diag: 0 same diagonal, 1 alternating), each cube -> 6 Kuhn tetrahedra
  inline Raw grid(bool simplex, int sd, int nx, int ny, int nz, const std::vector<char>& keep, int diag = 0)
  {
    Raw r; r.simplex = simplex; r.sd = sd; if(sd == 2) nz = 1;
    const int px = nx + 1, py = ny + 1, pz = (sd == 3 ? nz + 1 : 1);
    for(int k = 0; k < pz; ++k) for(int j = 0; j < py; ++j) for(int i = 0; i < px; ++i) r.vtx.push_back({double(i), double(j), double(k)});
    auto vid = [&](int i, int j, int k) { return Index((k * py + j) * px + i); };
    int cell = 0;
    for(int k = 0; k < nz; ++k) for(int j = 0; j < ny; ++j) for(int i = 0; i < nx; ++i, ++cell)
    {
      if(!keep.empty() && !keep[size_t(cell)]) continue;
      std::vector<Index> hv;
      for(int b = 0; b < (1 << sd); ++b) hv.push_back(vid(i + (b & 1), j + ((b >> 1) & 1), k + ((b >> 2) & 1)));
      if(!simplex) { r.cells.push_back(hv); continue; }
      if(sd == 2)
      {
        if(diag == 1 && ((i + j) & 1)) { r.cells.push_back({hv[0], hv[1], hv[2]}); r.cells.push_back({hv[1], hv[3], hv[2]}); }
        else { r.cells.push_back({hv[0], hv[1], hv[3]}); r.cells.push_back({hv[0], hv[3], hv[2]}); }
      }
      else
      {
        // Kuhn: one tetrahedron per permutation of the axes, path 0 -> e_a -> e_a+e_b -> 7; conforming across translated cubes
        int ax[3] = {0, 1, 2};
        do
        {
          int b1 = 1 << ax[0], b2 = b1 | (1 << ax[1]);
          std::vector<Index> t = {hv[0], hv[size_t(b1)], hv[size_t(b2)], hv[7]};
          r.cells.push_back(t);
        } while(std::next_permutation(ax, ax + 3));
      }
    }
    if(simplex) for(auto& c : r.cells) if(raw_simplex_det(r, c) < 0) std::swap(c[0], c[1]);
    deorphan(r);
    return r;
  }

  template<typename Shape_> inline Raw raw_of(const MeshOf<Shape_>& m)
  {
    Raw r; r.simplex = ShapeInfo<Shape_>::simplex; r.sd = Shape_::dimension;
    const auto& vs = m.get_vertex_set(); for(Index i = 0; i < vs.get_num_vertices(); ++i) { std::array<double, 3> a = {0, 0, 0}; for(int c = 0; c < r.sd; ++c) a[size_t(c)] = vs[i][c]; r.vtx.push_back(a); }
    const auto& is = m.template get_index_set<Shape_::dimension, 0>();
    for(Index c = 0; c < is.get_num_entities(); ++c) { std::vector<Index> v; for(int k = 0; k < is.num_indices; ++k) v.push_back(is(c, k)); r.cells.push_back(v); }
    return r;
  }

  /// per-entity choice in [0,n): small meshes read one tape word per entity (shrinks entity-wise), larger ones expand one seed word
  struct Chooser
  {
    vf::Tape& t; bool direct; uint64_t seed; uint64_t ctr = 0;
    Chooser(vf::Tape& tp, size_t entities, size_t direct_limit = 48) : t(tp), direct(entities <= direct_limit), seed(0) { if(!direct) seed = tp.raw(); }
    /// 0 on the tape (or seed 0) -> 0
    unsigned pick(unsigned n) { if(n <= 1) { if(direct) t.raw(); return 0; } if(direct) return t.raw() % n; if(seed == 0) return 0; return unsigned(mix64(seed * 0x100000001b3ull + (ctr++)) % n); }
    double unit() { if(direct) { uint32_t r = t.raw(); return r == 0 ? 0.0 : (double(r % 2001u) - 1000.0) / 1000.0; } if(seed == 0) return 0.0; return (double(mix64(seed * 0x100000001b3ull + (ctr++)) % 2001ull) - 1000.0) / 1000.0; }
  };

  /// random renumbering of vertices and cells (Fisher-Yates driven by the chooser; all-zero choices = identity)
  inline void renumber(Raw& r, vf::Tape& t)
  {
    {
      Chooser ch(t, r.vtx.size()); std::vector<Index> perm(r.vtx.size()); std::iota(perm.begin(), perm.end(), Index(0));
      for(size_t i = 0; i + 1 < perm.size(); ++i) { size_t j = i + ch.pick(unsigned(perm.size() - i)); std::swap(perm[i], perm[j]); }
      // perm[new] = old
      std::vector<Index> inv(perm.size()); for(size_t i = 0; i < perm.size(); ++i) inv[perm[i]] = Index(i);
      std::vector<std::array<double, 3>> nv(r.vtx.size()); for(size_t i = 0; i < perm.size(); ++i) nv[i] = r.vtx[perm[i]]; r.vtx.swap(nv);
      for(auto& c : r.cells) for(Index& v : c) v = inv[v];
    }
    {
      Chooser ch(t, r.cells.size());
      for(size_t i = 0; i + 1 < r.cells.size(); ++i) { size_t j = i + ch.pick(unsigned(r.cells.size() - i)); std::swap(r.cells[i], r.cells[j]); }
    }
  }

  /// per cell a symmetry of the reference cell applied to the local vertex list; mirror = reflections allowed.
  /// returns the number of cells that received a non-identity symmetry and (out) the number of reflected cells
  inline int reorient(Raw& r, vf::Tape& t, bool mirror, int* reflected = nullptr)
  {
    const auto& sy = syms(r.simplex, r.sd); const unsigned ns = mirror ? unsigned(sy.size()) : unsigned(num_proper_syms(r.simplex, r.sd));
    Chooser ch(t, r.cells.size()); int changed = 0, refl = 0;
    for(auto& c : r.cells)
    {
      unsigned k = ch.pick(ns); if(k == 0) continue; ++changed; if(sy[k].det < 0) ++refl;
      std::vector<Index> nc(c.size()); for(size_t i = 0; i < c.size(); ++i) nc[i] = c[size_t(sy[k].p[i])]; c.swap(nc);
    }
    if(reflected) *reflected = refl;
    return changed;
  }

  inline Flat flat_of_raw(const Raw& r)
  {
    Flat f; f.simplex = r.simplex; f.sd = r.sd; f.vtx = r.vtx; f.n[0] = Index(r.vtx.size()); f.n[r.sd] = Index(r.cells.size());
    f.nc[r.sd][0] = nverts(r.simplex, r.sd); for(auto& c : r.cells) for(Index v : c) f.idx[r.sd][0].push_back(v);
    return f;
  }

  /// true if every cell keeps a strictly positive (or, for reflected cells, strictly negative) Jacobian determinant on the
  /// lattice of the given refinement depth, with margin - the precondition of the "orientation preserved" claim
  inline bool orientation_margin_ok(const Flat& f, int depth, long double margin = 1e-6L)
  {
    const int m = 1 << depth;
    for(Index c = 0; c < f.n[f.sd]; ++c) { int mix = 0; long double v = min_rel_jac(f, c, m, &mix); if(mix || std::fabs(v) < margin) return false; }
    return true;
  }

  /// affine maps with positive determinant (index 0 = identity): anisotropic scaling, shear, rotation, translation far from the origin
  inline void affine(Raw& r, int kind)
  {
    if(kind == 0) return;
    double A[3][3] = {{1, 0, 0}, {0, 1, 0}, {0, 0, 1}}, b[3] = {0, 0, 0};
    switch(kind)
    {
    case 1: A[0][0] = 4.0; A[1][1] = 0.25; A[2][2] = 2.0; break;                               // anisotropic
    case 2: A[0][1] = 0.75; A[1][2] = -0.5; break;                                               // shear
    case 3: { double c = std::cos(0.6), s = std::sin(0.6); A[0][0] = c; A[0][1] = -s; A[1][0] = s; A[1][1] = c; break; }   // rotation about z
    case 4: b[0] = 1000.0; b[1] = -333.0; b[2] = 77.0; break;                                    // far from the origin (cancellation in volumes)
    default: { double c = std::cos(1.1), s = std::sin(1.1); A[0][0] = 0.01 * c; A[0][1] = -0.01 * s; A[1][0] = 3.0 * s; A[1][1] = 3.0 * c; A[2][2] = 0.5; A[0][2] = 0.002; b[0] = -5.0; break; }
    }
    for(auto& v : r.vtx) { double w[3]; for(int i = 0; i < 3; ++i) w[i] = A[i][0] * v[0] + A[i][1] * v[1] + A[i][2] * v[2] + b[i]; if(r.sd == 2) w[2] = 0.0; v = {w[0], w[1], w[2]}; }
  }

  /// bounded per-vertex jitter: every coordinate moves by at most alpha * (shortest edge at the vertex); the generator
  /// halves alpha until the orientation precondition holds with margin on the requested lattice (at most 3 times, then 0)
  inline double jitter(Raw& r, vf::Tape& t, double alpha, int depth)
  {
    if(alpha <= 0.0) return 0.0;
    std::vector<double> h(r.vtx.size(), 1e300);
    for(auto& c : r.cells) for(const auto& e : ref_faces(r.simplex, r.sd, 1))
    {
      Index a = c[size_t(e[0])], b = c[size_t(e[1])]; double l = 0; for(int k = 0; k < r.sd; ++k) l += (r.vtx[a][size_t(k)] - r.vtx[b][size_t(k)]) * (r.vtx[a][size_t(k)] - r.vtx[b][size_t(k)]);
      l = std::sqrt(l); h[a] = std::min(h[a], l); h[b] = std::min(h[b], l);
    }
    Chooser ch(t, r.vtx.size() * size_t(r.sd));
    std::vector<std::array<double, 3>> d(r.vtx.size()); for(size_t i = 0; i < r.vtx.size(); ++i) { d[i] = {0, 0, 0}; for(int k = 0; k < r.sd; ++k) d[i][size_t(k)] = ch.unit() * h[i]; }
    const auto base = r.vtx;
    for(int tr = 0; tr < 4; ++tr, alpha *= 0.5)
    {
      for(size_t i = 0; i < r.vtx.size(); ++i) for(int k = 0; k < r.sd; ++k) r.vtx[i][size_t(k)] = base[i][size_t(k)] + alpha * d[i][size_t(k)];
      if(orientation_margin_ok(flat_of_raw(r), depth, 1e-3L)) return alpha;
    }
    r.vtx = base; return 0.0;
  }

  /// Factory that hands a raw mesh to the ConformalMesh(Factory&) constructor: vertices-at-cell given, all other index
  /// sets computed by RedundantIndexSetBuilder (what MeshFileReader does after parsing) - no boundary-facet re-orientation
  template<typename Shape_> class RawFactory : public FEAT::Geometry::Factory<MeshOf<Shape_>>
  {
    const Raw& _r; Index _ne[4];
  public:
    typedef FEAT::Geometry::Factory<MeshOf<Shape_>> Base;
    explicit RawFactory(const Raw& r) : _r(r) { for(auto& x : _ne) x = 0; _ne[0] = Index(r.vtx.size()); _ne[Shape_::dimension] = Index(r.cells.size()); }
    virtual Index get_num_entities(int dim) override { return _ne[dim]; }
    virtual void fill_vertex_set(typename Base::VertexSetType& vs) override { for(Index i = 0; i < _ne[0]; ++i) for(int c = 0; c < Shape_::dimension; ++c) vs[i][c] = _r.vtx[i][size_t(c)]; }
    virtual void fill_index_sets(typename Base::IndexSetHolderType& ish) override
    {
      constexpr int sd = Shape_::dimension;
      auto& is = ish.template get_index_set<sd, 0>(); is.set_index_bound(_ne[0]);
      for(Index c = 0; c < _ne[sd]; ++c) for(int k = 0; k < is.num_indices; ++k) is(c, k) = _r.cells[c][size_t(k)];
      FEAT::Geometry::RedundantIndexSetBuilder<Shape_>::compute(ish);
      FEAT::Geometry::NumEntitiesExtractor<sd>::set_num_entities(ish, _ne);
    }
  };

  /// feat3 mesh + root node from a raw mesh.  via_factory == false: the way tools/mesh_tools/mesh_indexer.cpp does it
  /// (ConformalMesh(num_entities), fill vertices-at-cell, deduct_topology_from_top()); true: through RawFactory
  template<typename Shape_> inline std::unique_ptr<NodeOf<Shape_>> make_node(const Raw& r, AtlasOf<Shape_>* atlas = nullptr, bool via_factory = false)
  {
    constexpr int sd = Shape_::dimension;
    if(via_factory) { RawFactory<Shape_> fac(r); return NodeOf<Shape_>::make_unique(fac.make_unique(), atlas); }
    Index ne[4] = {0, 0, 0, 0}; ne[0] = Index(r.vtx.size()); ne[sd] = Index(r.cells.size());
    std::unique_ptr<MeshOf<Shape_>> mesh(new MeshOf<Shape_>(ne));
    auto& vs = mesh->get_vertex_set(); for(Index i = 0; i < ne[0]; ++i) for(int c = 0; c < sd; ++c) vs[i][c] = r.vtx[i][size_t(c)];
    auto& is = mesh->template get_index_set<sd, 0>(); for(Index c = 0; c < ne[sd]; ++c) for(int k = 0; k < is.num_indices; ++k) is(c, k) = r.cells[c][size_t(k)];
    mesh->deduct_topology_from_top();
    return NodeOf<Shape_>::make_unique(std::move(mesh), atlas);
  }

  // ------------------------------------------------------------------------------------------------------------
  // shipped mesh files
  // ------------------------------------------------------------------------------------------------------------
  struct FileEntry { std::string name; long cells; std::vector<std::string> extra; };

  inline std::string feat_root() { const char* e = getenv("FEAT3_ROOT"); return e ? e : "/repo"; }

  /// mesh files of a shape, sorted by cell count (name as tie-break): index 0 is the smallest.  The list is read from the
  /// directory (sorted names, no dependence on directory order); chart-only files are skipped by their mesh type.
  inline std::vector<FileEntry> list_files(const char* ftype, long max_cells)
  {
    std::vector<FileEntry> r; std::string dir = feat_root() + "/data/meshes";
    std::vector<std::string> names;
    if(DIR* d = opendir(dir.c_str())) { while(dirent* e = readdir(d)) { std::string n = e->d_name; if(n.size() > 4 && n.substr(n.size() - 4) == ".xml") names.push_back(n); } closedir(d); }
    std::sort(names.begin(), names.end());
    for(auto& n : names)
    {
      std::ifstream f(dir + "/" + n); std::string line; long cells = -1; bool ok = false;
      for(int k = 0; k < 400 && std::getline(f, line); ++k)
      {
        size_t p = line.find("<Mesh "); if(p == std::string::npos) continue;
        if(line.find(std::string("type=\"") + ftype + "\"") == std::string::npos) break;
        size_t s = line.find("size=\""); if(s == std::string::npos) break; s += 6; size_t e2 = line.find('"', s);
        std::istringstream is(line.substr(s, e2 - s)); long x; while(is >> x) cells = x; ok = true; break;
      }
      if(!ok || cells < 1 || cells > max_cells) continue;
      FileEntry fe; fe.name = n; fe.cells = cells;
      // meshes that keep their charts in a separate file (the applications pass both files to the reader)
      if(n.find("screws_2d_mesh") == 0) fe.extra.push_back(n.find("smaller") != std::string::npos ? "screws_2d_chart_bezier_24_28_smaller.xml" : "screws_2d_chart_bezier_24_28.xml");
      if(n.find("screws_3d_mesh") == 0) fe.extra.push_back("screws_3d_chart_surfacemesh_7200_7200.xml");
      r.push_back(fe);
    }
    std::stable_sort(r.begin(), r.end(), [](const FileEntry& a, const FileEntry& b) { return a.cells < b.cells; });
    return r;
  }

  template<typename Shape_> struct Loaded
  {
    std::unique_ptr<AtlasOf<Shape_>> atlas; std::unique_ptr<FEAT::Geometry::PartitionSet> parts; std::unique_ptr<NodeOf<Shape_>> node;
  };

  template<typename Shape_> inline Loaded<Shape_> load_file(const FileEntry& fe)
  {
    Loaded<Shape_> L; L.atlas.reset(new AtlasOf<Shape_>()); L.parts.reset(new FEAT::Geometry::PartitionSet());
    std::deque<FEAT::String> names; for(auto& x : fe.extra) names.push_back(feat_root() + "/data/meshes/" + x); names.push_back(feat_root() + "/data/meshes/" + fe.name);
    FEAT::Geometry::MeshFileReader rd; rd.add_mesh_files(names);
    rd.read_root_markup();
    L.node = rd.parse<MeshOf<Shape_>>(*L.atlas, L.parts.get());
    return L;
  }
  // ------------------------------------------------------------------------------------------------------------
  // G-mesh: one generated mesh node (sources a-d of DESIGN.md §3)
  // ------------------------------------------------------------------------------------------------------------
  struct GenOpts
  {
    int max_n2 = 7, max_n3 = 3;        // grid extents
    long max_file_cells = 150;         // shipped files up to this many cells
    int lattice_depth = 2;             // refinement depth the jitter has to survive
    bool allow_mirror = true;
    bool keep_file_parts = true;       // false: always go through the raw mesh (parts dropped)
    const char* excl_tria_flip = "c10-tria-flip";   // known-finding switch: tetrahedral meshes avoid deduct_topology_from_top()
    bool tetra_always_factory = false; // checks that do not own that finding never build tetrahedra through deduct_topology_from_top()
  };
  struct GenInfo
  {
    std::string src; bool file_unmodified = false, renumbered = false; int reoriented = 0, reflected = 0, aff = 0; double jit = 0.0;
    std::string build;         // how the feat3 mesh was made from the raw mesh: "deduct" | "factory" | "" (feat3 object used as is)
    std::string invalid;       // non-empty: the mesh feat3 built from a valid raw mesh fails the structural validator
    bool neigh_valid = true;   // MeshFileReader does not fill the neighbour index set (callers that need it call fill_neighbors())
    vf::J desc = vf::J::obj();
  };

  /// files the generator never offers, with the reason
  inline bool file_excluded(const std::string& n)
  {
    // druda_bench_01_tria.xml lists two edges (4-0 and 9-5) that are not faces of any triangle (V-E+F = -2 for a
    // domain with one hole): not a conforming mesh, outside the quantifier of C10.
    if(n == "druda_bench_01_tria.xml") return true;
    // scalexa_gendie_simple.xml refers to a chart 'surface' that no shipped file defines (reader throws).
    if(n == "scalexa_gendie_simple.xml") return true;
    return false;
  }

  template<typename Shape_> inline Loaded<Shape_> gen_node(vf::Tape& t, vf::Ctx& c, const GenOpts& o, GenInfo& gi)
  {
    constexpr int sd = Shape_::dimension; constexpr bool simplex = ShapeInfo<Shape_>::simplex;
    typedef typename FEAT::Geometry::Intern::OtherShape<Shape_>::Type Other;
    Loaded<Shape_> L; Raw raw; bool have_raw = false;
    const int src = t.pick({3, 2, 3, 1, 1});
    const int maxn = (sd == 2 ? o.max_n2 : (simplex ? std::max(1, o.max_n3 - 1) : o.max_n3));
    auto dims = [&](int& nx, int& ny, int& nz) { nx = t.sized(1, maxn, 1); ny = t.sized(1, maxn, 1); nz = (sd == 3 ? t.sized(1, maxn, 1) : 1); };
    switch(src)
    {
    case 0: case 1:
      {
        int nx, ny, nz; dims(nx, ny, nz); std::vector<char> keep; int diag = simplex && sd == 2 ? t.range(0, 1) : 0;
        if(src == 1)
        {
          keep.assign(size_t(nx * ny * nz), 1); Chooser ch(t, keep.size(), 64); bool any = false;
          for(auto& k : keep) { k = (ch.pick(4) == 1) ? 0 : 1; any = any || k; }
          if(!any) keep[0] = 1;
        }
        raw = grid(simplex, sd, nx, ny, nz, keep, diag); have_raw = true;
        gi.src = src == 0 ? "grid" : "holes"; gi.desc.set("grid", vf::J(std::vector<int>{nx, ny, nz})); if(simplex && sd == 2) gi.desc.set("diag", diag);
        if(src == 1) { std::string m; for(char k : keep) m += k ? '1' : '0'; gi.desc.set("keep", m); }
        break;
      }
    case 2:
      {
        static const std::vector<FileEntry> files = [&] { auto all = list_files(ShapeInfo<Shape_>::ftype(), 100000); std::vector<FileEntry> r; for(auto& f : all) if(!file_excluded(f.name)) r.push_back(f); return r; }();
        size_t nf = 0; while(nf < files.size() && files[nf].cells <= o.max_file_cells) ++nf;
        if(nf == 0) throw vf::Discard{"no mesh files"};
        const FileEntry& fe = files[size_t(t.range(0, int(nf) - 1))];
        L = load_file<Shape_>(fe); gi.src = "file"; gi.desc.set("file", fe.name); gi.neigh_valid = false;
        if(o.keep_file_parts && t.pick({3, 2}) == 0) { gi.file_unmodified = true; }
        else { raw = raw_of<Shape_>(*L.node->get_mesh()); have_raw = true; L.node.reset(); }
        break;
      }
    case 3:
      {
        // feat3's own structured factory, used as is or (below) re-numbered like every other raw mesh
        int nx, ny, nz; dims(nx, ny, nz);
        FEAT::Geometry::StructUnitCubeFactory<MeshOf<Shape_>> fac{Index(nx), Index(ny), Index(nz)};
        std::unique_ptr<MeshOf<Shape_>> m(new MeshOf<Shape_>(fac));
        gi.src = "factory"; gi.desc.set("struct", vf::J(std::vector<int>{nx, ny, nz}));
        if(t.flag()) { raw = raw_of<Shape_>(*m); have_raw = true; }
        else { L.node = NodeOf<Shape_>::make_unique(std::move(m)); gi.file_unmodified = true; }
        break;
      }
    default:
      {
        // ShapeConvertFactory applied to a grid of the other shape
        int nx, ny, nz; dims(nx, ny, nz); if(sd == 3) { nx = std::min(nx, 2); ny = std::min(ny, 2); nz = std::min(nz, 2); }
        Raw oraw = grid(!simplex, sd, nx, ny, nz, {}, 0);
        // the intermediate mesh of the other shape is built like every raw mesh (see below); an inconsistent result is reported
        const bool ofac = (sd == 3 && !simplex && (o.tetra_always_factory || c.excl(o.excl_tria_flip))) || t.flag(1, 3);
        auto onode = make_node<Other>(oraw, nullptr, ofac);
        gi.invalid = validate(flatten<Other>(*onode->get_mesh(), true)); gi.build = ofac ? "factory" : "deduct";
        gi.desc.set("convert_input_build", gi.build);
        if(!gi.invalid.empty()) { gi.src = "convert"; gi.desc.set("src", gi.src); c.label("src:convert"); return L; }
        FEAT::Geometry::ShapeConvertFactory<MeshOf<Shape_>> fac(*onode->get_mesh());
        std::unique_ptr<MeshOf<Shape_>> m(new MeshOf<Shape_>(fac));
        gi.src = "convert"; gi.desc.set("convert_from_grid", vf::J(std::vector<int>{nx, ny, nz}));
        if(t.flag()) { raw = raw_of<Shape_>(*m); have_raw = true; }
        else { L.node = NodeOf<Shape_>::make_unique(std::move(m)); gi.file_unmodified = true; }
        break;
      }
    }
    if(have_raw)
    {
      if(t.flag()) { renumber(raw, t); gi.renumbered = true; }
      const int ro = t.pick({4, 3, (o.allow_mirror ? 1 : 0)});
      if(ro >= 1) gi.reoriented = reorient(raw, t, ro == 2, &gi.reflected);
      gi.aff = t.pick({4, 1, 1, 1, 1, 1}); affine(raw, gi.aff);
      static const double alphas[3] = {0.0, 0.08, 0.2};
      gi.jit = jitter(raw, t, alphas[t.pick({3, 1, 1})], o.lattice_depth);
      // two ways to turn a raw mesh into a feat3 mesh; tetrahedral meshes avoid deduct_topology_from_top() while the
      // known finding "c10-tria-flip" is active (its boundary-facet re-orientation corrupts the edges-at-triangle set)
      bool via_factory = t.flag(1, 3);
      if(sd == 3 && simplex && (o.tetra_always_factory || c.excl(o.excl_tria_flip))) via_factory = true;
      gi.build = via_factory ? "factory" : "deduct";
      L.atlas.reset(new AtlasOf<Shape_>()); L.node = make_node<Shape_>(raw, L.atlas.get(), via_factory); gi.neigh_valid = true;
      gi.invalid = validate(flatten<Shape_>(*L.node->get_mesh(), true));
      gi.desc.set("build", gi.build); c.label("build:" + gi.build);
      if(raw.cells.size() <= 12) gi.desc.set("mesh", raw.json());
    }
    gi.desc.set("src", gi.src);
    if(gi.renumbered) gi.desc.set("renumbered", true);
    if(gi.reoriented) gi.desc.set("reoriented_cells", gi.reoriented);
    if(gi.reflected) gi.desc.set("reflected_cells", gi.reflected);
    if(gi.aff) gi.desc.set("affine", gi.aff);
    if(gi.jit > 0) gi.desc.set("jitter", gi.jit);
    c.label("src:" + gi.src);
    if(gi.file_unmodified) c.label("xform:none"); else { if(gi.renumbered) c.label("xform:renumbered"); if(gi.reoriented) c.label("xform:reoriented"); if(gi.reflected) c.label("xform:mirrored"); if(gi.aff) c.label("xform:affine"); if(gi.jit > 0) c.label("xform:jitter"); }
    return L;
  }
} // namespace mg
